"""C10  Authorization is enforced: denied layers stay dark, limited areas are clipped.

Model: coq/theories/Auth.v, lemmas Auth_proofs.v, theorems coq/props/P_C10.v.

Tie (correspondence, three streams; every stream also evaluates the property oracle in Python on what the
implementation did, independently of the model):
  merge  the real LayerMerger.merge (mapproxy/image/merge.py, mask.py) on random small layer images with real
         GeomCoverage objects (per-layer clip, global clip, opacity, transparent/bgcolor, the single-layer shortcut)
         against Auth.merge_image, bit for bit; the rasterised mask is taken from image_mask_from_geom and is
         separately compared with exact point-in-polygon for pixels more than one pixel from the boundary.
  app    real WSGI applications (generated layer trees with groups, direct WMS sources, png and jpeg caches, TMS,
         KML, WMTS KVP/REST, WMS GetMap / GetFeatureInfo, WMTS GetFeatureInfo) with a generated
         environ['mapproxy.authorize'] callback and a recording upstream: status, callback arguments, render list
         (LimitedLayer wrappers), global coverage, upstream log and response pixels against Auth.wms_map,
         wms_featureinfo, tile_render, wmts_featureinfo, merge_px, tile_masked_px.
  caps   WMS GetCapabilities with a partial result against Auth.wms_capabilities (FilteredRootLayer).
  utm    tile services on a UTM grid with a limit given in EPSG:4326 (curved tile edges): decisions against
         Auth.tile_render, every second pixel against its true latitude (pyproj).
  invalid  (fixed probe, independent of the seed) limited_to given as a self-crossing polygon ("bow tie") in the SRS of
         the request, per layer and global, WKT and shapely object, WMS / TMS / KML / WMTS and the mask functions
         directly: an error answer delivers nothing; if an image is delivered, no pixel more than one pixel outside
         the geometry may be visible (oracle only; the same area as a valid MULTIPOLYGON is the control).
  Configurations also vary services.wms.bbox_srs extents, on_source_errors: raise, sources with their own coverage
  (clip true / false); requests include deep zoom (0.2 m per pixel) with geometries thousands of km wide.
  The geometric predicates the model takes as inputs (point in geometry, tile contains / intersects, pixel
  outside) are computed by the harness from the generated shape with its own exact arithmetic, never read back
  from the implementation.
"""
import io
import json
import math
import os
from fractions import Fraction

from common import blit, llit, olit, zlit

ID = 'C10'
TECHNIQUE = ('Coq proof over the Gallina model of the authorization decisions and of per-pixel clipping + '
             'correspondence check against the real WSGI application and the real LayerMerger')
LEVEL_TEXT = ('Theorems for every layer tree, request, callback result and every pixel column (unbounded): a layer the '
              'callback does not permit never reaches the render / info list, an explicitly requested one gives 403, '
              'a pixel outside the global mask is the background, a clipped layer contributes nothing outside its mask, '
              'tiles outside are empty without a load, partial tiles are masked, feature info is gated by the point '
              'test.  The model is tied to mapproxy by running the real application with a generated authorize '
              'callback and comparing decisions, upstream log and pixels with the model evaluated by vm_compute.')
LEVEL_NOTE = ('Trusted: Coq kernel, the hand-written model Auth.v, the correspondence harness.  Validated only, not '
              'proved: the relation between the rasterised mask and the true geometry (-0.1 px buffer, PIL polygon '
              'fill, vertex-wise reprojection), shapely predicates, the Pillow integer formulas, opacity as an exact '
              'fraction (dyadic values); the intersection of the layer\'s and the global geometry of a tile request is an '
              'abstract geometry whose predicates are inputs.  Two defects found here were repaired in /repo (blend path '
              'painting white through a clipped layer; tile services ignoring the global limited_to when the layer entry '
              'has its own); their witnesses stay in the corpus.  Valid-input restriction of the generators: coordinates stay in '
              'the area where the projections are valid; the two geometries of one tile request are in the same SRS or both rectilinear.')
DESIGN_REF = 'DESIGN.md section 5, C10'
RULE = ('case = merge: (request options, layer modes/options/clip, masks, pixels); app: (layer tree, request, callback '
        'result, geometric predicates); non-trivial = partial/none/unauthenticated callback results or a clip mask with '
        'both inside and outside pixels; distinct by full tuple')
TRUSTED = ['model Auth.v hand-written from service/wms.py, service/tile.py, wmts.py, kml.py, layer.py, image/merge.py, '
           'image/mask.py; tie = differential run of the real application / LayerMerger vs the model',
           'geometric predicates given to the model are computed by the harness (exact rational point-in-polygon, '
           'distance in pixels) from the generated shapes']
ASSUMPTIONS = ['Pillow paste / alpha_composite / blend are pointwise with the integer formulas of Auth.v (checked bit for bit)',
               'the rasterised mask is outside for pixels more than one pixel outside the geometry and inside for pixels '
               'more than one pixel inside (checked on every generated mask)',
               'shapely contains / intersects agree with the exact predicates away from the boundary (checked)',
               'every upstream request goes through HTTPClient.open (recording upstream)']
EXPLANATION = ('decision logic proved for all trees / callback results / pixel columns; implementation driven through '
               'generated callbacks, shapes and requests and compared with the model')

CORPUS = os.path.join(os.path.dirname(os.path.dirname(os.path.dirname(os.path.abspath(__file__)))), 'corpus', 'C10')

SIG_BLEND = 'merge,layer-clip,blend-path-paints-white-outside'

# ----------------------------------------------------------------------------------------------- shapes
# A shape is given in coordinates relative to the query bbox (unit square, y up): list of polygons
# (exterior ring, [holes]).  It is the ground truth for the predicates.


def rect_ring(x0, y0, x1, y1):
    return [(x0, y0), (x1, y0), (x1, y1), (x0, y1)]


def gen_shape(rng, kind=None, rectilinear=False, huge_T=None):
    """returns {'kind':..., 'polys': [[ext, [holes]]...]} with dyadic relative coordinates"""
    q = lambda lo, hi: rng.randrange(int(lo * 16), int(hi * 16) + 1) / 16.0  # noqa
    kinds = ['rect', 'rect', 'lshape', 'hole', 'multi', 'all', 'far', 'bigl', 'bighole', 'frame'] + \
        ([] if rectilinear else ['tri', 'quad', 'tri', 'bigtri', 'bigtri'])
    kind = kind or rng.choice(kinds)
    if kind == 'all':
        j = rng.randrange(0, 8) / 16.0
        polys = [[rect_ring(-0.5 - j, -0.5, 1.5 + j, 1.5 + rng.randrange(0, 8) / 16.0), []]]
    elif kind == 'far':
        x0, y0 = rng.choice([(1.5, 1.5), (-2.0, 0.25), (0.25, 1.75), (1.25, -1.5)])
        polys = [[rect_ring(x0, y0, x0 + 0.5 + rng.randrange(0, 8) / 16.0, y0 + 0.75), []]]
    elif kind == 'rect':
        x0, y0 = q(-0.25, 0.6), q(-0.25, 0.6)
        x1, y1 = x0 + q(0.25, 0.9), y0 + q(0.25, 0.9)
        polys = [[rect_ring(x0, y0, x1, y1), []]]
    elif kind == 'lshape':
        x0, y0 = q(0.0, 0.3), q(0.0, 0.3)
        x1, y1 = q(0.7, 1.1), q(0.7, 1.1)
        xm, ym = q(0.4, 0.6), q(0.4, 0.6)
        polys = [[[(x0, y0), (x1, y0), (x1, ym), (xm, ym), (xm, y1), (x0, y1)], []]]
    elif kind == 'hole':
        x0, y0 = q(-0.2, 0.2), q(-0.2, 0.2)
        x1, y1 = q(0.8, 1.2), q(0.8, 1.2)
        hx0, hy0 = q(0.3, 0.45), q(0.3, 0.45)
        hx1, hy1 = q(0.55, 0.7), q(0.55, 0.7)
        polys = [[rect_ring(x0, y0, x1, y1), [rect_ring(hx0, hy0, hx1, hy1)]]]
    elif kind == 'multi':
        a0, b0 = q(-0.1, 0.2), q(-0.1, 0.5)
        polys = [[rect_ring(a0, b0, a0 + q(0.2, 0.3), b0 + q(0.2, 0.5)), []],
                 [rect_ring(0.6, q(0.0, 0.4), q(0.8, 1.2), q(0.6, 1.0)), []]]
    elif kind == 'bigl':
        # bounding box contains the whole query bbox, the notch cuts into it
        j = rng.randrange(0, 6) / 16.0
        nx, ny = q(0.3, 0.7), q(0.3, 0.7)
        corner = rng.choice(['ne', 'nw', 'se', 'sw'])
        lo, hi = -0.5 - j, 1.5 + j
        if corner == 'ne':
            ring = [(lo, lo), (hi, lo), (hi, ny), (nx, ny), (nx, hi), (lo, hi)]
        elif corner == 'nw':
            ring = [(lo, lo), (hi, lo), (hi, hi), (nx, hi), (nx, ny), (lo, ny)]
        elif corner == 'se':
            ring = [(lo, lo), (nx, lo), (nx, ny), (hi, ny), (hi, hi), (lo, hi)]
        else:
            ring = [(nx, lo), (hi, lo), (hi, hi), (lo, hi), (lo, ny), (nx, ny)]
        polys = [[ring, []]]
    elif kind == 'bighole':
        j = rng.randrange(0, 6) / 16.0
        hx0, hy0 = q(0.1, 0.4), q(0.1, 0.4)
        polys = [[rect_ring(-0.5 - j, -0.5, 1.5, 1.5 + j), [rect_ring(hx0, hy0, hx0 + q(0.3, 0.5), hy0 + q(0.3, 0.5))]]]
    elif kind == 'frame':
        # the query bbox lies completely in the hole: inside the bounding box, outside the geometry
        j = rng.randrange(0, 6) / 16.0
        polys = [[rect_ring(-1.0 - j, -1.0, 2.0, 2.0 + j), [rect_ring(-0.25, -0.25, 1.25, 1.25)]]]
    elif kind == 'bigtri':
        j = rng.randrange(0, 6) / 16.0
        c = q(0.8, 1.4)
        corner = rng.choice(['sw', 'ne'])
        if corner == 'sw':
            # x + y <= c (shifted by -0.5): cuts the query bbox diagonally
            polys = [[[(-0.5 - j, -0.5), (c + 0.5 + j + 0.5, -0.5), (-0.5 - j, c + 0.5 + j + 0.5)], []]]
        else:
            polys = [[[(1.5 + j, 1.5), (1.5 + j - 2.0 - c, 1.5), (1.5 + j, 1.5 - 2.0 - c)], []]]
    elif kind == 'huge':
        # a big triangle (vertices 2^18 query widths away) whose slanted border passes through the query bbox:
        # for deep zoom requests, where the far vertices have pixel coordinates beyond 2^24
        cx, cy = q(0.2, 0.8), q(0.2, 0.8)
        dx, dy = rng.choice([(3, 1), (1, 1), (2, -1), (1, 3), (5, -2), (-1, 2), (4, 3)])
        T = float(huge_T or 2 ** 18)
        sgn = rng.choice([1, -1])
        polys = [[[(cx - dx * T, cy - dy * T), (cx + dx * T, cy + dy * T), (cx - sgn * dy * T, cy + sgn * dx * T)], []]]
    elif kind == 'hugenotch':
        # a half plane (thousands of km wide) below the line y = cy with a small rectangular notch inside the query
        # bbox: border detail far below 1e-6 of the extent of the geometry
        T = float(huge_T or 2 ** 18)
        cy = q(0.5, 0.8)
        nx0 = q(0.15, 0.4)
        nx1 = nx0 + q(0.3, 0.5)
        d = q(0.2, 0.35)
        polys = [[[(-T, -T), (T, -T), (T, cy), (nx1, cy), (nx1, cy - d), (nx0, cy - d), (nx0, cy), (-T, cy)], []]]
    elif kind in ('fanA', 'fanB'):
        # two different polygons with the same four leading vertices (two users, one view)
        pre = [(-0.5, -0.5), (-0.5, 1.5), (-0.4375, 1.5), (-0.4375, 1.4375)]
        if kind == 'fanA':
            polys = [[pre + [(0.5, 1.4375), (0.5, -0.5)], []]]
        else:
            polys = [[pre + [(-0.4375, 0.5625), (1.5, 0.5625), (1.5, -0.5)], []]]
    elif kind == 'tri':
        polys = [[[(q(-0.2, 0.3), q(-0.2, 0.3)), (q(0.7, 1.2), q(-0.1, 0.5)), (q(0.2, 0.8), q(0.7, 1.2))], []]]
    else:  # convex quad
        polys = [[[(q(0.0, 0.3), q(0.0, 0.3)), (q(0.7, 1.0), q(0.1, 0.4)), (q(0.6, 0.9), q(0.7, 1.0)),
                   (q(0.1, 0.4), q(0.6, 0.9))], []]]
    return {'kind': kind, 'polys': [[[list(p) for p in ext], [[list(p) for p in h] for h in holes]]
                                    for ext, holes in polys]}


def _in_ring(ring, x, y):
    """exact ray casting (Fractions); points on the boundary are never asked (margin)"""
    x, y = Fraction(x), Fraction(y)
    inside = False
    n = len(ring)
    for i in range(n):
        x0, y0 = Fraction(ring[i][0]), Fraction(ring[i][1])
        x1, y1 = Fraction(ring[(i + 1) % n][0]), Fraction(ring[(i + 1) % n][1])
        if (y0 > y) != (y1 > y):
            xi = x0 + (y - y0) * (x1 - x0) / (y1 - y0)
            if x < xi:
                inside = not inside
    return inside


def _seg_dist(px, py, ax, ay, bx, by):
    dx, dy = bx - ax, by - ay
    l2 = dx * dx + dy * dy
    t = 0.0 if l2 == 0 else max(0.0, min(1.0, ((px - ax) * dx + (py - ay) * dy) / l2))
    return math.hypot(px - (ax + t * dx), py - (ay + t * dy))


def shape_class(shape, rx, ry, w, h, margin=1.0):
    """'in' / 'out' when the point (relative coordinates) lies more than `margin` pixels from the boundary
    (pixel = 1/w x 1/h of the unit square), otherwise 'near'."""
    inside = False
    dist = float('inf')
    for ext, holes in shape['polys']:
        if _in_ring(ext, rx, ry) and not any(_in_ring(hr, rx, ry) for hr in holes):
            inside = True
        for ring in [ext] + holes:
            n = len(ring)
            for i in range(n):
                a, b = ring[i], ring[(i + 1) % n]
                dist = min(dist, _seg_dist(rx * w, ry * h, a[0] * w, a[1] * h, b[0] * w, b[1] * h))
    if dist <= margin + 1e-3:
        return 'near'
    return 'in' if inside else 'out'


def shape_box_relation(shape):
    """(contains unit square, intersects unit square) by exact reasoning on the shape (own shapely call on the
    relative coordinates; the generated shapes keep a margin of at least 1/16 from the borderline cases)"""
    from shapely.geometry import Polygon, box
    from shapely.ops import unary_union
    g = unary_union([Polygon(ext, holes) for ext, holes in shape['polys']])
    b = box(0, 0, 1, 1)
    c, i = bool(g.contains(b)), bool(g.intersects(b))
    if c:
        robust = g.buffer(-1.0 / 32).contains(b)
    elif not i:
        robust = not g.buffer(1.0 / 32).intersects(b)
    else:
        robust = g.intersection(b).area > 1.0 / 64 and b.difference(g).area > 1.0 / 64
    return c, i, (1.0 if robust else 0.0)


def materialise(shape, form, srs_code, q_srs, q_bbox):
    """limited_to dictionary for a shape relative to the query extent (q_srs, q_bbox)."""
    bx0, by0, bx1, by1 = [float(v) for v in q_bbox]

    def absr(ring):
        pts = [(bx0 + p[0] * (bx1 - bx0), by0 + p[1] * (by1 - by0)) for p in ring]
        if srs_code != q_srs:
            import pyproj
            tr = pyproj.Transformer.from_crs(q_srs.replace('900913', '3857'), srs_code.replace('900913', '3857'), always_xy=True)
            pts = [tr.transform(x, y) for x, y in pts]
        return pts
    polys = [(absr(ext), [absr(hr) for hr in holes]) for ext, holes in shape['polys']]
    for ext, holes in polys:
        for x, y in ext:
            if not (math.isfinite(x) and math.isfinite(y)):
                return None
    if form == 'bbox':
        ext = polys[0][0]
        geom = [min(p[0] for p in ext), min(p[1] for p in ext), max(p[0] for p in ext), max(p[1] for p in ext)]
    elif form == 'shapely':
        from shapely.geometry import Polygon, MultiPolygon
        ps = [Polygon(ext, holes) for ext, holes in polys]
        geom = ps[0] if len(ps) == 1 else MultiPolygon(ps)
    else:
        def ring_txt(r):
            return '(' + ', '.join('%r %r' % (x, y) for x, y in r + [r[0]]) + ')'

        def poly_txt(ext, holes):
            return '(' + ', '.join(ring_txt(r) for r in [ext] + holes) + ')'
        if form == 'wkt_multi' and len(polys) > 1:
            geom = 'MULTIPOLYGON(' + ', '.join(poly_txt(e, hs) for e, hs in polys) + ')'
        else:
            geom = '\n'.join('POLYGON' + poly_txt(e, hs) for e, hs in polys)
    return {'srs': srs_code, 'geometry': geom}


def shape_bounds(shape):
    pts = [p for ext, _h in shape['polys'] for p in ext]
    return (min(p[0] for p in pts), min(p[1] for p in pts), max(p[0] for p in pts), max(p[1] for p in pts))


def is_rectilinear(shape):
    return shape['kind'] in ('rect', 'lshape', 'hole', 'multi', 'all', 'far', 'bigl', 'bighole', 'frame', 'fanA', 'fanB', 'hugenotch')


def gen_geom(rng, q_srs_choices=('EPSG:4326', 'EPSG:3857'), kind=None, huge_T=None):
    """a geometry spec: shape + form + srs (srs None = the srs of the query)"""
    cross = rng.random() < 0.35 and kind not in ('huge', 'hugenotch')
    shape = gen_shape(rng, kind=kind, rectilinear=cross, huge_T=huge_T)
    forms = ['wkt', 'shapely', 'wkt_multi']
    if shape['kind'] in ('rect', 'all', 'far'):
        forms += ['bbox', 'bbox']
    if shape['kind'] == 'hugenotch':
        forms = ['wkt', 'wkt', 'wkt_multi', 'shapely']
    return {'shape': shape, 'form': rng.choice(forms),
            'srs': rng.choice(['EPSG:4326', 'EPSG:3857', 'EPSG:900913']) if cross else None}


WORLD = {'EPSG:4326': (-180.0, -85.0, 180.0, 85.0), 'EPSG:3857': (-20037508.0, -19971868.0, 20037508.0, 19971868.0)}


def out_of_world(spec, q_srs, q_bbox):
    wb = WORLD[q_srs]
    bx0, by0, bx1, by1 = [float(v) for v in q_bbox]
    for ext, _holes in spec['shape']['polys']:
        for p in ext:
            x, y = bx0 + p[0] * (bx1 - bx0), by0 + p[1] * (by1 - by0)
            if not (wb[0] <= x <= wb[2] and wb[1] <= y <= wb[3]):
                return True
    return False


def geom_limited_to(spec, q_srs, q_bbox, cb=None):
    """the limited_to dictionary of a geometry spec for the query extent.  Geometries are only given in another
    SRS when every geometry of the callback result lies in the area where both projections are valid (coordinates
    outside of it are not valid input: reprojecting them gives garbage)"""
    srs = spec['srs'] or q_srs
    if srs != q_srs and srs.replace('900913', '3857') != q_srs:
        specs = [spec] if cb is None else list(cb['geoms'].values())
        if any(out_of_world(sp, q_srs, q_bbox) for sp in specs):
            srs = q_srs
    elif cb is not None and srs != q_srs and any(out_of_world(sp, q_srs, q_bbox) for sp in cb['geoms'].values()):
        srs = q_srs
    res = materialise(spec['shape'], spec['form'], srs, q_srs, q_bbox)
    if res is None:
        res = materialise(spec['shape'], spec['form'], q_srs, q_srs, q_bbox)
    return res


# ----------------------------------------------------------------------------------------------- callback specs

KINDS = ['full', 'partial', 'partial', 'partial', 'partial', 'none', 'unauthenticated', 'other']
FVALS = ['missing', 'false', 'true', 'true', 'true', 'truthy']


def fval_py(v):
    return {'false': False, 'true': True, 'truthy': 1}[v]


def add_geom(rng, geoms, kindsel=None):
    """new geometry with a bounding box distinct from the others of the same callback result (the harness
    recognises coverage objects by their bounds); returns its id"""
    gid = len(geoms) + 1
    for _try in range(50):
        g = gen_geom(rng, kind=kindsel)
        if all(shape_bounds(g['shape']) != shape_bounds(o['shape']) for o in geoms.values()):
            break
    geoms[str(gid)] = g
    return gid


def bias_callback(rng, cb, names, key):
    """make the interesting branch likely: partial result, feature `key` granted, geometries present"""
    cb['kind'] = 'partial'
    for n in names:
        if rng.random() < 0.8:
            p = cb['layers'].setdefault(n, {})
            p[key] = 'true'
            if p.get('limited_to') is None and rng.random() < 0.5:
                p['limited_to'] = add_geom(rng, cb['geoms'])
    if cb['limited_to'] is None and rng.random() < 0.4:
        cb['limited_to'] = add_geom(rng, cb['geoms'])


def gen_callback(rng, names, focus=None, want_geom=True):
    """names: all layer names of the configuration; focus: names that the request touches."""
    kind = rng.choice(KINDS)
    layers = {}
    geoms = {}
    def new_geom(kindsel=None):
        return add_geom(rng, geoms, kindsel)
    pool = list(names)
    for n in pool:
        r = rng.random()
        if focus and n in focus:
            if r < 0.12:
                continue
        elif r < 0.4:
            continue
        p = {}
        for key in ('map', 'featureinfo', 'tile'):
            v = rng.choice(FVALS)
            if v != 'missing':
                p[key] = v
        if want_geom and rng.random() < 0.4:
            p['limited_to'] = new_geom()
        layers[n] = p
    glob = new_geom() if (want_geom and rng.random() < 0.35) else None
    return {'kind': kind, 'layers': layers, 'limited_to': glob, 'geoms': geoms}


def callback_result(cb, q_srs, q_bbox):
    """the dictionary the authorize function returns"""
    kind = cb['kind']
    res = {'authorized': 'foo' if kind == 'other' else kind}

    def lim(g):
        return geom_limited_to(cb['geoms'][str(g)], q_srs, q_bbox, cb)
    if kind == 'partial' or cb.get('layers_always'):
        res['layers'] = {}
        for n, p in cb['layers'].items():
            e = {}
            for key in ('map', 'featureinfo', 'tile'):
                if key in p:
                    e[key] = fval_py(p[key])
            if p.get('limited_to') is not None:
                e['limited_to'] = lim(p['limited_to'])
            res['layers'][n] = e
    if cb['limited_to'] is not None:
        res['limited_to'] = lim(cb['limited_to'])
    return res


def permitted_py(cb, feature, name):
    """the property's reading of the callback result (independent of the model)"""
    if cb is None or cb['kind'] == 'full':
        return True
    if cb['kind'] != 'partial':
        return False
    return cb['layers'].get(name, {}).get(feature) == 'true'


def cb_lit(cb, name_id):
    if cb is None:
        return 'None'
    kind = {'full': 'A_full', 'partial': 'A_partial', 'none': 'A_none', 'unauthenticated': 'A_unauth',
            'other': 'A_other'}[cb['kind']]

    def fv(p, key):
        return {'missing': 'F_missing', 'false': 'F_false', 'true': 'F_true', 'truthy': 'F_truthy'}[p.get(key, 'missing')]
    ents = []
    for n, p in cb['layers'].items():
        ents.append('(%s, mk_perm %s %s %s %s)' % (zlit(name_id(n)), fv(p, 'map'), fv(p, 'featureinfo'), fv(p, 'tile'),
                                                   olit(p.get('limited_to'))))
    return '(Some (mk_cbres %s [%s] %s))' % (kind, '; '.join(ents), olit(cb['limited_to']))


# ----------------------------------------------------------------------------------------------- stream merge

def px_lit(p):
    return '(%d, %d, %d, %d)' % tuple(p)


def rgba_of(img):
    im = img.convert('RGBA')
    return list(im.getdata())


def gen_merge_case(rng, quick, deep=False):
    w, h = rng.choice([(6, 5), (8, 6), (7, 7), (10, 4)])
    nl = rng.choice([0, 1, 1, 1, 2, 2, 3])
    layers = []
    for _ in range(nl):
        mode = rng.choice(['RGB', 'RGBA'])
        style = rng.choice(['random', 'solid', 'opaque'])
        base = [rng.randrange(256) for _ in range(4)]
        pxs = []
        for _i in range(w * h):
            if style == 'random':
                p = [rng.randrange(256) for _ in range(4)]
                if rng.random() < 0.3:
                    p[3] = rng.choice([0, 255])
            elif style == 'solid':
                p = list(base)
            else:
                p = [rng.randrange(256) for _ in range(3)] + [255]
            if mode == 'RGB':
                p[3] = 255
            pxs.append(p)
        layers.append({'mode': mode, 'px': pxs,
                       'opts': None if rng.random() < 0.08 else {
                           'transparent': rng.choice([None, False, True, True]),
                           'opacity': rng.choice([None, None, None, [1, 2], [1, 4], [3, 4], [1, 1], [2, 1]])},
                       'cov': rng.choice([None, None, 'clip', 'clip', 'clip', 'noclip']),
                       'geom': gen_geom(rng)})
    if deep:
        # deep zoom in EPSG:3857, geometries with vertices about 10000 km away (pixel coordinates far beyond 2^24)
        res = rng.choice([0.25, 0.05, 0.01])
        T = 2 ** int(math.log(1.2e7 / (5 * w * res), 2))
        for ly in layers:
            ly['geom'] = gen_geom(rng, kind='huge', huge_T=T)
        x0, y0 = rng.randrange(-2000, 2000), rng.randrange(-2000, 2000)
        return {'size': [w, h], 'srs': 'EPSG:3857', 'bbox': [x0, y0, x0 + w * res / 1000.0, y0 + h * res / 1000.0],
                'ropts': {'mode': None, 'transparent': rng.choice([False, True, True]),
                          'bgcolor': rng.choice([None, '#000000', '#102030'])},
                'layers': layers, 'gcov': gen_geom(rng, kind='huge', huge_T=T) if rng.random() < 0.6 else None}
    return {'size': [w, h], 'srs': rng.choice(['EPSG:4326', 'EPSG:3857']),
            'bbox': rng.choice([[0, 0, 10 * w, 10 * h], [-80, -40, 0, 0], [5, 40, 5 + w, 40 + h], [-10, -5, 10, 5]]),
            'ropts': {'mode': rng.choice([None, None, None, 'RGB', 'RGBA']),
                      'transparent': rng.choice([None, False, True, True]),
                      'bgcolor': rng.choice([None, None, '#000000', '#102030', '#ff00ff'])},
            'layers': layers,
            'gcov': gen_geom(rng) if rng.random() < 0.5 else None}


def _ring_abs(ring, bbox):
    return [(bbox[0] + p[0] * (bbox[2] - bbox[0]), bbox[1] + p[1] * (bbox[3] - bbox[1])) for p in ring]


def run_merge_case(ctx, case, terms, descr):
    from PIL import Image, ImageColor
    from mapproxy.image import ImageSource
    from mapproxy.image.merge import LayerMerger
    from mapproxy.image.opts import ImageOptions
    from mapproxy.image.mask import mask_polygons, image_mask_from_geom
    from mapproxy.util.coverage import load_limited_to, coverage as mk_coverage
    from mapproxy.srs import SRS
    w, h = case['size']
    bbox = [float(v) for v in case['bbox']]
    if case['srs'] == 'EPSG:3857':
        bbox = [v * 1000.0 for v in bbox]
    srs = case['srs']
    n = w * h

    def mk_cov(spec, clip):
        lt = geom_limited_to(spec, srs, bbox)
        cov = load_limited_to(lt)
        if not clip:
            cov = mk_coverage(cov.geom, cov.srs, clip=False)
        return cov

    def mask_bits(cov):
        m = image_mask_from_geom((w, h), bbox, mask_polygons(bbox, SRS(srs), cov))
        return [v == 255 for v in m.getdata()]

    ro = case['ropts']
    image_opts = ImageOptions(mode=ro['mode'], transparent=ro['transparent'], bgcolor=ro['bgcolor'], format='image/png')
    merger = LayerMerger()
    metas, masks, shapes = [], [], []
    for ly in case['layers']:
        img = Image.new(ly['mode'], (w, h))
        img.putdata([tuple(p) if ly['mode'] == 'RGBA' else tuple(p[:3]) for p in ly['px']])
        o = ly['opts']
        lopts = None if o is None else ImageOptions(transparent=o['transparent'],
                                                    opacity=None if o['opacity'] is None else o['opacity'][0] / o['opacity'][1])
        src = ImageSource(img, image_opts=lopts)
        if lopts is None:
            src.image_opts = None
        cov = None if ly['cov'] is None else mk_cov(ly['geom'], ly['cov'] == 'clip')
        merger.add(src, cov)
        clip = ly['cov'] == 'clip'
        masks.append(mask_bits(cov) if clip else [False] * n)
        shapes.append(ly['geom']['shape'] if clip else None)
        metas.append((ly['mode'], o, clip))
    gcov = None if case['gcov'] is None else mk_cov(case['gcov'], True)
    gmask = mask_bits(gcov) if gcov is not None else [False] * n
    try:
        res = merger.merge(image_opts, size=(w, h), bbox=bbox, bbox_srs=srs, coverage=gcov)
        out_img = res.as_image()
        obs_mode = out_img.mode
        obs = [list(p) for p in rgba_of(out_img)]
        raised = None
    except Exception as e:  # noqa
        raised = type(e).__name__
        obs_mode, obs = 'RGB', []
    # ---- oracle (property, on the implementation)
    bgc = ImageColor.getrgb(ro['bgcolor']) if ro['bgcolor'] else (255, 255, 255)
    rgba_mode = (ro['mode'] == 'RGBA') or (ro['mode'] is None and bool(ro['transparent']))
    bg = list(bgc) + [0 if (ro['transparent'] and rgba_mode) else 255]
    rep = {'stream': 'merge', 'case': case}
    nontrivial = False
    if raised:
        ctx.fail('merge,raised', 'LayerMerger.merge raised %s' % raised, rep)
    else:
        # masks against the exact geometry
        for which, bits, shape in [('layer%d' % i, masks[i], shapes[i]) for i in range(len(masks))] + \
                [('global', gmask, case['gcov']['shape'] if case['gcov'] else None)]:
            if shape is None:
                continue
            if any(bits) and not all(bits):
                nontrivial = True
            for k in range(n):
                cls = shape_class(shape, (k % w + 0.5) / w, 1 - (k // w + 0.5) / h, w, h)
                if cls == 'out' and not bits[k]:
                    ctx.fail('mask,outside-pixel-not-masked', 'pixel %d (%s mask) lies more than one pixel outside the '
                             'geometry but is not masked' % (k, which), rep)
                    break
                if cls == 'in' and bits[k]:
                    ctx.fail('mask,inside-pixel-masked', 'pixel %d (%s mask) lies more than one pixel inside the '
                             'geometry but is masked' % (k, which), rep)
                    break
        for k in range(n):
            if gcov is not None and gmask[k] and obs[k] != bg:
                ctx.fail('merge,global-clip-leak', 'pixel %d outside the global mask is %r, background is %r' % (k, obs[k], bg), rep)
                break
            if case['layers'] and all(m[2] and masks[i][k] for i, m in enumerate(metas)) and obs[k] != bg:
                blend = (not rgba_mode) and any(m[1] and m[1]['opacity'] and m[1]['opacity'][0] < m[1]['opacity'][1]
                                                and masks[i][k] for i, m in enumerate(metas))
                ctx.fail(SIG_BLEND if blend else 'merge,layer-clip-leak',
                         'pixel %d lies outside the mask of every (clipped) layer but is %r, background is %r' % (k, obs[k], bg), rep)
                break
    ctx.case(('merge', json.dumps(case, sort_keys=True)), nontrivial, None)
    ctx.count('merge.layers=%d' % len(case['layers']))
    ctx.count('merge.global=%s' % (case['gcov'] is not None))
    ctx.count('merge.mode=%s' % ('RGBA' if rgba_mode else 'RGB'))
    # ---- Gallina case
    def mode_lit(m):
        return 'M_RGBA' if m == 'RGBA' else 'M_RGB'

    def lopts_lit(o):
        if o is None:
            return 'None'
        return '(Some (mk_lopts %s %s))' % (olit(o['transparent'], blit),
                                            olit(o['opacity'], lambda q: '(%d, %d)' % (q[0], q[1])))
    ms = llit(metas, lambda m: '(mk_lmeta %s %s %s)' % (mode_lit(m[0]), lopts_lit(m[1]), blit(m[2])))
    cols = []
    for k in range(n):
        col = llit(range(len(metas)), lambda i: '(%s, %s)' % (px_lit(case['layers'][i]['px'][k]), blit(masks[i][k])))
        cols.append('(%s, %s)' % (col, blit(gmask[k])))
    rol = '(mk_ropts %s %s %s)' % (olit(ro['mode'], mode_lit), olit(ro['transparent'], blit),
                                  olit(None if ro['bgcolor'] is None else ImageColor.getrgb(ro['bgcolor']),
                                       lambda c: '(%d, %d, %d)' % c))
    terms.append('(%s, %s, [%s], %s, (%s, %s))' % (rol, ms, '; '.join(cols), blit(gcov is not None), mode_lit(obs_mode),
                                                 llit(obs, px_lit)))
    descr.append({'stream': 'merge', 'case': case, 'observed_mode': obs_mode, 'observed': obs, 'raised': raised})


MERGE_TYPE = 'ropts * list lmeta * list (column * bool) * bool * (imode * list px)'
MERGE_CHECK = ("fun c => let '(o, ms, cols, g, obs) := c in "
               "let r := merge_image o ms cols g in "
               "list_eqb px_eqb (map (to_rgba (fst r)) (snd r)) (snd obs) && imode_eqb (fst r) (fst obs)")


def corr(ctx, name, imports, case_type, cases, checker, describe, shard=400, defs=''):
    """ctx.corr_check with one retry when Coq could not evaluate the cases (transient coqc failure on a loaded
    machine); disagreements are registered exactly as corr_check does."""
    import time
    from common import Broken
    bad = None
    for attempt in (0, 1):
        try:
            bad = ctx.coq_bad(name, imports, case_type, cases, checker, shard=shard, defs=defs)
            break
        except Broken as e:
            if attempt == 1 or not ctx.coq_ok:
                ctx.problem('correspondence', 'correspondence %s could not be evaluated' % name, str(e))
                return None
            time.sleep(2)
    for i in bad[:20]:
        ctx.problem('correspondence', 'model and implementation disagree in %s (case %d)' % (name, i),
                    {'case': describe(i), 'gallina': cases[i][:2000]})
    if len(bad) > 20:
        ctx.problem('correspondence', '%d further disagreements in %s' % (len(bad) - 20, name))
    return bad


def stream_merge(ctx, corpus):
    rng = ctx.rng
    terms, descr = [], []
    cases = [c['case'] for c in corpus if c.get('stream') == 'merge']
    for _ in range(ctx.n(220, 2500)):
        cases.append(gen_merge_case(rng, ctx.quick))
    for _ in range(ctx.n(30, 300)):
        cases.append(gen_merge_case(rng, ctx.quick, deep=True))
    for case in cases:
        try:
            run_merge_case(ctx, case, terms, descr)
        except Exception as e:  # noqa
            ctx.problem('harness', 'merge case could not be run: %r' % (e,), case)
    corr(ctx, 'merge', 'Auth', MERGE_TYPE, terms, MERGE_CHECK, lambda i: descr[i], shard=60)


# ----------------------------------------------------------------------------------------------- stream app

GRIDS = {
    'gnw': {'srs': 'EPSG:4326', 'bbox': [-180, -90, 180, 90], 'origin': 'nw', 'tile_size': [64, 64], 'num_levels': 5},
    'gmerc': {'base': 'GLOBAL_WEBMERCATOR', 'tile_size': [64, 64], 'num_levels': 5},
}


SRC_COVERAGE = (-180, -88, 180, 88)       # EPSG:4326


def color_of(i):
    return ((37 * i + 60) % 200 + 30, (91 * i + 20) % 200 + 30, (53 * i + 140) % 200 + 30)


def gen_config(rng):
    """JSON-able description of a configuration"""
    nsrc = rng.choice([3, 4, 5])
    sources = []
    for i in range(nsrc):
        sources.append({'id': i, 'transparent': rng.random() < 0.6, 'fi': rng.random() < 0.8,
                        'opacity': rng.choice([None, None, None, None, 0.5])})
    ncache = rng.choice([1, 2, 2])
    caches = []
    for k in range(ncache):
        caches.append({'id': k, 'source': rng.randrange(nsrc), 'format': rng.choice(['image/png', 'image/png', 'image/jpeg']),
                       'grid': rng.choice(['gnw', 'gmerc']), 'store': rng.random() < 0.3})
    # leaves
    nleaf = rng.choice([2, 3, 4, 5])
    leaves = []
    cache_pool = list(range(ncache))
    rng.shuffle(cache_pool)
    for i in range(nleaf):
        if cache_pool and (i == 0 or rng.random() < 0.35):
            leaves.append({'name': 'l%d' % i, 'sources': ['c%d' % cache_pool.pop()]})
        else:
            k = rng.choice([1, 1, 1, 2])
            leaves.append({'name': 'l%d' % i, 'sources': ['s%d' % j for j in rng.sample(range(nsrc), k)]})
    # grouping
    rng.shuffle(leaves)
    tree = []
    gi = 0
    items = list(leaves)
    while items:
        if len(items) >= 2 and rng.random() < 0.5:
            k = rng.choice([1, 2, 2, 3])
            ch = [items.pop() for _ in range(min(k, len(items)))]
            g = {'name': 'g%d' % gi, 'layers': ch}
            gi += 1
            if rng.random() < 0.25:
                g['sources'] = ['s%d' % rng.randrange(nsrc)]
            if rng.random() < 0.3 and tree:
                # nest an existing top-level entry
                g['layers'].append(tree.pop(rng.randrange(len(tree))))
            tree.append(g)
        else:
            tree.append(items.pop())
    cfg = {'sources': sources, 'caches': caches, 'tree': tree}
    # Sources that no cache uses may have a coverage of their own (about half of them; with and without clip: true).
    # It contains every request the generators make, so it never blanks a source; what it changes: a plain source
    # is added to the merger with that coverage (masked when clip is set), a LimitedLayer wrapper shadows it.
    # (chosen from a checksum of the configuration, not from rng)
    import zlib
    used = set(c['source'] for c in caches)
    for sc in sources:
        k = zlib.crc32(json.dumps([sc, tree], sort_keys=True).encode()) % 4
        if sc['id'] not in used and k >= 2:
            sc['coverage'] = {'bbox': list(SRC_COVERAGE), 'clip': k == 3}
    # services.wms.on_source_errors: raise selects the other render loop of LayerRenderer (checksum, not rng)
    if zlib.crc32(json.dumps(tree, sort_keys=True).encode()) % 5 < 2:
        cfg['on_source_errors'] = 'raise'
    if rng.random() < 0.3:
        x0, y0 = rng.randrange(-150, -60), rng.randrange(-70, -20)
        cfg['wms_extent'] = {'srs': 'EPSG:4326', 'bbox': [x0, y0, x0 + rng.randrange(90, 200), y0 + rng.randrange(50, 100)]}
    return cfg


def config_yaml(cfg, d):
    import yaml
    sources = {}
    for s in cfg['sources']:
        e = {'type': 'wms', 'req': {'url': 'http://upstream.invalid/s', 'layers': 'u%d' % s['id']},
             'supported_srs': ['EPSG:4326', 'EPSG:3857']}
        if s['transparent']:
            e['req']['transparent'] = True
        if s['fi']:
            e['wms_opts'] = {'featureinfo': True}
        if s['opacity'] is not None:
            e['image'] = {'opacity': s['opacity']}
        if s.get('coverage'):
            e['coverage'] = {'bbox': s['coverage']['bbox'], 'srs': 'EPSG:4326', 'clip': bool(s['coverage']['clip'])}
        sources['s%d' % s['id']] = e
    caches = {}
    for c in cfg['caches']:
        e = {'grids': [c['grid']], 'sources': ['s%d' % c['source']], 'format': c['format'], 'meta_size': [1, 1],
             'meta_buffer': 0}
        if not c['store']:
            e['disable_storage'] = True
        caches['c%d' % c['id']] = e

    def lay(t):
        e = {'name': t['name'], 'title': t['name']}
        if 'sources' in t:
            e['sources'] = t['sources']
        if 'layers' in t:
            e['layers'] = [lay(x) for x in t['layers']]
        return e
    doc = {
        'services': {'wms': dict({'md': {'title': 't'}, 'srs': ['EPSG:4326', 'EPSG:3857'],
                                  'image_formats': ['image/png', 'image/jpeg']},
                                 **({'bbox_srs': ['EPSG:3857', dict(cfg['wms_extent'])]} if cfg.get('wms_extent') else {}),
                                 **({'on_source_errors': cfg['on_source_errors']} if cfg.get('on_source_errors') else {})),
                     'tms': {}, 'kml': {},
                     'wmts': {'restful': True, 'kvp': True, 'featureinfo_formats': [{'mimetype': 'text/plain', 'suffix': 'txt'}]}},
        'layers': [lay(t) for t in cfg['tree']],
        'caches': caches, 'sources': sources, 'grids': GRIDS,
        'globals': {'cache': {'base_dir': os.path.join(d, 'cache'), 'lock_dir': os.path.join(d, 'locks'),
                              'tile_lock_dir': os.path.join(d, 'tlocks')},
                    'image': {'resampling_method': 'nearest'}},
    }
    p = os.path.join(d, 'mapproxy.yaml')
    with open(p, 'w') as f:
        yaml.safe_dump(doc, f)
    return p


class Upstream(object):
    """recording upstream behind HTTPClient.open"""

    def __init__(self):
        self.log = []

    def open(self, url, data=None, method=None):
        from urllib.parse import urlparse, parse_qs
        from PIL import Image
        q = dict((k.lower(), v[0]) for k, v in parse_qs(urlparse(url).query, keep_blank_values=True).items())
        req = q.get('request', '').lower()
        if req == 'getfeatureinfo':
            names = q.get('query_layers', '')
            self.log.append(('fi', [int(x[1:]) for x in names.split(',') if x]))
            b = io.BytesIO(('info:' + names).encode())
            b.headers = {'content-type': 'text/plain'}
            b.code = 200
            return b
        names = [int(x[1:]) for x in q.get('layers', '').split(',') if x]
        self.log.append(('map', names))
        w, h = int(q['width']), int(q['height'])
        fmt = q.get('format', 'image/png')
        img = Image.new('RGB', (w, h), color_of(names[-1]))
        b = io.BytesIO()
        img.save(b, 'JPEG' if 'jpeg' in fmt else 'PNG')
        b.seek(0)
        b.headers = {'content-type': fmt}
        b.code = 200
        return b


class Names(object):
    def __init__(self):
        self.ids = {}

    def __call__(self, n):
        if n not in self.ids:
            self.ids[n] = len(self.ids) + 1
        return self.ids[n]


def src_ids(obj):
    """identities of a map / info source object = numbers of the upstream layers it asks for
    (several for a source made by combined_layers)"""
    obj = getattr(obj, '_layer', obj) if type(obj).__name__ == 'LimitedLayer' else obj
    if hasattr(obj, 'tile_manager'):
        obj = obj.tile_manager.sources[0]
    return [int(n[1:]) for n in obj.client.request_template.params.layers]


def src_id(obj):
    return src_ids(obj)[0]


def tree_terms(root, query, names):
    """Gallina wlayer terms from the real layer objects"""
    def leaf_parts(ly):
        return (blit(bool(ly.is_opaque(query))), llit([src_id(s) for s in ly.map_layers]),
                llit([src_id(s) for s in ly.info_layers]))

    def term(ly):
        if type(ly).__name__ == 'WMSGroupLayer':
            this = 'None' if ly.this is None else '(Some (%s, %s, %s))' % leaf_parts(ly.this)
            return '(WGroup %s %s %s)' % (zlit(names(ly.name)), this, llit(ly.layers, term))
        return '(WLeaf %s %s %s %s)' % ((zlit(names(ly.name)),) + leaf_parts(ly))
    if root.name is None and type(root).__name__ == 'WMSGroupLayer' and root.this is None:
        return llit(root.layers, term)
    return llit([root], term)


def all_names(tree):
    out = []
    for t in tree:
        out.append(t['name'])
        out.extend(all_names(t.get('layers', [])))
    return out


def leaf_sources(tree, acc=None):
    acc = {} if acc is None else acc
    for t in tree:
        if 'sources' in t:
            acc[t['name']] = t['sources']
        leaf_sources(t.get('layers', []), acc)
    return acc


def gen_requests(rng, cfg, nreq):
    names = all_names(cfg['tree'])
    srcs = leaf_sources(cfg['tree'])
    tile_layers = [(n, s[0]) for n, s in srcs.items() if len(s) == 1 and s[0].startswith('c')]
    reqs = []
    for _ in range(nreq):
        r = rng.random()
        if r < 0.42 or not tile_layers:
            k = rng.choice([1, 1, 2, 2, 3])
            layers = [rng.choice(names) for _ in range(k)]
            srs = rng.choice(['EPSG:4326', 'EPSG:3857'])
            w, h = rng.choice([(40, 30), (32, 32), (48, 24)])
            if srs == 'EPSG:4326':
                x0, y0 = rng.randrange(-170, 100), rng.randrange(-80, 40)
                sx = rng.choice([10, 20, 40, 60])
                if cfg.get('wms_extent') and rng.random() < 0.5:
                    # reach beyond the configured extent of the WMS
                    eb = cfg['wms_extent']['bbox']
                    x0 = rng.choice([eb[0] - sx // 2, eb[2] - sx // 2, rng.randrange(eb[0], eb[2])])
                    y0 = rng.choice([eb[1] - sx // 4, eb[3] - sx // 4, rng.randrange(eb[1], eb[3])])
                bbox = [x0, y0, x0 + sx, y0 + sx * h / w]
            else:
                x0, y0 = rng.randrange(-150, 100) * 100000, rng.randrange(-100, 60) * 100000
                sx = rng.choice([1000000, 2000000, 4000000])
                bbox = [x0, y0, x0 + sx, y0 + sx * h // w]
            fmt = rng.choice(['image/png', 'image/png', 'image/jpeg'])
            req = {'type': 'map', 'layers': layers, 'srs': srs, 'bbox': bbox, 'size': [w, h], 'format': fmt,
                   'transparent': rng.random() < 0.5 and fmt == 'image/png',
                   'bgcolor': rng.choice([None, '0x000000', '0x104080'])}
            focus = layers
        elif r < 0.6:
            k = rng.choice([1, 1, 2])
            qlayers = [rng.choice(names) for _ in range(k)]
            layers = list(qlayers) if rng.random() < 0.8 else [rng.choice(names)]
            w, h = 40, 30
            x0, y0 = rng.randrange(-170, 100), rng.randrange(-80, 40)
            req = {'type': 'fi', 'layers': layers, 'qlayers': qlayers, 'srs': 'EPSG:4326', 'bbox': [x0, y0, x0 + 40, y0 + 30],
                   'size': [w, h], 'pos': [rng.randrange(2, w - 2), rng.randrange(2, h - 2)]}
            focus = layers + qlayers
        else:
            n, c = rng.choice(tile_layers)
            cache = cfg['caches'][int(c[1:])]
            z = rng.choice([0, 1, 2, 2, 3])
            gridw = {'gnw': (1, 1), 'gmerc': (1, 1)}[cache['grid']]
            nx, ny = gridw[0] * 2 ** z, gridw[1] * 2 ** z
            if cache['grid'] == 'gnw' and z > 0:
                ny = max(1, ny // 2)
            x, y = rng.randrange(nx), rng.randrange(ny)
            svc = rng.choice(['tms', 'kml', 'wmts_rest', 'wmts_kvp', 'wmts_fi', 'wmts_fi'])
            req = {'type': 'tile', 'service': svc, 'layer': n, 'grid': cache['grid'], 'tile': [x, y, z],
                   'format': 'jpeg' if cache['format'] == 'image/jpeg' else 'png',
                   'pos': [rng.randrange(3, 61), rng.randrange(3, 61)]}
            focus = [n]
        geomful = req['type'] != 'tile' or True
        req['cb'] = None if rng.random() < 0.06 else gen_callback(rng, names, focus=focus, want_geom=geomful)
        if req['cb'] is not None and rng.random() < 0.55:
            if req['type'] == 'map':
                if rng.random() < 0.6:
                    bias_callback(rng, req['cb'], names, 'map')
            elif req['type'] == 'fi':
                bias_callback(rng, req['cb'], names, 'featureinfo')
            elif req['type'] == 'tile':
                bias_callback(rng, req['cb'], [req['layer']], 'featureinfo' if req['service'] == 'wmts_fi' else 'tile')
        if req['type'] == 'tile' and req['cb'] is not None:
            # tile shapes: decisive relation to the tile
            for g in req['cb']['geoms'].values():
                if rng.random() < 0.5:
                    for _try in range(50):
                        sh = gen_shape(rng, kind=rng.choice(['all', 'far', 'rect', 'lshape']),
                                       rectilinear=g['srs'] is not None)
                        if all(shape_bounds(sh) != shape_bounds(o['shape']) for o in req['cb']['geoms'].values()):
                            break
                    g['shape'] = sh
                    if g['form'] == 'bbox' and g['shape']['kind'] not in ('rect', 'all', 'far'):
                        g['form'] = 'wkt'
        direct = sorted(n for n, ss in srcs.items() if all(x.startswith('s') for x in ss))
        if req['type'] == 'map' and direct and rng.random() < 0.07:
            # deep zoom (layers on direct sources: the small tile grids of the caches end far above this scale):
            # 0.2 m per pixel, limited to big triangles whose far vertices lie 10000 km away
            x0, y0 = rng.randrange(-3000000, 3000000), rng.randrange(-3000000, 3000000)
            req.update({'srs': 'EPSG:3857', 'bbox': [x0, y0, x0 + 8, y0 + 6], 'size': [40, 30], 'format': 'image/png',
                        'layers': [rng.choice(direct) for _ in range(rng.choice([1, 1, 2]))]})
            geoms, lays = {}, {}
            for n in names:
                if rng.random() < 0.85:
                    lays[n] = {'map': 'true'}
                    if rng.random() < 0.6:
                        lays[n]['limited_to'] = len(geoms) + 1
                        geoms[str(len(geoms) + 1)] = gen_geom(rng, kind=rng.choice(['huge', 'hugenotch']), huge_T=2 ** 18)
            glob = None
            if rng.random() < 0.4:
                glob = len(geoms) + 1
                geoms[str(glob)] = gen_geom(rng, kind=rng.choice(['huge', 'hugenotch']), huge_T=2 ** 18)
            req['cb'] = {'kind': 'partial', 'layers': lays, 'limited_to': glob, 'geoms': geoms}
        if req['type'] == 'fi' or (req['type'] == 'tile' and req['service'] == 'wmts_fi'):
            # query positions outside of the image / tile (X, Y, I, J are not range checked and are forwarded):
            # the coordinate that the limits are tested with lies beyond the requested bbox (checksum, not rng)
            import zlib
            k = zlib.crc32(json.dumps([req.get('bbox'), req.get('tile'), req['pos']]).encode())
            if k % 3 == 0:
                pw_, ph_ = (req['size'] if req['type'] == 'fi' else (64, 64))
                off = [-2, -1, 1, 2][(k // 3) % 4]
                which = (k // 12) % 3
                pos = list(req['pos'])
                if which in (0, 2):
                    pos[0] += off * pw_
                if which in (1, 2):
                    pos[1] += off * ph_
                ok_ = True
                if req['type'] == 'fi':
                    bb = req['bbox']
                    X_ = bb[0] + pos[0] / float(pw_) * (bb[2] - bb[0])
                    Y_ = bb[3] - pos[1] / float(ph_) * (bb[3] - bb[1])
                    wb_ = WORLD[req['srs']]
                    ok_ = wb_[0] < X_ < wb_[2] and wb_[1] < Y_ < wb_[3]
                if ok_:
                    req['pos'] = pos
        if req['type'] == 'tile' and req['cb'] is not None:
            # The tile services intersect the layer's and the global geometry in the SRS of the first one, so one of
            # them may be reprojected there and back (vertex by vertex).  That is exact for axis-parallel edges only:
            # geometries in different SRS are both rectilinear here (valid-input restriction, see LEVEL_NOTE).
            own_ = req['cb']['layers'].get(req['layer'], {}).get('limited_to')
            glob_ = req['cb']['limited_to']
            if own_ is not None and glob_ is not None:
                go, gg = req['cb']['geoms'][str(own_)], req['cb']['geoms'][str(glob_)]
                if go['srs'] != gg['srs'] and not (is_rectilinear(go['shape']) and is_rectilinear(gg['shape'])):
                    go['srs'] = gg['srs'] = None
        if req['type'] == 'map' and srs == 'EPSG:4326' and req['bbox'][3] > 84:
            # keep the request inside the area where the projections of the caches are valid
            dy = req['bbox'][3] - 84
            req['bbox'] = [req['bbox'][0], req['bbox'][1] - dy, req['bbox'][2], req['bbox'][3] - dy]
        reqs.append(req)
        if req['type'] in ('map', 'tile') and rng.random() < 0.12:
            reqs.extend(fan_pair(rng, req, names))
    return reqs


def fan_pair(rng, req, names):
    """two users, one view: the same request twice, limited to two different polygons that are given as shapely
    objects and share their four leading vertices (a history of two requests in one process)"""
    pair = []
    per_layer = rng.random() < 0.6
    for kind in ('fanA', 'fanB'):
        r = json.loads(json.dumps(req))
        perm = {'map': 'true', 'tile': 'true', 'featureinfo': 'true'}
        if per_layer:
            perm['limited_to'] = 1
        r['cb'] = {'kind': 'partial', 'layers': dict((n, dict(perm)) for n in names),
                   'limited_to': None if per_layer else 1,
                   'geoms': {'1': {'shape': gen_shape(rng, kind=kind), 'form': 'shapely', 'srs': None}}}
        pair.append(r)
    return pair


def request_url(req):
    if req['type'] == 'caps':
        return '/service?request=GetCapabilities&service=WMS&version=1.1.1'
    if req['type'] == 'map':
        u = ('/service?request=GetMap&service=WMS&version=1.1.1&srs=%s&bbox=%s&width=%d&height=%d&styles=&format=%s&layers=%s'
             % (req['srs'], ','.join(repr(float(v)) for v in req['bbox']), req['size'][0], req['size'][1], req['format'],
                ','.join(req['layers'])))
        if req['transparent']:
            u += '&transparent=true'
        if req['bgcolor']:
            u += '&bgcolor=' + req['bgcolor']
        return u
    if req['type'] == 'fi':
        return ('/service?request=GetFeatureInfo&service=WMS&version=1.1.1&srs=%s&bbox=%s&width=%d&height=%d&styles=&'
                'format=image/png&layers=%s&query_layers=%s&x=%d&y=%d&info_format=text/plain'
                % (req['srs'], ','.join(repr(float(v)) for v in req['bbox']), req['size'][0], req['size'][1],
                   ','.join(req['layers']), ','.join(req['qlayers']), req['pos'][0], req['pos'][1]))
    x, y, z = req['tile']
    svc = req['service']
    spath = {'gnw': 'EPSG4326', 'gmerc': 'EPSG3857'}[req['grid']]
    if svc == 'tms':
        return '/tms/1.0.0/%s/%s/%d/%d/%d.%s' % (req['layer'], spath, z, x, y, req['format'])
    if svc == 'kml':
        return '/kml/%s/%s/%d/%d/%d.%s' % (req['layer'], spath, z, x, y, req['format'])
    if svc == 'wmts_rest':
        return '/wmts/%s/%s/%d/%d/%d.%s' % (req['layer'], req['grid'], z, x, y, req['format'])
    if svc == 'wmts_kvp':
        return ('/service?service=WMTS&request=GetTile&version=1.0.0&layer=%s&style=&tilematrixset=%s&tilematrix=%d&'
                'tilecol=%d&tilerow=%d&format=image/%s' % (req['layer'], req['grid'], z, x, y, req['format']))
    return ('/service?service=WMTS&request=GetFeatureInfo&version=1.0.0&layer=%s&style=&tilematrixset=%s&tilematrix=%d&'
            'tilecol=%d&tilerow=%d&format=image/%s&infoformat=text/plain&i=%d&j=%d'
            % (req['layer'], req['grid'], z, x, y, req['format'], req['pos'][0], req['pos'][1]))


class Recorder(object):
    """interposition on LayerRenderer / LayerMerger.merge / TileLayer.render to observe the decisions"""

    def __init__(self):
        self.reset()

    def reset(self):
        self.render_layers = None
        self.groups = []
        self.merge_call = None
        self.cb_calls = []
        self.tile_cov = 'not-called'


def geom_key_of(srs, geom):
    if geom.is_empty:
        return ('empty',)
    # bounds alone are ambiguous (an intersection that keeps a sliver of a second part has the bounds of the
    # whole geometry): the area, to six significant digits, is part of the key
    # plus a digest of the vertex set (order independent): big geometries that differ in a small detail only agree in
    # bounds and, to six digits, in area
    pts = set()
    for poly in (geom.geoms if hasattr(geom, 'geoms') else [geom]):
        if poly.geom_type != 'Polygon':
            continue
        for ring in [poly.exterior] + list(poly.interiors):
            for x, y in ring.coords:
                pts.add((round(x, 3), round(y, 3)))
    return (srs.srs_code, tuple(round(v, 3) for v in geom.bounds), float('%.6g' % geom.area), hash(tuple(sorted(pts))))


def geom_key(cov):
    return geom_key_of(cov.srs, cov.geom)


def run_app_config(ctx, cfg, reqs, out):
    import mapproxy.client.http as H
    import mapproxy.service.wms as W
    import mapproxy.service.tile as T
    import mapproxy.image.merge as M
    from mapproxy.wsgiapp import make_wsgi_app
    from mapproxy.layer import MapQuery
    from mapproxy.srs import SRS
    from mapproxy.util.coverage import load_limited_to
    from webtest import TestApp
    from PIL import Image
    d = ctx.tmpdir('app')
    up = Upstream()
    rec = Recorder()
    orig_open = H.HTTPClient.open
    orig_rinit = W.LayerRenderer.__init__
    orig_rlayer = W.LayerRenderer._render_layer
    orig_merge = M.LayerMerger.merge
    orig_trender = T.TileLayer.render

    def rinit(self, layers, query, request, **kw):
        rec.render_layers = list(layers)
        return orig_rinit(self, layers, query, request, **kw)

    def rlayer(self, layer):
        # the layer objects that are rendered, after combined_layers
        try:
            cov = layer.coverage if type(layer).__name__ == 'LimitedLayer' else None
            rec.groups.append((None if cov is None else geom_key(cov), src_ids(layer)))
        except Exception as e:  # noqa
            rec.groups.append(('?', [-1]))
        return orig_rlayer(self, layer)

    def merge(self, image_opts, size=None, bbox=None, bbox_srs=None, coverage=None):
        if rec.merge_call is None and rec.render_layers is not None:
            lys = []
            for img, cov in self.layers:
                im = img.as_image()
                lys.append((im.mode, img.image_opts, bool(cov and cov.clip), im.convert('RGBA') if im.mode != 'RGBA' else im,
                            cov))
            rec.merge_call = {'layers': lys, 'coverage': coverage, 'size': size, 'bbox': bbox, 'srs': bbox_srs,
                              'opts': (image_opts.mode, image_opts.transparent, image_opts.bgcolor)}
        res = orig_merge(self, image_opts, size=size, bbox=bbox, bbox_srs=bbox_srs, coverage=coverage)
        if rec.merge_call is not None and 'result' not in rec.merge_call:
            try:
                rec.merge_call['result'] = res.as_image().convert('RGBA')
            except Exception:  # noqa
                rec.merge_call['result'] = None
        return res

    def trender(self, tile_request, use_profiles=False, coverage=None, decorate_img=None):
        rec.tile_cov = coverage
        return orig_trender(self, tile_request, use_profiles=use_profiles, coverage=coverage, decorate_img=decorate_img)

    H.HTTPClient.open = lambda self, url, data=None, method=None: up.open(url, data, method)
    W.LayerRenderer.__init__ = rinit
    W.LayerRenderer._render_layer = rlayer
    M.LayerMerger.merge = merge
    T.TileLayer.render = trender
    try:
        try:
            app = make_wsgi_app(config_yaml(cfg, d))
            server = app.handlers['service'].services['wms']
            tapp = TestApp(app)
        except Exception as e:  # noqa
            ctx.problem('harness', 'generated configuration rejected: %r' % (e,), cfg)
            return
        names = Names()
        query = MapQuery((0, 0, 10, 10), (10, 10), SRS(4326), 'image/png')
        tree = tree_terms(server.root_layer, query, names)
        out['_server'] = server
        cfg_names = all_names(cfg['tree'])
        srcs_of = leaf_sources(cfg['tree'])
        cache_src = dict(('c%d' % c['id'], c['source']) for c in cfg['caches'])

        def layer_src_ids(n):
            return [cache_src[s] if s.startswith('c') else int(s[1:]) for s in srcs_of.get(n, [])]
        fi_src = dict((s['id'], s['fi']) for s in cfg['sources'])
        for req in reqs:
            cb = req['cb']
            rec.reset()
            del up.log[:]
            extents = []

            def authorize(service, layers=[], environ=None, query_extent=None, **kw):
                rec.cb_calls.append((service, list(layers)))
                extents.append(query_extent)
                if query_extent is None:
                    # capabilities: no query extent; the shapes are placed in a fixed frame, all in EPSG:4326
                    return callback_result(caps_cb(cb), CAPS_FRAME[0], CAPS_FRAME[1])
                qs, qb = query_extent
                return callback_result(cb, qs.replace('900913', '3857'), qb)
            env = {} if cb is None else {'mapproxy.authorize': authorize}
            url = request_url(req)
            try:
                resp = tapp.get(url, extra_environ=env, expect_errors=True)
                status = resp.status_int
            except Exception as e:  # noqa
                resp, status = None, -1
                ctx.count('app.exception.' + type(e).__name__)
            if status >= 500:
                ctx.count('app.status500.' + ('not-queryable' if (resp is not None and 'not queryable' in resp.text) else 'other'))
            handle_response(ctx, cfg, req, cb, resp, status, rec, up, tree, names, extents, out,
                            layer_src_ids, fi_src, cfg_names)
    finally:
        H.HTTPClient.open = orig_open
        W.LayerRenderer.__init__ = orig_rinit
        W.LayerRenderer._render_layer = orig_rlayer
        M.LayerMerger.merge = orig_merge
        T.TileLayer.render = orig_trender


def geom_index(cb, q_srs, q_bbox):
    """bounds-key -> geometry id for the geometries of a callback result (to recognise coverage objects)"""
    from mapproxy.util.coverage import load_limited_to
    idx = {}
    if cb is None:
        return idx
    for g, spec in cb['geoms'].items():
        lt = geom_limited_to(spec, q_srs, q_bbox, cb)
        try:
            idx[geom_key(load_limited_to(lt))] = int(g)
        except Exception:  # noqa
            pass
    return idx


def decode(resp):
    from PIL import Image
    try:
        im = Image.open(io.BytesIO(resp.body))
        im.load()
        return im
    except Exception:  # noqa
        return None


def handle_response(ctx, cfg, req, cb, resp, status, rec, up, tree, names, extents, out, layer_src_ids, fi_src, cfg_names):
    rep = {'stream': 'app', 'case': {'config': cfg, 'requests': [req]}}
    kind = 'none' if cb is None else cb['kind']
    ctx.count('app.%s.%s' % (req['type'] if req['type'] != 'tile' else req['service'], kind))
    nontrivial = cb is not None and cb['kind'] != 'full'
    ctx.case(('app', json.dumps(req, sort_keys=True), json.dumps(cfg, sort_keys=True)), nontrivial,
             {'request': request_url(req), 'callback': None if cb is None else {k: cb[k] for k in ('kind', 'layers', 'limited_to')},
              'status': status})
    if req['type'] == 'caps':
        handle_caps(ctx, cfg, req, cb, resp, status, rec, tree, names, out, rep)
        return
    up_map = sorted(set(i for k, ns in up.log if k == 'map' for i in ns))
    up_fi = [i for k, ns in up.log if k == 'fi' for i in ns]
    feature = {'map': 'map', 'fi': 'featureinfo', 'tile': 'tile'}[req['type']]
    if req['type'] == 'tile' and req['service'] == 'wmts_fi':
        feature = 'featureinfo'
    # ---------------- oracle 1: nothing of a denied layer (upstream log), whatever the status
    if cb is not None:
        if req['type'] in ('map', 'fi'):
            # a source may be shared by several layers: it is legitimately requested when some permitted
            # layer with that source is part of the request closure; flag sources that belong only to denied layers
            allowed_src = set()
            for n in cfg_names:
                if permitted_py(cb, feature, n):
                    allowed_src.update(layer_src_ids(n))
            seen = up_map if req['type'] == 'map' else up_fi
            bad = [i for i in seen if i not in allowed_src]
            if bad or (cb['kind'] in ('none', 'unauthenticated', 'other') and (up_map or up_fi)):
                ctx.fail('%s,upstream-request-for-denied-layer' % req['type'],
                         'upstream sources %r were requested although no permitted layer uses them' % (bad or seen,), rep)
        else:
            if not permitted_py(cb, feature, req['layer']) and (up_map or up_fi):
                ctx.fail('tile,upstream-request-for-denied-layer', 'tile layer %s is denied but upstream was asked: %r'
                         % (req['layer'], up.log), rep)
            if not permitted_py(cb, feature, req['layer']) and status == 200:
                ctx.fail('tile,denied-layer-served', 'tile layer %s is denied but the answer is 200' % req['layer'], rep)
        if cb['kind'] == 'unauthenticated' and rec.cb_calls and status != 401:
            ctx.fail('unauthenticated-not-401', 'status %d for an unauthenticated result' % status, rep)
    if req['type'] == 'map':
        handle_map(ctx, cfg, req, cb, resp, status, rec, up_map, tree, names, extents, out, rep, layer_src_ids)
    elif req['type'] == 'fi':
        handle_fi(ctx, cfg, req, cb, resp, status, rec, up_fi, tree, names, extents, out, rep, layer_src_ids)
    else:
        handle_tile(ctx, cfg, req, cb, resp, status, rec, up_map, up_fi, names, extents, out, rep, fi_src)


CAPS_FRAME = ('EPSG:4326', [-90.0, -45.0, 90.0, 45.0])


def caps_cb(cb):
    c = json.loads(json.dumps(cb))
    for g in c['geoms'].values():
        g['srs'] = None
    return c


def handle_caps(ctx, cfg, req, cb, resp, status, rec, tree, names, out, rep):
    """WMS GetCapabilities against Auth.wms_capabilities (FilteredRootLayer)"""
    server = out.get('_server')
    if server is None or server.root_layer.name is not None:
        ctx.count('app.caps.skipped-named-root')
        return
    if rec.cb_calls and rec.cb_calls[0][0] != 'wms.capabilities':
        ctx.fail('caps,wrong-service-string', 'callback called with service %r' % (rec.cb_calls[0][0],), rep)
    if status == 200:
        import xml.etree.ElementTree as ET
        try:
            doc = ET.fromstring(resp.body)
        except Exception:  # noqa
            ctx.count('app.caps.unparsable')
            return
        listed = [el.find('Name').text for el in doc.iter('Layer') if el.find('Name') is not None]
        obs = 'CAP_ok %s' % llit([names(n) for n in listed])
    elif status in (401, 403):
        listed, obs = [], 'CAP_%d' % status
    else:
        ctx.count('app.caps.status=%d' % status)
        return
    pairs = []
    if cb is not None and cb['kind'] == 'partial':
        from shapely.geometry import Polygon, box
        from shapely.ops import unary_union
        fx0, fy0, fx1, fy1 = CAPS_FRAME[1]
        for g, spec in cb['geoms'].items():
            poly = unary_union([Polygon([(fx0 + p[0] * (fx1 - fx0), fy0 + p[1] * (fy1 - fy0)) for p in ext],
                                        [[(fx0 + p[0] * (fx1 - fx0), fy0 + p[1] * (fy1 - fy0)) for p in hr] for hr in holes])
                                for ext, holes in spec['shape']['polys']])
            for n, ly in server.layers.items():
                b = box(*ly.extent.llbbox)
                i = poly.intersects(b)
                if poly.buffer(0.5).intersects(b) != i or poly.buffer(-0.5).intersects(b) != i:
                    ctx.count('app.caps.skipped-borderline')
                    return
                if i:
                    pairs.append((int(g), names(n)))
        # oracle: a layer whose 'map' entry is missing or false is not listed
        bad = [n for n in listed if cb['layers'].get(n, {}).get('map') not in ('true', 'truthy')]
        if bad:
            ctx.fail('caps,denied-layer-listed', 'layers %r are listed in the capabilities although their map entry is missing '
                     'or false' % (bad,), rep)
    out.setdefault('caps_terms', []).append('(%s, %s, %s, (%s))' % (
        tree, cb_lit(cb, names), llit(pairs, lambda e: '(%d, %d)' % e), obs))
    out.setdefault('caps_descr', []).append({'stream': 'app', 'case': {'config': cfg, 'requests': [req]}, 'status': status,
                                              'listed': listed, 'intersecting(geometry,layer)': pairs})


def status_tag(status):
    return {200: 'ok', 401: '401', 403: '403'}.get(status, 'other')


def sample_pixels(rng_seed, w, h, k):
    import random
    r = random.Random(rng_seed)
    pts = set()
    for _ in range(k):
        pts.add((r.randrange(w), r.randrange(h)))
    # plus a coarse lattice
    for x in range(1, w, max(1, w // 6)):
        for y in range(1, h, max(1, h // 5)):
            pts.add((x, y))
    return sorted(pts)


def handle_map(ctx, cfg, req, cb, resp, status, rec, up_map, tree, names, extents, out, rep, layer_src_ids):
    groups = None
    w, h = req['size']
    q_srs = req['srs']
    q_bbox = [float(v) for v in req['bbox']]
    pw, ph = (q_bbox[2] - q_bbox[0]) / w, (q_bbox[3] - q_bbox[1]) / h
    # services.wms.bbox_srs with an extent: the request is cut down to the extent before it is authorized and
    # rendered; the callback's query_extent (the rendered sub bbox) is the frame of the geometries
    ext = cfg.get('wms_extent')
    want_bbox = list(q_bbox)
    if ext and ext['srs'] == q_srs:
        eb_ = [float(v) for v in ext['bbox']]
        if not (eb_[0] <= q_bbox[0] and eb_[1] <= q_bbox[1] and eb_[2] >= q_bbox[2] and eb_[3] >= q_bbox[3]):
            want_bbox = [max(q_bbox[0], eb_[0]), max(q_bbox[1], eb_[1]), min(q_bbox[2], eb_[2]), min(q_bbox[3], eb_[3])]
            if want_bbox[0] >= want_bbox[2] - pw or want_bbox[1] >= want_bbox[3] - ph:
                ctx.count('app.map.outside-or-at-the-edge-of-extent')
                return
    c_bbox = [float(v) for v in extents[0][1]] if (extents and extents[0] is not None) else list(want_bbox)
    sub = c_bbox != q_bbox
    cw, chh = (c_bbox[2] - c_bbox[0]) / pw, (c_bbox[3] - c_bbox[1]) / ph     # size of the frame in pixels
    offx, offy = int(round((c_bbox[0] - q_bbox[0]) / pw)), int(round((q_bbox[3] - c_bbox[3]) / ph))

    def frame(x, y):
        """relative coordinates of the centre of response pixel (x, y) in the callback's frame"""
        X, Y = q_bbox[0] + (x + 0.5) * pw, q_bbox[3] - (y + 0.5) * ph
        rx, ry = (X - c_bbox[0]) / (c_bbox[2] - c_bbox[0]), (Y - c_bbox[1]) / (c_bbox[3] - c_bbox[1])
        edge = 9.0 if req['format'] == 'image/jpeg' else 1.0      # pixel alignment of the sub image; jpeg blocks bleed over its edge
        if sub and not (edge < rx * cw < cw - edge and edge < ry * chh < chh - edge):
            return None
        return rx, ry
    # ---- observed decision
    if status == 200 and rec.render_layers is not None:
        gidx = geom_index(cb, q_srs, c_bbox)
        ents = []
        for ly in rec.render_layers:
            lim = None
            if type(ly).__name__ == 'LimitedLayer':
                lim = gidx.get(geom_key(ly.coverage), -1)
            ents.append((lim, src_id(ly)))
        gcov = None
        if rec.merge_call is not None and rec.merge_call['coverage'] is not None:
            gcov = gidx.get(geom_key(rec.merge_call['coverage']), -1)
        obs = '(W_ok %s %s)' % (llit(ents, lambda e: '(0, %s, %s)' % (olit(e[0]), zlit(e[1]))), olit(gcov))
        groups = [(None if k is None else gidx.get(k, -1), ids) for k, ids in rec.groups]
    elif status == 401:
        obs, ents, gcov = 'W_401', [], None
    elif status == 403:
        obs, ents, gcov = 'W_403', [], None
    else:
        obs, ents, gcov = 'W_unknown', [], None
        ctx.count('app.map.status=%d' % status)
    cbarg = rec.cb_calls[0][1] if rec.cb_calls else None
    if rec.cb_calls and rec.cb_calls[0][0] != 'wms.map':
        ctx.fail('map,wrong-service-string', 'callback called with service %r' % (rec.cb_calls[0][0],), rep)
    if extents and extents[0] is not None:
        es, eb = extents[0]
        tolx = [1e-6 * max(1.0, abs(b)) + (1.01 * max(pw, ph) if want_bbox != q_bbox else 0) for b in want_bbox]
        if es != q_srs or any(abs(a - b) > t for a, b, t in zip(eb, want_bbox, tolx)):
            ctx.fail('map,wrong-query-extent', 'callback got query_extent %r for request %r %r (expected %r)'
                     % (extents[0], q_srs, q_bbox, want_bbox), rep)
    # oracle: an explicitly requested layer that is part of the answer and is denied => 403 (or 401)
    if cb is not None and cbarg is not None and cb['kind'] not in ('full', 'unauthenticated'):
        expl = [n for n in cbarg if n in req['layers'] and not permitted_py(cb, 'map', n)]
        if expl and status != 403:
            ctx.fail('map,explicit-denied-not-403', 'layers %r are requested explicitly and denied, status is %d' % (expl, status), rep)
        if not expl and status == 403:
            ctx.fail('map,403-without-explicit-denied-layer', 'status 403 although every denied layer is implicit', rep)
    # sources behind caches that store tiles may be answered from disk: their upstream request is optional
    maybe = sorted(set(c['source'] for c in cfg['caches'] if c['store']))
    # (limited_to id, clip flag) of the coverages the merger got, when they can be matched with the render list
    mclips = None
    if status == 200 and rec.merge_call is not None:
        cv = combined_view(ents, rec.merge_call)
        if cv and len(cv) == len(rec.merge_call['layers']):
            mclips = [(c, bool(ml[2])) for c, ml in zip(cv, rec.merge_call['layers'])]
    out['map_terms'].append('(%s, %s, %s, %s, %s, %s, %s, %s, %s)' % (
        tree, llit([names(n) for n in req['layers']]), cb_lit(cb, names), obs,
        olit(None if cbarg is None else [names(n) for n in cbarg], llit), llit(up_map), llit(maybe),
        olit(groups, lambda gs: llit(gs, lambda g: '(%s, %s)' % (olit(g[0]), llit(g[1])))),
        olit(mclips, lambda l: llit(l, lambda e: '(%s, %s)' % (olit(e[0]), blit(e[1]))))))
    out['map_descr'].append({'stream': 'app', 'case': {'config': cfg, 'requests': [req]}, 'status': status,
                             'observed_render_list(lim,src)': ents, 'observed_rendered_groups(lim,srcs)': groups, 'observed_global_coverage': gcov,
                             'callback_layers_arg': cbarg, 'upstream_map_sources': up_map})
    if status != 200 or resp is None:
        return
    img = decode(resp)
    if img is None or img.size != (w, h):
        ctx.fail('map,bad-image', 'response is not a %dx%d image' % (w, h), rep)
        return
    rgba = img.convert('RGBA')
    jpeg = req['format'] == 'image/jpeg'
    # ---- pixels
    from PIL import ImageColor
    bgc = ImageColor.getrgb('#' + req['bgcolor'][2:]) if req['bgcolor'] else (255, 255, 255)
    bg = tuple(bgc) + ((0,) if req['transparent'] else (255,))
    margin = 9.0 if jpeg else (1.6 if sub else 1.0)
    geoms = {} if cb is None else cb['geoms']
    pts = sample_pixels(hash((w, h, len(ents))) & 0xffff, w, h, 14)
    mc = rec.merge_call
    # dense lattice (png answers): oracles 2, 3 and 4
    #  2: outside the global geometry => background;  3: outside the geometry of every rendered layer => background;
    #  4: the colour of a source whose layers (in this answer) are all limited to geometries that exclude the pixel
    #     must not show (layer content outside its geometry, e.g. clipped with another layer's limit)
    lim_ents = [(l, sx) for l, sx in ents if l is not None and l > 0]
    use = set(l for l, _s in lim_ents) | (set([gcov]) if gcov is not None and gcov > 0 else set())
    solid_src, solid_tol = None, 0
    if len(ents) == 1 and all(sc['opacity'] is None for sc in cfg['sources'] if sc['id'] == ents[0][1]):
        solid_src = ents[0][1]
        solid_tol = 40 if any(c['format'] == 'image/jpeg' and c['source'] == solid_src for c in cfg['caches']) else 3
    if use and not jpeg:
        blend_any = (not req['transparent']) and rec.merge_call is not None and any(
            o is not None and o.opacity is not None and o.opacity < 1 for _m, o, _c, _i, _cv in rec.merge_call['layers'])
        for y in range(1, h, 2):
            for x in range(1, w, 2):
                fr = frame(x, y)
                if fr is None:
                    continue
                rx, ry = fr
                got = rgba.getpixel((x, y))
                dcls = dict((g, shape_class(geoms[str(g)]['shape'], rx, ry, cw, chh, margin)) for g in use)
                if gcov is not None and gcov > 0 and dcls[gcov] == 'out' and got != bg:
                    ctx.fail('map,global-clip-leak', 'pixel (%d,%d) lies outside the global geometry but is %r (background %r)'
                             % (x, y, got, bg), rep)
                    return
                if ents and all(l is not None and l > 0 and dcls[l] == 'out' for l, _s in ents) and got != bg:
                    ctx.fail('map,layer-clip-leak,layer-with-opacity' if blend_any else 'map,layer-clip-leak',
                             'pixel (%d,%d) lies outside the geometry of every rendered layer but is %r (background %r)'
                             % (x, y, got, bg), rep)
                    return
                # content is kept well inside: a single opaque, fully visible source
                wb_ = WORLD[q_srs]
                X_, Y_ = q_bbox[0] + (x + 0.5) * pw, q_bbox[3] - (y + 0.5) * ph
                in_world = wb_[0] + 2 * pw < X_ < wb_[2] - 2 * pw and wb_[1] + 2 * ph < Y_ < wb_[3] - 2 * ph
                if len(ents) == 1 and solid_src is not None and in_world and all(v == 'in' for v in dcls.values()):
                    if got[3] != 255 or max(abs(a - b) for a, b in zip(got[:3], color_of(solid_src))) > solid_tol:
                        ctx.fail('map,content-lost-inside', 'pixel (%d,%d) lies well inside every geometry that applies but is %r, '
                                 'the upstream colour is %r' % (x, y, got, color_of(solid_src)), rep)
                        return
                if got[3] != 255:
                    continue
                for sid in set(sx for _l, sx in lim_ents):
                    if got[:3] != color_of(sid):
                        continue
                    lims = [l for l, sx in ents if sx == sid]
                    if all(l is not None and l > 0 and dcls[l] == 'out' for l in lims):
                        ctx.fail('map,layer-content-outside-its-geometry',
                                 'pixel (%d,%d) shows the colour %r of upstream layer u%d although every layer using it is '
                                 'limited to a geometry that excludes the pixel' % (x, y, got, sid), rep)
                        return
    for (x, y) in pts:
        fr = frame(x, y)
        if fr is None:
            continue
        rx, ry = fr
        mx, my = x - offx, y - offy
        cls = dict((int(g), shape_class(spec['shape'], rx, ry, cw, chh, margin)) for g, spec in geoms.items())
        got = rgba.getpixel((x, y))
        # oracle 2: outside the global geometry => background
        if gcov is not None and gcov > 0 and cls[gcov] == 'out':
            if (not jpeg and got != bg) or (jpeg and max(abs(a - b) for a, b in zip(got, bg)) > 24):
                ctx.fail('map,global-clip-leak', 'pixel (%d,%d) lies outside the global geometry but is %r (background %r)'
                         % (x, y, got, bg), rep)
                return
        # oracle 3: outside the geometry of every rendered layer (all limited) => background
        if ents and all(l is not None and l > 0 and cls[l] == 'out' for l, _s in ents):
            if (not jpeg and got != bg) or (jpeg and max(abs(a - b) for a, b in zip(got, bg)) > 24):
                blend = (not req['transparent']) and mc is not None and any(
                    o is not None and o.opacity is not None and o.opacity < 1 for _m, o, _c, _i, _cv in mc['layers'])
                ctx.fail('map,layer-clip-leak,layer-with-opacity' if blend else 'map,layer-clip-leak',
                         'pixel (%d,%d) lies outside the geometry of every rendered layer but is %r (background %r)'
                         % (x, y, got, bg), rep)
                return
        # correspondence of the pixel: the model's merge on the observed layer pixels with the harness' masks
        if mc is None or len(mc['layers']) != len(combined_view(ents, mc)):
            continue
        cov_of = combined_view(ents, mc)
        if any(c is not None and (c < 0 or cls[c] == 'near') for c in cov_of) or (gcov is not None and (gcov < 0 or cls[gcov] == 'near')):
            continue
        metas, col = [], []
        ok = mc.get('result') is not None and 0 <= mx < mc['result'].size[0] and 0 <= my < mc['result'].size[1]
        if not ok:
            continue
        for (mode, opts, clip, im, _cv), c in zip(mc['layers'], cov_of):
            op = None
            if opts is not None and opts.opacity is not None:
                fr = Fraction(opts.opacity).limit_denominator(1 << 20)
                if fr.denominator & (fr.denominator - 1):
                    ok = False
                op = (fr.numerator, fr.denominator)
            if c is None and _cv is not None:
                # a plain source with its own coverage (clipped when clip is set): by construction it contains the
                # frame, so no pixel lies outside; checked here on the coverage object's bbox
                cb_ = _cv.bbox
                if not (_cv.srs.srs_code == 'EPSG:4326' and cb_[0] <= SRC_COVERAGE[0] and cb_[1] <= SRC_COVERAGE[1]
                        and cb_[2] >= SRC_COVERAGE[2] and cb_[3] >= SRC_COVERAGE[3]):
                    ok = False
            elif clip != (c is not None):
                ok = False
            metas.append('(mk_lmeta %s %s %s)' % (
                'M_RGBA' if mode == 'RGBA' else 'M_RGB',
                'None' if opts is None else '(Some (mk_lopts %s %s))' % (
                    olit(None if opts.transparent is None else bool(opts.transparent), blit),
                    olit(op, lambda q: '(%d, %d)' % q)),
                blit(clip)))
            col.append('(%s, %s)' % (px_lit(im.getpixel((mx, my))), blit(c is not None and cls[c] == 'out')))
        if not ok or len(metas) == 0:
            continue
        omode, otr, obg = mc['opts']
        if omode not in (None, 'RGB', 'RGBA'):
            continue
        if isinstance(obg, str):
            obg = ImageColor.getrgb(obg)
        rol = '(mk_ropts %s %s %s)' % (olit(omode, lambda m: 'M_' + m), olit(None if otr is None else bool(otr), blit),
                                      olit(None if obg is None else tuple(obg[:3]), lambda c: '(%d, %d, %d)' % c))
        merged = mc.get('result')
        if merged is None or abs(merged.size[0] - cw) > 1.01 or abs(merged.size[1] - chh) > 1.01:
            continue
        mgot = merged.getpixel((mx, my))
        # the response is the encoded merged image (png may be quantised, jpeg is lossy)
        if max(abs(a - b) for a, b in zip(got, mgot)) > (40 if jpeg else 4) and not (jpeg and mgot[3] == 0):
            ctx.fail('map,response-differs-from-merged-image', 'pixel (%d,%d) of the response is %r, the merged image has %r'
                     % (x, y, got, mgot), rep)
            return
        out['px_terms'].append('(%s, [%s], [%s], %s, %s, %s)' % (
            rol, '; '.join(metas), '; '.join(col), olit(None if gcov is None else cls[gcov] == 'out', blit),
            px_lit(mgot), zlit(0)))
        out['px_descr'].append({'stream': 'app', 'case': {'config': cfg, 'requests': [req]}, 'pixel': [x, y], 'observed': list(got)})


def combined_view(ents, mc):
    """coverage id per merger layer: combined_layers may have merged adjacent render-list entries with equal
    coverage; blank layers are skipped by the renderer.  Returns a list as long as mc['layers'] or []."""
    res = []
    i = 0
    for (_m, _o, clip, _im, cov) in mc['layers']:
        # take the next render-list entry whose coverage matches
        if i >= len(ents):
            return []
        res.append(ents[i][0])
        k = i + 1
        if cov is None:
            while k < len(ents) and ents[k][0] is None:
                k += 1
                if len(res) + (len(ents) - k) < len(mc['layers']):
                    k -= 1
                    break
        else:
            while k < len(ents) and ents[k][0] == ents[i][0]:
                k += 1
                if len(res) + (len(ents) - k) < len(mc['layers']):
                    k -= 1
                    break
        i = k
    return res if i == len(ents) else []


def handle_fi(ctx, cfg, req, cb, resp, status, rec, up_fi, tree, names, extents, out, rep, layer_fi_ids):
    w, h = req['size']
    geoms = {} if cb is None else cb['geoms']
    x, y = req['pos']
    rx, ry = x / w, 1 - y / h        # InfoQuery.coord: linear map of the pixel position
    cls = dict((int(g), shape_class(spec['shape'], rx, ry, w, h, 0.5)) for g, spec in geoms.items())
    if any(v == 'near' for v in cls.values()):
        ctx.count('app.fi.skipped-near')
        return
    body = resp.text if (resp is not None and status == 200) else ''
    if status == 200:
        obs = 'FI_ok %s' % llit(up_fi)
    elif status in (401, 403):
        obs = 'FI_%d' % status
    else:
        obs = 'FI_notqueryable'
    if rec.cb_calls and rec.cb_calls[0][0] != 'wms.featureinfo':
        ctx.fail('fi,wrong-service-string', 'callback called with service %r' % (rec.cb_calls[0][0],), rep)
    # oracle: point outside the global geometry => nothing
    if cb is not None and cb['limited_to'] is not None and cb['kind'] not in ('full',) and cls[cb['limited_to']] == 'out':
        if up_fi or body.strip():
            ctx.fail('fi,answer-outside-global-geometry', 'feature info %r / upstream %r for a point outside the geometry'
                     % (body[:80], up_fi), rep)
    # oracle: an info source is asked only if some permitted layer using it is unlimited or contains the point
    if cb is not None and cb['kind'] == 'partial' and up_fi:
        allowed = set()
        for n, p in cb['layers'].items():
            if p.get('featureinfo') == 'true' and (p.get('limited_to') is None or cls[p['limited_to']] == 'in'):
                allowed.update(layer_fi_ids(n))
        bad = [i for i in up_fi if i not in allowed]
        if bad:
            ctx.fail('fi,answer-outside-layer-geometry', 'info sources %r were asked although every permitted layer using '
                     'them is limited to a geometry that does not contain the point' % (bad,), rep)
    pt = llit(sorted(g for g, v in cls.items() if v == 'in'))
    out['fi_terms'].append('(%s, %s, %s, %s, %s, (%s))' % (
        tree, llit([names(n) for n in req['qlayers']]), llit([names(n) for n in req['layers']]), cb_lit(cb, names), pt, obs))
    out['fi_descr'].append({'stream': 'app', 'case': {'config': cfg, 'requests': [req]}, 'status': status,
                            'upstream_fi_sources': up_fi, 'point_in': cls})


def shapes_box_relation(shapes):
    """relation of the intersection of several shapes to the unit square: (contains, intersects, robust)"""
    from shapely.geometry import Polygon, box
    from shapely.ops import unary_union
    g = None
    for shape in shapes:
        u = unary_union([Polygon(ext, holes) for ext, holes in shape['polys']])
        g = u if g is None else g.intersection(u)
    b = box(0, 0, 1, 1)
    c, i = bool(g.contains(b)), bool(g.intersects(b))
    if c:
        robust = g.buffer(-1.0 / 32).contains(b)
    elif not i:
        if not g.is_empty:
            robust = not g.buffer(1.0 / 32).intersects(b)
        else:
            # the shapes themselves must be clearly apart (or one of them clearly off the tile)
            us = [unary_union([Polygon(e, h) for e, h in sh['polys']]) for sh in shapes]
            robust = any(not u.buffer(1.0 / 32).intersects(b) for u in us) or \
                all(us[k].distance(us[k + 1]) > 1.0 / 32 for k in range(len(us) - 1))
    else:
        robust = g.intersection(b).area > 1.0 / 64 and b.difference(g).area > 1.0 / 64
    return c, i, bool(robust)


def tile_cov_index(cb, layer, q_srs, q_bbox):
    """key -> list of candidate lists of geometry ids (several when the coverages are geometrically equal, e.g. the
    intersection with a geometry that contains the other one), for the coverages a tile request of `layer` can be limited to:
    the layer's own geometry, the global one, and their intersection"""
    from mapproxy.util.coverage import load_limited_to
    idx = {}
    if cb is None:
        return idx
    own = cb['layers'].get(layer, {}).get('limited_to')
    glob = cb['limited_to']
    covs = {}
    for g in (own, glob):
        if g is not None:
            try:
                covs[g] = load_limited_to(geom_limited_to(cb['geoms'][str(g)], q_srs, q_bbox, cb))
                idx.setdefault(geom_key(covs[g]), []).append([g])
            except Exception:  # noqa
                pass
    if own in covs and glob in covs:
        geom = covs[own].geom.intersection(covs[glob].transform_to(covs[own].srs).geom)
        idx.setdefault(geom_key_of(covs[own].srs, geom), []).append([own, glob])
        try:
            # the same intersection built in the SRS of the grid (helper called with srs=grid.srs)
            from mapproxy.srs import SRS
            from mapproxy.util.geom import flatten_to_polygons
            import shapely.geometry
            gs = SRS(q_srs)
            g2 = covs[own].transform_to(gs).geom.intersection(covs[glob].transform_to(gs).geom)
            polys = flatten_to_polygons(g2)
            g2 = polys[0] if len(polys) == 1 else shapely.geometry.MultiPolygon(polys)
            k2 = geom_key_of(gs, g2)
            if [own, glob] not in idx.get(k2, []):
                idx.setdefault(k2, []).append([own, glob])
        except Exception:  # noqa
            pass
    return idx


def handle_tile(ctx, cfg, req, cb, resp, status, rec, up_map, up_fi, names, extents, out, rep, fi_src):
    geoms = {} if cb is None else cb['geoms']
    svc = req['service']
    cache = [c for c in cfg['caches'] if leaf_sources(cfg['tree'])[req['layer']][0] == 'c%d' % c['id']][0]
    want_service = {'tms': 'tms', 'kml': 'kml', 'wmts_rest': 'wmts', 'wmts_kvp': 'wmts', 'wmts_fi': 'wmts.featureinfo'}[svc]
    if rec.cb_calls and (rec.cb_calls[0][0] != want_service or rec.cb_calls[0][1] != [req['layer']]):
        ctx.fail('tile,wrong-callback-arguments', 'callback called with %r' % (rec.cb_calls[0],), rep)
    own = None if cb is None else cb['layers'].get(req['layer'], {}).get('limited_to')
    glob = None if cb is None else cb['limited_to']
    # the sets of geometries the request can be limited to (all of a set apply: intersection)
    cands = [[g] for g in (own, glob) if g is not None]
    if own is not None and glob is not None:
        cands.append([own, glob])
    lim_ids = [v for v in (own, glob) if v is not None]
    lname = names(req['layer'])
    sets_lit = lambda sets: llit(sets, llit)  # noqa
    if svc == 'wmts_fi':
        x, y = req['pos']
        if extents and extents[0] is not None and not (0 <= x <= 64 and 0 <= y <= 64):
            qs_, qb_ = extents[0]
            X_ = qb_[0] + x / 64.0 * (qb_[2] - qb_[0])
            Y_ = qb_[3] - y / 64.0 * (qb_[3] - qb_[1])
            wb_ = WORLD[qs_.replace('900913', '3857')]
            if not (wb_[0] < X_ < wb_[2] and wb_[1] < Y_ < wb_[3]):
                ctx.count('app.wmts_fi.skipped-position-outside-the-world')
                return
        cls = dict((int(g), shape_class(spec['shape'], x / 64.0, 1 - y / 64.0, 64, 64, 0.5)) for g, spec in geoms.items())
        if any(cls[g] == 'near' for g in lim_ids):
            return
        body = resp.text if (resp is not None and status == 200) else ''
        if status == 200:
            obs = 'FI_ok %s' % llit(up_fi)
        elif status in (401, 403):
            obs = 'FI_%d' % status
        else:
            obs = 'FI_notqueryable'
        infos = llit([cache['source']] if fi_src[cache['source']] else [])
        # oracle: a geometry that applies (the layer's, the global one) does not contain the point => nothing
        if cb is not None and cb['kind'] == 'partial':
            if any(cls[g] == 'out' for g in lim_ids) and (up_fi or body.strip()):
                ctx.fail('wmts-fi,answer-outside-geometry',
                         'feature info %r for a point outside the permitted geometry' % (body[:60],), rep)
        pin = [gs for gs in cands if all(cls[g] == 'in' for g in gs)]
        out['tfi_terms'].append('(%s, %s, %s, %s, (%s))' % (zlit(lname), infos, cb_lit(cb, names), sets_lit(pin), obs))
        out['tfi_descr'].append({'stream': 'app', 'case': {'config': cfg, 'requests': [req]}, 'status': status,
                                 'upstream_fi_sources': up_fi, 'point_in': cls})
        return
    rel = {}
    for gs in cands:
        rel[tuple(gs)] = shapes_box_relation([geoms[str(g)]['shape'] for g in gs])
    if any(not r[2] for r in rel.values()):
        ctx.count('app.tile.skipped-borderline')
        return
    cont = sets_lit([list(gs) for gs, v in rel.items() if v[0]])
    inter = sets_lit([list(gs) for gs, v in rel.items() if v[1]])
    img = decode(resp) if (resp is not None and status == 200) else None
    alts = []
    # observed outcome
    if status in (401, 403):
        obs = 'TO_%d' % status
    elif status != 200 or img is None:
        ctx.count('app.tile.%s.status=%d' % (svc, status))
        if os.environ.get('C10_DEBUG'):
            print('TILE', status, request_url(req), (resp.text[-200:] if resp is not None and status != 200 else ''))
        return
    else:
        loaded = bool(up_map)
        rgba = img.convert('RGBA')
        alphas = rgba.getchannel('A').getextrema()
        cov = rec.tile_cov
        if not loaded and not cache['store']:
            obs = 'TO_empty'
        elif cov is None or cov == 'not-called':
            obs = 'TO_full'
        else:
            q_srs, q_bbox = extents[0] if extents and extents[0] else (None, None)
            gidx = tile_cov_index(cb, req['layer'], q_srs.replace('900913', '3857'), q_bbox) if q_srs else {}
            alts = gidx.get(geom_key(cov), [[-1]])
            gs_obs = alts[0]
            if resp.content_type == 'image/png' and alphas[0] == 0 and alphas[1] == 0:
                obs = 'TO_empty'
            elif alphas[0] == 0 and alphas[1] == 255:
                obs = 'TO_masked %s' % llit(gs_obs)
            else:
                obs = 'TO_full'
        # pixel oracle / correspondence
        if cb is not None and cb['kind'] == 'partial':
            col = color_of(cache['source'])
            for (x, y) in sample_pixels(x_seed(req), 64, 64, 20):
                rx, ry = (x + 0.5) / 64, 1 - (y + 0.5) / 64
                cls = dict((g, shape_class(geoms[str(g)]['shape'], rx, ry, 64, 64, 1.0)) for g in lim_ids)
                got = rgba.getpixel((x, y))
                if any(c == 'out' for c in cls.values()) and got[3] != 0:
                    ctx.fail('tile,clip-leak',
                             '%s tile %r of %s: pixel (%d,%d) lies outside the permitted geometry but is %r'
                             % (svc, req['tile'], req['layer'], x, y, got), rep)
                    break
                if lim_ids and all(c == 'in' for c in cls.values()):
                    tol = 40 if cache['format'] == 'image/jpeg' else 0
                    if got[3] != 255 or max(abs(a - b) for a, b in zip(got[:3], col)) > tol:
                        ctx.fail('tile,content-lost-inside', '%s tile: pixel (%d,%d) well inside the geometry is %r, upstream colour %r'
                                 % (svc, x, y, got, col), rep)
                        break
                if obs.startswith('TO_masked') and lim_ids:
                    # mask of the intersection: outside as soon as one geometry excludes the pixel
                    c = 'out' if any(v == 'out' for v in cls.values()) else ('in' if all(v == 'in' for v in cls.values()) else 'near')
                    if c != 'near':
                        out['tpx_terms'].append('(%s, %s, %s)' % (px_lit(col + (255,)), blit(c == 'out'), px_lit(got)))
                        out['tpx_descr'].append({'stream': 'app', 'case': {'config': cfg, 'requests': [req]}, 'pixel': [x, y],
                                                 'observed': list(got)})
    # alts: the sets of geometries whose coverage is geometrically equal to the observed one (the coverage object is
    # recognised by its geometry only, e.g. own /\ global = global when the own geometry contains the global one)
    out['tile_terms'].append('(%s, %s, %s, %s, (%s), %s, %s)' % (zlit(lname), cb_lit(cb, names), cont, inter, obs,
                                                               olit(None if (cache['store'] or status != 200) else bool(up_map), blit),
                                                               llit(alts, llit)))
    out['tile_descr'].append({'stream': 'app', 'case': {'config': cfg, 'requests': [req]}, 'status': status,
                              'observed': obs, 'upstream': up_map,
                              'relations(contains,intersects,robust)': dict((repr(k), v) for k, v in rel.items())})


def x_seed(req):
    return (req['tile'][0] * 31 + req['tile'][1] * 17 + req['tile'][2]) & 0xffff


APP_DEFS = """
Definition set_eqb (a b : list Z) : bool := forallb (fun x => mem x b) a && forallb (fun x => mem x a) b.
Definition strip (o : wms_out) : wms_out :=
  match o with W_ok rl c => W_ok (map (fun e : rentry => (0, snd (fst e), snd e)) rl) c | x => x end.
Definition inl (l : list Z) (g : Z) : bool := mem g l.
Definition inll (l : list (list Z)) (gs : list Z) : bool := existsb (list_eqb Z.eqb gs) l.
"""
MAP_TYPE = ('list wlayer * list Z * option cbres * wms_out * option (list Z) * list Z * list Z * option (list group) '
            '* option (list (option Z * bool))')
MAP_CHECK = ("fun c => let '(tree, req, cb, obs, cbarg, log, maybe, groups, mclips) := c in "
             "let m := wms_map tree req cb in "
             "wms_out_eqb (strip m) obs "
             "&& match cbarg with Some a => list_eqb Z.eqb a (wms_map_cbarg tree req) | None => true end "
             "&& forallb (fun x => mem x (wms_log m)) log "
             "&& forallb (fun x => mem x log || mem x maybe) (wms_log m) "
             "&& match groups, m with "
             "   | Some gs, W_ok rl _ => groups_ok (map (fun e : rentry => (snd (fst e), snd e)) rl) gs "
             "   | _, _ => true end "
             "&& match mclips with Some l => limited_layers_clip l | None => true end")
FI_TYPE = 'list wlayer * list Z * list Z * option cbres * list Z * fi_out'
FI_CHECK = ("fun c => let '(tree, ql, ls, cb, pin, obs) := c in "
            "match wms_featureinfo tree ql ls cb (inl pin), obs with "
            "| W_ok rl _, FI_ok l => list_eqb Z.eqb (map (fun e : rentry => snd e) rl) l "
            "| W_401, FI_401 | W_403, FI_403 => true "
            "| W_notqueryable, FI_notqueryable | W_unknown, FI_notqueryable => true "
            "| _, _ => false end")
TILE_TYPE = 'Z * option cbres * list (list Z) * list (list Z) * tile_out * option bool * list (list Z)'
TILE_CHECK = ("fun c => let '(n, cb, cont, inter, obs, loaded, alts) := c in "
              "let m := tile_render n cb (inll cont) (inll inter) in "
              "(tile_out_eqb m obs || match m, obs with TO_masked g, TO_masked _ => inll alts g | _, _ => false end) && match loaded with Some b => Bool.eqb (tile_loads m) b | None => true end")
CAPS_TYPE = 'list wlayer * option cbres * list (Z * Z) * cap_out'
CAPS_CHECK = ("fun c => let '(tree, cb, pairs, obs) := c in "
              "cap_out_eqb (wms_capabilities tree cb (fun g n => existsb (fun e : Z * Z => (fst e =? g) && (snd e =? n)) pairs)) obs")
TFI_TYPE = 'Z * list Z * option cbres * list (list Z) * fi_out'
TFI_CHECK = ("fun c => let '(n, infos, cb, pin, obs) := c in fi_out_eqb (wmts_featureinfo n infos cb (inll pin)) obs")
PX_TYPE = 'ropts * list lmeta * column * option bool * px * Z'
PX_CHECK = ("fun c => let '(o, ms, col, g, obs, tol) := c in "
            "let r := match ms with "
            "  | [m] => if fast_path_ok o m (match g with Some _ => true | None => false end) "
            "           then match col with (s, _) :: _ => to_rgba (lm_mode m) s | [] => clear_px end "
            "           else to_rgba (create_mode o) (merge_px o ms col g) "
            "  | _ => to_rgba (create_mode o) (merge_px o ms col g) end in "
            "px_close tol r obs")
TPX_TYPE = 'px * bool * px'
TPX_CHECK = "fun c => let '(s, out, obs) := c in px_close 40 (tile_masked_px M_RGB s out) obs && (negb out || px_eqb (tile_masked_px M_RGB s out) obs)"


def stream_app(ctx, corpus):
    rng = ctx.rng
    out = dict((k, []) for k in ('map_terms', 'map_descr', 'fi_terms', 'fi_descr', 'tile_terms', 'tile_descr',
                                 'tfi_terms', 'tfi_descr', 'px_terms', 'px_descr', 'tpx_terms', 'tpx_descr'))
    for c in corpus:
        if c.get('stream') == 'app':
            run_app_config(ctx, c['case']['config'], c['case']['requests'], out)
    nconf = ctx.n(22, 150)
    nreq = ctx.n(24, 40)
    for _ in range(nconf):
        cfg = gen_config(rng)
        reqs = gen_requests(rng, cfg, nreq)
        # capabilities requests: generated from a checksum of the configuration (the stream of ctx.rng is not touched)
        import random
        import zlib
        r2 = random.Random(zlib.crc32(json.dumps(cfg, sort_keys=True).encode()))
        cnames = all_names(cfg['tree'])
        for _k in range(3):
            cbk = gen_callback(r2, cnames, focus=cnames)
            if r2.random() < 0.7:
                bias_callback(r2, cbk, cnames, 'map')
            reqs.append({'type': 'caps', 'cb': cbk if r2.random() < 0.95 else None})
        run_app_config(ctx, cfg, reqs, out)
    try:
        stream_utm(ctx, out)
    except Exception as e:  # noqa
        import traceback
        ctx.problem('harness', 'utm stream raised %r' % (e,), traceback.format_exc())
    corr(ctx, 'wms_map', 'Auth', MAP_TYPE, out['map_terms'], MAP_CHECK, lambda i: out['map_descr'][i], shard=150, defs=APP_DEFS)
    corr(ctx, 'wms_featureinfo', 'Auth', FI_TYPE, out['fi_terms'], FI_CHECK, lambda i: out['fi_descr'][i], shard=150, defs=APP_DEFS)
    corr(ctx, 'tile_render', 'Auth', TILE_TYPE, out['tile_terms'], TILE_CHECK, lambda i: out['tile_descr'][i], shard=200, defs=APP_DEFS)
    corr(ctx, 'wmts_featureinfo', 'Auth', TFI_TYPE, out['tfi_terms'], TFI_CHECK, lambda i: out['tfi_descr'][i], shard=200, defs=APP_DEFS)
    corr(ctx, 'wms_capabilities', 'Auth', CAPS_TYPE, out.get('caps_terms', []), CAPS_CHECK, lambda i: out['caps_descr'][i],
         shard=200, defs=APP_DEFS)
    corr(ctx, 'map_pixels', 'Auth', PX_TYPE, out['px_terms'], PX_CHECK, lambda i: out['px_descr'][i], shard=400, defs=APP_DEFS)
    corr(ctx, 'tile_pixels', 'Auth', TPX_TYPE, out['tpx_terms'], TPX_CHECK, lambda i: out['tpx_descr'][i], shard=400, defs=APP_DEFS)


# ----------------------------------------------------------------------------------------------- stream utm

UTM_GRID = {'srs': 'EPSG:25832', 'bbox': [-12000, 3976000, 1012000, 6024000], 'origin': 'nw', 'tile_size': [256, 256],
            'res': [4000, 2000]}


def stream_utm(ctx, out):
    """Tile services on a UTM grid with a limit given in EPSG:4326 (a parallel of latitude, densified): the edges of a
    tile are curved in the SRS of the limit, its corners do not decide whether the tile lies inside.  The truth
    (latitude of every pixel, extreme latitudes of the tile outline) is computed with pyproj by the harness."""
    import yaml
    import pyproj
    import mapproxy.client.http as H
    from mapproxy.wsgiapp import make_wsgi_app
    from webtest import TestApp
    d = ctx.tmpdir('utm')
    doc = {
        'services': {'tms': {}, 'wmts': {'restful': True, 'kvp': True}, 'wms': {'md': {'title': 't'}, 'srs': ['EPSG:25832']}},
        'layers': [{'name': 'l0', 'title': 'l0', 'sources': ['c0']}],
        'caches': {'c0': {'grids': ['gutm'], 'sources': ['s0'], 'format': 'image/png', 'meta_size': [1, 1], 'meta_buffer': 0,
                          'disable_storage': True}},
        'sources': {'s0': {'type': 'wms', 'req': {'url': 'http://upstream.invalid/s', 'layers': 'u0'},
                           'supported_srs': ['EPSG:25832']}},
        'grids': {'gutm': UTM_GRID},
        'globals': {'cache': {'base_dir': os.path.join(d, 'cache'), 'lock_dir': os.path.join(d, 'locks'),
                              'tile_lock_dir': os.path.join(d, 'tlocks')}},
    }
    path = os.path.join(d, 'mapproxy.yaml')
    with open(path, 'w') as f:
        yaml.safe_dump(doc, f)
    up = Upstream()
    orig_open = H.HTTPClient.open
    H.HTTPClient.open = lambda self, url, data=None, method=None: up.open(url, data, method)
    tr = pyproj.Transformer.from_crs('EPSG:25832', 'EPSG:4326', always_xy=True)
    try:
        try:
            tapp = TestApp(make_wsgi_app(path))
        except Exception as e:  # noqa
            ctx.problem('harness', 'utm configuration rejected: %r' % (e,), doc)
            return
        rng = ctx.rng
        tiles = [(0, 0, 0), (0, 0, 0), (0, 0, 0), (1, 0, 0), (1, 1, 0), (1, 0, 1)]      # z, x, y (nw origin)
        for _ in range(ctx.n(16, 120)):
            z, x, y = rng.choice(tiles)
            res = UTM_GRID['res'][z]
            span = 256 * res
            bx0, by1 = UTM_GRID['bbox'][0] + x * span, UTM_GRID['bbox'][3] - y * span
            bbox = [bx0, by1 - span, bx0 + span, by1]
            # extreme latitudes of the outline (the edges are curved in EPSG:4326)
            outline = []
            for k in range(257):
                t = k / 256.0
                outline += [(bbox[0] + t * span, bbox[3]), (bbox[0] + t * span, bbox[1]),
                            (bbox[0], bbox[1] + t * span), (bbox[2], bbox[1] + t * span)]
            lats = list(tr.transform([e for e, _n in outline], [n_ for _e, n_ in outline])[1])
            corner_top = min(tr.transform(bbox[0], bbox[3])[1], tr.transform(bbox[2], bbox[3])[1])
            lat_max, lat_min = max(lats), min(lats)
            mode = rng.choice(['between', 'between', 'between', 'cross', 'cross', 'above', 'below'])
            if mode == 'between':       # above the upper corners, below the highest point of the upper edge
                cut = corner_top + rng.choice([0.2, 0.3, 0.4, 0.5]) * (lat_max - corner_top)
            elif mode == 'cross':
                cut = lat_min + rng.choice([0.3, 0.5, 0.7]) * (corner_top - lat_min)
            elif mode == 'above':
                cut = lat_max + 0.5
            else:
                cut = lat_min - 0.5
            mdeg = 1.2 * res / 111000.0
            if min(abs(cut - lat_max), abs(cut - lat_min)) < mdeg:
                continue
            # the permitted area: south of the parallel `cut`, densified so that its reprojection is accurate
            n = 1200
            ring = [(-30.0, 20.0), (50.0, 20.0)] + [(50.0 - 80.0 * k / n, cut) for k in range(n + 1)]
            wkt = 'POLYGON((' + ', '.join('%r %r' % p for p in ring + [ring[0]]) + '))'
            form = rng.choice(['wkt', 'shapely'])
            if form == 'shapely':
                import shapely.wkt
                geom = shapely.wkt.loads(wkt)
            else:
                geom = wkt
            per_layer = rng.random() < 0.5
            lt = {'srs': 'EPSG:4326', 'geometry': geom}
            calls = []

            def authorize(service, layers=[], environ=None, query_extent=None, **kw):
                calls.append((service, list(layers), query_extent))
                res_ = {'authorized': 'partial', 'layers': {'l0': {'tile': True}}}
                if per_layer:
                    res_['layers']['l0']['limited_to'] = lt
                else:
                    res_['limited_to'] = lt
                return res_
            svc = rng.choice(['tms', 'wmts_rest', 'wmts_kvp'])
            if svc == 'tms':
                ny = 2 ** z * 2
                url = '/tms/1.0.0/l0/EPSG25832/%d/%d/%d.png' % (z, x, ny - 1 - y)
            elif svc == 'wmts_rest':
                url = '/wmts/l0/gutm/%d/%d/%d.png' % (z, x, y)
            else:
                url = ('/service?service=WMTS&request=GetTile&version=1.0.0&layer=l0&style=&tilematrixset=gutm&tilematrix=%d&'
                       'tilecol=%d&tilerow=%d&format=image/png' % (z, x, y))
            del up.log[:]
            rep = {'stream': 'utm', 'url': url, 'tile_bbox': bbox, 'cut_latitude': cut, 'limit': 'layer' if per_layer else 'global',
                   'form': form, 'corner_latitude': corner_top, 'highest_latitude_of_the_tile': lat_max}
            try:
                resp = tapp.get(url, extra_environ={'mapproxy.authorize': authorize}, expect_errors=True)
                status = resp.status_int
            except Exception as e:  # noqa
                ctx.count('utm.exception.' + type(e).__name__)
                continue
            ctx.case(('utm', url, round(cut, 4), per_layer, form), True, rep)
            ctx.count('utm.%s.%s' % (svc, mode))
            if status != 200:
                ctx.count('utm.status=%d' % status)
                continue
            if calls and calls[0][2] is not None:
                qb = calls[0][2][1]
                if any(abs(a - b) > 1e-3 for a, b in zip(qb, bbox)):
                    ctx.count('utm.other-tile-bbox')     # the harness' idea of the tile is wrong: take the callback's
                    continue
            img = decode(resp)
            if img is None or img.size != (256, 256):
                ctx.fail('utm,bad-image', 'no 256x256 image', rep)
                continue
            rgba = img.convert('RGBA')
            col = color_of(0)
            leak = lost = None
            pts = [(px, py) for py in range(0, 256, 2) for px in range(0, 256, 2)]
            plats = tr.transform([bbox[0] + (px + 0.5) * res for px, _py in pts], [bbox[3] - (py + 0.5) * res for _px, py in pts])[1]
            for (px, py), lat in zip(pts, plats):
                if True:
                    got = rgba.getpixel((px, py))
                    if lat > cut + mdeg and got[3] != 0 and leak is None:
                        leak = (px, py, got, lat)
                    if lat < cut - mdeg and (got[3] != 255 or got[:3] != col) and lost is None:
                        lost = (px, py, got, lat)
            if leak:
                ctx.fail('tile,clip-leak,curved-tile-edge', 'pixel (%d,%d) = %r lies at latitude %.4f, north of the permitted area '
                         '(latitude <= %.4f), more than one pixel outside' % (leak + (cut,)), rep)
            if lost:
                ctx.fail('tile,content-lost-inside', 'pixel (%d,%d) = %r lies at latitude %.4f inside the permitted area '
                         '(latitude <= %.4f)' % (lost + (cut,)), rep)
            alphas = rgba.getchannel('A').getextrema()
            if alphas == (255, 255):
                obs = 'TO_full'
            elif alphas == (0, 0):
                obs = 'TO_empty'
            else:
                obs = 'TO_masked [1]'
            cont, inter = lat_max < cut, lat_min < cut
            cb = ('(Some (mk_cbres A_partial [(1, mk_perm F_missing F_missing F_true %s)] %s))'
                  % (('(Some 1)', 'None') if per_layer else ('None', '(Some 1)')))
            out['tile_terms'].append('(1, %s, %s, %s, (%s), %s, [])' % (cb, '[[1]]' if cont else '[]', '[[1]]' if inter else '[]',
                                                                     obs, olit(bool(up.log), blit)))
            out['tile_descr'].append(dict(rep, status=status, observed=obs, upstream=bool(up.log)))
    finally:
        H.HTTPClient.open = orig_open


# ----------------------------------------------------------------------------------------------- stream invalid

# limited_to geometries that are not valid in the OGC sense (self-crossing rings, "bow ties"), relative to the query
# extent.  load_limited_to does not validate or repair them.  For each of them the even-odd and the non-zero fill rule
# give the same point set, so "outside the geometry" has one meaning.  `valid` is the same point set written as a valid
# MULTIPOLYGON (control: must be clipped and must show content).
INVALID_SHAPES = [
    ('bowtie-h', [(0.125, 0.125), (0.875, 0.875), (0.875, 0.125), (0.125, 0.875)],
     [[(0.125, 0.125), (0.5, 0.5), (0.125, 0.875)], [(0.875, 0.875), (0.875, 0.125), (0.5, 0.5)]]),
    ('bowtie-v', [(0.125, 0.125), (0.875, 0.125), (0.125, 0.875), (0.875, 0.875)],
     [[(0.125, 0.125), (0.875, 0.125), (0.5, 0.5)], [(0.125, 0.875), (0.5, 0.5), (0.875, 0.875)]]),
    # the extent of the geometry contains the whole query extent, the crossing point lies inside the query extent
    ('bowtie-big', [(-0.5, -0.5), (1.5, 1.5), (1.5, -0.5), (-0.5, 1.5)],
     [[(-0.5, -0.5), (0.5, 0.5), (-0.5, 1.5)], [(1.5, 1.5), (1.5, -0.5), (0.5, 0.5)]]),
    ('bowtie-off', [(0.0625, 0.25), (0.9375, 0.5), (0.9375, 0.125), (0.0625, 0.9375)],
     None),
]


def stream_invalid(ctx):
    """Deterministic probe (independent of the seed): the authorize callback limits a layer / the whole request to a
    self-crossing polygon given in the SRS of the request.  GEOS may refuse the overlay of such a geometry with the
    request bbox; whatever the implementation does then (error answer or image), no pixel more than one pixel outside
    the geometry may be delivered.  WMS (per layer, global; direct source and cache), TMS, KML, WMTS (REST, KVP); WKT
    and shapely object; plus the mask functions (mask_image, LayerMerger.merge) directly."""
    import yaml
    import mapproxy.client.http as H
    from mapproxy.wsgiapp import make_wsgi_app
    from webtest import TestApp
    d = ctx.tmpdir('invalid')
    doc = {
        'services': {'tms': {}, 'kml': {}, 'wmts': {'restful': True, 'kvp': True},
                     'wms': {'md': {'title': 't'}, 'srs': ['EPSG:4326', 'EPSG:3857']}},
        'layers': [{'name': 'l0', 'title': 'l0', 'sources': ['c0']}, {'name': 'l1', 'title': 'l1', 'sources': ['s1']}],
        'caches': {'c0': {'grids': ['gnw'], 'sources': ['s0'], 'format': 'image/png', 'meta_size': [1, 1], 'meta_buffer': 0,
                          'disable_storage': True}},
        'sources': {'s0': {'type': 'wms', 'req': {'url': 'http://upstream.invalid/s', 'layers': 'u0'},
                           'supported_srs': ['EPSG:4326', 'EPSG:3857']},
                    's1': {'type': 'wms', 'req': {'url': 'http://upstream.invalid/s', 'layers': 'u1', 'transparent': True},
                           'supported_srs': ['EPSG:4326', 'EPSG:3857']}},
        'grids': GRIDS,
        'globals': {'cache': {'base_dir': os.path.join(d, 'cache'), 'lock_dir': os.path.join(d, 'locks'),
                              'tile_lock_dir': os.path.join(d, 'tlocks')},
                    'image': {'resampling_method': 'nearest'}},
    }
    path = os.path.join(d, 'mapproxy.yaml')
    with open(path, 'w') as f:
        yaml.safe_dump(doc, f)
    up = Upstream()
    orig_open = H.HTTPClient.open
    H.HTTPClient.open = lambda self, url, data=None, method=None: up.open(url, data, method)

    def ring_wkt(ring, bbox):
        pts = _ring_abs(ring, bbox)
        return '((' + ', '.join('%r %r' % p for p in pts + [pts[0]]) + '))'

    def limited_to(ring, valid, form, srs, bbox):
        if valid is not None:
            wkt = 'MULTIPOLYGON(' + ', '.join(ring_wkt(r, bbox) for r in valid) + ')'
        else:
            wkt = 'POLYGON' + ring_wkt(ring, bbox)
        if form == 'shapely':
            import shapely.wkt
            return {'srs': srs, 'geometry': shapely.wkt.loads(wkt)}
        return {'srs': srs, 'geometry': wkt}

    def check_pixels(rgba, shape, what, rep, bg=None, inside=None):
        w, h = rgba.size
        leak = lost = None
        nout = nin = 0
        for py in range(h):
            for px in range(w):
                cls = shape_class(shape, (px + 0.5) / w, 1.0 - (py + 0.5) / h, w, h, margin=1.5)
                got = rgba.getpixel((px, py))
                if cls == 'out':
                    nout += 1
                    ok = got[3] == 0 if bg is None else tuple(got[:3]) == tuple(bg)
                    if not ok and leak is None:
                        leak = (px, py, got)
                elif cls == 'in':
                    nin += 1
                    if inside is not None and (got[3] != 255 or tuple(got[:3]) != tuple(inside)) and lost is None:
                        lost = (px, py, got)
        if leak:
            ctx.fail('clip-leak,invalid-geometry,' + what, 'pixel (%d,%d) = %r lies more than one pixel outside the limited_to '
                     'geometry (a self-crossing polygon) and is delivered' % leak, dict(rep, outside_pixels=nout, inside_pixels=nin))
        if lost:
            ctx.fail('content-lost-inside,' + what, 'pixel (%d,%d) = %r lies inside the (valid) limited_to geometry'
                     % lost, dict(rep, outside_pixels=nout, inside_pixels=nin))
        return leak is None and lost is None

    try:
        try:
            tapp = TestApp(make_wsgi_app(path))
        except Exception as e:  # noqa
            ctx.problem('harness', 'invalid-geometry configuration rejected: %r' % (e,), doc)
            return
        reqs = []
        for bbox, srs in (([0.0, 0.0, 10.0, 10.0], 'EPSG:4326'), ([1000000.0, 2000000.0, 1400000.0, 2400000.0], 'EPSG:3857')):
            for layer in ('l1', 'l0'):
                for transparent in (True, False):
                    u = ('/service?request=GetMap&service=WMS&version=1.1.1&srs=%s&bbox=%s&width=96&height=96&styles=&'
                         'format=image/png&layers=%s' % (srs, ','.join(repr(v) for v in bbox), layer))
                    reqs.append(('wms', layer, u + ('&transparent=true' if transparent else '&bgcolor=0x102030'),
                                 None if transparent else (0x10, 0x20, 0x30)))
        for z, x, y in ((1, 1, 0), (2, 2, 1)):
            reqs.append(('tms', 'l0', '/tms/1.0.0/l0/EPSG4326/%d/%d/%d.png' % (z, x, y), None))
            reqs.append(('kml', 'l0', '/kml/l0/EPSG4326/%d/%d/%d.png' % (z, x, y), None))
            reqs.append(('wmts_rest', 'l0', '/wmts/l0/gnw/%d/%d/%d.png' % (z, x, y), None))
            reqs.append(('wmts_kvp', 'l0', '/service?service=WMTS&request=GetTile&version=1.0.0&layer=l0&style=&tilematrixset=gnw&'
                         'tilematrix=%d&tilecol=%d&tilerow=%d&format=image/png' % (z, x, y), None))
        if getattr(ctx, 'quick', False):
            # quick tier: one WMS request per (srs, layer kind), one tile per service
            reqs = [reqs[0], reqs[3], reqs[5]] + reqs[8:12]
        import logging
        logging.disable(logging.CRITICAL)       # the error answers are expected: do not log 500 tracebacks
        for svc, layer, url, bg in reqs:
            feature = 'map' if svc == 'wms' else 'tile'
            for name, ring, valid in INVALID_SHAPES:
                shape = {'kind': name, 'polys': [[[list(p) for p in ring], []]]}
                for variant in (['invalid', 'control'] if valid is not None else ['invalid']):
                    for per_layer in (True, False):
                        for form in ('wkt', 'shapely'):
                            if variant == 'control' and form == 'shapely':
                                continue
                            calls = []

                            def authorize(service, layers=[], environ=None, query_extent=None, **kw):
                                calls.append(query_extent)
                                q_srs, q_bbox = query_extent
                                lt = limited_to(ring, valid if variant == 'control' else None, form, q_srs, [float(v) for v in q_bbox])
                                res_ = {'authorized': 'partial', 'layers': {layer: {feature: True}}}
                                if per_layer:
                                    res_['layers'][layer]['limited_to'] = lt
                                else:
                                    res_['limited_to'] = lt
                                return res_
                            rep = {'stream': 'invalid-geometry', 'url': url, 'shape': name, 'ring_relative_to_query_extent': ring,
                                   'variant': variant, 'limit': 'layer' if per_layer else 'global', 'form': form}
                            try:
                                resp = tapp.get(url, extra_environ={'mapproxy.authorize': authorize}, expect_errors=True)
                                status = resp.status_int
                            except Exception as e:  # noqa
                                # the application raised: nothing is delivered
                                ctx.count('invalid.%s.exception.%s' % (variant, type(e).__name__))
                                ctx.case(('invalid', url, name, variant, per_layer, form), True, rep)
                                continue
                            ctx.case(('invalid', url, name, variant, per_layer, form), True, rep)
                            ctx.count('invalid.%s.%s.status=%d' % (variant, svc, status))
                            img = decode(resp) if status == 200 else None
                            if img is None:
                                if variant == 'control':
                                    ctx.fail('control-no-image,' + svc, 'a valid limited_to geometry gives status %d without image'
                                             % status, rep)
                                continue        # error answer: nothing delivered
                            rep = dict(rep, query_extent=[calls[0][0], list(calls[0][1])] if calls and calls[0] else None)
                            inside = color_of(1 if layer == 'l1' else 0) if variant == 'control' else None
                            check_pixels(img.convert('RGBA'), shape, svc, rep, bg=bg, inside=inside)
    finally:
        H.HTTPClient.open = orig_open
        import logging
        logging.disable(logging.NOTSET)

    # the mask functions directly (what every service uses to clip)
    from PIL import Image
    from mapproxy.image import ImageSource
    from mapproxy.image.mask import mask_image, mask_image_source_from_coverage
    from mapproxy.image.merge import LayerMerger
    from mapproxy.image.opts import ImageOptions
    from mapproxy.util.coverage import load_limited_to
    from mapproxy.srs import SRS
    bbox = [0.0, 0.0, 10.0, 10.0]
    for name, ring, valid in INVALID_SHAPES:
        shape = {'kind': name, 'polys': [[[list(p) for p in ring], []]]}
        for form in ('wkt', 'shapely'):
            for fn in ('mask_image', 'mask_image_source_from_coverage', 'merge-layer', 'merge-global'):
                rep = {'stream': 'invalid-geometry', 'function': fn, 'shape': name, 'ring_relative_to_bbox': ring, 'form': form,
                       'bbox': bbox, 'size': [64, 64]}
                ctx.case(('invalid-direct', fn, name, form), True, rep)
                try:
                    cov = load_limited_to(limited_to(ring, None, form, 'EPSG:4326', bbox))
                    src = Image.new('RGB', (64, 64), (200, 30, 40))
                    opts = ImageOptions(transparent=True, format='image/png')
                    if fn == 'mask_image':
                        res = mask_image(src, bbox, SRS(4326), cov)
                    elif fn == 'mask_image_source_from_coverage':
                        res = mask_image_source_from_coverage(ImageSource(src, image_opts=opts), bbox, SRS(4326), cov).as_image()
                    else:
                        m = LayerMerger()
                        m.add(ImageSource(src, image_opts=opts), cov if fn == 'merge-layer' else None)
                        m.add(ImageSource(Image.new('RGBA', (64, 64), (0, 0, 0, 0)), image_opts=opts), None)
                        res = m.merge(opts, size=(64, 64), bbox=bbox, bbox_srs=SRS(4326),
                                      coverage=cov if fn == 'merge-global' else None).as_image()
                except Exception as e:  # noqa
                    ctx.count('invalid.direct.%s.exception.%s' % (fn, type(e).__name__))
                    continue
                ctx.count('invalid.direct.%s.image' % fn)
                check_pixels(res.convert('RGBA'), shape, fn, rep)


def load_corpus():
    res = []
    if os.path.isdir(CORPUS):
        for fn in sorted(os.listdir(CORPUS)):
            if fn.endswith('.json'):
                try:
                    res.append(json.load(open(os.path.join(CORPUS, fn))))
                except Exception:  # noqa
                    pass
    return res


def run(ctx):
    corpus = load_corpus()
    stream_merge(ctx, corpus)
    try:
        stream_invalid(ctx)
    except Exception as e:  # noqa
        import traceback
        ctx.problem('harness', 'invalid-geometry stream raised %r' % (e,), traceback.format_exc())
    stream_app(ctx, corpus)
