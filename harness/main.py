import argparse
import importlib
import json
import os
import sys

HERE = os.path.dirname(os.path.abspath(__file__))
sys.path.insert(0, HERE)
sys.path.insert(0, os.environ.get('VERIF_REPO', '/repo'))
import common  # noqa


def main():
    ap = argparse.ArgumentParser()
    ap.add_argument('prop')
    ap.add_argument('--tier', default=os.environ.get('VERIF_TIER') or 'quick', choices=['quick', 'thorough'])
    ap.add_argument('--seed', type=int, default=None)
    ap.add_argument('--replay', default=None)
    a = ap.parse_args()
    seed = a.seed
    if seed is None:
        try:
            seed = int(os.environ.get('VERIF_SEED', '1'))
        except ValueError:
            seed = 1
    tier = a.tier
    if a.replay:
        r = json.load(open(a.replay))
        seed, tier = r.get('seed', seed), r.get('tier', tier)
        print('replaying %s with seed=%s tier=%s' % (a.replay, seed, tier))
        print(json.dumps(r.get('replay') or r.get('no_longer_checks'), indent=1, default=repr)[:4000])
    mod = importlib.import_module('props.' + a.prop.lower())
    sys.exit(common.run_check(mod, tier, seed))


if __name__ == '__main__':
    main()
