"""mapproxy/cache/path.py (_path_component, dimensions_part) and mapproxy/cache/base.py (TileLocker.lock_filename)
and mapproxy/cache/file.py (FileCache.tile_location / level_location) -> coq/gen/Gen_pathconf.v   (property C09)

* `_path_component`: the table of (character, replacement) pairs of the `for ... in (...)` loop is extracted, in
  order, as `gen_escapes : list (Z * list Z)` (code points).  The loop must have exactly the shape
        for char, escaped in (<tuple of 2-tuples of str constants>):
            name = name.replace(char, escaped)
        return name
  with one-character patterns.
* `dimensions_part` and `TileLocker.lock_filename` are not translated (dict / sort / lambda): their ASTs are pinned.
  The string constants the hand-written model PathConf.v uses ('dim_', '-', 'default', '.lck') are extracted from
  the pinned positions and emitted as `gen_dim_prefix`, `gen_dash`, `gen_default`, `gen_lck`.

* `FileCache.tile_location` / `FileCache.level_location` (mapproxy/cache/file.py) are pinned to "delegate to the function chosen
  by location_funcs with self.cache_dir": no path construction of their own (statements before the return of tile_location may
  only bind new local names).

* `FileCache.load_tile / load_tile_metadata / is_cached / remove_tile`: the only file name they hand to os / os.path / open /
  ImageSource is `location = self.tile_location(tile, dimensions=dimensions)` (no second look-up at a derived name).

* mapproxy/multiapp.py: `MultiMapProxy.handle` uses exactly `req.pop_path()` as instance name; `filename_from_app_name` is
  `os.path.join(self.base_dir, app_name + self.suffix or '')`; app_available / app_conf only look at that file name.

* mapproxy/util/fs.py `ensure_directory` and `write_atomic` (modelled by ensure_dir_ops / tmp_suffix in PathConf.v) are pinned
  whole (hash of the AST with string constants checked separately); mapproxy/config/loader.py `load_configuration` must bind
  conf_base_dir exactly once, to os.path.abspath(os.path.dirname(mapproxy_conf)).

* mapproxy/cache/legend.py `legend_hash`, `LegendCache.store` / `load` and request/wms `WMSLegendGraphicRequestParams._get_scale`
  are pinned whole: the legend file is <cache_dir>/<md5 hexdigest>.<ext>, the request's SCALE is a float (or None) and only enters the digest.

* pinned whole as well: cache/base.py `TileLocker.lock`, cache/file.py `FileCache._store_single_color_tile` and
  `_single_color_tile_location`, source/wms.py `WMSLegendSource.get_legend`, cache/legend.py `Legend.__init__`.

Fail closed: any other shape raises Unsupported (the check then reports a broken translator obligation).
"""
import ast
import os

OUT = 'Gen_pathconf.v'


class Unsupported(Exception):
    pass


def _func(tree, name, cls=None):
    body = tree.body
    if cls:
        for n in body:
            if isinstance(n, ast.ClassDef) and n.name == cls:
                body = n.body
                break
        else:
            raise Unsupported('class %s not found' % cls)
    for n in body:
        if isinstance(n, ast.FunctionDef) and n.name == name:
            return n
    raise Unsupported('function %s not found' % name)


def _body(fn):
    b = list(fn.body)
    if b and isinstance(b[0], ast.Expr) and isinstance(b[0].value, ast.Constant) and isinstance(b[0].value.value, str):
        b = b[1:]
    return b


def _cps(s):
    return '[' + '; '.join(str(ord(c)) for c in s) + ']'


def _is_name(n, ident):
    return isinstance(n, ast.Name) and n.id == ident


def escapes_of(fn):
    if [a.arg for a in fn.args.args] != ['name'] or fn.args.vararg or fn.args.kwarg or fn.args.kwonlyargs or fn.decorator_list:
        raise Unsupported('_path_component: unexpected signature')
    b = _body(fn)
    if len(b) != 2 or not isinstance(b[0], ast.For) or not isinstance(b[1], ast.Return) or not _is_name(b[1].value, 'name'):
        raise Unsupported('_path_component: expected `for ...: ...; return name`, got ' + ast.dump(fn)[:300])
    loop = b[0]
    if loop.orelse or not (isinstance(loop.target, ast.Tuple) and len(loop.target.elts) == 2 and
                           _is_name(loop.target.elts[0], 'char') and _is_name(loop.target.elts[1], 'escaped')):
        raise Unsupported('_path_component: unexpected loop target')
    if len(loop.body) != 1:
        raise Unsupported('_path_component: loop body must be one assignment')
    st = loop.body[0]
    ok = (isinstance(st, ast.Assign) and len(st.targets) == 1 and _is_name(st.targets[0], 'name') and
          isinstance(st.value, ast.Call) and isinstance(st.value.func, ast.Attribute) and st.value.func.attr == 'replace' and
          _is_name(st.value.func.value, 'name') and len(st.value.args) == 2 and not st.value.keywords and
          _is_name(st.value.args[0], 'char') and _is_name(st.value.args[1], 'escaped'))
    if not ok:
        raise Unsupported('_path_component: loop body is not `name = name.replace(char, escaped)`: ' + ast.dump(st)[:300])
    if not isinstance(loop.iter, ast.Tuple):
        raise Unsupported('_path_component: loop must iterate over a literal tuple')
    table = []
    for e in loop.iter.elts:
        if not (isinstance(e, ast.Tuple) and len(e.elts) == 2 and all(isinstance(x, ast.Constant) and isinstance(x.value, str) for x in e.elts)):
            raise Unsupported('_path_component: table entry is not a pair of string constants: ' + ast.dump(e)[:200])
        pat, rep = e.elts[0].value, e.elts[1].value
        if len(pat) != 1:
            raise Unsupported('_path_component: pattern %r is not a single character' % pat)
        table.append((pat, rep))
    return table


# ast.dump of the body of dimensions_part (docstring removed) with the four string constants replaced by holes
DIMS_PINNED = (
    "[If(test=Name(id='dimensions', ctx=Load()), body=[Assign(targets=[Name(id='dims', ctx=Store())], value=Call(func=Name(id='NoCaseMultiDict', ctx=Load()), "
    "args=[Name(id='dimensions', ctx=Load())], keywords=[])), Assign(targets=[Tuple(elts=[Name(id='predefined_dims', ctx=Store()), Name(id='custom_dims', ctx=Store())], "
    "ctx=Store())], value=Tuple(elts=[List(elts=[], ctx=Load()), List(elts=[], ctx=Load())], ctx=Load())), For(target=Name(id='dim', ctx=Store()), "
    "iter=Call(func=Attribute(value=Name(id='dims', ctx=Load()), attr='keys', ctx=Load()), args=[], keywords=[]), body=[Expr(value=Call(func=Attribute(value=IfExp("
    "test=Call(func=Attribute(value=Name(id='dim', ctx=Load()), attr='startswith', ctx=Load()), args=[Constant(value=@0)], keywords=[]), "
    "body=Name(id='custom_dims', ctx=Load()), orelse=Name(id='predefined_dims', ctx=Load())), attr='append', ctx=Load()), args=[Name(id='dim', ctx=Load())], keywords=[]))], "
    "orelse=[]), Assign(targets=[Name(id='dim_keys', ctx=Store())], value=BinOp(left=Call(func=Name(id='sorted', ctx=Load()), args=[Name(id='predefined_dims', ctx=Load())], "
    "keywords=[]), op=Add(), right=Call(func=Name(id='sorted', ctx=Load()), args=[Name(id='custom_dims', ctx=Load())], keywords=[]))), Return(value=Call(func=Attribute("
    "value=Attribute(value=Name(id='os', ctx=Load()), attr='path', ctx=Load()), attr='join', ctx=Load()), args=[Starred(value=Call(func=Name(id='map', ctx=Load()), "
    "args=[Lambda(args=arguments(posonlyargs=[], args=[arg(arg='k')], kwonlyargs=[], kw_defaults=[], defaults=[]), body=Call(func=Name(id='_path_component', ctx=Load()), "
    "args=[BinOp(left=BinOp(left=Name(id='k', ctx=Load()), op=Add(), right=Constant(value=@1)), op=Add(), right=Call(func=Name(id='str', ctx=Load()), "
    "args=[Call(func=Attribute(value=Name(id='dims', ctx=Load()), attr='get', ctx=Load()), args=[Name(id='k', ctx=Load()), Constant(value=@2)], keywords=[])], keywords=[]))], "
    "keywords=[])), Name(id='dim_keys', ctx=Load())], keywords=[]), ctx=Load())], keywords=[]))], orelse=[Return(value=Constant(value=@3))])]")

LOCK_PINNED = (
    "[Return(value=Call(func=Attribute(value=Attribute(value=Name(id='os', ctx=Load()), attr='path', ctx=Load()), attr='join', ctx=Load()), "
    "args=[Attribute(value=Name(id='self', ctx=Load()), attr='lock_dir', ctx=Load()), BinOp(left=BinOp(left=BinOp(left=Attribute(value=Name(id='self', ctx=Load()), "
    "attr='lock_cache_id', ctx=Load()), op=Add(), right=Constant(value=@0)), op=Add(), right=Call(func=Attribute(value=Constant(value=@1), attr='join', ctx=Load()), "
    "args=[Call(func=Name(id='map', ctx=Load()), args=[Name(id='str', ctx=Load()), Attribute(value=Name(id='tile', ctx=Load()), attr='coord', ctx=Load())], keywords=[])], "
    "keywords=[])), op=Add(), right=Constant(value=@2))], keywords=[]))]")


FILE_TILE_RETURN = (
    "Return(value=Call(func=Attribute(value=Name(id='self', ctx=Load()), attr='_tile_location', ctx=Load()), args=[Name(id='tile', ctx=Load()), "
    "Attribute(value=Name(id='self', ctx=Load()), attr='cache_dir', ctx=Load()), Attribute(value=Name(id='self', ctx=Load()), attr='file_ext', ctx=Load())], "
    "keywords=[keyword(arg='create_dir', value=Name(id='create_dir', ctx=Load())), keyword(arg='dimensions', value=Name(id='dimensions', ctx=Load())), "
    "keyword(arg='directory_permissions', value=Attribute(value=Name(id='self', ctx=Load()), attr='directory_permissions', ctx=Load()))]))")

FILE_LEVEL_PINNED = (
    "[Return(value=Call(func=Attribute(value=Name(id='self', ctx=Load()), attr='_level_location', ctx=Load()), args=[Name(id='level', ctx=Load()), "
    "Attribute(value=Name(id='self', ctx=Load()), attr='cache_dir', ctx=Load()), Name(id='dimensions', ctx=Load())], keywords=[]))]")


def file_tile_location_pinned(fn):
    """FileCache.tile_location must end in `return self._tile_location(tile, self.cache_dir, self.file_ext, create_dir=create_dir,
    dimensions=dimensions, directory_permissions=self.directory_permissions)`: the path is built by cache/path.py from the configured
    cache_dir and nothing else.  Statements before it (today: the unused dimensions_str / cache_dir computation) may not rebind the
    parameters, assign attributes, return or raise."""
    if [a.arg for a in fn.args.args] != ['self', 'tile', 'create_dir', 'dimensions'] or fn.decorator_list:
        raise Unsupported('FileCache.tile_location: unexpected signature')
    b = _body(fn)
    if not b or ast.dump(b[-1]) != FILE_TILE_RETURN:
        raise Unsupported('FileCache.tile_location no longer returns self._tile_location(tile, self.cache_dir, self.file_ext, ...): '
                          + (ast.dump(b[-1])[:400] if b else 'empty body'))
    protected = {'self', 'tile', 'create_dir', 'dimensions'}
    for st in b[:-1]:
        for n in ast.walk(st):
            if isinstance(n, (ast.Return, ast.Raise, ast.Delete, ast.Global, ast.Nonlocal, ast.Yield, ast.YieldFrom, ast.NamedExpr,
                              ast.FunctionDef, ast.ClassDef, ast.Lambda, ast.Import, ast.ImportFrom, ast.Try, ast.With)):
                raise Unsupported('FileCache.tile_location: statement %s before the return' % type(n).__name__)
            if isinstance(n, (ast.Attribute, ast.Subscript)) and isinstance(n.ctx, (ast.Store, ast.Del)):
                raise Unsupported('FileCache.tile_location: assignment to an attribute / item before the return')
            if isinstance(n, ast.Name) and isinstance(n.ctx, (ast.Store, ast.Del)) and n.id in protected:
                raise Unsupported('FileCache.tile_location: parameter %s is rebound before the return' % n.id)


LOCATION_ASSIGN = ("Call(func=Attribute(value=Name(id='self', ctx=Load()), attr='tile_location', ctx=Load()), args=[Name(id='tile', ctx=Load())], "
                   "keywords=[keyword(arg='dimensions', value=Name(id='dimensions', ctx=Load()))])")
FILE_ACCESS_METHODS = ['load_tile_metadata', 'is_cached', 'load_tile', 'remove_tile']


def file_access_pinned(fn):
    """load_tile / load_tile_metadata / is_cached / remove_tile of FileCache: the only file name they use is
    `location = self.tile_location(tile, dimensions=dimensions)`: the name `location` is bound by exactly that assignment and nothing
    else, and every call into os / os.path / open / ImageSource gets the bare name `location` as its first argument."""
    what = 'FileCache.' + fn.name
    if [a.arg for a in fn.args.args][:2] != ['self', 'tile'] or 'dimensions' not in [a.arg for a in fn.args.args]:
        raise Unsupported(what + ': unexpected signature')
    bound = 0
    for n in ast.walk(fn):
        if isinstance(n, ast.Name) and n.id in ('location', 'tile', 'dimensions', 'self') and isinstance(n.ctx, (ast.Store, ast.Del)):
            if n.id != 'location':
                raise Unsupported('%s: %s is rebound' % (what, n.id))
        if isinstance(n, (ast.Assign, ast.AugAssign, ast.AnnAssign, ast.NamedExpr, ast.For, ast.With, ast.comprehension)):
            targets = n.targets if isinstance(n, ast.Assign) else [getattr(n, 'target', None)] if not isinstance(n, ast.With) else \
                [i.optional_vars for i in n.items]
            for t in targets:
                for m in ast.walk(t) if t is not None else []:
                    if isinstance(m, ast.Name) and m.id == 'location':
                        if not (isinstance(n, ast.Assign) and len(n.targets) == 1 and isinstance(n.targets[0], ast.Name)
                                and ast.dump(n.value) == LOCATION_ASSIGN):
                            raise Unsupported('%s: `location` is bound by something else than self.tile_location(tile, dimensions=dimensions): %s'
                                              % (what, ast.dump(n)[:300]))
                        bound += 1
        if isinstance(n, ast.Call):
            f = n.func
            root = f
            while isinstance(root, ast.Attribute):
                root = root.value
            fs_call = (isinstance(root, ast.Name) and root.id == 'os' and isinstance(f, ast.Attribute)) or \
                      (isinstance(f, ast.Name) and f.id in ('open', 'ImageSource'))
            if fs_call:
                if not n.args or not (isinstance(n.args[0], ast.Name) and n.args[0].id == 'location'):
                    raise Unsupported('%s: file-system call with an argument other than `location`: %s' % (what, ast.dump(n)[:300]))
            elif isinstance(f, ast.Name) and f.id not in ('ImageSource', 'open', 'int', 'len', 'str', 'isinstance'):
                raise Unsupported('%s: call of %s' % (what, f.id))
    return bound


POP_PATH_CALL = "Call(func=Attribute(value=Name(id='req', ctx=Load()), attr='pop_path', ctx=Load()), args=[], keywords=[])"
APP_FILENAME_PINNED = (
    "[Return(value=Call(func=Attribute(value=Attribute(value=Name(id='os', ctx=Load()), attr='path', ctx=Load()), attr='join', ctx=Load()), "
    "args=[Attribute(value=Name(id='self', ctx=Load()), attr='base_dir', ctx=Load()), BoolOp(op=Or(), values=[BinOp(left=Name(id='app_name', ctx=Load()), "
    "op=Add(), right=Attribute(value=Name(id='self', ctx=Load()), attr='suffix', ctx=Load())), Constant(value=@0)])], keywords=[]))]")


def multiapp_pinned(mtree):
    """MultiMapProxy.handle: the instance name is exactly what Request.pop_path returns (no decoding, no joining);
    DirectoryConfLoader.filename_from_app_name: os.path.join(self.base_dir, app_name + self.suffix or '')."""
    h = _func(mtree, 'handle', cls='MultiMapProxy')
    n_bind = 0
    for n in ast.walk(h):
        if isinstance(n, ast.Name) and n.id == 'app_name' and isinstance(n.ctx, (ast.Store, ast.Del)):
            n_bind += 1
        if isinstance(n, ast.Assign) and any(isinstance(m, ast.Name) and m.id == 'app_name' for t in n.targets for m in ast.walk(t)):
            if not (len(n.targets) == 1 and isinstance(n.targets[0], ast.Name) and ast.dump(n.value) == POP_PATH_CALL):
                raise Unsupported('MultiMapProxy.handle: app_name is not exactly req.pop_path(): ' + ast.dump(n)[:300])
    if n_bind != 1:
        raise Unsupported('MultiMapProxy.handle: app_name is bound %d times' % n_bind)
    f = _func(mtree, 'filename_from_app_name', cls='DirectoryConfLoader')
    if pinned(f, APP_FILENAME_PINNED, 'DirectoryConfLoader.filename_from_app_name') != ['']:
        raise Unsupported('DirectoryConfLoader.filename_from_app_name: unexpected constants')
    for name in ('app_available', 'app_conf'):
        g = _func(mtree, name, cls='DirectoryConfLoader')
        for n in ast.walk(g):
            if isinstance(n, ast.Name) and n.id == 'app_name' and isinstance(n.ctx, (ast.Store, ast.Del)):
                raise Unsupported('DirectoryConfLoader.%s rebinds app_name' % name)
            if isinstance(n, ast.Assign) and any(isinstance(m, ast.Name) and m.id == 'conf_file' for t in n.targets for m in ast.walk(t)):
                if ast.dump(n.value) != ("Call(func=Attribute(value=Name(id='self', ctx=Load()), attr='filename_from_app_name', ctx=Load()), "
                                         "args=[Name(id='app_name', ctx=Load())], keywords=[])"):
                    raise Unsupported('DirectoryConfLoader.%s: conf_file is not self.filename_from_app_name(app_name)' % name)


# util/fs.py: sha256 of ast.dump of the function bodies (docstring removed, string constants replaced by holes) and the constants
FS_PINNED = {
    'ensure_directory': ('f71f07452ac6597a6c2f3ebce567a8a22d6cfe1fe5fd550a9c4e92da19bbb158', ['.', '/']),
    'write_atomic': ('a6f6c994172f2bbba9963de5a64c3ec0eb20d9acbc3aee0b1cf0797629d9aa6d', ['win', '.tmp-', 'wb', 'wb']),
}
CONF_BASE_DIR = ("Call(func=Attribute(value=Attribute(value=Name(id='os', ctx=Load()), attr='path', ctx=Load()), attr='abspath', ctx=Load()), "
                 "args=[Call(func=Attribute(value=Attribute(value=Name(id='os', ctx=Load()), attr='path', ctx=Load()), attr='dirname', ctx=Load()), "
                 "args=[Name(id='mapproxy_conf', ctx=Load())], keywords=[])], keywords=[])")


def fs_pinned(tree):
    """ensure_directory: isdir test, '.'/'/' stop, recursion on dirname, mkdir, chmod only inside the branch that made the directory;
    write_atomic: path_tmp = filename + '.tmp-' + str(random.randint(0, 99999999)), O_EXCL create, rename(path_tmp, filename)."""
    import hashlib
    for name, (digest, consts) in FS_PINNED.items():
        fn = _func(tree, name)
        h = _Holes()
        body = [h.visit(n) for n in _body(fn)]
        got = '[' + ', '.join(ast.dump(n) for n in body) + ']'
        if hashlib.sha256(got.encode()).hexdigest() != digest or h.values != consts:
            raise Unsupported('mapproxy/util/fs.py %s no longer has the pinned body (constants %r): %s ...' % (name, h.values, got[:300]))


def conf_base_dir_pinned(tree):
    """load_configuration: conf_base_dir = os.path.abspath(os.path.dirname(mapproxy_conf)), bound once"""
    fn = _func(tree, 'load_configuration')
    n_bind = 0
    for n in ast.walk(fn):
        if isinstance(n, ast.Name) and n.id == 'conf_base_dir' and isinstance(n.ctx, (ast.Store, ast.Del)):
            n_bind += 1
        if isinstance(n, ast.Assign) and any(isinstance(m, ast.Name) and m.id == 'conf_base_dir' for t in n.targets for m in ast.walk(t)):
            if not (len(n.targets) == 1 and isinstance(n.targets[0], ast.Name) and ast.dump(n.value) == CONF_BASE_DIR):
                raise Unsupported('load_configuration: conf_base_dir is not os.path.abspath(os.path.dirname(mapproxy_conf)): ' + ast.dump(n.value)[:200])
    if n_bind != 1:
        raise Unsupported('load_configuration: conf_base_dir is bound %d times' % n_bind)


# legend cache (GetLegendGraphic): sha256 of the hole-dumps and the string constants
LEGEND_PINNED = {'legend_hash': ('45b81a45d5437bb0f6c0acee6d8c423cb0e210b07af063812237da41bc868a59', ['utf-8', 'ascii']), 'LegendCache.store': ('fb3686a427c480a64cf1b97b0a85d11da99f1469d78d8b276d8e2ad7775754fd', ['.', 'image/', 'writing to %s', 'setting file permissions on compact cache file: ']), 'LegendCache.load': ('1491bc67ab9da1847c08d4a75ae389766fe03b56fa5b2448f20e2d3accdcaf3d', ['.']), '_get_scale': ('45147d7af9b624fdd3571649de24f40ab2409d43da75a8c958782ac3a41c635f', ['scale', 'scale'])}


def legend_pinned(ltree, rtree):
    """cache/legend.py legend_hash (md5 hexdigest of identifier and str(scale)), LegendCache.store / load
    (location = os.path.join(self.cache_dir, hash) + '.' + self.file_ext) and request/wms _get_scale (float or None) are pinned whole."""
    import hashlib
    fns = {'legend_hash': _func(ltree, 'legend_hash'), 'LegendCache.store': _func(ltree, 'store', cls='LegendCache'),
           'LegendCache.load': _func(ltree, 'load', cls='LegendCache'),
           '_get_scale': _func(rtree, '_get_scale', cls='WMSLegendGraphicRequestParams')}
    for name, fn in fns.items():
        h = _Holes()
        body = [h.visit(n) for n in _body(fn)]
        got = '[' + ', '.join(ast.dump(n) for n in body) + ']'
        digest, consts = LEGEND_PINNED[name]
        if hashlib.sha256(got.encode()).hexdigest() != digest or h.values != consts:
            raise Unsupported('%s no longer has the pinned body (constants %r): %s ...' % (name, h.values, got[:300]))


# further methods pinned whole: (file, class, method, sha256 of the hole-dump of the body, string constants)
HASH_PINS = [('mapproxy/cache/base.py', 'TileLocker', 'lock', 'a491b826577bc52bb20c4073d12c2b590c70f23d7646e0b541e9d5fc9b97debe', ['locking_disabled']),
             ('mapproxy/cache/file.py', 'FileCache', '_store_single_color_tile', '4c5d2b1e5f76d05aa3afc5dfec968b5623280fff64794bacf9b53d255027ef7b', ['linking %r from %s to %s', 'hardlink', '.tmp-', 'hardlink']),
             ('mapproxy/cache/file.py', 'FileCache', '_single_color_tile_location', '811eac5454472d29f01f0085889fe82d9c1ccf08396156ad2bbd1ee0be270b4f', ['single_color_tiles', '', '%02x', '.']),
             ('mapproxy/source/wms.py', 'WMSLegendSource', 'get_legend', 'c45c475f6344f505cf738df2021a13d9a052c770696d98b0ca316683219e127e', ['json', 'json']),
             ('mapproxy/cache/legend.py', 'Legend', '__init__', '498bc8d8e450db15cad4e63f7a1395af8e37a00404125069d931badd5a6a4841', [])]


def hash_pins(repo):
    """TileLocker.lock (the lock file is self.lock_filename(tile), nothing else), FileCache._store_single_color_tile (link text =
    os.path.relpath(real_tile_loc, os.path.dirname(tile_loc)) for every tile), FileCache._single_color_tile_location,
    WMSLegendSource.get_legend and Legend.__init__ (the requested FORMAT does not reach the legend cache file name)."""
    import hashlib
    trees = {}
    for f, c, n, digest, consts in HASH_PINS:
        if f not in trees:
            trees[f] = ast.parse(open(os.path.join(repo, f)).read())
        fn = _func(trees[f], n, cls=c)
        h = _Holes()
        body = [h.visit(x) for x in _body(fn)]
        got = '[' + ', '.join(ast.dump(x) for x in body) + ']'
        if hashlib.sha256(got.encode()).hexdigest() != digest or h.values != consts:
            raise Unsupported('%s %s.%s no longer has the pinned body (constants %r): %s ...' % (f, c, n, h.values, got[:300]))


class _Holes(ast.NodeTransformer):
    """replace every str constant by a numbered hole, remembering the values"""

    def __init__(self):
        self.values = []

    def visit_Constant(self, node):
        if isinstance(node.value, str):
            self.values.append(node.value)
            return ast.Constant(value=_Hole(len(self.values) - 1))
        return node


class _Hole(object):
    def __init__(self, i):
        self.i = i

    def __repr__(self):
        return '@%d' % self.i


def pinned(fn, expected, what):
    h = _Holes()
    body = [h.visit(n) for n in _body(fn)]
    got = '[' + ', '.join(ast.dump(n) for n in body) + ']'
    if got != expected:
        k = next((i for i, (a, b) in enumerate(zip(got, expected)) if a != b), min(len(got), len(expected)))
        raise Unsupported('%s no longer has the pinned shape (first difference at %d: ...%s...)' % (what, k, got[max(0, k - 60):k + 80]))
    return h.values


def generate(repo):
    ptree = ast.parse(open(os.path.join(repo, 'mapproxy/cache/path.py')).read())
    btree = ast.parse(open(os.path.join(repo, 'mapproxy/cache/base.py')).read())
    table = escapes_of(_func(ptree, '_path_component'))
    dfn = _func(ptree, 'dimensions_part')
    if [a.arg for a in dfn.args.args] != ['dimensions']:
        raise Unsupported('dimensions_part: unexpected signature')
    dvals = pinned(dfn, DIMS_PINNED, 'dimensions_part')
    if len(dvals) != 4 or dvals[3] != '' or len(dvals[1]) != 1:
        raise Unsupported('dimensions_part: unexpected constants %r' % (dvals,))
    lfn = _func(btree, 'lock_filename', cls='TileLocker')
    if [a.arg for a in lfn.args.args] != ['self', 'tile']:
        raise Unsupported('lock_filename: unexpected signature')
    lvals = pinned(lfn, LOCK_PINNED, 'TileLocker.lock_filename')
    if len(lvals) != 3 or lvals[0] != lvals[1] or lvals[0] != dvals[1]:
        raise Unsupported('lock_filename: unexpected constants %r' % (lvals,))
    ftree = ast.parse(open(os.path.join(repo, 'mapproxy/cache/file.py')).read())
    file_tile_location_pinned(_func(ftree, 'tile_location', cls='FileCache'))
    flfn = _func(ftree, 'level_location', cls='FileCache')
    if [a.arg for a in flfn.args.args] != ['self', 'level', 'dimensions']:
        raise Unsupported('FileCache.level_location: unexpected signature')
    if pinned(flfn, FILE_LEVEL_PINNED, 'FileCache.level_location'):
        raise Unsupported('FileCache.level_location: unexpected constants')
    fs_pinned(ast.parse(open(os.path.join(repo, 'mapproxy/util/fs.py')).read()))
    conf_base_dir_pinned(ast.parse(open(os.path.join(repo, 'mapproxy/config/loader.py')).read()))
    legend_pinned(ast.parse(open(os.path.join(repo, 'mapproxy/cache/legend.py')).read()),
                  ast.parse(open(os.path.join(repo, 'mapproxy/request/wms/__init__.py')).read()))
    hash_pins(repo)
    multiapp_pinned(ast.parse(open(os.path.join(repo, 'mapproxy/multiapp.py')).read()))
    for name in FILE_ACCESS_METHODS:
        file_access_pinned(_func(ftree, name, cls='FileCache'))
    out = ['(* GENERATED by translator/specs/pathconf.py from mapproxy/cache/path.py and mapproxy/cache/base.py.  Do not edit: rewritten on every run. *)',
           'From Coq Require Import ZArith List.', 'Import ListNotations.', 'Local Open Scope Z_scope.', '',
           '(* _path_component: for char, escaped in (...): name = name.replace(char, escaped) *)',
           'Definition gen_escapes : list (Z * list Z) :=',
           '  [' + '; '.join('(%d, %s)' % (ord(p), _cps(r)) for p, r in table) + '].', '',
           '(* dimensions_part (AST pinned): dim.startswith(<gen_dim_prefix>), k + <gen_dash> + str(dims.get(k, <gen_default>)) *)',
           'Definition gen_dim_prefix : list Z := %s.' % _cps(dvals[0]),
           'Definition gen_dash : Z := %d.' % ord(dvals[1]),
           'Definition gen_default : list Z := %s.' % _cps(dvals[2]), '',
           '(* TileLocker.lock_filename (AST pinned): lock_cache_id + <gen_dash> + <gen_dash>.join(map(str, tile.coord)) + <gen_lck> *)',
           'Definition gen_lck : list Z := %s.' % _cps(lvals[2]), '',
           '(* mapproxy/cache/file.py (ASTs pinned): FileCache.tile_location = self._tile_location(tile, self.cache_dir, self.file_ext, ...),',
           '   FileCache.level_location = self._level_location(level, self.cache_dir, dimensions) *)',
           'Definition gen_file_cache_delegates_to_path_py : bool := true.', '']
    return '\n'.join(out)
