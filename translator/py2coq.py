"""Fail-closed Python-ast -> Gallina translator (DESIGN.md section 2.2).

`regenerate(repo, gen_dir, only=None)` rewrites coq/gen/Gen_*.v from the current /repo sources and returns a
list of problems (strings).  Every spec lives in translator/specs/*.py and registers itself in SPECS.
"""
import importlib
import os
import pkgutil
import sys
import traceback

HERE = os.path.dirname(os.path.abspath(__file__))


class Unsupported(Exception):
    pass


def write_if_changed(path, text):
    try:
        if open(path).read() == text:
            return False
    except OSError:
        pass
    os.makedirs(os.path.dirname(path), exist_ok=True)
    tmp = path + '.tmp%d' % os.getpid()
    with open(tmp, 'w') as f:
        f.write(text)
    os.replace(tmp, path)
    return True


def load_specs():
    specs = {}
    d = os.path.join(HERE, 'specs')
    if not os.path.isdir(d):
        return specs
    if HERE not in sys.path:
        sys.path.insert(0, HERE)
    for m in pkgutil.iter_modules([d]):
        mod = importlib.import_module('specs.' + m.name)
        specs[mod.OUT] = mod
    return specs


def regenerate(repo, gen_dir, only=None):
    problems = []
    os.makedirs(gen_dir, exist_ok=True)
    for out, mod in sorted(load_specs().items()):
        if only is not None and out not in only:
            # still (re)generate so that the shared build sees a consistent gen/ directory, but
            # report problems only for the requested files
            pass
        path = os.path.join(gen_dir, out)
        try:
            text = mod.generate(repo)
            write_if_changed(path, text)
        except Exception as e:  # Unsupported or anything else: fail closed
            if only is None or out in only:
                problems.append('translator obligation broken for %s: %s' % (out, e))
            # keep the previous file if there is one; otherwise write a stub that does not define anything,
            # so that dependants fail to build (fail closed) without confusing coq_makefile
            if not os.path.exists(path):
                write_if_changed(path, '(* generation failed: %s *)\n' % str(e).replace('*)', '* )'))
    return problems


if __name__ == '__main__':
    for p in regenerate(sys.argv[1] if len(sys.argv) > 1 else '/repo', os.path.join(os.path.dirname(HERE), 'coq', 'gen')):
        print(p)
