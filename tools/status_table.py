#!/usr/bin/env python3
"""Print a markdown status table of the built checks (from coq/props, evidence/, known findings, seeded/RESULTS.json)."""
import json, os, re, glob
V = os.path.dirname(os.path.dirname(os.path.abspath(__file__)))
props = [json.loads(l) for l in open(V + '/properties.jsonl')]
known = json.load(open(V + '/known_findings.json'))['findings']
for f in sorted(glob.glob(V + '/known_findings.d/*.json')):
    known += json.load(open(f))['findings']
try:
    seeded = json.load(open(V + '/seeded/RESULTS.json'))
except OSError:
    seeded = []
print('| id | model files | theorems | obligations | correspondence cases (quick) | quick wall s | known findings | fixed | seeded caught/total |')
print('|---|---|---|---|---|---|---|---|---|')
for p in props:
    pid = p['id']
    pv = V + '/coq/props/P_%s.v' % pid
    txt = re.sub(r'\(\*.*?\*\)', '', open(pv).read(), flags=re.S) if os.path.exists(pv) else ''
    ths = re.findall(r'^\s*(?:Theorem|Corollary)\s+(\w+)', txt, flags=re.M)
    imps = sorted(set(x for m in re.finditer(r'From MP Require Import ([^.]*)\.', txt) for x in m.group(1).split()))
    try:
        ev = json.load(open(V + '/evidence/%s.json' % pid))
        cov = ev['coverage']
        ob = '%d/%d' % (cov['discharged'], cov['obligations'])
        corr = sum(cov.get('correspondence_cases_compared_in_coq', {}).values())
        wall = ev['wall_s'] if ev['tier'] == 'quick' else '(thorough %s)' % ev['wall_s']
    except Exception:
        ob = corr = wall = '?'
    kn = sum(1 for k in known if k.get('property') == pid and k.get('status') == 'known')
    fx = sum(1 for k in known if k.get('property') == pid and k.get('status') == 'fixed')
    sd = [r for r in seeded if pid in (r['property'] if isinstance(r['property'], list) else [r['property']]) and r.get('checks')]
    caught = sum(1 for r in sd if all(c['detected'] for c in r['checks'].values()))
    print('| %s | %s | %d | %s | %s | %s | %d | %d | %d/%d |' % (pid, ' '.join(i for i in imps), len(ths), ob, corr, wall, kn, fx, caught, len(sd)))
