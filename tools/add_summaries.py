#!/usr/bin/env python3
import json, os, sys
for f in sys.argv[1:]:
    for sid, txt in json.load(open(f)).items():
        p = '/verif/seeded/%s/meta.json' % sid
        if os.path.exists(p):
            m = json.load(open(p)); m['summary'] = txt; json.dump(m, open(p, 'w'), indent=1)
