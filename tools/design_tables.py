#!/usr/bin/env python3
"""Rewrite the generated tables of DESIGN.md (between <!-- BEGIN x --> / <!-- END x --> markers)."""
import json, os, re, glob, subprocess, io, contextlib
V = os.path.dirname(os.path.dirname(os.path.abspath(__file__)))

def status():
    out = subprocess.run(['python3', V + '/tools/status_table.py'], stdout=subprocess.PIPE, text=True).stdout
    return out

def findings():
    known = json.load(open(V + '/known_findings.json'))['findings']
    rows = ['| property | status | commit | what failed |', '|---|---|---|---|']
    for k in known:
        rows.append('| %s | fixed | %s | %s |' % (k['property'], k.get('commit', ''), k['what'].replace('|', '\\|')))
    for f in sorted(glob.glob(V + '/known_findings.d/*.json')):
        for k in json.load(open(f))['findings']:
            if k.get('status') == 'known':
                rows.append('| %s | known (signature `%s`) |  | %s |' % (k['property'], k['signature'], k['what'].replace('|', '\\|')))
    return '\n'.join(rows) + '\n'

def seeded():
    try:
        res = {r['id']: r for r in json.load(open(V + '/seeded/RESULTS.json'))}
    except OSError:
        res = {}
    rows = ['| seeded change | property | what it changes / needs | result of `./check` (quick) |', '|---|---|---|---|']
    for d in sorted(glob.glob(V + '/seeded/*/meta.json')):
        sid = os.path.basename(os.path.dirname(d))
        m = json.load(open(d))
        notes = m.get('summary') or m.get('needs_to_manifest', '')
        notes = re.sub(r'\s+', ' ', notes)[:260].replace('|', '/')
        r = res.get(sid)
        if m.get('status', '').startswith('obsolete'):
            outcome = m['status']
        elif not r or not r.get('checks'):
            outcome = 'not run' if not r else r.get('error', 'not run')
        else:
            outcome = '; '.join('%s: %s' % (p, ('VIOLATION with failing input' if c['with_failing_input'] else 'VIOLATION no-failing-input-found') if c['detected'] else 'MISSED')
                                for p, c in r['checks'].items())
        rows.append('| %s | %s | %s | %s |' % (sid, m['property'], notes, outcome))
    return '\n'.join(rows) + '\n'

def main():
    p = V + '/DESIGN.md'
    s = open(p).read()
    for name, fn in (('status', status), ('findings', findings), ('seeded', seeded)):
        s = re.sub(r'(<!-- BEGIN %s -->\n).*?(<!-- END %s -->)' % (name, name), lambda m: m.group(1) + fn() + m.group(2), s, flags=re.S)
    open(p, 'w').write(s)

if __name__ == '__main__':
    main()
