#!/usr/bin/env python3
"""Rewrite the generated tables of DESIGN.md (between <!-- BEGIN x --> / <!-- END x --> markers)."""
import json, os, re, glob, subprocess, io, contextlib
V = os.path.dirname(os.path.dirname(os.path.abspath(__file__)))

def status():
    out = subprocess.run(['python3', V + '/tools/status_table.py'], stdout=subprocess.PIPE, text=True).stdout
    return out

def findings():
    known = json.load(open(V + '/known_findings.json'))['findings']
    rows = ['| property | status | commit | what failed |', '|---|---|---|---|']
    for k in known:
        rows.append('| %s | fixed | %s | %s |' % (k['property'], k.get('commit', ''), k['what'].replace('|', '\\|')))
    for f in sorted(glob.glob(V + '/known_findings.d/*.json')):
        for k in json.load(open(f))['findings']:
            if k.get('status') == 'known':
                rows.append('| %s | known (signature `%s`) |  | %s |' % (k['property'], k['signature'], k['what'].replace('|', '\\|')))
    return '\n'.join(rows) + '\n'

def seeded():
    try:
        res = {r['id']: r for r in json.load(open(V + '/seeded/RESULTS.json'))}
    except OSError:
        res = {}
    rows = ['| seeded change | property | what it changes / needs | result of `./check` (quick) |', '|---|---|---|---|']
    for d in sorted(glob.glob(V + '/seeded/*/meta.json')):
        sid = os.path.basename(os.path.dirname(d))
        m = json.load(open(d))
        notes = m.get('summary') or m.get('needs_to_manifest', '')
        notes = re.sub(r'\s+', ' ', notes)[:260].replace('|', '/')
        r = res.get(sid)
        if m.get('status', '').startswith('obsolete'):
            outcome = m['status']
        elif not r or not r.get('checks'):
            outcome = 'not run' if not r else r.get('error', 'not run')
        else:
            outcome = '; '.join('%s: %s' % (p, ('VIOLATION with failing input' if c['with_failing_input'] else 'VIOLATION no-failing-input-found') if c['detected'] else 'MISSED')
                                for p, c in r['checks'].items())
        prop = m['property'] if isinstance(m['property'], str) else ', '.join(m['property'])
        outcome = re.sub(r'\s+', ' ', outcome).replace('|', '/')
        rows.append('| %s | %s | %s | %s |' % (sid, prop, notes, outcome))
    return '\n'.join(rows) + '\n'

def theorems():
    import importlib, sys
    sys.path.insert(0, V + '/harness')
    out = []
    for i in range(1, 21):
        pid = 'C%02d' % i
        pv = V + '/coq/props/P_%s.v' % pid
        txt = re.sub(r'\(\*.*?\*\)', '', open(pv).read(), flags=re.S)
        ths = re.findall(r'^\s*(?:Theorem|Corollary)\s+(\w+)', txt, flags=re.M)
        out.append('* **%s** (%d): %s' % (pid, len(ths), ', '.join('`%s`' % t for t in ths)))
        try:
            mod = importlib.import_module('props.' + pid.lower())
            out.append('  * trusted / not verified: %s' % re.sub(r'\s+', ' ', mod.LEVEL_NOTE)[:900])
            ass = getattr(mod, 'ASSUMPTIONS', [])
            if ass:
                out.append('  * assumptions: %s' % '; '.join(re.sub(r'\s+', ' ', a) for a in ass)[:1200])
        except Exception as e:
            out.append('  * (module not importable: %r)' % (e,))
    return '\n'.join(out) + '\n'


def main():
    p = V + '/DESIGN.md'
    s = open(p).read()
    for name, fn in (('status', status), ('findings', findings), ('seeded', seeded), ('theorems', theorems)):
        s = re.sub(r'(<!-- BEGIN %s -->\n).*?(<!-- END %s -->)' % (name, name), lambda m: m.group(1) + fn() + m.group(2), s, flags=re.S)
    open(p, 'w').write(s)

if __name__ == '__main__':
    main()
