#!/usr/bin/env python3
"""Run mapproxy's pinned test-suite with the verification guard OFF and compare
the set of passing tests with /root/.vp/BASELINE.json (stable_pass).
Exit 0 iff every stable-pass test still passes."""
import json, os, subprocess, sys, tempfile
import xml.etree.ElementTree as ET

def main():
    base = json.load(open('/root/.vp/BASELINE.json'))
    want = set(base['stable_pass'])
    env = dict(os.environ)
    env.pop('MAPPROXY_VERIF', None)
    fd, junit = tempfile.mkstemp(suffix='.junit.xml', dir='/var/tmp'); os.close(fd)
    cmd = ['/venv/bin/python', '-m', 'pytest', '-ra', '-q', '-p', 'no:cacheprovider', '--timeout=900',
           '--continue-on-collection-errors', '--junitxml=' + junit] + sys.argv[1:]
    p = subprocess.run(cmd, cwd='/repo', env=env, stdout=subprocess.PIPE, stderr=subprocess.STDOUT, text=True)
    tail = p.stdout.strip().splitlines()[-3:]
    passed = set()
    for tc in ET.parse(junit).getroot().iter('testcase'):
        bad = any(ch.tag in ('failure', 'error', 'skipped') for ch in tc)
        if not bad:
            passed.add('%s::%s' % (tc.get('classname') or '', tc.get('name')))
    os.unlink(junit)
    missing = sorted(want - passed)
    print('\n'.join(tail))
    print('baseline stable_pass=%d passed_now=%d missing=%d' % (len(want), len(passed), len(missing)))
    for m in missing[:50]:
        print('MISSING', m)
    return 1 if missing else 0

if __name__ == '__main__':
    sys.exit(main())
