#!/usr/bin/env python3
"""Confirm a candidate breaking change before it is kept under /verif/seeded/<id>/.

  tools/confirm_seeded.py <candidate-dir> <seeded-id> <property> [--no-suite]

candidate-dir holds patch.diff, demo.py (or demo_test.py) and notes.md (written by an independent sub-agent).
In a scratch worktree of /repo (under /var/tmp, removed afterwards):
  1. demo on the clean tree must exit 0,
  2. patch must apply, demo with the patch must exit non-zero,
  3. the pinned test-suite (command of /root/.vp/BASELINE.json) with the patch must still pass every
     stable_pass test of the baseline (tests that fail are re-run once on their own: the mock servers of
     concurrently running suites collide on ports).
On success the candidate is copied to /verif/seeded/<seeded-id>/ with meta.json.
"""
import json
import os
import shutil
import subprocess
import sys
import tempfile
import xml.etree.ElementTree as ET

VERIF = os.path.dirname(os.path.dirname(os.path.abspath(__file__)))


def sh(cmd, **kw):
    p = subprocess.run(cmd, stdout=subprocess.PIPE, stderr=subprocess.STDOUT, text=True, **kw)
    return p.returncode, p.stdout


def suite(tree, extra=()):
    fd, junit = tempfile.mkstemp(suffix='.junit.xml', dir='/var/tmp')
    os.close(fd)
    env = dict(os.environ, PYTHONPATH=tree)
    env.pop('MAPPROXY_VERIF', None)
    cmd = ['/venv/bin/python', '-m', 'pytest', '-ra', '-q', '-p', 'no:cacheprovider', '--timeout=900',
           '--continue-on-collection-errors', '--junitxml=' + junit] + list(extra)
    # own network namespace (loopback up): the suite's mock servers use fixed ports, other suites run concurrently
    import shlex
    cmd = ['unshare', '-n', 'sh', '-c', 'ip link set lo up; exec ' + ' '.join(shlex.quote(c) for c in cmd)]
    rc, out = sh(cmd, cwd=tree, env=env)
    passed = set()
    try:
        for tc in ET.parse(junit).getroot().iter('testcase'):
            if not any(ch.tag in ('failure', 'error', 'skipped') for ch in tc):
                passed.add('%s::%s' % (tc.get('classname') or '', tc.get('name')))
    finally:
        os.unlink(junit)
    return passed, out.strip().splitlines()[-1:]


def main():
    cand, sid, prop = sys.argv[1:4]
    no_suite = '--no-suite' in sys.argv
    tree = '/var/tmp/wt-confirm-' + sid
    sh(['git', '-C', '/repo', 'worktree', 'remove', '--force', tree])
    rc, out = sh(['git', '-C', '/repo', 'worktree', 'add', '--detach', tree, 'HEAD'])
    if rc:
        raise SystemExit(out)
    ran = []
    ok = False
    try:
        demo = next((os.path.join(cand, n) for n in ('demo.py', 'demo_test.py') if os.path.exists(os.path.join(cand, n))), None)
        if demo is None:
            raise SystemExit('no demo in ' + cand)
        env = dict(os.environ, PYTHONPATH=tree, PYTHONHASHSEED='0')
        runner = ['/venv/bin/python', demo] if demo.endswith('demo.py') else ['/venv/bin/python', '-m', 'pytest', '-q', '-p', 'no:cacheprovider', demo]
        rc0, out0 = sh(runner, cwd=tree, env=env, timeout=900)
        ran.append({'cmd': 'demo on clean tree', 'rc': rc0})
        print('demo clean rc=%d' % rc0)
        if rc0 != 0:
            print(out0[-1500:])
            return 1
        rc, out = sh(['git', '-C', tree, 'apply', os.path.join(cand, 'patch.diff')])
        if rc:
            print('patch does not apply', out)
            return 1
        rc1, out1 = sh(runner, cwd=tree, env=env, timeout=900)
        ran.append({'cmd': 'demo with patch', 'rc': rc1, 'tail': out1.strip().splitlines()[-3:]})
        print('demo patched rc=%d' % rc1)
        if rc1 == 0:
            return 1
        if not no_suite:
            want = set(json.load(open('/root/.vp/BASELINE.json'))['stable_pass'])
            passed, tail = suite(tree)
            missing = sorted(want - passed)
            print('suite with patch:', tail, 'missing stable_pass:', len(missing))
            if missing:
                # re-run the files of the missing tests on their own (port collisions with other running suites)
                files = sorted({m.split('::')[0].replace('.', '/') + '.py' for m in missing})
                files = [f for f in files if os.path.exists(os.path.join(tree, f))]
                p2, tail2 = suite(tree, files)
                missing = sorted(set(missing) - p2)
                print('after re-run of %d files: missing %d' % (len(files), len(missing)), missing[:10])
            ran.append({'cmd': 'pinned test suite with patch (BASELINE.json cmd), stable_pass comparison', 'missing': missing})
            if missing:
                return 1
        ok = True
    finally:
        sh(['git', '-C', '/repo', 'worktree', 'remove', '--force', tree])
        shutil.rmtree(tree, ignore_errors=True)
    if ok:
        dst = os.path.join(VERIF, 'seeded', sid)
        os.makedirs(dst, exist_ok=True)
        for n in os.listdir(cand):
            if os.path.isfile(os.path.join(cand, n)) and os.path.getsize(os.path.join(cand, n)) < 200000:
                shutil.copy(os.path.join(cand, n), os.path.join(dst, n))
        notes = ''
        try:
            notes = open(os.path.join(cand, 'notes.md')).read()
        except OSError:
            pass
        meta = {'property': prop, 'origin': 'independent sub-agent given only the property text and a scratch worktree',
                'needs_to_manifest': notes[:1500], 'confirmed_by_integrator': ran,
                'suite_checked': not no_suite}
        json.dump(meta, open(os.path.join(dst, 'meta.json'), 'w'), indent=1)
        print('kept as seeded/' + sid)
        return 0
    return 1


if __name__ == '__main__':
    sys.exit(main())
