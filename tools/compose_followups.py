#!/usr/bin/env python3
"""Compose follow-up messages for the property builders from seeded/RESULTS.json: tools/compose_followups.py <suffix> <round-summaries.json> <outdir>"""
import json, sys
suffix, sfile, outdir = sys.argv[1:4]
res = {r['id']: r for r in json.load(open('/verif/seeded/RESULTS.json'))}
summ = json.load(open(sfile))
deep = json.load(open('/verif/tools/deepening.json'))
for i in range(1, 21):
    pid = 'C%02d' % i
    lines, missed = [], 0
    for k in (1, 2, 3):
        sid = '%s-%s%d' % (pid, suffix, k)
        r = res.get(sid)
        if not r or not r.get('checks'):
            st = 'NOT RUN YET (try it yourself)'; missed += 1
        else:
            c = list(r['checks'].values())[0]
            if c['detected'] and c['with_failing_input']:
                st = 'DETECTED with failing input'
            elif c['detected']:
                st = 'detected only as no-failing-input-found'; missed += 1
            else:
                st = 'MISSED (exit 0)'; missed += 1
        lines.append(' * %s: %s\n     %s' % (sid, st, summ.get(sid, '(see meta.json / notes.md)')))
    txt = """%(p)s follow-up, next round (about 1.5-2 h).

Three more independently written mutants for %(p)s are in /verif/seeded/%(p)s-%(s)s1..%(s)s3 (each: patch.diff, demo.py, notes.md, meta.json with a `summary`).  Result of `python3 tools/seeded.py` on them with your current check:
%(lines)s

For every mutant that is MISSED or only no-failing-input-found: find out why your check does not see it and strengthen model / harness / oracle so that it is reported, preferably with a concrete failing input (input, configuration, history, schedule or fault).  Keep the model line by line with the code that exists; never loosen an oracle; faults (write errors, crashes), schedules (two threads / processes gated at the relevant calls) and unusual configurations are in scope when the property quantifies over them.  If a mutant's mechanism is outside what the property states, say so precisely instead of forcing it.  If a missed mutant lies in code that another property's model also covers (e.g. image/tile.py TileSplitter, util/fs.py write_atomic, cache/tile.py) it is still yours to detect for %(p)s: the patch is run against your check only.
Verify with `python3 tools/seeded.py %(p)s-%(s)s1 %(p)s-%(s)s2 %(p)s-%(s)s3` (scratch worktrees, private build tree) and make sure the earlier ones are still detected: `python3 tools/seeded.py $(ls /verif/seeded | grep '^%(p)s-')`.  Re-validate `./check %(p)s` on /repo HEAD for seeds 1,2,3,7,12345 (quick, <= 3 min each) and one thorough run with VERIF_NO_COQCHK=1 (no alarm allowed on the unchanged tree).  See `git -C /repo log --oneline | head -20` for the recent fix commits.

If time remains afterwards, deepen the proof side: %(deep)s.

Rules as before: only your own files; no git commits; remove your worktrees and only your own /var/tmp/verif-private-<hash>; never pkill/killall; no `git stash`.  Final message: per mutant what now catches it, new theorems, seeds validated, anything the integrator must do.  Keep it short.
""" % {'p': pid, 's': suffix, 'lines': '\n'.join(lines), 'deep': deep.get(pid, 'more unbounded theorems for parts still listed as not proved')}
    open('%s/%s.txt' % (outdir, pid), 'w').write(txt)
    print(pid, 'needs work on', missed)
