#!/usr/bin/env python3
"""tools/add_fixed.py <property> <commit> <what failed>  -- append a 'fixed' entry to known_findings.json"""
import json, sys
p = '/verif/known_findings.json'
d = json.load(open(p))
prop, commit, what = sys.argv[1], sys.argv[2], ' '.join(sys.argv[3:])
d['findings'].append({'property': prop, 'status': 'fixed', 'commit': commit, 'what': what,
                      'line': 'fixed: property=%s %s %s' % (prop, commit, what)})
json.dump(d, open(p, 'w'), indent=1)
