#!/usr/bin/env python3
"""Run the registered checks against the seeded breaking changes kept under /verif/seeded/<id>/.

  tools/seeded.py [--in-repo] [--tier quick] [ids...]

Each seeded/<id>/ holds patch.diff, a demonstration (demo.py) and meta.json ({"property": "Cxx", ...}).
Default mode: a scratch worktree of /repo under /var/tmp is created, the patch applied there and the check
run with VERIF_REPO pointing at it (private Coq build tree, /verif's evidence is not touched).
--in-repo: `git -C /repo apply`, run the check on /repo itself, then `git -C /repo checkout -- .`
(only when nobody else is using /repo).  Prints one line per mutant and writes seeded/RESULTS.json.
"""
import json
import os
import shutil
import subprocess
import sys
import time

VERIF = os.path.dirname(os.path.dirname(os.path.abspath(__file__)))
SEEDED = os.path.join(VERIF, 'seeded')


def sh(cmd, **kw):
    p = subprocess.run(cmd, stdout=subprocess.PIPE, stderr=subprocess.STDOUT, text=True, **kw)
    return p.returncode, p.stdout


def run_one(mid, in_repo, tier, demo=True):
    d = os.path.join(SEEDED, mid)
    meta = json.load(open(os.path.join(d, 'meta.json')))
    props = meta['property'] if isinstance(meta['property'], list) else [meta['property']]
    patch = os.path.join(d, 'patch-ported.diff')
    if not os.path.exists(patch):
        patch = os.path.join(d, 'patch.diff')
    res = {'id': mid, 'property': props, 'checks': {}}
    if in_repo:
        tree = '/repo'
        rc, out = sh(['git', '-C', '/repo', 'status', '--porcelain', '--untracked-files=no'])
        if out.strip():
            raise SystemExit('/repo is not clean: ' + out)
    else:
        tree = '/var/tmp/wt-seeded-' + mid.replace('/', '_')
        sh(['git', '-C', '/repo', 'worktree', 'remove', '--force', tree])
        rc, out = sh(['git', '-C', '/repo', 'worktree', 'add', '--detach', tree, 'HEAD'])
        if rc:
            raise SystemExit(out)
    try:
        rc, out = sh(['git', '-C', tree, 'apply', patch])
        if rc:
            res['error'] = 'patch does not apply: ' + out[-500:]
            return res
        env = dict(os.environ, VERIF_REPO=tree, VERIF_TIER=tier)
        if in_repo:
            env.pop('VERIF_REPO')
        if demo:
            for name in ('demo.py', 'demo_test.py'):
                dp = os.path.join(d, name)
                if os.path.exists(dp):
                    e2 = dict(os.environ, PYTHONPATH=tree, PYTHONHASHSEED='0')
                    try:
                        drc, dout = sh(['/venv/bin/python', dp], cwd=tree, env=e2, timeout=600)
                    except subprocess.TimeoutExpired:
                        drc, dout = 124, 'timeout'
                    res['demo_rc_with_patch'] = drc
                    break
        for pid in props:
            t0 = time.time()
            try:
                rc, out = sh([os.path.join(VERIF, 'check'), pid, '--tier', tier], cwd=VERIF, env=env, timeout=3600)
            except subprocess.TimeoutExpired:
                rc, out = 124, 'timeout'
            lines = [l for l in out.splitlines() if l.startswith('VIOLATION') or l.startswith('KNOWN-FINDING')]
            res['checks'][pid] = {'rc': rc, 'lines': lines, 'wall_s': round(time.time() - t0, 1),
                                  'detected': rc == 1 and any(l.startswith('VIOLATION') for l in lines),
                                  'with_failing_input': any(l.startswith('VIOLATION') and 'no-failing-input-found' not in l for l in lines),
                                  'tail': out.splitlines()[-4:]}
    finally:
        if in_repo:
            sh(['git', '-C', '/repo', 'checkout', '--', '.'])
        else:
            sh(['git', '-C', '/repo', 'worktree', 'remove', '--force', tree])
            shutil.rmtree(tree, ignore_errors=True)
            import hashlib
            priv = '/var/tmp/verif-private-' + hashlib.md5(os.path.realpath(tree).encode()).hexdigest()[:8]
            shutil.rmtree(priv, ignore_errors=True)
    return res


def main():
    args = sys.argv[1:]
    in_repo = '--in-repo' in args
    tier = 'quick'
    if '--tier' in args:
        tier = args[args.index('--tier') + 1]
        del args[args.index('--tier'):args.index('--tier') + 2]
    ids = [a for a in args if not a.startswith('--')]
    if not ids:
        ids = sorted(x for x in os.listdir(SEEDED) if os.path.exists(os.path.join(SEEDED, x, 'meta.json')))
    results = []
    for mid in ids:
        r = run_one(mid, in_repo, tier)
        results.append(r)
        for pid, c in r.get('checks', {}).items():
            print('%-22s %s  %s  rc=%s %s  %.0fs' % (mid, pid, 'DETECTED' if c['detected'] else 'MISSED  ',
                                                     c['rc'], 'failing-input' if c['with_failing_input'] else ('no-failing-input' if c['detected'] else ''), c['wall_s']))
            sys.stdout.flush()
        if 'error' in r:
            print('%-22s ERROR %s' % (mid, r['error']))
    path = os.path.join(SEEDED, 'RESULTS.json')
    import fcntl
    lk = open(path + '.lock', 'w')
    fcntl.flock(lk, fcntl.LOCK_EX)   # several invocations may run side by side
    old = {}
    try:
        old = {r['id']: r for r in json.load(open(path))}
    except (OSError, ValueError):
        pass
    for r in results:
        old[r['id']] = r
    json.dump([old[k] for k in sorted(old)], open(path, 'w'), indent=1)


if __name__ == '__main__':
    main()
