#!/usr/bin/env python3
"""Run every claimed check (harness/claimed.json) on /repo: tools/run_all.py [--tier quick|thorough] [--seed N] [-j K] [ids...]"""
import json, os, subprocess, sys, time
from concurrent.futures import ThreadPoolExecutor
VERIF = os.path.dirname(os.path.dirname(os.path.abspath(__file__)))
a = sys.argv[1:]
def opt(name, default):
    if name in a:
        i = a.index(name); v = a[i + 1]; del a[i:i + 2]; return v
    return default
tier = opt('--tier', 'quick'); seed = opt('--seed', '1'); jobs = int(opt('-j', '4'))
ids = a or json.load(open(os.path.join(VERIF, 'harness', 'claimed.json')))
def run(pid):
    t0 = time.time()
    env = dict(os.environ, VERIF_SEED=seed)
    p = subprocess.run([os.path.join(VERIF, 'check'), pid, '--tier', tier], cwd=VERIF, env=env, stdout=subprocess.PIPE, stderr=subprocess.STDOUT, text=True)
    lines = [l for l in p.stdout.splitlines() if l.startswith(('VIOLATION', 'KNOWN-FINDING', pid + ' tier'))]
    return pid, p.returncode, time.time() - t0, lines
bad = 0
with ThreadPoolExecutor(jobs) as ex:
    for pid, rc, dt, lines in ex.map(run, ids):
        print('%s rc=%d %.0fs' % (pid, rc, dt)); [print('   ', l) for l in lines]; sys.stdout.flush()
        bad += rc != 0
sys.exit(1 if bad else 0)
