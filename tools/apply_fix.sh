#!/bin/sh
# tools/apply_fix.sh <diff> "<subject>" <pytest args...> : apply one repair to /repo, run the given tests
# (failures that already fail on the clean tree - /verif/tools/clean_failed.txt - are ignored), commit.
set -e
diff="$1"; subj="$2"; shift 2
cd /repo
git apply --check "$diff"
git apply "$diff"
/venv/bin/python -m pytest -q -p no:cacheprovider -rfE "$@" > /var/tmp/applyfix.log 2>&1 || true
grep -E "^(FAILED|ERROR)" /var/tmp/applyfix.log | sed 's/ - .*//' | sort > /var/tmp/applyfix.failed
new=$(comm -23 /var/tmp/applyfix.failed /verif/tools/clean_failed.txt)
tail -1 /var/tmp/applyfix.log
if [ -n "$new" ]; then echo "NEW FAILURES:"; echo "$new"; echo "reverting"; git checkout -- .; exit 1; fi
git commit -qam "$subj"
git log --oneline | head -1
