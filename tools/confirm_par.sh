#!/bin/sh
# usage: confirm_par.sh <outdir-root> <suffix> <props...> : confirm mutants m1..m3 of each property, 4 at a time
root=$1; suf=$2; shift 2
for p in "$@"; do for k in 1 2 3; do echo "$p $k"; done; done | xargs -P 4 -L 1 sh -c 'cd /verif; python3 tools/confirm_seeded.py '$root'/$0/m$1 $0-'$suf'$1 $0 > /var/tmp/confirm-$0-'$suf'$1.log 2>&1; tail -1 /var/tmp/confirm-$0-'$suf'$1.log'
