#!/usr/bin/env python3
"""Derive the prompts of the next round of independent 'adversary' sub-agents from the previous round's:
tools/make_adv_prompts.py <prev-round-no> <next-round-no> <summaries-of-prev-round.json> <prev-suffix>
The prompt contains the property text and the one-line summaries of the changes other sub-agents already
produced (their own words, nothing about the checks in /verif)."""
import json, re, sys
prev, nxt, sfile, suf = sys.argv[1:5]
summ = json.load(open(sfile))
words = {9: 'Nine', 12: 'Twelve', 15: 'Fifteen', 6: 'Six', 3: 'Three'}
for i in range(1, 21):
    pid = 'C%02d' % i
    t = open('/var/tmp/advp/adv%s_%s.txt' % (prev, pid)).read()
    t = t.replace('adv%s-wt' % prev, 'adv%s-wt' % nxt).replace('adv-out%s' % prev, 'adv-out%s' % nxt)
    extra = ''.join(' - %s\n' % summ[k] for k in sorted(summ) if k.startswith(pid + '-' + suf))
    m = re.search(r'\n(\w+) such changes were already produced', t)
    n_old = len(re.findall(r'\n - ', t))
    head, tail = t.split('\nNote also that the code base', 1)
    head = head.rstrip('\n') + '\n' + extra
    n_new = n_old + extra.count('\n - ') + (1 if extra.startswith(' - ') else 0)
    if m:
        head = head.replace(m.group(1) + ' such changes', '%d such changes' % n_new, 1)
    open('/var/tmp/advp/adv%s_%s.txt' % (nxt, pid), 'w').write(head + '\nNote also that the code base' + tail)
    print(pid, n_new)
