#!/usr/bin/env python3
"""Build the adversary prompts of a round from scratch (process/adv6_C08.txt as template, properties.jsonl,
every seeded/summaries_round*.json): tools/make_adv_prompts_fresh.py <round-no> <n-mutants>
Writes /var/tmp/advp/adv<round>_<Cxx>.txt.  Nothing about the checks in /verif enters a prompt."""
import json, re, sys, glob
rnd, nmut = sys.argv[1], int(sys.argv[2])
tpl = open('/verif/process/adv6_C08.txt').read()
props = {}
for l in open('/verif/properties.jsonl'):
    if l.strip():
        p = json.loads(l); props[p['id']] = p
summ = {}
for f in sorted(glob.glob('/verif/seeded/summaries_round*.json')):
    summ.update(json.load(open(f)))
head, rest = tpl.split('\n  [C08] ', 1)
_, rest = rest.split('\n\nYour task:', 1)
task, rest = rest.split('\n\n\n15 such changes', 1)
_, tail = rest.split('\nNote also that the code base', 1)
for pid, p in sorted(props.items()):
    ptxt = '  [%s] %s\n  %s\n  It must hold over: %s\n  Source files involved: %s' % (
        pid, p['title'], p['statement'], p['quantifier']['text'], ', '.join(p['anchors']['files']))
    old = [summ[k] for k in sorted(summ) if k.startswith(pid + '-')]
    t = head + '\n' + ptxt + '\n\nYour task:' + task
    t += '\n\n\n%d such changes were already produced by others for this property; do NOT repeat them or close variants of them.  Attack what they left alone: other mechanisms, other files that the property\'s behaviour depends on, other clauses of the property statement, other configurations and back-ends, faults and schedules rather than plain inputs where the property is about those, and changes where two sites that each look fine cooperate:\n' % len(old)
    t += ''.join(' - %s\n' % s for s in old)
    t += '\nNote also that the code base' + tail
    t = t.replace('adv6-wt-C08', 'adv%s-wt-%s' % (rnd, pid)).replace('adv-out6/C08', 'adv-out%s/%s' % (rnd, pid))
    t = t.replace('produce 3 DIFFERENT', 'produce %d DIFFERENT' % nmut).replace('k = 1..3', 'k = 1..%d' % nmut)
    open('/var/tmp/advp/adv%s_%s.txt' % (rnd, pid), 'w').write(t)
    print(pid, len(old))
