#!/usr/bin/env python3
"""Regenerate /verif/MANIFEST.json from the property modules in harness/props (single source of truth)."""
import importlib
import json
import os
import sys

VERIF = os.path.dirname(os.path.dirname(os.path.abspath(__file__)))
sys.path.insert(0, os.path.join(VERIF, 'harness'))

PENDING = {}  # property id -> reason, for properties without a module


def main():
    props = [json.loads(l) for l in open(os.path.join(VERIF, 'properties.jsonl'))]
    checks, na = [], []
    claimed = set(json.load(open(os.path.join(VERIF, 'harness', 'claimed.json'))))
    for p in props:
        pid = p['id']
        path = os.path.join(VERIF, 'harness', 'props', pid.lower() + '.py')
        if not os.path.exists(path):
            na.append({'property_id': pid, 'reason': PENDING.get(pid, 'no check registered yet: model/proofs/correspondence for this property are still under construction (DESIGN.md section 7); nothing is claimed')})
            continue
        if pid not in claimed:
            na.append({'property_id': pid, 'reason': 'check under construction (harness/props/%s.py exists but is not yet sound on the unchanged tree); nothing is claimed' % pid.lower()})
            continue
        mod = importlib.import_module('props.' + pid.lower())
        if getattr(mod, 'NOT_CLAIMED', None):
            na.append({'property_id': pid, 'reason': mod.NOT_CLAIMED})
            continue
        checks.append({
            'property_id': pid,
            'quick_cmd': './check %s --tier quick' % pid,
            'thorough_cmd': './check %s --tier thorough' % pid,
            'evidence_file': 'evidence/%s.json' % pid,
            'replay_cmd_template': './check %s --replay {path}' % pid,
            'engine': 'coq-proof+correspondence',
            'level_claimed': {'category': 'proof', 'text': mod.LEVEL_TEXT, 'design_ref': getattr(mod, 'DESIGN_REF', 'DESIGN.md section 5')},
            'level_note': mod.LEVEL_NOTE,
            'technique': mod.TECHNIQUE,
        })
    man = {
        'version': 1,
        'setup_cmd': './setup.sh',
        'hooks': {
            'guard': 'MAPPROXY_VERIF',
            'enable': 'no source hooks: the harness interposes from its own process (monkey-patching module attributes, audit hooks); ./check exports MAPPROXY_VERIF=1 for uniformity',
            'baseline_off_cmd': 'python3 tools/baseline_off.py',
            'source_commits': [],
            'add_only': True,
        },
        'engines': [{
            'name': 'coq-proof+correspondence', 'path': 'check',
            'serves_properties': [c['property_id'] for c in checks],
            'kind_free_text': 'Coq 8.16 theorems over executable Gallina models (coq/), models tied to /repo by a fail-closed ast translator (translator/) and by correspondence checks that run the implementation and the model (vm_compute) on the same inputs (harness/)',
        }],
        'checks': checks,
        'not_applicable': na,
        'notes': 'Every check: regenerate coq/gen from /repo, rebuild the property closure with coqc, Print Assumptions, correspondence + property oracle on the implementation. See DESIGN.md.',
    }
    with open(os.path.join(VERIF, 'MANIFEST.json'), 'w') as f:
        json.dump(man, f, indent=1)
        f.write('\n')
    import jsonschema
    jsonschema.validate(man, json.load(open('/root/.vp/MANIFEST.schema.json')))
    print('MANIFEST.json: %d checks, %d not_applicable' % (len(checks), len(na)))


if __name__ == '__main__':
    main()
