#!/bin/sh
# Build the whole Coq development from files on disk (offline). Run once after a fresh restore.
set -e
HERE="$(cd "$(dirname "$0")" && pwd)"
cd "$HERE"
export PYTHONHASHSEED=0 PYTHONPATH=/repo PYTHONDONTWRITEBYTECODE=1
/venv/bin/python - <<'PY'
import sys, os
sys.path.insert(0, os.path.join(os.getcwd(), 'harness'))
import common
with common.BuildLock():
    for p in common.regenerate():
        print('translator:', p)
    common.prepare_makefile()
    rc, out = common.make([], timeout=3000)
    print(out[-3000:])
    sys.exit(rc)
PY
