(* Exact-arithmetic model of the georeferencing pipeline of MapProxy (C01).
   Part 1 (integers, on the lattice of Grid.v): tile mosaic offsets (mapproxy/image/tile.py), meta tiles
   (mapproxy/grid.py MetaGrid), the composition "request -> level -> affected tiles -> mosaic".
   Part 2 (rationals Q; every double is a rational): make_lin_transf, bbox_equals (mapproxy/srs.py),
   bbox_position_in_image (mapproxy/image/__init__.py), ImageTransformer._no_transformation_needed /
   _transform_simple / divide_quad (mapproxy/image/transform.py), InfoQuery.coord (mapproxy/layer.py),
   WMSInfoClient._get_transformed_query (mapproxy/client/wms.py), WMSSource._get_transformed size
   (mapproxy/source/wms.py), bbox axis order (mapproxy/request/wms/__init__.py).
   Python int(x) is truncation, round(x) is round-half-even, x / 0 raises (here: Q division by zero is 0;
   every theorem carries the non-degeneracy hypothesis under which Python does not raise).
   No proofs here. *)
From Coq Require Import ZArith QArith Qround Qabs List Bool.
Import ListNotations.
From MP Require Import Grid.
Local Open Scope Z_scope.

(* ------------------------------------------------------------------ Part 1: integers *)

(* TileMerger._tile_offset:  (i % gx * tw, i // gx * th) *)
Definition tile_offset (gx tw' th' : Z) (i : Z) : Z * Z := ((i mod gx) * tw', (i / gx) * th').
(* TileMerger._src_size *)
Definition src_size (gx gy tw' th' : Z) : Z * Z := (gx * tw', gy * th').

(* pixel position (from the upper-left corner) of rectangle t inside rectangle s at resolution r, as the
   pair of exact differences in ground units: ((t.x0 - s.x0), (s.y1 - t.y1)) *)
Definition ul_offset_ground (s t : bbox) : Z * Z :=
  let '(s0, _, _, s3) := s in let '(t0, _, _, t3) := t in (t0 - s0, s3 - t3).

(* ---- MetaGrid *)
Record metagrid := mkMeta { mg : grid; msx : Z; msy : Z; mbuf : Z }.

(* _meta_size *)
Definition meta_size (m : metagrid) (l : Z) : Z * Z :=
  let '(nx, ny) := grid_size (mg m) l in (Z.min (msx m) nx, Z.min (msy m) ny).

(* main_tile *)
Definition main_tile (m : metagrid) (x y l : Z) : Z * Z * Z :=
  let '(sx, sy) := meta_size m l in (x / sx * sx, y / sy * sy, l).

(* unbuffered_meta_bbox *)
Definition unbuffered_meta_bbox (m : metagrid) (x y l : Z) : bbox :=
  let '(sx, sy) := meta_size m l in
  merge_bbox (tile_bbox (mg m) x y l) (tile_bbox (mg m) (x + sx - 1) (y + sy - 1) l).

(* round-half-even of the rational n / d, d > 0 *)
Definition rhe (n d : Z) : Z :=
  let q := n / d in
  let r2 := 2 * (n mod d) in
  if r2 <? d then q else if d <? r2 then q + 1 else if Z.even q then q else q + 1.

(* int(round(delta / res, 5)) *)
Definition round5_int (delta res : Z) : Z := Z.quot (rhe (delta * 100000) res) 100000.

(* _buffered_bbox with limit_to_grid_bbox = True: (bbox, buffers (left, bottom, right, top)) *)
Definition buffered_bbox (m : metagrid) (b : bbox) (l : Z) : bbox * (Z * Z * Z * Z) :=
  let '(minx, miny, maxx, maxy) := b in
  if mbuf m <=? 0 then (b, (0, 0, 0, 0))
  else
    let g := mg m in
    let res := res_at g l in
    let minx := minx - mbuf m * res in
    let miny := miny - mbuf m * res in
    let maxx := maxx + mbuf m * res in
    let maxy := maxy + mbuf m * res in
    let '(b0, minx) := if minx <? gx0 g then (mbuf m - round5_int (gx0 g - minx) res, gx0 g) else (mbuf m, minx) in
    let '(b1, miny) := if miny <? gy0 g then (mbuf m - round5_int (gy0 g - miny) res, gy0 g) else (mbuf m, miny) in
    let '(b2, maxx) := if gx1 g <? maxx then (mbuf m - round5_int (maxx - gx1 g) res, gx1 g) else (mbuf m, maxx) in
    let '(b3, maxy) := if gy1 g <? maxy then (mbuf m - round5_int (maxy - gy1 g) res, gy1 g) else (mbuf m, maxy) in
    ((minx, miny, maxx, maxy), (b0, b1, b2, b3)).

(* _size_from_buffered_bbox *)
Definition size_from_bbox (g : grid) (b : bbox) (l : Z) : Z * Z :=
  let '(x0, y0, x1, y1) := b in (rhe (x1 - x0) (res_at g l), rhe (y1 - y0) (res_at g l)).

(* _meta_tile_list: rows from the top *)
Definition meta_tile_list (m : metagrid) (x y l : Z) (gs : Z * Z) : list (option (Z * Z * Z)) :=
  let '(x0, y0, _) := main_tile m x y l in
  let xs := zrange x0 (x0 + fst gs - 1) in
  let ys := if ul (mg m) then zrange y0 (y0 + snd gs - 1) else rev (zrange y0 (y0 + snd gs - 1)) in
  create_tile_list xs ys l (grid_size (mg m) l).

(* _tiles_pattern: the i-th (row-major) tile of the meta tile is cut out at this pixel position *)
Definition pattern_offset (g : grid) (gs : Z * Z) (buffers : Z * Z * Z * Z) (k : Z) : Z * Z :=
  let '(bl, _, _, bt) := buffers in
  ((k mod fst gs) * tw g + bl, (k / fst gs) * th g + bt).

(* meta_tile(tile_coord): bbox, size, tiles with crop offsets *)
Definition meta_tile (m : metagrid) (x y l : Z) : bbox * (Z * Z) * list (option (Z * Z * Z) * (Z * Z)) :=
  let '(x0, y0, _) := main_tile m x y l in
  let '(mb, buffers) := buffered_bbox m (unbuffered_meta_bbox m x0 y0 l) l in
  let gs := meta_size m l in
  let tiles := meta_tile_list m x0 y0 l gs in
  (mb, size_from_bbox (mg m) mb l,
   map (fun kt => (snd kt, pattern_offset (mg m) gs buffers (Z.of_nat (fst kt))))
       (combine (seq 0 (length tiles)) tiles)).

(* TileCreator.create_tiles: one upstream request (bbox, size) per distinct meta tile of the missing tiles *)
Definition somes {A} (l : list (option A)) : list A :=
  flat_map (fun o => match o with Some a => [a] | None => [] end) l.
Definition meta_requests (m : metagrid) (tiles : list (option (Z * Z * Z))) : list (bbox * (Z * Z)) :=
  map (fun t : Z * Z * Z => let '(x, y, l) := t in let '(b, s, _) := meta_tile m x y l in (b, s)) (somes tiles).
Definition zz_eqb (a b : Z * Z) : bool := (fst a =? fst b) && (snd a =? snd b).
Definition req_eqb (a b : bbox * (Z * Z)) : bool := bbox_eqb (fst a) (fst b) && zz_eqb (snd a) (snd b).
Definition same_request_set (a b : list (bbox * (Z * Z))) : bool :=
  forallb (fun x => existsb (req_eqb x) b) a && forallb (fun x => existsb (req_eqb x) a) b.

(* ---- tile services: TileLayer._internal_tile_coord (no profiles) and the bbox of WMTS GetFeatureInfo *)
Inductive req_origin := OriginNone | OriginNW | OriginSW.
Definition internal_tile_coord (g : grid) (o : req_origin) (x y l : Z) : option (Z * Z * Z) :=
  match limit_tile g x y l with
  | None => None                                     (* TileOutOfRange *)
  | Some (x', y', l') =>
    match o with
    | OriginNW => if ul g then Some (x', y', l') else Some (flip_tile_coord g x' y' l')
    | OriginSW => if ul g then Some (flip_tile_coord g x' y' l') else Some (x', y', l')
    | OriginNone => Some (x', y', l')
    end
  end.
(* the four WMTS request classes and the origin attribute each one carries (mapproxy/request/wmts.py):
   WMTS100TileRequest/WMTS100FeatureInfoRequest set origin = 'nw' in make_request, WMTS100RestTileRequest and
   WMTS100RestFeatureInfoRequest have the class attribute origin = 'nw' *)
Inductive wmts_request := KvpTile | KvpFeatureInfo | RestTile | RestFeatureInfo.
Definition wmts_origin (r : wmts_request) : req_origin := OriginNW.
(* WMTSServer.featureinfo: bbox = tile_layer.tile_bbox(request); render(): the tile that is served *)
Definition wmts_bbox (g : grid) (r : wmts_request) (col row l : Z) : option bbox :=
  match internal_tile_coord g (wmts_origin r) col row l with
  | Some (x, y, l') => Some (tile_bbox g x y l')
  | None => None
  end.
(* what the address means (OGC WMTS): row 0 is the northernmost row of a matrix whose top left corner is the top
   left corner of the grid bbox *)
Definition nw_grid (g : grid) : grid :=
  mkGrid (gx0 g) (gy0 g) (gx1 g) (gy1 g) (tw g) (th g) (ress g) true (sf_n g) (sf_d g) (shr_n g) (shr_d g).
Definition wmts_rectangle (g : grid) (col row l : Z) : bbox := tile_bbox (nw_grid g) col row l.
Definition obbox_eqb (a b : option bbox) : bool :=
  match a, b with Some x, Some y => bbox_eqb x y | None, None => true | _, _ => false end.

(* ---- TileManager._scaled_tile (downscale_tiles / upscale_tiles): tile (its rectangle b) is built from the tiles of
   the neighbouring level sl that get_affected_level_tiles lists for b, row-major from the top; a source tile that is
   outside the grid, or neither cached nor creatable (RESCALE_TILE_MISSING), stays in the list as None so that
   every tile keeps its cell of the mosaic *)
Definition mask_missing (avail : Z * Z * Z -> bool) (ts : list (option (Z * Z * Z))) : list (option (Z * Z * Z)) :=
  map (fun ot => match ot with Some t => if avail t then Some t else None | None => None end) ts.
Definition scaled_tile_sources (g : grid) (avail : Z * Z * Z -> bool) (b : bbox) (sl : Z) : affected :=
  match affected_level_tiles g b sl with
  | Affected ab nx ny ts => Affected ab nx ny (mask_missing avail ts)
  | InvalidBBOX => InvalidBBOX
  end.
(* a WMS source with a bbox coverage delivers a tile iff the tile meets the coverage *)
Definition avail_in_coverage (g : grid) (cov : bbox) (t : Z * Z * Z) : bool :=
  let '(x, y, l) := t in bbox_intersects cov (tile_bbox g x y l).
Definition present_mask (ts : list (option (Z * Z * Z))) : list bool :=
  map (fun ot => match ot with Some _ => true | None => false end) ts.

(* ---- CacheMapLayer._image for a request in the grid SRS: level, mosaic bbox, mosaic grid, tiles *)
Inductive map_plan :=
| Blank                                   (* NoTiles -> BlankImage *)
| BadBBox                                 (* GridError -> MapBBOXError *)
| Mosaic (l : Z) (ab : bbox) (nx ny : Z) (tiles : list (option (Z * Z * Z))).

Definition cache_map_plan (g : grid) (b : bbox) (sx sy : Z) : map_plan :=
  match affected_level g b sx sy with
  | None => Blank
  | Some l =>
    match affected_level_tiles g b l with
    | InvalidBBOX => BadBBox
    | Affected ab nx ny ts => Mosaic l ab nx ny ts
    end
  end.

(* ------------------------------------------------------------------ Part 2: rationals *)
Local Open Scope Q_scope.

Definition qbbox := (Q * Q * Q * Q)%type.
Definition qpt := (Q * Q)%type.

(* make_lin_transf(src_bbox, dst_bbox)(x_y) *)
Definition lin_transf (s d : qbbox) (p : qpt) : qpt :=
  let '(s0, s1, s2, s3) := s in
  let '(d0, d1, d2, d3) := d in
  (d0 + (fst p - s0) * (d2 - d0) / (s2 - s0),
   d1 + (s3 - snd p) * (d3 - d1) / (s3 - s1)).

(* int(x): truncation towards zero *)
Definition trunc (q : Q) : Z := Z.quot (Qnum q) (Zpos (Qden q)).
(* round(x) of Python 3: half to even *)
Definition qround (q : Q) : Z := rhe (Qnum q) (Zpos (Qden q)).

Definition Qlt_b (a b : Q) : bool := negb (Qle_bool b a).

Definition img_rect (w h : Z) : qbbox := (0, 0, inject_Z w, inject_Z h).

(* bbox_position_in_image(bbox, size, src_bbox) = (size, offset, sub_bbox) *)
Definition bbox_position_in_image (b : qbbox) (w h : Z) (s : qbbox) : (Z * Z) * (Z * Z) * qbbox :=
  let '(b0, b1, b2, b3) := b in
  let '(s0, s1, s2, s3) := s in
  let to_px := lin_transf b (img_rect w h) in
  let '(o0, n0) := if Qlt_b b0 s0 then (trunc (fst (to_px (s0, 0))), s0) else (0%Z, b0) in
  let '(o1, n1) := if Qlt_b b1 s1 then (trunc (snd (to_px (0, s1))), s1) else (h, b1) in
  let '(o2, n2) := if Qlt_b s2 b2 then (trunc (fst (to_px (s2, 0))), s2) else (w, b2) in
  let '(o3, n3) := if Qlt_b s3 b3 then (trunc (snd (to_px (0, s3))), s3) else (0%Z, b3) in
  ((Z.abs (o2 - o0), Z.abs (o1 - o3)), (o0, o3), (n0, n1, n2, n3)).

(* bbox_equals(src, dst, x_delta, y_delta): note that the code compares the two *lower* coordinates with
   x_delta and the two *upper* ones with y_delta *)
Definition bbox_equals (a b : qbbox) (xd yd : Q) : bool :=
  let '(a0, a1, a2, a3) := a in
  let '(b0, b1, b2, b3) := b in
  Qlt_b (Qabs (a0 - b0)) xd && Qlt_b (Qabs (a1 - b1)) xd &&
  Qlt_b (Qabs (a2 - b2)) yd && Qlt_b (Qabs (a3 - b3)) yd.

(* ImageTransformer._no_transformation_needed (same_srs = src_srs == dst_srs) *)
Definition no_transformation_needed (same_srs : bool) (sw sh : Z) (sb : qbbox) (dw dh : Z) (db : qbbox) : bool :=
  let '(d0, d1, d2, d3) := db in
  let xres := (d2 - d0) / inject_Z dw in
  let yres := (d3 - d1) / inject_Z dh in
  (sw =? dw)%Z && (sh =? dh)%Z && same_srs && bbox_equals sb db (xres / 10) (yres / 10).

(* ImageTransformer._transform_simple: what is handed to PIL *)
Inductive simple_action :=
| Crop (x0 y0 x1 y1 : Z)           (* src_img.crop(box) *)
| Extent (x0 y0 x1 y1 : Q).        (* src_img.transform(dst_size, EXTENT, box) *)

Definition transform_simple (sw sh : Z) (sb : qbbox) (dw dh : Z) (db : qbbox) : simple_action :=
  let '(s0, s1, s2, s3) := sb in
  let '(d0, d1, d2, d3) := db in
  let to_src_px := lin_transf sb (img_rect sw sh) in
  let '(minx, miny) := to_src_px (d0, d3) in
  let '(maxx, maxy) := to_src_px (d2, d1) in
  let srx := (s0 - s2) / inject_Z sw in
  let sry := (s1 - s3) / inject_Z sh in
  let drx := (d0 - d2) / inject_Z dw in
  let dry := (d1 - d3) / inject_Z dh in
  let tx := Qabs (drx / (inject_Z dw * 10)) in
  let ty := Qabs (dry / (inject_Z dh * 10)) in
  if Qlt_b (Qabs (srx - drx)) tx && Qlt_b (Qabs (sry - dry)) ty then
    let mx := qround minx in let my := qround miny in
    Crop mx my (mx + dw) (my + dh)
  else Extent minx miny maxx maxy.

Inductive transform_action :=
| Untouched                         (* the source image object itself is returned *)
| Simple (a : simple_action)
| Mesh.                             (* different SRS: transform_meshes *)

(* ImageTransformer.transform *)
Definition transform (same_srs : bool) (sw sh : Z) (sb : qbbox) (dw dh : Z) (db : qbbox) : transform_action :=
  if no_transformation_needed same_srs sw sh sb dw dh db then Untouched
  else if same_srs then Simple (transform_simple sw sh sb dw dh db)
  else Mesh.

(* divide_quad *)
Definition quad := (Z * Z * Z * Z)%type.
Definition divide_quad (q : quad) : list quad :=
  let '(q0, q1, q2, q3) := q in
  let w := (q2 - q0)%Z in let h := (q3 - q1)%Z in
  (* int(q0 + w/2): true division then truncation *)
  let xc := trunc (inject_Z q0 + inject_Z w / 2) in
  let yc := trunc (inject_Z q1 + inject_Z h / 2) in
  if (2 * h <? w)%Z then [(q0, q1, xc, q3); (xc, q1, q2, q3)]
  else if (2 * w <? h)%Z then [(q0, q1, q2, yc); (q0, yc, q2, q3)]
  else [(q0, q1, xc, yc); (xc, q1, q2, yc); (q0, yc, xc, q3); (xc, yc, q2, q3)].

(* transform_meshes.dst_quad_to_src: the corners (nw, sw, se, ne) of a destination quad as source pixel coordinates;
   T = dst_srs.transform_to(src_srs, .) is external (PROJ), off = px_offset (0 or 1/2) *)
Definition dst_quad_to_src (T : qpt -> qpt) (sb : qbbox) (sw sh : Z) (db : qbbox) (dw dh : Z) (off : Q) (q : quad) : list qpt :=
  let '(q0, q1, q2, q3) := q in
  map (fun p : Z * Z =>
         lin_transf sb (img_rect sw sh)
                    (T (lin_transf (img_rect dw dh) db (inject_Z (fst p) + off, inject_Z (snd p) + off))))
      [(q0, q1); (q0, q3); (q2, q3); (q2, q1)].
Definition in_quadb (q : quad) (i j : Z) : bool :=
  let '(q0, q1, q2, q3) := q in ((q0 <=? i) && (i <? q2) && (q1 <=? j) && (j <? q3))%Z.

(* center_quad_transform / quad_transform: the point at the fraction (fx, fy) of the quad under PIL's quad mapping
   (bilinear between the four source corners nw, sw, se, ne) *)
Definition quad_transform (q : quad) (sq : list qpt) (fx fy : Q) : qpt :=
  let '(q0, q1, q2, q3) := q in
  match sq with
  | [nw; sw; se; ne] =>
    let w := inject_Z (q2 - q0) in let h := inject_Z (q3 - q1) in
    let As := 1 / w in let At := 1 / h in
    let x := w * fx - (1 # 2) in let y := h * fy - (1 # 2) in
    (fst nw + (fst ne - fst nw) * As * x + (fst sw - fst nw) * At * y + (fst se - fst sw - fst ne + fst nw) * As * At * x * y,
     snd nw + (snd ne - snd nw) * As * x + (snd sw - snd nw) * At * y + (snd se - snd sw - snd ne + snd nw) * As * At * x * y)
  | _ => (0, 0)
  end.

(* transform_meshes.is_good: quads narrower or lower than 50 px are accepted unchecked; otherwise the true position
   (Tinv = src_srs.transform_to(dst_srs, .)) and the quad mapping are compared at the centre of the quad and at the
   centres of its four quarters; max_err = max_px_err * (d2 - d0) / dw *)
Definition mesh_check_points : list (Q * Q) :=
  [(1 # 2, 1 # 2); (1 # 4, 1 # 4); (3 # 4, 1 # 4); (1 # 4, 3 # 4); (3 # 4, 3 # 4)].
Definition Qmax2 (a b : Q) : Q := if Qle_bool a b then b else a.
Definition mesh_is_good (Tinv : qpt -> qpt) (sb : qbbox) (sw sh : Z) (db : qbbox) (dw dh : Z) (max_err : Q)
           (q : quad) (sq : list qpt) : bool :=
  let '(q0, q1, q2, q3) := q in
  let w := (q2 - q0)%Z in let h := (q3 - q1)%Z in
  if ((w <? 50) || (h <? 50))%Z then true
  else forallb (fun f : Q * Q =>
                  let xc := inject_Z q0 + inject_Z w * fst f - (1 # 2) in
                  let yc := inject_Z q1 + inject_Z h * snd f - (1 # 2) in
                  let dst_w := lin_transf (img_rect dw dh) db (xc, yc) in
                  let real := Tinv (lin_transf (img_rect sw sh) sb (quad_transform q sq (fst f) (snd f))) in
                  Qlt_b (Qmax2 (Qabs (fst dst_w - fst real)) (Qabs (snd dst_w - snd real))) max_err)
               mesh_check_points.

(* add_meshes: accept a quad or divide it; fuel bounds the recursion depth (quads shrink until they are below 50 px) *)
Fixpoint add_meshes (fuel : nat) (T Tinv : qpt -> qpt) (sb : qbbox) (sw sh : Z) (db : qbbox) (dw dh : Z) (off max_err : Q)
         (quads : list quad) : list (quad * list qpt) :=
  match fuel with
  | O => []
  | S f =>
    flat_map (fun q => let sq := dst_quad_to_src T sb sw sh db dw dh off q in
                       if mesh_is_good Tinv sb sw sh db dw dh max_err q sq then [(q, sq)]
                       else add_meshes f T Tinv sb sw sh db dw dh off max_err (divide_quad q)) quads
  end.
Definition transform_meshes (T Tinv : qpt -> qpt) (sb : qbbox) (sw sh : Z) (db : qbbox) (dw dh : Z) (off max_px_err : Q)
  : list (quad * list qpt) :=
  let '(d0, _, d2, _) := db in
  add_meshes 40 T Tinv sb sw sh db dw dh off (max_px_err * ((d2 - d0) / inject_Z dw)) [(0, 0, dw, dh)%Z].

(* WMSServer.map with services.wms.bbox_srs: a request that reaches over the extent configured for its SRS is cut
   down (bbox_position_in_image), only the sub query is rendered and pasted at `offset` into an image of the
   requested size; the georeference written into the answer (GeoTIFF ModelTiepointTag / ModelPixelScaleTag:
   GeoReference.tiepoints / pixelscale) is that of the ORIGINAL query: tie point = upper left corner, pixel scale
   = extent / image size *)
Definition geotiff_tags (b : qbbox) (w h : Z) : qpt * qpt :=
  let '(b0, b1, b2, b3) := b in ((b0, b3), ((b2 - b0) / inject_Z w, (b3 - b1) / inject_Z h)).
Definition wms_map_answer (b : qbbox) (w h : Z) (srs_extent : option qbbox)
  : (qbbox * (Z * Z) * (Z * Z)) * (qpt * qpt) :=
  (* ((rendered sub bbox, its size, paste offset), georeference tags of the answer) *)
  match srs_extent with
  | None => ((b, (w, h), (0, 0)%Z), geotiff_tags b w h)
  | Some e =>
    let '(e0, e1, e2, e3) := e in let '(b0, b1, b2, b3) := b in
    if Qle_bool e0 b0 && Qle_bool e1 b1 && Qle_bool b2 e2 && Qle_bool b3 e3      (* extent contains the request *)
    then ((b, (w, h), (0, 0)%Z), geotiff_tags b w h)
    else let '(sz, off, sub) := bbox_position_in_image b w h e in ((sub, sz, off), geotiff_tags b w h)
  end.

(* InfoQuery.coord *)
Definition info_coord (b : qbbox) (w h : Z) (pos : Z * Z) : qpt :=
  lin_transf (img_rect w h) b (inject_Z (fst pos), inject_Z (snd pos)).

(* WMSInfoClient._get_transformed_query; T = req_srs.transform_to(info_srs, .),
   TB = req_srs.transform_bbox_to(info_srs, .) are external (PROJ).  Result: (bbox, size, pos). *)
Definition transformed_info_query (T : qpt -> qpt) (TB : qbbox -> qbbox)
           (b : qbbox) (w h : Z) (pos : Z * Z) : qbbox * (Z * Z) * (Z * Z) :=
  let req_coord := info_coord b w h pos in
  let ib := TB b in
  let '(i0, i1, i2, i3) := ib in
  let aratio := (i3 - i1) / (i2 - i0) in
  let ih := trunc (aratio * inject_Z w) in
  let ic := T req_coord in
  let ip := lin_transf ib (img_rect w ih) ic in
  (ib, (w, ih), (qround (fst ip), qround (snd ip))).

(* WMSSource._get_transformed: size of the upstream request for the transformed bbox sb *)
Definition transformed_src_size (sb : qbbox) (dw dh : Z) : Z * Z :=
  let '(s0, s1, s2, s3) := sb in
  let sw := s2 - s0 in let sh := s3 - s1 in
  let ratio := sw / sh in
  let xres := sw / inject_Z dw in let yres := sh / inject_Z dh in
  if Qlt_b xres yres then (dw, trunc (inject_Z dw / ratio + (1 # 2)))
  else (trunc (inject_Z dh * ratio + (1 # 2)), dh).

(* ---- bbox axis order (WMS 1.3.0) *)
Inductive wms_version := V100 | V110 | V111 | V130.

(* switch_bbox_epsg_axis_order(bbox, srs); ne = SRS(srs).is_axis_order_ne *)
Definition switch_axis {A} (b : A * A * A * A) (ne : bool) : A * A * A * A :=
  let '(b0, b1, b2, b3) := b in if ne then (b1, b0, b3, b2) else b.

(* incoming request: WMS130MapRequest.adapt_to_111 switches, the other versions do not *)
Definition adapt_to_111 {A} (v : wms_version) (ne : bool) (wire : A * A * A * A) : A * A * A * A :=
  match v with V130 => switch_axis wire ne | _ => wire end.
(* outgoing request: adapt_params_to_version *)
Definition adapt_to_version {A} (v : wms_version) (ne : bool) (internal : A * A * A * A) : A * A * A * A :=
  match v with V130 => switch_axis internal ne | _ => internal end.
(* what a BBOX parameter means (OGC WMS): minx,miny,maxx,maxy in 1.1.1; in CRS axis order in 1.3.0 *)
Definition wire_rectangle {A} (v : wms_version) (ne : bool) (wire : A * A * A * A) : A * A * A * A :=
  let '(a, b, c, d) := wire in
  match v, ne with V130, true => (b, a, d, c) | _, _ => (a, b, c, d) end.

(* GetFeatureInfo pixel position: X/Y in 1.0.0 - 1.1.1, I/J in 1.3.0 (WMS130FeatureInfoRequest.adapt_to_111 copies
   i -> x, j -> y; adapt_params_to_version copies x -> i, y -> j).  Unlike the BBOX it never follows the axis
   order of the CRS: I / X is always the column, J / Y the row. *)
Definition info_pos_to_111 {A} (v : wms_version) (ne : bool) (wire : A * A) : A * A := wire.
Definition info_pos_to_version {A} (v : wms_version) (ne : bool) (internal : A * A) : A * A := internal.

(* ---- comparison helpers for the correspondence *)
Definition qclose (tol a b : Q) : bool := Qle_bool (Qabs (a - b)) tol.
Definition qpt_close (tol : Q) (a b : qpt) : bool := qclose tol (fst a) (fst b) && qclose tol (snd a) (snd b).
Definition qbbox_close (tol : Q) (a b : qbbox) : bool :=
  let '(a0, a1, a2, a3) := a in let '(b0, b1, b2, b3) := b in
  qclose tol a0 b0 && qclose tol a1 b1 && qclose tol a2 b2 && qclose tol a3 b3.
Definition quad_eqb (a b : quad) : bool :=
  let '(a0, a1, a2, a3) := a in let '(b0, b1, b2, b3) := b in
  ((a0 =? b0) && (a1 =? b1) && (a2 =? b2) && (a3 =? b3))%Z.
Definition simple_action_close (tol : Q) (a b : simple_action) : bool :=
  match a, b with
  | Crop a0 a1 a2 a3, Crop b0 b1 b2 b3 => quad_eqb (a0, a1, a2, a3) (b0, b1, b2, b3)
  | Extent a0 a1 a2 a3, Extent b0 b1 b2 b3 => qbbox_close tol (a0, a1, a2, a3) (b0, b1, b2, b3)
  | _, _ => false
  end.
Definition transform_action_close (tol : Q) (a b : transform_action) : bool :=
  match a, b with
  | Untouched, Untouched => true
  | Mesh, Mesh => true
  | Simple x, Simple y => simple_action_close tol x y
  | _, _ => false
  end.
Definition mesh_close (tol : Q) (a b : quad * list qpt) : bool :=
  quad_eqb (fst a) (fst b) &&
  (fix go (x y : list qpt) : bool :=
     match x, y with
     | [], [] => true
     | p :: x', r :: y' => qpt_close tol p r && go x' y'
     | _, _ => false
     end) (snd a) (snd b).
Definition otile_off_eqb (a b : option (Z * Z * Z) * (Z * Z)) : bool :=
  ocoord_eqb (fst a) (fst b) && zz_eqb (snd a) (snd b).
Definition map_plan_eqb (a b : map_plan) : bool :=
  match a, b with
  | Blank, Blank => true
  | BadBBox, BadBBox => true
  | Mosaic l ab nx ny ts, Mosaic l' ab' nx' ny' ts' =>
    ((l =? l') && bbox_eqb ab ab' && (nx =? nx') && (ny =? ny'))%Z && ocoords_eqb ts ts'
  | _, _ => false
  end.

(* ---- TileManager._load_tile_coords: created tiles are put back into the requested collection by coordinate ---- *)
Section LoadAssign.
Local Open Scope Z_scope.
Variable A : Type.
Definition lcoord := (Z * Z * Z)%type.
Definition lcoord_eqb (a b : lcoord) : bool :=
  let '(x, y, z) := a in let '(x', y', z') := b in (x =? x') && (y =? y') && (z =? z').
Definition ocoord_is (c : lcoord) (o : option lcoord) : bool :=
  match o with Some c' => lcoord_eqb c' c | None => false end.
Definition lcell := (option lcoord * option A)%type.

(* tiles[coord].source = v : TileCollection.tiles_dict maps a coordinate to the LAST cell that has it *)
Fixpoint coll_store (cells : list lcell) (c : lcoord) (v : A) : list lcell * bool :=
  match cells with
  | [] => ([], false)
  | (c', s) :: r =>
      let (r', done) := coll_store r c v in
      if done then ((c', s) :: r', true)
      else if ocoord_is c c' then ((c', Some v) :: r', true)
      else ((c', s) :: r', false)
  end.

(* for created_tile in created_tiles: if created_tile.coord in tiles: tiles[created_tile.coord].source = ... *)
Definition load_assign (cells : list lcell) (created : list (lcoord * A)) : list lcell :=
  fold_left (fun acc cv => fst (coll_store acc (fst cv) (snd cv))) created cells.
End LoadAssign.
Arguments coll_store {A}.
Arguments load_assign {A}.
