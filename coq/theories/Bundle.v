(* C19  Compact bundles (ArcGIS compact cache formats v1 and v2) at byte level.

   Model of mapproxy/cache/compact.py (BundleV1, BundleIndexV1, BundleDataV1, BundleV2, CompactCacheBase) and of
   mapproxy/script/defrag.py (defrag_compact_cache), written from the code line by line.  A file is a `bfile` (defined below: length, initial content function, finite map of overwritten bytes -
   the write log of DESIGN.md section 3 in a form that vm_compute reads in logarithmic time); `bwrite f off d` is
   `seek(off); write(d)`.  Bytes.v supplies le/unle/zlen/rres.
   Definitions only; all proofs are in Bundle_proofs.v.  The index-entry arithmetic (v2 decode/encode, the byte
   counts of the v1 entries) is NOT written here: it comes from gen/Gen_compact_fmt.v, generated from the Python
   source by translator/specs/compact_fmt.py; slot arithmetic and bundle keys come from gen/Gen_compact.v.

   Conventions
   * a slot is the bundle-relative (x, y) = (tile x mod 128, tile y mod 128);
   * where the Python raises (struct.error on a short read or a value that does not fit) the model returns
     None / RError; partial effects before the raise are NOT modelled (the theorems carry the guards under
     which nothing raises);
   * the dead branch `if offset == 0` of BundleDataV1.append_tile (empty .bundle file) is modelled too. *)
From Coq Require Import ZArith List Bool FMapPositive.
Import ListNotations.
From MP Require Import Base Bytes Gen_compact Gen_compact_fmt.
Local Open Scope Z_scope.

Definition slot := (Z * Z)%type.
Definition slot_ok (s : slot) : Prop := (0 <= fst s < 128) /\ (0 <= snd s < 128).
Definition slot_eqb (a b : slot) : bool := (fst a =? fst b) && (snd a =? snd b).

(* `for x in range(128)` of one row y, and `for y in range(128): for x in range(128)` *)
Definition row (y : Z) : list slot := map (fun x => (Z.of_nat x, y)) (seq 0 128).
Definition rows : list Z := map Z.of_nat (seq 0 128).
Definition all_slots : list slot := flat_map row rows.

Definition two24 : Z := 16777216.
Definition two32 : Z := 4294967296.
Definition two40 : Z := 1099511627776.
Definition two64 : Z := 18446744073709551616.

(* --- files.  Content at offset i = the last byte written there, else the initial content.  The map is keyed
   by offset + 1.  Writes of the model never leave a hole (they start at or before the end of the file). *)
Record bfile := mkB { blen : Z; binit : Z -> Z; bover : PositiveMap.t Z }.

Definition bbyte (f : bfile) (i : Z) : Z :=
  if (0 <=? i) && (i <? blen f)
  then match PositiveMap.find (Z.to_pos (i + 1)) (bover f) with Some b => b | None => binit f i end
  else 0.

Fixpoint put_bytes (m : PositiveMap.t Z) (p : positive) (d : list Z) : PositiveMap.t Z :=
  match d with
  | [] => m
  | b :: r => put_bytes (PositiveMap.add p b m) (Pos.succ p) r
  end.

(* seek(off); write(d) *)
Definition bwrite (f : bfile) (off : Z) (d : list Z) : bfile :=
  mkB (Z.max (blen f) (off + zlen d)) (binit f) (put_bytes (bover f) (Z.to_pos (off + 1)) d).

(* n bytes starting at off, not looking at the end of file *)
Definition bread (f : bfile) (off : Z) (n : nat) : list Z :=
  map (fun k => bbyte f (off + Z.of_nat k)) (seq 0 n).

(* seek(off); read(n): short at end of file *)
Definition breadz (f : bfile) (off n : Z) : list Z :=
  bread f off (Z.to_nat (Z.min n (blen f - off))).

(* seek(off); struct.unpack(read(n)): None where Python raises struct.error on a short read *)
Definition brdnum (f : bfile) (off : Z) (n : nat) : option Z :=
  if off + Z.of_nat n <=? blen f then Some (unle (bread f off n)) else None.

Definition bnew (n : Z) (init : Z -> Z) : bfile := mkB n init (PositiveMap.empty Z).

(* seek(off); struct.unpack(read(n)) when the read is known to be complete *)
Definition brd (f : bfile) (off : Z) (n : nat) : Z := unle (bread f off n).

Definition bytes_okl (d : list Z) : Prop := Forall (fun b => 0 <= b < 256) d.
Definition bytes_ok (f : bfile) : Prop := forall i, 0 <= bbyte f i < 256.

(* ------------------------------------------------------------------------------------------------ *)
(* What is common to both formats: batches, the defragmentation loop, the abstract view of a bundle   *)
(* and the structural invariant in terms of that view.                                               *)

Section Generic.
  Variable St : Type.                                  (* the file(s) of one bundle *)
  Variable load : St -> slot -> rres.                  (* Bundle.load_tile *)
  Variable store1 : St -> slot -> list Z -> option St. (* one iteration of the loop in Bundle.store_tiles *)
  Variable fresh : St.                                 (* the files _init_index/_init_bundle create *)

  (* Bundle.store_tiles: `for tile_coord, data in tiles_data:` *)
  Fixpoint g_store_tiles (st : St) (tiles : list (slot * list Z)) : option St :=
    match tiles with
    | [] => Some st
    | t :: r => match store1 st (fst t) (snd t) with
                | None => None
                | Some st' => g_store_tiles st' r
                end
    end.

  (* defrag.py: tiles = [Tile((x, y, 0)) for x in range(128)]; b.load_tiles(tiles);
     tiles = [t for t in tiles if t.source]     (None: load_tiles raised) *)
  Fixpoint g_row_tiles (st : St) (ss : list slot) : option (list (slot * list Z)) :=
    match ss with
    | [] => Some []
    | s :: r =>
        match load st s with
        | RError => None
        | RMissing => g_row_tiles st r
        | RData d => match g_row_tiles st r with None => None | Some l => Some ((s, d) :: l) end
        end
    end.

  (* defrag.py lines 162-172.  tmp = None: the tmp_defrag files do not exist yet (stored_tiles = False);
     defb.store_tiles creates them on first use. *)
  Fixpoint g_defrag_rows (st : St) (ys : list Z) (tmp : option St) : option (option St) :=
    match ys with
    | [] => Some tmp
    | y :: r =>
        match g_row_tiles st (row y) with
        | None => None
        | Some [] => g_defrag_rows st r tmp
        | Some tiles =>
            match g_store_tiles (match tmp with Some t => t | None => fresh end) tiles with
            | None => None
            | Some t' => g_defrag_rows st r (Some t')
            end
        end
    end.

  (* lines 162-187 for one bundle that is not skipped: None = an exception escaped; Some None = the bundle
     files were removed and nothing was renamed into place (no tile was live); Some (Some b) = the new files *)
  Definition g_defrag (st : St) : option (option St) := g_defrag_rows st rows None.

  (* reading an address of a bundle that may not exist on disk *)
  Definition g_load_opt (o : option St) (s : slot) : rres :=
    match o with None => RMissing | Some st => load st s end.

  (* --- abstract view: the live record of a slot = (offset of its 4-byte size field, its data bytes) *)
  Variable rec : St -> slot -> option (Z * list Z).
  Variable dlen : St -> Z.          (* length of the bfile that holds the records *)
  Variable base : Z.                (* header + fixed part: first offset a record can have *)
  Variable maxlen : Z.              (* exclusive bound of a tile size the format can represent *)

  Definition rec_len (r : option (Z * list Z)) : Z :=
    match r with Some (_, d) => 4 + zlen d | None => 0 end.

  Definition g_live_sum_on (st : St) (ss : list slot) : Z :=
    fold_right (fun s acc => rec_len (rec st s) + acc) 0 ss.
  Definition g_live_sum (st : St) : Z := g_live_sum_on st all_slots.

  Definition GInv (st : St) : Prop :=
    base <= dlen st /\
    (forall s a d, slot_ok s -> rec st s = Some (a, d) ->
       base <= a /\ a + 4 + zlen d <= dlen st /\ 0 < zlen d < maxlen /\ bytes_okl d) /\
    (forall s s' a d a' d', slot_ok s -> slot_ok s' -> s <> s' ->
       rec st s = Some (a, d) -> rec st s' = Some (a', d') ->
       a + 4 + zlen d <= a' \/ a' + 4 + zlen d' <= a) /\
    base + g_live_sum st <= dlen st.
End Generic.

(* defrag.py lines 143-148, with min_percent given as the rational pn/pd (pd > 0) and exact arithmetic
   instead of float: skip = (1 - size/file_size < pn/pd) or (file_size - size < min_bytes) *)
Definition defrag_skip (size file_size pn pd min_bytes : Z) : bool :=
  ((file_size - size) * pd <? pn * file_size) || (file_size - size <? min_bytes).

(* ------------------------------------------------------------------------------------------------ *)
(* Format v2: one bfile.  64-byte header, 16384 x 8-byte index (offset | size << 40), records          *)

Definition V2_INDEX_SIZE : Z := 16384 * 8.
Definition B2 : Z := 64 + V2_INDEX_SIZE.

(* struct.pack('<4I3Q6I', *BUNDLE_V2_HEADER) *)
Definition v2_header : list Z :=
  le 4 3 ++ le 4 16384 ++ le 4 0 ++ le 4 5 ++ le 8 0 ++ le 8 (64 + V2_INDEX_SIZE) ++ le 8 40 ++
  le 4 (20 + V2_INDEX_SIZE) ++ le 4 3 ++ le 4 16 ++ le 4 16384 ++ le 4 5 ++ le 4 V2_INDEX_SIZE.

(* _init_index: header, then struct.pack('<16384Q', 4, 4, ...) *)
Definition v2_init : bfile :=
  bnew B2 (fun i => if i <? 64 then nth (Z.to_nat i) v2_header 0
                       else if Z.land i 7 =? 0 then 4 else 0).

Definition v2_idx (s : slot) : Z := v2_tile_idx_offset (fst s) (snd s).

(* _tile_offset_size *)
Definition v2_tile_offset_size (f : bfile) (s : slot) : option (Z * Z) :=
  match brdnum f (v2_idx s) v2_entry_bytes with
  | None => None
  | Some val =>
      let size := v2_entry_size val in                  (* generated: val >> 40 *)
      if size =? 0 then Some (0, 0) else Some (v2_entry_offset val, size)   (* generated: val - (size << 40) *)
  end.

(* _load_tile *)
Definition v2_load (f : bfile) (s : slot) : rres :=
  match v2_tile_offset_size f s with
  | None => RError
  | Some (offset, size) => if size =? 0 then RMissing else RData (breadz f offset size)
  end.

(* is_cached *)
Definition v2_is_cached (f : bfile) (s : slot) : option bool :=
  match v2_tile_offset_size f s with
  | None => None
  | Some (_, size) => Some (negb (size =? 0))
  end.

(* _store_tile = _append_tile; _update_tile_offset; _update_metadata *)
Definition v2_store1 (f : bfile) (s : slot) (data : list Z) : option bfile :=
  let size := zlen data in
  if two32 <=? size then None else                       (* struct.pack('<L', len(data)) *)
  let e := blen f in
  let f1 := bwrite f e (le 4 size) in
  let offset := e + 4 in
  let f2 := bwrite f1 offset data in
  let val := v2_entry_encode offset size in              (* generated: offset + (size << 40) *)
  if two64 <=? val then None else                        (* INT64LE.pack(val) *)
  let f3 := bwrite f2 (v2_idx s) (le 8 val) in
  let filesize := offset + size in
  match brdnum f3 8 4 with
  | None => None
  | Some old_tilesize =>
      let f4 := if old_tilesize <? size then bwrite f3 8 (le 4 size) else f3 in
      Some (bwrite f4 24 (le 8 filesize))
  end.

(* remove_tile: _update_tile_offset(fh, x, y, 0, 0) *)
Definition v2_remove1 (f : bfile) (s : slot) : bfile := bwrite f (v2_idx s) (le 8 (v2_entry_encode 0 0)).

(* size() *)
Definition v2_size (f : bfile) : option (Z * Z) :=
  match
    fold_left (fun acc s => match acc with
                            | None => None
                            | Some t => match v2_tile_offset_size f s with
                                        | None => None
                                        | Some (_, size) => Some (if size =? 0 then t else t + size + 4)
                                        end
                            end) all_slots (Some 0)
  with
  | None => None
  | Some total => Some (total + 64 + V2_INDEX_SIZE, blen f)
  end.

Definition v2_store_tiles := g_store_tiles bfile v2_store1.
Definition v2_defrag := g_defrag bfile v2_load v2_store1 v2_init.

(* abstract view of a v2 bfile *)
Definition v2_rec (f : bfile) (s : slot) : option (Z * list Z) :=
  let val := brd f (v2_idx s) 8 in
  let size := val / two40 in
  if size =? 0 then None
  else Some (val mod two40 - 4, bread f (val mod two40) (Z.to_nat size)).

(* format specific part of the invariant: bytes are bytes, the header's bfile size field is the bfile
   length, the size recorded in front of the data equals the size in the index entry, and the header's
   max record size bounds every live record *)
Definition v2_extra (f : bfile) : Prop :=
  bytes_ok f /\ brd f 24 8 = blen f /\
  (forall s a d, slot_ok s -> v2_rec f s = Some (a, d) -> brd f a 4 = zlen d /\ zlen d <= brd f 8 4).

Definition v2_Inv (f : bfile) : Prop := GInv bfile v2_rec blen B2 two24 f /\ v2_extra f.

(* --- a store as the list of its writes, in program order (BundleV2._store_tile: _append_tile writes the size and the
   data at the end of the file, _update_tile_offset the index entry, _update_metadata the two header fields).
   A store that raises part-way (write error, kill) leaves a prefix of this list behind, the appended bytes possibly
   cut short.  v2_WInv is what survives that: v2_Inv without the two header fields. *)
Definition apply_writes (f : bfile) (ws : list (Z * list Z)) : bfile :=
  fold_left (fun g w => bwrite g (fst w) (snd w)) ws f.

Definition v2_store_writes (f : bfile) (s : slot) (data : list Z) : list (Z * list Z) :=
  let size := zlen data in
  let e := blen f in
  [(e, le 4 size); (e + 4, data); (v2_idx s, le 8 (v2_entry_encode (e + 4) size))]
  ++ (if brd f 8 4 <? size then [(8, le 4 size)] else [])
  ++ [(24, le 8 (e + 4 + size))].

Definition v2_WInv (f : bfile) : Prop :=
  GInv bfile v2_rec blen B2 two24 f /\ bytes_ok f /\
  (forall s a d, slot_ok s -> v2_rec f s = Some (a, d) -> brd f a 4 = zlen d).

(* ------------------------------------------------------------------------------------------------ *)
(* Format v1: .bundlx index (16 + 16384 x 5 + 16 bytes) and .bundle data (60-byte header, 16384 x 4    *)
(* zero bytes, records size:4 ++ data)                                                                *)

Definition v1_index_header : list Z := [3;0;0;0;16;0;0;0;0;64;0;0;5;0;0;0].
Definition v1_index_footer : list Z := [0;0;0;0;16;0;0;0;16;0;0;0;0;0;0;0].
Definition X1 : Z := 16 + 16384 * 5 + 16.
Definition B1 : Z := 60 + 16384 * 4.

(* BundleIndexV1._init_index: header, `for i in range(16384): INT64LE.pack(i*4 + 60)[:5]`, footer.  The
   entries are kept in the byte map (k-th entry at offsets 16+5k .. 16+5k+4). *)
Fixpoint v1_init_entries (n : nat) (k : Z) (p : positive) (m : PositiveMap.t Z) : PositiveMap.t Z :=
  match n with
  | O => m
  | S n' => v1_init_entries n' (k + 1) (p + 5)%positive (put_bytes m p (le 5 (k * 4 + 60)))
  end.
Definition v1_init_idx : bfile :=
  mkB X1 (fun i => if i <? 16 then nth (Z.to_nat i) v1_index_header 0
                   else nth (Z.to_nat (i - (16 + 16384 * 5))) v1_index_footer 0)
      (v1_init_entries (128 * 128) 0 17%positive (PositiveMap.empty Z)).

(* struct.pack('<4I3Q5I', *header): None where a field does not fit *)
Definition v1_hdr_pack (h : list Z) : option (list Z) :=
  match h with
  | [h0; h1; h2; h3; h4; h5; h6; h7; h8; h9; h10; h11] =>
      if forallb (fun v => (0 <=? v) && (v <? two32)) [h0; h1; h2; h3; h7; h8; h9; h10; h11]
         && forallb (fun v => (0 <=? v) && (v <? two64)) [h4; h5; h6]
      then Some (le 4 h0 ++ le 4 h1 ++ le 4 h2 ++ le 4 h3 ++ le 8 h4 ++ le 8 h5 ++ le 8 h6 ++
                 le 4 h7 ++ le 4 h8 ++ le 4 h9 ++ le 4 h10 ++ le 4 h11)
      else None
  | _ => None
  end.

(* struct.unpack('<4I3Q5I', fh.read(60)) *)
Definition v1_hdr_unpack (f : bfile) : option (list Z) :=
  if 60 <=? blen f then
    Some [brd f 0 4; brd f 4 4; brd f 8 4; brd f 12 4; brd f 16 8; brd f 24 8; brd f 32 8;
          brd f 40 4; brd f 44 4; brd f 48 4; brd f 52 4; brd f 56 4]
  else None.

(* BundleDataV1._init_bundle for the bundle whose first tile is column c, row r *)
Definition v1_init_hdr (c r : Z) : list Z :=
  le 4 3 ++ le 4 16384 ++ le 4 16 ++ le 4 5 ++ le 8 0 ++ le 8 (60 + 65536) ++ le 8 40 ++
  le 4 16 ++ le 4 r ++ le 4 (r + 127) ++ le 4 c ++ le 4 (c + 127).
Definition v1_init_dat (c r : Z) : bfile :=
  bnew B1 (fun i => if i <? 60 then nth (Z.to_nat i) (v1_init_hdr c r) 0 else 0).

Definition v1st := (bfile * bfile)%type.      (* (.bundlx, .bundle) *)
Definition v1_init (c r : Z) : v1st := (v1_init_idx, v1_init_dat c r).

Definition v1_ioff (s : slot) : Z := v1_tile_index_offset (fst s) (snd s).

(* BundleIndexV1.tile_offset: INT64LE.unpack(read(5) + 3 zero bytes) *)
Definition v1_tile_offset (idx : bfile) (s : slot) : option Z := brdnum idx (v1_ioff s) v1_entry_bytes.

(* BundleV1.load_tiles for one tile *)
Definition v1_load (st : v1st) (s : slot) : rres :=
  let '(idx, dat) := st in
  match v1_tile_offset idx s with
  | None => RError
  | Some offset =>
      if offset =? 0 then RMissing else
      match brdnum dat offset 4 with
      | None => RError
      | Some size =>
          if size <=? 0 then RMissing else
          match breadz dat (offset + 4) size with
          | [] => RMissing                  (* `if not data` *)
          | d => RData d
          end
      end
  end.

(* BundleDataV1.append_tile followed by BundleIndexV1.update_tile_offset *)
Definition v1_store1 (st : v1st) (s : slot) (data : list Z) : option v1st :=
  let '(idx, dat) := st in
  match v1_tile_offset idx s with
  | None => None
  | Some prev =>
      let size := zlen data in
      match (if prev =? 0 then Some true
             else match brdnum dat prev 4 with
                  | None => None
                  | Some n => Some (negb (0 <? n))
                  end) with
      | None => None
      | Some is_new =>
          let e := blen dat in
          let '(dat0, offset) := if e =? 0 then (bwrite dat 0 (repeat 0 16), 16) else (dat, e) in
          if two32 <=? size then None else
          let dat1 := bwrite dat0 offset (le 4 size) in
          let dat2 := bwrite dat1 (offset + 4) data in
          match v1_hdr_unpack dat2 with
          | Some [h0; h1; h2; h3; h4; h5; h6; h7; h8; h9; h10; h11] =>
              match v1_hdr_pack [h0; h1; Z.max h2 size; h3; (if is_new then h4 + 4 else h4);
                                 h5 + size + 4; h6; h7; h8; h9; h10; h11] with
              | None => None
              | Some hb =>
                  let dat3 := bwrite dat2 0 hb in
                  Some (bwrite idx (v1_ioff s) (le v1_entry_write_bytes offset), dat3)
              end
          | _ => None
          end
      end
  end.

(* BundleV1.remove_tile *)
Definition v1_remove1 (st : v1st) (s : slot) : v1st :=
  (bwrite (fst st) (v1_ioff s) (repeat 0 v1_entry_remove_bytes), snd st).

(* BundleV1.is_cached *)
Definition v1_is_cached (st : v1st) (s : slot) : option bool :=
  let '(idx, dat) := st in
  match v1_tile_offset idx s with
  | None => None
  | Some offset =>
      if offset =? 0 then Some false else
      match brdnum dat offset 4 with
      | None => None
      | Some size => Some (negb (size =? 0))
      end
  end.

(* BundleV1.size() *)
Definition v1_size (st : v1st) : option (Z * Z) :=
  let '(idx, dat) := st in
  match
    fold_left (fun acc s => match acc with
                            | None => None
                            | Some t => match v1_tile_offset idx s with
                                        | None => None
                                        | Some offset =>
                                            if offset =? 0 then Some t else
                                            match brdnum dat offset 4 with
                                            | None => None
                                            | Some size => Some (if size =? 0 then t else t + size + 4)
                                            end
                                        end
                            end) all_slots (Some 0)
  with
  | None => None
  | Some total => Some (total + 60 + 16384 * 4, blen dat)
  end.

Definition v1_store_tiles := g_store_tiles v1st v1_store1.
Definition v1_defrag (c r : Z) := g_defrag v1st v1_load v1_store1 (v1_init c r).

Definition v1_dlen (st : v1st) : Z := blen (snd st).

Definition v1_rec (st : v1st) (s : slot) : option (Z * list Z) :=
  let off := brd (fst st) (v1_ioff s) 5 in
  if off =? 0 then None
  else let n := brd (snd st) off 4 in
       if n =? 0 then None else Some (off, bread (snd st) (off + 4) (Z.to_nat n)).

(* format specific part of the invariant: bytes are bytes; the index bfile keeps its length; every non-zero
   index offset names a complete record (4-byte size and that many bytes) inside the data bfile behind the
   header - also for the slots that are not live (initial entries point into the zero area); the header's
   bundle size field is the bfile length and its largest-tile field bounds every live record *)
Definition v1_extra (st : v1st) : Prop :=
  bytes_ok (fst st) /\ bytes_ok (snd st) /\ blen (fst st) = X1 /\
  (forall s, slot_ok s ->
     let off := brd (fst st) (v1_ioff s) 5 in
     off = 0 \/ (60 <= off /\ off + 4 + brd (snd st) off 4 <= blen (snd st))) /\
  brd (snd st) 24 8 = blen (snd st) /\ brd (snd st) 16 8 <= blen (snd st) /\
  (forall s a d, slot_ok s -> v1_rec st s = Some (a, d) -> zlen d <= brd (snd st) 8 4).

Definition v1_Inv (st : v1st) : Prop := GInv v1st v1_rec v1_dlen B1 two32 st /\ v1_extra st.

(* what survives a v1 store that fails part-way: v1_Inv with the header fields only bounded by the file length
   (a failed store leaves the bundle-size field behind for good: append_tile adds to it, it never re-reads the
   file length) and without the largest-tile field *)
Definition v1_WInv (st : v1st) : Prop :=
  GInv v1st v1_rec v1_dlen B1 two32 st /\
  bytes_ok (fst st) /\ bytes_ok (snd st) /\ blen (fst st) = X1 /\
  (forall s, slot_ok s ->
     let off := brd (fst st) (v1_ioff s) 5 in
     off = 0 \/ (60 <= off /\ off + 4 + brd (snd st) off 4 <= blen (snd st))) /\
  brd (snd st) 24 8 <= blen (snd st) /\ brd (snd st) 16 8 <= blen (snd st).

(* ------------------------------------------------------------------------------------------------ *)
(* Histories on one bundle                                                                           *)

Inductive bop := OStore (tiles : list (slot * list Z)) | ORemove (s : slot).

Definition v2_step (o : option bfile) (op : bop) : option bfile :=
  match o with
  | None => None
  | Some f => match op with
              | OStore tiles => v2_store_tiles f tiles
              | ORemove s => Some (v2_remove1 f s)
              end
  end.
Definition v2_run (ops : list bop) : option bfile := fold_left v2_step ops (Some v2_init).

Definition v1_step (o : option v1st) (op : bop) : option v1st :=
  match o with
  | None => None
  | Some st => match op with
               | OStore tiles => v1_store_tiles st tiles
               | ORemove s => Some (v1_remove1 st s)
               end
  end.
Definition v1_run (c r : Z) (ops : list bop) : option v1st := fold_left v1_step ops (Some (v1_init c r)).

(* guards of a history: what the formats can represent *)
Definition tile_ok (maxlen : Z) (t : slot * list Z) : Prop :=
  slot_ok (fst t) /\ bytes_okl (snd t) /\ zlen (snd t) < maxlen.
Definition op_ok (maxlen : Z) (op : bop) : Prop :=
  match op with
  | OStore tiles => Forall (tile_ok maxlen) tiles
  | ORemove s => slot_ok s
  end.
Definition op_bytes (op : bop) : Z :=
  match op with
  | OStore tiles => fold_right (fun t acc => 4 + zlen (snd t) + acc) 0 tiles
  | ORemove _ => 0
  end.
Definition ops_bytes (ops : list bop) : Z := fold_right (fun op acc => op_bytes op + acc) 0 ops.

(* ------------------------------------------------------------------------------------------------ *)
(* A cache = bundles keyed by (level, first column, first row)  (CompactCacheBase)                      *)

Definition bkey := (Z * Z * Z)%type.
Definition bkey_eqb (a b : bkey) : bool := Z3_eqb a b.
Definition key_of (x y z : Z) : bkey := let '(c, r) := bundle_offset x y z in (z, c, r).
Definition slot_of (x y : Z) : slot := v2_rel_tile_coord x y.

Section Cache.
  Variable St : Type.
  Fixpoint c_find (c : list (bkey * St)) (k : bkey) : option St :=
    match c with
    | [] => None
    | (k', st) :: r => if bkey_eqb k k' then Some st else c_find r k
    end.
  Fixpoint c_set (c : list (bkey * St)) (k : bkey) (st : St) : list (bkey * St) :=
    match c with
    | [] => [(k, st)]
    | (k', st') :: r => if bkey_eqb k k' then (k, st) :: r else (k', st') :: c_set r k st
    end.
  Fixpoint c_del (c : list (bkey * St)) (k : bkey) : list (bkey * St) :=
    match c with
    | [] => []
    | (k', st') :: r => if bkey_eqb k k' then r else (k', st') :: c_del r k
    end.
End Cache.
Arguments c_find {St}. Arguments c_set {St}. Arguments c_del {St}.

Inductive cop := CStore (tiles : list ((Z * Z * Z) * list Z)) | CRemove (coord : Z * Z * Z).

Section CacheOps.
  Variable St : Type.
  Variable load : St -> slot -> rres.
  Variable store1 : St -> slot -> list Z -> option St.
  Variable remove1 : St -> slot -> St.
  Variable fresh : bkey -> St.

  Definition c_get (c : list (bkey * St)) (k : bkey) : St :=
    match c_find c k with Some st => st | None => fresh k end.

  (* CompactCacheBase.store_tiles: whether the batch goes to one bundle in one call or tile by tile, the
     files see the same sequence of _store_tile / append_tile steps *)
  Fixpoint c_store_tiles (c : list (bkey * St)) (tiles : list ((Z * Z * Z) * list Z)) : option (list (bkey * St)) :=
    match tiles with
    | [] => Some c
    | ((x, y, z), d) :: r =>
        let k := key_of x y z in
        match store1 (c_get c k) (slot_of x y) d with
        | None => None
        | Some st' => c_store_tiles (c_set c k st') r
        end
    end.

  Definition c_remove (c : list (bkey * St)) (coord : Z * Z * Z) : list (bkey * St) :=
    let '(x, y, z) := coord in
    let k := key_of x y z in
    c_set c k (remove1 (c_get c k) (slot_of x y)).

  Definition c_load (c : list (bkey * St)) (coord : Z * Z * Z) : rres :=
    let '(x, y, z) := coord in
    match c_find c (key_of x y z) with
    | None => RMissing
    | Some st => load st (slot_of x y)
    end.

  Definition c_step (o : option (list (bkey * St))) (op : cop) : option (list (bkey * St)) :=
    match o with
    | None => None
    | Some c => match op with
                | CStore tiles => c_store_tiles c tiles
                | CRemove coord => Some (c_remove c coord)
                end
    end.
  Definition c_run (ops : list cop) : option (list (bkey * St)) := fold_left c_step ops (Some []).

  (* defrag_compact_cache: `skip st` is the threshold decision for a bundle (any function: the theorems hold
     for every threshold setting, float rounding included); bundles are independent *)
  Variable defrag1 : bkey -> St -> option (option St).
  Fixpoint c_defrag (skip : bkey -> St -> bool) (c : list (bkey * St)) : option (list (bkey * St)) :=
    match c with
    | [] => Some []
    | (k, st) :: r =>
        match c_defrag skip r with
        | None => None
        | Some r' =>
            if skip k st then Some ((k, st) :: r')
            else match defrag1 k st with
                 | None => None
                 | Some None => Some r'
                 | Some (Some st') => Some ((k, st') :: r')
                 end
        end
    end.
End CacheOps.

(* guards of a cache history (tile coordinates are arbitrary integers: the slot is always in range) and the
   invariant of a cache: distinct bundle keys, every bundle valid and at most b bytes long *)
Definition ctile_ok (maxlen : Z) (t : (Z * Z * Z) * list Z) : Prop := bytes_okl (snd t) /\ zlen (snd t) < maxlen.
Definition cop_ok (maxlen : Z) (op : cop) : Prop :=
  match op with CStore tiles => Forall (ctile_ok maxlen) tiles | CRemove _ => True end.
Definition ctiles_bytes (l : list ((Z * Z * Z) * list Z)) : Z := fold_right (fun t acc => 4 + zlen (snd t) + acc) 0 l.
Definition cop_bytes (op : cop) : Z := match op with CStore tiles => ctiles_bytes tiles | CRemove _ => 0 end.
Definition cops_bytes (ops : list cop) : Z := fold_right (fun op acc => cop_bytes op + acc) 0 ops.

Definition cache_ok {St : Type} (Inv : St -> Prop) (dlen : St -> Z) (b : Z) (c : list (bkey * St)) : Prop :=
  NoDup (map fst c) /\ forall k st, In (k, st) c -> Inv st /\ dlen st <= b.

Definition v2c_run := c_run bfile v2_store1 v2_remove1 (fun _ => v2_init).
Definition v2c_load := c_load bfile v2_load.
Definition v2c_defrag := c_defrag bfile (fun _ => v2_defrag).
Definition v1_fresh (k : bkey) : v1st := let '(_, c, r) := k in v1_init c r.
Definition v1c_run := c_run v1st v1_store1 v1_remove1 v1_fresh.
Definition v1c_load := c_load v1st v1_load.
Definition v1c_defrag := c_defrag v1st (fun k => let '(_, c, r) := k in v1_defrag c r).

(* the threshold decision of defrag.py from size() of the bundle *)
Definition v2_skip (pn pd min_bytes : Z) (_ : bkey) (f : bfile) : bool :=
  match v2_size f with
  | Some (size, fsize) => defrag_skip size fsize pn pd min_bytes
  | None => true
  end.
Definition v1_skip (pn pd min_bytes : Z) (_ : bkey) (st : v1st) : bool :=
  match v1_size st with
  | Some (size, fsize) => defrag_skip size fsize pn pd min_bytes
  | None => true
  end.

(* ------------------------------------------------------------------------------------------------ *)
(* Observations compared with the real files by the correspondence check (harness/props/c19.py)       *)

Definition zl_eqb := list_eqb Z.eqb.
Definition size_eqb (a b : option (Z * Z)) : bool := opt_eqb (pair_eqb Z.eqb Z.eqb) a b.

(* v2: (file length, header, raw index entries of the probe slots, everything behind the index,
        what load_tile returns for the probes, size()) *)
Definition v2_obs := (Z * list Z * list Z * list Z * list rres * option (Z * Z))%type.
Definition v2_observe (probes : list slot) (f : bfile) : v2_obs :=
  (blen f, bread f 0 64, map (fun s => brd f (v2_idx s) 8) probes,
   bread f B2 (Z.to_nat (blen f - B2)), map (v2_load f) probes, v2_size f).
Definition v2_obs_eqb (a b : v2_obs) : bool :=
  let '(l1, h1, e1, t1, r1, s1) := a in
  let '(l2, h2, e2, t2, r2, s2) := b in
  (l1 =? l2) && zl_eqb h1 h2 && zl_eqb e1 e2 && zl_eqb t1 t2 && list_eqb rres_eqb r1 r2 && size_eqb s1 s2.

(* v1: (index length, index header ++ footer, raw index entries of the probes, data file length, data
        header, everything behind the zero area, whether the zero area is still zero at the probes' initial
        positions, load results, size()) *)
Definition v1_obs := (Z * list Z * list Z * Z * list Z * list Z * list Z * list rres * option (Z * Z))%type.
Definition v1_observe (probes : list slot) (st : v1st) : v1_obs :=
  let '(idx, dat) := st in
  (blen idx, bread idx 0 16 ++ bread idx (16 + 16384 * 5) 16, map (fun s => brd idx (v1_ioff s) 5) probes,
   blen dat, bread dat 0 60, bread dat B1 (Z.to_nat (blen dat - B1)),
   map (fun s => brd dat (60 + 4 * (fst s * 128 + snd s)) 4) probes,
   map (v1_load st) probes, v1_size st).
Definition v1_obs_eqb (a b : v1_obs) : bool :=
  let '(l1, h1, e1, m1, g1, t1, z1, r1, s1) := a in
  let '(l2, h2, e2, m2, g2, t2, z2, r2, s2) := b in
  (l1 =? l2) && zl_eqb h1 h2 && zl_eqb e1 e2 && (m1 =? m2) && zl_eqb g1 g2 && zl_eqb t1 t2 && zl_eqb z1 z2
  && list_eqb rres_eqb r1 r2 && size_eqb s1 s2.

(* a cache against the observed bundles: same number of bundles, every observed bundle is in the model with
   equal observation and equal threshold decision *)
Section ObsCache.
  Variable St Obs : Type.
  Variable observe : St -> Obs.
  Variable obs_eqb : Obs -> Obs -> bool.
  Definition c_obs_ok (skip : bkey -> St -> bool) (c : option (list (bkey * St)))
             (seen : option (list (bkey * Obs * bool))) : bool :=
    match c, seen with
    | None, None => true
    | Some c, Some seen =>
        (Nat.eqb (length c) (length seen)) &&
        forallb (fun e => let '(k, o, sk) := e in
                          match c_find c k with
                          | None => false
                          | Some st => obs_eqb (observe st) o && Bool.eqb (skip k st) sk
                          end) seen
    | _, _ => false
    end.
End ObsCache.

(* one correspondence case: history, probe slots, thresholds, what was seen before and after the real
   defrag_compact_cache *)
Definition v2_case := (list cop * list slot * (Z * Z * Z) *
                       option (list (bkey * v2_obs * bool)) * option (list (bkey * v2_obs * bool)))%type.
Definition v2_case_ok (c : v2_case) : bool :=
  let '(ops, probes, (pn, pd, mb), before, after) := c in
  let st := v2c_run ops in
  c_obs_ok bfile v2_obs (v2_observe probes) v2_obs_eqb (v2_skip pn pd mb) st before &&
  c_obs_ok bfile v2_obs (v2_observe probes) v2_obs_eqb (fun _ _ => true)
           (match st with None => None | Some c => v2c_defrag (v2_skip pn pd mb) c end)
           after.

Definition v1_case := (list cop * list slot * (Z * Z * Z) *
                       option (list (bkey * v1_obs * bool)) * option (list (bkey * v1_obs * bool)))%type.
Definition v1_case_ok (c : v1_case) : bool :=
  let '(ops, probes, (pn, pd, mb), before, after) := c in
  let st := v1c_run ops in
  c_obs_ok v1st v1_obs (v1_observe probes) v1_obs_eqb (v1_skip pn pd mb) st before &&
  c_obs_ok v1st v1_obs (v1_observe probes) v1_obs_eqb (fun _ _ => true)
           (match st with None => None | Some c => v1c_defrag (v1_skip pn pd mb) c end)
           after.

(* ------------------------------------------------------------------------------------------------ *)
(* Correspondence only: bundles that have grown large.  A long history of overwrites is stood in for by a   *)
(* sparse hole: the harness extends the real .bundle with os.truncate(n) and writes n into the header       *)
(* file-size field (offset 24, 8 bytes, both formats) as _update_metadata / append_tile would have.         *)

Definition bextend (f : bfile) (n : Z) : bfile :=
  mkB (Z.max (blen f) n) (fun i => if i <? blen f then binit f i else 0) (bover f).
Definition v2_sparse (f : bfile) (n : Z) : bfile := bwrite (bextend f n) 24 (le 8 n).
Definition v1_sparse (st : v1st) (n : Z) : v1st := (fst st, bwrite (bextend (snd st) n) 24 (le 8 n)).

Inductive xop := XOp (op : cop) | XSparse (k : bkey) (n : Z).

Section XRun.
  Variable St : Type.
  Variable store1 : St -> slot -> list Z -> option St.
  Variable remove1 : St -> slot -> St.
  Variable fresh : bkey -> St.
  Variable sparse : St -> Z -> St.
  Definition x_step (o : option (list (bkey * St))) (op : xop) : option (list (bkey * St)) :=
    match op with
    | XOp op => c_step St store1 remove1 fresh o op
    | XSparse k n => match o with
                     | None => None
                     | Some c => match c_find c k with
                                 | None => None
                                 | Some st => Some (c_set c k (sparse st n))
                                 end
                     end
    end.
  Definition x_run (ops : list xop) : option (list (bkey * St)) := fold_left x_step ops (Some []).
End XRun.

(* observations that never look at the whole file: lengths, header(s), raw index entries and load results of the
   probe slots, size() *)
Definition v2_sobs := (Z * list Z * list Z * list rres * option (Z * Z))%type.
Definition v2_sobserve (probes : list slot) (f : bfile) : v2_sobs :=
  (blen f, bread f 0 64, map (fun s => brd f (v2_idx s) 8) probes, map (v2_load f) probes, v2_size f).
Definition v2_sobs_eqb (a b : v2_sobs) : bool :=
  let '(l1, h1, e1, r1, s1) := a in
  let '(l2, h2, e2, r2, s2) := b in
  (l1 =? l2) && zl_eqb h1 h2 && zl_eqb e1 e2 && list_eqb rres_eqb r1 r2 && size_eqb s1 s2.

Definition v1_sobs := (Z * list Z * list Z * Z * list Z * list Z * list rres * option (Z * Z))%type.
Definition v1_sobserve (probes : list slot) (st : v1st) : v1_sobs :=
  let '(idx, dat) := st in
  (blen idx, bread idx 0 16 ++ bread idx (16 + 16384 * 5) 16, map (fun s => brd idx (v1_ioff s) 5) probes,
   blen dat, bread dat 0 60, map (fun s => brd dat (60 + 4 * (fst s * 128 + snd s)) 4) probes,
   map (v1_load st) probes, v1_size st).
Definition v1_sobs_eqb (a b : v1_sobs) : bool :=
  let '(l1, h1, e1, m1, g1, z1, r1, s1) := a in
  let '(l2, h2, e2, m2, g2, z2, r2, s2) := b in
  (l1 =? l2) && zl_eqb h1 h2 && zl_eqb e1 e2 && (m1 =? m2) && zl_eqb g1 g2 && zl_eqb z1 z2
  && list_eqb rres_eqb r1 r2 && size_eqb s1 s2.

Definition v2_scase := (list xop * list slot * (Z * Z * Z) *
                        option (list (bkey * v2_sobs * bool)) * option (list (bkey * v2_sobs * bool)))%type.
Definition v2_scase_ok (c : v2_scase) : bool :=
  let '(ops, probes, (pn, pd, mb), before, after) := c in
  let st := x_run bfile v2_store1 v2_remove1 (fun _ => v2_init) v2_sparse ops in
  c_obs_ok bfile v2_sobs (v2_sobserve probes) v2_sobs_eqb (v2_skip pn pd mb) st before &&
  c_obs_ok bfile v2_sobs (v2_sobserve probes) v2_sobs_eqb (fun _ _ => true)
           (match st with None => None | Some c => v2c_defrag (v2_skip pn pd mb) c end)
           after.

Definition v1_scase := (list xop * list slot * (Z * Z * Z) *
                        option (list (bkey * v1_sobs * bool)) * option (list (bkey * v1_sobs * bool)))%type.
Definition v1_scase_ok (c : v1_scase) : bool :=
  let '(ops, probes, (pn, pd, mb), before, after) := c in
  let st := x_run v1st v1_store1 v1_remove1 v1_fresh v1_sparse ops in
  c_obs_ok v1st v1_sobs (v1_sobserve probes) v1_sobs_eqb (v1_skip pn pd mb) st before &&
  c_obs_ok v1st v1_sobs (v1_sobserve probes) v1_sobs_eqb (fun _ _ => true)
           (match st with None => None | Some c => v1c_defrag (v1_skip pn pd mb) c end)
           after.
