(* Shared helpers for models and for the in-Coq comparison of correspondence cases. *)
From Coq Require Import ZArith List Bool String Ascii.
Import ListNotations.

Fixpoint bad_idx_from {A} (f : A -> bool) (l : list A) (i : N) : list N :=
  match l with
  | [] => []
  | x :: r => if f x then bad_idx_from f r (N.succ i) else i :: bad_idx_from f r (N.succ i)
  end.
Definition bad_idx {A} (f : A -> bool) (l : list A) : list N := bad_idx_from f l 0%N.

Definition opt_eqb {A} (e : A -> A -> bool) (a b : option A) : bool :=
  match a, b with
  | Some x, Some y => e x y
  | None, None => true
  | _, _ => false
  end.

Fixpoint list_eqb {A} (e : A -> A -> bool) (a b : list A) : bool :=
  match a, b with
  | [], [] => true
  | x :: a', y :: b' => e x y && list_eqb e a' b'
  | _, _ => false
  end.

Definition pair_eqb {A B} (ea : A -> A -> bool) (eb : B -> B -> bool) (a b : A * B) : bool :=
  ea (fst a) (fst b) && eb (snd a) (snd b).

Definition Z3_eqb (a b : Z * Z * Z) : bool :=
  let '(a1, a2, a3) := a in let '(b1, b2, b3) := b in
  (Z.eqb a1 b1 && Z.eqb a2 b2 && Z.eqb a3 b3)%bool.

Definition Z4_eqb (a b : Z * Z * Z * Z) : bool :=
  let '(a1, a2, a3, a4) := a in let '(b1, b2, b3, b4) := b in
  (Z.eqb a1 b1 && Z.eqb a2 b2 && Z.eqb a3 b3 && Z.eqb a4 b4)%bool.

Lemma list_eqb_refl {A} (e : A -> A -> bool) (l : list A) :
  (forall x, e x x = true) -> list_eqb e l l = true.
Proof. intros H; induction l as [|x l IH]; simpl; [reflexivity|]. rewrite H, IH. reflexivity. Qed.
