(* Lemmas about the authorization model Auth.v (C10). *)
From Coq Require Import ZArith List Bool Lia Arith.
Import ListNotations.
From MP Require Import Base Auth.
Local Open Scope Z_scope.

(* ------------------------------------------------------------------ association lists *)

Lemma assoc_not_in : forall {A} (l : list (Z * A)) n, ~ In n (map fst l) -> assoc n l = None.
Proof.
  intros A l n. induction l as [|[k v] l IH]; simpl; intros H; [reflexivity|].
  destruct (k =? n) eqn:E.
  - apply Z.eqb_eq in E. exfalso. apply H. left. exact E.
  - apply IH. intros Hin. apply H. right. exact Hin.
Qed.

Lemma assoc_in : forall {A} (l : list (Z * A)) n v, assoc n l = Some v -> In (n, v) l.
Proof.
  intros A l n v. induction l as [|[k w] l IH]; simpl; intros H; [discriminate|].
  destruct (k =? n) eqn:E.
  - apply Z.eqb_eq in E. inversion H; subst. left. reflexivity.
  - right. apply IH. exact H.
Qed.

Lemma mem_true_in : forall n l, mem n l = true <-> In n l.
Proof.
  intros n l. unfold mem. rewrite existsb_exists. split.
  - intros [x [Hin E]]. apply Z.eqb_eq in E. subst. exact Hin.
  - intros H. exists n. split; [exact H|apply Z.eqb_refl].
Qed.

(* the dictionary built by authorized_layers, read through assoc; r_layers is a dictionary (unique keys) *)
Lemma assoc_auth_dict : forall (f : feat) (l : list (Z * perm)) n,
  NoDup (map fst l) ->
  assoc n (flat_map (fun np : Z * perm => if is_True (flag f (snd np)) then [(fst np, p_lim (snd np))] else []) l)
  = match assoc n l with
    | Some p => if is_True (flag f p) then Some (p_lim p) else None
    | None => None
    end.
Proof.
  intros f l n. induction l as [|[k p] l IH]; intros ND; [reflexivity|].
  inversion ND as [|? ? Hnotin ND']; subst.
  cbn [flat_map assoc fst snd].
  destruct (k =? n) eqn:E.
  - apply Z.eqb_eq in E. subst k.
    destruct (is_True (flag f p)).
    + cbn [app assoc]. rewrite Z.eqb_refl. reflexivity.
    + cbn [app]. apply assoc_not_in. intros Hin. apply Hnotin.
      rewrite in_map_iff in Hin. destruct Hin as [[k' v] [Hk Hin]]. cbn in Hk. subst k'.
      rewrite in_flat_map in Hin. destruct Hin as [[k2 p2] [Hin2 Hin3]]. cbn [fst snd] in Hin3.
      destruct (is_True (flag f p2)); [|contradiction].
      destruct Hin3 as [Heq|[]]. inversion Heq; subst.
      rewrite in_map_iff. exists (n, p2). split; [reflexivity|exact Hin2].
  - destruct (is_True (flag f p)).
    + cbn [app assoc]. rewrite E. apply IH. exact ND'.
    + cbn [app]. apply IH. exact ND'.
Qed.

(* ------------------------------------------------------------------ authorized_layers *)

Lemma authorized_some_permitted : forall f r auth cov n lim,
  NoDup (map fst (r_layers r)) ->
  authorized_layers f (Some r) = AZ_some auth cov ->
  assoc n auth = Some lim ->
  permitted f r n = true /\ cov = r_lim r /\
  exists p, assoc n (r_layers r) = Some p /\ lim = p_lim p.
Proof.
  intros f r auth cov n lim ND H A. unfold authorized_layers in H. unfold permitted.
  destruct (r_kind r); try discriminate; inversion H; subst; clear H.
  - rewrite assoc_auth_dict in A by exact ND.
    destruct (assoc n (r_layers r)) as [p|]; [|discriminate].
    destruct (is_True (flag f p)) eqn:E; [|discriminate]. inversion A; subst.
    split; [reflexivity|]. split; [reflexivity|]. exists p. split; reflexivity.
  - discriminate.
  - discriminate.
Qed.

Lemma authorized_denied_none : forall f r n,
  NoDup (map fst (r_layers r)) ->
  r_kind r <> A_full -> r_kind r <> A_unauth ->
  permitted f r n = false ->
  exists auth, authorized_layers f (Some r) = AZ_some auth (r_lim r) /\ assoc n auth = None.
Proof.
  intros f r n ND Hf Hu P. unfold authorized_layers, permitted in *.
  destruct (r_kind r); try congruence.
  - eexists. split; [reflexivity|]. rewrite assoc_auth_dict by exact ND.
    destruct (assoc n (r_layers r)) as [p|]; [|reflexivity]. rewrite P. reflexivity.
  - eexists. split; reflexivity.
  - eexists. split; reflexivity.
Qed.

Lemma authorized_none_denied : forall f r auth cov n,
  NoDup (map fst (r_layers r)) ->
  authorized_layers f (Some r) = AZ_some auth cov ->
  assoc n auth = None ->
  permitted f r n = false.
Proof.
  intros f r auth cov n ND H A. unfold authorized_layers in H. unfold permitted.
  destruct (r_kind r); try discriminate; inversion H; subst; clear H; try reflexivity.
  rewrite assoc_auth_dict in A by exact ND.
  destruct (assoc n (r_layers r)) as [p|]; [|reflexivity].
  destruct (is_True (flag f p)); [discriminate|reflexivity].
Qed.

(* ------------------------------------------------------------------ filter_actual_layers *)

Lemma filter_actual_in : forall {S} auth req (actual : list (Z * list S)) fl n lim srcs,
  filter_actual auth req actual = Some fl -> In (n, lim, srcs) fl ->
  assoc n auth = Some lim /\ In (n, srcs) actual.
Proof.
  intros S auth req actual. induction actual as [|[k ss] rest IH]; intros fl n lim srcs H Hin.
  - inversion H; subst. contradiction.
  - cbn [filter_actual] in H. destruct (assoc k auth) as [l|] eqn:A.
    + destruct (filter_actual auth req rest) as [r|] eqn:F; [|discriminate]. inversion H; subst. clear H.
      destruct Hin as [Heq|Hin].
      * inversion Heq; subst. split; [exact A|left; reflexivity].
      * destruct (IH r n lim srcs eq_refl Hin) as [H1 H2]. split; [exact H1|right; exact H2].
    + destruct (mem k req); [discriminate|].
      destruct (IH fl n lim srcs H Hin) as [H1 H2]. split; [exact H1|right; exact H2].
Qed.

Lemma filter_actual_403 : forall {S} auth req (actual : list (Z * list S)) n srcs,
  In (n, srcs) actual -> assoc n auth = None -> mem n req = true ->
  filter_actual auth req actual = None.
Proof.
  intros S auth req actual. induction actual as [|[k ss] rest IH]; intros n srcs Hin A M; [contradiction|].
  cbn [filter_actual]. destruct Hin as [Heq|Hin].
  - inversion Heq; subst. rewrite A, M. reflexivity.
  - rewrite (IH n srcs Hin A M). destruct (assoc k auth); [reflexivity|]. destruct (mem k req); reflexivity.
Qed.

(* implicit (not explicitly requested) denied layers are dropped, everything else is kept in order *)
Lemma filter_actual_keeps : forall {S} auth req (actual : list (Z * list S)),
  (forall n srcs, In (n, srcs) actual -> assoc n auth = None -> mem n req = false) ->
  exists fl, filter_actual auth req actual = Some fl /\
             map (fun e : Z * option Z * list S => (fst (fst e), snd e)) fl
             = filter (fun e : Z * list S => match assoc (fst e) auth with Some _ => true | None => false end) actual.
Proof.
  intros S auth req actual. induction actual as [|[k ss] rest IH]; intros H.
  - exists []. split; reflexivity.
  - destruct IH as [fl [F M]]. { intros n srcs Hin. apply (H n srcs). right. exact Hin. }
    cbn [filter_actual filter fst]. destruct (assoc k auth) as [l|] eqn:A.
    + rewrite F. eexists. split; [reflexivity|]. cbn [map fst snd]. rewrite M. reflexivity.
    + rewrite (H k ss (or_introl eq_refl) A). exists fl. split; [exact F|exact M].
Qed.

Lemma in_flatten_entries : forall (l : list (Z * option Z * list Z)) n lim s,
  In (n, lim, s) (flatten_entries l) <-> exists srcs, In (n, lim, srcs) l /\ In s srcs.
Proof.
  intros l n lim s. unfold flatten_entries. rewrite in_flat_map. split.
  - intros [[[n' lim'] srcs] [Hin H]]. rewrite in_map_iff in H. destruct H as [s' [Heq Hs]].
    inversion Heq; subst. exists srcs. split; assumption.
  - intros [srcs [Hin Hs]]. exists (n, lim, srcs). split; [exact Hin|].
    rewrite in_map_iff. exists s. split; [reflexivity|exact Hs].
Qed.

(* ------------------------------------------------------------------ hiding by opaque layers (second loop of map) *)

Lemma od_set_in : forall {V} (d : list (Z * V)) n x k v,
  In (k, v) (od_set d n x) -> (k, v) = (n, x) \/ In (k, v) d.
Proof.
  intros V d n x k v. induction d as [|[k' v'] d IH]; cbn [od_set]; intros H.
  - destruct H as [H|[]]. left. symmetry. exact H.
  - destruct (k' =? n).
    + destruct H as [H|H]; [left; symmetry; exact H|right; right; exact H].
    + destruct H as [H|H]; [right; left; exact H|]. destruct (IH H) as [E|E]; [left; exact E|right; right; exact E].
Qed.

Lemma od_set_keys : forall {V} (d : list (Z * V)) n x k,
  In k (map fst d) -> In k (map fst (od_set d n x)).
Proof.
  intros V d n x k. induction d as [|[k' v'] d IH]; cbn [od_set map fst]; intros H; [contradiction|].
  destruct (k' =? n) eqn:E.
  - cbn [map fst]. destruct H as [H|H]; [left; apply Z.eqb_eq in E; congruence|right; exact H].
  - cbn [map fst]. destruct H as [H|H]; [left; exact H|right; apply IH; exact H].
Qed.

Definition step_f (d : fdict) (a : fdict) (n : Z) : fdict :=
  match assoc n d with Some v => od_set a n v | None => a end.

Lemma step_fold_in : forall d names acc k v,
  In (k, v) (fold_left (step_f d) names acc) -> In (k, v) acc \/ assoc k d = Some v.
Proof.
  intros d names. induction names as [|n names IH]; intros acc k v H; [left; exact H|].
  cbn [fold_left] in H. destruct (IH _ _ _ H) as [H1|H1]; [|right; exact H1].
  unfold step_f in H1. destruct (assoc n d) as [x|] eqn:A; [|left; exact H1].
  destruct (od_set_in _ _ _ _ _ H1) as [E|E]; [|left; exact E]. inversion E; subst. right. exact A.
Qed.

Lemma step_fold_keys : forall d names acc k,
  In k (map fst acc) -> In k (map fst (fold_left (step_f d) names acc)).
Proof.
  intros d names. induction names as [|n names IH]; intros acc k H; [exact H|].
  cbn [fold_left]. apply IH. unfold step_f. destruct (assoc n d); [apply od_set_keys; exact H|exact H].
Qed.

Lemma prune_step_unfold : forall d w names acc,
  prune_step d (w, names) acc
  = fold_left (step_f d) (permitted_names d names)
              (if negb (restricted d names) && w_is_opaque w then [] else acc).
Proof. reflexivity. Qed.

Lemma prune_step_in : forall d wl acc k v,
  In (k, v) (prune_step d wl acc) -> In (k, v) acc \/ assoc k d = Some v.
Proof.
  intros d [w names] acc k v H. rewrite prune_step_unfold in H.
  destruct (step_fold_in _ _ _ _ _ H) as [H1|H1]; [|right; exact H1].
  destruct (negb (restricted d names) && w_is_opaque w); [contradiction|left; exact H1].
Qed.

Lemma prune_fold_in : forall d rq acc k v,
  (forall k' v', In (k', v') acc -> assoc k' d = Some v') ->
  In (k, v) (fold_left (fun acc wl => prune_step d wl acc) rq acc) -> assoc k d = Some v.
Proof.
  intros d rq. induction rq as [|wl rq IH]; intros acc k v Inv H; [apply Inv; exact H|].
  cbn [fold_left] in H. apply (IH (prune_step d wl acc)); [|exact H].
  intros k' v' H'. destruct (prune_step_in _ _ _ _ _ H') as [E|E]; [apply Inv; exact E|exact E].
Qed.

Lemma prune_in : forall d rq k v, In (k, v) (prune d rq) -> assoc k d = Some v.
Proof. intros d rq k v H. apply (prune_fold_in d rq [] k v); [intros ? ? []|exact H]. Qed.

Lemma assoc_to_fdict : forall fl k lim srcs,
  assoc k (to_fdict fl) = Some (lim, srcs) -> In (k, lim, srcs) fl.
Proof.
  intros fl k lim srcs H. apply assoc_in in H. unfold to_fdict in H. rewrite in_map_iff in H.
  destruct H as [[[n l] ss] [E Hin]]. cbn [fst snd] in E. inversion E; subst. exact Hin.
Qed.

Lemma in_rendered : forall d rq n lim s,
  In (n, lim, s) (flatten_entries (of_fdict (prune d rq))) ->
  exists srcs, assoc n d = Some (lim, srcs) /\ In s srcs.
Proof.
  intros d rq n lim s H. apply in_flatten_entries in H. destruct H as [srcs [Hin Hs]].
  unfold of_fdict in Hin. rewrite in_map_iff in Hin. destruct Hin as [[k [l ss]] [E Hin]].
  cbn [fst snd] in E. inversion E; subst. exists srcs. split; [apply prune_in with (rq := rq); exact Hin|exact Hs].
Qed.

Lemma filter_len_le : forall {A} (f : A -> bool) l, (length (filter f l) <= length l)%nat.
Proof.
  intros A f l. induction l as [|y l IH]; [cbn; lia|]. cbn [filter]. destruct (f y); cbn [length]; lia.
Qed.

Lemma filter_all_length : forall {A} (f : A -> bool) l,
  length (filter f l) = length l -> forall x, In x l -> f x = true.
Proof.
  intros A f l. induction l as [|y l IH]; intros H x Hin; [contradiction|].
  cbn [filter] in H. destruct (f y) eqn:E.
  - cbn [length] in H. destruct Hin as [Hx|Hx]; [subst; exact E|apply IH; [lia|exact Hx]].
  - pose proof (filter_len_le f l). cbn [length] in H. lia.
Qed.

(* a layer that was there disappears in a step of the loop only if the layer of that step is opaque and every
   one of its map layers is permitted without a limit: a denied or limited opaque layer hides nothing *)
Lemma prune_step_hides : forall d w names acc k,
  In k (map fst acc) -> ~ In k (map fst (prune_step d (w, names) acc)) ->
  w_is_opaque w = true /\ forall n, In n names -> exists srcs, assoc n d = Some (None, srcs).
Proof.
  intros d w names acc k Hin Hnot. rewrite prune_step_unfold in Hnot.
  destruct (negb (restricted d names) && w_is_opaque w) eqn:E.
  - apply andb_true_iff in E. destruct E as [R O]. split; [exact O|].
    apply negb_true_iff in R. unfold restricted in R. apply orb_false_iff in R. destruct R as [R1 R2].
    apply negb_false_iff in R1. apply Nat.eqb_eq in R1.
    intros n Hn. unfold permitted_names in *.
    pose proof (filter_all_length _ _ R1 n Hn) as S. cbn beta in S.
    destruct (assoc n d) as [[lim srcs]|] eqn:A; [|cbn in S; discriminate].
    assert (P : In n (filter (fun n0 => is_some (assoc n0 d)) names)).
    { apply filter_In. split; [exact Hn|rewrite A; reflexivity]. }
    destruct lim as [g|]; [|exists srcs; reflexivity].
    exfalso. rewrite <- not_true_iff_false in R2. apply R2. apply existsb_exists. exists n.
    split; [exact P|rewrite A; reflexivity].
  - exfalso. apply Hnot. apply step_fold_keys. exact Hin.
Qed.

(* ------------------------------------------------------------------ WMS GetMap *)

Lemma wms_map_entry : forall tree req r rl cov n lim s,
  NoDup (map fst (r_layers r)) ->
  wms_map tree req (Some r) = W_ok rl cov -> In (n, lim, s) rl ->
  permitted Ft_map r n = true /\
  (exists srcs, In (n, srcs) (select_map (server_layers tree) req []) /\ In s srcs) /\
  (r_kind r = A_partial -> exists p, assoc n (r_layers r) = Some p /\ lim = p_lim p).
Proof.
  intros tree req r rl cov n lim s ND H Hin. unfold wms_map in H.
  destruct (negb (all_known (server_layers tree) req)); [discriminate|].
  destruct (authorized_layers Ft_map (Some r)) as [| |auth c] eqn:AZ; [discriminate| |].
  - (* full *)
    assert (K : r_kind r = A_full).
    { unfold authorized_layers in AZ. destruct (r_kind r); try discriminate; reflexivity. }
    inversion H; subst. clear H.
    apply in_rendered in Hin. destruct Hin as [srcs [A Hs]]. apply assoc_to_fdict in A.
    rewrite in_map_iff in A. destruct A as [[k ss] [Heq A]]. cbn [fst snd] in Heq. inversion Heq; subst.
    split; [unfold permitted; rewrite K; reflexivity|]. split.
    + exists srcs. split; assumption.
    + intros K2. rewrite K in K2. discriminate.
  - destruct (filter_actual auth req (select_map (server_layers tree) req [])) as [fl|] eqn:F; [|discriminate].
    inversion H; subst. clear H.
    apply in_rendered in Hin. destruct Hin as [srcs [A Hs]]. apply assoc_to_fdict in A.
    destruct (filter_actual_in _ _ _ _ _ _ _ F A) as [A2 Hact].
    destruct (authorized_some_permitted _ _ _ _ _ _ ND AZ A2) as [P [_ Hp]].
    split; [exact P|]. split; [exists srcs; split; assumption|]. intros _. exact Hp.
Qed.

Lemma wms_map_log_permitted : forall tree req r s,
  NoDup (map fst (r_layers r)) ->
  In s (wms_log (wms_map tree req (Some r))) ->
  exists n srcs, In (n, srcs) (select_map (server_layers tree) req []) /\ In s srcs /\
                 permitted Ft_map r n = true.
Proof.
  intros tree req r s ND Hin. destruct (wms_map tree req (Some r)) as [| | | |rl cov] eqn:W; try contradiction.
  cbn [wms_log] in Hin. rewrite in_map_iff in Hin. destruct Hin as [[[n lim] s'] [Heq Hin]]. cbn in Heq. subst s'.
  destruct (wms_map_entry _ _ _ _ _ _ _ _ ND W Hin) as [P [[srcs [H1 H2]] _]].
  exists n, srcs. split; [exact H1|]. split; [exact H2|exact P].
Qed.

Lemma prune_nil : forall rq, prune [] rq = [].
Proof.
  intros rq. destruct (prune [] rq) as [|[k v] l] eqn:E; [reflexivity|].
  assert (H : In (k, v) (prune [] rq)) by (rewrite E; left; reflexivity).
  apply prune_in in H. discriminate.
Qed.

Lemma wms_map_none_no_log : forall tree req r,
  r_kind r <> A_full -> r_kind r <> A_partial -> wms_log (wms_map tree req (Some r)) = [].
Proof.
  intros tree req r Hf Hp. unfold wms_map.
  destruct (negb (all_known (server_layers tree) req)); [reflexivity|].
  unfold authorized_layers. destruct (r_kind r) eqn:K; try congruence; try reflexivity.
  - destruct (filter_actual [] req (select_map (server_layers tree) req [])) as [fl|] eqn:F; [|reflexivity].
    destruct fl as [|[[n lim] srcs] fl].
    + cbn [to_fdict map]. rewrite prune_nil. reflexivity.
    + destruct (filter_actual_in _ _ _ _ _ _ _ F (or_introl eq_refl)) as [A _]. discriminate.
  - destruct (filter_actual [] req (select_map (server_layers tree) req [])) as [fl|] eqn:F; [|reflexivity].
    destruct fl as [|[[n lim] srcs] fl].
    + cbn [to_fdict map]. rewrite prune_nil. reflexivity.
    + destruct (filter_actual_in _ _ _ _ _ _ _ F (or_introl eq_refl)) as [A _]. discriminate.
Qed.

Lemma wms_map_explicit_403 : forall tree req r n srcs,
  NoDup (map fst (r_layers r)) ->
  all_known (server_layers tree) req = true ->
  r_kind r <> A_full -> r_kind r <> A_unauth ->
  In (n, srcs) (select_map (server_layers tree) req []) ->
  In n req ->
  permitted Ft_map r n = false ->
  wms_map tree req (Some r) = W_403.
Proof.
  intros tree req r n srcs ND AK Hf Hu Hin Hreq P. unfold wms_map. rewrite AK. cbn [negb].
  destruct (authorized_denied_none Ft_map r n ND Hf Hu P) as [auth [AZ A]]. rewrite AZ.
  rewrite (filter_actual_403 auth req _ n srcs Hin A); [reflexivity|]. apply mem_true_in. exact Hreq.
Qed.

Lemma wms_map_unauth_401 : forall tree req r,
  all_known (server_layers tree) req = true -> r_kind r = A_unauth -> wms_map tree req (Some r) = W_401.
Proof. intros tree req r AK K. unfold wms_map, authorized_layers. rewrite AK, K. reflexivity. Qed.

(* no explicitly requested layer is denied: the answer is the render list of permitted layers *)
Lemma wms_map_implicit_dropped : forall tree req r,
  NoDup (map fst (r_layers r)) ->
  all_known (server_layers tree) req = true ->
  r_kind r <> A_full -> r_kind r <> A_unauth ->
  (forall n srcs, In (n, srcs) (select_map (server_layers tree) req []) -> permitted Ft_map r n = false -> ~ In n req) ->
  exists rl, wms_map tree req (Some r) = W_ok rl (r_lim r) /\
             forall n, In n (map (fun e : rentry => fst (fst e)) rl) -> permitted Ft_map r n = true.
Proof.
  intros tree req r ND AK Hf Hu H.
  assert (W : exists rl, wms_map tree req (Some r) = W_ok rl (r_lim r)).
  { unfold wms_map. rewrite AK. cbn [negb].
    destruct (authorized_layers Ft_map (Some r)) as [| |auth cov] eqn:AZ.
    - unfold authorized_layers in AZ. destruct (r_kind r); congruence.
    - unfold authorized_layers in AZ. destruct (r_kind r); congruence.
    - assert (C : cov = r_lim r).
      { unfold authorized_layers in AZ. destruct (r_kind r); inversion AZ; reflexivity. }
      subst cov.
      destruct (filter_actual_keeps auth req (select_map (server_layers tree) req [])) as [fl [F _]].
      { intros n srcs Hin A. destruct (mem n req) eqn:M; [|reflexivity]. exfalso.
        apply mem_true_in in M. apply (H n srcs Hin); [|exact M].
        apply (authorized_none_denied _ _ _ _ _ ND AZ A). }
      rewrite F. eexists. reflexivity. }
  destruct W as [rl W]. exists rl. split; [exact W|].
  intros n Hin. rewrite in_map_iff in Hin. destruct Hin as [[[n' lim] s] [Heq Hin]]. cbn in Heq. subst n'.
  destruct (wms_map_entry _ _ _ _ _ _ _ _ ND W Hin) as [P _]. exact P.
Qed.

(* ------------------------------------------------------------------ combined_layers *)

Lemma combine_from_expand : forall compat rest cur,
  expand_groups (combine_from compat cur rest) = map (fun s => (fst cur, s)) (snd cur) ++ rest.
Proof.
  intros compat rest. induction rest as [|[lim s] r IH]; intros [cl cs].
  - cbn. rewrite app_nil_r. reflexivity.
  - cbn [combine_from fst snd]. destruct cl as [g|]; [|destruct lim as [g|]].
    + change (expand_groups ((Some g, cs) :: combine_from compat (lim, [s]) r))
        with (map (fun x => (Some g, x)) cs ++ expand_groups (combine_from compat (lim, [s]) r)).
      rewrite IH. reflexivity.
    + change (expand_groups ((None, cs) :: combine_from compat (Some g, [s]) r))
        with (map (fun x => (@None Z, x)) cs ++ expand_groups (combine_from compat (Some g, [s]) r)).
      rewrite IH. reflexivity.
    + destruct (compat cs s).
      * rewrite IH. cbn [fst snd]. rewrite map_app, <- app_assoc. reflexivity.
      * change (expand_groups ((None, cs) :: combine_from compat (None, [s]) r))
          with (map (fun x => (@None Z, x)) cs ++ expand_groups (combine_from compat (None, [s]) r)).
        rewrite IH. reflexivity.
Qed.

Lemma combine_entries_expand : forall compat rl, expand_groups (combine_entries compat rl) = rl.
Proof.
  intros compat [|[lim s] r]; [reflexivity|]. unfold combine_entries. rewrite combine_from_expand. reflexivity.
Qed.

Lemma combine_from_limited_alone : forall compat rest cur g srcs,
  (forall h, fst cur = Some h -> length (snd cur) = 1%nat) ->
  In (Some g, srcs) (combine_from compat cur rest) -> length srcs = 1%nat.
Proof.
  intros compat rest. induction rest as [|[lim s] r IH]; intros [cl cs] g srcs W Hin.
  - cbn in Hin. destruct Hin as [E|[]]. inversion E; subst. apply (W g). reflexivity.
  - cbn [combine_from fst snd] in Hin. destruct cl as [h|]; [|destruct lim as [h|]].
    + destruct Hin as [E|Hin].
      * inversion E; subst. apply (W g). reflexivity.
      * apply (IH (lim, [s]) g srcs); [intros; reflexivity|exact Hin].
    + destruct Hin as [E|Hin]; [discriminate|].
      apply (IH (Some h, [s]) g srcs); [intros; reflexivity|exact Hin].
    + destruct (compat cs s).
      * apply (IH (None, cs ++ [s]) g srcs); [intros h E; discriminate|exact Hin].
      * destruct Hin as [E|Hin]; [discriminate|].
        apply (IH (None, [s]) g srcs); [intros h E; discriminate|exact Hin].
Qed.

Lemma combine_entries_limited_alone : forall compat rl g srcs,
  In (Some g, srcs) (combine_entries compat rl) -> length srcs = 1%nat.
Proof.
  intros compat [|[lim s] r] g srcs Hin; [contradiction|].
  apply (combine_from_limited_alone compat r (lim, [s]) g srcs); [intros; reflexivity|exact Hin].
Qed.

Example ex_combine : combine_entries (fun _ _ => true) [(None, 1); (None, 2); (Some 7, 3); (Some 7, 4); (None, 5)]
                     = [(None, [1; 2]); (Some 7, [3]); (Some 7, [4]); (None, [5])].
Proof. reflexivity. Qed.
Example ex_groups_ok : groups_ok [(None, 1); (None, 2); (Some 7, 3); (Some 7, 4)] [(None, [1; 2]); (Some 7, [3]); (Some 7, [4])] = true
                       /\ groups_ok [(Some 7, 3); (Some 8, 4)] [(Some 7, [3; 4])] = false.
Proof. split; reflexivity. Qed.

(* ------------------------------------------------------------------ WMS GetFeatureInfo *)

Lemma wms_fi_entry : forall tree ql ls r pt_in rl cov n lim s,
  NoDup (map fst (r_layers r)) ->
  wms_featureinfo tree ql ls (Some r) pt_in = W_ok rl cov -> In (n, lim, s) rl ->
  permitted Ft_fi r n = true /\
  (forall g, lim = Some g -> pt_in g = true) /\
  (r_kind r <> A_full -> forall g, r_lim r = Some g -> pt_in g = true).
Proof.
  intros tree ql ls r pt_in rl cov n lim s ND H Hin. unfold wms_featureinfo in H.
  destruct (negb (all_known (server_layers tree) ls)); [discriminate|].
  destruct (negb (all_known (server_layers tree) ql)); [discriminate|].
  destruct (select_info (server_layers tree) ql []) as [actual|]; [|discriminate].
  destruct (authorized_layers Ft_fi (Some r)) as [| |auth c] eqn:AZ; [discriminate| |].
  - assert (K : r_kind r = A_full).
    { unfold authorized_layers in AZ. destruct (r_kind r); try discriminate; reflexivity. }
    inversion H; subst. clear H.
    apply in_flatten_entries in Hin. destruct Hin as [srcs [Hin Hs]].
    rewrite in_map_iff in Hin. destruct Hin as [[k ss] [Heq Hin]]. cbn [fst snd] in Heq. inversion Heq; subst.
    split; [unfold permitted; rewrite K; reflexivity|]. split; [intros g Hg; discriminate|].
    intros Hnf. congruence.
  - destruct (filter_actual auth ls actual) as [fl|] eqn:F; [|discriminate].
    assert (C : c = r_lim r).
    { unfold authorized_layers in AZ. destruct (r_kind r); inversion AZ; reflexivity. }
    subst c.
    destruct (r_lim r) as [g0|] eqn:RL.
    + destruct (pt_in g0) eqn:PG; cbn [negb] in H.
      * inversion H; subst. clear H. apply filter_In in Hin. destruct Hin as [Hin Hgate].
        apply in_flatten_entries in Hin. destruct Hin as [srcs [Hin Hs]].
        destruct (filter_actual_in _ _ _ _ _ _ _ F Hin) as [A _].
        destruct (authorized_some_permitted _ _ _ _ _ _ ND AZ A) as [P _].
        split; [exact P|]. split.
        -- intros g Hg. subst lim. cbn [fst snd] in Hgate. exact Hgate.
        -- intros _ g Hg. inversion Hg; subst. exact PG.
      * inversion H; subst. contradiction.
    + inversion H; subst. clear H. apply filter_In in Hin. destruct Hin as [Hin Hgate].
      apply in_flatten_entries in Hin. destruct Hin as [srcs [Hin Hs]].
      destruct (filter_actual_in _ _ _ _ _ _ _ F Hin) as [A _].
      destruct (authorized_some_permitted _ _ _ _ _ _ ND AZ A) as [P _].
      split; [exact P|]. split.
      * intros g Hg. subst lim. cbn [fst snd] in Hgate. exact Hgate.
      * intros _ g Hg. discriminate.
Qed.

(* ------------------------------------------------------------------ WMS capabilities *)

Lemma cap_child_permitted : forall perm w n, In n (cap_child perm w) -> perm n = true.
Proof.
  intros perm. fix IH 1. intros w n H. destruct w as [m o maps infos|m this ch]; cbn [cap_child] in H.
  - destruct (perm m) eqn:E; [|contradiction]. destruct H as [H|[]]. subst. exact E.
  - destruct (perm m) eqn:E; [|contradiction].
    assert (S : In n (m :: flat_map (cap_child perm) ch) -> perm n = true).
    { intros [Hm|Hs]; [subst; exact E|]. clear H. induction ch as [|c ch IHch]; [contradiction|].
      cbn [flat_map] in Hs. apply in_app_or in Hs. destruct Hs as [Hc|Hr]; [exact (IH c n Hc)|exact (IHch Hr)]. }
    destruct this as [t|]; [exact (S H)|].
    destruct (flat_map (cap_child perm) ch) eqn:F; [contradiction|]. exact (S H).
Qed.

Lemma capabilities_only_permitted : forall tree r isect names n,
  wms_capabilities tree (Some r) isect = CAP_ok names -> r_kind r = A_partial -> In n names ->
  cap_permitted r isect n = true.
Proof.
  intros tree r isect names n H K Hin. unfold wms_capabilities in H. rewrite K in H. inversion H; subst. clear H.
  apply in_flat_map in Hin. destruct Hin as [w [_ Hw]]. exact (cap_child_permitted _ w n Hw).
Qed.

Lemma cap_permitted_facts : forall r isect n,
  cap_permitted r isect n = true ->
  exists p, assoc n (r_layers r) = Some p /\ truthy_f (p_map p) = true /\
            (forall g, p_lim p = Some g -> isect g n = true) /\
            (forall g, r_lim r = Some g -> isect g n = true).
Proof.
  intros r isect n H. unfold cap_permitted in H. destruct (assoc n (r_layers r)) as [p|]; [|discriminate].
  apply andb_true_iff in H. destruct H as [H H3]. apply andb_true_iff in H. destruct H as [H1 H2].
  exists p. split; [reflexivity|]. split; [exact H1|]. split.
  - intros g E. rewrite E in H2. exact H2.
  - intros g E. rewrite E in H3. exact H3.
Qed.

Lemma capabilities_listed_facts : forall tree r isect names n,
  wms_capabilities tree (Some r) isect = CAP_ok names -> r_kind r = A_partial -> In n names ->
  exists p, assoc n (r_layers r) = Some p /\ truthy_f (p_map p) = true /\
            (forall g, p_lim p = Some g -> isect g n = true) /\
            (forall g, r_lim r = Some g -> isect g n = true).
Proof.
  intros tree r isect names n H K Hin. apply cap_permitted_facts.
  exact (capabilities_only_permitted tree r isect names n H K Hin).
Qed.

Lemma capabilities_unauthorized : forall tree r isect,
  r_kind r <> A_full -> r_kind r <> A_partial -> r_kind r <> A_unauth ->
  wms_capabilities tree (Some r) isect = CAP_403.
Proof. intros tree r isect H1 H2 H3. unfold wms_capabilities. destruct (r_kind r); congruence. Qed.

(* the filtered document names no layer the unfiltered document does not name (nothing is invented) *)
Lemma cap_child_in_all : forall perm w n, In n (cap_child perm w) -> In n (cap_all w).
Proof.
  intros perm. fix IH 1. intros w n H. destruct w as [m o maps infos|m this ch]; cbn [cap_child] in H; cbn [cap_all].
  - destruct (perm m); [exact H|contradiction].
  - destruct (perm m); [|contradiction].
    assert (S : In n (m :: flat_map (cap_child perm) ch) -> In n (m :: flat_map cap_all ch)).
    { intros [Hm|Hs]; [left; exact Hm|]. right. clear H. induction ch as [|c ch IHch]; [contradiction|].
      cbn [flat_map] in Hs |- *. apply in_app_or in Hs. apply in_or_app.
      destruct Hs as [Hc|Hr]; [left; exact (IH c n Hc)|right; exact (IHch Hr)]. }
    destruct this as [t|]; [exact (S H)|].
    destruct (flat_map (cap_child perm) ch) eqn:F; [contradiction|]. exact (S H).
Qed.

Lemma capabilities_subset_of_unfiltered : forall tree r isect names n,
  wms_capabilities tree (Some r) isect = CAP_ok names -> In n names ->
  exists all, wms_capabilities tree None isect = CAP_ok all /\ In n all.
Proof.
  intros tree r isect names n H Hin. exists (flat_map cap_all tree). split; [reflexivity|].
  unfold wms_capabilities in H. destruct (r_kind r); try discriminate;
    inversion H; subst; clear H; apply in_flat_map in Hin; destruct Hin as [w [Hw Hc]];
    apply in_flat_map; exists w; (split; [exact Hw|]); first [exact Hc | exact (cap_child_in_all _ w n Hc)].
Qed.

(* a group that is not permitted hides its whole subtree, whatever the entries of its sub layers say *)
Lemma cap_denied_group_hides_subtree : forall perm m this ch,
  perm m = false -> cap_child perm (WGroup m this ch) = [].
Proof. intros perm m this ch H. cbn [cap_child]. rewrite H. reflexivity. Qed.

(* a group without sources of its own of which no sub layer is left is not listed either *)
Lemma cap_empty_group_hidden : forall perm m ch,
  (forall c, In c ch -> cap_child perm c = []) -> cap_child perm (WGroup m None ch) = [].
Proof.
  intros perm m ch H. cbn [cap_child]. destruct (perm m); [|reflexivity].
  assert (E : flat_map (cap_child perm) ch = []).
  { induction ch as [|c ch IHch]; [reflexivity|]. cbn [flat_map]. rewrite (H c (or_introl eq_refl)).
    cbn [app]. apply IHch. intros c' Hc'. apply H. right. exact Hc'. }
  rewrite E. reflexivity.
Qed.

(* completeness for a top level layer: permitted (truthy map entry, limits intersect its extent) => listed *)
Lemma capabilities_permitted_toplevel_leaf_listed : forall tree r isect n o maps infos,
  r_kind r = A_partial -> In (WLeaf n o maps infos) tree -> cap_permitted r isect n = true ->
  exists names, wms_capabilities tree (Some r) isect = CAP_ok names /\ In n names.
Proof.
  intros tree r isect n o maps infos K Hin P. unfold wms_capabilities. rewrite K.
  eexists. split; [reflexivity|]. apply in_flat_map. exists (WLeaf n o maps infos). split; [exact Hin|].
  cbn [cap_child]. rewrite P. left. reflexivity.
Qed.

(* ------------------------------------------------------------------ tile services *)

Lemma authorize_tile_ok_permitted : forall key n r lim,
  authorize_tile key n (Some r) = T_ok lim -> permitted key r n = true.
Proof.
  intros key n r lim H. unfold authorize_tile in H. unfold permitted.
  destruct (r_kind r); try discriminate; [reflexivity|].
  destruct (assoc n (r_layers r)) as [p|]; [|discriminate].
  destruct (is_True (flag key p)); [reflexivity|discriminate].
Qed.

Lemma tile_denied_403 : forall n r cont inter,
  r_kind r <> A_unauth -> permitted Ft_tile r n = false ->
  tile_render n (Some r) cont inter = TO_403 /\ tile_loads (tile_render n (Some r) cont inter) = false.
Proof.
  intros n r cont inter Hu P. unfold tile_render, authorize_tile. unfold permitted in P.
  destruct (r_kind r); try congruence; try (split; reflexivity).
  destruct (assoc n (r_layers r)) as [p|]; [|split; reflexivity].
  rewrite P. split; reflexivity.
Qed.

Lemma tile_outside_empty_l : forall lname cb cont inter gs,
  authorize_tile Ft_tile lname cb = T_ok gs -> gs <> [] -> cont gs = false -> inter gs = false ->
  tile_render lname cb cont inter = TO_empty /\ tile_loads (tile_render lname cb cont inter) = false.
Proof.
  intros lname cb cont inter gs H Hne Hc Hi. unfold tile_render. rewrite H.
  destruct gs as [|g gs']; [congruence|]. rewrite Hc, Hi. split; reflexivity.
Qed.

Lemma tile_partial_masked_l : forall lname cb cont inter gs,
  authorize_tile Ft_tile lname cb = T_ok gs -> gs <> [] -> cont gs = false -> inter gs = true ->
  tile_render lname cb cont inter = TO_masked gs.
Proof.
  intros lname cb cont inter gs H Hne Hc Hi. unfold tile_render. rewrite H.
  destruct gs as [|g gs']; [congruence|]. rewrite Hc, Hi. reflexivity.
Qed.

(* the geometries a tile request is clipped to: the layer's own limited_to and the global one, both *)
Lemma authorize_tile_limit : forall key n r lims,
  authorize_tile key n (Some r) = T_ok lims -> r_kind r = A_partial ->
  exists p, assoc n (r_layers r) = Some p /\ lims = opt_list (p_lim p) ++ opt_list (r_lim r).
Proof.
  intros key n r lims H K. unfold authorize_tile in H. rewrite K in H.
  destruct (assoc n (r_layers r)) as [p|]; [|discriminate].
  destruct (is_True (flag key p)); [|discriminate]. inversion H; subst. exists p. split; reflexivity.
Qed.

Lemma tile_global_limit : forall key n r lims g,
  authorize_tile key n (Some r) = T_ok lims -> r_kind r = A_partial -> r_lim r = Some g -> In g lims.
Proof.
  intros key n r lims g H K G. destruct (authorize_tile_limit _ _ _ _ H K) as [p [_ L]]. subst lims.
  rewrite G. apply in_or_app. right. left. reflexivity.
Qed.

Lemma tile_layer_limit : forall key n r lims p g,
  authorize_tile key n (Some r) = T_ok lims -> r_kind r = A_partial ->
  assoc n (r_layers r) = Some p -> p_lim p = Some g -> In g lims.
Proof.
  intros key n r lims p g H K A G. destruct (authorize_tile_limit _ _ _ _ H K) as [p' [A' L]]. subst lims.
  rewrite A in A'. inversion A'; subst p'. rewrite G. left. reflexivity.
Qed.

(* only geometries the callback named are applied *)
Lemma tile_limits_from_callback : forall key n r lims g,
  authorize_tile key n (Some r) = T_ok lims -> In g lims ->
  r_lim r = Some g \/ exists p, assoc n (r_layers r) = Some p /\ p_lim p = Some g.
Proof.
  intros key n r lims g H Hin. unfold authorize_tile in H.
  destruct (r_kind r); try discriminate.
  - inversion H; subst. contradiction.
  - destruct (assoc n (r_layers r)) as [p|] eqn:A; [|discriminate].
    destruct (is_True (flag key p)); [|discriminate]. inversion H; subst. clear H.
    apply in_app_or in Hin. destruct Hin as [Hin|Hin].
    + right. exists p. split; [reflexivity|]. destruct (p_lim p); [|contradiction].
      destruct Hin as [E|[]]. subst. reflexivity.
    + left. destruct (r_lim r); [|contradiction]. destruct Hin as [E|[]]. subst. reflexivity.
Qed.

Lemma wmts_fi_gate : forall n infos cb pt_in gs,
  authorize_tile Ft_fi n cb = T_ok gs -> gs <> [] -> pt_in gs = false -> infos <> [] ->
  wmts_featureinfo n infos cb pt_in = FI_ok [].
Proof.
  intros n infos cb pt_in gs H Hg P Hne. unfold wmts_featureinfo. rewrite H.
  destruct infos; [congruence|]. destruct gs; [congruence|]. rewrite P. reflexivity.
Qed.

(* the other direction: no limit, or the query point inside the intersection of the limits => every info source *)
Lemma wmts_fi_inside : forall n infos cb pt_in gs,
  authorize_tile Ft_fi n cb = T_ok gs -> (gs = [] \/ pt_in gs = true) ->
  wmts_featureinfo n infos cb pt_in = match infos with [] => FI_notqueryable | _ => FI_ok infos end.
Proof.
  intros n infos cb pt_in gs H Hg. unfold wmts_featureinfo. rewrite H. destruct infos as [|i infos]; [reflexivity|].
  destruct Hg as [E|P]; [subst; reflexivity|]. destruct gs as [|g gs]; [reflexivity|]. rewrite P. reflexivity.
Qed.

(* the answer is decided by the query point alone (not by the tile that contains it) *)
Lemma wmts_fi_iff_point_inside : forall n infos cb pt_in gs,
  authorize_tile Ft_fi n cb = T_ok gs -> gs <> [] -> infos <> [] ->
  (wmts_featureinfo n infos cb pt_in = FI_ok infos <-> pt_in gs = true).
Proof.
  intros n infos cb pt_in gs H Hg Hi. split.
  - intro E. destruct (pt_in gs) eqn:P; [reflexivity|].
    rewrite (wmts_fi_gate n infos cb pt_in gs H Hg P Hi) in E. inversion E as [E']. symmetry in E'. contradiction.
  - intro P. rewrite (wmts_fi_inside n infos cb pt_in gs H (or_intror P)). destruct infos; [contradiction|reflexivity].
Qed.

Lemma empty_tile_limit_l :
  forall lname infos cb cont inter pt_in gs gs',
    authorize_tile Ft_tile lname cb = T_ok gs -> gs <> [] -> cont gs = false -> inter gs = false ->
    authorize_tile Ft_fi lname cb = T_ok gs' -> gs' <> [] -> pt_in gs' = false -> infos <> [] ->
    tile_render lname cb cont inter = TO_empty /\ tile_loads (tile_render lname cb cont inter) = false /\
    wmts_featureinfo lname infos cb pt_in = FI_ok [].
Proof.
  intros lname infos cb cont inter pt_in gs gs' H1 N1 C I H2 N2 P Hi.
  destruct (tile_outside_empty_l lname cb cont inter gs H1 N1 C I) as [A B].
  split; [exact A|]. split; [exact B|]. exact (wmts_fi_gate lname infos cb pt_in gs' H2 N2 P Hi).
Qed.

Lemma wmts_fi_denied : forall n infos r pt_in,
  r_kind r <> A_unauth -> permitted Ft_fi r n = false ->
  wmts_featureinfo n infos (Some r) pt_in = FI_403.
Proof.
  intros n infos r pt_in Hu P. unfold wmts_featureinfo, authorize_tile. unfold permitted in P.
  destruct (r_kind r); try congruence; try reflexivity.
  destruct (assoc n (r_layers r)) as [p|]; [|reflexivity]. rewrite P. reflexivity.
Qed.

(* ------------------------------------------------------------------ arithmetic of div255 *)

Lemma shiftr8 : forall t, Z.shiftr t 8 = t / 256.
Proof. intros. rewrite Z.shiftr_div_pow2 by lia. reflexivity. Qed.

Lemma shiftr7 : forall t, Z.shiftr t 7 = t / 128.
Proof. intros. rewrite Z.shiftr_div_pow2 by lia. reflexivity. Qed.

Lemma div255_spec : forall t, div255 t = (t + t / 256) / 256.
Proof. intros. unfold div255. rewrite !shiftr8. reflexivity. Qed.

Lemma div255_exact : forall k, 0 <= k <= 255 -> div255 (255 * k + 128) = k.
Proof.
  intros k Hk. rewrite div255_spec. Z.to_euclidean_division_equations. lia.
Qed.

Definition byte (x : Z) : Prop := 0 <= x <= 255.
Definition px_ok (p : px) : Prop :=
  let '(r, g, b, a) := p in byte r /\ byte g /\ byte b /\ byte a.

Lemma ch_full : forall s0 d0, byte s0 ->
  Z.shiftr (div255 (s0 * 32640 + d0 * 0 + 16384)) 7 = s0.
Proof.
  intros s0 d0 H. unfold byte in H. rewrite shiftr7, div255_spec.
  Z.to_euclidean_division_equations. lia.
Qed.

Lemma blend8_full : forall d s, byte s -> blend8 255 d s = s.
Proof.
  intros d s H. unfold blend8. replace (s * 255 + d * (255 - 255) + 128) with (255 * s + 128) by lia.
  apply div255_exact. exact H.
Qed.

Lemma blend8_zero : forall d s, byte d -> blend8 0 d s = d.
Proof.
  intros d s H. unfold blend8. replace (s * 0 + d * (255 - 0) + 128) with (255 * d + 128) by lia.
  apply div255_exact. exact H.
Qed.

Lemma ac_px_opaque_src : forall d s, px_ok s -> px_a s = 255 -> ac_px d s = s.
Proof.
  intros [[[dr dg] db] da] [[[sr sg] sb] sa] (Hr & Hg & Hb & Ha) E. cbn [px_a] in E. subst sa.
  unfold ac_px. change (255 =? 0) with false. cbv iota.
  replace (255 * 255 + da * (255 - 255)) with 65025 by lia.
  change (255 * 255 * 255 * 128 / 65025) with 32640.
  change (255 * 128 - 32640) with 0.
  rewrite !ch_full by assumption. reflexivity.
Qed.

Lemma ac_px_transparent_src : forall d s, px_a s = 0 -> ac_px d s = d.
Proof.
  intros [[[dr dg] db] da] [[[sr sg] sb] sa] E. cbn [px_a] in E. subst sa. reflexivity.
Qed.

(* ------------------------------------------------------------------ clipping, one pixel *)

Definition bg_ok (o : ropts) : Prop :=
  match ro_bgcolor o with Some (r, g, b) => byte r /\ byte g /\ byte b | None => True end.

Lemma create_px_ok : forall o, bg_ok o -> px_ok (create_px o).
Proof.
  intros o H. unfold create_px, bg_ok in *. unfold px_ok, byte.
  destruct (ro_bgcolor o) as [[[r g] b]|].
  - destruct H as (Hr & Hg & Hb). unfold byte in *.
    destruct (create_mode o); [lia|]. destruct (truthy (ro_transparent o)); lia.
  - destruct (create_mode o); [lia|]. destruct (truthy (ro_transparent o)); lia.
Qed.

Lemma create_px_rgb_alpha : forall o, create_mode o = M_RGB -> px_a (create_px o) = 255.
Proof.
  intros o H. unfold create_px. rewrite H. destruct (ro_bgcolor o) as [[[r g] b]|]; reflexivity.
Qed.

(* global clip: a pixel outside the mask is the background, whatever was merged *)
Lemma global_clip_outside : forall o r,
  bg_ok o -> global_clip_px o (imode_eqb (create_mode o) M_RGBA) r true = create_px o.
Proof.
  intros o r H. pose proof (create_px_ok o H) as OK.
  unfold global_clip_px, paste_l_px.
  destruct (create_mode o) eqn:CM; cbn [imode_eqb].
  - pose proof (create_px_rgb_alpha o CM) as A.
    destruct (create_px o) as [[[dr dg] db] da]. destruct r as [[[sr sg] sb] sa].
    cbn [px_a] in *. destruct OK as (Hr & Hg & Hb & Ha). subst da.
    rewrite !blend8_full by assumption. reflexivity.
  - destruct (create_px o) as [[[dr dg] db] da]. destruct r as [[[sr sg] sb] sa].
    destruct OK as (Hr & Hg & Hb & Ha).
    rewrite !blend8_full by assumption. reflexivity.
Qed.

(* inside the global mask the merged pixel is kept, colour and alpha *)
Lemma global_clip_inside : forall o composite r,
  px_ok r -> (composite = false -> px_a r = 255) -> global_clip_px o composite r false = r.
Proof.
  intros o composite [[[sr sg] sb] sa] (Hr & Hg & Hb & Ha) A. unfold global_clip_px, paste_l_px.
  destruct (create_px o) as [[[dr dg] db] da].
  rewrite !blend8_zero by assumption. destruct composite.
  - reflexivity.
  - cbn [px_a] in A. rewrite (A eq_refl). reflexivity.
Qed.

Lemma merge_px_global_outside : forall o ms col,
  bg_ok o -> merge_px o ms col (Some true) = create_px o.
Proof. intros o ms col H. unfold merge_px. apply global_clip_outside. exact H. Qed.

Lemma merge_image_global_outside : forall o ms cols k col,
  bg_ok o -> nth_error cols k = Some (col, true) ->
  nth_error (snd (merge_image o ms cols true)) k = Some (create_px o).
Proof.
  intros o ms cols k col H N. unfold merge_image.
  assert (G : nth_error (map (fun cb : column * bool => merge_px o ms (fst cb) (if true then Some (snd cb) else None)) cols) k
              = Some (create_px o)).
  { rewrite (map_nth_error _ _ _ N). cbn [fst snd]. rewrite merge_px_global_outside by exact H. reflexivity. }
  destruct ms as [|m ms'].
  - cbn [snd]. rewrite (map_nth_error _ _ _ N). reflexivity.
  - destruct ms' as [|m2 ms''].
    + assert (F : fast_path_ok o m true = false).
      { unfold fast_path_ok. cbn [negb]. rewrite andb_false_r. reflexivity. }
      rewrite F. cbn [snd]. exact G.
    + cbn [snd]. exact G.
Qed.

(* an empty coverage is not "no coverage": every pixel lies outside its mask, nothing is visible *)
Lemma merge_image_empty_coverage : forall o ms cols,
  bg_ok o -> Forall (fun cb : column * bool => snd cb = true) cols ->
  snd (merge_image o ms cols true) = map (fun _ => create_px o) cols.
Proof.
  intros o ms cols H F.
  assert (G : map (fun cb : column * bool => merge_px o ms (fst cb) (if true then Some (snd cb) else None)) cols
              = map (fun _ => create_px o) cols).
  { induction F as [|[col b] l Hb F IH]; [reflexivity|]. cbn [map fst snd]. cbn [snd] in Hb. subst b.
    rewrite merge_px_global_outside by exact H. rewrite IH. reflexivity. }
  unfold merge_image. destruct ms as [|m ms'].
  - reflexivity.
  - destruct ms' as [|m2 ms''].
    + assert (Fp : fast_path_ok o m true = false).
      { unfold fast_path_ok. cbn [negb]. rewrite andb_false_r. reflexivity. }
      rewrite Fp. cbn [snd]. exact G.
    + cbn [snd]. exact G.
Qed.

(* per-layer clip: outside its mask a clipped layer leaves the pixel as it was, on every path of the loop *)
Lemma step_px_clip_outside : forall composite m d s,
  lm_clip m = true ->
  (composite = false -> px_ok d /\ px_a d = 255) ->
  step_px composite m d s true = d.
Proof.
  intros composite m d s C OK. unfold step_px, layer_px. rewrite C.
  destruct composite.
  - destruct (layer_opacity m) as [op|] eqn:O.
    + destruct (op_lt1 (Some op)).
      * cbn [clear_px px_a set_a]. unfold chop_mul. cbn [Z.mul]. change (0 / 255) with 0.
        apply ac_px_transparent_src. reflexivity.
      * apply ac_px_transparent_src. reflexivity.
    + apply ac_px_transparent_src. reflexivity.
  - destruct (OK eq_refl) as [P A].
    destruct d as [[[dr dg] db] da]. cbn [px_a] in A. subst da. destruct P as (Hr & Hg & Hb & _).
    destruct (layer_opacity m) as [op|] eqn:O.
    + destruct (op_lt1 (Some op)).
      * cbn [clear_px px_a set_a]. unfold paste_l_px.
        destruct (blend_px op (dr, dg, db, 255) (255, 255, 255, 255)) as [[[br bg] bb] ba].
        rewrite !blend8_zero by assumption. reflexivity.
      * unfold paste_mask_px, clear_px. rewrite !blend8_zero by assumption. reflexivity.
    + unfold paste_mask_px, clear_px. rewrite !blend8_zero by assumption. reflexivity.
Qed.

(* the code before the repair 2542798 (blend without the alpha band) violated this: the old step on the blend
   path, `blend_px op d (set_a s 255)`, turns black into grey under a layer of opacity 1/2 that is clipped away *)
Lemma old_blend_path_refuted :
  exists op d, px_ok d /\ px_a d = 255 /\ blend_px op d (set_a clear_px 255) <> d.
Proof.
  exists (1, 2), (0, 0, 0, 255). split; [unfold px_ok, byte; lia|]. split; [reflexivity|].
  vm_compute. intros H. discriminate.
Qed.

(* a pixel outside the mask of every layer of the stack (all of them clipped) stays what it was *)
Lemma loop_px_all_outside : forall composite ms col d,
  Forall (fun m => lm_clip m = true) ms ->
  Forall (fun sb : px * bool => snd sb = true) col ->
  (composite = false -> px_ok d /\ px_a d = 255) ->
  loop_px composite ms col d = d.
Proof.
  intros composite ms. induction ms as [|m ms IH]; intros col d Hm Hc OK; [reflexivity|].
  destruct col as [|[s out] col]; [reflexivity|]. cbn [loop_px].
  inversion Hm as [|? ? C Hm']; subst. inversion Hc as [|? ? Hout Hc']; subst. cbn [snd] in Hout. subst out.
  rewrite step_px_clip_outside by assumption. apply IH; assumption.
Qed.

Lemma merge_px_all_outside : forall o ms col,
  bg_ok o ->
  Forall (fun m => lm_clip m = true) ms ->
  Forall (fun sb : px * bool => snd sb = true) col ->
  merge_px o ms col None = create_px o.
Proof.
  intros o ms col H Hm Hc. unfold merge_px. apply loop_px_all_outside; try assumption.
  intros E. split; [apply create_px_ok; exact H|].
  apply create_px_rgb_alpha. destruct (create_mode o); [reflexivity|discriminate].
Qed.

(* content is kept inside: one opaque layer, clipped, pixel inside the layer mask and inside the global mask *)
Lemma merge_px_inside_kept : forall o m s gout,
  bg_ok o -> px_ok s -> px_a s = 255 -> layer_opacity m = None ->
  (gout = None \/ gout = Some false) ->
  (lm_clip m = true \/ lm_mode m = M_RGBA) ->
  merge_px o [m] [(s, false)] gout = s.
Proof.
  intros o m s gout H S A O G CM. pose proof (create_px_ok o H) as OK.
  assert (T : to_rgba (lm_mode m) s = s).
  { destruct s as [[[sr sg] sb] sa]. cbn [px_a] in A. subst sa. destruct (lm_mode m); reflexivity. }
  assert (L : layer_px m s false = (s, true)).
  { unfold layer_px. destruct (lm_clip m) eqn:C.
    - rewrite T. reflexivity.
    - destruct CM as [CM|CM]; [discriminate|]. rewrite CM. reflexivity. }
  unfold merge_px, global_clip_px. cbn [loop_px]. unfold step_px. rewrite L, O.
  destruct (create_mode o) eqn:CMo; cbn [imode_eqb].
  - (* RGB result *)
    pose proof (create_px_rgb_alpha o CMo) as AB.
    destruct (create_px o) as [[[dr dg] db] da]. destruct s as [[[sr sg] sb] sa]. cbn [px_a] in *. subst sa da.
    destruct S as (Hr & Hg & Hb & _).
    assert (P : paste_mask_px false (dr, dg, db, 255) (sr, sg, sb, 255) = (sr, sg, sb, 255)).
    { unfold paste_mask_px. rewrite !blend8_full by assumption. reflexivity. }
    rewrite P. destruct G as [G|G]; subst gout; [reflexivity|].
    unfold paste_l_px. rewrite !blend8_zero by assumption. reflexivity.
  - rewrite ac_px_opaque_src by assumption.
    destruct G as [G|G]; subst gout; [reflexivity|].
    destruct (create_px o) as [[[dr dg] db] da]. destruct s as [[[sr sg] sb] sa].
    cbn [px_a] in A. subst sa. destruct S as (Hr & Hg & Hb & Ha).
    unfold paste_l_px. rewrite !blend8_zero by (unfold byte in *; lia). reflexivity.
Qed.

(* tiles: mask_image_source_from_coverage *)
Lemma tile_masked_outside : forall mode s, tile_masked_px mode s true = clear_px.
Proof. intros. reflexivity. Qed.

Lemma tile_masked_inside : forall mode s,
  px_ok s -> px_a s = 255 -> tile_masked_px mode s false = s.
Proof.
  intros mode [[[sr sg] sb] sa] (Hr & Hg & Hb & _) A. cbn [px_a] in A. subst sa.
  unfold tile_masked_px. assert (T : to_rgba mode (sr, sg, sb, 255) = (sr, sg, sb, 255)) by (destruct mode; reflexivity).
  rewrite T. unfold paste_mask_px, clear_px. rewrite !blend8_full by (assumption || (unfold byte; lia)). reflexivity.
Qed.

(* ------------------------------------------------------------------ non-vacuity *)

(* tree: leaf 1 (source 10), group 2 = [leaf 3 (source 30, info 31), leaf 4 (source 40)], group-with-this 5 *)
Definition ex_tree : list wlayer :=
  [WLeaf 1 false [10] []; WGroup 2 None [WLeaf 3 false [30] [31]; WLeaf 4 false [40] [41]];
   WGroup 5 (Some (false, [50], [])) [WLeaf 6 false [60] []]].

(* layers 1 and 3 permitted (3 limited to geometry 7), 4 denied, global limit 8 *)
Definition ex_cb : cbres :=
  mk_cbres A_partial [(1, mk_perm F_true F_false F_missing None);
                      (3, mk_perm F_true F_true F_true (Some 7));
                      (4, mk_perm F_truthy F_false F_true None)] (Some 8).

Example ex_map_group : wms_map ex_tree [1; 2] (Some ex_cb) = W_ok [(1, None, 10); (3, Some 7, 30)] (Some 8).
Proof. reflexivity. Qed.
Example ex_map_explicit : wms_map ex_tree [1; 4] (Some ex_cb) = W_403.
Proof. reflexivity. Qed.
Example ex_map_nodup : NoDup (map fst (r_layers ex_cb)).
Proof. cbn. repeat constructor; cbn; intuition discriminate. Qed.
Example ex_map_explicit_hyps :
  all_known (server_layers ex_tree) [1; 4] = true /\ In (4, [40]) (select_map (server_layers ex_tree) [1; 4] []) /\
  permitted Ft_map ex_cb 4 = false.
Proof. repeat split; try reflexivity. cbn. right. left. reflexivity. Qed.
(* an opaque layer (2) above layer 1: it hides layer 1 only when it is permitted completely *)
Definition ex_tree_op : list wlayer := [WLeaf 1 false [10] []; WGroup 3 None [WLeaf 2 true [20] []]].
Definition ex_cb_op (p2 : perm) : cbres := mk_cbres A_partial [(1, mk_perm F_true F_false F_false None); (2, p2)] None.
Example ex_opaque_full : wms_map ex_tree_op [1; 3] (Some (ex_cb_op (mk_perm F_true F_false F_false None)))
                         = W_ok [(2, None, 20)] None.
Proof. reflexivity. Qed.
Example ex_opaque_limited : wms_map ex_tree_op [1; 3] (Some (ex_cb_op (mk_perm F_true F_false F_false (Some 7))))
                            = W_ok [(1, None, 10); (2, Some 7, 20)] None.
Proof. reflexivity. Qed.
Example ex_opaque_denied : wms_map ex_tree_op [1; 3] (Some (ex_cb_op (mk_perm F_false F_false F_false None)))
                           = W_ok [(1, None, 10)] None.
Proof. reflexivity. Qed.
(* the callback is asked about the hidden layer too *)
Example ex_opaque_cbarg : wms_map_cbarg ex_tree_op [1; 3] = [1; 2].
Proof. reflexivity. Qed.
Example ex_fi_gate_in : wms_featureinfo ex_tree [2] [2] (Some ex_cb) (fun g => true) = W_ok [(3, Some 7, 31)] (Some 8).
Proof. reflexivity. Qed.
Example ex_fi_gate_out : wms_featureinfo ex_tree [2] [2] (Some ex_cb) (fun g => g =? 7) = W_ok [] (Some 8).
Proof. reflexivity. Qed.
Example ex_fi_layer_out : wms_featureinfo ex_tree [2] [2] (Some ex_cb) (fun g => g =? 8) = W_ok [] (Some 8).
Proof. reflexivity. Qed.
Example ex_tile_masked : tile_render 3 (Some ex_cb) (fun _ => false) (fun gs => list_eqb Z.eqb gs [7; 8]) = TO_masked [7; 8].
Proof. reflexivity. Qed.
Example ex_tile_empty : tile_render 3 (Some ex_cb) (fun _ => false) (fun _ => false) = TO_empty.
Proof. reflexivity. Qed.
Example ex_tile_denied : tile_render 1 (Some ex_cb) (fun _ => true) (fun _ => true) = TO_403.
Proof. reflexivity. Qed.
Example ex_wmts_fi : wmts_featureinfo 3 [31] (Some ex_cb) (fun _ => false) = FI_ok [].
Proof. reflexivity. Qed.
Example ex_wmts_fi_in : wmts_featureinfo 3 [31] (Some ex_cb) (fun gs => list_eqb Z.eqb gs [7; 8]) = FI_ok [31]
                         /\ authorize_tile Ft_fi 3 (Some ex_cb) = T_ok [7; 8].
Proof. split; reflexivity. Qed.
Example ex_tile_both_limits : authorize_tile Ft_tile 3 (Some ex_cb) = T_ok [7; 8].
Proof. reflexivity. Qed.

Definition ex_ro : ropts := mk_ropts None (Some false) (Some (16, 32, 48)).
Definition ex_m : lmeta := mk_lmeta M_RGB (Some (mk_lopts (Some false) None)) true.
Example ex_bg_ok : bg_ok ex_ro.
Proof. unfold bg_ok, byte; cbn; lia. Qed.
Example ex_px_global : merge_px ex_ro [ex_m] [((200, 30, 30, 255), false)] (Some true) = (16, 32, 48, 255).
Proof. reflexivity. Qed.
Example ex_px_layer : merge_px ex_ro [ex_m] [((200, 30, 30, 255), true)] None = (16, 32, 48, 255).
Proof. reflexivity. Qed.
Example ex_px_inside : merge_px ex_ro [ex_m] [((200, 30, 30, 255), false)] (Some false) = (200, 30, 30, 255).
Proof. reflexivity. Qed.
(* the shortcut of LayerMerger.merge is not taken for a clipped layer or a global coverage *)
Example ex_fast_path : fast_path_ok ex_ro (mk_lmeta M_RGB (Some (mk_lopts (Some false) None)) false) false = true
                       /\ fast_path_ok ex_ro ex_m false = false
                       /\ fast_path_ok ex_ro (mk_lmeta M_RGB (Some (mk_lopts (Some false) None)) false) true = false.
Proof. repeat split; reflexivity. Qed.

Example ex_caps : wms_capabilities ex_tree (Some ex_cb) (fun _ _ => true) = CAP_ok [1].
Proof. reflexivity. Qed.
Example ex_caps_group :
  wms_capabilities ex_tree
    (Some (mk_cbres A_partial [(2, mk_perm F_truthy F_false F_false None); (4, mk_perm F_true F_false F_false (Some 7));
                               (3, mk_perm F_false F_true F_true None); (6, mk_perm F_true F_false F_false None)] None))
    (fun _ _ => true) = CAP_ok [2; 4].
Proof. reflexivity. Qed.

(* non-vacuity of cap_denied_group_hides_subtree / cap_empty_group_hidden / capabilities_subset_of_unfiltered *)
Example ex_caps_denied_group :
  cap_child (fun n => negb (n =? 2)) (WGroup 2 None [WLeaf 4 false [41] []; WLeaf 5 false [51] []]) = []
  /\ cap_child (fun n => n =? 2) (WGroup 2 None [WLeaf 4 false [41] []; WLeaf 5 false [51] []]) = []
  /\ cap_child (fun n => negb (n =? 5)) (WGroup 2 None [WLeaf 4 false [41] []; WLeaf 5 false [51] []]) = [2; 4]
  /\ cap_all (WGroup 2 None [WLeaf 4 false [41] []; WLeaf 5 false [51] []]) = [2; 4; 5].
Proof. repeat split; reflexivity. Qed.
