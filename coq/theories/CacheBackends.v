(* C05  All storage back-ends behind one type: what the correspondence check evaluates.  No proofs here. *)
From Coq Require Import ZArith NArith List Bool String Ascii Arith.
Import ListNotations.
From MP Require Import Base Gen_path Gen_compact Gen_sqlbatch CacheMap FileCache SqlCache.
Local Open Scope Z_scope.

Inductive backend :=
| BFile (layout : string) (link : link_mode)      (* FileCache(directory_layout, link_single_color_images), ext png *)
| BMbtiles                                        (* MBTilesCache *)
| BSqlite                                         (* MBTilesLevelCache *)
| BGpkg                                           (* GeopackageCache *)
| BGpkgLevel                                      (* GeopackageLevelCache *)
| BCompact (v2 : bool).                           (* CompactCacheV1 / CompactCacheV2 *)

Definition model_outs (b : backend) (ops : list op) : list out :=
  match b with
  | BFile l link =>
    match location_funcs l with
    | Some f => snd (file_run f "png" link [] ops)
    | None => []
    end
  | BMbtiles => snd (sql_run mbtiles_params [] ops)
  | BSqlite => snd (lsql_run mbtiles_params [] ops)
  | BGpkg => snd (sql_run gpkg_params [] ops)
  | BGpkgLevel => snd (lsql_run gpkg_params [] ops)
  | BCompact v2 => snd (kv_run compact_key_eqb (compact_key v2) [] ops)
  end.

(* the specification on the same history *)
Definition spec_outs (ops : list op) : list out := snd (spec_run sempty ops).

(* text of the path below cache_dir (components joined with '/') *)
Definition tile_path (layout : string) (ext : string) (a : addr) : option text :=
  match location_funcs layout with
  | Some f => Some (join_path (file_key f ext a))
  | None => None
  end.

(* calls through ONE re-used Tile object on a file cache that holds what the history `pre` stored; afterwards the
   history `post` (fresh tiles) looks at the result *)
Definition object_case (lay : string) (link : link_mode) (pre : list op) (x y z : Z) (cs : list tcall) (post : list op)
  : list tobs * list out :=
  match location_funcs lay with
  | Some f =>
    let s0 := fst (file_run f "png" link [] pre) in
    let (s1, obs) := tcall_exec f "png" link s0 (new_tile x y z) cs in
    (obs, snd (file_run f "png" link s1 post))
  | None => ([], [])
  end.
