(* C17  Upstream.compatible is the decision kernel that translator/specs/compat.py regenerates from
   mapproxy/source/wms.py (WMSSource._is_compatible) on every run (gen/Gen_compat.v). *)
From Coq Require Import ZArith List Bool.
Import ListNotations.
From MP Require Import Base Grid Upstream Gen_compat.
Local Open Scope Z_scope.

(* The conditions of _is_compatible that the model Upstream.compatible folds into `static_ok` (they do not concern
   what an upstream is asked for): the other layer is a WMS source, neither has an opacity, same transparent colour
   and tolerance, same clip flag when there is a coverage, the other source is not opaque. *)
Definition static_part {A} (other_is_wms : bool) (opacity_a opacity_b : option A)
           (tcolor_differ ttol_differ has_cov clip_differ other_opaque : bool) : bool :=
  other_is_wms && negb (k_is_some opacity_a || k_is_some opacity_b) && negb tcolor_differ && negb ttol_differ &&
  negb (has_cov && clip_differ) && negb other_opaque.

Definition rr_contains_of (kn kd : Z) (rr : option res_range) (q : query) : bool :=
  match rr with
  | Some r => rr_contains kn kd r (q_bbox q) (q_w q) (q_h q) (s_latlong (q_srs q))
  | None => false
  end.

Lemma compatible_as_generated :
  forall (A : Type) kn kd a b q other_is_wms (opacity_a opacity_b : option A)
         tcolor_differ ttol_differ has_cov clip_differ other_opaque,
    compatible kn kd
      (static_part other_is_wms opacity_a opacity_b tcolor_differ ttol_differ has_cov clip_differ other_opaque) a b q =
    gen_is_compatible other_is_wms opacity_a opacity_b
      (k_is_some (w_rr a)) (rr_contains_of kn kd (w_rr a) q)
      (k_is_some (w_rr b)) (rr_contains_of kn kd (w_rr b) q)
      (negb (list_eqb code_eq (w_srs a) (w_srs b)))
      (negb (list_eqb (fun x y => f_id x =? f_id y) (w_fmts a) (w_fmts b)))
      tcolor_differ ttol_differ
      (negb (cov_eqb a b))
      has_cov clip_differ other_opaque
      (negb (list_eqb dim_eqb (dims_for_params (w_fwd a) (q_dims q)) (dims_for_params (w_fwd b) (q_dims q)))).
Proof.
  intros A kn kd a b q w oa ob tc tt hc cd oo.
  unfold compatible, gen_is_compatible, static_part, rr_blocks, rr_contains_of, k_is_some.
  destruct w, oa, ob, tc, tt, hc, cd, oo; cbn [negb andb orb]; try reflexivity;
    destruct (w_rr a), (w_rr b); cbn [negb andb orb];
    repeat match goal with |- context [rr_contains ?x ?y ?r ?bb ?ww ?hh ?ll] => destruct (rr_contains x y r bb ww hh ll) end;
    cbn [negb andb orb]; try reflexivity;
    destruct (list_eqb code_eq (w_srs a) (w_srs b)); cbn [negb andb orb]; try reflexivity;
    destruct (list_eqb (fun x y => f_id x =? f_id y) (w_fmts a) (w_fmts b)); cbn [negb andb orb]; try reflexivity;
    destruct (cov_eqb a b); cbn [negb andb orb]; try reflexivity;
    destruct (list_eqb dim_eqb (dims_for_params (w_fwd a) (q_dims q)) (dims_for_params (w_fwd b) (q_dims q)));
    reflexivity.
Qed.
