(* Proofs about the seeding model (C11). *)
From Coq Require Import ZArith List Bool Lia Arith Sorted.
Import ListNotations.
From MP Require Import Base Grid Seed Gen_seed_id.
Local Open Scope Z_scope.

(* ------------------------------------------------------------------ can_skip is a strict order *)

Lemma pair_ltb_irrefl a : pair_ltb a a = false.
Proof. unfold pair_ltb. destruct a as [i n]; cbn [fst snd]. rewrite !Z.ltb_irrefl, andb_false_r. reflexivity. Qed.

Lemma pair_ltb_spec a b :
  pair_ltb a b = true <-> (fst a < fst b \/ (fst a = fst b /\ snd a < snd b)).
Proof.
  unfold pair_ltb. rewrite orb_true_iff, andb_true_iff, !Z.ltb_lt, Z.eqb_eq. tauto.
Qed.

Lemma pair_ltb_asym a b : pair_ltb a b = true -> pair_ltb b a = false.
Proof.
  intros H. apply pair_ltb_spec in H. apply not_true_is_false. intros H2. apply pair_ltb_spec in H2. lia.
Qed.

Lemma pair_ltb_trans a b c : pair_ltb a b = true -> pair_ltb b c = true -> pair_ltb a c = true.
Proof. rewrite !pair_ltb_spec. lia. Qed.

Lemma pair_ltb_total a b : pair_ltb a b = false -> pair_ltb b a = false -> a = b.
Proof.
  intros H1 H2. destruct a as [a1 a2], b as [b1 b2].
  assert (~ (a1 < b1 \/ (a1 = b1 /\ a2 < b2))) by (intros H; apply (proj2 (pair_ltb_spec (a1,a2) (b1,b2))) in H; congruence).
  assert (~ (b1 < a1 \/ (b1 = a1 /\ b2 < a2))) by (intros H'; apply (proj2 (pair_ltb_spec (b1,b2) (a1,a2))) in H'; congruence).
  f_equal; lia.
Qed.

Lemma can_skip_loop_irrefl p : can_skip_loop p p = false.
Proof. induction p as [|a p IH]; cbn [can_skip_loop]; [reflexivity|]. rewrite pair_ltb_irrefl. exact IH. Qed.

(* the loop decides "cur is strictly before old in depth-first order and not on the path to old":
   there is a first position where they differ and cur is smaller there *)
Definition before (cur old : path) : Prop :=
  exists c x y cs os, cur = c ++ x :: cs /\ old = c ++ y :: os /\ pair_ltb x y = true.

Lemma can_skip_loop_spec old cur : can_skip_loop old cur = true <-> before cur old.
Proof.
  revert cur. induction old as [|o old IH]; intros cur.
  - split; [destruct cur; discriminate|]. intros (c & x & y & cs & os & _ & H & _). destruct c; discriminate.
  - destruct cur as [|c cur]; cbn [can_skip_loop].
    + split; [discriminate|]. intros (c & x & y & cs & os & H & _ & _). destruct c; discriminate.
    + destruct (pair_ltb o c) eqn:E1.
      * split; [discriminate|]. intros (pre & x & y & cs & os & H1 & H2 & H3).
        destruct pre as [|a pre]; cbn in H1, H2; injection H1 as -> ->; injection H2 as -> ->.
        -- apply pair_ltb_asym in H3. congruence.
        -- rewrite pair_ltb_irrefl in E1. discriminate.
      * destruct (pair_ltb c o) eqn:E2.
        -- split; [|reflexivity]. intros _. exists [], c, o, cur, old. auto.
        -- pose proof (pair_ltb_total _ _ E1 E2) as ->. rewrite IH. split.
           ++ intros (pre & x & y & cs & os & -> & -> & H). exists (c :: pre), x, y, cs, os. auto.
           ++ intros (pre & x & y & cs & os & H1 & H2 & H3).
              destruct pre as [|a pre]; cbn in H1, H2.
              ** injection H1 as <- <-. injection H2 as <- <-. rewrite pair_ltb_irrefl in H3. discriminate.
              ** injection H1 as <- ->. injection H2 as ->. exists pre, x, y, cs, os. auto.
Qed.

Lemma before_irrefl p : ~ before p p.
Proof. intros H. apply can_skip_loop_spec in H. rewrite can_skip_loop_irrefl in H. discriminate. Qed.

Lemma app_inv_common {A} (c1 c2 : list A) x1 x2 r1 r2 :
  c1 ++ x1 :: r1 = c2 ++ x2 :: r2 ->
  (c1 = c2 /\ x1 = x2 /\ r1 = r2) \/
  (exists m, c2 = c1 ++ x1 :: m /\ r1 = m ++ x2 :: r2) \/
  (exists m, c1 = c2 ++ x2 :: m /\ r2 = m ++ x1 :: r1).
Proof.
  revert c2. induction c1 as [|a c1 IH]; intros c2 H.
  - destruct c2 as [|b c2]; cbn in H.
    + injection H as -> ->. auto.
    + injection H as -> ->. right. left. exists c2. auto.
  - destruct c2 as [|b c2]; cbn in H.
    + injection H as -> <-. right. right. exists c1. auto.
    + injection H as -> H. destruct (IH _ H) as [(-> & -> & ->)|[(m & -> & ->)|(m & -> & ->)]].
      * auto.
      * right. left. exists m. auto.
      * right. right. exists m. auto.
Qed.

Lemma before_trans a b c : before a b -> before b c -> before a c.
Proof.
  intros (p1 & x1 & y1 & as1 & bs1 & -> & Hb & H1) (p2 & x2 & y2 & bs2 & cs2 & Hb2 & -> & H2).
  rewrite Hb in Hb2. destruct (app_inv_common _ _ _ _ _ _ Hb2) as [(-> & -> & ->)|[(m & -> & ->)|(m & -> & ->)]].
  - exists p2, x1, y2, as1, cs2. split; [reflexivity|]. split; [reflexivity|]. eapply pair_ltb_trans; eauto.
  - exists p1, x1, y1, as1, (m ++ y2 :: cs2). split; [reflexivity|]. split; [|assumption].
    rewrite <- app_assoc. reflexivity.
  - exists p2, x2, y2, (m ++ x1 :: as1), cs2. split; [|auto]. rewrite <- app_assoc. reflexivity.
Qed.

(* a node on the path to the saved progress (a prefix) and a node below it are never skipped *)
Lemma can_skip_loop_prefix p s : can_skip_loop (p ++ s) p = false.
Proof.
  induction p as [|a p IH]; cbn [app can_skip_loop].
  - destruct s; reflexivity.
  - rewrite pair_ltb_irrefl. exact IH.
Qed.

Lemma can_skip_loop_extension p s : can_skip_loop p (p ++ s) = false.
Proof.
  induction p as [|a p IH]; cbn [app can_skip_loop].
  - destruct s; reflexivity.
  - rewrite pair_ltb_irrefl. exact IH.
Qed.

Lemma can_skip_loop_common c o k : can_skip_loop (c ++ o) (c ++ k) = can_skip_loop o k.
Proof. induction c as [|a c IH]; cbn [app can_skip_loop]; [reflexivity|]. rewrite pair_ltb_irrefl. exact IH. Qed.

(* the same facts for SeedProgress.can_skip on saved identifiers (Some [] is the token "everything done") *)
Lemma can_skip_irrefl p : p <> [] -> can_skip (Some p) (Some p) = false.
Proof. intros H. destruct p; [congruence|]. apply can_skip_loop_irrefl. Qed.

Lemma can_skip_some old cur : old <> [] -> can_skip (Some old) (Some cur) = can_skip_loop old cur.
Proof. intros H. destruct old; [congruence|reflexivity]. Qed.

Lemma can_skip_trans a b c :
  b <> [] -> c <> [] ->
  can_skip (Some b) (Some a) = true -> can_skip (Some c) (Some b) = true -> can_skip (Some c) (Some a) = true.
Proof.
  intros Hb Hc. rewrite !can_skip_some by assumption. rewrite !can_skip_loop_spec. apply before_trans.
Qed.

Lemma can_skip_asym a b :
  a <> [] -> b <> [] -> can_skip (Some b) (Some a) = true -> can_skip (Some a) (Some b) = false.
Proof.
  intros Ha Hb H. apply not_true_is_false. intros H2. rewrite can_skip_some in H, H2 by assumption.
  apply can_skip_loop_spec in H. apply can_skip_loop_spec in H2.
  exact (before_irrefl _ (before_trans _ _ _ H H2)).
Qed.

Lemma can_skip_prefix p s : p ++ s <> [] -> can_skip (Some (p ++ s)) (Some p) = false.
Proof. intros H. rewrite can_skip_some by assumption. apply can_skip_loop_prefix. Qed.

Lemma can_skip_below p s : p <> [] -> can_skip (Some p) (Some (p ++ s)) = false.
Proof. intros H. rewrite can_skip_some by assumption. apply can_skip_loop_extension. Qed.

(* ------------------------------------------------------------------ induction over walk trees *)

Fixpoint err_free (n : wnode) : Prop :=
  match n with
  | WErr => False
  | WNode _ _ _ _ subs =>
    (fix all (ss : list (sub wnode)) : Prop :=
       match ss with
       | [] => True
       | SRec _ c :: r => err_free c /\ all r
       | _ :: r => all r
       end) subs
  end.

Section WInd.
  Variable P : wnode -> Prop.
  Hypothesis HErr : P WErr.
  Hypothesis HNode : forall lv proc rep total subs,
      (forall t c, In (SRec t c) subs -> P c) -> P (WNode lv proc rep total subs).
  Fixpoint wnode_ind2 (n : wnode) : P n :=
    match n with
    | WErr => HErr
    | WNode lv proc rep total subs =>
      HNode lv proc rep total subs
            ((fix go (ss : list (sub wnode)) : forall t c, In (SRec t c) ss -> P c :=
                match ss with
                | [] => fun t c H => match H with end
                | s :: r => fun t c H =>
                  match H with
                  | or_introl e =>
                    match s as s0 return s0 = SRec t c -> P c with
                    | SRec t' c' => fun e' => eq_ind c' P (wnode_ind2 c') c
                                                     (f_equal (fun x => match x with SRec _ y => y | _ => c' end) e')
                    | SNone => fun e' => False_ind _ (eq_ind SNone (fun x => match x with SNone => True | _ => False end) I _ e')
                    | SLeaf u => fun e' => False_ind _ (eq_ind (SLeaf u) (fun x => match x with SLeaf _ => True | _ => False end) I _ e')
                    end e
                  | or_intror H' => go r t c H'
                  end
                end) subs)
    end.
End WInd.

Lemma err_free_sub lv proc rep total subs t c :
  err_free (WNode lv proc rep total subs) -> In (SRec t c) subs -> err_free c.
Proof.
  cbn [err_free]. induction subs as [|s r IH]; intros H Hin; [destruct Hin|].
  destruct Hin as [->|Hin].
  - tauto.
  - apply IH; [|assumption]. destruct s; tauto.
Qed.

(* ------------------------------------------------------------------ the walk without state: reports and visited tiles *)

Inductive vev := VProc (lv : Z) (t : coord) | VRep (lv : Z) (id : option path).

Definition isubs {B} (f : Z -> sub wnode -> list B) :=
  fix loop (ss : list (sub wnode)) (i : Z) {struct ss} : list B :=
    match ss with
    | [] => []
    | s :: r => f i s ++ loop r (i + 1)
    end.

Definition ident_at (old : option path) (p : path) : option path :=
  match p with
  | [] => old
  | _ :: _ => if can_skip old (Some p) then old else Some p
  end.

Definition own (proc : bool) (lv : Z) (t : coord) : list vev := if proc then [VProc lv t] else [].

Definition ev_sub (rn : path -> wnode -> list vev) (old : option path) (p : path) (lv : Z) (proc : bool) (total : Z)
           (i : Z) (s : sub wnode) : list vev :=
  match s with
  | SNone => []
  | SLeaf t => own proc lv t
  | SRec t c =>
    (if can_skip old (Some (p ++ [(i, total)])) then [] else rn (p ++ [(i, total)]) c) ++ own proc lv t
  end.

Fixpoint ev_node (old : option path) (p : path) (n : wnode) {struct n} : list vev :=
  match n with
  | WErr => []
  | WNode lv proc rep total subs =>
    (if rep then [VRep lv (ident_at old p)] else []) ++
    isubs (ev_sub (fun q c => ev_node old q c) old p lv proc total) subs 0
  end.

Fixpoint vtiles (l : list vev) : list coord :=
  match l with
  | [] => []
  | VProc _ t :: r => t :: vtiles r
  | VRep _ _ :: r => vtiles r
  end.

Lemma vtiles_app a b : vtiles (a ++ b) = vtiles a ++ vtiles b.
Proof. induction a as [|[lv t|lv id] a IH]; cbn [app vtiles]; [reflexivity| |assumption]. rewrite IH. reflexivity. Qed.

(* every tile of a node, nothing skipped *)
Definition full_sub (rn : wnode -> list coord) (proc : bool) (s : sub wnode) : list coord :=
  match s with
  | SNone => []
  | SLeaf t => if proc then [t] else []
  | SRec t c => rn c ++ (if proc then [t] else [])
  end.

Fixpoint full (n : wnode) : list coord :=
  match n with
  | WErr => []
  | WNode lv proc rep total subs => isubs (fun _ s => full_sub full proc s) subs 0
  end.

(* the tiles below the subtrees that a run continuing from `old` skips *)
Definition skf_sub (rn : path -> wnode -> list coord) (old : option path) (p : path) (total : Z) (i : Z) (s : sub wnode)
  : list coord :=
  match s with
  | SRec t c => if can_skip old (Some (p ++ [(i, total)])) then full c else rn (p ++ [(i, total)]) c
  | _ => []
  end.

Fixpoint skf (old : option path) (p : path) (n : wnode) {struct n} : list coord :=
  match n with
  | WErr => []
  | WNode lv proc rep total subs => isubs (skf_sub (fun q c => skf old q c) old p total) subs 0
  end.

Lemma vtiles_own proc lv t : vtiles (own proc lv t) = if proc then [t] else [].
Proof. destruct proc; reflexivity. Qed.

Lemma not_rep_in_own proc lv t lv' id : ~ In (VRep lv' id) (own proc lv t).
Proof. unfold own. destruct proc; cbn; intuition discriminate. Qed.

(* what a continuing run skips plus what it visits is everything *)
Lemma full_covered n : forall old p, incl (full n) (skf old p n ++ vtiles (ev_node old p n)).
Proof.
  induction n as [|lv proc rep total subs IH] using wnode_ind2; intros old p; [intros x []|].
  cbn [full skf ev_node]. rewrite vtiles_app.
  assert (H : forall i, incl (isubs (fun _ s => full_sub full proc s) subs i)
                (isubs (skf_sub (fun q c => skf old q c) old p total) subs i ++
                 vtiles (isubs (ev_sub (fun q c => ev_node old q c) old p lv proc total) subs i))).
  { induction subs as [|s r IHr]; intros i; cbn [isubs]; [intros x []|].
    rewrite vtiles_app. specialize (IHr (fun t c H => IH t c (or_intror H)) (i + 1)).
    assert (Hs : incl (full_sub full proc s)
                      (skf_sub (fun q c => skf old q c) old p total i s ++
                       vtiles (ev_sub (fun q c => ev_node old q c) old p lv proc total i s))).
    { destruct s as [|t|t c]; cbn [full_sub skf_sub ev_sub].
      - intros x [].
      - rewrite vtiles_own. cbn [app]. apply incl_refl.
      - rewrite vtiles_app, vtiles_own. destruct (can_skip old (Some (p ++ [(i, total)]))).
        + cbn [vtiles app]. intros x; rewrite !in_app_iff; tauto.
        + pose proof (IH t c (or_introl eq_refl) old (p ++ [(i, total)])) as Hc.
          intros x; rewrite !in_app_iff. intros [Hx|Hx]; [apply Hc in Hx; rewrite in_app_iff in Hx; tauto|tauto]. }
    intros x; rewrite !in_app_iff. intros [Hx|Hx]; [apply Hs in Hx|apply IHr in Hx]; rewrite in_app_iff in Hx; tauto. }
  intros x Hx. apply H in Hx. rewrite !in_app_iff in *. tauto.
Qed.

(* reported identifiers: the old one, or the path of a node at or below the reporting position *)
Definition id_ok (old : option path) (p : path) (id : option path) : Prop :=
  id = old \/ exists s, id = Some (p ++ s) /\ p ++ s <> [].

Lemma app_cons_not_nil {A} (p : list A) x s : p ++ x :: s <> [].
Proof. destruct p; discriminate. Qed.

Lemma ev_node_ids n : forall old p lv id, In (VRep lv id) (ev_node old p n) -> id_ok old p id.
Proof.
  induction n as [|lv0 proc rep total subs IH] using wnode_ind2; intros old p lv id Hin; [destruct Hin|].
  cbn [ev_node] in Hin. apply in_app_or in Hin. destruct Hin as [Hin|Hin].
  - destruct rep; [|destruct Hin]. destruct Hin as [Hin|[]]. injection Hin as _ <-.
    destruct p as [|a p']; cbn [ident_at]; [left; reflexivity|].
    match goal with |- context [can_skip ?x ?y] => destruct (can_skip x y) end; [left; reflexivity|].
    right. exists []. rewrite app_nil_r. split; [reflexivity|discriminate].
  - assert (H : forall i, In (VRep lv id) (isubs (ev_sub (fun q c => ev_node old q c) old p lv0 proc total) subs i) ->
                         id = old \/ exists j s, i <= j /\ id = Some (p ++ (j, total) :: s)).
    { clear Hin. induction subs as [|s r IHr]; intros i Hin; cbn [isubs] in Hin; [destruct Hin|].
      apply in_app_or in Hin. destruct Hin as [Hin|Hin].
      - destruct s as [|t|t c]; cbn [ev_sub] in Hin.
        + destruct Hin.
        + exfalso. exact (not_rep_in_own _ _ _ _ _ Hin).
        + apply in_app_or in Hin. destruct Hin as [Hin|Hin]; [|exfalso; exact (not_rep_in_own _ _ _ _ _ Hin)].
          destruct (can_skip old (Some (p ++ [(i, total)]))); [destruct Hin|].
          destruct (IH t c (or_introl eq_refl) _ _ _ _ Hin) as [->|(s & -> & _)]; [left; reflexivity|].
          right. exists i, s. split; [lia|]. rewrite <- app_assoc. reflexivity.
      - destruct (IHr (fun t c H => IH t c (or_intror H)) (i + 1) Hin) as [->|(j & s' & Hj & ->)]; [left; reflexivity|].
        right. exists j, s'. split; [lia|reflexivity]. }
    destruct (H 0 Hin) as [->|(j & s & _ & ->)]; [left; reflexivity|].
    right. exists ((j, total) :: s). split; [reflexivity|apply app_cons_not_nil].
Qed.

Lemma ev_loop_ids old p lv0 proc total subs lv id :
  forall i, In (VRep lv id) (isubs (ev_sub (fun q c => ev_node old q c) old p lv0 proc total) subs i) ->
            id = old \/ exists j s, i <= j /\ id = Some (p ++ (j, total) :: s).
Proof.
  induction subs as [|s r IHr]; intros i Hin; cbn [isubs] in Hin; [destruct Hin|].
  apply in_app_or in Hin. destruct Hin as [Hin|Hin].
  - destruct s as [|t|t c]; cbn [ev_sub] in Hin.
    + destruct Hin.
    + exfalso. exact (not_rep_in_own _ _ _ _ _ Hin).
    + apply in_app_or in Hin. destruct Hin as [Hin|Hin]; [|exfalso; exact (not_rep_in_own _ _ _ _ _ Hin)].
      destruct (can_skip old (Some (p ++ [(i, total)]))); [destruct Hin|].
      destruct (ev_node_ids _ _ _ _ _ Hin) as [->|(s & -> & _)]; [left; reflexivity|].
      right. exists i, s. split; [lia|]. rewrite <- app_assoc. reflexivity.
  - destruct (IHr (i + 1) Hin) as [->|(j & s' & Hj & ->)]; [left; reflexivity|].
    right. exists j, s'. split; [lia|reflexivity].
Qed.

(* nothing is skipped below a position that the identifier never lets skip *)
Lemma skf_none_below n : forall id q, (forall s, can_skip id (Some (q ++ s)) = false) -> skf id q n = [].
Proof.
  induction n as [|lv proc rep total subs IH] using wnode_ind2; intros id q H; [reflexivity|].
  cbn [skf]. generalize 0. induction subs as [|s r IHr]; intros i; cbn [isubs]; [reflexivity|].
  rewrite (IHr (fun t c H' => IH t c (or_intror H'))). rewrite app_nil_r.
  destruct s as [|t|t c]; cbn [skf_sub]; try reflexivity.
  rewrite (H [(i, total)]). apply (IH t c (or_introl eq_refl)).
  intros s. rewrite <- app_assoc. apply H.
Qed.

Lemma can_skip_later p i j total s s' :
  i < j -> can_skip (Some (p ++ (i, total) :: s)) (Some (p ++ (j, total) :: s')) = false.
Proof.
  intros Hij. rewrite can_skip_some by apply app_cons_not_nil. rewrite can_skip_loop_common.
  cbn [can_skip_loop]. replace (pair_ltb (i, total) (j, total)) with true; [reflexivity|].
  symmetry. apply pair_ltb_spec. cbn [fst snd]. lia.
Qed.

Lemma can_skip_earlier p i j total s :
  i < j -> can_skip (Some (p ++ (j, total) :: s)) (Some (p ++ [(i, total)])) = true.
Proof.
  intros Hij. rewrite can_skip_some by apply app_cons_not_nil. rewrite can_skip_loop_common.
  cbn [can_skip_loop]. replace (pair_ltb (j, total) (i, total)) with false.
  - replace (pair_ltb (i, total) (j, total)) with true; [reflexivity|].
    symmetry. apply pair_ltb_spec. cbn [fst snd]. lia.
  - symmetry. apply not_true_is_false. intros H. apply pair_ltb_spec in H. cbn [fst snd] in H. lia.
Qed.

Lemma skf_after id p total i s :
  id = Some (p ++ (i, total) :: s) ->
  forall subs k, i < k -> isubs (skf_sub (fun q c => skf id q c) id p total) subs k = [].
Proof.
  intros ->. induction subs as [|x r IHr]; intros k Hk; cbn [isubs]; [reflexivity|].
  rewrite IHr by lia. rewrite app_nil_r. destruct x as [|t|t c]; cbn [skf_sub]; try reflexivity.
  rewrite (can_skip_later p i k total s []) by assumption.
  apply skf_none_below. intros s'. rewrite <- app_assoc. cbn [app]. apply can_skip_later. assumption.
Qed.

Lemma split_app {A} (a b pre post : list A) x :
  a ++ b = pre ++ x :: post ->
  (exists post', a = pre ++ x :: post' /\ post = post' ++ b) \/
  (exists pre', pre = a ++ pre' /\ b = pre' ++ x :: post).
Proof.
  revert pre. induction a as [|y a IH]; intros pre H.
  - right. exists pre. auto.
  - destruct pre as [|z pre]; cbn in H.
    + injection H as -> <-. left. exists a. auto.
    + injection H as -> H. destruct (IH _ H) as [(post' & -> & ->)|(pre' & -> & ->)].
      * left. exists post'. auto.
      * right. exists pre'. auto.
Qed.

Lemma incl_self_app {A} (a b : list A) : incl a (a ++ b).
Proof. apply incl_appl, incl_refl. Qed.

(* the step of the resume argument: when a run continuing from `old` reports `id`, everything that a run continuing
   from `id` would skip was either skipped already under `old` or has been visited before the report *)
Lemma skf_step n : forall old p pre lv id post,
    ev_node old p n = pre ++ VRep lv id :: post ->
    incl (skf id p n) (skf old p n ++ vtiles pre).
Proof.
  induction n as [|lv0 proc rep total subs IH] using wnode_ind2; intros old p pre lv id post Heq.
  { destruct pre; discriminate. }
  cbn [ev_node] in Heq. apply split_app in Heq. destruct Heq as [(post' & Hr & _)|(pre' & -> & Hl)].
  - (* the node's own report *)
    destruct rep; [|destruct pre; discriminate].
    destruct pre as [|y pre]; [|destruct pre; discriminate]. cbn in Hr. injection Hr as _ <- _.
    destruct p as [|a p']; cbn [ident_at]; [apply incl_self_app|].
    match goal with |- context [can_skip ?x ?y] => destruct (can_skip x y) eqn:E end; [apply incl_self_app|].
    rewrite skf_none_below; [intros x []|]. intros s. apply can_skip_below. discriminate.
  - (* a report from below *)
    rewrite vtiles_app. cbn [skf].
    enough (H : forall i pre' post,
               isubs (ev_sub (fun q c => ev_node old q c) old p lv0 proc total) subs i = pre' ++ VRep lv id :: post ->
               incl (isubs (skf_sub (fun q c => skf id q c) id p total) subs i)
                    (isubs (skf_sub (fun q c => skf old q c) old p total) subs i ++ vtiles pre')).
    { intros x Hx. apply (H _ _ _ Hl) in Hx. rewrite !in_app_iff in *. tauto. }
    clear Hl pre' post. induction subs as [|s r IHr]; intros i pre' post Hl; cbn [isubs] in *.
    { destruct pre'; discriminate. }
    specialize (IHr (fun t c H => IH t c (or_intror H))).
    apply split_app in Hl. destruct Hl as [(post' & Hs & _)|(pre'' & -> & Hrest)].
    + (* the report comes from this subtile's subtree *)
      destruct s as [|t|t c]; cbn [ev_sub] in Hs.
      * destruct pre'; discriminate.
      * exfalso. apply (not_rep_in_own proc lv0 t lv id). rewrite Hs. apply in_elt.
      * apply split_app in Hs. destruct Hs as [(post2 & Hc & _)|(pre2 & _ & Hown)];
          [|exfalso; apply (not_rep_in_own proc lv0 t lv id); rewrite Hown; apply in_elt].
        cbn [skf_sub]. destruct (can_skip old (Some (p ++ [(i, total)]))) eqn:Eold; [destruct pre'; discriminate|].
        assert (Hin : In (VRep lv id) (ev_node old (p ++ [(i, total)]) c)) by (rewrite Hc; apply in_elt).
        destruct (ev_node_ids _ _ _ _ _ Hin) as [->|(s' & -> & Hne)].
        { rewrite Eold. apply incl_self_app. }
        rewrite <- app_assoc in *. cbn [app] in *.
        assert (E1 : can_skip (Some (p ++ (i, total) :: s')) (Some (p ++ [(i, total)])) = false).
        { replace (p ++ (i, total) :: s') with ((p ++ [(i, total)]) ++ s') by (rewrite <- app_assoc; reflexivity).
          apply can_skip_prefix. rewrite <- app_assoc. apply app_cons_not_nil. }
        rewrite E1. rewrite (skf_after _ p total i s' eq_refl) by lia. rewrite app_nil_r.
        pose proof (IH t c (or_introl eq_refl) _ _ _ _ _ _ Hc) as Hstep.
        intros x Hx. apply Hstep in Hx. rewrite !in_app_iff in *. tauto.
    + (* the report comes from a later subtile: this one is complete *)
      rewrite vtiles_app.
      pose proof (IHr (i + 1) _ _ Hrest) as Hlater.
      assert (Hin : In (VRep lv id) (isubs (ev_sub (fun q c => ev_node old q c) old p lv0 proc total) r (i + 1)))
        by (rewrite Hrest; apply in_elt).
      assert (Hs : incl (skf_sub (fun q c => skf id q c) id p total i s)
                        (skf_sub (fun q c => skf old q c) old p total i s ++
                         vtiles (ev_sub (fun q c => ev_node old q c) old p lv0 proc total i s))).
      { destruct (ev_loop_ids _ _ _ _ _ _ _ _ _ Hin) as [->|(j & s' & Hj & ->)]; [apply incl_self_app|].
        destruct s as [|t|t c]; cbn [skf_sub ev_sub]; try (intros x []).
        rewrite (can_skip_earlier p i j total s') by lia.
        destruct (can_skip old (Some (p ++ [(i, total)]))); [apply incl_self_app|].
        rewrite vtiles_app. pose proof (full_covered c old (p ++ [(i, total)])) as Hc.
        intros x Hx. apply Hc in Hx. rewrite !in_app_iff in *. tauto. }
      intros x Hx. apply in_app_or in Hx. destruct Hx as [Hx|Hx]; [apply Hs in Hx|apply Hlater in Hx];
        rewrite !in_app_iff in *; tauto.
Qed.

Lemma skf_incl_full n : forall old p, incl (skf old p n) (full n).
Proof.
  induction n as [|lv proc rep total subs IH] using wnode_ind2; intros old p; [intros x []|].
  cbn [skf full]. generalize 0. induction subs as [|s r IHr]; intros i; cbn [isubs]; [intros x []|].
  specialize (IHr (fun t c H => IH t c (or_intror H)) (i + 1)).
  apply incl_app; [|apply incl_appr; exact IHr]. apply incl_appl.
  destruct s as [|t|t c]; cbn [skf_sub full_sub]; try (intros x []).
  destruct (can_skip old (Some (p ++ [(i, total)]))); [apply incl_self_app|].
  apply incl_appl. apply (IH t c (or_introl eq_refl)).
Qed.

Lemma vtiles_ev_incl_full n : forall old p, incl (vtiles (ev_node old p n)) (full n).
Proof.
  induction n as [|lv proc rep total subs IH] using wnode_ind2; intros old p; [intros x []|].
  cbn [ev_node full]. rewrite vtiles_app.
  apply incl_app; [destruct rep; intros x []|].
  generalize 0. induction subs as [|s r IHr]; intros i; cbn [isubs]; [intros x []|].
  specialize (IHr (fun t c H => IH t c (or_intror H)) (i + 1)). rewrite vtiles_app.
  apply incl_app; [|apply incl_appr; exact IHr]. apply incl_appl.
  destruct s as [|t|t c]; cbn [ev_sub full_sub].
  - intros x [].
  - rewrite vtiles_own. apply incl_refl.
  - rewrite vtiles_app, vtiles_own. apply incl_app; [|apply incl_appr, incl_refl].
    destruct (can_skip old (Some (p ++ [(i, total)]))); [intros x []|].
    apply incl_appl. apply (IH t c (or_introl eq_refl)).
Qed.

(* ------------------------------------------------------------------ duplicate suppression as a filter *)

Fixpoint dd (d : dqs) (l : list vev) : list event * dqs :=
  match l with
  | [] => ([], d)
  | VRep lv id :: r => let '(e, d') := dd d r in (ERep lv id :: e, d')
  | VProc lv t :: r =>
    if dq_mem d lv t then dd d r
    else let '(e, d') := dd (dq_push d lv t) r in (EProc t :: e, d')
  end.

Lemma dd_app d a b :
  dd d (a ++ b) = (fst (dd d a) ++ fst (dd (snd (dd d a)) b), snd (dd (snd (dd d a)) b)).
Proof.
  revert d. induction a as [|[lv t|lv id] a IH]; intros d; cbn [app dd].
  - cbn [fst snd app]. destruct (dd d b); reflexivity.
  - destruct (dq_mem d lv t); [apply IH|].
    rewrite IH. destruct (dd (dq_push d lv t) a) as [e1 d1]. cbn [fst snd].
    destruct (dd d1 b); reflexivity.
  - rewrite IH. destruct (dd d a) as [e1 d1]. cbn [fst snd]. destruct (dd d1 b); reflexivity.
Qed.

Definition dqall (d : dqs) : list coord := flat_map snd d.

Lemma coord_eqb_eq a b : coord_eqb a b = true -> a = b.
Proof.
  destruct a as [[a0 a1] a2], b as [[b0 b1] b2]. unfold coord_eqb.
  rewrite !andb_true_iff, !Z.eqb_eq. intros [[-> ->] ->]. reflexivity.
Qed.

Lemma dq_get_in d l t : In t (dq_get d l) -> In t (dqall d).
Proof.
  unfold dq_get, dqall. destruct (find (fun p => fst p =? l) d) as [p|] eqn:E; [|intros []].
  apply find_some in E. destruct E as [E _]. intros H. apply in_flat_map. exists p. auto.
Qed.

Lemma dq_mem_in d l t : dq_mem d l t = true -> In t (dqall d).
Proof.
  unfold dq_mem. rewrite existsb_exists. intros (x & Hx & E). apply coord_eqb_eq in E. subst x.
  eapply dq_get_in; eauto.
Qed.

Lemma firstn_in {A} n (l : list A) x : In x (firstn n l) -> In x l.
Proof. revert l. induction n; intros [|y l]; cbn; intuition. Qed.

Lemma dq_push_in d l t x : In x (dqall (dq_push d l t)) -> x = t \/ In x (dqall d).
Proof.
  unfold dq_push, dqall. cbn [flat_map snd]. rewrite in_app_iff. intros [H|H].
  - apply firstn_in in H. destruct H as [<-|H]; [left; reflexivity|]. right. eapply dq_get_in; eauto.
  - right. apply in_flat_map in H. destruct H as (p & Hp & Hx). apply filter_In in Hp.
    apply in_flat_map. exists p. tauto.
Qed.

Lemma dd_procs_incl l : forall d, incl (procs (fst (dd d l))) (vtiles l).
Proof.
  induction l as [|[lv t|lv id] l IH]; intros d; cbn [dd vtiles].
  - intros x [].
  - destruct (dq_mem d lv t).
    + apply incl_tl, IH.
    + specialize (IH (dq_push d lv t)). destruct (dd (dq_push d lv t) l) as [e d1]. cbn [fst procs] in *.
      intros x [<-|Hx]; [left; reflexivity|right; auto].
  - specialize (IH d). destruct (dd d l) as [e d1]. cbn [fst procs] in *. exact IH.
Qed.

Lemma dd_covers l : forall d, incl (vtiles l) (procs (fst (dd d l)) ++ dqall d).
Proof.
  induction l as [|[lv t|lv id] l IH]; intros d; cbn [dd vtiles].
  - intros x [].
  - destruct (dq_mem d lv t) eqn:E.
    + intros x [<-|Hx]; [apply in_or_app; right; eapply dq_mem_in; eauto|apply IH; assumption].
    + specialize (IH (dq_push d lv t)). destruct (dd (dq_push d lv t) l) as [e d1]. cbn [fst procs] in *.
      intros x [<-|Hx]; [left; reflexivity|]. apply IH in Hx. apply in_app_or in Hx.
      destruct Hx as [Hx|Hx]; [right; apply in_or_app; auto|].
      apply dq_push_in in Hx. destruct Hx as [->|Hx]; [left; reflexivity|right; apply in_or_app; auto].
  - specialize (IH d). destruct (dd d l) as [e d1]. cbn [fst procs] in *. exact IH.
Qed.

(* a report in the filtered trace is a report in the unfiltered one, and every tile visited before it has been
   handed to the workers before it (or sits in a deque, i.e. was handed over earlier) *)
Lemma dd_split l : forall d j lv id,
    nth_error (fst (dd d l)) j = Some (ERep lv id) ->
    exists pre post, l = pre ++ VRep lv id :: post /\
                     incl (vtiles pre) (procs (firstn j (fst (dd d l))) ++ dqall d).
Proof.
  induction l as [|[lv0 t|lv0 id0] l IH]; intros d j lv id Hn; cbn [dd] in *.
  - destruct j; discriminate.
  - destruct (dq_mem d lv0 t) eqn:E.
    + destruct (IH _ _ _ _ Hn) as (pre & post & -> & Hi). exists (VProc lv0 t :: pre), post. split; [reflexivity|].
      cbn [vtiles]. intros x [<-|Hx]; [apply in_or_app; right; eapply dq_mem_in; eauto|auto].
    + specialize (IH (dq_push d lv0 t)). destruct (dd (dq_push d lv0 t) l) as [e d1]. cbn [fst] in *.
      destruct j as [|j]; [discriminate|]. cbn [nth_error] in Hn.
      destruct (IH _ _ _ Hn) as (pre & post & -> & Hi). exists (VProc lv0 t :: pre), post. split; [reflexivity|].
      cbn [vtiles firstn procs]. intros x [<-|Hx]; [left; reflexivity|]. apply Hi in Hx. apply in_app_or in Hx.
      destruct Hx as [Hx|Hx]; [right; apply in_or_app; auto|].
      apply dq_push_in in Hx. destruct Hx as [->|Hx]; [left; reflexivity|right; apply in_or_app; auto].
  - specialize (IH d). destruct (dd d l) as [e d1]. cbn [fst] in *.
    destruct j as [|j]; cbn [nth_error] in Hn.
    + injection Hn as -> ->. exists [], l. split; [reflexivity|]. intros x [].
    + destruct (IH _ _ _ Hn) as (pre & post & -> & Hi). exists (VRep lv0 id0 :: pre), post. split; [reflexivity|].
      cbn [vtiles firstn procs]. exact Hi.
Qed.

Lemma dd_no_err l : forall d, ~ In EErr (fst (dd d l)).
Proof.
  induction l as [|[lv t|lv id] l IH]; intros d; cbn [dd].
  - intros [].
  - destruct (dq_mem d lv t); [apply IH|]. specialize (IH (dq_push d lv t)).
    destruct (dd (dq_push d lv t) l) as [e d1]. cbn [fst] in *. intros [H|H]; [discriminate|auto].
  - specialize (IH d). destruct (dd d l) as [e d1]. cbn [fst] in *. intros [H|H]; [discriminate|auto].
Qed.

(* ------------------------------------------------------------------ the stateful walker is the filtered stateless one *)

Definition strong (p : path) (s : pstate) : Prop :=
  lpl s = length p /\ ((p = [] /\ lp s = None) \/ (p <> [] /\ lp s = Some p)).
Definition weak (p : path) (s : pstate) : Prop :=
  lpl s = length p /\ firstn (length p) (lp_list s) = p.

Lemma strong_weak p s : strong p s -> weak p s.
Proof.
  intros [Hl [[-> Hn]|[Hp Hs]]]; split; try assumption.
  - reflexivity.
  - unfold lp_list. rewrite Hs. apply firstn_all.
Qed.

Lemma strong_ident old p s : strong p s -> progress_ident old s = ident_at old p.
Proof.
  intros [_ [[-> Hn]|[Hp Hs]]]; unfold progress_ident, already_processed; rewrite ?Hn, ?Hs.
  - cbn. reflexivity.
  - destruct p as [|a p]; [congruence|]. cbn [ident_at is_none]. rewrite orb_false_r. reflexivity.
Qed.

Lemma enter_strong p s i total : weak p s -> strong (p ++ [(i, total)]) (step_down_enter s i total).
Proof.
  intros [Hl Hf]. unfold step_down_enter. split; cbn [lpl lp].
  - rewrite app_length. cbn. lia.
  - right. split; [destruct p; discriminate|]. rewrite Hl, Hf. reflexivity.
Qed.

Lemma firstn_shorter {A} (l p : list A) x : firstn (length p + 1) l = p ++ [x] -> firstn (length p) l = p.
Proof.
  intros H. apply (f_equal (firstn (length p))) in H. rewrite firstn_firstn in H.
  replace (Init.Nat.min (length p) (length p + 1)) with (length p) in H by lia.
  rewrite H. rewrite firstn_app, Nat.sub_diag, firstn_all. cbn. apply app_nil_r.
Qed.

Lemma exit_weak p x s : weak (p ++ [x]) s -> weak p (step_down_exit s).
Proof.
  intros [Hl Hf]. rewrite app_length in *. cbn [length] in *. unfold step_down_exit.
  replace (pred (lpl s)) with (length p) by lia. split; cbn [lpl lp]; [reflexivity|].
  destruct (Nat.eqb (length p) 0) eqn:E.
  - apply Nat.eqb_eq in E. destruct p; [reflexivity|discriminate].
  - unfold lp_list in *. cbn [lp]. eapply firstn_shorter. exact Hf.
Qed.

Lemma do_process_dd proc lv t st :
  do_process proc lv t st =
  (fst (dd (dq st) (own proc lv t)), mkW (ps st) (snd (dd (dq st) (own proc lv t)))).
Proof.
  unfold do_process, own. destruct proc; cbn [dd].
  - destruct (dq_mem (dq st) lv t); cbn [fst snd]; [destruct st|]; reflexivity.
  - destruct st; reflexivity.
Qed.

Lemma run_node_spec n : err_free n -> forall old p st,
    strong p (ps st) ->
    exists ps', run_node old n st =
                (fst (dd (dq st) (ev_node old p n)), mkW ps' (snd (dd (dq st) (ev_node old p n)))) /\ weak p ps'.
Proof.
  induction n as [|lv proc rep total subs IH] using wnode_ind2; intros Hef old p st Hst; [destruct Hef|].
  cbn [run_node ev_node].
  assert (Hloop : forall i st, weak p (ps st) ->
             exists ps', run_subs (run_node old) old lv proc total subs i st =
                         (fst (dd (dq st) (isubs (ev_sub (fun q c => ev_node old q c) old p lv proc total) subs i)),
                          mkW ps' (snd (dd (dq st) (isubs (ev_sub (fun q c => ev_node old q c) old p lv proc total) subs i))))
                         /\ weak p ps').
  { clear st Hst. induction subs as [|s r IHr]; intros i st Hw; cbn [run_subs isubs].
    - exists (ps st). cbn [dd fst snd]. destruct st; auto.
    - assert (Hef' : err_free (WNode lv proc rep total r)).
      { cbn [err_free] in *. destruct s; tauto. }
      specialize (IHr (fun t c H => IH t c (or_intror H)) Hef').
      rewrite dd_app.
      assert (Hs : exists ps1,
                 run_sub (run_node old) old lv proc total i s st =
                 (fst (dd (dq st) (ev_sub (fun q c => ev_node old q c) old p lv proc total i s)),
                  mkW ps1 (snd (dd (dq st) (ev_sub (fun q c => ev_node old q c) old p lv proc total i s)))) /\ weak p ps1).
      { destruct s as [|t|t c]; cbn [ev_sub run_sub].
        - exists (ps st). cbn [dd fst snd]. destruct st; auto.
        - exists (ps st). rewrite do_process_dd. auto.
        - cbv zeta. pose proof (enter_strong p (ps st) i total Hw) as Hin.
          unfold already_processed at 1. cbn [ps].
          assert (Hlp : lp (step_down_enter (ps st) i total) = Some (p ++ [(i, total)])).
          { destruct Hin as [_ [[Hp _]|[_ H]]]; [destruct p; discriminate|exact H]. }
          rewrite Hlp. rewrite dd_app.
          destruct (can_skip old (Some (p ++ [(i, total)]))) eqn:Esk.
          + cbn [dd fst snd ps dq]. rewrite do_process_dd. cbn [ps dq app].
            eexists. split; [reflexivity|]. eapply exit_weak. apply strong_weak. exact Hin.
          + assert (Hefc : err_free c) by (eapply err_free_sub; [exact Hef|left; reflexivity]).
            destruct (IH t c (or_introl eq_refl) Hefc old (p ++ [(i, total)])
                         (mkW (step_down_enter (ps st) i total) (dq st)) Hin) as (ps2 & Hrun & Hw2).
            cbn [dq] in Hrun. rewrite Hrun. rewrite do_process_dd. cbn [ps dq].
            eexists. split; [reflexivity|]. eapply exit_weak. exact Hw2. }
      destruct Hs as (ps1 & Hs & Hw1). rewrite Hs.
      destruct (IHr (i + 1) (mkW ps1 (snd (dd (dq st) (ev_sub (fun q c => ev_node old q c) old p lv proc total i s)))) Hw1)
        as (ps2 & Hr & Hw2).
      cbn [dq] in Hr. rewrite Hr. exists ps2. split; [reflexivity|exact Hw2]. }
  destruct (Hloop 0 st (strong_weak _ _ Hst)) as (ps' & Hr & Hw). rewrite Hr. exists ps'. split; [|exact Hw].
  rewrite dd_app. rewrite (strong_ident old p (ps st) Hst). destruct rep; cbn [dd fst snd app]; reflexivity.
Qed.

(* ------------------------------------------------------------------ resume *)

Lemma until_err_id l : ~ In EErr l -> until_err l = l.
Proof.
  induction l as [|e l IH]; intros H; [reflexivity|]. cbn [until_err].
  destruct e; try (f_equal; apply IH; intros H'; apply H; right; exact H').
  exfalso. apply H. left. reflexivity.
Qed.

Lemma in_procs t l : In t (procs l) <-> In (EProc t) l.
Proof.
  induction l as [|e l IH]; [tauto|]. destruct e as [t0|lv id|]; cbn [procs In].
  - rewrite IH. split; intros [H|H]; auto; left; congruence.
  - rewrite IH. split; [auto|intros [H|H]; [discriminate|auto]].
  - rewrite IH. split; [auto|intros [H|H]; [discriminate|auto]].
Qed.

Lemma run_walk_shape tree old flv :
  err_free tree ->
  exists fin, run_walk old tree flv = fst (dd [] (ev_node old [] tree)) ++ [ERep flv fin].
Proof.
  intros Hef. unfold run_walk, run_walk_raw.
  assert (E : already_processed old (ps st0) = false) by (destruct old as [[|]|]; reflexivity).
  rewrite E.
  assert (Hs : strong [] (ps st0)) by (split; [reflexivity|left; split; reflexivity]).
  destruct (run_node_spec tree Hef old [] st0 Hs) as (ps' & Hr & _). rewrite Hr.
  exists (progress_ident old (ps (mkW ps' (snd (dd (dq st0) (ev_node old [] tree)))))).
  apply until_err_id. intros H. apply in_app_or in H. destruct H as [H|[H|[]]]; [|discriminate].
  exact (dd_no_err _ _ H).
Qed.

Lemma firstn_incl_le {A} (l : list A) j k : (j <= k)%nat -> incl (firstn j l) (firstn k l).
Proof.
  intros H x Hx. replace (firstn j l) with (firstn j (firstn k l)) in Hx.
  - eapply firstn_in; eauto.
  - rewrite firstn_firstn. f_equal. lia.
Qed.

Lemma skf_none tree p : skf None p tree = [].
Proof. apply skf_none_below. intros s. reflexivity. Qed.

Lemma resume_step tree flv old acc j k lv id :
  err_free tree -> incl (skf old [] tree) acc ->
  nth_error (run_walk old tree flv) j = Some (ERep lv id) -> (j < k)%nat ->
  incl (skf id [] tree) (acc ++ procs (firstn k (run_walk old tree flv))).
Proof.
  intros Hef Hacc Hn Hjk. destruct (run_walk_shape tree old flv Hef) as (fin & Hsh). rewrite Hsh in *.
  set (EV := ev_node old [] tree) in *. set (E := fst (dd [] EV)) in *.
  destruct (Nat.lt_ge_cases j (length E)) as [Hlt|Hge].
  - rewrite nth_error_app1 in Hn by assumption.
    destruct (dd_split EV [] j lv id Hn) as (pre & post & Heq & Hpre).
    pose proof (skf_step tree old [] pre lv id post Heq) as Hstep.
    intros x Hx. apply Hstep in Hx. apply in_app_or in Hx. apply in_or_app.
    destruct Hx as [Hx|Hx]; [left; auto|right].
    apply Hpre in Hx. cbn [dqall flat_map] in Hx. rewrite app_nil_r in Hx. fold E in Hx.
    apply in_procs. apply in_procs in Hx.
    apply (firstn_incl_le _ j k); [lia|]. rewrite firstn_app.
    replace (j - length E)%nat with 0%nat by lia. cbn [firstn]. rewrite app_nil_r. exact Hx.
  - intros x Hx. apply skf_incl_full in Hx. apply (full_covered tree old []) in Hx.
    apply in_app_or in Hx. apply in_or_app. destruct Hx as [Hx|Hx]; [left; auto|right].
    apply (dd_covers EV []) in Hx. cbn [dqall flat_map] in Hx. rewrite app_nil_r in Hx. fold E in Hx.
    apply in_procs. apply in_procs in Hx. rewrite firstn_app.
    rewrite firstn_all2 by lia. apply in_or_app. left. exact Hx.
Qed.

Lemma resume_final tree flv old acc :
  err_free tree -> incl (skf old [] tree) acc ->
  incl (procs (run_walk None tree flv)) (acc ++ procs (run_walk old tree flv)).
Proof.
  intros Hef Hacc.
  destruct (run_walk_shape tree None flv Hef) as (fin0 & Hsh0).
  destruct (run_walk_shape tree old flv Hef) as (fin & Hsh). rewrite Hsh0, Hsh.
  intros x Hx. apply in_procs in Hx. apply in_app_or in Hx. destruct Hx as [Hx|[Hx|[]]]; [|discriminate].
  apply in_procs in Hx. apply dd_procs_incl in Hx. apply vtiles_ev_incl_full in Hx.
  apply (full_covered tree old []) in Hx. apply in_app_or in Hx. apply in_or_app.
  destruct Hx as [Hx|Hx]; [left; auto|right].
  apply (dd_covers _ []) in Hx. cbn [dqall flat_map] in Hx. rewrite app_nil_r in Hx.
  apply in_procs. apply in_or_app. left. apply in_procs. exact Hx.
Qed.

Lemma history_inv tree flv old acc :
  err_free tree -> history tree flv old acc -> incl (skf old [] tree) acc.
Proof.
  intros Hef H. induction H as [|old acc k j lv id H IH Hn Hjk|old acc k H IH].
  - rewrite skf_none. intros x [].
  - eapply resume_step; eauto.
  - apply incl_appl. exact IH.
Qed.

(* interrupted at any event index, continued from any report persisted before: nothing is lost *)
Lemma resume_covers_lemma tree flv k j lv id :
  err_free tree ->
  nth_error (run_walk None tree flv) j = Some (ERep lv id) -> (j < k)%nat ->
  incl (procs (run_walk None tree flv))
       (procs (firstn k (run_walk None tree flv)) ++ procs (run_walk id tree flv)).
Proof.
  intros Hef Hn Hjk. apply resume_final; [assumption|].
  change (procs (firstn k (run_walk None tree flv))) with ([] ++ procs (firstn k (run_walk None tree flv))).
  eapply resume_step; eauto. rewrite skf_none. intros x [].
Qed.

Lemma resume_covers_history_lemma tree flv old acc :
  err_free tree -> history tree flv old acc ->
  incl (procs (run_walk None tree flv)) (acc ++ procs (run_walk old tree flv)).
Proof. intros Hef H. apply resume_final; [assumption|]. eapply history_inv; eauto. Qed.

(* the continued run hands over nothing that the uninterrupted run would not *)
Lemma resume_nothing_else tree flv old :
  err_free tree -> incl (procs (run_walk old tree flv)) (full tree).
Proof.
  intros Hef. destruct (run_walk_shape tree old flv Hef) as (fin & Hsh). rewrite Hsh.
  intros x Hx. apply in_procs in Hx. apply in_app_or in Hx. destruct Hx as [Hx|[Hx|[]]]; [|discriminate].
  apply in_procs in Hx. apply dd_procs_incl in Hx. eapply vtiles_ev_incl_full; eauto.
Qed.

Lemma uninterrupted_is_full tree flv :
  err_free tree -> forall t, In t (procs (run_walk None tree flv)) <-> In t (full tree).
Proof.
  intros Hef t. split; [apply resume_nothing_else; assumption|].
  intros Hx. destruct (run_walk_shape tree None flv Hef) as (fin & Hsh). rewrite Hsh.
  apply (full_covered tree None []) in Hx. rewrite skf_none in Hx. cbn [app] in Hx.
  apply (dd_covers _ []) in Hx. cbn [dqall flat_map] in Hx. rewrite app_nil_r in Hx.
  apply in_procs. apply in_or_app. left. apply in_procs. exact Hx.
Qed.

(* ------------------------------------------------------------------ non-vacuity *)

(* a 3-level factor-2 pyramid (4 px tiles), bbox coverage over the lower left part, all levels seeded *)
Definition ex_grid : grid := mkGrid 0 0 10240 10240 4 4 [2560; 1280; 640] false 23 20 4 1.
Definition ex_cov : bbox := (100, 100, 6000, 6000).
Definition ex_tree : wnode := geo_tree ex_grid 1 1 (cov_bboxes [ex_cov]) 0 2 4 ex_cov [0; 1; 2] 0 false.

Example ex_tree_err_free : err_free ex_tree.
Proof. vm_compute. tauto. Qed.

(* the uninterrupted run has 21 events; event 9 is the report of the third level-1 subtree *)
Example ex_report : nth_error (run_walk None ex_tree 0) 9 = Some (ERep 2 (Some [(0, 1); (2, 4)])).
Proof. vm_compute. reflexivity. Qed.

(* the run continued from there really skips the two finished subtrees (11 instead of 14 process calls) *)
Example ex_resumed_is_shorter :
  length (procs (run_walk (Some [(0, 1); (2, 4)]) ex_tree 0)) = 11%nat /\
  length (procs (run_walk None ex_tree 0)) = 14%nat.
Proof. vm_compute. split; reflexivity. Qed.

(* a history with two interruptions *)
Example ex_history :
  history ex_tree 0 (Some [(0, 1); (3, 4)])
          (([] ++ procs (firstn 12 (run_walk None ex_tree 0)))
              ++ procs (firstn 11 (run_walk (Some [(0, 1); (2, 4)]) ex_tree 0))).
Proof.
  eapply (hist_crash_resume ex_tree 0 (Some [(0, 1); (2, 4)]) _ 11 10 2).
  - eapply (hist_crash_resume ex_tree 0 None [] 12 9 2); [apply hist_start|vm_compute; reflexivity|lia].
  - vm_compute. reflexivity.
  - lia.
Qed.

(* strict order: concrete instances *)
Example ex_can_skip :
  can_skip (Some [(0, 4); (0, 4); (2, 4)]) (Some [(0, 4); (0, 4); (1, 4)]) = true /\
  can_skip (Some [(0, 4); (0, 4); (2, 4)]) (Some [(0, 4); (0, 4)]) = false /\
  can_skip (Some [(0, 4); (0, 4); (2, 4)]) (Some [(0, 4); (0, 4); (2, 4); (1, 4)]) = false.
Proof. vm_compute. auto. Qed.

(* the former witness of finding C11-sliver: a coverage 0.03 px wide at level 1 that straddles a tile edge of level 1;
   before the repair of MetaGrid.get_affected_level_tiles the walk raised GridError at level 1, now it completes *)
Definition ex_sliver_cov : bbox := (5100, 100, 5140, 6000).
Definition ex_sliver_tree : wnode :=
  geo_tree ex_grid 1 1 (cov_bboxes [ex_sliver_cov]) 0 2 4 ex_sliver_cov [0; 1; 2] 0 false.
Example ex_sliver_completes :
  run_walk None ex_sliver_tree 0 =
  [ERep 0 None; ERep 1 (Some [(0, 1)]); ERep 2 (Some [(0, 1); (0, 2)]);
   EProc (2, 2, 2); EProc (1, 1, 1); ERep 2 (Some [(0, 1); (1, 2)]);
   EProc (2, 1, 2); EProc (2, 0, 2); EProc (1, 0, 1); EProc (0, 0, 0); ERep 0 (Some [])].
Proof. vm_compute. reflexivity. Qed.

Lemma resumed_nothing_else_lemma tree final_lv old t :
  err_free tree ->
  In t (procs (run_walk old tree final_lv)) -> In t (procs (run_walk None tree final_lv)).
Proof.
  intros Hef H. apply (uninterrupted_is_full tree final_lv Hef).
  exact (resume_nothing_else tree final_lv old Hef t H).
Qed.

Lemma can_skip_is_strictly_before_lemma old cur :
  old <> [] ->
  (can_skip (Some old) (Some cur) = true <->
   exists c x y cs os, cur = c ++ x :: cs /\ old = c ++ y :: os /\ pair_ltb x y = true).
Proof. intros H. rewrite can_skip_some by assumption. apply can_skip_loop_spec. Qed.

(* ------------------------------------------------------------------ nothing else: the geometric walk *)

Definition sub_tiles (rn : wnode -> list coord) (s : sub wnode) : list coord :=
  match s with
  | SNone => []
  | SLeaf t => [t]
  | SRec t c => t :: rn c
  end.

(* every subtile that passed _filter_subtiles anywhere in the tree (seeded level or not) *)
Fixpoint tree_tiles (n : wnode) : list coord :=
  match n with
  | WErr => []
  | WNode _ _ _ _ subs => flat_map (sub_tiles tree_tiles) subs
  end.

Lemma full_incl_tree_tiles n : incl (full n) (tree_tiles n).
Proof.
  induction n as [|lv proc rep total subs IH] using wnode_ind2; [intros x []|].
  cbn [full tree_tiles]. generalize 0. induction subs as [|s r IHr]; intros i; cbn [isubs flat_map]; [intros x []|].
  specialize (IHr (fun t c H => IH t c (or_intror H)) (i + 1)).
  apply incl_app; [apply incl_appl|apply incl_appr; exact IHr].
  destruct s as [|t|t c]; cbn [full_sub sub_tiles].
  - intros x [].
  - destruct proc; [apply incl_refl|intros x []].
  - pose proof (IH t c (or_introl eq_refl)) as Hc. intros x Hx. apply in_app_or in Hx.
    destruct Hx as [Hx|Hx]; [right; auto|]. destruct proc; [|destruct Hx]. destruct Hx as [<-|[]]. left. reflexivity.
Qed.

Definition bbox_inside (a b : bbox) : Prop :=
  let '(a0, a1, a2, a3) := a in
  let '(b0, b1, b2, b3) := b in
  b0 <= a0 /\ b1 <= a1 /\ a2 <= b2 /\ a3 <= b3.

Lemma limit_inside_sub cur sb : bbox_inside (limit_sub_bbox cur sb) sb.
Proof. destruct cur as [[[c0 c1] c2] c3], sb as [[[s0 s1] s2] s3]. cbn. lia. Qed.

Lemma limit_inside_trans cur sb b : bbox_inside cur b -> bbox_inside (limit_sub_bbox cur sb) b.
Proof. destruct cur as [[[c0 c1] c2] c3], sb as [[[s0 s1] s2] s3], b as [[[b0 b1] b2] b3]. cbn. lia. Qed.

Definition affected_tiles (g : grid) (msx msy : Z) (cur : bbox) (l : Z) : list (option coord) :=
  match meta_affected g msx msy cur l with
  | MAff _ _ tiles => tiles
  | MInvalid => []
  end.

Section GeoSound.
  Variable g : grid.
  Variables msx msy : Z.
  Variable cov : bbox -> Z.
  Variable rtl : Z.

  (* the coverage predicate is monotone with respect to tile selection: below a rectangle that the coverage
     CONTAINS, every meta tile that get_affected_level_tiles selects for a sub-rectangle is not NONE *)
  Definition cov_monotone : Prop :=
    forall b cur l t, cov b = -1 -> bbox_inside cur b ->
                      In (Some t) (affected_tiles g msx msy cur l) -> cov (meta_bbox g msx msy t) <> 0.

  Hypothesis Hmono : cov_monotone.

  Lemma geo_tree_sound fuel : forall cur levels l all,
      (all = true -> exists b, cov b = -1 /\ bbox_inside cur b) ->
      forall t, In t (tree_tiles (geo_tree g msx msy cov 0 rtl fuel cur levels l all)) ->
                cov (meta_bbox g msx msy t) <> 0.
  Proof.
    induction fuel as [|f IH]; intros cur levels l all Hall t Hin; cbn [geo_tree] in Hin; [destruct Hin|].
    destruct (negb (valid_level g l)); [destruct Hin|].
    assert (Haff : forall t', In (Some t') (match meta_affected g msx msy cur l with MAff _ _ ts => ts | MInvalid => [] end) ->
                              all = true -> cov (meta_bbox g msx msy t') <> 0).
    { intros t' Ht' Ha. destruct (Hall Ha) as (b & Hb & Hins). eapply Hmono; eauto. }
    destruct (meta_affected g msx msy cur l) as [nx ny tiles|]; [|destruct Hin].
    replace (Z.of_nat (length levels) <? 0) with false in Hin by (symmetry; apply Z.ltb_ge; lia).
    cbn [tree_tiles] in Hin. apply in_flat_map in Hin. destruct Hin as (s & Hs & Ht).
    apply in_map_iff in Hs. destruct Hs as (ot & <- & Hot).
    destruct ot as [t0|]; cbn [geo_sub] in Ht; [|destruct Ht].
    set (sb := meta_bbox g msx msy t0) in *.
    destruct ((if all then -1 else cov sb) =? 0) eqn:E0; [destruct Ht|].
    apply Z.eqb_neq in E0.
    assert (Ht0 : cov sb <> 0).
    { destruct all; [apply (Haff t0 Hot eq_refl)|exact E0]. }
    destruct (if mem_z l levels then tl levels else levels) as [|l1 lr] eqn:El; cbn [sub_tiles] in Ht.
    - destruct Ht as [<-|[]]. exact Ht0.
    - destruct Ht as [<-|Ht]; [exact Ht0|].
      eapply IH; [|exact Ht]. intros Hc. apply Z.eqb_eq in Hc.
      destruct all.
      + destruct (Hall eq_refl) as (b & Hb & Hins). exists b. split; [assumption|]. apply limit_inside_trans. assumption.
      + exists sb. split; [assumption|]. apply limit_inside_sub.
  Qed.
End GeoSound.

(* processed tiles of a geometric walk (skip_geoms_for_last_levels = 0) that runs to completion are not NONE *)
Lemma walk_sound_lemma g msx msy cov levels root old t :
  cov_monotone g msx msy cov ->
  err_free (geo_tree g msx msy cov 0 (report_till levels) (S (length (ress g))) root levels 0 false) ->
  In t (procs (geo_walk g msx msy cov 0 levels root old)) ->
  cov (meta_bbox g msx msy t) <> 0.
Proof.
  intros Hm Hef Hin. unfold geo_walk in Hin.
  apply (resume_nothing_else _ _ _ Hef) in Hin. apply full_incl_tree_tiles in Hin.
  eapply geo_tree_sound; [exact Hm| |exact Hin]. discriminate.
Qed.

(* non-vacuity of walk_sound: the coverage that contains everything (seeding the complete grid) *)
Definition cov_everything : bbox -> Z := fun _ => -1.
Example ex_cov_everything_monotone : cov_monotone ex_grid 2 2 cov_everything.
Proof. intros b cur l t _ _ _. discriminate. Qed.
Example ex_everything_err_free :
  err_free (geo_tree ex_grid 2 2 cov_everything 0 (report_till [1; 2]) (S (length (ress ex_grid)))
                     (0, 0, 10240, 10240) [1; 2] 0 false).
Proof. vm_compute. tauto. Qed.
Example ex_everything_processed :
  procs (geo_walk ex_grid 2 2 cov_everything 0 [1; 2] (0, 0, 10240, 10240) None) =
  [(0, 2, 2); (2, 2, 2); (0, 0, 2); (2, 0, 2); (0, 0, 1)].
Proof. vm_compute. reflexivity. Qed.

(* ------------------------------------------------------------------ the geometric walk never raises *)

Definition geo_wf (g : grid) (msx msy : Z) : Prop :=
  0 < tw g /\ 0 < th g /\ (forall r, In r (ress g) -> 0 < r) /\ 0 < msx /\ 0 < msy.

(* what LevelsList.for_grid guarantees: strictly increasing valid levels *)
Definition levels_wf (g : grid) (levels : list Z) : Prop :=
  StronglySorted Z.lt levels /\ forall x, In x levels -> valid_level g x = true.

Lemma up_range_nonempty a b s : a <= b -> 0 < s -> exists h t, up_range a b s = h :: t.
Proof.
  intros Hab Hs. unfold up_range.
  assert (0 <= (b - a) / s) by (apply Z.div_pos; lia).
  destruct (Z.to_nat ((b - a) / s + 1)) as [|n] eqn:E; [lia|]. cbn [seq map]. eauto.
Qed.

Lemma down_range_nonempty a b s : b <= a -> 0 < s -> exists h t, down_range a b s = h :: t.
Proof.
  intros Hab Hs. unfold down_range.
  assert (0 <= (a - b) / s) by (apply Z.div_pos; lia).
  destruct (Z.to_nat ((a - b) / s + 1)) as [|n] eqn:E; [lia|]. cbn [seq map]. eauto.
Qed.

Lemma align_mono a b s : 0 < s -> a <= b -> a / s * s <= b / s * s.
Proof. intros Hs Hab. apply Z.mul_le_mono_nonneg_r; [lia|]. apply Z.div_le_mono; lia. Qed.

Lemma geo_res_pos g msx msy l : geo_wf g msx msy -> valid_level g l = true -> 0 < res_at g l.
Proof.
  intros (_ & _ & Hp & _) Hv. unfold valid_level, levels in Hv. unfold res_at. apply Hp. apply nth_In.
  apply andb_true_iff in Hv. destruct Hv as [H1 H2]. apply Z.leb_le in H1. apply Z.ltb_lt in H2. lia.
Qed.

(* after the repair get_affected_level_tiles never produces an empty tile range *)
Lemma meta_affected_valid g msx msy b l :
  geo_wf g msx msy -> valid_level g l = true ->
  exists nx ny tiles, meta_affected g msx msy b l = MAff nx ny tiles.
Proof.
  intros Hwf Hv. pose proof (geo_res_pos g msx msy l Hwf Hv) as Hr.
  destruct Hwf as (Htw & Hth & _ & Hmx & Hmy).
  destruct b as [[[bx0 by0] bx1] by1]. unfold meta_affected, tile2, meta_size, grid_size.
  set (r := res_at g l) in *. set (delta := r / 10).
  set (minx2 := if bx1 - delta <? bx0 + delta then bx0 + bx1 else 2 * (bx0 + delta)).
  set (maxx2 := if bx1 - delta <? bx0 + delta then bx0 + bx1 else 2 * (bx1 - delta)).
  set (miny2 := if by1 - delta <? by0 + delta then by0 + by1 else 2 * (by0 + delta)).
  set (maxy2 := if by1 - delta <? by0 + delta then by0 + by1 else 2 * (by1 - delta)).
  assert (Hx : minx2 <= maxx2) by (subst minx2 maxx2; destruct (bx1 - delta <? bx0 + delta) eqn:E; [lia|apply Z.ltb_ge in E; lia]).
  assert (Hy : miny2 <= maxy2) by (subst miny2 maxy2; destruct (by1 - delta <? by0 + delta) eqn:E; [lia|apply Z.ltb_ge in E; lia]).
  set (sx := Z.min msx (axis_tiles (gx1 g - gx0 g) r (tw g))).
  set (sy := Z.min msy (axis_tiles (gy1 g - gy0 g) r (th g))).
  assert (Hsx : 0 < sx) by (subst sx; unfold axis_tiles; lia).
  assert (Hsy : 0 < sy) by (subst sy; unfold axis_tiles; lia).
  assert (Dx : 0 < 2 * (r * tw g)) by nia. assert (Dy : 0 < 2 * (r * th g)) by nia.
  assert (Htx : (minx2 - 2 * gx0 g) / (2 * (r * tw g)) <= (maxx2 - 2 * gx0 g) / (2 * (r * tw g)))
    by (apply Z.div_le_mono; lia).
  destruct (up_range_nonempty _ _ sx (align_mono _ _ sx Hsx Htx) Hsx) as (hx & tx & Ex). rewrite Ex.
  destruct (ul g).
  - assert (Hty : (2 * gy1 g - maxy2) / (2 * (r * th g)) <= (2 * gy1 g - miny2) / (2 * (r * th g)))
      by (apply Z.div_le_mono; lia).
    destruct (up_range_nonempty _ _ sy (align_mono _ _ sy Hsy Hty) Hsy) as (hy & ty & Ey). rewrite Ey. eauto.
  - assert (Hty : (miny2 - 2 * gy0 g) / (2 * (r * th g)) <= (maxy2 - 2 * gy0 g) / (2 * (r * th g)))
      by (apply Z.div_le_mono; lia).
    destruct (down_range_nonempty _ _ sy (align_mono _ _ sy Hsy Hty) Hsy) as (hy & ty & Ey). rewrite Ey. eauto.
Qed.

Lemma err_free_intro lv proc rep total subs :
  (forall t c, In (SRec t c) subs -> err_free c) -> err_free (WNode lv proc rep total subs).
Proof.
  cbn [err_free]. induction subs as [|s r IH]; intros H; [exact I|].
  destruct s as [|t|t c].
  - apply IH. intros t c Hin. apply (H t c). right. exact Hin.
  - apply IH. intros t' c Hin. apply (H t' c). right. exact Hin.
  - split; [apply (H t c); left; reflexivity|]. apply IH. intros t' c' Hin. apply (H t' c'). right. exact Hin.
Qed.

Lemma mem_z_in x l : mem_z x l = true <-> In x l.
Proof.
  unfold mem_z. rewrite existsb_exists. split.
  - intros (y & Hy & E). apply Z.eqb_eq in E. subst. exact Hy.
  - intros H. exists x. split; [exact H|apply Z.eqb_refl].
Qed.

Lemma levels_step l levels :
  StronglySorted Z.lt levels -> (forall x, In x levels -> l <= x) ->
  let levels' := if mem_z l levels then tl levels else levels in
  StronglySorted Z.lt levels' /\ (forall x, In x levels' -> l + 1 <= x) /\ (forall x, In x levels' -> In x levels).
Proof.
  intros Hs Hlb. destruct (mem_z l levels) eqn:E; cbv zeta.
  - apply mem_z_in in E. destruct levels as [|h t]; [destruct E|]. cbn [tl].
    inversion Hs as [|? ? Hst Hall]; subst. rewrite Forall_forall in Hall.
    assert (h = l).
    { destruct E as [E|E]; [exact E|]. pose proof (Hall _ E). pose proof (Hlb h (or_introl eq_refl)). lia. }
    subst h. split; [exact Hst|]. split; [|intros x Hx; right; exact Hx].
    intros x Hx. pose proof (Hall _ Hx). lia.
  - split; [exact Hs|]. split; [|auto]. intros x Hx. pose proof (Hlb x Hx).
    assert (x <> l); [|lia]. intros ->. apply mem_z_in in Hx. congruence.
Qed.

Lemma geo_tree_err_free g msx msy cov skipk rtl :
  geo_wf g msx msy ->
  forall fuel cur lvls l all,
    valid_level g l = true -> (Z.to_nat (Grid.levels g - l) <= fuel)%nat ->
    StronglySorted Z.lt lvls -> (forall x, In x lvls -> l <= x) ->
    (forall x, In x lvls -> valid_level g x = true) ->
    err_free (geo_tree g msx msy cov skipk rtl fuel cur lvls l all).
Proof.
  intros Hwf. induction fuel as [|f IH]; intros cur lvls l all Hv Hfuel Hs Hlb Hval.
  - exfalso. unfold valid_level in Hv. apply andb_true_iff in Hv. destruct Hv as [H1 H2].
    apply Z.leb_le in H1. apply Z.ltb_lt in H2. lia.
  - cbn [geo_tree]. rewrite Hv. cbn [negb].
    destruct (meta_affected_valid g msx msy cur l Hwf Hv) as (nx & ny & tiles & ->).
    destruct (levels_step l lvls Hs Hlb) as (Hs' & Hlb' & Hsub).
    set (lvls' := if mem_z l lvls then tl lvls else lvls) in *.
    apply err_free_intro. intros t c Hin. apply in_map_iff in Hin. destruct Hin as (ot & Hot & _).
    destruct ot as [t0|]; cbn [geo_sub] in Hot; [|discriminate].
    match type of Hot with (if ?b then _ else _) = _ => destruct b end; [discriminate|].
    destruct lvls' as [|l1 lr] eqn:El; [discriminate|]. injection Hot as _ <-.
    assert (Hv1 : valid_level g (l + 1) = true).
    { pose proof (Hlb' l1 (or_introl eq_refl)). pose proof (Hval l1 (Hsub l1 (or_introl eq_refl))) as Hv1.
      unfold valid_level in *. apply andb_true_iff in Hv. apply andb_true_iff in Hv1.
      apply andb_true_iff. rewrite Z.leb_le, Z.ltb_lt in *. lia. }
    apply IH; auto.
    unfold valid_level in Hv. apply andb_true_iff in Hv. rewrite Z.leb_le, Z.ltb_lt in Hv. lia.
Qed.

(* every seed task on a well-formed grid with sorted valid levels runs to completion: no _walk call raises *)
Lemma geo_walk_err_free g msx msy cov skipk levels root :
  geo_wf g msx msy -> levels_wf g levels -> levels <> [] ->
  err_free (geo_tree g msx msy cov skipk (report_till levels) (S (length (ress g))) root levels 0 false).
Proof.
  intros Hwf [Hs Hval] Hne. apply geo_tree_err_free; auto.
  - destruct levels as [|h t]; [congruence|]. pose proof (Hval h (or_introl eq_refl)) as Hv.
    unfold valid_level in *. apply andb_true_iff in Hv. rewrite Z.leb_le, Z.ltb_lt in Hv.
    apply andb_true_iff. rewrite Z.leb_le, Z.ltb_lt. lia.
  - unfold Grid.levels. lia.
  - intros x Hx. pose proof (Hval x Hx) as Hv. unfold valid_level in Hv. apply andb_true_iff in Hv.
    rewrite Z.leb_le in Hv. lia.
Qed.

Lemma walk_completes_lemma g msx msy cov skipk levels root old :
  geo_wf g msx msy -> levels_wf g levels -> levels <> [] ->
  ~ In EErr (geo_walk g msx msy cov skipk levels root old).
Proof.
  intros Hwf Hl Hne. unfold geo_walk.
  destruct (run_walk_shape _ old (hd 0 levels) (geo_walk_err_free g msx msy cov skipk levels root Hwf Hl Hne)) as (fin & ->).
  intros H. apply in_app_or in H. destruct H as [H|[H|[]]]; [|discriminate]. exact (dd_no_err _ _ H).
Qed.

(* the resume and soundness theorems for seed tasks on a grid, without an assumption that nothing raises *)
Lemma resume_covers_geo_lemma g msx msy cov skipk levels root k j lv id :
  geo_wf g msx msy -> levels_wf g levels -> levels <> [] ->
  nth_error (geo_walk g msx msy cov skipk levels root None) j = Some (ERep lv id) -> (j < k)%nat ->
  incl (procs (geo_walk g msx msy cov skipk levels root None))
       (procs (firstn k (geo_walk g msx msy cov skipk levels root None)) ++
        procs (geo_walk g msx msy cov skipk levels root id)).
Proof.
  intros Hwf Hl Hne. unfold geo_walk. apply resume_covers_lemma.
  apply geo_walk_err_free; assumption.
Qed.

Lemma walk_sound_geo_lemma g msx msy cov levels root old t :
  geo_wf g msx msy -> levels_wf g levels -> levels <> [] ->
  cov_monotone g msx msy cov ->
  In t (procs (geo_walk g msx msy cov 0 levels root old)) ->
  cov (meta_bbox g msx msy t) <> 0.
Proof.
  intros Hwf Hl Hne Hm. apply walk_sound_lemma; [assumption|]. apply geo_walk_err_free; assumption.
Qed.

Example ex_geo_wf : geo_wf ex_grid 1 1 /\ levels_wf ex_grid [0; 1; 2].
Proof.
  split.
  - unfold geo_wf. cbn [tw th ress ex_grid]. repeat split; try lia. intros r [<-|[<-|[<-|[]]]]; lia.
  - split.
    + repeat constructor; lia.
    + intros x [<-|[<-|[<-|[]]]]; reflexivity.
Qed.

(* ------------------------------------------------------------------ everything selected: chains of selected meta tiles *)

(* a chain of meta tiles, one per level from l downwards: each is among the tiles get_affected_level_tiles lists for the
   rectangle left by its predecessor (cur, then limit_sub_bbox cur (meta tile bbox)), and none is NONE for the coverage *)
Fixpoint chain_ok (g : grid) (msx msy : Z) (cov : bbox -> Z) (cur : bbox) (l : Z) (ch : list coord) : Prop :=
  match ch with
  | [] => True
  | c :: rest =>
    In (Some c) (affected_tiles g msx msy cur l) /\ cov (meta_bbox g msx msy c) <> 0 /\
    chain_ok g msx msy cov (limit_sub_bbox cur (meta_bbox g msx msy c)) (l + 1) rest
  end.

Lemma isubs_in {B} (f : sub wnode -> list B) subs s : In s subs -> forall i, incl (f s) (isubs (fun _ x => f x) subs i).
Proof.
  induction subs as [|x r IH]; intros Hin i; [destruct Hin|]. cbn [isubs].
  destruct Hin as [->|Hin]; [apply incl_appl, incl_refl|apply incl_appr, IH; assumption].
Qed.

Lemma levels_keep l lvls x :
  StronglySorted Z.lt lvls -> (forall y, In y lvls -> l <= y) -> In x lvls -> x <> l ->
  In x (if mem_z l lvls then tl lvls else lvls).
Proof.
  intros Hs Hlb Hx Hne. destruct (mem_z l lvls) eqn:E; [|exact Hx].
  apply mem_z_in in E. destruct lvls as [|h t]; [destruct E|]. cbn [tl].
  inversion Hs as [|? ? Hst Hall]; subst. rewrite Forall_forall in Hall.
  assert (h = l).
  { destruct E as [E|E]; [exact E|]. pose proof (Hall _ E). pose proof (Hlb h (or_introl eq_refl)). lia. }
  subst h. destruct Hx as [Hx|Hx]; [congruence|exact Hx].
Qed.

Lemma geo_tree_complete g msx msy cov skipk rtl :
  forall fuel cur lvls l all ch,
    0 <= l -> (Z.to_nat (Grid.levels g - l) <= fuel)%nat ->
    StronglySorted Z.lt lvls -> (forall x, In x lvls -> l <= x) ->
    (forall x, In x lvls -> valid_level g x = true) ->
    ch <> [] -> chain_ok g msx msy cov cur l ch ->
    In (l + Z.of_nat (length ch) - 1) lvls ->
    In (last ch (0, 0, 0)) (full (geo_tree g msx msy cov skipk rtl fuel cur lvls l all)).
Proof.
  induction fuel as [|f IH]; intros cur lvls l all ch Hl0 Hfuel Hs Hlb Hval Hne Hch HL.
  - exfalso. pose proof (Hval _ HL) as Hv. unfold valid_level in Hv. apply andb_true_iff in Hv.
    rewrite Z.leb_le, Z.ltb_lt in Hv. destruct ch; [congruence|]. cbn [length] in Hv. lia.
  - destruct ch as [|c rest]; [congruence|]. destruct Hch as (Hsel & Hcov & Hrest).
    assert (Hv : valid_level g l = true).
    { pose proof (Hval _ HL) as Hv. unfold valid_level in *. apply andb_true_iff in Hv.
      rewrite Z.leb_le, Z.ltb_lt in Hv. apply andb_true_iff. rewrite Z.leb_le, Z.ltb_lt. cbn [length] in Hv. lia. }
    cbn [geo_tree]. rewrite Hv. cbn [negb]. unfold affected_tiles in Hsel.
    destruct (meta_affected g msx msy cur l) as [nx ny tiles|]; [|destruct Hsel].
    destruct (levels_step l lvls Hs Hlb) as (Hs' & Hlb' & Hsub).
    pose proof (fun x => levels_keep l lvls x Hs Hlb) as Hkeep.
    set (lvls' := if mem_z l lvls then tl lvls else lvls) in *.
    set (all1 := if Z.of_nat (length lvls) <? skipk then true else all).
    cbn [full].
    set (s := geo_sub g msx msy cov (fun b a => geo_tree g msx msy cov skipk rtl f b lvls' (l + 1) a) cur lvls' all1 (Some c)).
    assert (Hins : In s (map (geo_sub g msx msy cov (fun b a => geo_tree g msx msy cov skipk rtl f b lvls' (l + 1) a) cur lvls' all1) tiles))
      by (apply in_map; exact Hsel).
    apply (isubs_in (full_sub full (mem_z l lvls)) _ s Hins 0).
    subst s. cbn [geo_sub].
    assert (E0 : ((if all1 then -1 else cov (meta_bbox g msx msy c)) =? 0) = false)
      by (apply Z.eqb_neq; destruct all1; [lia|exact Hcov]).
    rewrite E0.
    destruct rest as [|c2 rest2].
    + (* the chain ends at this level *)
      cbn [length last] in *. replace (l + Z.of_nat 1 - 1) with l in HL by lia.
      apply mem_z_in in HL. rewrite HL.
      destruct lvls' as [|l1 lr]; cbn [full_sub]; [left; reflexivity|apply in_or_app; right; left; reflexivity].
    + (* the chain continues *)
      assert (HL' : In (l + Z.of_nat (length (c :: c2 :: rest2)) - 1) lvls') by (apply Hkeep; [exact HL|cbn [length]; lia]).
      destruct lvls' as [|l1 lr] eqn:El; [destruct HL'|]. cbn [full_sub]. apply in_or_app. left.
      change (last (c :: c2 :: rest2) (0, 0, 0)) with (last (c2 :: rest2) (0, 0, 0)).
      apply IH; auto; try discriminate; try lia.
      cbn [length] in *. replace (l + 1 + Z.of_nat (S (length rest2)) - 1) with (l + Z.of_nat (S (S (length rest2))) - 1) by lia.
      exact HL'.
Qed.

(* every chain of selected, not-NONE meta tiles from level 0 to a seeded level ends in a tile that is handed over *)
Lemma walk_complete_chain_lemma g msx msy cov skipk levels root ch :
  geo_wf g msx msy -> levels_wf g levels ->
  ch <> [] -> chain_ok g msx msy cov root 0 ch ->
  In (Z.of_nat (length ch) - 1) levels ->
  In (last ch (0, 0, 0)) (procs (geo_walk g msx msy cov skipk levels root None)).
Proof.
  intros Hwf [Hs Hval] Hne Hch HL. unfold geo_walk.
  assert (Hnl : levels <> []) by (intros ->; destruct HL).
  apply (uninterrupted_is_full _ _ (geo_walk_err_free g msx msy cov skipk levels root Hwf (conj Hs Hval) Hnl)).
  apply geo_tree_complete; auto; try lia.
  - unfold Grid.levels. lia.
  - intros x Hx. pose proof (Hval x Hx) as Hv. unfold valid_level in Hv. apply andb_true_iff in Hv.
    rewrite Z.leb_le in Hv. lia.
Qed.

(* ------------------------------------------------------------------ everything selected: interior points *)

(* the meta tile (its main tile coordinate) that owns the point (px, py) at level l *)
Definition point_meta (g : grid) (msx msy px py l : Z) : coord :=
  let '(tx, ty) := tile g px py l in
  let '(sx, sy) := meta_size g msx msy l in
  (tx / sx * sx, ty / sy * sy, l).

(* the tile of the point is a tile of the grid *)
Definition point_in_grid (g : grid) (px py l : Z) : Prop :=
  let '(tx, ty) := tile g px py l in
  let '(nx, ny) := grid_size g l in 0 <= tx < nx /\ 0 <= ty < ny.

(* (px, py) lies at least d inside the rectangle *)
Definition inset (b : bbox) (d px py : Z) : Prop :=
  let '(b0, b1, b2, b3) := b in b0 + d <= px <= b2 - d /\ b1 + d <= py <= b3 - d.

Lemma in_up_range q0 q q1 s : 0 < s -> q0 <= q <= q1 -> In (q * s) (up_range (q0 * s) (q1 * s) s).
Proof.
  intros Hs Hq. unfold up_range. apply in_map_iff. exists (Z.to_nat (q - q0)). split; [rewrite Z2Nat.id by lia; lia|].
  apply in_seq. replace (q1 * s - q0 * s) with ((q1 - q0) * s) by lia. rewrite Z.div_mul by lia. lia.
Qed.

Lemma in_down_range q0 q q1 s : 0 < s -> q0 <= q <= q1 -> In (q * s) (down_range (q1 * s) (q0 * s) s).
Proof.
  intros Hs Hq. unfold down_range. apply in_map_iff. exists (Z.to_nat (q1 - q)). split; [rewrite Z2Nat.id by lia; lia|].
  apply in_seq. replace (q1 * s - q0 * s) with ((q1 - q0) * s) by lia. rewrite Z.div_mul by lia. lia.
Qed.

Lemma div2_cancel a b : 0 < b -> (2 * a) / (2 * b) = a / b.
Proof. intros Hb. apply Z.div_mul_cancel_l; lia. Qed.

(* a point at least 1/10 pixel inside the rectangle: its meta tile is among the listed tiles *)
Lemma point_selected g msx msy cur px py l :
  geo_wf g msx msy -> valid_level g l = true ->
  inset cur (res_at g l / 10) px py -> point_in_grid g px py l ->
  In (Some (point_meta g msx msy px py l)) (affected_tiles g msx msy cur l).
Proof.
  intros Hwf Hv Hin Hgrid. pose proof (geo_res_pos g msx msy l Hwf Hv) as Hr.
  destruct Hwf as (Htw & Hth & _ & Hmx & Hmy).
  destruct cur as [[[bx0 by0] bx1] by1]. cbn [inset] in Hin. destruct Hin as [Hix Hiy].
  unfold affected_tiles, meta_affected, point_meta, point_in_grid, tile2, tile, meta_size, grid_size in *.
  set (r := res_at g l) in *. set (delta := r / 10) in *.
  replace (bx1 - delta <? bx0 + delta) with false by (symmetry; apply Z.ltb_ge; lia).
  replace (by1 - delta <? by0 + delta) with false by (symmetry; apply Z.ltb_ge; lia).
  set (nx := axis_tiles (gx1 g - gx0 g) r (tw g)) in *. set (ny := axis_tiles (gy1 g - gy0 g) r (th g)) in *.
  set (sx := Z.min msx nx). set (sy := Z.min msy ny).
  assert (Hsx : 0 < sx) by (subst sx nx; unfold axis_tiles; lia).
  assert (Hsy : 0 < sy) by (subst sy ny; unfold axis_tiles; lia).
  assert (Dx : 0 < r * tw g) by nia. assert (Dy : 0 < r * th g) by nia.
  replace (2 * (bx0 + delta) - 2 * gx0 g) with (2 * (bx0 + delta - gx0 g)) by lia.
  replace (2 * (bx1 - delta) - 2 * gx0 g) with (2 * (bx1 - delta - gx0 g)) by lia.
  rewrite !div2_cancel by assumption.
  set (tx := (px - gx0 g) / (r * tw g)) in *.
  assert (Hx0 : (bx0 + delta - gx0 g) / (r * tw g) <= tx) by (apply Z.div_le_mono; lia).
  assert (Hx1 : tx <= (bx1 - delta - gx0 g) / (r * tw g)) by (apply Z.div_le_mono; lia).
  set (q0x := (bx0 + delta - gx0 g) / (r * tw g) / sx). set (q1x := (bx1 - delta - gx0 g) / (r * tw g) / sx).
  assert (Hqx : q0x <= tx / sx <= q1x) by (split; apply Z.div_le_mono; lia).
  pose proof (in_up_range q0x (tx / sx) q1x sx Hsx Hqx) as Hxs.
  assert (Hvx : 0 <= tx / sx * sx <= tx).
  { pose proof (Z.mul_div_le tx sx Hsx). assert (0 <= tx / sx) by (apply Z.div_pos; lia). nia. }
  destruct (ul g).
  - replace (2 * gy1 g - 2 * (by0 + delta)) with (2 * (gy1 g - (by0 + delta))) by lia.
    replace (2 * gy1 g - 2 * (by1 - delta)) with (2 * (gy1 g - (by1 - delta))) by lia.
    rewrite !div2_cancel by assumption.
    set (ty := (gy1 g - py) / (r * th g)) in *.
    assert (Hy0 : (gy1 g - (by1 - delta)) / (r * th g) <= ty) by (apply Z.div_le_mono; lia).
    assert (Hy1 : ty <= (gy1 g - (by0 + delta)) / (r * th g)) by (apply Z.div_le_mono; lia).
    set (q0y := (gy1 g - (by1 - delta)) / (r * th g) / sy). set (q1y := (gy1 g - (by0 + delta)) / (r * th g) / sy).
    assert (Hqy : q0y <= ty / sy <= q1y) by (split; apply Z.div_le_mono; lia).
    pose proof (in_up_range q0y (ty / sy) q1y sy Hsy Hqy) as Hys.
    assert (Hvy : 0 <= ty / sy * sy <= ty).
    { pose proof (Z.mul_div_le ty sy Hsy). assert (0 <= ty / sy) by (apply Z.div_pos; lia). nia. }
    destruct (up_range (q0x * sx) (q1x * sx) sx) as [|hx rx] eqn:Ex; [destruct Hxs|].
    destruct (up_range (q0y * sy) (q1y * sy) sy) as [|hy ry] eqn:Ey; [destruct Hys|].
    unfold create_tile_list. apply in_flat_map. exists (ty / sy * sy). split; [exact Hys|].
    apply in_map_iff. exists (tx / sx * sx). split; [|exact Hxs].
    unfold tile_or_none. cbn [fst snd].
    replace ((tx / sx * sx <? 0) || (ty / sy * sy <? 0) || (nx <=? tx / sx * sx) || (ny <=? ty / sy * sy)) with false; [reflexivity|].
    symmetry. rewrite !orb_false_iff, !Z.ltb_ge, !Z.leb_gt. lia.
  - replace (2 * (by0 + delta) - 2 * gy0 g) with (2 * (by0 + delta - gy0 g)) by lia.
    replace (2 * (by1 - delta) - 2 * gy0 g) with (2 * (by1 - delta - gy0 g)) by lia.
    rewrite !div2_cancel by assumption.
    set (ty := (py - gy0 g) / (r * th g)) in *.
    assert (Hy0 : (by0 + delta - gy0 g) / (r * th g) <= ty) by (apply Z.div_le_mono; lia).
    assert (Hy1 : ty <= (by1 - delta - gy0 g) / (r * th g)) by (apply Z.div_le_mono; lia).
    set (q0y := (by0 + delta - gy0 g) / (r * th g) / sy). set (q1y := (by1 - delta - gy0 g) / (r * th g) / sy).
    assert (Hqy : q0y <= ty / sy <= q1y) by (split; apply Z.div_le_mono; lia).
    pose proof (in_down_range q0y (ty / sy) q1y sy Hsy Hqy) as Hys.
    assert (Hvy : 0 <= ty / sy * sy <= ty).
    { pose proof (Z.mul_div_le ty sy Hsy). assert (0 <= ty / sy) by (apply Z.div_pos; lia). nia. }
    destruct (up_range (q0x * sx) (q1x * sx) sx) as [|hx rx] eqn:Ex; [destruct Hxs|].
    destruct (down_range (q1y * sy) (q0y * sy) sy) as [|hy ry] eqn:Ey; [destruct Hys|].
    unfold create_tile_list. apply in_flat_map. exists (ty / sy * sy). split; [exact Hys|].
    apply in_map_iff. exists (tx / sx * sx). split; [|exact Hxs].
    unfold tile_or_none. cbn [fst snd].
    replace ((tx / sx * sx <? 0) || (ty / sy * sy <? 0) || (nx <=? tx / sx * sx) || (ny <=? ty / sy * sy)) with false; [reflexivity|].
    symmetry. rewrite !orb_false_iff, !Z.ltb_ge, !Z.leb_gt. lia.
Qed.

Fixpoint point_chain (g : grid) (msx msy px py l : Z) (n : nat) : list coord :=
  match n with
  | O => []
  | S m => point_meta g msx msy px py l :: point_chain g msx msy px py (l + 1) m
  end.

Lemma point_chain_length g msx msy px py l n : length (point_chain g msx msy px py l n) = n.
Proof. revert l. induction n as [|n IH]; intros l; cbn [point_chain length]; [reflexivity|]. rewrite IH. reflexivity. Qed.

Lemma point_chain_last g msx msy px py n : forall l,
    last (point_chain g msx msy px py l (S n)) (0, 0, 0) = point_meta g msx msy px py (l + Z.of_nat n).
Proof.
  induction n as [|n IH]; intros l.
  - cbn [point_chain last]. f_equal. cbn. lia.
  - change (point_chain g msx msy px py l (S (S n))) with
        (point_meta g msx msy px py l :: point_chain g msx msy px py (l + 1) (S n)).
    assert (Hne : point_chain g msx msy px py (l + 1) (S n) <> []) by discriminate.
    destruct (point_chain g msx msy px py (l + 1) (S n)) as [|c r] eqn:E; [congruence|].
    change (last (point_meta g msx msy px py l :: c :: r) (0, 0, 0)) with (last (c :: r) (0, 0, 0)).
    rewrite <- E, IH. f_equal. lia.
Qed.

Lemma inset_limit cur sb d px py : inset cur d px py -> inset sb d px py -> inset (limit_sub_bbox cur sb) d px py.
Proof. destruct cur as [[[c0 c1] c2] c3], sb as [[[s0 s1] s2] s3]. cbn. lia. Qed.

Lemma inset_weaken b d d' px py : d' <= d -> inset b d px py -> inset b d' px py.
Proof. destruct b as [[[b0 b1] b2] b3]. cbn. lia. Qed.

Lemma point_chain_ok g msx msy cov px py :
  geo_wf g msx msy ->
  forall n cur l,
    (forall k, l <= k < l + Z.of_nat n ->
               valid_level g k = true /\ point_in_grid g px py k /\
               cov (meta_bbox g msx msy (point_meta g msx msy px py k)) <> 0) ->
    inset cur (res_at g l / 10) px py ->
    (forall k, l <= k < l + Z.of_nat n - 1 ->
               res_at g (k + 1) <= res_at g k /\
               inset (meta_bbox g msx msy (point_meta g msx msy px py k)) (res_at g (k + 1) / 10) px py) ->
    chain_ok g msx msy cov cur l (point_chain g msx msy px py l n).
Proof.
  intros Hwf. induction n as [|n IH]; intros cur l Hk Hin Hstep; cbn [point_chain chain_ok]; [exact I|].
  destruct (Hk l ltac:(lia)) as (Hv & Hg & Hc).
  split; [apply point_selected; assumption|]. split; [exact Hc|].
  destruct n as [|n]; [exact I|].
  destruct (Hstep l ltac:(lia)) as (Hres & Hmb).
  apply IH.
  - intros k Hk'. apply Hk. lia.
  - apply inset_limit; [|exact Hmb]. eapply inset_weaken; [|exact Hin]. apply Z.div_le_mono; lia.
  - intros k Hk'. apply Hstep. lia.
Qed.

(* walk_complete_interior: a point that, at every traversed level k <= L, lies in a grid tile whose meta tile is not NONE
   for the coverage, lies at least 1/10 pixel (of level 0) inside the start rectangle and at least 1/10 pixel (of level
   k + 1) inside its level-k meta tile, has its level-L meta tile handed to the workers when L is a seeded level *)
Lemma walk_complete_interior_lemma g msx msy cov skipk levels root px py L :
  geo_wf g msx msy -> levels_wf g levels -> In L levels ->
  (forall k, 0 <= k <= L ->
             valid_level g k = true /\ point_in_grid g px py k /\
             cov (meta_bbox g msx msy (point_meta g msx msy px py k)) <> 0) ->
  inset root (res_at g 0 / 10) px py ->
  (forall k, 0 <= k < L ->
             res_at g (k + 1) <= res_at g k /\
             inset (meta_bbox g msx msy (point_meta g msx msy px py k)) (res_at g (k + 1) / 10) px py) ->
  In (point_meta g msx msy px py L) (procs (geo_walk g msx msy cov skipk levels root None)).
Proof.
  intros Hwf Hl HL Hk Hroot Hstep.
  assert (HL0 : 0 <= L).
  { destruct Hl as [_ Hval]. pose proof (Hval L HL) as Hv. unfold valid_level in Hv. apply andb_true_iff in Hv.
    rewrite Z.leb_le in Hv. lia. }
  pose proof (walk_complete_chain_lemma g msx msy cov skipk levels root
                (point_chain g msx msy px py 0 (S (Z.to_nat L))) Hwf Hl ltac:(discriminate)) as H.
  rewrite point_chain_last, point_chain_length in H. rewrite Z2Nat.id in H by lia. cbn [Z.add] in H.
  apply H.
  - apply point_chain_ok; [assumption| |assumption|].
    + intros k Hk'. apply Hk. lia.
    + intros k Hk'. apply Hstep. lia.
  - replace (Z.of_nat (S (Z.to_nat L)) - 1) with L by lia. exact HL.
Qed.

(* non-vacuity of walk_complete_interior: the point (3000, 3000) in ex_grid / ex_cov, seeded level 2 *)
Example ex_interior_premises :
  (forall k, 0 <= k <= 2 ->
             valid_level ex_grid k = true /\ point_in_grid ex_grid 3000 3000 k /\
             cov_bboxes [ex_cov] (meta_bbox ex_grid 1 1 (point_meta ex_grid 1 1 3000 3000 k)) <> 0) /\
  inset ex_cov (res_at ex_grid 0 / 10) 3000 3000 /\
  (forall k, 0 <= k < 2 ->
             res_at ex_grid (k + 1) <= res_at ex_grid k /\
             inset (meta_bbox ex_grid 1 1 (point_meta ex_grid 1 1 3000 3000 k)) (res_at ex_grid (k + 1) / 10) 3000 3000).
Proof.
  split; [|split].
  - intros k Hk. assert (H : k = 0 \/ k = 1 \/ k = 2) by lia.
    destruct H as [H|[H|H]]; subst k; vm_compute; repeat split; congruence.
  - vm_compute. repeat split; congruence.
  - intros k Hk. assert (H : k = 0 \/ k = 1) by lia.
    destruct H as [H|H]; subst k; vm_compute; repeat split; congruence.
Qed.

Example ex_interior_conclusion :
  point_meta ex_grid 1 1 3000 3000 2 = (1, 1, 2) /\
  In (1, 1, 2) (procs (geo_walk ex_grid 1 1 (cov_bboxes [ex_cov]) 0 [0; 1; 2] ex_cov None)).
Proof. vm_compute. split; [reflexivity|]. tauto. Qed.

(* ------------------------------------------------------------------ what is handed over with a meta tile *)

Lemma in_somes {A} (a : A) l : In a (somes l) <-> In (Some a) l.
Proof.
  induction l as [|[b|] l IH]; cbn [somes In]; [tauto| |].
  - rewrite IH. split; intros [H|H]; auto; left; congruence.
  - rewrite IH. split; [auto|intros [H|H]; [discriminate|auto]].
Qed.

Lemma in_zrange v a b : In v (zrange a b) <-> a <= v <= b.
Proof.
  unfold zrange. rewrite in_map_iff. split.
  - intros (k & <- & Hk). apply in_seq in Hk. lia.
  - intros H. exists (Z.to_nat (v - a)). split; [lia|]. apply in_seq. lia.
Qed.

Lemma in_create_tile_list c xs ys l gs :
  In (Some c) (create_tile_list xs ys l gs) <->
  exists x y, In x xs /\ In y ys /\ c = (x, y, l) /\ 0 <= x < fst gs /\ 0 <= y < snd gs.
Proof.
  unfold create_tile_list. rewrite in_flat_map. split.
  - intros (y & Hy & Hin). apply in_map_iff in Hin. destruct Hin as (x & Hx & Hxs).
    unfold tile_or_none in Hx.
    destruct ((x <? 0) || (y <? 0) || (fst gs <=? x) || (snd gs <=? y)) eqn:E; [discriminate|].
    injection Hx as <-. rewrite !orb_false_iff, !Z.ltb_ge, !Z.leb_gt in E. exists x, y. repeat split; tauto || lia.
  - intros (x & y & Hx & Hy & -> & Hbx & Hby). exists y. split; [exact Hy|]. apply in_map_iff. exists x. split; [|exact Hx].
    unfold tile_or_none.
    replace ((x <? 0) || (y <? 0) || (fst gs <=? x) || (snd gs <=? y)) with false; [reflexivity|].
    symmetry. rewrite !orb_false_iff, !Z.ltb_ge, !Z.leb_gt. lia.
Qed.

(* without handle_all the list handed over with subtile t consists exactly of the tiles of the grid that belong to the
   meta tile of t and pass the filter (not cached / stale) *)
Lemma handed_tiles_spec g msx msy womt keep tx ty l c :
  In c (handed_tiles g msx msy womt false keep (tx, ty, l)) <->
  exists x y,
    c = (x, y, l) /\ keep c = true /\
    (let '(sx, sy) := meta_size g msx msy l in
     tx / sx * sx <= x <= tx / sx * sx + sx - 1 /\ ty / sy * sy <= y <= ty / sy * sy + sy - 1) /\
    (let '(nx, ny) := grid_size g l in 0 <= x < nx /\ 0 <= y < ny).
Proof.
  unfold handed_tiles. rewrite filter_In, in_somes. unfold meta_tile_list.
  destruct (meta_size g msx msy l) as [sx sy]. destruct (grid_size g l) as [nx ny] eqn:Eg.
  rewrite in_create_tile_list. cbn [fst snd]. split.
  - intros [(x & y & Hx & Hy & -> & Hbx & Hby) Hk]. exists x, y. apply in_zrange in Hx.
    assert (Hy' : ty / sy * sy <= y <= ty / sy * sy + sy - 1).
    { destruct (ul g); [|apply in_rev in Hy]; apply in_zrange in Hy; exact Hy. }
    repeat split; tauto || lia.
  - intros (x & y & -> & Hk & [Hx Hy] & Hbx & Hby). split; [|exact Hk]. exists x, y.
    split; [apply in_zrange; exact Hx|]. split; [|repeat split; lia].
    destruct (ul g); [|apply -> in_rev]; apply in_zrange; exact Hy.
Qed.

Fixpoint oprocs (l : list oevent) : list coord :=
  match l with
  | [] => []
  | OProc ts :: r => ts ++ oprocs r
  | _ :: r => oprocs r
  end.

(* the single tiles in the observable trace are the handed-over members of the meta tiles of the walk *)
Lemma oprocs_observe g msx msy womt hall keep evs :
  oprocs (observe g msx msy womt hall keep evs) = handed_all g msx msy womt hall keep evs.
Proof.
  unfold handed_all. induction evs as [|[t|lv id|] r IH]; cbn [observe procs flat_map oprocs]; try assumption; [reflexivity|].
  destruct (handed_tiles g msx msy womt hall keep t) as [|a ts] eqn:E; cbn [oprocs app]; rewrite IH; reflexivity.
Qed.

Lemma handed_all_incl g msx msy womt hall keep a b :
  incl (procs a) (procs b) -> incl (handed_all g msx msy womt hall keep a) (handed_all g msx msy womt hall keep b).
Proof.
  unfold handed_all. intros H x Hx. apply in_flat_map in Hx. destruct Hx as (t & Ht & Hx).
  apply in_flat_map. exists t. auto.
Qed.

Lemma handed_all_app_procs g msx msy womt hall keep a b c :
  incl (procs a) (procs b ++ procs c) ->
  incl (handed_all g msx msy womt hall keep a) (handed_all g msx msy womt hall keep b ++ handed_all g msx msy womt hall keep c).
Proof.
  unfold handed_all. intros H x Hx. apply in_flat_map in Hx. destruct Hx as (t & Ht & Hx).
  apply H in Ht. apply in_app_or in Ht. apply in_or_app.
  destruct Ht as [Ht|Ht]; [left|right]; apply in_flat_map; exists t; auto.
Qed.

(* resume_covers on the single tiles that are handed over (cache content fixed during the history) *)
Lemma resume_covers_handed_lemma g msx msy cov skipk levels root k j lv id womt hall keep :
  geo_wf g msx msy -> levels_wf g levels -> levels <> [] ->
  nth_error (geo_walk g msx msy cov skipk levels root None) j = Some (ERep lv id) -> (j < k)%nat ->
  incl (handed_all g msx msy womt hall keep (geo_walk g msx msy cov skipk levels root None))
       (handed_all g msx msy womt hall keep (firstn k (geo_walk g msx msy cov skipk levels root None)) ++
        handed_all g msx msy womt hall keep (geo_walk g msx msy cov skipk levels root id)).
Proof.
  intros Hwf Hl Hne Hn Hjk. apply handed_all_app_procs. eapply resume_covers_geo_lemma; eauto.
Qed.

Example ex_handed :
  handed_tiles ex_grid 2 2 true false (fun _ => true) (0, 0, 2) = [(0, 1, 2); (1, 1, 2); (0, 0, 2); (1, 0, 2)] /\
  handed_tiles ex_grid 2 2 true false (fun t => negb (coord_eqb t (0, 0, 2))) (0, 0, 2) = [(0, 1, 2); (1, 1, 2); (1, 0, 2)] /\
  handed_tiles ex_grid 2 2 true true (fun _ => false) (0, 0, 2) = [(0, 0, 2)] /\
  handed_tiles ex_grid 2 2 false true (fun _ => false) (0, 0, 2) = [(0, 1, 2); (1, 1, 2); (0, 0, 2); (1, 0, 2)].
Proof. vm_compute. auto. Qed.

(* ------------------------------------------------------------------ work_on_metatiles = False *)

Lemma filter_all_true {A} (l : list A) : filter (fun _ => true) l = l.
Proof. induction l as [|a l IH]; cbn; [reflexivity|]. rewrite IH. reflexivity. Qed.

(* caches with upscale_tiles / downscale_tiles and refresh_all: every tile of the grid in the meta tile is handed over *)
Lemma handed_tiles_rescale_all_spec g msx msy keep tx ty l c :
  In c (handed_tiles g msx msy false true keep (tx, ty, l)) <->
  exists x y,
    c = (x, y, l) /\
    (let '(sx, sy) := meta_size g msx msy l in
     tx / sx * sx <= x <= tx / sx * sx + sx - 1 /\ ty / sy * sy <= y <= ty / sy * sy + sy - 1) /\
    (let '(nx, ny) := grid_size g l in 0 <= x < nx /\ 0 <= y < ny).
Proof.
  replace (handed_tiles g msx msy false true keep (tx, ty, l))
    with (handed_tiles g msx msy false false (fun _ => true) (tx, ty, l))
    by (unfold handed_tiles; apply filter_all_true).
  rewrite handed_tiles_spec. split.
  - intros (x & y & H1 & _ & H2 & H3). exists x, y. auto.
  - intros (x & y & H1 & H2 & H3). exists x, y. auto.
Qed.

(* ------------------------------------------------------------------ task ids and the progress store *)

Definition idpart_eqb (a b : idpart) : bool :=
  match a, b with
  | PConst s, PConst t => list_eqb Z.eqb s t
  | PText s, PText t => list_eqb Z.eqb s t
  | PLevels s, PLevels t => list_eqb Z.eqb s t
  | _, _ => false
  end.
Definition id_eqb (a b : list idpart) : bool := list_eqb idpart_eqb a b.

Lemma list_eqb_eq {A} (e : A -> A -> bool) :
  (forall x y, e x y = true -> x = y) -> forall a b, list_eqb e a b = true -> a = b.
Proof.
  intros He. induction a as [|x a IH]; intros [|y b] H; cbn [list_eqb] in H; try discriminate; [reflexivity|].
  apply andb_true_iff in H. destruct H as [H1 H2]. f_equal; auto.
Qed.

Lemma zlist_eqb_eq a b : list_eqb Z.eqb a b = true -> a = b.
Proof. apply list_eqb_eq. intros x y H. apply Z.eqb_eq. exact H. Qed.

Lemma id_eqb_eq a b : id_eqb a b = true -> a = b.
Proof.
  apply list_eqb_eq. intros [s|s|s] [t|t|t] H; cbn [idpart_eqb] in H; try discriminate;
    apply zlist_eqb_eq in H; subst; reflexivity.
Qed.

(* the id of a seed task determines its name, cache, grid and level list: different tasks of a seed run
   (in particular the one-task-per-level split of caches with upscale_tiles / downscale_tiles) have different ids.
   seed_task_id is generated from SeedTask.id by translator/specs/seed_id.py. *)
Lemma seed_task_id_injective n c g l n' c' g' l' :
  seed_task_id n c g l = seed_task_id n' c' g' l' -> n = n' /\ c = c' /\ g = g' /\ l = l'.
Proof. unfold seed_task_id. intros H. injection H as -> -> -> ->. auto. Qed.

Lemma per_level_ids_distinct n c g levels :
  NoDup levels -> NoDup (map (fun l => seed_task_id n c g [l]) levels).
Proof.
  intros H. induction H as [|x l Hx Hl IH]; cbn [map]; constructor; [|exact IH].
  intros Hin. apply in_map_iff in Hin. destruct Hin as (y & Hy & Hyl).
  apply seed_task_id_injective in Hy. destruct Hy as (_ & _ & _ & Hy). injection Hy as ->. contradiction.
Qed.

Lemma store_get_add_same {K} (keqb : K -> K -> bool) s k v :
  keqb k k = true -> store_get keqb (store_add s k v) k = v.
Proof. intros H. unfold store_get, store_add. cbn [find fst snd]. rewrite H. reflexivity. Qed.

Lemma store_get_add_other {K} (keqb : K -> K -> bool) s k k' v :
  keqb k k' = false -> store_get keqb (store_add s k' v) k = store_get keqb s k.
Proof. intros H. unfold store_get, store_add. cbn [find fst snd]. rewrite H. reflexivity. Qed.

Lemma store_get_adds_other {K} (keqb : K -> K -> bool) ws : forall s k,
    (forall w, In w ws -> keqb k (fst w) = false) ->
    store_get keqb (store_adds s ws) k = store_get keqb s k.
Proof.
  induction ws as [|w ws IH]; intros s k H; [reflexivity|]. unfold store_adds in *. cbn [fold_left].
  rewrite IH by (intros w' Hw'; apply H; right; exact Hw').
  apply store_get_add_other. apply H. left. reflexivity.
Qed.

(* the progress entry of a task is not touched by whatever other tasks of the run (tasks that differ in name, cache,
   grid or level list) write into the store, before, between or after its own runs: the identifier a continued run
   of the task reads is the one its own last persisted report wrote, so resume_covers_history applies task by task *)
Lemma progress_entries_independent_lemma n c g l others s :
  (forall w, In w others -> exists n' c' g' l', fst w = seed_task_id n' c' g' l' /\ (n, c, g, l) <> (n', c', g', l')) ->
  store_get id_eqb (store_adds s others) (seed_task_id n c g l) = store_get id_eqb s (seed_task_id n c g l).
Proof.
  intros H. apply store_get_adds_other. intros w Hw. destruct (H w Hw) as (n' & c' & g' & l' & -> & Hne).
  apply not_true_is_false. intros E. apply id_eqb_eq in E. apply seed_task_id_injective in E.
  destruct E as (-> & -> & -> & ->). congruence.
Qed.

Lemma id_eqb_refl a : id_eqb a a = true.
Proof.
  apply list_eqb_refl. intros [s|s|s]; cbn [idpart_eqb]; apply list_eqb_refl; intros x; apply Z.eqb_refl.
Qed.

Lemma progress_entry_own_write_lemma n c g l s v :
  store_get id_eqb (store_add s (seed_task_id n c g l) v) (seed_task_id n c g l) = v.
Proof. apply store_get_add_same. apply id_eqb_refl. Qed.

Example ex_per_level_ids :
  NoDup (map (fun l => seed_task_id [100] [99] [103] [l]) [1; 2; 3]) /\
  store_get id_eqb (store_adds [] [(seed_task_id [100] [99] [103] [1], Some []); (seed_task_id [100] [99] [103] [2], Some [(0, 4)])])
            (seed_task_id [100] [99] [103] [3]) = None.
Proof.
  split; [apply per_level_ids_distinct; repeat constructor; cbn; intuition discriminate|vm_compute; reflexivity].
Qed.

(* ------------------------------------------------------------------ the hand-over to the worker processes *)

Section PoolProofs.
  Variable T : Type.
  Notation pool := (pool T).
  Notation wstat := (wstat T).

  (* TileWorkerPool.process hands the list over exactly once (appended to the queue) or not at all *)
  Lemma pool_process_spec env (q : list (option T)) tiles :
    (fst (pool_process env q tiles) = Handed /\ snd (pool_process env q tiles) = q ++ [Some tiles]) \/
    (fst (pool_process env q tiles) <> Handed /\ snd (pool_process env q tiles) = q).
  Proof.
    induction env as [|o env IH]; cbn [pool_process fst snd].
    - right. split; [discriminate|reflexivity].
    - destruct o as [|[|]]; cbn [fst snd].
      + left. auto.
      + exact IH.
      + right. split; [discriminate|reflexivity].
  Qed.

  (* as long as some worker is alive a full queue never makes process give up or drop the list: it is handed over as
     soon as the queue accepts it *)
  Lemma pool_process_alive env1 env2 (q : list (option T)) tiles :
    Forall (fun o => o = PutFull true) env1 ->
    pool_process (env1 ++ PutOk :: env2) q tiles = (Handed, q ++ [Some tiles]).
  Proof.
    induction env1 as [|o env1 IH]; intros H; [reflexivity|]. inversion H as [|? ? Ho Hr]; subst. cbn. apply IH. exact Hr.
  Qed.

  Definition bw (w : wstat) : list T := match w with WBusy t => [t] | _ => [] end.
  Definition busy (l : list wstat) : list T := flat_map bw l.
  Fixpoint qtiles (q : list (option T)) : list T :=
    match q with [] => [] | Some t :: r => t :: qtiles r | None :: r => qtiles r end.

  Lemma nth_split {A} (l : list A) i a : nth_error l i = Some a -> l = firstn i l ++ a :: skipn (S i) l.
  Proof.
    revert i. induction l as [|x l IH]; intros [|i] H; cbn in *; try discriminate.
    - injection H as ->. reflexivity.
    - f_equal. apply IH. exact H.
  Qed.

  Lemma busy_split l i w0 : nth_error l i = Some w0 -> forall t,
      In t (busy l) <-> In t (bw w0) \/ In t (busy (firstn i l ++ skipn (S i) l)).
  Proof.
    intros H t. rewrite (nth_split l i w0 H) at 1. unfold busy. rewrite !flat_map_app. cbn [flat_map].
    rewrite !in_app_iff. tauto.
  Qed.

  Lemma busy_set l i w0 : nth_error l i = Some w0 -> forall w t,
      In t (busy (set_nth l i w)) <-> In t (bw w) \/ In t (busy (firstn i l ++ skipn (S i) l)).
  Proof.
    intros H w t. unfold set_nth, busy. rewrite !flat_map_app. cbn [flat_map]. rewrite !in_app_iff. tauto.
  Qed.

  Lemma in_split_nth l i (w0 : wstat) : nth_error l i = Some w0 -> forall x,
      In x l <-> x = w0 \/ In x (firstn i l ++ skipn (S i) l).
  Proof.
    intros H x. rewrite (nth_split l i w0 H) at 1. rewrite !in_app_iff. cbn [In]. intuition.
  Qed.

  Lemma in_set_nth (l : list wstat) i w x : In x (set_nth l i w) <-> x = w \/ In x (firstn i l ++ skipn (S i) l).
  Proof. unfold set_nth. rewrite !in_app_iff. cbn [In]. intuition. Qed.

  (* the queue after stop(): tile lists first, then only sentinels; a worker can only have exited when no list is left *)
  Definition inv (p : pool) : Prop :=
    exists ts k, pq p = map Some ts ++ repeat None k /\ (In WExited (pw p) -> ts = []).

  Lemma step_inv p i : inv p -> inv (worker_step p i).
  Proof.
    intros (ts & k & Hq & Hx). unfold worker_step.
    destruct (nth_error (pw p) i) as [[|t|]|] eqn:En; try (exists ts, k; auto; fail).
    - destruct ts as [|t ts]; [destruct k as [|k]|]; rewrite Hq; cbn [map app repeat].
      + exists [], 0%nat. split; [rewrite Hq; reflexivity|auto].
      + exists [], k. cbn [pq pw map app]. auto.
      + exists ts, k. cbn [pq pw]. split; [reflexivity|]. intros Hin. apply in_set_nth in Hin.
        destruct Hin as [Hin|Hin]; [discriminate|].
        assert (In WExited (pw p)) by (apply (in_split_nth _ _ _ En); right; exact Hin).
        specialize (Hx H). discriminate.
    - exists ts, k. cbn [pq pw]. split; [exact Hq|]. intros Hin. apply in_set_nth in Hin.
      destruct Hin as [Hin|Hin]; [discriminate|]. apply Hx. apply (in_split_nth _ _ _ En). right. exact Hin.
  Qed.

  Lemma qtiles_shape ts k : qtiles (map Some ts ++ repeat None k) = ts.
  Proof.
    induction ts as [|t ts IH]; cbn [map app qtiles]; [|rewrite IH; reflexivity].
    induction k; cbn [repeat qtiles]; auto.
  Qed.

  (* nothing is lost by a step: every list that is done, being worked on or queued stays so *)
  Lemma step_keeps p i t :
    In t (pdone p ++ busy (pw p) ++ qtiles (pq p)) ->
    In t (pdone (worker_step p i) ++ busy (pw (worker_step p i)) ++ qtiles (pq (worker_step p i))).
  Proof.
    unfold worker_step. destruct (nth_error (pw p) i) as [[|t0|]|] eqn:En; auto.
    - destruct (pq p) as [|[t1|] q'] eqn:Eq.
      + rewrite Eq. auto.
      + cbn [pdone pw pq qtiles]. rewrite !in_app_iff, (busy_split _ _ _ En), (busy_set _ _ _ En). cbn [bw In]. tauto.
      + cbn [pdone pw pq qtiles]. rewrite !in_app_iff, (busy_split _ _ _ En), (busy_set _ _ _ En). cbn [bw In]. tauto.
    - cbn [pdone pw pq]. rewrite !in_app_iff. rewrite (busy_split _ _ _ En), (busy_set _ _ _ En). cbn [bw In]. tauto.
  Qed.

  Lemma run_inv sched : forall p, inv p -> inv (run_workers p sched).
  Proof. induction sched as [|i s IH]; intros p H; [exact H|]. apply IH, step_inv, H. Qed.

  Lemma run_keeps sched : forall p t,
      In t (pdone p ++ busy (pw p) ++ qtiles (pq p)) ->
      In t (pdone (run_workers p sched) ++ busy (pw (run_workers p sched)) ++ qtiles (pq (run_workers p sched))).
  Proof. induction sched as [|i s IH]; intros p t H; [exact H|]. apply IH, step_keeps, H. Qed.

  Lemma set_nth_length {A} (l : list A) i a0 a : nth_error l i = Some a0 -> length (set_nth l i a) = length l.
  Proof.
    intros H. assert (i < length l)%nat by (apply nth_error_Some; congruence).
    unfold set_nth. rewrite app_length. cbn [length]. rewrite firstn_length, skipn_length. lia.
  Qed.

  Lemma step_len (p : pool) i : length (pw (worker_step p i)) = length (pw p).
  Proof.
    unfold worker_step. destruct (nth_error (pw p) i) as [[|t0|]|] eqn:En; auto.
    - destruct (pq p) as [|[t1|] q']; auto; cbn [pw]; eapply set_nth_length; eauto.
    - cbn [pw]. eapply set_nth_length; eauto.
  Qed.

  Lemma run_len sched : forall p : pool, length (pw (run_workers p sched)) = length (pw p).
  Proof. induction sched as [|i s IH]; intros p; [reflexivity|]. cbn [run_workers fold_left]. fold (run_workers (worker_step p i) s). rewrite IH. apply step_len. Qed.

  Lemma busy_all_exited l : Forall (fun w => w = WExited) l -> busy l = [].
  Proof. induction 1 as [|w l -> _ IH]; [reflexivity|]. exact IH. Qed.

  (* stop() (one sentinel per live worker, then join): whatever the interleaving of the workers, once they have all
     exited every list that had been handed over - queued, being worked on or finished - is finished *)
  Lemma pool_stop_drains_lemma ts (ws : list wstat) done sched :
    Forall (fun w => alive w = true) ws -> ws <> [] ->
    let p1 := run_workers (pool_stop (mkPool (map Some ts) ws done)) sched in
    Forall (fun w => w = WExited) (pw p1) ->
    incl (done ++ busy ws ++ ts) (pdone p1).
  Proof.
    intros Hal Hne p1 Hex t Ht.
    set (p0 := pool_stop (mkPool (map Some ts) ws done)) in *.
    assert (Hi : inv p0).
    { exists ts, (length (filter (alive) ws)). split; [reflexivity|]. intros Hin. cbn [pw p0 pool_stop] in Hin.
      rewrite Forall_forall in Hal. specialize (Hal _ Hin). discriminate. }
    assert (Hk : In t (pdone p0 ++ busy (pw p0) ++ qtiles (pq p0))).
    { cbn [p0 pool_stop pdone pw pq]. rewrite qtiles_shape. exact Ht. }
    pose proof (run_inv sched p0 Hi) as (ts' & k & Hq & Hx). pose proof (run_keeps sched p0 t Hk) as Hk'.
    fold p1 in Hq, Hx, Hk'. rewrite (busy_all_exited _ Hex) in Hk'. rewrite Hq, qtiles_shape in Hk'.
    assert (Hlen : length (pw p1) = length ws) by (subst p1; rewrite run_len; reflexivity).
    assert (Hin : In WExited (pw p1)).
    { destruct (pw p1) as [|w l] eqn:E; [destruct ws; [congruence|discriminate]|].
      inversion Hex; subst. left. reflexivity. }
    rewrite (Hx Hin) in Hk'. cbn [app] in Hk'. rewrite app_nil_r in Hk'. exact Hk'.
  Qed.
End PoolProofs.

Example ex_pool_process :
  pool_process [PutFull true; PutFull true; PutOk] [Some 7; None] 9 = (Handed, [Some 7; None; Some 9]) /\
  pool_process [PutFull true; PutFull false; PutOk] [Some 7] 9 = (Interrupted, [Some 7]).
Proof. split; reflexivity. Qed.

(* two workers, three queued lists, one in flight: after stop() and any complete schedule everything is done *)
Example ex_pool_drain :
  let p1 := run_workers (pool_stop (mkPool [Some 1; Some 2; Some 3] [WBusy 0; WIdle] [])) [1; 0; 1; 0; 0; 1; 1; 0; 1]%nat in
  pw p1 = [WExited; WExited] /\ pdone p1 = [0; 1; 2; 3].
Proof. vm_compute. split; reflexivity. Qed.

(* ------------------------------------------------------------------ everything selected: nested pyramids *)

(* ---------------- one axis *)
Definition ax := (Z * Z * Z)%type.   (* u = coordinate of the point, a / b = lower / upper side of the rectangle, all
                                        measured from the origin of the tile numbering along the axis *)
Definition side_ok (s d : Z) (x : ax) : Prop :=
  let '(u, a, b) := x in
  (a + d <= u \/ (exists m, a = m * s /\ a <= u)) /\ (u <= b - d \/ (exists m, b = m * s /\ u < b)).
Definition sel2 (d : Z) (x : ax) : Z * Z :=
  let '(u, a, b) := x in if b - d <? a + d then (a + b, a + b) else (2 * (a + d), 2 * (b - d)).

Lemma div_lower q v s : 0 < s -> q * s <= v -> q <= v / s.
Proof. intros Hs H. apply Z.div_le_lower_bound; lia. Qed.
Lemma div_upper q v s : 0 < s -> v < (q + 1) * s -> v / s <= q.
Proof. intros Hs H. assert (v / s < q + 1); [|lia]. apply Z.div_lt_upper_bound; lia. Qed.

Lemma div_eq v s q : 0 < s -> q * s <= v < (q + 1) * s -> v / s = q.
Proof. intros Hs H. symmetry. apply (Z.div_unique v s q (v - q * s)); lia. Qed.

Lemma axis_sel s d u a b :
  0 < s -> 0 <= d -> 2 * d <= s -> side_ok s d (u, a, b) ->
  fst (sel2 d (u, a, b)) / (2 * s) <= u / s <= snd (sel2 d (u, a, b)) / (2 * s).
Proof.
  intros Hs Hd Hds [Hlo Hhi]. cbn [sel2].
  assert (Hu : (2 * u) / (2 * s) = u / s) by (apply Z.div_mul_cancel_l; lia).
  destruct (b - d <? a + d) eqn:E; cbn [fst snd].
  - apply Z.ltb_lt in E.
    destruct Hlo as [Hlo|(m & -> & Hlo)]; destruct Hhi as [Hhi|(m' & -> & Hhi)]; try lia.
    + (* point right of a + d, b aligned: everything in the last tile before b *)
      assert (u / s = m' - 1) by (apply div_eq; lia).
      assert ((a + m' * s) / (2 * s) = m' - 1) by (apply div_eq; lia).
      lia.
    + assert (u / s = m) by (apply div_eq; lia).
      assert ((m * s + b) / (2 * s) = m) by (apply div_eq; lia).
      lia.
    + exfalso. assert (m < m') by nia. nia.
  - apply Z.ltb_ge in E. rewrite <- Hu. split.
    + destruct Hlo as [Hlo|(m & -> & Hlo)]; [apply Z.div_le_mono; lia|].
      assert ((2 * (m * s + d)) / (2 * s) = m) by (apply div_eq; lia).
      assert (m <= (2 * u) / (2 * s)) by (apply div_lower; lia). lia.
    + destruct Hhi as [Hhi|(m' & -> & Hhi)]; [apply Z.div_le_mono; lia|].
      assert ((2 * u) / (2 * s) <= m' - 1) by (apply div_upper; lia).
      assert (m' - 1 <= (2 * (m' * s - d)) / (2 * s)) by (apply div_lower; lia). lia.
Qed.

(* ---------------- the tile range of get_affected_level_tiles in terms of one-axis data *)
Definition ax_x (g : grid) (cur : bbox) (px : Z) : ax :=
  let '(b0, _, b2, _) := cur in (px - gx0 g, b0 - gx0 g, b2 - gx0 g).
Definition ax_y (g : grid) (cur : bbox) (py : Z) : ax :=
  let '(_, b1, _, b3) := cur in
  if ul g then (gy1 g - py, gy1 g - b3, gy1 g - b1) else (py - gy0 g, b1 - gy0 g, b3 - gy0 g).

Lemma ltb_shift x y c : (x - c <? y - c) = (x <? y).
Proof. destruct (x <? y) eqn:E; [apply Z.ltb_lt in E; apply Z.ltb_lt; lia|apply Z.ltb_ge in E; apply Z.ltb_ge; lia]. Qed.

Lemma point_selected_gen g msx msy cur px py l :
  geo_wf g msx msy -> valid_level g l = true -> point_in_grid g px py l ->
  (let x := ax_x g cur px in let d := res_at g l / 10 in let s := res_at g l * tw g in
   fst (sel2 d x) / (2 * s) <= fst (fst x) / s <= snd (sel2 d x) / (2 * s)) ->
  (let y := ax_y g cur py in let d := res_at g l / 10 in let s := res_at g l * th g in
   fst (sel2 d y) / (2 * s) <= fst (fst y) / s <= snd (sel2 d y) / (2 * s)) ->
  In (Some (point_meta g msx msy px py l)) (affected_tiles g msx msy cur l).
Proof.
  intros Hwf Hv Hgrid HX HY. pose proof (geo_res_pos g msx msy l Hwf Hv) as Hr.
  destruct Hwf as (Htw & Hth & _ & Hmx & Hmy).
  destruct cur as [[[bx0 by0] bx1] by1].
  unfold affected_tiles, meta_affected, point_meta, point_in_grid, tile2, tile, meta_size, grid_size in *.
  cbn [ax_x ax_y sel2 fst snd] in HX, HY. cbv zeta in HX, HY.
  set (r := res_at g l) in *. set (delta := r / 10) in *.
  set (nx := axis_tiles (gx1 g - gx0 g) r (tw g)) in *. set (ny := axis_tiles (gy1 g - gy0 g) r (th g)) in *.
  set (sx := Z.min msx nx). set (sy := Z.min msy ny).
  assert (Hsx : 0 < sx) by (subst sx nx; unfold axis_tiles; lia).
  assert (Hsy : 0 < sy) by (subst sy ny; unfold axis_tiles; lia).
  assert (Dx : 0 < r * tw g) by nia. assert (Dy : 0 < r * th g) by nia.
  set (tx := (px - gx0 g) / (r * tw g)) in *.
  (* x axis *)
  assert (HX' : ((if bx1 - delta <? bx0 + delta then bx0 + bx1 else 2 * (bx0 + delta)) - 2 * gx0 g) / (2 * (r * tw g)) <= tx <=
                ((if bx1 - delta <? bx0 + delta then bx0 + bx1 else 2 * (bx1 - delta)) - 2 * gx0 g) / (2 * (r * tw g))).
  { replace (bx1 - gx0 g - delta <? bx0 - gx0 g + delta) with (bx1 - delta <? bx0 + delta) in HX
      by (rewrite <- (ltb_shift (bx1 - delta) (bx0 + delta) (gx0 g)); f_equal; lia).
    destruct (bx1 - delta <? bx0 + delta); cbn [fst snd] in HX.
    - replace (bx0 + bx1 - 2 * gx0 g) with (bx0 - gx0 g + (bx1 - gx0 g)) by lia. exact HX.
    - replace (2 * (bx0 + delta) - 2 * gx0 g) with (2 * (bx0 - gx0 g + delta)) by lia.
      replace (2 * (bx1 - delta) - 2 * gx0 g) with (2 * (bx1 - gx0 g - delta)) by lia. exact HX. }
  clear HX.
  set (lox := ((if bx1 - delta <? bx0 + delta then bx0 + bx1 else 2 * (bx0 + delta)) - 2 * gx0 g) / (2 * (r * tw g))) in *.
  set (hix := ((if bx1 - delta <? bx0 + delta then bx0 + bx1 else 2 * (bx1 - delta)) - 2 * gx0 g) / (2 * (r * tw g))) in *.
  assert (Hqx : lox / sx <= tx / sx <= hix / sx) by (split; apply Z.div_le_mono; lia).
  pose proof (in_up_range (lox / sx) (tx / sx) (hix / sx) sx Hsx Hqx) as Hxs.
  assert (Hvx : 0 <= tx / sx * sx <= tx).
  { pose proof (Z.mul_div_le tx sx Hsx). assert (0 <= tx / sx) by (apply Z.div_pos; lia). nia. }
  destruct (ul g).
  - cbn [sel2 fst snd] in HY. set (ty := (gy1 g - py) / (r * th g)) in *.
    assert (HY' : (2 * gy1 g - (if by1 - delta <? by0 + delta then by0 + by1 else 2 * (by1 - delta))) / (2 * (r * th g)) <= ty <=
                  (2 * gy1 g - (if by1 - delta <? by0 + delta then by0 + by1 else 2 * (by0 + delta))) / (2 * (r * th g))).
    { replace (gy1 g - by0 - delta <? gy1 g - by1 + delta) with (by1 - delta <? by0 + delta) in HY
        by (destruct (by1 - delta <? by0 + delta) eqn:E; symmetry; [apply Z.ltb_lt in E; apply Z.ltb_lt; lia|apply Z.ltb_ge in E; apply Z.ltb_ge; lia]).
      destruct (by1 - delta <? by0 + delta); cbn [fst snd] in HY.
      - replace (2 * gy1 g - (by0 + by1)) with (gy1 g - by1 + (gy1 g - by0)) by lia. exact HY.
      - replace (2 * gy1 g - 2 * (by1 - delta)) with (2 * (gy1 g - by1 + delta)) by lia.
        replace (2 * gy1 g - 2 * (by0 + delta)) with (2 * (gy1 g - by0 - delta)) by lia. exact HY. }
    clear HY.
    set (loy := (2 * gy1 g - (if by1 - delta <? by0 + delta then by0 + by1 else 2 * (by1 - delta))) / (2 * (r * th g))) in *.
    set (hiy := (2 * gy1 g - (if by1 - delta <? by0 + delta then by0 + by1 else 2 * (by0 + delta))) / (2 * (r * th g))) in *.
    assert (Hqy : loy / sy <= ty / sy <= hiy / sy) by (split; apply Z.div_le_mono; lia).
    pose proof (in_up_range (loy / sy) (ty / sy) (hiy / sy) sy Hsy Hqy) as Hys.
    assert (Hvy : 0 <= ty / sy * sy <= ty).
    { pose proof (Z.mul_div_le ty sy Hsy). assert (0 <= ty / sy) by (apply Z.div_pos; lia). nia. }
    destruct (up_range (lox / sx * sx) (hix / sx * sx) sx) as [|hx rx] eqn:Ex; [destruct Hxs|].
    destruct (up_range (loy / sy * sy) (hiy / sy * sy) sy) as [|hy ry] eqn:Ey; [destruct Hys|].
    unfold create_tile_list. apply in_flat_map. exists (ty / sy * sy). split; [exact Hys|].
    apply in_map_iff. exists (tx / sx * sx). split; [|exact Hxs].
    unfold tile_or_none. cbn [fst snd].
    replace ((tx / sx * sx <? 0) || (ty / sy * sy <? 0) || (nx <=? tx / sx * sx) || (ny <=? ty / sy * sy)) with false; [reflexivity|].
    symmetry. rewrite !orb_false_iff, !Z.ltb_ge, !Z.leb_gt. lia.
  - cbn [sel2 fst snd] in HY. set (ty := (py - gy0 g) / (r * th g)) in *.
    assert (HY' : ((if by1 - delta <? by0 + delta then by0 + by1 else 2 * (by0 + delta)) - 2 * gy0 g) / (2 * (r * th g)) <= ty <=
                  ((if by1 - delta <? by0 + delta then by0 + by1 else 2 * (by1 - delta)) - 2 * gy0 g) / (2 * (r * th g))).
    { replace (by1 - gy0 g - delta <? by0 - gy0 g + delta) with (by1 - delta <? by0 + delta) in HY
        by (rewrite <- (ltb_shift (by1 - delta) (by0 + delta) (gy0 g)); f_equal; lia).
      destruct (by1 - delta <? by0 + delta); cbn [fst snd] in HY.
      - replace (by0 + by1 - 2 * gy0 g) with (by0 - gy0 g + (by1 - gy0 g)) by lia. exact HY.
      - replace (2 * (by0 + delta) - 2 * gy0 g) with (2 * (by0 - gy0 g + delta)) by lia.
        replace (2 * (by1 - delta) - 2 * gy0 g) with (2 * (by1 - gy0 g - delta)) by lia. exact HY. }
    clear HY.
    set (loy := ((if by1 - delta <? by0 + delta then by0 + by1 else 2 * (by0 + delta)) - 2 * gy0 g) / (2 * (r * th g))) in *.
    set (hiy := ((if by1 - delta <? by0 + delta then by0 + by1 else 2 * (by1 - delta)) - 2 * gy0 g) / (2 * (r * th g))) in *.
    assert (Hqy : loy / sy <= ty / sy <= hiy / sy) by (split; apply Z.div_le_mono; lia).
    pose proof (in_down_range (loy / sy) (ty / sy) (hiy / sy) sy Hsy Hqy) as Hys.
    assert (Hvy : 0 <= ty / sy * sy <= ty).
    { pose proof (Z.mul_div_le ty sy Hsy). assert (0 <= ty / sy) by (apply Z.div_pos; lia). nia. }
    destruct (up_range (lox / sx * sx) (hix / sx * sx) sx) as [|hx rx] eqn:Ex; [destruct Hxs|].
    destruct (down_range (hiy / sy * sy) (loy / sy * sy) sy) as [|hy ry] eqn:Ey; [destruct Hys|].
    unfold create_tile_list. apply in_flat_map. exists (ty / sy * sy). split; [exact Hys|].
    apply in_map_iff. exists (tx / sx * sx). split; [|exact Hxs].
    unfold tile_or_none. cbn [fst snd].
    replace ((tx / sx * sx <? 0) || (ty / sy * sy <? 0) || (nx <=? tx / sx * sx) || (ny <=? ty / sy * sy)) with false; [reflexivity|].
    symmetry. rewrite !orb_false_iff, !Z.ltb_ge, !Z.leb_gt. lia.
Qed.

(* ---------------- the meta tile of the point: aligned sides that own the point *)
Lemma meta_axes g msx msy px py l :
  geo_wf g msx msy -> valid_level g l = true ->
  let M := meta_bbox g msx msy (point_meta g msx msy px py l) in
  (let '(u, a, b) := ax_x g M px in exists m m', a = m * (res_at g l * tw g) /\ b = m' * (res_at g l * tw g) /\ a <= u < b) /\
  (let '(u, a, b) := ax_y g M py in exists m m', a = m * (res_at g l * th g) /\ b = m' * (res_at g l * th g) /\ a <= u < b).
Proof.
  intros Hwf Hv. pose proof (geo_res_pos g msx msy l Hwf Hv) as Hr. destruct Hwf as (Htw & Hth & _ & Hmx & Hmy).
  unfold point_meta, meta_bbox, tile, meta_size, grid_size.
  set (r := res_at g l) in *.
  set (sx := Z.min msx (axis_tiles (gx1 g - gx0 g) r (tw g))). set (sy := Z.min msy (axis_tiles (gy1 g - gy0 g) r (th g))).
  assert (Hsx : 0 < sx) by (subst sx; unfold axis_tiles; lia).
  assert (Hsy : 0 < sy) by (subst sy; unfold axis_tiles; lia).
  assert (Dx : 0 < r * tw g) by nia. assert (Dy : 0 < r * th g) by nia.
  set (tx := (px - gx0 g) / (r * tw g)).
  set (ty := (if ul g then gy1 g - py else py - gy0 g) / (r * th g)).
  rewrite !Z.div_mul by lia.
  set (mx := tx / sx * sx). set (my := ty / sy * sy).
  assert (Hmx' : mx <= tx < mx + sx) by (subst mx; pose proof (Z.mul_div_le tx sx Hsx); pose proof (Z.mod_pos_bound tx sx Hsx); pose proof (Z.div_mod tx sx); lia).
  assert (Hmy' : my <= ty < my + sy) by (subst my; pose proof (Z.mul_div_le ty sy Hsy); pose proof (Z.mod_pos_bound ty sy Hsy); pose proof (Z.div_mod ty sy); lia).
  assert (Hux : tx * (r * tw g) <= px - gx0 g < (tx + 1) * (r * tw g)).
  { subst tx. pose proof (Z.mul_div_le (px - gx0 g) (r * tw g) Dx). pose proof (Z.mod_pos_bound (px - gx0 g) (r * tw g) Dx).
    pose proof (Z.div_mod (px - gx0 g) (r * tw g)). lia. }
  unfold tile_bbox, merge_bbox, ax_x, ax_y. fold r. subst ty.
  destruct (ul g).
  - set (ty := (gy1 g - py) / (r * th g)) in *.
    assert (Huy : ty * (r * th g) <= gy1 g - py < (ty + 1) * (r * th g)).
    { subst ty. pose proof (Z.mul_div_le (gy1 g - py) (r * th g) Dy). pose proof (Z.mod_pos_bound (gy1 g - py) (r * th g) Dy).
      pose proof (Z.div_mod (gy1 g - py) (r * th g)). lia. }
    split.
    + exists mx, (mx + sx). nia.
    + exists my, (my + sy). nia.
  - set (ty := (py - gy0 g) / (r * th g)) in *.
    assert (Huy : ty * (r * th g) <= py - gy0 g < (ty + 1) * (r * th g)).
    { subst ty. pose proof (Z.mul_div_le (py - gy0 g) (r * th g) Dy). pose proof (Z.mod_pos_bound (py - gy0 g) (r * th g) Dy).
      pose proof (Z.div_mod (py - gy0 g) (r * th g)). lia. }
    split.
    + exists mx, (mx + sx). nia.
    + exists my, (my + sy). nia.
Qed.

(* ---------------- the invariant of the rectangle along the chain *)
Lemma side_step s d s' d' c u a b aM bM :
  0 < c -> s = c * s' -> d' <= d ->
  side_ok s d (u, a, b) ->
  (exists m m', aM = m * s /\ bM = m' * s /\ aM <= u < bM) ->
  side_ok s' d' (u, Z.max a aM, Z.min b bM).
Proof.
  intros Hc -> Hd [Hlo Hhi] (m & m' & -> & -> & Hu). split.
  - destruct (Z.max_spec a (m * (c * s'))) as [[_ ->]|[_ ->]].
    + right. exists (m * c). split; lia.
    + destruct Hlo as [Hlo|(k & -> & Hlo)]; [left; lia|right; exists (k * c); split; lia].
  - destruct (Z.min_spec b (m' * (c * s'))) as [[_ ->]|[_ ->]].
    + destruct Hhi as [Hhi|(k & -> & Hhi)]; [left; lia|right; exists (k * c); split; lia].
    + right. exists (m' * c). split; lia.
Qed.

Definition sides_ok (g : grid) (l : Z) (cur : bbox) (px py : Z) : Prop :=
  side_ok (res_at g l * tw g) (res_at g l / 10) (ax_x g cur px) /\
  side_ok (res_at g l * th g) (res_at g l / 10) (ax_y g cur py).

Lemma inset_sides_ok g l cur px py : inset cur (res_at g l / 10) px py -> sides_ok g l cur px py.
Proof.
  destruct cur as [[[b0 b1] b2] b3]. cbn [inset]. intros [Hx Hy]. unfold sides_ok, ax_x, ax_y.
  destruct (ul g); cbn [side_ok]; repeat split; left; lia.
Qed.

Lemma ax_x_limit g cur M px :
  ax_x g (limit_sub_bbox cur M) px =
  (fst (fst (ax_x g cur px)), Z.max (snd (fst (ax_x g cur px))) (snd (fst (ax_x g M px))),
   Z.min (snd (ax_x g cur px)) (snd (ax_x g M px))).
Proof.
  destruct cur as [[[c0 c1] c2] c3], M as [[[m0 m1] m2] m3]. cbn [limit_sub_bbox ax_x fst snd]. f_equal; [f_equal|]; lia.
Qed.

Lemma ax_y_limit g cur M py :
  ax_y g (limit_sub_bbox cur M) py =
  (fst (fst (ax_y g cur py)), Z.max (snd (fst (ax_y g cur py))) (snd (fst (ax_y g M py))),
   Z.min (snd (ax_y g cur py)) (snd (ax_y g M py))).
Proof.
  destruct cur as [[[c0 c1] c2] c3], M as [[[m0 m1] m2] m3]. cbn [limit_sub_bbox ax_y]. destruct (ul g); cbn [fst snd].
  - replace (gy1 g - Z.min c3 m3) with (Z.max (gy1 g - c3) (gy1 g - m3)) by lia.
    replace (gy1 g - Z.max c1 m1) with (Z.min (gy1 g - c1) (gy1 g - m1)) by lia. reflexivity.
  - replace (Z.max c1 m1 - gy0 g) with (Z.max (c1 - gy0 g) (m1 - gy0 g)) by lia.
    replace (Z.min c3 m3 - gy0 g) with (Z.min (c3 - gy0 g) (m3 - gy0 g)) by lia. reflexivity.
Qed.

Lemma ax_x_u g cur M px : fst (fst (ax_x g M px)) = fst (fst (ax_x g cur px)).
Proof. destruct cur as [[[c0 c1] c2] c3], M as [[[m0 m1] m2] m3]. reflexivity. Qed.
Lemma ax_y_u g cur M py : fst (fst (ax_y g M py)) = fst (fst (ax_y g cur py)).
Proof. destruct cur as [[[c0 c1] c2] c3], M as [[[m0 m1] m2] m3]. cbn [ax_y]. destruct (ul g); reflexivity. Qed.

Lemma sides_step g msx msy l cur px py c :
  geo_wf g msx msy -> valid_level g l = true ->
  0 < c -> res_at g l = c * res_at g (l + 1) ->
  sides_ok g l cur px py ->
  sides_ok g (l + 1) (limit_sub_bbox cur (meta_bbox g msx msy (point_meta g msx msy px py l))) px py.
Proof.
  intros Hwf Hv Hc Hres [Hx Hy]. pose proof (geo_res_pos g msx msy l Hwf Hv) as Hr.
  destruct (meta_axes g msx msy px py l Hwf Hv) as [Mx My].
  set (M := meta_bbox g msx msy (point_meta g msx msy px py l)) in *.
  assert (Hr1 : 0 < res_at g (l + 1)) by nia.
  assert (Hd : res_at g (l + 1) / 10 <= res_at g l / 10) by (apply Z.div_le_mono; nia).
  split.
  - rewrite ax_x_limit. pose proof (ax_x_u g cur M px) as Hu.
    destruct (ax_x g cur px) as [[u a] b]. destruct (ax_x g M px) as [[u' aM] bM]. cbn [fst snd] in *. subst u'.
    eapply (side_step (res_at g l * tw g) (res_at g l / 10) _ _ c); eauto. rewrite Hres. ring.
  - rewrite ax_y_limit. pose proof (ax_y_u g cur M py) as Hu.
    destruct (ax_y g cur py) as [[u a] b]. destruct (ax_y g M py) as [[u' aM] bM]. cbn [fst snd] in *. subst u'.
    eapply (side_step (res_at g l * th g) (res_at g l / 10) _ _ c); eauto. rewrite Hres. ring.
Qed.

Lemma sides_selected g msx msy cur px py l :
  geo_wf g msx msy -> valid_level g l = true -> point_in_grid g px py l ->
  sides_ok g l cur px py ->
  In (Some (point_meta g msx msy px py l)) (affected_tiles g msx msy cur l).
Proof.
  intros Hwf Hv Hg [Hx Hy]. pose proof (geo_res_pos g msx msy l Hwf Hv) as Hr.
  pose proof Hwf as (Htw & Hth & _).
  assert (Hd0 : 0 <= res_at g l / 10) by (apply Z.div_pos; lia).
  assert (Hd1 : 2 * (res_at g l / 10) <= res_at g l) by (pose proof (Z.mul_div_le (res_at g l) 10 ltac:(lia)); lia).
  apply point_selected_gen; try assumption; cbv zeta.
  - destruct (ax_x g cur px) as [[u a] b]. cbn [fst]. apply axis_sel; try assumption; nia.
  - destruct (ax_y g cur py) as [[u a] b]. cbn [fst]. apply axis_sel; try assumption; nia.
Qed.

Lemma point_chain_nested g msx msy cov px py :
  geo_wf g msx msy ->
  forall n cur l,
    (forall k, l <= k < l + Z.of_nat n ->
               valid_level g k = true /\ point_in_grid g px py k /\
               cov (meta_bbox g msx msy (point_meta g msx msy px py k)) <> 0) ->
    sides_ok g l cur px py ->
    (forall k, l <= k < l + Z.of_nat n - 1 -> exists c, 0 < c /\ res_at g k = c * res_at g (k + 1)) ->
    chain_ok g msx msy cov cur l (point_chain g msx msy px py l n).
Proof.
  intros Hwf. induction n as [|n IH]; intros cur l Hk Hs Hnest; cbn [point_chain chain_ok]; [exact I|].
  destruct (Hk l ltac:(lia)) as (Hv & Hg & Hc).
  split; [apply sides_selected; assumption|]. split; [exact Hc|].
  destruct n as [|n]; [exact I|].
  destruct (Hnest l ltac:(lia)) as (c & Hc0 & Hres).
  apply IH.
  - intros k Hk'. apply Hk. lia.
  - eapply sides_step; eauto.
  - intros k Hk'. apply Hnest. lia.
Qed.

(* walk_complete_nested: on a pyramid whose resolutions are integer multiples of the next level's (factor 2 grids) a point
   that lies at least 1/10 pixel of level 0 inside the start rectangle needs no further interiority: if at every level
   k <= L its tile is a tile of the grid and the meta tile owning it is not NONE for the coverage, the meta tile owning
   it at the seeded level L is handed to the workers *)
Lemma walk_complete_nested_lemma g msx msy cov skipk levels root px py L :
  geo_wf g msx msy -> levels_wf g levels -> In L levels ->
  (forall k, 0 <= k <= L ->
             valid_level g k = true /\ point_in_grid g px py k /\
             cov (meta_bbox g msx msy (point_meta g msx msy px py k)) <> 0) ->
  inset root (res_at g 0 / 10) px py ->
  (forall k, 0 <= k < L -> exists c, 0 < c /\ res_at g k = c * res_at g (k + 1)) ->
  In (point_meta g msx msy px py L) (procs (geo_walk g msx msy cov skipk levels root None)).
Proof.
  intros Hwf Hl HL Hk Hroot Hnest.
  assert (HL0 : 0 <= L).
  { destruct Hl as [_ Hval]. pose proof (Hval L HL) as Hv. unfold valid_level in Hv. apply andb_true_iff in Hv.
    rewrite Z.leb_le in Hv. lia. }
  pose proof (walk_complete_chain_lemma g msx msy cov skipk levels root
                (point_chain g msx msy px py 0 (S (Z.to_nat L))) Hwf Hl ltac:(discriminate)) as H.
  rewrite point_chain_last, point_chain_length in H. rewrite Z2Nat.id in H by lia. cbn [Z.add] in H.
  apply H.
  - apply point_chain_nested; [assumption| | |].
    + intros k Hk'. apply Hk. lia.
    + apply inset_sides_ok. exact Hroot.
    + intros k Hk'. apply Hnest. lia.
  - replace (Z.of_nat (S (Z.to_nat L)) - 1) with L by lia. exact HL.
Qed.

(* non-vacuity of walk_complete_nested: the point (5120, 3000) lies ON a tile edge of levels 1 and 2 of ex_grid *)
Example ex_nested_premises :
  (forall k, 0 <= k <= 2 ->
             valid_level ex_grid k = true /\ point_in_grid ex_grid 5120 3000 k /\
             cov_bboxes [ex_cov] (meta_bbox ex_grid 1 1 (point_meta ex_grid 1 1 5120 3000 k)) <> 0) /\
  inset ex_cov (res_at ex_grid 0 / 10) 5120 3000 /\
  (forall k, 0 <= k < 2 -> exists c, 0 < c /\ res_at ex_grid k = c * res_at ex_grid (k + 1)) /\
  ~ inset (meta_bbox ex_grid 1 1 (point_meta ex_grid 1 1 5120 3000 1)) (res_at ex_grid 2 / 10) 5120 3000.
Proof.
  split; [|split; [|split]].
  - intros k Hk. assert (H : k = 0 \/ k = 1 \/ k = 2) by lia.
    destruct H as [H|[H|H]]; subst k; vm_compute; repeat split; congruence.
  - vm_compute. repeat split; congruence.
  - intros k Hk. assert (H : k = 0 \/ k = 1) by lia.
    destruct H as [H|H]; subst k; exists 2; vm_compute; split; reflexivity.
  - vm_compute. intros [[H _] _]. apply H. reflexivity.
Qed.

Example ex_nested_conclusion :
  point_meta ex_grid 1 1 5120 3000 2 = (2, 1, 2) /\
  In (2, 1, 2) (procs (geo_walk ex_grid 1 1 (cov_bboxes [ex_cov]) 0 [0; 1; 2] ex_cov None)).
Proof. vm_compute. split; [reflexivity|]. tauto. Qed.

(* ------------------------------------------------------------------ the running() hook *)

(* with a running() hook that never answers False the walker with the stop path is the walker of the theorems *)
Lemma run_node_s_never n : forall old w,
    run_node_s old n (mkS w None false) = (fst (run_node old n w), mkS (snd (run_node old n w)) None false).
Proof.
  induction n as [|lv proc rep total subs IH] using wnode_ind2; intros old w; [reflexivity|].
  cbn [run_node_s run_node scnt sw].
  assert (H : forall i w,
             run_subs_s (run_node_s old) old lv proc total subs i (mkS w None false) =
             (fst (run_subs (run_node old) old lv proc total subs i w),
              mkS (snd (run_subs (run_node old) old lv proc total subs i w)) None false)).
  { clear w. induction subs as [|s r IHr]; intros i w; cbn [run_subs_s run_subs]; [reflexivity|].
    specialize (IHr (fun t c H => IH t c (or_intror H))).
    assert (Hs : run_sub_s (run_node_s old) old lv proc total i s (mkS w None false) =
                 (fst (run_sub (run_node old) old lv proc total i s w),
                  mkS (snd (run_sub (run_node old) old lv proc total i s w)) None false)).
    { destruct s as [|t|t c]; cbn [run_sub_s run_sub sw scnt shalt].
      - reflexivity.
      - destruct (do_process proc lv t w); reflexivity.
      - cbv zeta. cbn [ps dq].
        destruct (already_processed old (step_down_enter (ps w) i total)).
        + cbn [shalt sw scnt ps dq]. destruct (do_process proc lv t _); reflexivity.
        + rewrite (IH t c (or_introl eq_refl)). destruct (run_node old c _) as [evc stc]. cbn [fst snd shalt sw scnt].
          destruct (do_process proc lv t _); reflexivity. }
    rewrite Hs. destruct (run_sub (run_node old) old lv proc total i s w) as [ev1 w1]. cbn [fst snd shalt].
    rewrite IHr. destruct (run_subs (run_node old) old lv proc total r (i + 1) w1). reflexivity. }
  rewrite H. destruct (run_subs (run_node old) old lv proc total subs 0 w). reflexivity.
Qed.

Lemma run_walk_s_never old tree flv : run_walk_s old tree flv None = run_walk old tree flv.
Proof.
  unfold run_walk_s, run_walk, run_walk_raw. destruct (already_processed old (ps st0)); [reflexivity|].
  rewrite run_node_s_never. destruct (run_node old tree st0). reflexivity.
Qed.

(* ------------------------------------------------------------------ nothing else, without cov_monotone:
   a meta tile that get_affected_level_tiles selects for a rectangle overlaps that rectangle with positive area *)

(* a rectangle with positive width and height *)
Definition proper (b : bbox) : Prop := let '(b0, b1, b2, b3) := b in b0 < b2 /\ b1 < b3.

(* the quantum of the integer coordinates is at most 1/10 pixel of every level, so that the 1/10-pixel inset of
   get_affected_level_tiles (res / 10) is not rounded to zero *)
Definition fine_res (g : grid) : Prop := forall r, In r (ress g) -> 10 <= r.

(* m and c overlap with positive area, and m has positive area *)
Definition overlaps (m c : bbox) : Prop :=
  let '(m0, m1, m2, m3) := m in
  let '(c0, c1, c2, c3) := c in
  m0 < m2 /\ m1 < m3 /\ m0 < c2 /\ c0 < m2 /\ m1 < c3 /\ c1 < m3.

Lemma in_up_range_bounds x a b s : 0 < s -> In x (up_range a b s) -> a <= x <= b.
Proof.
  intros Hs H. unfold up_range in H. apply in_map_iff in H. destruct H as (k & <- & Hk). apply in_seq in Hk.
  destruct (Z_lt_le_dec (b - a) 0) as [Hneg|Hpos].
  - assert ((b - a) / s < 0) by (apply Z.div_lt_upper_bound; lia). lia.
  - pose proof (Z.mul_div_le (b - a) s Hs). assert (Z.of_nat k <= (b - a) / s) by lia. nia.
Qed.

Lemma in_down_range_bounds x a b s : 0 < s -> In x (down_range a b s) -> b <= x <= a.
Proof.
  intros Hs H. unfold down_range in H. apply in_map_iff in H. destruct H as (k & <- & Hk). apply in_seq in Hk.
  destruct (Z_lt_le_dec (a - b) 0) as [Hneg|Hpos].
  - assert ((a - b) / s < 0) by (apply Z.div_lt_upper_bound; lia). lia.
  - pose proof (Z.mul_div_le (a - b) s Hs). assert (Z.of_nat k <= (a - b) / s) by lia. nia.
Qed.

(* one axis: a meta column x between the aligned columns of the two corner points owns a stretch between them *)
Lemma axis_overlap D s p0 p1 x :
  0 < D -> 0 < s ->
  p0 / (2 * D) / s * s <= x <= p1 / (2 * D) / s * s ->
  x / s * s * (2 * D) <= p1 /\ p0 < (x / s * s + s) * (2 * D).
Proof.
  intros HD Hs [Hlo Hhi].
  set (t0 := p0 / (2 * D)) in *. set (t1 := p1 / (2 * D)) in *.
  assert (H2D : 0 < 2 * D) by lia.
  pose proof (Z.mul_div_le p1 (2 * D) H2D) as Hp1. fold t1 in Hp1.
  pose proof (Z.mod_pos_bound p0 (2 * D) H2D) as Hm0. pose proof (Z.div_mod p0 (2 * D)) as Hd0. fold t0 in Hd0.
  pose proof (Z.mul_div_le t1 s Hs) as Ht1.
  pose proof (Z.mul_div_le x s Hs) as Hx.
  assert (Hmx : t0 / s * s <= x / s * s).
  { apply Z.mul_le_mono_nonneg_r; [lia|]. rewrite <- (Z.div_mul (t0 / s) s) at 1 by lia. apply Z.div_le_mono; lia. }
  pose proof (Z.mod_pos_bound t0 s Hs) as Hm1. pose proof (Z.div_mod t0 s) as Hd1.
  set (mx := x / s * s) in *. set (q0 := t0 / s * s) in *.
  assert (Hq0 : t0 < q0 + s) by (subst q0; lia).
  split.
  - assert (mx <= t1) by lia. nia.
  - assert (t0 + 1 <= mx + s) by lia. nia.
Qed.

Lemma selected_overlaps g msx msy cur l t :
  geo_wf g msx msy -> fine_res g -> valid_level g l = true -> proper cur ->
  In (Some t) (affected_tiles g msx msy cur l) ->
  overlaps (meta_bbox g msx msy t) cur.
Proof.
  intros Hwf Hfine Hv Hp Hin. pose proof (geo_res_pos g msx msy l Hwf Hv) as Hr.
  assert (Hr10 : 10 <= res_at g l).
  { unfold valid_level, levels in Hv. unfold res_at. apply Hfine. apply nth_In.
    apply andb_true_iff in Hv. destruct Hv as [H1 H2]. apply Z.leb_le in H1. apply Z.ltb_lt in H2. lia. }
  destruct Hwf as (Htw & Hth & _ & Hmx & Hmy).
  destruct cur as [[[bx0 by0] bx1] by1]. cbn [proper] in Hp. destruct Hp as [Hpx Hpy].
  unfold affected_tiles, meta_affected, tile2 in Hin. unfold meta_bbox.
  set (r := res_at g l) in *. set (delta := r / 10) in *.
  assert (Hd : 0 < delta) by (subst delta; apply Z.div_str_pos; lia).
  set (minx2 := if bx1 - delta <? bx0 + delta then bx0 + bx1 else 2 * (bx0 + delta)) in *.
  set (maxx2 := if bx1 - delta <? bx0 + delta then bx0 + bx1 else 2 * (bx1 - delta)) in *.
  set (miny2 := if by1 - delta <? by0 + delta then by0 + by1 else 2 * (by0 + delta)) in *.
  set (maxy2 := if by1 - delta <? by0 + delta then by0 + by1 else 2 * (by1 - delta)) in *.
  assert (Hx : 2 * bx0 < minx2 /\ maxx2 < 2 * bx1) by (subst minx2 maxx2; destruct (bx1 - delta <? bx0 + delta); lia).
  assert (Hy : 2 * by0 < miny2 /\ maxy2 < 2 * by1) by (subst miny2 maxy2; destruct (by1 - delta <? by0 + delta); lia).
  clearbody minx2 maxx2 miny2 maxy2.
  destruct (meta_size g msx msy l) as [sx sy] eqn:Ems.
  assert (Hs : 0 < sx /\ 0 < sy).
  { unfold meta_size, grid_size in Ems. injection Ems as <- <-. unfold axis_tiles. lia. }
  destruct Hs as [Hsx Hsy].
  set (Dx := r * tw g) in *. set (Dy := r * th g) in *.
  assert (HDx : 0 < Dx) by (subst Dx; nia). assert (HDy : 0 < Dy) by (subst Dy; nia).
  set (X0 := (minx2 - 2 * gx0 g) / (2 * Dx) / sx * sx) in *.
  set (X1 := (maxx2 - 2 * gx0 g) / (2 * Dx) / sx * sx) in *.
  destruct t as [[x y] lt].
  destruct (ul g) eqn:Eul.
  - set (Y0 := (2 * gy1 g - miny2) / (2 * Dy) / sy * sy) in *.
    set (Y1 := (2 * gy1 g - maxy2) / (2 * Dy) / sy * sy) in *.
    destruct (up_range X0 X1 sx) as [|hx rx] eqn:Ex; [destruct Hin|].
    destruct (up_range Y1 Y0 sy) as [|hy ry] eqn:Ey; [destruct Hin|].
    apply in_create_tile_list in Hin. destruct Hin as (x' & y' & Hxin & Hyin & E & _ & _).
    injection E as -> -> ->. rewrite <- Ex in Hxin. rewrite <- Ey in Hyin.
    apply in_up_range_bounds in Hxin; [|assumption]. apply in_up_range_bounds in Hyin; [|assumption].
    rewrite Ems.
    destruct (axis_overlap Dx sx _ _ x' HDx Hsx Hxin) as [Ax0 Ax1].
    destruct (axis_overlap Dy sy _ _ y' HDy Hsy Hyin) as [Ay0 Ay1].
    set (mx := x' / sx * sx) in *. set (my := y' / sy * sy) in *.
    unfold tile_bbox, merge_bbox. rewrite Eul. fold r.
    rewrite <- !(Z.mul_assoc _ r (tw g)), <- !(Z.mul_assoc _ r (th g)). fold Dx Dy.
    assert (0 <= (sx - 1) * Dx) by nia. assert (0 <= (sy - 1) * Dy) by nia.
    cbn [overlaps]. lia.
  - set (Y0 := (miny2 - 2 * gy0 g) / (2 * Dy) / sy * sy) in *.
    set (Y1 := (maxy2 - 2 * gy0 g) / (2 * Dy) / sy * sy) in *.
    destruct (up_range X0 X1 sx) as [|hx rx] eqn:Ex; [destruct Hin|].
    destruct (down_range Y1 Y0 sy) as [|hy ry] eqn:Ey; [destruct Hin|].
    apply in_create_tile_list in Hin. destruct Hin as (x' & y' & Hxin & Hyin & E & _ & _).
    injection E as -> -> ->. rewrite <- Ex in Hxin. rewrite <- Ey in Hyin.
    apply in_up_range_bounds in Hxin; [|assumption]. apply in_down_range_bounds in Hyin; [|assumption].
    rewrite Ems.
    destruct (axis_overlap Dx sx _ _ x' HDx Hsx Hxin) as [Ax0 Ax1].
    destruct (axis_overlap Dy sy _ _ y' HDy Hsy Hyin) as [Ay0 Ay1].
    set (mx := x' / sx * sx) in *. set (my := y' / sy * sy) in *.
    unfold tile_bbox, merge_bbox. rewrite Eul. fold r.
    rewrite <- !(Z.mul_assoc _ r (tw g)), <- !(Z.mul_assoc _ r (th g)). fold Dx Dy.
    assert (0 <= (sx - 1) * Dx) by nia. assert (0 <= (sy - 1) * Dy) by nia.
    cbn [overlaps]. lia.
Qed.

Lemma overlaps_limit_proper cur sb : proper cur -> overlaps sb cur -> proper (limit_sub_bbox cur sb).
Proof. destruct cur as [[[c0 c1] c2] c3], sb as [[[s0 s1] s2] s3]. cbn. lia. Qed.

Lemma overlaps_inside m cur b : overlaps m cur -> bbox_inside cur b -> bbox_intersects m b = true.
Proof.
  destruct cur as [[[c0 c1] c2] c3], m as [[[m0 m1] m2] m3], b as [[[b0 b1] b2] b3]. cbn.
  intros H1 H2. rewrite !andb_true_iff, !Z.ltb_lt. lia.
Qed.

(* a property of the coverage alone: when the coverage CONTAINS a rectangle b, no rectangle that overlaps b with
   positive area is NONE *)
Definition cov_overlap_monotone (cov : bbox -> Z) : Prop :=
  forall b m, cov b = -1 -> bbox_intersects m b = true -> cov m <> 0.

Section GeoSound2.
  Variable g : grid.
  Variables msx msy : Z.
  Variable cov : bbox -> Z.
  Variable rtl : Z.
  Hypothesis Hwf : geo_wf g msx msy.
  Hypothesis Hfine : fine_res g.
  Hypothesis Hmono : cov_overlap_monotone cov.

  Lemma geo_tree_sound2 fuel : forall cur levels l all,
      proper cur ->
      (all = true -> exists b, cov b = -1 /\ bbox_inside cur b) ->
      forall t, In t (tree_tiles (geo_tree g msx msy cov 0 rtl fuel cur levels l all)) ->
                cov (meta_bbox g msx msy t) <> 0.
  Proof.
    induction fuel as [|f IH]; intros cur levels l all Hp Hall t Hin; cbn [geo_tree] in Hin; [destruct Hin|].
    destruct (valid_level g l) eqn:Hv; cbn [negb] in Hin; [|destruct Hin].
    assert (Haff : forall t', In (Some t') (match meta_affected g msx msy cur l with MAff _ _ ts => ts | MInvalid => [] end) ->
                              overlaps (meta_bbox g msx msy t') cur).
    { intros t' Ht'. apply (selected_overlaps g msx msy cur l t' Hwf Hfine Hv Hp). exact Ht'. }
    destruct (meta_affected g msx msy cur l) as [nx ny tiles|]; [|destruct Hin].
    replace (Z.of_nat (length levels) <? 0) with false in Hin by (symmetry; apply Z.ltb_ge; lia).
    cbn [tree_tiles] in Hin. apply in_flat_map in Hin. destruct Hin as (s & Hs & Ht).
    apply in_map_iff in Hs. destruct Hs as (ot & <- & Hot).
    destruct ot as [t0|]; cbn [geo_sub] in Ht; [|destruct Ht].
    pose proof (Haff t0 Hot) as Hov.
    set (sb := meta_bbox g msx msy t0) in *.
    destruct ((if all then -1 else cov sb) =? 0) eqn:E0; [destruct Ht|].
    apply Z.eqb_neq in E0.
    assert (Ht0 : cov sb <> 0).
    { destruct all; [|exact E0]. destruct (Hall eq_refl) as (b & Hb & Hins).
      apply (Hmono b sb Hb). eapply overlaps_inside; eauto. }
    destruct (if mem_z l levels then tl levels else levels) as [|l1 lr] eqn:El; cbn [sub_tiles] in Ht.
    - destruct Ht as [<-|[]]. exact Ht0.
    - destruct Ht as [<-|Ht]; [exact Ht0|].
      eapply IH; [| |exact Ht].
      + apply overlaps_limit_proper; assumption.
      + intros Hc. apply Z.eqb_eq in Hc.
        destruct all.
        * destruct (Hall eq_refl) as (b & Hb & Hins). exists b. split; [assumption|]. apply limit_inside_trans. assumption.
        * exists sb. split; [assumption|]. apply limit_inside_sub.
  Qed.
End GeoSound2.

(* nothing else, with a hypothesis about the coverage only *)
Lemma walk_sound_overlap_lemma g msx msy cov levels root old t :
  geo_wf g msx msy -> fine_res g -> levels_wf g levels -> levels <> [] -> proper root ->
  cov_overlap_monotone cov ->
  In t (procs (geo_walk g msx msy cov 0 levels root old)) ->
  cov (meta_bbox g msx msy t) <> 0.
Proof.
  intros Hwf Hfine Hl Hne Hp Hm Hin. unfold geo_walk in Hin.
  apply (resume_nothing_else _ _ _ (geo_walk_err_free g msx msy cov 0 levels root Hwf Hl Hne)) in Hin.
  apply full_incl_tree_tiles in Hin.
  eapply geo_tree_sound2; [exact Hwf|exact Hfine|exact Hm|exact Hp| |exact Hin]. discriminate.
Qed.

(* ---- bbox coverages and multi coverages of bboxes *)

(* the relative tolerance 1e-13 of bbox_contains is below the coordinate quantum: containment is exact *)
Definition exact_tol (cs : list bbox) : Prop :=
  forall c, In c cs -> let '(c0, c1, c2, c3) := c in Z.abs (c2 - c0) < ten13 /\ Z.abs (c3 - c1) < ten13.

Lemma contains_tol_exact c b :
  (let '(c0, c1, c2, c3) := c in Z.abs (c2 - c0) < ten13 /\ Z.abs (c3 - c1) < ten13) ->
  bbox_contains_tol c b = true -> bbox_inside b c.
Proof.
  destruct c as [[[c0 c1] c2] c3], b as [[[b0 b1] b2] b3]. unfold bbox_contains_tol, bbox_inside, ten13.
  intros [Hx Hy] H. rewrite !andb_true_iff, !Z.leb_le in H. lia.
Qed.

Lemma intersects_inside m b c : bbox_intersects m b = true -> bbox_inside b c -> bbox_intersects c m = true.
Proof.
  destruct c as [[[c0 c1] c2] c3], m as [[[m0 m1] m2] m3], b as [[[b0 b1] b2] b3]. cbn.
  rewrite !andb_true_iff, !Z.ltb_lt. lia.
Qed.

Lemma cov_bboxes_overlap_monotone cs : exact_tol cs -> cov_overlap_monotone (cov_bboxes cs).
Proof.
  intros Htol b m Hb Hi. unfold cov_bboxes in *.
  destruct (existsb (fun c => bbox_contains_tol c b) cs) eqn:Eb.
  - apply existsb_exists in Eb. destruct Eb as (c & Hc & Hcb).
    pose proof (contains_tol_exact c b (Htol c Hc) Hcb) as Hins.
    destruct (existsb (fun c0 => bbox_contains_tol c0 m) cs); [discriminate|].
    replace (existsb (fun c0 => bbox_intersects c0 m) cs) with true; [discriminate|].
    symmetry. apply existsb_exists. exists c. split; [exact Hc|]. eapply intersects_inside; eauto.
  - destruct (existsb (fun c => bbox_intersects c b) cs); discriminate.
Qed.

Lemma cov_bboxes_not_none cs m :
  cov_bboxes cs m <> 0 <->
  exists c, In c cs /\ (bbox_contains_tol c m = true \/ bbox_intersects c m = true).
Proof.
  unfold cov_bboxes. split.
  - destruct (existsb (fun c => bbox_contains_tol c m) cs) eqn:E1.
    + intros _. apply existsb_exists in E1. destruct E1 as (c & Hc & H). eauto.
    + destruct (existsb (fun c => bbox_intersects c m) cs) eqn:E2; [|congruence].
      intros _. apply existsb_exists in E2. destruct E2 as (c & Hc & H). eauto.
  - intros (c & Hc & [H|H]).
    + replace (existsb (fun c => bbox_contains_tol c m) cs) with true; [discriminate|].
      symmetry. apply existsb_exists. eauto.
    + destruct (existsb (fun c => bbox_contains_tol c m) cs); [discriminate|].
      replace (existsb (fun c => bbox_intersects c m) cs) with true; [discriminate|].
      symmetry. apply existsb_exists. eauto.
Qed.

(* nothing else for a seed task whose coverage is a bbox or a multi coverage of bboxes: closed statement *)
Lemma walk_sound_bboxes_lemma g msx msy cs levels root old t :
  geo_wf g msx msy -> fine_res g -> levels_wf g levels -> levels <> [] -> proper root -> exact_tol cs ->
  In t (procs (geo_walk g msx msy (cov_bboxes cs) 0 levels root old)) ->
  exists c, In c cs /\ (bbox_contains_tol c (meta_bbox g msx msy t) = true \/ bbox_intersects c (meta_bbox g msx msy t) = true).
Proof.
  intros Hwf Hfine Hl Hne Hp Htol Hin. apply cov_bboxes_not_none.
  eapply walk_sound_overlap_lemma; eauto. apply cov_bboxes_overlap_monotone. exact Htol.
Qed.

(* the old hypothesis is a consequence: cov_monotone holds below proper rectangles *)
Example ex_fine : fine_res ex_grid.
Proof. intros r [<-|[<-|[<-|[]]]]; lia. Qed.
Example ex_exact_tol : exact_tol [ex_cov].
Proof. intros c [<-|[]]. cbn. unfold ten13. lia. Qed.
Example ex_proper : proper ex_cov.
Proof. cbn. lia. Qed.
Example ex_bboxes_processed :
  procs (geo_walk ex_grid 1 1 (cov_bboxes [ex_cov]) 0 [0; 1; 2] ex_cov None) <> [].
Proof. vm_compute. discriminate. Qed.

(* fine_res is needed in the integer model: with a resolution below 10 quanta the inset res / 10 is 0 and a tile that
   merely touches the rectangle is listed (in the implementation the inset is never zero) *)
Definition ex_coarse_grid : grid := mkGrid 0 0 8 8 1 1 [4; 2] false 23 20 4 1.
Lemma walk_sound_coarse_quantum_refuted_lemma :
  exists g msx msy cs levels root t,
    geo_wf g msx msy /\ levels_wf g levels /\ levels <> [] /\ proper root /\ exact_tol cs /\
    In t (procs (geo_walk g msx msy (cov_bboxes cs) 0 levels root None)) /\
    cov_bboxes cs (meta_bbox g msx msy t) = 0.
Proof.
  exists ex_coarse_grid, 1, 1, [(0, 0, 4, 4)], [1], (0, 0, 4, 4), (2, 0, 1).
  split; [|split; [|split; [|split; [|split; [|split]]]]].
  - unfold geo_wf. cbn [tw th ress ex_coarse_grid]. repeat split; try lia. intros r [<-|[<-|[]]]; lia.
  - split; [repeat constructor|]. intros x [<-|[]]. reflexivity.
  - discriminate.
  - cbn. lia.
  - intros c [<-|[]]. cbn. unfold ten13. lia.
  - vm_compute. tauto.
  - vm_compute. reflexivity.
Qed.

(* ------------------------------------------------------------------ nothing outside the start rectangle, for every
   coverage predicate and every skip_geoms_for_last_levels *)
Lemma overlaps_mono m a b : overlaps m a -> bbox_inside a b -> overlaps m b.
Proof.
  destruct a as [[[a0 a1] a2] a3], m as [[[m0 m1] m2] m3], b as [[[b0 b1] b2] b3]. cbn. lia.
Qed.

Lemma limit_inside_cur cur sb : bbox_inside (limit_sub_bbox cur sb) cur.
Proof. destruct cur as [[[c0 c1] c2] c3], sb as [[[s0 s1] s2] s3]. cbn. lia. Qed.

Lemma geo_tree_in_rect g msx msy cov skipk rtl :
  geo_wf g msx msy -> fine_res g ->
  forall fuel cur levels l all, proper cur ->
    forall t, In t (tree_tiles (geo_tree g msx msy cov skipk rtl fuel cur levels l all)) ->
              overlaps (meta_bbox g msx msy t) cur.
Proof.
  intros Hwf Hfine. induction fuel as [|f IH]; intros cur levels l all Hp t Hin; cbn [geo_tree] in Hin; [destruct Hin|].
  destruct (valid_level g l) eqn:Hv; cbn [negb] in Hin; [|destruct Hin].
  assert (Haff : forall t', In (Some t') (match meta_affected g msx msy cur l with MAff _ _ ts => ts | MInvalid => [] end) ->
                            overlaps (meta_bbox g msx msy t') cur).
  { intros t' Ht'. apply (selected_overlaps g msx msy cur l t' Hwf Hfine Hv Hp). exact Ht'. }
  destruct (meta_affected g msx msy cur l) as [nx ny tiles|]; [|destruct Hin].
  cbn [tree_tiles] in Hin. apply in_flat_map in Hin. destruct Hin as (s & Hs & Ht).
  apply in_map_iff in Hs. destruct Hs as (ot & <- & Hot).
  destruct ot as [t0|]; cbn [geo_sub] in Ht; [|destruct Ht].
  pose proof (Haff t0 Hot) as Hov.
  set (sb := meta_bbox g msx msy t0) in *.
  match type of Ht with context [if ?c then SNone else _] => destruct c end; [destruct Ht|].
  destruct (if mem_z l levels then tl levels else levels) as [|l1 lr] eqn:El; cbn [sub_tiles] in Ht.
  - destruct Ht as [<-|[]]. exact Hov.
  - destruct Ht as [<-|Ht]; [exact Hov|].
    eapply overlaps_mono; [|apply (limit_inside_cur cur sb)].
    eapply IH; [|exact Ht]. apply overlaps_limit_proper; assumption.
Qed.

Lemma walk_within_start_rect_lemma g msx msy cov skipk levels root old t :
  geo_wf g msx msy -> fine_res g -> levels_wf g levels -> levels <> [] -> proper root ->
  In t (procs (geo_walk g msx msy cov skipk levels root old)) ->
  overlaps (meta_bbox g msx msy t) root.
Proof.
  intros Hwf Hfine Hl Hne Hp Hin. unfold geo_walk in Hin.
  apply (resume_nothing_else _ _ _ (geo_walk_err_free g msx msy cov skipk levels root Hwf Hl Hne)) in Hin.
  apply full_incl_tree_tiles in Hin.
  eapply geo_tree_in_rect; eauto.
Qed.

Example ex_within_start_rect :
  overlaps (meta_bbox ex_grid 1 1 (2, 2, 2)) ex_cov /\
  In (2, 2, 2) (procs (geo_walk ex_grid 1 1 (cov_bboxes [ex_cov]) 0 [0; 1; 2] ex_cov None)).
Proof. vm_compute. repeat split; auto 20. Qed.

(* ------------------------------------------------------------------ the work of a seed worker on one handed list *)

Lemma cache_has_in c t : In t c -> cache_has c t = true.
Proof.
  intros H. unfold cache_has. apply existsb_exists. exists t. split; [exact H|].
  destruct t as [[a b] d]. unfold coord_eqb. rewrite !Z.eqb_refl. reflexivity.
Qed.

Lemma cache_has_app c d t : cache_has (c ++ d) t = cache_has c t || cache_has d t.
Proof. unfold cache_has. apply existsb_app. Qed.

Lemma worker_completes_meta_tile c members t :
  In t members -> cache_has (c ++ worker_stores c members (uncached_members c members)) t = true.
Proof.
  intros Hin. rewrite cache_has_app. unfold worker_stores, create_meta_stores, uncached_members.
  destruct (forallb (cache_has c) members) eqn:Hall.
  - rewrite forallb_forall in Hall. rewrite (Hall t Hin). reflexivity.
  - destruct (cache_has c t) eqn:Ht; [reflexivity|]. cbn [orb].
    assert (Hex : existsb (fun t0 => negb (cache_has c t0)) (filter (fun t0 => negb (cache_has c t0)) members) = true).
    { apply existsb_exists. exists t. split; [|rewrite Ht; reflexivity].
      apply filter_In. split; [exact Hin|rewrite Ht; reflexivity]. }
    rewrite Hex. apply cache_has_in. exact Hin.
Qed.

Lemma interrupted_store_completed_lemma c members j t :
  let c1 := cache_after c (worker_stores c members (uncached_members c members)) j in
  let c2 := c1 ++ worker_stores c1 members (uncached_members c1 members) in
  In t members -> cache_has c2 t = true.
Proof. intros c1 c2 Hin. apply worker_completes_meta_tile. exact Hin. Qed.

Lemma worker_stores_nothing_cached c members handed :
  forallb (cache_has c) members = true -> worker_stores c members handed = [].
Proof.
  intros H. unfold worker_stores, create_meta_stores. rewrite H. destruct (existsb _ handed); reflexivity.
Qed.

(* what goes wrong when the re-check under the lock looks at the lock tile only: the worker died behind the first of four
   tiles; the continued run hands over the other three and nothing is stored *)
Example ex_interrupted_store :
  let members := [(0, 3, 2); (1, 3, 2); (0, 2, 2); (1, 2, 2)] in
  let c1 := cache_after [] (worker_stores [] members (uncached_members [] members)) 1 in
  c1 = [(0, 3, 2)] /\ uncached_members c1 members = [(1, 3, 2); (0, 2, 2); (1, 2, 2)] /\
  worker_stores c1 members (uncached_members c1 members) = members /\
  (if cache_has c1 (0, 3, 2) then [] else members) = [].
Proof. vm_compute. repeat split. Qed.
