(* Proofs about the worker/consumer handshake and the result-object consumers (C15). *)
From Coq Require Import ZArith List Bool Arith Lia.
Import ListNotations.
From MP Require Import Pool Pool_proofs PoolSync.

Lemma existsb_eqb_In i l : existsb (Nat.eqb i) l = true <-> In i l.
Proof. exact (memb_In i l). Qed.

Lemma existsb_eqb_false i l : existsb (Nat.eqb i) l = false <-> ~ In i l.
Proof. exact (memb_false i l). Qed.

(* pigeonhole: n distinct numbers below n are all the numbers below n *)
Lemma nodup_below_all (l : list nat) n :
  NoDup l -> (forall i, In i l -> i < n) -> n <= length l -> forall i, i < n -> In i l.
Proof.
  intros Hnd Hlt Hlen i Hi.
  assert (Hincl : incl (seq 0 n) l).
  { apply NoDup_length_incl; [exact Hnd | rewrite seq_length; exact Hlen |].
    intros x Hx. apply in_seq. specialize (Hlt x Hx). lia. }
  apply Hincl. apply in_seq. lia.
Qed.

(* everything put on a well-formed trace is new, below n, and put once *)
Lemma wfb_puts n sp sd tr :
  wfb n sp sd tr = true ->
  NoDup (puts tr) /\ (forall i, In i (puts tr) -> ~ In i sp /\ i < n).
Proof.
  revert sp sd. induction tr as [|[i|i] r IH]; intros sp sd H; cbn [puts].
  - split; [constructor | intros i []].
  - cbn [wfb] in H. apply andb_prop in H. destruct H as [H Hr]. apply andb_prop in H. destruct H as [Hn Hlt].
    apply negb_true_iff in Hn. apply existsb_eqb_false in Hn. apply Nat.ltb_lt in Hlt.
    destruct (IH _ _ Hr) as [Hnd Hin]. split.
    + constructor; [|exact Hnd]. intros Hi. destruct (Hin i Hi) as [Hni _]. apply Hni. left. reflexivity.
    + intros j [<-|Hj]; [split; assumption|]. destruct (Hin j Hj) as [Hni Hl]. split; [|exact Hl].
      intros Hs. apply Hni. right. exact Hs.
  - cbn [wfb] in H. apply andb_prop in H. destruct H as [_ Hr]. exact (IH _ _ Hr).
Qed.

Lemma visible_puts need tr vis rest : visible need tr = Some (vis, rest) -> puts tr = vis ++ puts rest.
Proof.
  revert need vis rest. induction tr as [|[i|i] r IH]; intros need vis rest H.
  - destruct need; cbn in H; [injection H as <- <-; reflexivity | discriminate].
  - destruct need as [|m]; cbn [visible] in H; [injection H as <- <-; reflexivity|].
    destruct (visible (S m) r) as [[v' r']|] eqn:E; [|discriminate]. injection H as <- <-.
    cbn [puts app]. f_equal. exact (IH _ _ _ E).
  - destruct need as [|m]; cbn [visible] in H; [injection H as <- <-; reflexivity|].
    cbn [puts]. exact (IH _ _ _ H).
Qed.

(* when join returns, every task's result has been put *)
Lemma visible_covers n sp sd tr need vis rest :
  wfb n sp sd tr = true ->
  NoDup sd -> incl sd sp -> (forall i, In i sp -> i < n) -> n <= length sd + need ->
  visible need tr = Some (vis, rest) ->
  forall i, i < n -> In i sp \/ In i vis.
Proof.
  revert sp sd need vis rest. induction tr as [|[j|j] r IH]; intros sp sd need vis rest Hwf Hnd Hinc Hlt Hlen Hvis i Hi.
  - destruct need; cbn in Hvis; [|discriminate]. left. apply Hinc.
    apply (nodup_below_all sd n); [exact Hnd | intros x Hx; apply Hlt, Hinc, Hx | lia | exact Hi].
  - destruct need as [|m].
    + left. apply Hinc. apply (nodup_below_all sd n); [exact Hnd | intros x Hx; apply Hlt, Hinc, Hx | lia | exact Hi].
    + cbn [visible] in Hvis. destruct (visible (S m) r) as [[v' r']|] eqn:E; [|discriminate]. injection Hvis as <- <-.
      cbn [wfb] in Hwf. apply andb_prop in Hwf. destruct Hwf as [H Hr]. apply andb_prop in H. destruct H as [_ Hjn].
      apply Nat.ltb_lt in Hjn.
      destruct (IH (j :: sp) sd (S m) v' r' Hr Hnd) with (i := i) as [[<-|Hs]|Hv]; try assumption.
      * intros x Hx. right. apply Hinc. exact Hx.
      * intros x [<-|Hx]; [exact Hjn | apply Hlt; exact Hx].
      * right. left. reflexivity.
      * left. exact Hs.
      * right. right. exact Hv.
  - destruct need as [|m].
    + left. apply Hinc. apply (nodup_below_all sd n); [exact Hnd | intros x Hx; apply Hlt, Hinc, Hx | lia | exact Hi].
    + cbn [visible] in Hvis. cbn [wfb] in Hwf. apply andb_prop in Hwf. destruct Hwf as [H Hr].
      apply andb_prop in H. destruct H as [Hjs Hjd]. apply existsb_eqb_In in Hjs.
      apply negb_true_iff in Hjd. apply existsb_eqb_false in Hjd.
      apply (IH sp (j :: sd) m vis rest Hr); try assumption.
      * constructor; assumption.
      * intros x [<-|Hx]; [exact Hjs | apply Hinc; exact Hx].
      * cbn [length]. lia.
Qed.

(* the results fetched by the consumer are a permutation of all task indices *)
Lemma handshake_perm n tr vis rest extra :
  wf_trace n tr = true -> visible n tr = Some (vis, rest) ->
  is_perm (vis ++ puts (firstn extra rest)) n.
Proof.
  intros Hwf Hvis. unfold wf_trace in Hwf.
  destruct (wfb_puts _ _ _ _ Hwf) as [Hnd Hin].
  pose proof (visible_puts _ _ _ _ Hvis) as Hp.
  assert (Hsplit : puts rest = puts (firstn extra rest) ++ puts (skipn extra rest)).
  { rewrite <- (firstn_skipn extra rest) at 1.
    generalize (firstn extra rest) (skipn extra rest). intros a b.
    induction a as [|[k|k] a IHa]; cbn [puts app]; [reflexivity | f_equal; exact IHa | exact IHa]. }
  rewrite Hp, Hsplit, app_assoc in Hnd.
  split.
  - exact (NoDup_app_remove_r _ _ Hnd).
  - intros i. split.
    + intros Hi. apply (Hin i). rewrite Hp, Hsplit, app_assoc. apply in_or_app. left. exact Hi.
    + intros Hi. apply in_or_app. left.
      destruct (visible_covers n [] [] tr n vis rest Hwf) with (i := i) as [[]|Hv]; try assumption.
      * constructor.
      * intros x [].
      * intros x [].
      * cbn [length]. lia.
Qed.

(* map_each over any well-formed worker trace delivers everything, in order *)
Lemma map_each_ev_all raise_exc items tr split extra r :
  wf_trace (length items) tr = true ->
  (raise_exc = true -> all_ok items) ->
  map_each_ev raise_exc items tr split extra = Some r -> r = (items, None).
Proof.
  intros Hwf Hok. unfold map_each_ev.
  destruct (visible (length items) tr) as [[vis rest]|] eqn:E; [|discriminate].
  intros H. injection H as <-.
  pose proof (handshake_perm _ _ _ _ extra Hwf E) as Hperm.
  apply map_each_all; [exact Hperm|].
  intros Hr i Hi. apply all_ok_value; [exact (Hok Hr)|]. apply Hperm. exact Hi.
Qed.

(* join does return on a well-formed trace in which every task is eventually marked done *)
Fixpoint dones (tr : list wev) : list nat :=
  match tr with
  | [] => []
  | EPut _ :: r => dones r
  | EDone i :: r => i :: dones r
  end.

Lemma visible_some need tr : need <= length (dones tr) -> exists vr, visible need tr = Some vr.
Proof.
  revert need. induction tr as [|[i|i] r IH]; intros need H.
  - cbn in H. assert (need = 0) as -> by lia. eexists. reflexivity.
  - destruct need as [|m]; [eexists; reflexivity|]. cbn [visible]. cbn [dones] in H.
    destruct (IH (S m) H) as [[v r'] E]. rewrite E. eexists. reflexivity.
  - destruct need as [|m]; [eexists; reflexivity|]. cbn [visible]. cbn [dones length] in H.
    apply IH. lia.
Qed.

(* if task_done were called before put, a result can be lost: the trace put0 done0 done1 put1 *)
Lemma handshake_done_before_put_loses :
  exists items tr, map_each_ev false items tr 0 0 = Some ([Ok 1], None) /\ items = [Ok 1; Ok 2]
                   /\ wf_trace 2 tr = false.
Proof. exists [Ok 1; Ok 2], [EPut 0; EDone 0; EDone 1; EPut 1]. vm_compute. repeat split; reflexivity. Qed.

(* ---- consumers *)

Lemma bulk_loop_spec items acc :
  bulk_loop items acc = match first_exc items with
                        | Some e => ([], Some e)
                        | None => (acc ++ nonblank items, None)
                        end.
Proof.
  revert acc. induction items as [|[v|e] r IH]; intros acc; cbn [bulk_loop first_exc nonblank].
  - rewrite app_nil_r. reflexivity.
  - rewrite IH. destruct (first_exc r); [reflexivity|]. destruct (Z.ltb v 0); [reflexivity|].
    rewrite <- app_assoc. reflexivity.
  - reflexivity.
Qed.

Lemma bulk_meta_spec pool_size items arr split :
  is_perm arr (length items) ->
  bulk_meta pool_size items arr split =
  match first_exc items with Some e => ([], Some e) | None => (nonblank items, None) end.
Proof.
  intros Hp. unfold bulk_meta. rewrite (imap_result_objects _ _ _ _ Hp). cbn [with_pool].
  rewrite bulk_loop_spec. reflexivity.
Qed.

Lemma first_exc_app pre e post : all_ok pre -> first_exc (pre ++ Exc e :: post) = Some e.
Proof.
  induction pre as [|x pre IH]; intros H; [reflexivity|].
  destruct (H x (or_introl eq_refl)) as [z ->]. cbn [app first_exc]. apply IH.
  intros v Hv. apply H. right. exact Hv.
Qed.

Lemma first_exc_none items : all_ok items -> first_exc items = None.
Proof.
  induction items as [|x r IH]; intros H; [reflexivity|].
  destruct (H x (or_introl eq_refl)) as [z ->]. cbn [first_exc]. apply IH.
  intros v Hv. apply H. right. exact Hv.
Qed.

Lemma render_raise_loop_spec pre e post acc :
  all_ok pre -> render_raise_loop (pre ++ Exc e :: post) acc = (acc ++ nonblank pre, Some e).
Proof.
  revert acc. induction pre as [|x pre IH]; intros acc H.
  - cbn. rewrite app_nil_r. reflexivity.
  - destruct (H x (or_introl eq_refl)) as [z ->]. cbn [app render_raise_loop nonblank].
    rewrite IH by (intros v Hv; apply H; right; exact Hv).
    destruct (Z.ltb z 0); [reflexivity|]. rewrite <- app_assoc. reflexivity.
Qed.

Lemma render_raise_loop_ok items acc :
  all_ok items -> render_raise_loop items acc = (acc ++ nonblank items, None).
Proof.
  revert acc. induction items as [|x r IH]; intros acc H.
  - cbn. rewrite app_nil_r. reflexivity.
  - destruct (H x (or_introl eq_refl)) as [z ->]. cbn [render_raise_loop nonblank].
    rewrite IH by (intros v Hv; apply H; right; exact Hv).
    destruct (Z.ltb z 0); [reflexivity|]. rewrite <- app_assoc. reflexivity.
Qed.

Lemma render_raise_first_failure pool_size pre e post arr split :
  is_perm arr (length (pre ++ Exc e :: post)) -> all_ok pre ->
  render_raise pool_size (pre ++ Exc e :: post) arr split = (nonblank pre, Some e).
Proof.
  intros Hp Hok. unfold render_raise. rewrite (imap_result_objects _ _ _ _ Hp).
  rewrite render_raise_loop_spec by exact Hok. reflexivity.
Qed.

Lemma render_raise_all pool_size items arr split :
  is_perm arr (length items) -> all_ok items ->
  render_raise pool_size items arr split = (nonblank items, None).
Proof.
  intros Hp Hok. unfold render_raise. rewrite (imap_result_objects _ _ _ _ Hp).
  rewrite render_raise_loop_ok by exact Hok. reflexivity.
Qed.

(* capture mode: a non-source exception is re-raised; the decision does not depend on the completion order *)
Lemma render_capture_order_independent pool_size items arr arr' split split' :
  is_perm arr (length items) -> is_perm arr' (length items) ->
  render_capture pool_size items arr split = render_capture pool_size items arr' split'.
Proof.
  intros H H'. unfold render_capture.
  rewrite (imap_result_objects _ _ _ _ H), (imap_result_objects _ _ _ _ H'). reflexivity.
Qed.

Fixpoint first_hard_exc (items : list val) : option Z :=
  match items with
  | [] => None
  | Exc e :: r => if Z.ltb e 1000%Z then first_hard_exc r else Some e
  | _ :: r => first_hard_exc r
  end.

Lemma capture_loop_exc rs acc errs n :
  snd (capture_loop rs acc errs n) = first_hard_exc rs.
Proof.
  revert acc errs n. induction rs as [|[v|e] r IH]; intros acc errs n; cbn [capture_loop first_hard_exc].
  - reflexivity.
  - apply IH.
  - destruct (Z.ltb e 1000); [apply IH | reflexivity].
Qed.

Lemma render_capture_hard_exception pool_size items arr split e :
  is_perm arr (length items) -> first_hard_exc items = Some e ->
  snd (render_capture pool_size items arr split) = Some e.
Proof.
  intros Hp He. unfold render_capture. rewrite (imap_result_objects _ _ _ _ Hp).
  destruct items as [|x r]; [discriminate|].
  pose proof (capture_loop_exc (x :: r) [] [] 0) as Hs. rewrite He in Hs.
  destruct (capture_loop (x :: r) [] [] 0) as [[[acc errs] rendered] ex]. cbn [snd] in Hs. subst ex.
  reflexivity.
Qed.

(* non-vacuity *)
Example wf_trace_example : wf_trace 3 [EPut 1; EPut 0; EDone 1; EPut 2; EDone 2; EDone 0] = true.
Proof. reflexivity. Qed.
Example map_each_ev_example :
  map_each_ev false [Ok 5; Ok 6; Ok 7] [EPut 1; EPut 0; EDone 1; EPut 2; EDone 2; EDone 0] 1 0
  = Some ([Ok 5; Ok 6; Ok 7], None).
Proof. vm_compute. reflexivity. Qed.
Example bulk_example :
  bulk_meta 3 [Ok 4; Ok (-1); Exc 9; Exc 8] [3; 1; 0; 2] 2 = ([], Some 9%Z).
Proof. vm_compute. reflexivity. Qed.

(* ---- forced shutdown drain *)
Definition dmeasure (q : nat) (pc : bool) : nat := if pc then Nat.max (2 * q) 2 else 2 * q + 1.

Lemma drain_terminates_measure (q : nat) (pc : bool) (sched : list dstep) :
  dmeasure q pc <= count_consumer sched -> drain_run false q pc sched = DDone.
Proof.
  revert q pc. induction sched as [|s r IH]; intros q pc H.
  - unfold dmeasure in H. destruct pc; cbn [count_consumer] in H; lia.
  - destruct s.
    + cbn [drain_run count_consumer] in *. apply IH.
      unfold dmeasure in *. destruct q as [|q']; cbn [Nat.pred]; destruct pc; lia.
    + unfold dmeasure in H. destruct pc; destruct q as [|q']; cbn [drain_run count_consumer] in *;
        try reflexivity; apply IH; unfold dmeasure; lia.
Qed.

Lemma drain_terminates_gen (q : nat) (pc : bool) (sched : list dstep) :
  2 * q + (if pc then 2 else 1) <= count_consumer sched -> drain_run false q pc sched = DDone.
Proof.
  intros H. apply drain_terminates_measure. unfold dmeasure. destruct pc; lia.
Qed.

Lemma drain_blocking_stuck :
  drain_run true 1 false [DConsumer; DWorkerTake; DConsumer] = DStuck.
Proof. reflexivity. Qed.

Example drain_example :
  drain_run false 2 false [DConsumer; DWorkerTake; DConsumer; DWorkerTake; DConsumer; DConsumer; DConsumer] = DDone.
Proof. reflexivity. Qed.
