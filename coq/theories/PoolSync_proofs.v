(* Proofs about the worker/consumer handshake and the result-object consumers (C15). *)
From Coq Require Import ZArith List Bool Arith Lia Sorted.
Import ListNotations.
From MP Require Import Pool Pool_proofs PoolSync.

Lemma existsb_eqb_In i l : existsb (Nat.eqb i) l = true <-> In i l.
Proof. exact (memb_In i l). Qed.

Lemma existsb_eqb_false i l : existsb (Nat.eqb i) l = false <-> ~ In i l.
Proof. exact (memb_false i l). Qed.

(* pigeonhole: n distinct numbers below n are all the numbers below n *)
Lemma nodup_below_all (l : list nat) n :
  NoDup l -> (forall i, In i l -> i < n) -> n <= length l -> forall i, i < n -> In i l.
Proof.
  intros Hnd Hlt Hlen i Hi.
  assert (Hincl : incl (seq 0 n) l).
  { apply NoDup_length_incl; [exact Hnd | rewrite seq_length; exact Hlen |].
    intros x Hx. apply in_seq. specialize (Hlt x Hx). lia. }
  apply Hincl. apply in_seq. lia.
Qed.

(* everything put on a well-formed trace is new, below n, and put once *)
Lemma wfb_puts n sp sd tr :
  wfb n sp sd tr = true ->
  NoDup (puts tr) /\ (forall i, In i (puts tr) -> ~ In i sp /\ i < n).
Proof.
  revert sp sd. induction tr as [|[i|i] r IH]; intros sp sd H; cbn [puts].
  - split; [constructor | intros i []].
  - cbn [wfb] in H. apply andb_prop in H. destruct H as [H Hr]. apply andb_prop in H. destruct H as [Hn Hlt].
    apply negb_true_iff in Hn. apply existsb_eqb_false in Hn. apply Nat.ltb_lt in Hlt.
    destruct (IH _ _ Hr) as [Hnd Hin]. split.
    + constructor; [|exact Hnd]. intros Hi. destruct (Hin i Hi) as [Hni _]. apply Hni. left. reflexivity.
    + intros j [<-|Hj]; [split; assumption|]. destruct (Hin j Hj) as [Hni Hl]. split; [|exact Hl].
      intros Hs. apply Hni. right. exact Hs.
  - cbn [wfb] in H. apply andb_prop in H. destruct H as [_ Hr]. exact (IH _ _ Hr).
Qed.

Lemma visible_puts need tr vis rest : visible need tr = Some (vis, rest) -> puts tr = vis ++ puts rest.
Proof.
  revert need vis rest. induction tr as [|[i|i] r IH]; intros need vis rest H.
  - destruct need; cbn in H; [injection H as <- <-; reflexivity | discriminate].
  - destruct need as [|m]; cbn [visible] in H; [injection H as <- <-; reflexivity|].
    destruct (visible (S m) r) as [[v' r']|] eqn:E; [|discriminate]. injection H as <- <-.
    cbn [puts app]. f_equal. exact (IH _ _ _ E).
  - destruct need as [|m]; cbn [visible] in H; [injection H as <- <-; reflexivity|].
    cbn [puts]. exact (IH _ _ _ H).
Qed.

(* when join returns, every task's result has been put *)
Lemma visible_covers n sp sd tr need vis rest :
  wfb n sp sd tr = true ->
  NoDup sd -> incl sd sp -> (forall i, In i sp -> i < n) -> n <= length sd + need ->
  visible need tr = Some (vis, rest) ->
  forall i, i < n -> In i sp \/ In i vis.
Proof.
  revert sp sd need vis rest. induction tr as [|[j|j] r IH]; intros sp sd need vis rest Hwf Hnd Hinc Hlt Hlen Hvis i Hi.
  - destruct need; cbn in Hvis; [|discriminate]. left. apply Hinc.
    apply (nodup_below_all sd n); [exact Hnd | intros x Hx; apply Hlt, Hinc, Hx | lia | exact Hi].
  - destruct need as [|m].
    + left. apply Hinc. apply (nodup_below_all sd n); [exact Hnd | intros x Hx; apply Hlt, Hinc, Hx | lia | exact Hi].
    + cbn [visible] in Hvis. destruct (visible (S m) r) as [[v' r']|] eqn:E; [|discriminate]. injection Hvis as <- <-.
      cbn [wfb] in Hwf. apply andb_prop in Hwf. destruct Hwf as [H Hr]. apply andb_prop in H. destruct H as [_ Hjn].
      apply Nat.ltb_lt in Hjn.
      destruct (IH (j :: sp) sd (S m) v' r' Hr Hnd) with (i := i) as [[<-|Hs]|Hv]; try assumption.
      * intros x Hx. right. apply Hinc. exact Hx.
      * intros x [<-|Hx]; [exact Hjn | apply Hlt; exact Hx].
      * right. left. reflexivity.
      * left. exact Hs.
      * right. right. exact Hv.
  - destruct need as [|m].
    + left. apply Hinc. apply (nodup_below_all sd n); [exact Hnd | intros x Hx; apply Hlt, Hinc, Hx | lia | exact Hi].
    + cbn [visible] in Hvis. cbn [wfb] in Hwf. apply andb_prop in Hwf. destruct Hwf as [H Hr].
      apply andb_prop in H. destruct H as [Hjs Hjd]. apply existsb_eqb_In in Hjs.
      apply negb_true_iff in Hjd. apply existsb_eqb_false in Hjd.
      apply (IH sp (j :: sd) m vis rest Hr); try assumption.
      * constructor; assumption.
      * intros x [<-|Hx]; [exact Hjs | apply Hinc; exact Hx].
      * cbn [length]. lia.
Qed.

(* the results fetched by the consumer are a permutation of all task indices *)
Lemma handshake_perm n tr vis rest extra :
  wf_trace n tr = true -> visible n tr = Some (vis, rest) ->
  is_perm (vis ++ puts (firstn extra rest)) n.
Proof.
  intros Hwf Hvis. unfold wf_trace in Hwf.
  destruct (wfb_puts _ _ _ _ Hwf) as [Hnd Hin].
  pose proof (visible_puts _ _ _ _ Hvis) as Hp.
  assert (Hsplit : puts rest = puts (firstn extra rest) ++ puts (skipn extra rest)).
  { rewrite <- (firstn_skipn extra rest) at 1.
    generalize (firstn extra rest) (skipn extra rest). intros a b.
    induction a as [|[k|k] a IHa]; cbn [puts app]; [reflexivity | f_equal; exact IHa | exact IHa]. }
  rewrite Hp, Hsplit, app_assoc in Hnd.
  split.
  - exact (NoDup_app_remove_r _ _ Hnd).
  - intros i. split.
    + intros Hi. apply (Hin i). rewrite Hp, Hsplit, app_assoc. apply in_or_app. left. exact Hi.
    + intros Hi. apply in_or_app. left.
      destruct (visible_covers n [] [] tr n vis rest Hwf) with (i := i) as [[]|Hv]; try assumption.
      * constructor.
      * intros x [].
      * intros x [].
      * cbn [length]. lia.
Qed.

(* map_each over any well-formed worker trace delivers everything, in order *)
Lemma map_each_ev_all raise_exc items tr split extra r :
  wf_trace (length items) tr = true ->
  (raise_exc = true -> all_ok items) ->
  map_each_ev raise_exc items tr split extra = Some r -> r = (items, None).
Proof.
  intros Hwf Hok. unfold map_each_ev.
  destruct (visible (length items) tr) as [[vis rest]|] eqn:E; [|discriminate].
  intros H. injection H as <-.
  pose proof (handshake_perm _ _ _ _ extra Hwf E) as Hperm.
  apply map_each_all; [exact Hperm|].
  intros Hr i Hi. apply all_ok_value; [exact (Hok Hr)|]. apply Hperm. exact Hi.
Qed.

(* join does return on a well-formed trace in which every task is eventually marked done *)
Fixpoint dones (tr : list wev) : list nat :=
  match tr with
  | [] => []
  | EPut _ :: r => dones r
  | EDone i :: r => i :: dones r
  end.

Lemma visible_some need tr : need <= length (dones tr) -> exists vr, visible need tr = Some vr.
Proof.
  revert need. induction tr as [|[i|i] r IH]; intros need H.
  - cbn in H. assert (need = 0) as -> by lia. eexists. reflexivity.
  - destruct need as [|m]; [eexists; reflexivity|]. cbn [visible]. cbn [dones] in H.
    destruct (IH (S m) H) as [[v r'] E]. rewrite E. eexists. reflexivity.
  - destruct need as [|m]; [eexists; reflexivity|]. cbn [visible]. cbn [dones length] in H.
    apply IH. lia.
Qed.

(* if task_done were called before put, a result can be lost: the trace put0 done0 done1 put1 *)
Lemma handshake_done_before_put_loses :
  exists items tr, map_each_ev false items tr 0 0 = Some ([Ok 1], None) /\ items = [Ok 1; Ok 2]
                   /\ wf_trace 2 tr = false.
Proof. exists [Ok 1; Ok 2], [EPut 0; EDone 0; EDone 1; EPut 1]. vm_compute. repeat split; reflexivity. Qed.

(* ---- consumers *)

Lemma bulk_loop_spec items acc :
  bulk_loop items acc = match first_exc items with
                        | Some e => ([], Some e)
                        | None => (acc ++ nonblank items, None)
                        end.
Proof.
  revert acc. induction items as [|[v|e] r IH]; intros acc; cbn [bulk_loop first_exc nonblank].
  - rewrite app_nil_r. reflexivity.
  - rewrite IH. destruct (first_exc r); [reflexivity|]. destruct (Z.ltb v 0); [reflexivity|].
    rewrite <- app_assoc. reflexivity.
  - reflexivity.
Qed.

Lemma bulk_meta_spec pool_size items arr split :
  is_perm arr (length items) ->
  bulk_meta pool_size items arr split =
  match first_exc items with Some e => ([], Some e) | None => (nonblank items, None) end.
Proof.
  intros Hp. unfold bulk_meta. rewrite (imap_result_objects _ _ _ _ Hp). cbn [with_pool].
  rewrite bulk_loop_spec. reflexivity.
Qed.

Lemma first_exc_app pre e post : all_ok pre -> first_exc (pre ++ Exc e :: post) = Some e.
Proof.
  induction pre as [|x pre IH]; intros H; [reflexivity|].
  destruct (H x (or_introl eq_refl)) as [z ->]. cbn [app first_exc]. apply IH.
  intros v Hv. apply H. right. exact Hv.
Qed.

Lemma first_exc_none items : all_ok items -> first_exc items = None.
Proof.
  induction items as [|x r IH]; intros H; [reflexivity|].
  destruct (H x (or_introl eq_refl)) as [z ->]. cbn [first_exc]. apply IH.
  intros v Hv. apply H. right. exact Hv.
Qed.

Lemma render_raise_loop_spec pre e post acc :
  all_ok pre -> render_raise_loop (pre ++ Exc e :: post) acc = (acc ++ nonblank pre, Some e).
Proof.
  revert acc. induction pre as [|x pre IH]; intros acc H.
  - cbn. rewrite app_nil_r. reflexivity.
  - destruct (H x (or_introl eq_refl)) as [z ->]. cbn [app render_raise_loop nonblank].
    rewrite IH by (intros v Hv; apply H; right; exact Hv).
    destruct (Z.ltb z 0); [reflexivity|]. rewrite <- app_assoc. reflexivity.
Qed.

Lemma render_raise_loop_ok items acc :
  all_ok items -> render_raise_loop items acc = (acc ++ nonblank items, None).
Proof.
  revert acc. induction items as [|x r IH]; intros acc H.
  - cbn. rewrite app_nil_r. reflexivity.
  - destruct (H x (or_introl eq_refl)) as [z ->]. cbn [render_raise_loop nonblank].
    rewrite IH by (intros v Hv; apply H; right; exact Hv).
    destruct (Z.ltb z 0); [reflexivity|]. rewrite <- app_assoc. reflexivity.
Qed.

Lemma render_raise_first_failure pool_size pre e post arr split :
  is_perm arr (length (pre ++ Exc e :: post)) -> all_ok pre ->
  render_raise pool_size (pre ++ Exc e :: post) arr split = (nonblank pre, Some e).
Proof.
  intros Hp Hok. unfold render_raise. rewrite (imap_result_objects _ _ _ _ Hp).
  rewrite render_raise_loop_spec by exact Hok. reflexivity.
Qed.

Lemma render_raise_all pool_size items arr split :
  is_perm arr (length items) -> all_ok items ->
  render_raise pool_size items arr split = (nonblank items, None).
Proof.
  intros Hp Hok. unfold render_raise. rewrite (imap_result_objects _ _ _ _ Hp).
  rewrite render_raise_loop_ok by exact Hok. reflexivity.
Qed.

(* capture mode: a non-source exception is re-raised; the decision does not depend on the completion order *)
Lemma render_capture_order_independent pool_size items arr arr' split split' :
  is_perm arr (length items) -> is_perm arr' (length items) ->
  render_capture pool_size items arr split = render_capture pool_size items arr' split'.
Proof.
  intros H H'. unfold render_capture.
  rewrite (imap_result_objects _ _ _ _ H), (imap_result_objects _ _ _ _ H'). reflexivity.
Qed.

Fixpoint first_hard_exc (items : list val) : option Z :=
  match items with
  | [] => None
  | Exc e :: r => if Z.ltb e 1000%Z then first_hard_exc r else Some e
  | _ :: r => first_hard_exc r
  end.

Lemma capture_loop_exc rs acc errs n :
  snd (capture_loop rs acc errs n) = first_hard_exc rs.
Proof.
  revert acc errs n. induction rs as [|[v|e] r IH]; intros acc errs n; cbn [capture_loop first_hard_exc].
  - reflexivity.
  - apply IH.
  - destruct (Z.ltb e 1000); [apply IH | reflexivity].
Qed.

Lemma render_capture_hard_exception pool_size items arr split e :
  is_perm arr (length items) -> first_hard_exc items = Some e ->
  snd (render_capture pool_size items arr split) = Some e.
Proof.
  intros Hp He. unfold render_capture. rewrite (imap_result_objects _ _ _ _ Hp).
  destruct items as [|x r]; [discriminate|].
  pose proof (capture_loop_exc (x :: r) [] [] 0) as Hs. rewrite He in Hs.
  destruct (capture_loop (x :: r) [] [] 0) as [[[acc errs] rendered] ex]. cbn [snd] in Hs. subst ex.
  reflexivity.
Qed.

(* non-vacuity *)
Example wf_trace_example : wf_trace 3 [EPut 1; EPut 0; EDone 1; EPut 2; EDone 2; EDone 0] = true.
Proof. reflexivity. Qed.
Example map_each_ev_example :
  map_each_ev false [Ok 5; Ok 6; Ok 7] [EPut 1; EPut 0; EDone 1; EPut 2; EDone 2; EDone 0] 1 0
  = Some ([Ok 5; Ok 6; Ok 7], None).
Proof. vm_compute. reflexivity. Qed.
Example bulk_example :
  bulk_meta 3 [Ok 4; Ok (-1); Exc 9; Exc 8] [3; 1; 0; 2] 2 = ([], Some 9%Z).
Proof. vm_compute. reflexivity. Qed.

(* ---- forced shutdown drain *)
Definition dmeasure (q : nat) (pc : bool) : nat := if pc then Nat.max (2 * q) 2 else 2 * q + 1.

Lemma drain_terminates_measure (q : nat) (pc : bool) (sched : list dstep) :
  dmeasure q pc <= count_consumer sched -> drain_run false q pc sched = DDone.
Proof.
  revert q pc. induction sched as [|s r IH]; intros q pc H.
  - unfold dmeasure in H. destruct pc; cbn [count_consumer] in H; lia.
  - destruct s.
    + cbn [drain_run count_consumer] in *. apply IH.
      unfold dmeasure in *. destruct q as [|q']; cbn [Nat.pred]; destruct pc; lia.
    + unfold dmeasure in H. destruct pc; destruct q as [|q']; cbn [drain_run count_consumer] in *;
        try reflexivity; apply IH; unfold dmeasure; lia.
Qed.

Lemma drain_terminates_gen (q : nat) (pc : bool) (sched : list dstep) :
  2 * q + (if pc then 2 else 1) <= count_consumer sched -> drain_run false q pc sched = DDone.
Proof.
  intros H. apply drain_terminates_measure. unfold dmeasure. destruct pc; lia.
Qed.

Lemma drain_blocking_stuck :
  drain_run true 1 false [DConsumer; DWorkerTake; DConsumer] = DStuck.
Proof. reflexivity. Qed.

Example drain_example :
  drain_run false 2 false [DConsumer; DWorkerTake; DConsumer; DWorkerTake; DConsumer; DConsumer; DConsumer] = DDone.
Proof. reflexivity. Qed.

(* ---- capture mode: no SourceError is swallowed *)
Lemma capture_loop_spec rs : forall acc errs n,
  first_hard_exc rs = None ->
  capture_loop rs acc errs n = (acc ++ nonblank rs, errs ++ source_errs rs, n + count_ok rs, None).
Proof.
  induction rs as [|[v|e] r IH]; intros acc errs n Hh; cbn [capture_loop nonblank source_errs count_ok first_hard_exc] in *.
  - rewrite !app_nil_r, Nat.add_0_r. reflexivity.
  - rewrite (IH _ _ _ Hh). destruct (Z.ltb v 0).
    + rewrite Nat.add_succ_comm. reflexivity.
    + rewrite <- app_assoc, Nat.add_succ_comm. reflexivity.
  - destruct (Z.ltb e 1000); [|discriminate].
    rewrite (IH _ _ _ Hh), <- app_assoc. reflexivity.
Qed.

(* with no hard exception: every SourceError is collected (in layer order); if at least one layer was rendered
   the images of all layers that delivered one are added bottom-up and - when something failed - the message
   image (-2) goes on top; if nothing was rendered the request fails ("Could not get any sources", -1) *)
Lemma render_capture_reports pool_size items arr split :
  is_perm arr (length items) -> first_hard_exc items = None -> items <> [] ->
  render_capture pool_size items arr split =
  match count_ok items with
  | O => (nonblank items, source_errs items, Some (-1)%Z)
  | S _ => (match source_errs items with [] => nonblank items | _ => nonblank items ++ [(-2)%Z] end,
            source_errs items, None)
  end.
Proof.
  intros Hp Hh Hne. unfold render_capture. rewrite (imap_result_objects _ _ _ _ Hp).
  destruct items as [|x r]; [congruence|].
  rewrite (capture_loop_spec (x :: r) [] [] 0 Hh). cbn [app Nat.add].
  destruct (count_ok (x :: r)); [reflexivity|].
  destruct (source_errs (x :: r)); reflexivity.
Qed.

(* ---- _query_sources *)
Lemma indexed_nonblank_attr rs : forall i v k,
  In (v, k) (indexed_nonblank i rs) -> i <= k /\ nth (k - i) rs (Ok 0) = Ok v /\ (0 <= v)%Z.
Proof.
  induction rs as [|[w|e] r IH]; intros i v k H; cbn [indexed_nonblank] in H.
  - destruct H.
  - destruct (Z.ltb w 0) eqn:E.
    + destruct (IH _ _ _ H) as (Hle & Hn & Hv). split; [lia|]. split; [|exact Hv].
      replace (k - i) with (S (k - S i)) by lia. exact Hn.
    + destruct H as [H|H].
      * injection H as -> ->. rewrite Nat.sub_diag. split; [lia|]. split; [reflexivity|].
        apply Z.ltb_ge in E. exact E.
      * destruct (IH _ _ _ H) as (Hle & Hn & Hv). split; [lia|]. split; [|exact Hv].
        replace (k - i) with (S (k - S i)) by lia. exact Hn.
  - destruct (IH _ _ _ H) as (Hle & Hn & Hv). split; [lia|]. split; [|exact Hv].
    replace (k - i) with (S (k - S i)) by lia. exact Hn.
Qed.

Lemma indexed_nonblank_complete rs : forall i k v,
  nth k rs (Exc 0) = Ok v -> (0 <= v)%Z -> In (v, i + k) (indexed_nonblank i rs).
Proof.
  induction rs as [|x r IH]; intros i k v H Hv.
  - destruct k; discriminate.
  - destruct k as [|k].
    + cbn [nth] in H. subst x. cbn [indexed_nonblank].
      replace (Z.ltb v 0) with false by (symmetry; apply Z.ltb_ge; exact Hv).
      left. f_equal. lia.
    + cbn [nth] in H. specialize (IH (S i) k v H Hv). replace (i + S k) with (S i + k) by lia.
      cbn [indexed_nonblank]. destruct x as [w|e]; [destruct (Z.ltb w 0)|]; try exact IH. right. exact IH.
Qed.

Lemma indexed_nonblank_sorted rs : forall i,
  StronglySorted lt (map snd (indexed_nonblank i rs)) /\ forall k, In k (map snd (indexed_nonblank i rs)) -> i <= k.
Proof.
  induction rs as [|[w|e] r IH]; intros i; cbn [indexed_nonblank].
  - split; [constructor | intros k []].
  - destruct (IH (S i)) as [Hs Hb]. destruct (Z.ltb w 0).
    + split; [exact Hs | intros k Hk; specialize (Hb k Hk); lia].
    + cbn [map snd]. split.
      * constructor; [exact Hs|]. apply Forall_forall. intros k Hk. specialize (Hb k Hk). lia.
      * intros k [<-|Hk]; [lia | specialize (Hb k Hk); lia].
  - destruct (IH (S i)) as [Hs Hb]. split; [exact Hs | intros k Hk; specialize (Hb k Hk); lia].
Qed.

Lemma query_sources_own_coverage items v k :
  In (v, k) (indexed_nonblank 0 items) -> value_of items k = Ok v /\ (0 <= v)%Z.
Proof.
  intros H. destruct (indexed_nonblank_attr items 0 v k H) as (_ & Hn & Hv).
  rewrite Nat.sub_0_r in Hn. split; [exact Hn | exact Hv].
Qed.
Lemma query_sources_complete items k v :
  nth k items (Exc 0) = Ok v -> (0 <= v)%Z -> In (v, k) (indexed_nonblank 0 items).
Proof. exact (indexed_nonblank_complete items 0 k v). Qed.
Lemma query_sources_sorted items : StronglySorted lt (map snd (indexed_nonblank 0 items)).
Proof. exact (proj1 (indexed_nonblank_sorted items 0)). Qed.

Lemma query_sources_ok items arr split :
  is_perm arr (length items) -> all_ok items ->
  query_sources items arr split = (indexed_nonblank 0 items, None).
Proof.
  intros Hp Hok. unfold query_sources. rewrite (imap_raise_all_ok _ _ _ _ Hp Hok). reflexivity.
Qed.

(* the first failing index in arrival order *)
Lemma first_fail_split items arr :
  (exists i e, In i arr /\ value_of items i = Exc e) ->
  exists pre j e post, arr = pre ++ j :: post /\ value_of items j = Exc e /\
                       forall i, In i pre -> exists v, value_of items i = Ok v.
Proof.
  induction arr as [|a arr IH]; intros (i & e & Hi & He); [destruct Hi|].
  destruct (value_of items a) as [v|e'] eqn:Ea.
  - destruct Hi as [->|Hi]; [congruence|].
    destruct (IH (ex_intro _ i (ex_intro _ e (conj Hi He)))) as (pre & j & e2 & post & -> & Hj & Hpre).
    exists (a :: pre), j, e2, post. split; [reflexivity|]. split; [exact Hj|].
    intros k [<-|Hk]; [exists v; exact Ea | apply Hpre, Hk].
  - exists [], a, e', arr. split; [reflexivity|]. split; [exact Ea|]. intros k [].
Qed.

Lemma first_exc_index items e : first_exc items = Some e -> exists i, i < length items /\ value_of items i = Exc e.
Proof.
  unfold value_of. induction items as [|[v|x] r IH]; cbn [first_exc]; intros H; [discriminate| |].
  - destruct (IH H) as (i & Hi & Hv). exists (S i). split; [simpl; lia | exact Hv].
  - injection H as ->. exists 0. split; [simpl; lia | reflexivity].
Qed.

Lemma first_exc_split items e : first_exc items = Some e ->
  exists pre post, items = pre ++ Exc e :: post /\ all_ok pre.
Proof.
  induction items as [|[v|x] r IH]; cbn [first_exc]; intros H; [discriminate| |].
  - destruct (IH H) as (pre & post & -> & Hok). exists (Ok v :: pre), post. split; [reflexivity|].
    intros w [<-|Hw]; [exists v; reflexivity | apply Hok, Hw].
  - injection H as ->. exists [], r. split; [reflexivity | intros w []].
Qed.

(* raise mode, any pool size: a failing item is never swallowed - the exception of one of the items is raised *)
Lemma imap_raise_failure pool_size items arr split e0 :
  is_perm arr (length items) -> first_exc items = Some e0 ->
  exists e rs, In (Exc e) items /\ imap pool_size false items arr split = (rs, Some e).
Proof.
  intros Hp Hf.
  destruct (first_exc_split _ _ Hf) as (pre & post & Heq & Hok).
  destruct (Nat.lt_ge_cases (length items) 2) as [Hlen|Hlen].
  - (* a single item: _single_call *)
    subst items. exists e0, pre. split; [apply in_or_app; right; left; reflexivity|].
    apply imap_raise_sequential; [|exact Hok].
    right. rewrite app_length in *. simpl in *. destruct pre; simpl in *; lia.
  - destruct (Nat.lt_ge_cases pool_size 2) as [Hps|Hps].
    + subst items. exists e0, pre. split; [apply in_or_app; right; left; reflexivity|].
      apply imap_raise_sequential; [left; exact Hps | exact Hok].
    + destruct (first_exc_index _ _ Hf) as (i & Hi & Hv).
      destruct (first_fail_split items arr) as (pre' & j & e & post' & -> & Hj & Hpre).
      { exists i, e0. split; [apply Hp; exact Hi | exact Hv]. }
      destruct (imap_raise_first_arriving pool_size items pre' j e post' split) as (k & _ & Hk); try assumption.
      exists e, (firstn k items). split; [|exact Hk].
      assert (Hjl : j < length items) by (apply Hp, in_or_app; right; left; reflexivity).
      unfold value_of in Hj. rewrite <- Hj. apply nth_In. exact Hjl.
Qed.

(* a failing source is never swallowed: some source's own exception reaches the caller, nothing is merged *)
Lemma query_sources_failure items arr split e0 :
  is_perm arr (length items) -> first_exc items = Some e0 ->
  exists e, In (Exc e) items /\ query_sources items arr split = ([], Some e).
Proof.
  intros Hp Hf. unfold query_sources.
  destruct (imap_raise_failure (Nat.min (length items) MAX_MAP_ASYNC_THREADS) items arr split e0 Hp Hf)
    as (e & rs & Hin & ->).
  exists e. split; [exact Hin | reflexivity].
Qed.

(* ---- _create_threaded *)
Lemma create_threaded_ok pool_size items arr split :
  is_perm arr (length items) -> all_ok items ->
  create_threaded pool_size items arr split = (nonblank items, None).
Proof.
  intros Hp Hok. unfold create_threaded. rewrite (imap_raise_all_ok _ _ _ _ Hp Hok). reflexivity.
Qed.

Lemma create_threaded_failure pool_size items arr split e0 :
  is_perm arr (length items) -> first_exc items = Some e0 ->
  exists e, In (Exc e) items /\ create_threaded pool_size items arr split = ([], Some e).
Proof.
  intros Hp Hf. unfold create_threaded.
  destruct (imap_raise_failure pool_size items arr split e0 Hp Hf) as (e & rs & Hin & ->).
  exists e. split; [exact Hin | reflexivity].
Qed.

(* ---- thread-start faults *)
Lemma imap_start_fault pool_size uro items arr split k :
  2 <= pool_size -> 2 <= length items -> k < pool_size ->
  imap_start pool_size uro items arr split (Some k) = ([], Some E_START).
Proof.
  intros Hps Hlen Hk. unfold imap_start.
  destruct items as [|v [|w r]]; try (simpl in Hlen; lia).
  replace (Nat.ltb pool_size 2) with false by (symmetry; apply Nat.ltb_ge; exact Hps).
  replace (Nat.ltb k pool_size) with true by (symmetry; apply Nat.ltb_lt; exact Hk). reflexivity.
Qed.

Lemma imap_start_no_fault pool_size uro items arr split fail_at :
  match fail_at with Some k => pool_size <= k | None => True end ->
  imap_start pool_size uro items arr split fail_at = imap pool_size uro items arr split.
Proof.
  intros H. unfold imap_start.
  destruct items as [|v [|w r]]; try reflexivity.
  - destruct (Nat.ltb pool_size 2); destruct fail_at as [k|]; try reflexivity.
    replace (Nat.ltb k pool_size) with false by (symmetry; apply Nat.ltb_ge; exact H). reflexivity.
  - destruct (Nat.ltb pool_size 2); [reflexivity|]. destruct fail_at as [k|]; [|reflexivity].
    replace (Nat.ltb k pool_size) with false by (symmetry; apply Nat.ltb_ge; exact H). reflexivity.
Qed.

Lemma imap_start_no_pool pool_size uro items arr split fail_at :
  pool_size < 2 \/ length items = 1 ->
  imap_start pool_size uro items arr split fail_at = imap pool_size uro items arr split.
Proof.
  intros H. unfold imap_start.
  destruct items as [|v [|w r]]; try reflexivity.
  - destruct H as [H|H]; [|discriminate].
    replace (Nat.ltb pool_size 2) with true by (symmetry; apply Nat.ltb_lt; exact H). reflexivity.
  - destruct H as [H|H]; [|simpl in H; lia].
    replace (Nat.ltb pool_size 2) with true by (symmetry; apply Nat.ltb_lt; exact H). reflexivity.
Qed.

(* ---- bulk loads / stores of the S3 and Azure caches *)
Lemma bulk_io_all pool_size items arr split :
  is_perm arr (length items) -> all_ok items ->
  bulk_io pool_size items arr split = (forallb truthy items, length items, None).
Proof.
  intros Hp Hok. unfold bulk_io. rewrite (imap_raise_all_ok _ _ _ _ Hp Hok). reflexivity.
Qed.

Example query_sources_example :
  query_sources [Ok 7; Ok (-1); Ok 9] [2; 0; 1] 1 = ([(7%Z, 0); (9%Z, 2)], None).
Proof. vm_compute. reflexivity. Qed.
Example query_sources_fail_example :
  query_sources [Ok 7; Exc 5; Ok 9] [2; 0; 1] 1 = ([], Some 5%Z).
Proof. vm_compute. reflexivity. Qed.
Example bulk_io_example : bulk_io 4 [Ok (-1); Ok 1; Ok 2; Ok 3] [3; 2; 1; 0] 2 = (false, 4, None).
Proof. vm_compute. reflexivity. Qed.
Example render_capture_reports_example :
  render_capture 3 [Ok (-1); Exc 5; Ok (-1)] [2; 0; 1] 1 = ([(-2)%Z], [5%Z], None).
Proof. vm_compute. reflexivity. Qed.
Example create_threaded_example : create_threaded 3 [Ok 4; Ok (-1); Ok 6] [2; 0; 1] 1 = ([4%Z; 6%Z], None).
Proof. vm_compute. reflexivity. Qed.
Example create_threaded_fail_example : create_threaded 3 [Exc 7; Ok 5; Ok 6] [2; 1; 0] 1 = ([], Some 7%Z).
Proof. vm_compute. reflexivity. Qed.
Example imap_start_example : imap_start 2 true [Ok 1; Ok 2; Ok 3] [0; 1; 2] 1 (Some 1) = ([], Some E_START).
Proof. vm_compute. reflexivity. Qed.

(* ---- the blocking get of _fetch_results never waits for a result that cannot come *)
Lemma fetch_get_returns s : fetch_cond false s = true -> get_can_return s = true.
Proof.
  unfold fetch_cond, get_can_return. destruct s as [u r d q]; cbn [untaken running undone inq].
  destruct q as [|q]; cbn [Nat.eqb negb]; [|intros _; reflexivity].
  rewrite orb_false_r. cbn [orb]. destruct u as [|u]; cbn [Nat.eqb negb Nat.add]; [discriminate | reflexivity].
Qed.

(* with `unfinished_tasks` as loop condition the consumer enters get() after the last result when the worker
   has put it but not yet called task_done(): nothing will ever be put again *)
Lemma fetch_unfinished_blocks :
  exists s, fetch_cond true s = true /\ get_can_return s = false.
Proof. exists {| untaken := 0; running := 0; undone := 1; inq := 0 |}. split; reflexivity. Qed.
