(* Bytes and files (shared by C19 Bundle.v and C06 Crash.v).  Definitions only; the lemmas are in
   Bundle_proofs.v.

   A byte is a Z (the models only ever produce values in [0,256) through `le`; tile data is copied, never
   interpreted).  A file is its length and its content as a function of the offset: this makes
   "write at offset" and "read at offset" one-liners and gives the two facts every bundle proof uses
   (read-your-write, frame for disjoint regions) by unfolding.  Offsets are absolute file offsets, exactly
   the numbers the Python code passes to seek(). *)
From Coq Require Import ZArith List Bool.
Import ListNotations.
Local Open Scope Z_scope.

Definition zlen {A} (l : list A) : Z := Z.of_nat (length l).

(* struct.pack('<...'): n-byte little-endian encoding (truncating like INT64LE.pack(v)[:5]) *)
Fixpoint le (n : nat) (k : Z) : list Z :=
  match n with
  | O => []
  | S m => (k mod 256) :: le m (k / 256)
  end.

(* struct.unpack('<...') of a complete buffer *)
Fixpoint unle (l : list Z) : Z :=
  match l with
  | [] => 0
  | b :: r => b + 256 * unle r
  end.

Record file := mkFile { flen : Z; fat : Z -> Z }.

(* content at offset i; outside the file: 0 (what a hole reads as) *)
Definition fbyte (f : file) (i : Z) : Z :=
  if (0 <=? i) && (i <? flen f) then fat f i else 0.

(* seek(off); write(d) *)
Definition fwrite (f : file) (off : Z) (d : list Z) : file :=
  mkFile (Z.max (flen f) (off + zlen d))
         (fun i => if (off <=? i) && (i <? off + zlen d) then nth (Z.to_nat (i - off)) d 0 else fbyte f i).

(* n bytes starting at off, not looking at the end of file *)
Definition fread (f : file) (off : Z) (n : nat) : list Z :=
  map (fun k => fbyte f (off + Z.of_nat k)) (seq 0 n).

(* seek(off); read(n): short at end of file *)
Definition freadz (f : file) (off n : Z) : list Z :=
  fread f off (Z.to_nat (Z.min n (flen f - off))).

(* seek(off); struct.unpack(read(n)): None where Python raises struct.error on a short read *)
Definition rdnum (f : file) (off : Z) (n : nat) : option Z :=
  if off + Z.of_nat n <=? flen f then Some (unle (fread f off n)) else None.

(* a file given by its bytes *)
Definition file_of (l : list Z) : file := mkFile (zlen l) (fun i => nth (Z.to_nat i) l 0).

(* reader results *)
Inductive rres := RMissing | RData (d : list Z) | RError.

Definition zlist_eqb (a b : list Z) : bool :=
  (fix go (x y : list Z) : bool :=
     match x, y with
     | [], [] => true
     | u :: x', w :: y' => Z.eqb u w && go x' y'
     | _, _ => false
     end) a b.

Definition rres_eqb (a b : rres) : bool :=
  match a, b with
  | RMissing, RMissing => true
  | RData x, RData y => zlist_eqb x y
  | RError, RError => true
  | _, _ => false
  end.
