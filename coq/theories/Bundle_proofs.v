(* C19  Lemmas about Bundle.v.
   Part 1: bytes and files (read-your-write, frame).  Part 2: what is common to both formats (invariant
   preserved by store/remove, batches, defragmentation), proved once from an interface of six facts.
   Part 3/4: the six facts for v2 and v1 from the byte-level definitions.  Part 5: histories and caches. *)
From Coq Require Import ZArith List Bool Lia FMapPositive ZifyBool.
Import ListNotations.
From MP Require Import Base Bytes Gen_compact Gen_compact_fmt Bundle.
Local Open Scope Z_scope.
Ltac Zify.zify_post_hook ::= Z.to_euclidean_division_equations.

(* ================================================================================================ *)
(* Part 1: bytes                                                                                     *)

Lemma zlen_nonneg {A} (l : list A) : 0 <= zlen l.
Proof. unfold zlen. lia. Qed.
Lemma zlen_cons {A} (a : A) l : zlen (a :: l) = 1 + zlen l.
Proof. unfold zlen. cbn [length]. lia. Qed.
Lemma zlen_app {A} (a b : list A) : zlen (a ++ b) = zlen a + zlen b.
Proof. unfold zlen. rewrite app_length. lia. Qed.
Lemma zlen_nil {A} : zlen (@nil A) = 0.
Proof. reflexivity. Qed.
Lemma zlen_zero_nil {A} (l : list A) : zlen l = 0 -> l = [].
Proof. destruct l; [reflexivity|]. rewrite zlen_cons. pose proof (zlen_nonneg l). lia. Qed.

Lemma length_le : forall n k, length (le n k) = n.
Proof. induction n; intros; cbn [le length]; [reflexivity|]. now rewrite IHn. Qed.
Lemma zlen_le n k : zlen (le n k) = Z.of_nat n.
Proof. unfold zlen. now rewrite length_le. Qed.

Lemma le_bytes : forall n k, bytes_okl (le n k).
Proof.
  induction n; intros; cbn [le]; constructor; [|apply IHn].
  apply Z.mod_pos_bound. lia.
Qed.

Lemma unle_le : forall n k, 0 <= k < 256 ^ Z.of_nat n -> unle (le n k) = k.
Proof.
  induction n; intros k H.
  - cbn [le unle]. change (256 ^ Z.of_nat 0) with 1 in H. lia.
  - cbn [le unle]. rewrite IHn.
    + pose proof (Z.div_mod k 256). lia.
    + rewrite Nat2Z.inj_succ, Z.pow_succ_r in H by lia. split.
      * apply Z.div_pos; lia.
      * apply Z.div_lt_upper_bound; lia.
Qed.

Lemma unle_bound : forall l, bytes_okl l -> 0 <= unle l < 256 ^ zlen l.
Proof.
  induction l; intros H.
  - cbn. lia.
  - inversion H; subst. specialize (IHl H3). cbn [unle]. rewrite zlen_cons.
    rewrite Z.pow_add_r by (pose proof (zlen_nonneg l); lia). change (256 ^ 1) with 256. nia.
Qed.

Lemma map_nth_seq : forall (d : list Z), map (fun k => nth k d 0) (seq 0 (length d)) = d.
Proof.
  induction d; [reflexivity|]. cbn [length seq map nth]. f_equal.
  rewrite <- seq_shift, map_map. exact IHd.
Qed.

Lemma put_bytes_find : forall d m p q,
  PositiveMap.find q (put_bytes m p d) =
  if (Zpos p <=? Zpos q) && (Zpos q <? Zpos p + zlen d)
  then Some (nth (Z.to_nat (Zpos q - Zpos p)) d 0) else PositiveMap.find q m.
Proof.
  induction d; intros m p q.
  - cbn [put_bytes]. rewrite zlen_nil.
    destruct ((Z.pos p <=? Z.pos q) && (Z.pos q <? Z.pos p + 0)) eqn:E; [lia|reflexivity].
  - cbn [put_bytes]. rewrite IHd. rewrite zlen_cons. pose proof (zlen_nonneg d).
    destruct (Pos.eq_dec q p) as [->|Hne].
    + rewrite PositiveMap.gss.
      destruct ((Z.pos (Pos.succ p) <=? Z.pos p) && (Z.pos p <? Z.pos (Pos.succ p) + zlen d)) eqn:E1; [lia|].
      destruct ((Z.pos p <=? Z.pos p) && (Z.pos p <? Z.pos p + (1 + zlen d))) eqn:E2; [|lia].
      rewrite Z.sub_diag. reflexivity.
    + rewrite PositiveMap.gso by exact Hne.
      assert (Zpos q <> Zpos p) by (intros HH; apply Hne; now inversion HH).
      destruct ((Z.pos (Pos.succ p) <=? Z.pos q) && (Z.pos q <? Z.pos (Pos.succ p) + zlen d)) eqn:E1;
      destruct ((Z.pos p <=? Z.pos q) && (Z.pos q <? Z.pos p + (1 + zlen d))) eqn:E2; try lia; try reflexivity.
      f_equal. replace (Z.to_nat (Z.pos q - Z.pos p)) with (S (Z.to_nat (Z.pos q - Z.pos (Pos.succ p)))) by lia.
      reflexivity.
Qed.

Lemma blen_bwrite f off d : blen (bwrite f off d) = Z.max (blen f) (off + zlen d).
Proof. reflexivity. Qed.

Lemma bbyte_bwrite_in f off d i :
  0 <= off -> off <= i < off + zlen d -> bbyte (bwrite f off d) i = nth (Z.to_nat (i - off)) d 0.
Proof.
  intros H0 Hi. unfold bbyte. rewrite blen_bwrite. cbn [bwrite bover binit].
  destruct ((0 <=? i) && (i <? Z.max (blen f) (off + zlen d))) eqn:E; [|lia].
  rewrite put_bytes_find. rewrite !Z2Pos.id by lia.
  destruct ((off + 1 <=? i + 1) && (i + 1 <? off + 1 + zlen d)) eqn:E2; [|lia].
  f_equal. lia.
Qed.

Lemma bbyte_bwrite_out f off d i :
  0 <= off <= blen f -> i < off \/ off + zlen d <= i -> bbyte (bwrite f off d) i = bbyte f i.
Proof.
  intros H0 Hi. unfold bbyte. rewrite blen_bwrite. cbn [bwrite bover binit].
  pose proof (zlen_nonneg d).
  destruct ((0 <=? i) && (i <? Z.max (blen f) (off + zlen d))) eqn:E;
  destruct ((0 <=? i) && (i <? blen f)) eqn:E1; try lia; try reflexivity.
  rewrite put_bytes_find. rewrite !Z2Pos.id by lia.
  destruct ((off + 1 <=? i + 1) && (i + 1 <? off + 1 + zlen d)) eqn:E2; [lia|reflexivity].
Qed.

Lemma bread_ext f g o n :
  (forall i, o <= i < o + Z.of_nat n -> bbyte f i = bbyte g i) -> bread f o n = bread g o n.
Proof.
  intros H. unfold bread. apply map_ext_in. intros k Hk. apply in_seq in Hk. apply H. lia.
Qed.

Lemma bread_bwrite_out f off d o n :
  0 <= off <= blen f -> o + Z.of_nat n <= off \/ off + zlen d <= o ->
  bread (bwrite f off d) o n = bread f o n.
Proof. intros H0 H. apply bread_ext. intros i Hi. apply bbyte_bwrite_out; lia. Qed.

Lemma bread_bwrite_mid f off l1 m l2 :
  0 <= off -> bread (bwrite f off (l1 ++ m ++ l2)) (off + zlen l1) (length m) = m.
Proof.
  intros H0. unfold bread. rewrite <- (map_nth_seq m) at 2. apply map_ext_in. intros k Hk. apply in_seq in Hk.
  pose proof (zlen_nonneg l1). pose proof (zlen_nonneg l2).
  rewrite bbyte_bwrite_in; [|lia|rewrite !zlen_app; unfold zlen in *; lia].
  replace (Z.to_nat (off + zlen l1 + Z.of_nat k - off)) with (length l1 + k)%nat by (unfold zlen; lia).
  rewrite app_nth2_plus. apply app_nth1. lia.
Qed.

Lemma bread_bwrite_same f off d : 0 <= off -> bread (bwrite f off d) off (length d) = d.
Proof.
  intros H0. pose proof (bread_bwrite_mid f off [] d [] H0) as H.
  rewrite app_nil_r, zlen_nil, Z.add_0_r in H. exact H.
Qed.

Lemma brd_bwrite_out f off d o n :
  0 <= off <= blen f -> o + Z.of_nat n <= off \/ off + zlen d <= o ->
  brd (bwrite f off d) o n = brd f o n.
Proof. intros. unfold brd. now rewrite bread_bwrite_out. Qed.

Lemma brd_bwrite_same f off n v :
  0 <= off -> 0 <= v < 256 ^ Z.of_nat n -> brd (bwrite f off (le n v)) off n = v.
Proof.
  intros H0 Hv. unfold brd. pose proof (bread_bwrite_same f off (le n v) H0) as H.
  rewrite length_le in H. rewrite H. now apply unle_le.
Qed.

Lemma brd_bwrite_mid f off l1 l2 n v :
  0 <= off -> 0 <= v < 256 ^ Z.of_nat n ->
  brd (bwrite f off (l1 ++ le n v ++ l2)) (off + zlen l1) n = v.
Proof.
  intros H0 Hv. unfold brd. pose proof (bread_bwrite_mid f off l1 (le n v) l2 H0) as H.
  rewrite length_le in H. rewrite H. now apply unle_le.
Qed.

Lemma bytes_okl_nth d k : bytes_okl d -> 0 <= nth k d 0 < 256.
Proof.
  intros H. destruct (Nat.lt_ge_cases k (length d)) as [Hk|Hk].
  - unfold bytes_okl in H. rewrite Forall_forall in H. apply H. now apply nth_In.
  - rewrite nth_overflow by exact Hk. lia.
Qed.

Lemma bytes_ok_bwrite f off d :
  bytes_ok f -> bytes_okl d -> 0 <= off <= blen f -> bytes_ok (bwrite f off d).
Proof.
  intros Hf Hd H0 i.
  destruct (Z_lt_ge_dec i off) as [H1|H1]; [rewrite bbyte_bwrite_out by lia; apply Hf|].
  destruct (Z_lt_ge_dec i (off + zlen d)) as [H2|H2]; [|rewrite bbyte_bwrite_out by lia; apply Hf].
  rewrite bbyte_bwrite_in by lia. now apply bytes_okl_nth.
Qed.

Lemma bread_bytes f o n : bytes_ok f -> bytes_okl (bread f o n).
Proof.
  intros H. unfold bytes_okl, bread. rewrite Forall_forall. intros b Hb. apply in_map_iff in Hb.
  destruct Hb as [k [<- _]]. apply H.
Qed.

Lemma length_bread f o n : length (bread f o n) = n.
Proof. unfold bread. now rewrite map_length, seq_length. Qed.
Lemma zlen_bread f o n : zlen (bread f o n) = Z.of_nat n.
Proof. unfold zlen. now rewrite length_bread. Qed.

Lemma brd_bound f o n : bytes_ok f -> 0 <= brd f o n < 256 ^ Z.of_nat n.
Proof.
  intros H. unfold brd. pose proof (unle_bound (bread f o n) (bread_bytes f o n H)) as B.
  now rewrite zlen_bread in B.
Qed.

Lemma brdnum_some f o n : o + Z.of_nat n <= blen f -> brdnum f o n = Some (brd f o n).
Proof. intros H. unfold brdnum, brd. destruct (o + Z.of_nat n <=? blen f) eqn:E; [reflexivity|lia]. Qed.

Lemma breadz_full f o n : 0 <= n -> o + n <= blen f -> breadz f o n = bread f o (Z.to_nat n).
Proof. intros H0 H. unfold breadz. f_equal. lia. Qed.

Lemma bread_nil_iff f o n : bread f o n = [] -> n = O.
Proof. intros H. apply (f_equal (@length Z)) in H. now rewrite length_bread in H. Qed.

Lemma bytes_ok_bnew n g : (forall i, 0 <= g i < 256) -> bytes_ok (bnew n g).
Proof.
  intros H i. unfold bbyte, bnew. cbn [blen bover binit]. rewrite PositiveMap.gempty.
  destruct ((0 <=? i) && (i <? n)); [apply H|lia].
Qed.

(* ================================================================================================ *)
(* Part 2: slots, and what both formats share                                                        *)

Lemma slot_eq_dec (a b : slot) : {a = b} + {a <> b}.
Proof. decide equality; apply Z.eq_dec. Qed.

Lemma in_row s y : In s (row y) <-> (0 <= fst s < 128 /\ snd s = y).
Proof.
  unfold row. rewrite in_map_iff. split.
  - intros [x [<- Hx]]. apply in_seq in Hx. cbn. lia.
  - intros [Hx <-]. exists (Z.to_nat (fst s)). split.
    + destruct s as [x y]; cbn in *. f_equal. lia.
    + apply in_seq. lia.
Qed.

Lemma in_rows y : In y rows <-> 0 <= y < 128.
Proof.
  unfold rows. rewrite in_map_iff. split.
  - intros [k [<- Hk]]. apply in_seq in Hk. lia.
  - intros H. exists (Z.to_nat y). split; [lia|apply in_seq; lia].
Qed.

Lemma in_all_slots s : In s all_slots <-> slot_ok s.
Proof.
  unfold all_slots, slot_ok. rewrite in_flat_map. split.
  - intros [y [Hy Hs]]. apply in_rows in Hy. apply in_row in Hs. lia.
  - intros [Hx Hy]. exists (snd s). split; [now apply in_rows|now apply in_row].
Qed.

Lemma NoDup_map_inj {A B} (f : A -> B) l : (forall a b, f a = f b -> a = b) -> NoDup l -> NoDup (map f l).
Proof.
  intros Hf. induction 1; cbn; constructor; auto.
  intros Hin. apply in_map_iff in Hin. destruct Hin as [z [Hz Hin]]. apply Hf in Hz. now subst.
Qed.

Lemma NoDup_row y : NoDup (row y).
Proof. unfold row. apply NoDup_map_inj; [|apply seq_NoDup]. intros a b H. inversion H. lia. Qed.

Lemma NoDup_rows : NoDup rows.
Proof. unfold rows. apply NoDup_map_inj; [|apply seq_NoDup]. intros a b H. lia. Qed.

Lemma NoDup_app_intro {A} (l1 l2 : list A) :
  NoDup l1 -> NoDup l2 -> (forall x, In x l1 -> ~ In x l2) -> NoDup (l1 ++ l2).
Proof.
  induction 1 as [|x l1 Hx H1 IH]; intros H2 Hd; cbn; [exact H2|]. constructor.
  - rewrite in_app_iff. intros [H|H]; [contradiction|]. apply (Hd x); [now left|exact H].
  - apply IH; [exact H2|]. intros z Hz. apply Hd. now right.
Qed.

Lemma NoDup_flat_map_disj {A B} (f : A -> list B) l :
  NoDup l -> (forall a, In a l -> NoDup (f a)) ->
  (forall a b x, In a l -> In b l -> a <> b -> In x (f a) -> In x (f b) -> False) ->
  NoDup (flat_map f l).
Proof.
  induction 1 as [|a l Hnin Hnd IH]; intros H1 H2; cbn; [constructor|].
  apply NoDup_app_intro.
  - apply H1. now left.
  - apply IH; intros; [apply H1; now right|eapply (H2 a0 b); eauto; now right].
  - intros x Hx Hin. apply in_flat_map in Hin. destruct Hin as [b [Hb Hxb]].
    apply (H2 a b x); auto; [now left|now right|]. intros ->. contradiction.
Qed.

Lemma NoDup_all_slots : NoDup all_slots.
Proof.
  unfold all_slots. apply NoDup_flat_map_disj.
  - apply NoDup_rows.
  - intros. apply NoDup_row.
  - intros a b x _ _ Hab Ha Hb. apply in_row in Ha. apply in_row in Hb. lia.
Qed.

Ltac splits := match goal with |- _ /\ _ => split; [|splits] | _ => idtac end.

Definition dat_of (r : option (Z * list Z)) : option (list Z) :=
  match r with Some (_, d) => Some d | None => None end.
Definition tiles_bytes (l : list (slot * list Z)) : Z :=
  fold_right (fun t acc => 4 + zlen (snd t) + acc) 0 l.

Lemma tiles_bytes_cons t l : tiles_bytes (t :: l) = 4 + zlen (snd t) + tiles_bytes l.
Proof. reflexivity. Qed.
Lemma tiles_bytes_nonneg l : 0 <= tiles_bytes l.
Proof. induction l; [cbv; discriminate|]. rewrite tiles_bytes_cons. pose proof (zlen_nonneg (snd a)). lia. Qed.

Section GenericProofs.
  Variable St : Type.
  Variable load : St -> slot -> rres.
  Variable store1 : St -> slot -> list Z -> option St.
  Variable remove1 : St -> slot -> St.
  Variable fresh : St.
  Variable rec : St -> slot -> option (Z * list Z).
  Variable dlen : St -> Z.
  Variable base maxlen : Z.
  Variable P : St -> Prop.

  Definition Inv_g (st : St) : Prop := GInv St rec dlen base maxlen st /\ P st.
  Local Notation sum_on := (g_live_sum_on St rec).
  Local Notation live_sum := (g_live_sum St rec).

  (* the interface: six facts about one format *)
  Hypothesis H_load : forall st s, Inv_g st -> slot_ok s ->
    load st s = match rec st s with Some (_, d) => RData d | None => RMissing end.
  Hypothesis H_store : forall st s d, Inv_g st -> slot_ok s -> bytes_okl d -> zlen d < maxlen ->
    dlen st + 4 + zlen d < two40 ->
    exists st', store1 st s d = Some st' /\ P st' /\ dlen st' = dlen st + 4 + zlen d /\
      rec st' s = (if zlen d =? 0 then None else Some (dlen st, d)) /\
      forall s', slot_ok s' -> s' <> s -> rec st' s' = rec st s'.
  Hypothesis H_remove : forall st s, Inv_g st -> slot_ok s ->
    P (remove1 st s) /\ dlen (remove1 st s) = dlen st /\ rec (remove1 st s) s = None /\
    forall s', slot_ok s' -> s' <> s -> rec (remove1 st s) s' = rec st s'.
  Hypothesis H_fresh : P fresh /\ dlen fresh = base /\ forall s, slot_ok s -> rec fresh s = None.

  Lemma rec_len_nonneg r : 0 <= rec_len r.
  Proof. destruct r as [[a d]|]; cbn [rec_len]; [pose proof (zlen_nonneg d); lia|lia]. Qed.

  Lemma sum_on_cons st a ss : sum_on st (a :: ss) = rec_len (rec st a) + sum_on st ss.
  Proof. reflexivity. Qed.
  Lemma sum_on_nil st : sum_on st [] = 0.
  Proof. reflexivity. Qed.

  Lemma sum_on_ext st st' ss :
    (forall s, In s ss -> rec st' s = rec st s) -> sum_on st' ss = sum_on st ss.
  Proof.
    induction ss; intros H; [reflexivity|]. rewrite !sum_on_cons. rewrite H by now left. rewrite IHss; [reflexivity|].
    intros. apply H. now right.
  Qed.

  Lemma sum_on_update st st' ss s :
    NoDup ss -> In s ss -> (forall s', In s' ss -> s' <> s -> rec st' s' = rec st s') ->
    sum_on st' ss = sum_on st ss - rec_len (rec st s) + rec_len (rec st' s).
  Proof.
    induction 1 as [|a ss Ha Hnd IH]; intros Hin H; [contradiction|]. rewrite !sum_on_cons.
    destruct Hin as [->|Hin].
    - rewrite (sum_on_ext st st' ss); [lia|]. intros s' Hs'. apply H; [now right|]. intros ->. contradiction.
    - rewrite IH; auto; [|intros; apply H; auto; now right].
      rewrite (H a); [lia|now left|]. intros ->. contradiction.
  Qed.

  Lemma sum_on_none st ss : (forall s, In s ss -> rec st s = None) -> sum_on st ss = 0.
  Proof.
    induction ss; intros H; [reflexivity|]. rewrite sum_on_cons. rewrite H by now left.
    rewrite IHss; [reflexivity|]. intros; apply H; now right.
  Qed.

  Lemma sum_on_app st a b : sum_on st (a ++ b) = sum_on st a + sum_on st b.
  Proof. induction a; [reflexivity|]. rewrite <- app_comm_cons, !sum_on_cons, IHa. lia. Qed.

  Lemma sum_on_nonneg st ss : 0 <= sum_on st ss.
  Proof. induction ss; [rewrite sum_on_nil; lia|]. rewrite sum_on_cons. pose proof (rec_len_nonneg (rec st a)). lia. Qed.

  Lemma sum_on_flat_map st (f : Z -> list slot) l :
    sum_on st (flat_map f l) = fold_right (fun y acc => sum_on st (f y) + acc) 0 l.
  Proof. induction l; [reflexivity|]. cbn [flat_map fold_right]. rewrite sum_on_app, IHl. reflexivity. Qed.

  Lemma live_sum_rows st : live_sum st = fold_right (fun y acc => sum_on st (row y) + acc) 0 rows.
  Proof. unfold g_live_sum, all_slots. apply sum_on_flat_map. Qed.

  (* --- the invariant is established by the initial files and preserved by store and remove *)
  Lemma g_inv_fresh : Inv_g fresh.
  Proof.
    destruct H_fresh as [HP [Hd Hr]]. split; [|exact HP]. unfold GInv. rewrite Hd.
    split; [lia|]. split; [|split].
    - intros s a d Hs Hrec. rewrite Hr in Hrec by assumption. discriminate.
    - intros s s' a d a' d' Hs1 _ _ H1. rewrite Hr in H1 by assumption. discriminate.
    - assert (Hs : live_sum fresh = 0) by (apply sum_on_none; intros s Hs; apply Hr; now apply in_all_slots).
      lia.
  Qed.

  Lemma g_inv_store st s d :
    Inv_g st -> slot_ok s -> bytes_okl d -> zlen d < maxlen -> dlen st + 4 + zlen d < two40 ->
    exists st', store1 st s d = Some st' /\ Inv_g st' /\ dlen st' = dlen st + 4 + zlen d /\
      rec st' s = (if zlen d =? 0 then None else Some (dlen st, d)) /\
      forall s', slot_ok s' -> s' <> s -> rec st' s' = rec st s'.
  Proof.
    intros HI Hs Hd Hm Hg. destruct (H_store st s d HI Hs Hd Hm Hg) as [st' [E [HP [Hl [Hr Ho]]]]].
    exists st'. split; [exact E|]. split; [|split; [exact Hl|split; [exact Hr|exact Ho]]]. split; [|exact HP].
    destruct HI as [[G1 [G2 [G3 G4]]] _]. pose proof (zlen_nonneg d) as Hz.
    unfold GInv. rewrite Hl. split; [lia|]. split; [|split].
    - intros s0 a d0 Hs0 Hrec. destruct (slot_eq_dec s0 s) as [->|Hne].
      + rewrite Hr in Hrec. destruct (zlen d =? 0) eqn:Ez; [discriminate|]. inversion Hrec; subst.
        repeat split; auto; lia.
      + rewrite Ho in Hrec by assumption. destruct (G2 s0 a d0 Hs0 Hrec) as [? [? [? ?]]]. repeat split; auto; lia.
    - intros s1 s2 a1 d1 a2 d2 Hs1 Hs2 Hne R1 R2.
      destruct (slot_eq_dec s1 s) as [->|N1]; destruct (slot_eq_dec s2 s) as [->|N2]; try congruence.
      + rewrite Hr in R1. destruct (zlen d =? 0); [discriminate|]. inversion R1; subst.
        rewrite Ho in R2 by assumption. destruct (G2 s2 a2 d2 Hs2 R2) as [? [? _]]. lia.
      + rewrite Hr in R2. destruct (zlen d =? 0); [discriminate|]. inversion R2; subst.
        rewrite Ho in R1 by assumption. destruct (G2 s1 a1 d1 Hs1 R1) as [? [? _]]. lia.
      + rewrite Ho in R1, R2 by assumption. exact (G3 s1 s2 a1 d1 a2 d2 Hs1 Hs2 Hne R1 R2).
    - unfold g_live_sum. rewrite (sum_on_update st st' all_slots s).
      + pose proof (rec_len_nonneg (rec st s)). rewrite Hr. unfold g_live_sum in G4.
        destruct (zlen d =? 0); cbn [rec_len]; lia.
      + apply NoDup_all_slots.
      + now apply in_all_slots.
      + intros s' Hs' Hne. apply Ho; [now apply in_all_slots|exact Hne].
  Qed.

  Lemma g_inv_remove st s :
    Inv_g st -> slot_ok s ->
    Inv_g (remove1 st s) /\ dlen (remove1 st s) = dlen st /\ rec (remove1 st s) s = None /\
    forall s', slot_ok s' -> s' <> s -> rec (remove1 st s) s' = rec st s'.
  Proof.
    intros HI Hs. destruct (H_remove st s HI Hs) as [HP [Hl [Hr Ho]]].
    split; [|split; [exact Hl|split; [exact Hr|exact Ho]]]. split; [|exact HP].
    destruct HI as [[G1 [G2 [G3 G4]]] _]. unfold GInv. rewrite Hl. split; [lia|]. split; [|split].
    - intros s0 a d0 Hs0 Hrec. destruct (slot_eq_dec s0 s) as [->|Hne]; [congruence|].
      rewrite Ho in Hrec by assumption. now apply (G2 s0).
    - intros s1 s2 a1 d1 a2 d2 Hs1 Hs2 Hne R1 R2.
      destruct (slot_eq_dec s1 s) as [->|N1]; [congruence|]. destruct (slot_eq_dec s2 s) as [->|N2]; [congruence|].
      rewrite Ho in R1, R2 by assumption. exact (G3 s1 s2 a1 d1 a2 d2 Hs1 Hs2 Hne R1 R2).
    - unfold g_live_sum. rewrite (sum_on_update st (remove1 st s) all_slots s).
      + pose proof (rec_len_nonneg (rec st s)). rewrite Hr. unfold g_live_sum in G4. cbn [rec_len]. lia.
      + apply NoDup_all_slots.
      + now apply in_all_slots.
      + intros s' Hs' Hne. apply Ho; [now apply in_all_slots|exact Hne].
  Qed.

  (* --- the bundle behaves like a map *)
  Lemma g_load_dat st s : Inv_g st -> slot_ok s ->
    load st s = match dat_of (rec st s) with Some d => RData d | None => RMissing end.
  Proof. intros HI Hs. rewrite H_load by assumption. destruct (rec st s) as [[a d]|]; reflexivity. Qed.

  (* --- batches *)
  Lemma g_store_tiles_inv : forall l st,
    Inv_g st -> Forall (tile_ok maxlen) l -> dlen st + tiles_bytes l < two40 ->
    exists st', g_store_tiles St store1 st l = Some st' /\ Inv_g st' /\ dlen st' = dlen st + tiles_bytes l.
  Proof.
    induction l as [|[s d] l IH]; intros st HI Hf Hg.
    - exists st. splits; [reflexivity|exact HI|change (tiles_bytes []) with 0; lia].
    - inversion Hf as [|? ? [Hs [Hb Hm]] Hf']; subst. cbn [fst snd] in Hs, Hb, Hm.
      rewrite tiles_bytes_cons in Hg. cbn [snd] in Hg. pose proof (tiles_bytes_nonneg l).
      destruct (g_inv_store st s d HI Hs Hb Hm) as [st1 [E [HI1 [Hl1 _]]]]; [lia|].
      destruct (IH st1 HI1 Hf') as [st' [E' [HI' Hl']]]; [lia|].
      exists st'. cbn [g_store_tiles fst snd]. rewrite E. splits; [exact E'|exact HI'|].
      rewrite tiles_bytes_cons. cbn [snd]. lia.
  Qed.

  Lemma g_store_tiles_distinct : forall l st,
    Inv_g st -> Forall (tile_ok maxlen) l -> dlen st + tiles_bytes l < two40 ->
    NoDup (map fst l) -> (forall t, In t l -> 0 < zlen (snd t)) ->
    exists st', g_store_tiles St store1 st l = Some st' /\ Inv_g st' /\ dlen st' = dlen st + tiles_bytes l /\
      (forall s d, In (s, d) l -> dat_of (rec st' s) = Some d) /\
      (forall s, slot_ok s -> ~ In s (map fst l) -> rec st' s = rec st s).
  Proof.
    induction l as [|[s d] l IH]; intros st HI Hf Hg Hnd Hpos.
    - exists st. splits; [reflexivity|exact HI|change (tiles_bytes []) with 0; lia|intros ? ? []|reflexivity].
    - inversion Hf as [|? ? [Hs [Hb Hm]] Hf']; subst. cbn [fst snd] in Hs, Hb, Hm.
      rewrite tiles_bytes_cons in Hg. cbn [snd] in Hg. pose proof (tiles_bytes_nonneg l).
      cbn [map fst] in Hnd. inversion Hnd as [|? ? Hnin Hnd']; subst.
      destruct (g_inv_store st s d HI Hs Hb Hm) as [st1 [E [HI1 [Hl1 [Hr1 Ho1]]]]]; [lia|].
      destruct (IH st1 HI1 Hf') as [st' [E' [HI' [Hl' [Hin' Hout']]]]]; [lia|exact Hnd'|intros; apply Hpos; now right|].
      exists st'. cbn [g_store_tiles fst snd]. rewrite E. splits; [exact E'|exact HI'| | |].
      + rewrite tiles_bytes_cons. cbn [snd]. lia.
      + intros s0 d0 [Heq|Hin]; [|now apply Hin'].
        inversion Heq; subst. rewrite Hout' by assumption. rewrite Hr1.
        pose proof (Hpos (s0, d0) (or_introl eq_refl)) as Hp. cbn [snd] in Hp.
        destruct (zlen d0 =? 0) eqn:Ez; [lia|reflexivity].
      + intros s0 Hs0 Hn. cbn [map fst In] in Hn. rewrite Hout'; [|assumption|tauto]. apply Ho1; [assumption|]. intros ->. tauto.
  Qed.

  (* --- defragmentation *)
  Definition live_tiles (st : St) (ss : list slot) : list (slot * list Z) :=
    flat_map (fun s => match rec st s with Some (_, d) => [(s, d)] | None => [] end) ss.

  Lemma g_row_tiles_spec st ss : Inv_g st -> (forall s, In s ss -> slot_ok s) ->
    g_row_tiles St load st ss = Some (live_tiles st ss).
  Proof.
    intros HI. induction ss; intros Hok; cbn; [reflexivity|].
    rewrite H_load by (auto; apply Hok; now left). rewrite IHss by (intros; apply Hok; now right).
    destruct (rec st a) as [[o d]|]; reflexivity.
  Qed.

  Lemma live_tiles_bytes st ss : tiles_bytes (live_tiles st ss) = sum_on st ss.
  Proof.
    induction ss; [reflexivity|]. rewrite sum_on_cons. unfold live_tiles in *. cbn [flat_map].
    destruct (rec st a) as [[o d]|]; cbn [app rec_len].
    - rewrite tiles_bytes_cons, IHss. cbn [snd]. lia.
    - rewrite IHss. lia.
  Qed.

  Lemma live_tiles_in st ss s d : In (s, d) (live_tiles st ss) <-> In s ss /\ dat_of (rec st s) = Some d.
  Proof.
    unfold live_tiles. rewrite in_flat_map. split.
    - intros [x [Hx Hin]]. destruct (rec st x) as [[o d0]|] eqn:E; [|contradiction].
      destruct Hin as [Heq|[]]. inversion Heq; subst. rewrite E. auto.
    - intros [Hin Hd]. exists s. split; [exact Hin|]. destruct (rec st s) as [[o d0]|]; [|discriminate].
      cbn in Hd. inversion Hd. now left.
  Qed.

  Lemma live_tiles_fst st ss : map fst (live_tiles st ss) = filter (fun s => match rec st s with Some _ => true | None => false end) ss.
  Proof.
    induction ss; [reflexivity|]. unfold live_tiles in *. cbn [flat_map filter].
    destruct (rec st a) as [[o d]|]; cbn [app map fst]; now rewrite IHss.
  Qed.

  Definition eff (o : option St) : St := match o with Some t => t | None => fresh end.

  Local Notation rows_sum st ys := (fold_right (fun y acc => sum_on st (row y) + acc) 0 ys).

  Lemma rows_sum_nonneg st ys : 0 <= rows_sum st ys.
  Proof. induction ys; cbn [fold_right]; [lia|]. pose proof (sum_on_nonneg st (row a)). lia. Qed.

  Lemma g_defrag_rows_step st y ys tmp :
    g_defrag_rows St load store1 fresh st (y :: ys) tmp =
    match g_row_tiles St load st (row y) with
    | None => None
    | Some [] => g_defrag_rows St load store1 fresh st ys tmp
    | Some tiles => match g_store_tiles St store1 (eff tmp) tiles with
                    | None => None
                    | Some t' => g_defrag_rows St load store1 fresh st ys (Some t')
                    end
    end.
  Proof. destruct tmp; reflexivity. Qed.

  Lemma g_defrag_rows_spec st : Inv_g st -> forall ys tmp,
    Inv_g (eff tmp) -> NoDup ys -> (forall y, In y ys -> 0 <= y < 128) ->
    (forall s, slot_ok s -> In (snd s) ys -> rec (eff tmp) s = None) ->
    dlen (eff tmp) + rows_sum st ys < two40 ->
    exists r, g_defrag_rows St load store1 fresh st ys tmp = Some r /\ Inv_g (eff r) /\
      dlen (eff r) = dlen (eff tmp) + rows_sum st ys /\
      (forall s, slot_ok s -> In (snd s) ys -> dat_of (rec (eff r) s) = dat_of (rec st s)) /\
      (forall s, slot_ok s -> ~ In (snd s) ys -> rec (eff r) s = rec (eff tmp) s) /\
      (r = None -> tmp = None).
  Proof.
    intros HI. induction ys as [|y ys IH]; intros tmp HT Hnd Hys Hnone Hg.
    - exists tmp. splits; [reflexivity|exact HT|cbn [fold_right]; lia|intros ? ? []|reflexivity|auto].
    - inversion Hnd as [|? ? Hnin Hnd']; subst.
      assert (Hy : 0 <= y < 128) by (apply Hys; now left).
      assert (Hrow : forall s, In s (row y) -> slot_ok s).
      { intros s Hs. apply in_row in Hs. unfold slot_ok. lia. }
      rewrite g_defrag_rows_step. rewrite g_row_tiles_spec by assumption.
      cbn [fold_right] in Hg |- *.
      assert (Hsum := sum_on_nonneg st (row y)). assert (Hrest := rows_sum_nonneg st ys).
      assert (G2 : forall s a d, slot_ok s -> rec st s = Some (a, d) -> 0 < zlen d < maxlen /\ bytes_okl d).
      { destruct HI as [[_ [G2 _]] _]. intros s a d Hs Hr. destruct (G2 s a d Hs Hr) as [_ [_ [? ?]]]. auto. }
      destruct (live_tiles st (row y)) as [|t0 l0] eqn:EL.
      + (* nothing live in this row *)
        assert (Hz : sum_on st (row y) = 0) by (rewrite <- live_tiles_bytes, EL; reflexivity).
        assert (Hnl : forall s, In s (row y) -> rec st s = None).
        { intros s Hs. destruct (rec st s) as [[o d]|] eqn:E; [|reflexivity].
          assert (Hin : In (s, d) (live_tiles st (row y))) by (apply live_tiles_in; rewrite E; auto).
          rewrite EL in Hin. contradiction. }
        destruct (IH tmp HT Hnd') as [r [E [HIr [Hl [Hin [Hout Hn]]]]]].
        * intros; apply Hys; now right.
        * intros; apply Hnone; auto; now right.
        * lia.
        * exists r. splits; [exact E|exact HIr|lia| | |exact Hn].
          -- intros s Hs [Heq|Hi]; [|now apply Hin].
             destruct (in_dec Z.eq_dec (snd s) ys) as [Hi|Hni]; [now apply Hin|].
             rewrite Hout by assumption. rewrite Hnone; [|assumption|now left].
             rewrite Hnl; [reflexivity|]. apply in_row. unfold slot_ok in Hs. lia.
          -- intros s Hs Hn'. apply Hout; [assumption|]. intros Hi. apply Hn'. now right.
      + (* some tiles: store them into the temporary bundle *)
        rewrite <- EL.
        assert (Hne : live_tiles st (row y) <> []) by (intros HH; rewrite HH in EL; discriminate).
        clear t0 l0 EL.
        destruct (g_store_tiles_distinct (live_tiles st (row y)) (eff tmp) HT) as [t' [E [HIt [Hlt [Hint Houtt]]]]].
        * apply Forall_forall. intros [s d] Hin. apply live_tiles_in in Hin. destruct Hin as [Hs Hd].
          destruct (rec st s) as [[o d0]|] eqn:Er; [|discriminate]. cbn [dat_of] in Hd. inversion Hd; subst.
          destruct (G2 s o d (Hrow s Hs) Er) as [? ?]. unfold tile_ok. cbn [fst snd]. splits; [exact (Hrow s Hs)|assumption|lia].
        * rewrite live_tiles_bytes. lia.
        * rewrite live_tiles_fst. apply NoDup_filter. apply NoDup_row.
        * intros [s d] Hin. apply live_tiles_in in Hin. destruct Hin as [Hs Hd].
          destruct (rec st s) as [[o d0]|] eqn:Er; [|discriminate]. cbn [dat_of] in Hd. inversion Hd; subst.
          destruct (G2 s o d (Hrow s Hs) Er) as [? ?]. cbn [snd]. lia.
        * rewrite live_tiles_bytes in Hlt.
          assert (Hnotin : forall s, In (snd s) ys -> ~ In s (map fst (live_tiles st (row y)))).
          { intros s Hi. rewrite live_tiles_fst. intros Hf. apply filter_In in Hf. destruct Hf as [Hf _].
            apply in_row in Hf. destruct Hf as [_ Hf]. rewrite Hf in Hi. contradiction. }
          destruct (IH (Some t')) as [r [E' [HIr [Hl [Hin [Hout Hn]]]]]].
          -- exact HIt.
          -- exact Hnd'.
          -- intros; apply Hys; now right.
          -- intros s Hs Hi. cbn [eff]. rewrite Houtt; [apply Hnone; auto; now right|assumption|now apply Hnotin].
          -- cbn [eff]. lia.
          -- exists r. cbn [eff] in Hl, Hout.
             splits.
             ++ destruct (live_tiles st (row y)); [congruence|]. rewrite E. exact E'.
             ++ exact HIr.
             ++ lia.
             ++ intros s Hs [Heq|Hi]; [|now apply Hin].
                destruct (in_dec Z.eq_dec (snd s) ys) as [Hi|Hni]; [now apply Hin|].
                rewrite Hout by assumption.
                assert (Hsr : In s (row y)) by (apply in_row; unfold slot_ok in Hs; lia).
                destruct (rec st s) as [[o d]|] eqn:Er.
                ** cbn [dat_of]. apply Hint. apply live_tiles_in. rewrite Er. auto.
                ** rewrite Houtt; [rewrite Hnone; auto; now left|assumption|].
                   rewrite live_tiles_fst. intros Hf. apply filter_In in Hf. rewrite Er in Hf. destruct Hf; discriminate.
             ++ intros s Hs Hn'. rewrite Hout; [|assumption|intros Hi; apply Hn'; now right].
                apply Houtt; [assumption|]. rewrite live_tiles_fst. intros Hf. apply filter_In in Hf.
                destruct Hf as [Hf _]. apply in_row in Hf. apply Hn'. left. symmetry. apply Hf.
             ++ intros ->. specialize (Hn eq_refl). discriminate.
  Qed.

  Theorem g_defrag_spec st : Inv_g st -> dlen st < two40 ->
    exists r, g_defrag St load store1 fresh st = Some r /\
      (forall s, slot_ok s -> g_load_opt St load r s = load st s) /\
      (forall t, r = Some t -> Inv_g t /\ dlen t = base + live_sum st /\ dlen t <= dlen st) /\
      (r = None -> live_sum st = 0).
  Proof.
    intros HI Hg. pose proof g_inv_fresh as HF. destruct H_fresh as [_ [Hfl Hfr]].
    assert (G4 : base + live_sum st <= dlen st) by (destruct HI as [[_ [_ [_ G4]]] _]; exact G4).
    destruct (g_defrag_rows_spec st HI rows None) as [r [E [HIr [Hl [Hin [_ Hn]]]]]].
    - exact HF.
    - apply NoDup_rows.
    - intros y Hy. now apply in_rows.
    - intros s Hs _. cbn [eff]. now apply Hfr.
    - cbn [eff]. rewrite Hfl, <- live_sum_rows. lia.
    - exists r. split; [exact E|]. cbn [eff] in Hl. rewrite Hfl, <- live_sum_rows in Hl.
      assert (Hdat : forall s, slot_ok s -> dat_of (rec (eff r) s) = dat_of (rec st s)).
      { intros s Hs. apply Hin; [assumption|]. apply in_rows. apply Hs. }
      splits.
      + intros s Hs. rewrite (g_load_dat st s HI Hs). rewrite <- Hdat by assumption.
        destruct r as [t|]; cbn [g_load_opt eff].
        * now apply g_load_dat.
        * rewrite Hfr by assumption. reflexivity.
      + intros t ->. cbn [eff] in *. splits; [exact HIr|exact Hl|lia].
      + intros ->. cbn [eff] in Hl. lia.
  Qed.
  (* --- histories *)
  Definition g_step (o : option St) (op : bop) : option St :=
    match o with
    | None => None
    | Some st => match op with
                 | OStore tiles => g_store_tiles St store1 st tiles
                 | ORemove s => Some (remove1 st s)
                 end
    end.

  Lemma op_bytes_tiles l : op_bytes (OStore l) = tiles_bytes l.
  Proof. reflexivity. Qed.
  Lemma ops_bytes_cons op ops : ops_bytes (op :: ops) = op_bytes op + ops_bytes ops.
  Proof. reflexivity. Qed.
  Lemma op_bytes_nonneg op : 0 <= op_bytes op.
  Proof. destruct op; [rewrite op_bytes_tiles; apply tiles_bytes_nonneg|cbn; lia]. Qed.
  Lemma ops_bytes_nonneg ops : 0 <= ops_bytes ops.
  Proof. induction ops; [cbv; discriminate|]. rewrite ops_bytes_cons. pose proof (op_bytes_nonneg a). lia. Qed.

  Theorem g_history_inv : forall ops st,
    Inv_g st -> Forall (op_ok maxlen) ops -> dlen st + ops_bytes ops < two40 ->
    exists st', fold_left g_step ops (Some st) = Some st' /\ Inv_g st' /\ dlen st' = dlen st + ops_bytes ops.
  Proof.
    induction ops as [|op ops IH]; intros st HI Hf Hg.
    - exists st. splits; [reflexivity|exact HI|change (ops_bytes []) with 0; lia].
    - inversion Hf as [|? ? Hop Hf']; subst. rewrite ops_bytes_cons in Hg |- *.
      pose proof (ops_bytes_nonneg ops). pose proof (op_bytes_nonneg op).
      cbn [fold_left g_step]. destruct op as [tiles|s].
      + rewrite op_bytes_tiles in *. cbn [op_ok] in Hop.
        destruct (g_store_tiles_inv tiles st HI Hop) as [st1 [E [HI1 Hl1]]]; [lia|].
        rewrite E. destruct (IH st1 HI1 Hf') as [st' [E' [HI' Hl']]]; [lia|].
        exists st'. splits; [exact E'|exact HI'|lia].
      + cbn [op_ok] in Hop. destruct (g_inv_remove st s HI Hop) as [HI1 [Hl1 _]].
        destruct (IH (remove1 st s) HI1 Hf') as [st' [E' [HI' Hl']]]; [cbn [op_bytes] in *; lia|].
        exists st'. splits; [exact E'|exact HI'|cbn [op_bytes] in *; lia].
  Qed.
End GenericProofs.

(* ================================================================================================ *)
(* Part 3: format v2                                                                                 *)

Lemma pow4 : 256 ^ Z.of_nat 4 = two32. Proof. reflexivity. Qed.
Lemma pow5 : 256 ^ Z.of_nat 5 = two40. Proof. reflexivity. Qed.
Lemma pow8 : 256 ^ Z.of_nat 8 = two64. Proof. reflexivity. Qed.
Lemma shiftr40 v : Z.shiftr v 40 = v / two40.
Proof. rewrite Z.shiftr_div_pow2 by lia. reflexivity. Qed.
Lemma shiftl40 v : Z.shiftl v 40 = v * two40.
Proof. rewrite Z.shiftl_mul_pow2 by lia. reflexivity. Qed.

(* what the generated index-entry arithmetic (gen/Gen_compact_fmt.v, from the Python source) has to be *)
Lemma v2_entry_size_spec v : v2_entry_size v = v / two40.
Proof. unfold v2_entry_size. apply shiftr40. Qed.
Lemma v2_entry_offset_spec v : v2_entry_offset v = v - v / two40 * two40.
Proof. unfold v2_entry_offset. cbv zeta. now rewrite v2_entry_size_spec, shiftl40. Qed.
Lemma v2_entry_encode_spec o sz : v2_entry_encode o sz = o + sz * two40.
Proof. unfold v2_entry_encode. now rewrite shiftl40. Qed.
Lemma v2_entry_bytes_spec : v2_entry_bytes = 8%nat.
Proof. reflexivity. Qed.
Lemma v1_entry_bytes_spec : v1_entry_bytes = 5%nat /\ v1_entry_write_bytes = 5%nat /\ v1_entry_remove_bytes = 5%nat.
Proof. repeat split; reflexivity. Qed.

Lemma v2_idx_range s : slot_ok s -> 64 <= v2_idx s /\ v2_idx s + 8 <= B2 /\ v2_idx s mod 8 = 0.
Proof.
  unfold slot_ok, v2_idx, v2_tile_idx_offset, BUNDLE_V2_HEADER_SIZE, BUNDLE_V2_GRID_HEIGHT, B2, V2_INDEX_SIZE.
  destruct s as [x y]; cbn [fst snd]. lia.
Qed.
Lemma v2_idx_disj s s' : slot_ok s -> slot_ok s' -> s <> s' -> v2_idx s + 8 <= v2_idx s' \/ v2_idx s' + 8 <= v2_idx s.
Proof.
  unfold slot_ok, v2_idx, v2_tile_idx_offset, BUNDLE_V2_HEADER_SIZE, BUNDLE_V2_GRID_HEIGHT.
  destruct s as [x y], s' as [x' y']; cbn [fst snd]. intros H1 H2 Hne.
  assert (x <> x' \/ y <> y') by (destruct (Z.eq_dec x x'); destruct (Z.eq_dec y y'); subst; tauto). lia.
Qed.

Lemma v2_decode off size : 0 <= off < two40 -> 0 <= size < two24 ->
  (off + size * two40) / two40 = size /\ (off + size * two40) mod two40 = off /\ 0 <= off + size * two40 < two64.
Proof. unfold two40, two24, two64. intros. lia. Qed.

Lemma v2_load_rec f s : v2_Inv f -> slot_ok s ->
  v2_load f s = match v2_rec f s with Some (_, d) => RData d | None => RMissing end.
Proof.
  intros [[G1 [G2 _]] [Hb _]] Hs. destruct (v2_idx_range s Hs) as [I1 [I2 _]].
  unfold v2_load, v2_tile_offset_size. rewrite v2_entry_bytes_spec. rewrite brdnum_some by (change (Z.of_nat 8) with 8; lia).
  specialize (G2 s). unfold v2_rec in *. rewrite v2_entry_size_spec, v2_entry_offset_spec.
  set (val := brd f (v2_idx s) 8) in *. destruct (val / two40 =? 0) eqn:E; [cbn; reflexivity|].
  rewrite E.
  pose proof (brd_bound f (v2_idx s) 8 Hb) as Hv. rewrite pow8 in Hv. fold val in Hv.
  assert (Hsz : 0 < val / two40) by (unfold two40 in *; lia).
  destruct (G2 _ _ Hs eq_refl) as [Ha [Hbnd _]]. rewrite zlen_bread in Hbnd.
  replace (val - val / two40 * two40) with (val mod two40) by (unfold two40; lia).
  rewrite breadz_full by lia. reflexivity.
Qed.

Lemma v2_store_facts f s d :
  v2_Inv f -> slot_ok s -> bytes_okl d -> zlen d < two24 -> blen f + 4 + zlen d < two40 ->
  exists f', v2_store1 f s d = Some f' /\ v2_extra f' /\ blen f' = blen f + 4 + zlen d /\
    v2_rec f' s = (if zlen d =? 0 then None else Some (blen f, d)) /\
    forall s', slot_ok s' -> s' <> s -> v2_rec f' s' = v2_rec f s'.
Proof.
  intros [[G1 [G2 _]] [Hb [Hfs Hrec]]] Hs Hd Hm Hg.
  pose proof (zlen_nonneg d) as Hz. destruct (v2_idx_range s Hs) as [I1 [I2 _]].
  set (e := blen f) in *. set (size := zlen d) in *.
  assert (HB2 : B2 = 131136) by reflexivity.
  destruct (v2_decode (e + 4) size) as [D1 [D2 D3]]; [unfold two40 in *; lia|lia|].
  unfold v2_store1. fold size. fold e. rewrite v2_entry_encode_spec.
  destruct (two32 <=? size) eqn:E32; [unfold two32, two24 in *; lia|]. clear E32.
  destruct (two64 <=? e + 4 + size * two40) eqn:E64; [lia|]. clear E64.
  set (val := e + 4 + size * two40) in *.
  set (f1 := bwrite f e (le 4 size)). set (f2 := bwrite f1 (e + 4) d). set (f3 := bwrite f2 (v2_idx s) (le 8 val)).
  assert (L1 : blen f1 = e + 4) by (unfold f1; rewrite blen_bwrite, zlen_le; fold e; lia).
  assert (L2 : blen f2 = e + 4 + size) by (unfold f2; rewrite blen_bwrite, L1; fold size; lia).
  assert (L3 : blen f3 = e + 4 + size) by (unfold f3; rewrite blen_bwrite, L2, zlen_le; lia).
  assert (Hb1 : bytes_ok f1) by (apply bytes_ok_bwrite; [assumption|apply le_bytes|fold e; lia]).
  assert (Hb2 : bytes_ok f2) by (apply bytes_ok_bwrite; [assumption|assumption|lia]).
  assert (Hb3 : bytes_ok f3) by (apply bytes_ok_bwrite; [assumption|apply le_bytes|lia]).
  (* frame: f3 against f below e, away from the index entry *)
  assert (F3 : forall o n, 0 <= o -> o + Z.of_nat n <= e ->
               o + Z.of_nat n <= v2_idx s \/ v2_idx s + 8 <= o -> bread f3 o n = bread f o n).
  { intros o n Ho Hn Hdis. unfold f3, f2, f1.
    rewrite bread_bwrite_out by (rewrite ?zlen_le; fold f1 f2; lia).
    rewrite bread_bwrite_out by (fold f1; fold size; lia).
    rewrite bread_bwrite_out by (rewrite ?zlen_le; fold e; lia). reflexivity. }
  rewrite brdnum_some by (rewrite L3; change (Z.of_nat 4) with 4; lia).
  assert (Hold : brd f3 8 4 = brd f 8 4) by (unfold brd; rewrite F3; [reflexivity|lia|change (Z.of_nat 4) with 4; lia|change (Z.of_nat 4) with 4; lia]).
  rewrite Hold. set (old := brd f 8 4) in *.
  set (f4 := if old <? size then bwrite f3 8 (le 4 size) else f3).
  assert (L4 : blen f4 = e + 4 + size) by (unfold f4; destruct (old <? size); [rewrite blen_bwrite, zlen_le; lia|exact L3]).
  assert (Hb4 : bytes_ok f4) by (unfold f4; destruct (old <? size); [apply bytes_ok_bwrite; [assumption|apply le_bytes|lia]|assumption]).
  set (f5 := bwrite f4 24 (le 8 (e + 4 + size))).
  assert (L5 : blen f5 = e + 4 + size) by (unfold f5; rewrite blen_bwrite, zlen_le, L4; lia).
  (* frame: f5 against f3 at and behind offset 32 *)
  assert (F5 : forall o n, 32 <= o -> bread f5 o n = bread f3 o n).
  { intros o n Ho. unfold f5. rewrite bread_bwrite_out by (rewrite ?zlen_le; lia).
    unfold f4. destruct (old <? size); [|reflexivity]. rewrite bread_bwrite_out by (rewrite ?zlen_le; lia). reflexivity. }
  assert (Hmax : brd f5 8 4 = Z.max old size).
  { unfold f5. rewrite brd_bwrite_out by (rewrite ?zlen_le; change (Z.of_nat 4) with 4; lia).
    unfold f4. destruct (old <? size) eqn:Eo.
    - rewrite brd_bwrite_same by (rewrite ?pow4; unfold two32, two24 in *; lia). lia.
    - rewrite Hold. lia. }
  assert (Hent : brd f5 (v2_idx s) 8 = val).
  { unfold brd. rewrite F5 by lia. fold (brd f3 (v2_idx s) 8). unfold f3.
    apply brd_bwrite_same; [lia|rewrite pow8; lia]. }
  assert (Hsz : brd f5 e 4 = size).
  { unfold brd. rewrite F5 by lia. unfold f3. rewrite bread_bwrite_out by (rewrite ?zlen_le; change (Z.of_nat 4) with 4; lia).
    unfold f2. rewrite bread_bwrite_out by (change (Z.of_nat 4) with 4; lia).
    fold (brd f1 e 4). unfold f1. apply brd_bwrite_same; [fold e; lia|rewrite pow4; unfold two32, two24 in *; lia]. }
  assert (Hdat : bread f5 (e + 4) (length d) = d).
  { rewrite F5 by lia. unfold f3. rewrite bread_bwrite_out by (rewrite ?zlen_le; fold size; unfold zlen in *; lia).
    unfold f2. apply bread_bwrite_same. lia. }
  assert (Hother : forall s', slot_ok s' -> s' <> s -> v2_rec f5 s' = v2_rec f s').
  { intros s' Hs' Hne. destruct (v2_idx_range s' Hs') as [J1 [J2 _]]. pose proof (v2_idx_disj s s' Hs Hs' (fun H => Hne (eq_sym H))) as Hdis.
    specialize (G2 s'). unfold v2_rec in *.
    assert (Ev : brd f5 (v2_idx s') 8 = brd f (v2_idx s') 8).
    { unfold brd. rewrite F5 by lia. rewrite F3; [reflexivity|lia|change (Z.of_nat 8) with 8; lia|change (Z.of_nat 8) with 8; lia]. }
    rewrite Ev. set (v' := brd f (v2_idx s') 8) in *. destruct (v' / two40 =? 0) eqn:E0; [reflexivity|].
    destruct (G2 _ _ Hs' eq_refl) as [Ha [Hbnd _]]. rewrite zlen_bread in Hbnd.
    pose proof (brd_bound f (v2_idx s') 8 Hb) as Hv. rewrite pow8 in Hv. fold v' in Hv.
    assert (0 < v' / two40) by (unfold two40 in *; lia).
    f_equal. f_equal. rewrite F5 by lia. apply F3; lia. }
  exists f5. splits.
  - reflexivity.
  - (* v2_extra f5 *)
    unfold v2_extra. splits.
    + unfold f5. apply bytes_ok_bwrite; [assumption|apply le_bytes|lia].
    + rewrite L5. unfold f5. apply brd_bwrite_same; [lia|rewrite pow8; unfold two64, two40 in *; lia].
    + intros s' a d' Hs' Hr. destruct (slot_eq_dec s' s) as [->|Hne].
      * unfold v2_rec in Hr. rewrite Hent, D1, D2 in Hr. destruct (size =? 0) eqn:Es; [discriminate|].
        inversion Hr; subst a d'. replace (e + 4 - 4) with e by lia. rewrite Hsz, zlen_bread, Hmax. lia.
      * rewrite Hother in Hr by assumption. destruct (Hrec s' a d' Hs' Hr) as [R1 R2].
        destruct (G2 s' a d' Hs' Hr) as [Ha [Hbnd _]]. rewrite Hmax. split; [|fold old in R2; lia].
        rewrite <- R1. unfold brd. rewrite F5 by lia. rewrite F3; [reflexivity|lia|change (Z.of_nat 4) with 4; pose proof (zlen_nonneg d'); lia|change (Z.of_nat 4) with 4; lia].
  - exact L5.
  - unfold v2_rec. rewrite Hent, D1, D2. destruct (size =? 0) eqn:Es; [reflexivity|].
    replace (e + 4 - 4) with e by lia. f_equal. f_equal.
    replace (Z.to_nat size) with (length d) by (unfold size, zlen; lia). exact Hdat.
  - exact Hother.
Qed.

Lemma v2_remove_facts f s : v2_Inv f -> slot_ok s ->
  v2_extra (v2_remove1 f s) /\ blen (v2_remove1 f s) = blen f /\ v2_rec (v2_remove1 f s) s = None /\
  forall s', slot_ok s' -> s' <> s -> v2_rec (v2_remove1 f s) s' = v2_rec f s'.
Proof.
  intros [[G1 [G2 _]] [Hb [Hfs Hrec]]] Hs. destruct (v2_idx_range s Hs) as [I1 [I2 _]].
  assert (HB2 : B2 = 131136) by reflexivity.
  unfold v2_remove1. rewrite v2_entry_encode_spec. change (0 + 0 * two40) with 0. set (f' := bwrite f (v2_idx s) (le 8 0)).
  assert (L : blen f' = blen f) by (unfold f'; rewrite blen_bwrite, zlen_le; lia).
  assert (F : forall o n, o + Z.of_nat n <= v2_idx s \/ v2_idx s + 8 <= o -> bread f' o n = bread f o n).
  { intros o n H. unfold f'. apply bread_bwrite_out; [lia|rewrite zlen_le; lia]. }
  assert (Hself : v2_rec f' s = None).
  { unfold v2_rec. unfold f'. rewrite brd_bwrite_same by (rewrite ?pow8; unfold two64; lia). reflexivity. }
  assert (Hother : forall s', slot_ok s' -> s' <> s -> v2_rec f' s' = v2_rec f s').
  { intros s' Hs' Hne. destruct (v2_idx_range s' Hs') as [J1 [J2 _]].
    pose proof (v2_idx_disj s s' Hs Hs' (fun H => Hne (eq_sym H))) as Hdis.
    specialize (G2 s'). unfold v2_rec in *.
    assert (Ev : brd f' (v2_idx s') 8 = brd f (v2_idx s') 8) by (unfold brd; rewrite F by (change (Z.of_nat 8) with 8; lia); reflexivity).
    rewrite Ev. set (v' := brd f (v2_idx s') 8) in *. destruct (v' / two40 =? 0) eqn:E0; [reflexivity|].
    destruct (G2 _ _ Hs' eq_refl) as [Ha [Hbnd _]]. f_equal. f_equal. apply F. lia. }
  splits; [|exact L|exact Hself|exact Hother].
  unfold v2_extra. splits.
  - unfold f'. apply bytes_ok_bwrite; [assumption|apply le_bytes|lia].
  - rewrite L, <- Hfs. unfold brd. rewrite F; [reflexivity|change (Z.of_nat 8) with 8; lia].
  - intros s' a d' Hs' Hr. destruct (slot_eq_dec s' s) as [->|Hne]; [congruence|].
    rewrite Hother in Hr by assumption. destruct (Hrec s' a d' Hs' Hr) as [R1 R2].
    destruct (G2 s' a d' Hs' Hr) as [Ha _]. unfold brd in *. rewrite !F; [auto|change (Z.of_nat 4) with 4; lia|change (Z.of_nat 4) with 4; lia].
Qed.

Lemma v2_header_bytes : bytes_okl v2_header.
Proof.
  unfold bytes_okl. apply Forall_forall. intros b Hb.
  assert (H : forallb (fun b => (0 <=? b) && (b <? 256)) v2_header = true) by reflexivity.
  rewrite forallb_forall in H. specialize (H b Hb). lia.
Qed.

Lemma v2_init_byte i : 64 <= i < B2 -> bbyte v2_init i = if i mod 8 =? 0 then 4 else 0.
Proof.
  intros H. unfold bbyte, v2_init, bnew. cbn [blen bover binit]. rewrite PositiveMap.gempty.
  destruct ((0 <=? i) && (i <? B2)) eqn:E; [|lia]. destruct (i <? 64) eqn:E1; [lia|].
  change 7 with (Z.ones 3). rewrite Z.land_ones by lia. reflexivity.
Qed.

Lemma v2_fresh_facts : v2_extra v2_init /\ blen v2_init = B2 /\ forall s, slot_ok s -> v2_rec v2_init s = None.
Proof.
  assert (Hnone : forall s, slot_ok s -> v2_rec v2_init s = None).
  { intros s Hs. destruct (v2_idx_range s Hs) as [I1 [I2 I3]]. unfold v2_rec.
    assert (E : brd v2_init (v2_idx s) 8 = 4).
    { unfold brd, bread. cbn [seq map]. rewrite !v2_init_byte by lia.
      repeat match goal with |- context [if ?c then _ else _] => destruct c eqn:?; try lia end. reflexivity. }
    rewrite E. reflexivity. }
  splits; [|reflexivity|exact Hnone].
  unfold v2_extra. splits.
  - apply bytes_ok_bnew. intros i. destruct (i <? 64); [apply bytes_okl_nth, v2_header_bytes|].
    destruct (Z.land i 7 =? 0); lia.
  - vm_compute. reflexivity.
  - intros s a d Hs Hr. rewrite Hnone in Hr by assumption. discriminate.
Qed.

(* --- the theorems of the generic part, for v2 *)
Definition v2_live_sum := g_live_sum bfile v2_rec.

Lemma v2_Inv_is_g f : v2_Inv f <-> Inv_g bfile v2_rec blen B2 two24 v2_extra f.
Proof. reflexivity. Qed.

Ltac inst_v2 lem X :=
  pose proof (lem bfile v2_load v2_store1 v2_remove1 v2_init v2_rec blen B2 two24 v2_extra) as X;
  repeat first [specialize (X v2_load_rec) | specialize (X v2_store_facts) | specialize (X v2_remove_facts)
               | specialize (X v2_fresh_facts)].

Theorem v2_inv_init : v2_Inv v2_init.
Proof. inst_v2 g_inv_fresh X. exact X. Qed.

Theorem v2_inv_store f s d :
  v2_Inv f -> slot_ok s -> bytes_okl d -> zlen d < two24 -> blen f + 4 + zlen d < two40 ->
  exists f', v2_store1 f s d = Some f' /\ v2_Inv f' /\ blen f' = blen f + 4 + zlen d /\
    v2_load f' s = (if zlen d =? 0 then RMissing else RData d) /\
    forall s', slot_ok s' -> s' <> s -> v2_load f' s' = v2_load f s'.
Proof.
  intros HI Hs Hd Hm Hg.
  inst_v2 g_inv_store X. destruct (X f s d HI Hs Hd Hm Hg)
    as [f' [E [HI' [Hl [Hr Ho]]]]].
  exists f'. splits; auto.
  - rewrite v2_load_rec by assumption. rewrite Hr. destruct (zlen d =? 0); reflexivity.
  - intros s' Hs' Hne. rewrite !v2_load_rec by assumption. now rewrite Ho.
Qed.

Theorem v2_inv_remove f s : v2_Inv f -> slot_ok s ->
  v2_Inv (v2_remove1 f s) /\ blen (v2_remove1 f s) = blen f /\ v2_load (v2_remove1 f s) s = RMissing /\
  forall s', slot_ok s' -> s' <> s -> v2_load (v2_remove1 f s) s' = v2_load f s'.
Proof.
  intros HI Hs.
  inst_v2 g_inv_remove X. destruct (X f s HI Hs) as [HI' [Hl [Hr Ho]]].
  splits; auto.
  - rewrite v2_load_rec by assumption. now rewrite Hr.
  - intros s' Hs' Hne. rewrite !v2_load_rec by assumption. now rewrite Ho.
Qed.

Theorem v2_history_inv ops :
  Forall (op_ok two24) ops -> B2 + ops_bytes ops < two40 ->
  exists f, v2_run ops = Some f /\ v2_Inv f /\ blen f = B2 + ops_bytes ops.
Proof.
  intros Hf Hg.
  inst_v2 g_history_inv X. exact (X ops v2_init v2_inv_init Hf Hg).
Qed.

Theorem v2_defrag_correct f : v2_Inv f -> blen f < two40 ->
  exists r, v2_defrag f = Some r /\
    (forall s, slot_ok s -> g_load_opt bfile v2_load r s = v2_load f s) /\
    (forall f', r = Some f' -> v2_Inv f' /\ blen f' = B2 + v2_live_sum f /\ blen f' <= blen f) /\
    (r = None -> v2_live_sum f = 0).
Proof.
  intros HI Hg.
  inst_v2 g_defrag_spec X. exact (X f HI Hg).
Qed.

(* the invariant in the words of the property: every index entry is empty or points at a complete record
   inside the file whose recorded size matches (in the entry and in front of the data), behind the index *)
Theorem v2_inv_readable f x y : v2_Inv f -> 0 <= x < 128 -> 0 <= y < 128 ->
  let val := brd f (64 + (x + 128 * y) * 8) 8 in
  let size := val / two40 in
  let offset := val mod two40 in
  size = 0 \/
  (B2 + 4 <= offset /\ offset + size <= blen f /\ 0 < size < two24 /\ brd f (offset - 4) 4 = size /\
   v2_load f (x, y) = RData (bread f offset (Z.to_nat size))).
Proof.
  intros HI Hx Hy. assert (Hs : slot_ok (x, y)) by (unfold slot_ok; cbn [fst snd]; lia).
  pose proof (v2_load_rec f (x, y) HI Hs) as Hl. destruct HI as [[G1 [G2 _]] [Hb [Hfs Hrec]]].
  specialize (G2 (x, y)). specialize (Hrec (x, y)). unfold v2_rec in *.
  change (v2_idx (x, y)) with (64 + (x + 128 * y) * 8) in *.
  cbv zeta. set (val := brd f (64 + (x + 128 * y) * 8) 8) in *.
  destruct (val / two40 =? 0) eqn:E; [left; lia|right].
  destruct (G2 _ _ Hs eq_refl) as [Ha [Hbnd [Hsz _]]]. destruct (Hrec _ _ Hs eq_refl) as [R1 _].
  rewrite zlen_bread in *. assert (0 < val / two40) by (pose proof (brd_bound f (64 + (x + 128 * y) * 8) 8 Hb); fold val in H; unfold two40 in *; lia).
  splits; try lia. exact Hl.
Qed.

(* size() *)
Lemma v2_tos_rec f s : v2_Inv f -> slot_ok s ->
  exists o size, v2_tile_offset_size f s = Some (o, size) /\
    (if size =? 0 then 0 else size + 4) = rec_len (v2_rec f s).
Proof.
  intros [[G1 [G2 _]] [Hb _]] Hs. destruct (v2_idx_range s Hs) as [I1 [I2 _]].
  unfold v2_tile_offset_size. rewrite v2_entry_bytes_spec. rewrite brdnum_some by (change (Z.of_nat 8) with 8; lia).
  unfold v2_rec. rewrite v2_entry_size_spec. set (val := brd f (v2_idx s) 8).
  pose proof (brd_bound f (v2_idx s) 8 Hb) as Hv. rewrite pow8 in Hv. fold val in Hv.
  destruct (val / two40 =? 0) eqn:E.
  - exists 0, 0. split; reflexivity.
  - eexists _, _. split; [reflexivity|]. rewrite E. cbn [rec_len]. rewrite zlen_bread.
    assert (0 < val / two40) by (unfold two40 in *; lia). lia.
Qed.

Theorem v2_size_exact f : v2_Inv f -> v2_size f = Some (B2 + v2_live_sum f, blen f).
Proof.
  intros HI. unfold v2_size, v2_live_sum, g_live_sum.
  assert (Hall : forall s, In s all_slots -> slot_ok s) by (intros s; apply in_all_slots).
  assert (G : forall ss t, (forall s, In s ss -> slot_ok s) ->
    fold_left (fun acc s => match acc with
                            | None => None
                            | Some t => match v2_tile_offset_size f s with
                                        | None => None
                                        | Some (_, size) => Some (if size =? 0 then t else t + size + 4)
                                        end
                            end) ss (Some t) = Some (t + g_live_sum_on bfile v2_rec f ss)).
  { induction ss as [|s ss IH]; intros t Hok.
    - cbn. f_equal. lia.
    - cbn [fold_left]. destruct (v2_tos_rec f s HI (Hok s (or_introl eq_refl))) as [o [size [E Hlen]]].
      rewrite E. change (g_live_sum_on bfile v2_rec f (s :: ss)) with (rec_len (v2_rec f s) + g_live_sum_on bfile v2_rec f ss).
      rewrite <- Hlen. destruct (size =? 0); rewrite IH by (intros; apply Hok; now right); f_equal; lia. }
  rewrite (G all_slots 0 Hall). f_equal. f_equal. unfold B2, V2_INDEX_SIZE. lia.
Qed.

(* non-vacuity: a concrete history (two stores, an overwrite, a remove, a batch with a duplicate) satisfies
   the guards of the theorems, runs in the model and leaves two live tiles *)
Definition ex_ops : list bop :=
  [OStore [((0, 0), [1; 2; 3]); ((127, 127), [4; 5])]; OStore [((0, 0), [9])]; ORemove (127, 127);
   OStore [((12, 99), [7; 7]); ((12, 99), [8; 8; 8])]].

Definition slot_okb (s : slot) : bool := (0 <=? fst s) && (fst s <? 128) && (0 <=? snd s) && (snd s <? 128).
Definition tile_okb (m : Z) (t : slot * list Z) : bool :=
  slot_okb (fst t) && forallb (fun b => (0 <=? b) && (b <? 256)) (snd t) && (zlen (snd t) <? m).
Definition op_okb (m : Z) (op : bop) : bool :=
  match op with OStore l => forallb (tile_okb m) l | ORemove s => slot_okb s end.

Lemma slot_okb_sound s : slot_okb s = true -> slot_ok s.
Proof. unfold slot_okb, slot_ok. lia. Qed.

Lemma tile_okb_sound m t : tile_okb m t = true -> tile_ok m t.
Proof.
  unfold tile_okb, tile_ok. intros H. apply andb_prop in H. destruct H as [H H3]. apply andb_prop in H. destruct H as [H1 H2].
  splits; [now apply slot_okb_sound| |lia].
  apply Forall_forall. intros b Hb. rewrite forallb_forall in H2. specialize (H2 b Hb). lia.
Qed.

Lemma op_okb_sound m ops : forallb (op_okb m) ops = true -> Forall (op_ok m) ops.
Proof.
  intros H. apply Forall_forall. intros op Hop. rewrite forallb_forall in H. specialize (H op Hop).
  destruct op as [l|s]; cbn [op_okb op_ok] in *.
  - apply Forall_forall. intros t Ht. rewrite forallb_forall in H. apply tile_okb_sound. now apply H.
  - now apply slot_okb_sound.
Qed.

Example ex_ops_ok : Forall (op_ok two24) ex_ops /\ B2 + ops_bytes ex_ops < two40.
Proof. split; [apply op_okb_sound; vm_compute; reflexivity|vm_compute; reflexivity]. Qed.

Example v2_ex_run :
  match v2_run ex_ops with
  | Some f =>
      rres_eqb (v2_load f (0, 0)) (RData [9]) && rres_eqb (v2_load f (127, 127)) RMissing &&
      rres_eqb (v2_load f (12, 99)) (RData [8; 8; 8]) && size_eqb (v2_size f) (Some (B2 + 12, B2 + 31)) &&
      match v2_defrag f with
      | Some (Some f') => (blen f' =? B2 + 12) && rres_eqb (v2_load f' (12, 99)) (RData [8; 8; 8])
                          && rres_eqb (v2_load f' (0, 0)) (RData [9])
      | _ => false
      end
  | None => false
  end = true.
Proof. vm_compute. reflexivity. Qed.

(* ================================================================================================ *)
(* Part 4: format v1                                                                                 *)

Lemma v1_ioff_range s : slot_ok s -> 16 <= v1_ioff s /\ v1_ioff s + 5 <= 16 + 16384 * 5.
Proof.
  unfold slot_ok, v1_ioff, v1_tile_index_offset, BUNDLEX_V1_HEADER_SIZE, BUNDLEX_V1_GRID_HEIGHT.
  destruct s as [x y]; cbn [fst snd]. lia.
Qed.
Lemma v1_ioff_disj s s' : slot_ok s -> slot_ok s' -> s <> s' -> v1_ioff s + 5 <= v1_ioff s' \/ v1_ioff s' + 5 <= v1_ioff s.
Proof.
  unfold slot_ok, v1_ioff, v1_tile_index_offset, BUNDLEX_V1_HEADER_SIZE, BUNDLEX_V1_GRID_HEIGHT.
  destruct s as [x y], s' as [x' y']; cbn [fst snd]. intros H1 H2 Hne.
  assert (x <> x' \/ y <> y') by (destruct (Z.eq_dec x x'); destruct (Z.eq_dec y y'); subst; tauto). lia.
Qed.

Lemma bytes_okl_app a b : bytes_okl a -> bytes_okl b -> bytes_okl (a ++ b).
Proof. unfold bytes_okl. intros. apply Forall_app. auto. Qed.

Lemma app2 {A} (a b r : list A) : a ++ b ++ r = (a ++ b) ++ r.
Proof. now rewrite <- !app_assoc. Qed.
Lemma app4 {A} (a b c d r : list A) : a ++ b ++ c ++ d ++ r = (a ++ b ++ c ++ d) ++ r.
Proof. now rewrite <- !app_assoc. Qed.
Lemma app5 {A} (a b c d e r : list A) : a ++ b ++ c ++ d ++ e ++ r = (a ++ b ++ c ++ d ++ e) ++ r.
Proof. now rewrite <- !app_assoc. Qed.
Lemma brd_bwrite_mid' f off l1 l2 n v o :
  0 <= off -> 0 <= v < 256 ^ Z.of_nat n -> o = off + zlen l1 ->
  brd (bwrite f off (l1 ++ le n v ++ l2)) o n = v.
Proof. intros H0 Hv ->. now apply brd_bwrite_mid. Qed.

Lemma v1_load_rec st s : v1_Inv st -> slot_ok s ->
  v1_load st s = match v1_rec st s with Some (_, d) => RData d | None => RMissing end.
Proof.
  intros [_ [Hbi [Hbd [Hli [Hent _]]]]] Hs. destruct st as [idx dat]. cbn [fst snd] in *.
  destruct (v1_ioff_range s Hs) as [I1 I2].
  unfold v1_load, v1_tile_offset, v1_entry_bytes. rewrite brdnum_some by (rewrite Hli; unfold X1; change (Z.of_nat 5) with 5; lia).
  unfold v1_rec. cbn [fst snd]. specialize (Hent s Hs). cbv zeta in Hent.
  set (off := brd idx (v1_ioff s) 5) in *.
  destruct (off =? 0) eqn:E0; [reflexivity|]. destruct Hent as [?|[H60 Hin]]; [lia|].
  pose proof (brd_bound dat off 4 Hbd) as Hn. rewrite pow4 in Hn.
  rewrite brdnum_some by (change (Z.of_nat 4) with 4; lia).
  set (n := brd dat off 4) in *.
  destruct (n =? 0) eqn:En.
  - destruct (n <=? 0) eqn:E1; [reflexivity|lia].
  - destruct (n <=? 0) eqn:E1; [lia|]. rewrite breadz_full by lia.
    destruct (bread dat (off + 4) (Z.to_nat n)) eqn:Eb; [apply bread_nil_iff in Eb; lia|reflexivity].
Qed.

Lemma v1_hdr_pack_some h0 h1 h2 h3 h4 h5 h6 h7 h8 h9 h10 h11 :
  0 <= h0 < two32 -> 0 <= h1 < two32 -> 0 <= h2 < two32 -> 0 <= h3 < two32 ->
  0 <= h4 < two64 -> 0 <= h5 < two64 -> 0 <= h6 < two64 ->
  0 <= h7 < two32 -> 0 <= h8 < two32 -> 0 <= h9 < two32 -> 0 <= h10 < two32 -> 0 <= h11 < two32 ->
  v1_hdr_pack [h0; h1; h2; h3; h4; h5; h6; h7; h8; h9; h10; h11] =
  Some (le 4 h0 ++ le 4 h1 ++ le 4 h2 ++ le 4 h3 ++ le 8 h4 ++ le 8 h5 ++ le 8 h6 ++
        le 4 h7 ++ le 4 h8 ++ le 4 h9 ++ le 4 h10 ++ le 4 h11).
Proof.
  intros. unfold v1_hdr_pack. cbn [forallb].
  match goal with |- (if ?c then _ else _) = _ => assert (E : c = true) by lia; rewrite E end. reflexivity.
Qed.

Lemma v1_store_facts st s d :
  v1_Inv st -> slot_ok s -> bytes_okl d -> zlen d < two32 -> v1_dlen st + 4 + zlen d < two40 ->
  exists st', v1_store1 st s d = Some st' /\ v1_extra st' /\ v1_dlen st' = v1_dlen st + 4 + zlen d /\
    v1_rec st' s = (if zlen d =? 0 then None else Some (v1_dlen st, d)) /\
    forall s', slot_ok s' -> s' <> s -> v1_rec st' s' = v1_rec st s'.
Proof.
  intros [[G1 [G2 _]] [Hbi [Hbd [Hli [Hent [H5 [H4 Hmax]]]]]]] Hs Hd Hm Hg.
  destruct st as [idx dat]. unfold v1_dlen in *. cbn [fst snd] in *.
  pose proof (zlen_nonneg d) as Hz. destruct (v1_ioff_range s Hs) as [I1 I2].
  set (e := blen dat) in *. set (size := zlen d) in *.
  assert (HB1 : B1 = 65596) by reflexivity. assert (HX1 : X1 = 81952) by reflexivity.
  assert (T40 : two40 = 1099511627776) by reflexivity. assert (T32 : two32 = 4294967296) by reflexivity.
  assert (T64 : two64 = 18446744073709551616) by reflexivity.
  unfold v1_store1, v1_tile_offset, v1_entry_bytes, v1_entry_write_bytes.
  rewrite brdnum_some by (rewrite Hli; change (Z.of_nat 5) with 5; lia).
  set (prev := brd idx (v1_ioff s) 5).
  assert (Hnew : exists b, (if prev =? 0 then Some true
                            else match brdnum dat prev 4 with None => None | Some n => Some (negb (0 <? n)) end) = Some b).
  { destruct (prev =? 0) eqn:E0; [eexists; reflexivity|].
    unfold prev in *. destruct (Hent s Hs) as [H|[H60 Hin]]; [lia|].
    pose proof (brd_bound dat (brd idx (v1_ioff s) 5) 4 Hbd). rewrite brdnum_some by (change (Z.of_nat 4) with 4; fold e; lia).
    eexists; reflexivity. }
  destruct Hnew as [is_new Hnew]. rewrite Hnew. fold size. fold e.
  destruct (e =? 0) eqn:Ee; [lia|]. destruct (two32 <=? size) eqn:E32; [lia|]. clear Ee E32.
  set (dat1 := bwrite dat e (le 4 size)). set (dat2 := bwrite dat1 (e + 4) d).
  assert (L1 : blen dat1 = e + 4) by (unfold dat1; rewrite blen_bwrite, zlen_le; fold e; lia).
  assert (L2 : blen dat2 = e + 4 + size) by (unfold dat2; rewrite blen_bwrite, L1; fold size; lia).
  assert (Hb1 : bytes_ok dat1) by (apply bytes_ok_bwrite; [assumption|apply le_bytes|fold e; lia]).
  assert (Hb2 : bytes_ok dat2) by (apply bytes_ok_bwrite; [assumption|assumption|lia]).
  assert (F2 : forall o n, o + Z.of_nat n <= e -> bread dat2 o n = bread dat o n).
  { intros o n Hn. unfold dat2, dat1. rewrite bread_bwrite_out by (fold dat1; fold size; lia).
    rewrite bread_bwrite_out by (rewrite ?zlen_le; fold e; lia). reflexivity. }
  unfold v1_hdr_unpack. destruct (60 <=? blen dat2) eqn:E60; [|lia]. clear E60.
  assert (R : forall o n, o + Z.of_nat n <= e -> brd dat2 o n = brd dat o n) by (intros; unfold brd; now rewrite F2).
  rewrite !R by (cbn; lia).
  pose proof (brd_bound dat 0 4 Hbd) as B0. pose proof (brd_bound dat 4 4 Hbd) as B1'. pose proof (brd_bound dat 8 4 Hbd) as B2'.
  pose proof (brd_bound dat 12 4 Hbd) as B3. pose proof (brd_bound dat 16 8 Hbd) as B4. pose proof (brd_bound dat 32 8 Hbd) as B6.
  pose proof (brd_bound dat 40 4 Hbd) as B7. pose proof (brd_bound dat 44 4 Hbd) as B8. pose proof (brd_bound dat 48 4 Hbd) as B9.
  pose proof (brd_bound dat 52 4 Hbd) as B10. pose proof (brd_bound dat 56 4 Hbd) as B11.
  rewrite pow4 in *. rewrite pow8 in *.
  set (h4' := if is_new then brd dat 16 8 + 4 else brd dat 16 8).
  assert (Hh4 : 0 <= h4' <= brd dat 16 8 + 4) by (unfold h4'; destruct is_new; lia).
  rewrite v1_hdr_pack_some by lia.
  set (hb := le 4 (brd dat 0 4) ++ le 4 (brd dat 4 4) ++ le 4 (Z.max (brd dat 8 4) size) ++ le 4 (brd dat 12 4) ++
             le 8 h4' ++ le 8 (brd dat 24 8 + size + 4) ++ le 8 (brd dat 32 8) ++ le 4 (brd dat 40 4) ++
             le 4 (brd dat 44 4) ++ le 4 (brd dat 48 4) ++ le 4 (brd dat 52 4) ++ le 4 (brd dat 56 4)).
  assert (Lhb : zlen hb = 60) by (unfold hb; rewrite !zlen_app, !zlen_le; reflexivity).
  assert (Hhb : bytes_okl hb) by (unfold hb; repeat apply bytes_okl_app; apply le_bytes).
  set (dat3 := bwrite dat2 0 hb). set (idx' := bwrite idx (v1_ioff s) (le 5 e)).
  assert (L3 : blen dat3 = e + 4 + size) by (unfold dat3; rewrite blen_bwrite, L2, Lhb; lia).
  assert (Li : blen idx' = X1) by (unfold idx'; rewrite blen_bwrite, zlen_le, Hli; change (Z.of_nat 5) with 5; lia).
  assert (F3 : forall o n, 60 <= o -> bread dat3 o n = bread dat2 o n).
  { intros o n Ho. unfold dat3. apply bread_bwrite_out; [lia|rewrite Lhb; lia]. }
  assert (F : forall o n, 60 <= o -> o + Z.of_nat n <= e -> bread dat3 o n = bread dat o n).
  { intros o n Ho Hn. rewrite F3 by lia. now apply F2. }
  assert (Fi : forall o n, o + Z.of_nat n <= v1_ioff s \/ v1_ioff s + 5 <= o -> bread idx' o n = bread idx o n).
  { intros o n H. unfold idx'. apply bread_bwrite_out; [lia|rewrite zlen_le; change (Z.of_nat 5) with 5; lia]. }
  assert (Hent' : brd idx' (v1_ioff s) 5 = e) by (unfold idx'; apply brd_bwrite_same; [lia|rewrite pow5; lia]).
  assert (Hsz : brd dat3 e 4 = size).
  { unfold brd. rewrite F3 by lia. unfold dat2. rewrite bread_bwrite_out by (change (Z.of_nat 4) with 4; lia).
    fold (brd dat1 e 4). unfold dat1. apply brd_bwrite_same; [fold e; lia|rewrite pow4; lia]. }
  assert (Hdat : bread dat3 (e + 4) (length d) = d).
  { rewrite F3 by lia. unfold dat2. apply bread_bwrite_same. lia. }
  assert (Hh2 : brd dat3 8 4 = Z.max (brd dat 8 4) size).
  { unfold dat3, hb. rewrite app2. apply brd_bwrite_mid'; [lia|rewrite pow4; lia|rewrite !zlen_app, !zlen_le; reflexivity]. }
  assert (Hh4' : brd dat3 16 8 = h4').
  { unfold dat3, hb. rewrite app4. apply brd_bwrite_mid'; [lia|rewrite pow8; lia|rewrite !zlen_app, !zlen_le; reflexivity]. }
  assert (Hh5 : brd dat3 24 8 = brd dat 24 8 + size + 4).
  { unfold dat3, hb. rewrite app5. apply brd_bwrite_mid'; [lia|rewrite pow8; lia|rewrite !zlen_app, !zlen_le; reflexivity]. }
  assert (Hother : forall s', slot_ok s' -> s' <> s -> v1_rec (idx', dat3) s' = v1_rec (idx, dat) s').
  { intros s' Hs' Hne. destruct (v1_ioff_range s' Hs') as [J1 J2].
    pose proof (v1_ioff_disj s s' Hs Hs' (fun H => Hne (eq_sym H))) as Hdis.
    unfold v1_rec. cbn [fst snd].
    assert (Ev : brd idx' (v1_ioff s') 5 = brd idx (v1_ioff s') 5) by (unfold brd; rewrite Fi by (change (Z.of_nat 5) with 5; lia); reflexivity).
    rewrite Ev. specialize (Hent s' Hs'). cbv zeta in Hent. set (off := brd idx (v1_ioff s') 5) in *.
    destruct (off =? 0) eqn:E0; [reflexivity|]. destruct Hent as [?|[H60 Hin]]; [lia|]. fold e in Hin.
    pose proof (brd_bound dat off 4 Hbd) as Hn. rewrite pow4 in Hn.
    assert (En : brd dat3 off 4 = brd dat off 4) by (unfold brd; rewrite F by (change (Z.of_nat 4) with 4; lia); reflexivity).
    rewrite En. destruct (brd dat off 4 =? 0) eqn:E1; [reflexivity|]. f_equal. f_equal. apply F; lia. }
  exists (idx', dat3). splits.
  - reflexivity.
  - unfold v1_extra. cbn [fst snd]. splits.
    + unfold idx'. apply bytes_ok_bwrite; [assumption|apply le_bytes|lia].
    + unfold dat3. apply bytes_ok_bwrite; [assumption|assumption|lia].
    + exact Li.
    + intros s' Hs'. cbv zeta. destruct (slot_eq_dec s' s) as [->|Hne].
      * right. rewrite Hent', Hsz, L3. lia.
      * destruct (v1_ioff_range s' Hs') as [J1 J2].
        pose proof (v1_ioff_disj s s' Hs Hs' (fun H => Hne (eq_sym H))) as Hdis.
        assert (Ev : brd idx' (v1_ioff s') 5 = brd idx (v1_ioff s') 5) by (unfold brd; rewrite Fi by (change (Z.of_nat 5) with 5; lia); reflexivity).
        rewrite Ev. specialize (Hent s' Hs'). cbv zeta in Hent. set (off := brd idx (v1_ioff s') 5) in *.
        destruct Hent as [H0|[H60 Hin]]; [left; exact H0|right]. fold e in Hin.
        pose proof (brd_bound dat off 4 Hbd) as Hn. rewrite pow4 in Hn.
        assert (En : brd dat3 off 4 = brd dat off 4)
          by (unfold brd; rewrite F by (change (Z.of_nat 4) with 4; lia); reflexivity).
        rewrite En, L3. lia.
    + rewrite Hh5, L3, H5. lia.
    + rewrite Hh4', L3. lia.
    + intros s' a d' Hs' Hr. rewrite Hh2. destruct (slot_eq_dec s' s) as [->|Hne].
      * unfold v1_rec in Hr. cbn [fst snd] in Hr. rewrite Hent', Hsz in Hr.
        destruct (e =? 0); [discriminate|]. destruct (size =? 0) eqn:Es; [discriminate|].
        inversion Hr; subst a d'. rewrite zlen_bread. lia.
      * rewrite Hother in Hr by assumption. specialize (Hmax s' a d' Hs' Hr). lia.
  - cbn [snd]. exact L3.
  - unfold v1_rec. cbn [fst snd]. rewrite Hent', Hsz. destruct (e =? 0) eqn:Ee; [lia|].
    destruct (size =? 0) eqn:Es; [reflexivity|]. f_equal. f_equal.
    replace (Z.to_nat size) with (length d) by (unfold size, zlen; lia). exact Hdat.
  - exact Hother.
Qed.

Lemma v1_remove_facts st s : v1_Inv st -> slot_ok s ->
  v1_extra (v1_remove1 st s) /\ v1_dlen (v1_remove1 st s) = v1_dlen st /\ v1_rec (v1_remove1 st s) s = None /\
  forall s', slot_ok s' -> s' <> s -> v1_rec (v1_remove1 st s) s' = v1_rec st s'.
Proof.
  intros [_ [Hbi [Hbd [Hli [Hent [H5 [H4 Hmax]]]]]]] Hs. destruct st as [idx dat]. unfold v1_dlen, v1_remove1. cbn [fst snd] in *.
  destruct (v1_ioff_range s Hs) as [I1 I2]. assert (HX1 : X1 = 81952) by reflexivity.
  change (repeat 0 v1_entry_remove_bytes) with (le 5 0). set (idx' := bwrite idx (v1_ioff s) (le 5 0)).
  assert (Li : blen idx' = X1) by (unfold idx'; rewrite blen_bwrite, zlen_le, Hli; change (Z.of_nat 5) with 5; lia).
  assert (Fi : forall o n, o + Z.of_nat n <= v1_ioff s \/ v1_ioff s + 5 <= o -> bread idx' o n = bread idx o n).
  { intros o n H. unfold idx'. apply bread_bwrite_out; [lia|rewrite zlen_le; change (Z.of_nat 5) with 5; lia]. }
  assert (Hz : brd idx' (v1_ioff s) 5 = 0) by (unfold idx'; apply brd_bwrite_same; [lia|rewrite pow5; unfold two40; lia]).
  assert (Hev : forall s', slot_ok s' -> s' <> s -> brd idx' (v1_ioff s') 5 = brd idx (v1_ioff s') 5).
  { intros s' Hs' Hne. destruct (v1_ioff_range s' Hs') as [J1 J2].
    pose proof (v1_ioff_disj s s' Hs Hs' (fun H => Hne (eq_sym H))) as Hdis.
    unfold brd. rewrite Fi by (change (Z.of_nat 5) with 5; lia). reflexivity. }
  assert (Hother : forall s', slot_ok s' -> s' <> s -> v1_rec (idx', dat) s' = v1_rec (idx, dat) s').
  { intros s' Hs' Hne. unfold v1_rec. cbn [fst snd]. now rewrite Hev. }
  assert (Hself : v1_rec (idx', dat) s = None) by (unfold v1_rec; cbn [fst snd]; rewrite Hz; reflexivity).
  splits; [|reflexivity|exact Hself|exact Hother].
  unfold v1_extra. cbn [fst snd]. splits; auto.
  - unfold idx'. apply bytes_ok_bwrite; [assumption|apply le_bytes|lia].
  - intros s' Hs'. cbv zeta. destruct (slot_eq_dec s' s) as [->|Hne]; [left; exact Hz|].
    rewrite Hev by assumption. apply (Hent s' Hs').
  - intros s' a d' Hs' Hr. destruct (slot_eq_dec s' s) as [->|Hne]; [congruence|].
    rewrite Hother in Hr by assumption. eapply Hmax; eauto.
Qed.

Lemma v1_init_entries_find : forall n k p m q,
  PositiveMap.find q (v1_init_entries n k p m) =
  if (Zpos p <=? Zpos q) && (Zpos q <? Zpos p + 5 * Z.of_nat n)
  then Some (nth (Z.to_nat ((Zpos q - Zpos p) mod 5)) (le 5 ((k + (Zpos q - Zpos p) / 5) * 4 + 60)) 0)
  else PositiveMap.find q m.
Proof.
  induction n; intros k p m q.
  - cbn [v1_init_entries]. destruct ((Z.pos p <=? Z.pos q) && (Z.pos q <? Z.pos p + 5 * Z.of_nat 0)) eqn:E; [lia|reflexivity].
  - cbn [v1_init_entries]. rewrite IHn, put_bytes_find, zlen_le. rewrite Pos2Z.inj_add.
    change (Z.of_nat 5) with 5.
    destruct ((Z.pos p + 5 <=? Z.pos q) && (Z.pos q <? Z.pos p + 5 + 5 * Z.of_nat n)) eqn:E1;
    destruct ((Z.pos p <=? Z.pos q) && (Z.pos q <? Z.pos p + 5 * Z.of_nat (S n))) eqn:E2; try lia.
    + f_equal. f_equal; [f_equal; lia|f_equal; lia].
    + destruct ((Z.pos p <=? Z.pos q) && (Z.pos q <? Z.pos p + 5)) eqn:E3; [|lia].
      f_equal. f_equal; [f_equal; lia|f_equal; lia].
    + destruct ((Z.pos p <=? Z.pos q) && (Z.pos q <? Z.pos p + 5)) eqn:E3; [lia|reflexivity].
Qed.

Lemma v1_init_idx_entry s : slot_ok s -> brd v1_init_idx (v1_ioff s) 5 = (fst s * 128 + snd s) * 4 + 60.
Proof.
  intros Hs. destruct (v1_ioff_range s Hs) as [I1 I2].
  set (k := fst s * 128 + snd s).
  assert (Hk : v1_ioff s = 16 + 5 * k /\ 0 <= k < 16384).
  { unfold k, v1_ioff, v1_tile_index_offset, BUNDLEX_V1_HEADER_SIZE, BUNDLEX_V1_GRID_HEIGHT, slot_ok in *. lia. }
  destruct Hk as [Hio Hk].
  assert (E : bread v1_init_idx (v1_ioff s) 5 = le 5 (k * 4 + 60)).
  { rewrite <- (map_nth_seq (le 5 (k * 4 + 60))). rewrite length_le. unfold bread. apply map_ext_in. intros j Hj. apply in_seq in Hj.
    unfold bbyte, v1_init_idx. cbn [blen bover binit].
    destruct ((0 <=? v1_ioff s + Z.of_nat j) && (v1_ioff s + Z.of_nat j <? X1)) eqn:Er; [|unfold X1 in *; lia].
    rewrite v1_init_entries_find. rewrite Z2Pos.id by lia. change (Z.pos 17) with 17. change (Z.of_nat (128 * 128)) with 16384.
    destruct ((17 <=? v1_ioff s + Z.of_nat j + 1) && (v1_ioff s + Z.of_nat j + 1 <? 17 + 5 * 16384)) eqn:E2; [|lia].
    f_equal; [f_equal; lia|f_equal; lia]. }
  unfold brd. rewrite E. apply unle_le. rewrite pow5. unfold two40. lia.
Qed.

Lemma v1_init_hdr_bytes c r : bytes_okl (v1_init_hdr c r).
Proof. unfold v1_init_hdr. repeat apply bytes_okl_app; apply le_bytes. Qed.

Lemma v1_const_bytes : bytes_okl v1_index_header /\ bytes_okl v1_index_footer.
Proof.
  assert (B : forall l, forallb (fun b => (0 <=? b) && (b <? 256)) l = true -> bytes_okl l).
  { intros l H. apply Forall_forall. intros b Hb. rewrite forallb_forall in H. specialize (H b Hb). lia. }
  split; apply B; reflexivity.
Qed.

Lemma v1_init_dat_byte c r i : bbyte (v1_init_dat c r) i =
  if (0 <=? i) && (i <? B1) then (if i <? 60 then nth (Z.to_nat i) (v1_init_hdr c r) 0 else 0) else 0.
Proof. unfold bbyte, v1_init_dat, bnew. cbn [blen bover binit]. now rewrite PositiveMap.gempty. Qed.

Lemma v1_init_dat_zero c r o : 60 <= o -> brd (v1_init_dat c r) o 4 = 0.
Proof.
  intros Ho. unfold brd, bread. cbn [seq map]. rewrite !v1_init_dat_byte.
  repeat match goal with |- context [if ?c then _ else _] => destruct c eqn:?; try lia end; reflexivity.
Qed.

Lemma v1_init_dat_h5 c r : brd (v1_init_dat c r) 24 8 = B1 /\ brd (v1_init_dat c r) 16 8 = 0.
Proof.
  split; unfold brd, bread; cbn [seq map]; rewrite !v1_init_dat_byte; unfold v1_init_hdr; cbn; reflexivity.
Qed.

Lemma v1_fresh_facts c r :
  v1_extra (v1_init c r) /\ v1_dlen (v1_init c r) = B1 /\ forall s, slot_ok s -> v1_rec (v1_init c r) s = None.
Proof.
  assert (HB1 : B1 = 65596) by reflexivity.
  assert (Hoff : forall s, slot_ok s -> 60 <= brd v1_init_idx (v1_ioff s) 5 /\ brd v1_init_idx (v1_ioff s) 5 + 4 <= B1).
  { intros s Hs. rewrite v1_init_idx_entry by assumption. unfold slot_ok in Hs. lia. }
  assert (Hnone : forall s, slot_ok s -> v1_rec (v1_init c r) s = None).
  { intros s Hs. unfold v1_rec, v1_init. cbn [fst snd]. destruct (Hoff s Hs) as [H1 H2].
    destruct (brd v1_init_idx (v1_ioff s) 5 =? 0) eqn:E; [reflexivity|]. now rewrite v1_init_dat_zero. }
  splits; [|reflexivity|exact Hnone].
  unfold v1_extra, v1_init. cbn [fst snd]. destruct v1_const_bytes as [Hh Hf]. destruct (v1_init_dat_h5 c r) as [E5 E4]. splits.
  - intros i. unfold bbyte, v1_init_idx. cbn [blen bover binit].
    destruct ((0 <=? i) && (i <? X1)); [|lia]. rewrite v1_init_entries_find.
    destruct ((Z.pos 17 <=? Z.pos (Z.to_pos (i + 1))) && (Z.pos (Z.to_pos (i + 1)) <? Z.pos 17 + 5 * Z.of_nat (128 * 128))).
    + apply bytes_okl_nth, le_bytes.
    + rewrite PositiveMap.gempty. destruct (i <? 16); apply bytes_okl_nth; assumption.
  - intros i. rewrite v1_init_dat_byte. destruct ((0 <=? i) && (i <? B1)); [|lia].
    destruct (i <? 60); [apply bytes_okl_nth, v1_init_hdr_bytes|lia].
  - reflexivity.
  - intros s Hs. cbv zeta. right. destruct (Hoff s Hs) as [H1 H2]. split; [exact H1|].
    rewrite v1_init_dat_zero by assumption. change (blen (v1_init_dat c r)) with B1. lia.
  - rewrite E5. reflexivity.
  - rewrite E4. change (blen (v1_init_dat c r)) with B1. lia.
  - intros s a d Hs Hr. rewrite Hnone in Hr by assumption. discriminate.
Qed.

(* --- the theorems of the generic part, for v1 (c, r = first column and row of the bundle) *)
Definition v1_live_sum := g_live_sum v1st v1_rec.

Ltac inst_v1 c r lem X :=
  pose proof (lem v1st v1_load v1_store1 v1_remove1 (v1_init c r) v1_rec v1_dlen B1 two32 v1_extra) as X;
  repeat first [specialize (X v1_load_rec) | specialize (X v1_store_facts) | specialize (X v1_remove_facts)
               | specialize (X (v1_fresh_facts c r))].

Theorem v1_inv_init c r : v1_Inv (v1_init c r).
Proof. inst_v1 c r g_inv_fresh X. exact X. Qed.

Theorem v1_inv_store st s d :
  v1_Inv st -> slot_ok s -> bytes_okl d -> zlen d < two32 -> v1_dlen st + 4 + zlen d < two40 ->
  exists st', v1_store1 st s d = Some st' /\ v1_Inv st' /\ v1_dlen st' = v1_dlen st + 4 + zlen d /\
    v1_load st' s = (if zlen d =? 0 then RMissing else RData d) /\
    forall s', slot_ok s' -> s' <> s -> v1_load st' s' = v1_load st s'.
Proof.
  intros HI Hs Hd Hm Hg. inst_v1 0 0 g_inv_store X.
  destruct (X st s d HI Hs Hd Hm Hg) as [st' [E [HI' [Hl [Hr Ho]]]]].
  exists st'. splits; auto.
  - rewrite v1_load_rec by assumption. rewrite Hr. destruct (zlen d =? 0); reflexivity.
  - intros s' Hs' Hne. rewrite !v1_load_rec by assumption. now rewrite Ho.
Qed.

Theorem v1_inv_remove st s : v1_Inv st -> slot_ok s ->
  v1_Inv (v1_remove1 st s) /\ v1_dlen (v1_remove1 st s) = v1_dlen st /\ v1_load (v1_remove1 st s) s = RMissing /\
  forall s', slot_ok s' -> s' <> s -> v1_load (v1_remove1 st s) s' = v1_load st s'.
Proof.
  intros HI Hs. inst_v1 0 0 g_inv_remove X. destruct (X st s HI Hs) as [HI' [Hl [Hr Ho]]].
  splits; auto.
  - rewrite v1_load_rec by assumption. now rewrite Hr.
  - intros s' Hs' Hne. rewrite !v1_load_rec by assumption. now rewrite Ho.
Qed.

Theorem v1_history_inv c r ops :
  Forall (op_ok two32) ops -> B1 + ops_bytes ops < two40 ->
  exists st, v1_run c r ops = Some st /\ v1_Inv st /\ v1_dlen st = B1 + ops_bytes ops.
Proof.
  intros Hf Hg. inst_v1 c r g_history_inv X.
  exact (X ops (v1_init c r) (v1_inv_init c r) Hf Hg).
Qed.

Theorem v1_defrag_correct c r st : v1_Inv st -> v1_dlen st < two40 ->
  exists o, v1_defrag c r st = Some o /\
    (forall s, slot_ok s -> g_load_opt v1st v1_load o s = v1_load st s) /\
    (forall st', o = Some st' -> v1_Inv st' /\ v1_dlen st' = B1 + v1_live_sum st /\ v1_dlen st' <= v1_dlen st /\
                                 blen (fst st') = blen (fst st)) /\
    (o = None -> v1_live_sum st = 0).
Proof.
  intros HI Hg. inst_v1 c r g_defrag_spec X. destruct (X st HI Hg) as [o [E [Hl [Hs Hn]]]].
  exists o. splits; auto. intros st' ->. destruct (Hs st' eq_refl) as [HI' [H1 H2]]. splits; auto.
  destruct HI as [_ [_ [_ [Hli _]]]]. destruct HI' as [_ [_ [_ [Hli' _]]]]. congruence.
Qed.

(* the invariant in the words of the property *)
Theorem v1_inv_readable st x y : v1_Inv st -> 0 <= x < 128 -> 0 <= y < 128 ->
  let offset := brd (fst st) (16 + (x * 128 + y) * 5) 5 in
  let size := brd (snd st) offset 4 in
  offset = 0 \/
  (60 <= offset /\ offset + 4 + size <= blen (snd st) /\
   (size = 0 /\ v1_load st (x, y) = RMissing \/
    0 < size < two32 /\ B1 <= offset /\ v1_load st (x, y) = RData (bread (snd st) (offset + 4) (Z.to_nat size)))).
Proof.
  intros HI Hx Hy. assert (Hs : slot_ok (x, y)) by (unfold slot_ok; cbn [fst snd]; lia).
  pose proof (v1_load_rec st (x, y) HI Hs) as Hl. destruct HI as [[G1 [G2 _]] [Hbi [Hbd [Hli [Hent _]]]]].
  specialize (G2 (x, y)). specialize (Hent (x, y) Hs). unfold v1_rec in *. cbv zeta in *.
  change (v1_ioff (x, y)) with (16 + (x * 128 + y) * 5) in *.
  set (off := brd (fst st) (16 + (x * 128 + y) * 5) 5) in *.
  destruct Hent as [H0|[H60 Hin]]; [left; exact H0|right].
  destruct (off =? 0) eqn:E0; [lia|]. pose proof (brd_bound (snd st) off 4 Hbd) as Hn. rewrite pow4 in Hn.
  splits; [exact H60|exact Hin|]. destruct (brd (snd st) off 4 =? 0) eqn:E1.
  - left. split; [lia|exact Hl].
  - right. destruct (G2 _ _ Hs eq_refl) as [Ha _]. splits; [lia|exact Ha|exact Hl].
Qed.

Lemma v1_tos_rec st s : v1_Inv st -> slot_ok s ->
  match v1_tile_offset (fst st) s with
  | None => False
  | Some offset => if offset =? 0 then rec_len (v1_rec st s) = 0
                   else exists size, brdnum (snd st) offset 4 = Some size /\
                                     (if size =? 0 then 0 else size + 4) = rec_len (v1_rec st s)
  end.
Proof.
  intros [_ [Hbi [Hbd [Hli [Hent _]]]]] Hs. destruct (v1_ioff_range s Hs) as [I1 I2].
  unfold v1_tile_offset, v1_entry_bytes. rewrite brdnum_some by (rewrite Hli; unfold X1; change (Z.of_nat 5) with 5; lia).
  unfold v1_rec. specialize (Hent s Hs). cbv zeta in Hent. set (off := brd (fst st) (v1_ioff s) 5) in *.
  destruct (off =? 0) eqn:E0; [reflexivity|]. destruct Hent as [?|[H60 Hin]]; [lia|].
  pose proof (brd_bound (snd st) off 4 Hbd) as Hn. rewrite pow4 in Hn.
  exists (brd (snd st) off 4). split; [apply brdnum_some; change (Z.of_nat 4) with 4; lia|].
  destruct (brd (snd st) off 4 =? 0) eqn:E1; [reflexivity|]. cbn [rec_len]. rewrite zlen_bread. lia.
Qed.

Theorem v1_size_exact st : v1_Inv st -> v1_size st = Some (B1 + v1_live_sum st, v1_dlen st).
Proof.
  intros HI. unfold v1_size, v1_live_sum, g_live_sum, v1_dlen. destruct st as [idx dat] eqn:Est. rewrite <- Est in HI.
  assert (Hall : forall s, In s all_slots -> slot_ok s) by (intros s; apply in_all_slots).
  assert (G : forall ss t, (forall s, In s ss -> slot_ok s) ->
    fold_left (fun acc s => match acc with
                            | None => None
                            | Some t => match v1_tile_offset idx s with
                                        | None => None
                                        | Some offset =>
                                            if offset =? 0 then Some t else
                                            match brdnum dat offset 4 with
                                            | None => None
                                            | Some size => Some (if size =? 0 then t else t + size + 4)
                                            end
                                        end
                            end) ss (Some t) = Some (t + g_live_sum_on v1st v1_rec (idx, dat) ss)).
  { induction ss as [|s ss IH]; intros t Hok.
    - cbn. f_equal. lia.
    - cbn [fold_left]. pose proof (v1_tos_rec st s HI (Hok s (or_introl eq_refl))) as H. rewrite Est in H. cbn [fst snd] in H.
      change (g_live_sum_on v1st v1_rec (idx, dat) (s :: ss)) with (rec_len (v1_rec (idx, dat) s) + g_live_sum_on v1st v1_rec (idx, dat) ss).
      destruct (v1_tile_offset idx s) as [off|]; [|contradiction].
      destruct (off =? 0).
      + rewrite H. rewrite IH by (intros; apply Hok; now right). f_equal; lia.
      + destruct H as [size [E Hlen]]. rewrite E. rewrite <- Hlen.
        destruct (size =? 0); rewrite IH by (intros; apply Hok; now right); f_equal; lia. }
  rewrite (G all_slots 0 Hall). cbn [snd]. f_equal. f_equal. unfold B1. lia.
Qed.

Example v1_ex_run :
  match v1_run 128 256 ex_ops with
  | Some st =>
      rres_eqb (v1_load st (0, 0)) (RData [9]) && rres_eqb (v1_load st (127, 127)) RMissing &&
      rres_eqb (v1_load st (12, 99)) (RData [8; 8; 8]) && size_eqb (v1_size st) (Some (B1 + 12, B1 + 31)) &&
      match v1_defrag 128 256 st with
      | Some (Some st') => (blen (snd st') =? B1 + 12) && rres_eqb (v1_load st' (12, 99)) (RData [8; 8; 8])
                           && rres_eqb (v1_load st' (0, 0)) (RData [9])
      | _ => false
      end
  | None => false
  end = true.
Proof. vm_compute. reflexivity. Qed.

Example v1_ex_ops_ok : Forall (op_ok two32) ex_ops /\ B1 + ops_bytes ex_ops < two40.
Proof. split; [apply op_okb_sound; vm_compute; reflexivity|vm_compute; reflexivity]. Qed.

(* ================================================================================================ *)
(* Part 5: caches (several bundles)                                                                  *)

Lemma bkey_eqb_eq a b : bkey_eqb a b = true <-> a = b.
Proof.
  unfold bkey_eqb, Z3_eqb. destruct a as [[a1 a2] a3], b as [[b1 b2] b3]. split.
  - intros H. apply andb_prop in H. destruct H as [H H3]. apply andb_prop in H. destruct H as [H1 H2].
    apply Z.eqb_eq in H1, H2, H3. now subst.
  - intros H. inversion H; subst. now rewrite !Z.eqb_refl.
Qed.
Lemma bkey_eqb_neq a b : bkey_eqb a b = false <-> a <> b.
Proof.
  split.
  - intros H E. apply bkey_eqb_eq in E. congruence.
  - intros H. destruct (bkey_eqb a b) eqn:E; [apply bkey_eqb_eq in E; contradiction|reflexivity].
Qed.

Lemma slot_of_ok x y : slot_ok (slot_of x y).
Proof.
  unfold slot_ok, slot_of, v2_rel_tile_coord, BUNDLE_V2_GRID_WIDTH, BUNDLE_V2_GRID_HEIGHT. cbn [fst snd].
  pose proof (Z.mod_pos_bound x 128). pose proof (Z.mod_pos_bound y 128). lia.
Qed.

Lemma ctiles_bytes_nonneg l : 0 <= ctiles_bytes l.
Proof. induction l; [cbv; discriminate|]. cbn [ctiles_bytes fold_right]. fold (ctiles_bytes l). pose proof (zlen_nonneg (snd a)). lia. Qed.
Lemma cops_bytes_nonneg l : 0 <= cops_bytes l.
Proof.
  induction l; [cbv; discriminate|]. cbn [cops_bytes fold_right]. fold (cops_bytes l).
  destruct a; cbn [cop_bytes]; [pose proof (ctiles_bytes_nonneg tiles)|]; lia.
Qed.

Section CacheProofs.
  Variable St : Type.
  Variable load : St -> slot -> rres.
  Variable store1 : St -> slot -> list Z -> option St.
  Variable remove1 : St -> slot -> St.
  Variable fresh : bkey -> St.
  Variable defrag1 : bkey -> St -> option (option St).
  Variable Inv : St -> Prop.
  Variable dlen : St -> Z.
  Variable base maxlen : Z.

  Hypothesis HS : forall st s d, Inv st -> slot_ok s -> bytes_okl d -> zlen d < maxlen -> dlen st + 4 + zlen d < two40 ->
    exists st', store1 st s d = Some st' /\ Inv st' /\ dlen st' = dlen st + 4 + zlen d /\
      load st' s = (if zlen d =? 0 then RMissing else RData d) /\
      forall s', slot_ok s' -> s' <> s -> load st' s' = load st s'.
  Hypothesis HR : forall st s, Inv st -> slot_ok s ->
    Inv (remove1 st s) /\ dlen (remove1 st s) = dlen st /\ load (remove1 st s) s = RMissing /\
    forall s', slot_ok s' -> s' <> s -> load (remove1 st s) s' = load st s'.
  Hypothesis HF : forall k, Inv (fresh k) /\ dlen (fresh k) = base.
  Hypothesis HD : forall k st, Inv st -> dlen st < two40 ->
    exists r, defrag1 k st = Some r /\ (forall s, slot_ok s -> g_load_opt St load r s = load st s) /\
      (forall st', r = Some st' -> Inv st' /\ dlen st' <= dlen st).

  Local Notation cache_ok := (@cache_ok St Inv dlen).

  Lemma c_find_in (c : list (bkey * St)) k st : c_find c k = Some st -> In (k, st) c.
  Proof.
    induction c as [|[k' st'] c IH]; cbn [c_find]; [discriminate|].
    destruct (bkey_eqb k k') eqn:E.
    - intros H. inversion H; subst. apply bkey_eqb_eq in E. subst. now left.
    - intros H. right. auto.
  Qed.
  Lemma c_find_none (c : list (bkey * St)) k : ~ In k (map fst c) -> c_find c k = None.
  Proof.
    induction c as [|[k' st'] c IH]; cbn [c_find map fst]; [reflexivity|]. intros H.
    destruct (bkey_eqb k k') eqn:E; [apply bkey_eqb_eq in E; subst; exfalso; apply H; now left|].
    apply IH. intros Hi. apply H. now right.
  Qed.
  Lemma c_find_set_same (c : list (bkey * St)) k st : c_find (c_set c k st) k = Some st.
  Proof.
    induction c as [|[k' st'] c IH]; cbn [c_set c_find].
    - assert (E : bkey_eqb k k = true) by now apply bkey_eqb_eq. now rewrite E.
    - destruct (bkey_eqb k k') eqn:E; cbn [c_find].
      + assert (E' : bkey_eqb k k = true) by now apply bkey_eqb_eq. now rewrite E'.
      + now rewrite E.
  Qed.
  Lemma c_find_set_other (c : list (bkey * St)) k st k' : k' <> k -> c_find (c_set c k st) k' = c_find c k'.
  Proof.
    intros Hne. induction c as [|[k0 st0] c IH]; cbn [c_set c_find].
    - assert (E : bkey_eqb k' k = false) by now apply bkey_eqb_neq. now rewrite E.
    - destruct (bkey_eqb k k0) eqn:E; cbn [c_find].
      + apply bkey_eqb_eq in E. subst k0. assert (E' : bkey_eqb k' k = false) by now apply bkey_eqb_neq. now rewrite E'.
      + destruct (bkey_eqb k' k0); [reflexivity|exact IH].
  Qed.
  Lemma c_set_in (c : list (bkey * St)) k st k' st' : In (k', st') (c_set c k st) -> (k' = k /\ st' = st) \/ In (k', st') c.
  Proof.
    induction c as [|[k0 st0] c IH]; cbn [c_set].
    - intros [H|[]]. inversion H. auto.
    - destruct (bkey_eqb k k0) eqn:E.
      + intros [H|H]; [inversion H; auto|right; now right].
      + intros [H|H]; [right; now left|]. destruct (IH H) as [?|?]; [auto|right; now right].
  Qed.
  Lemma c_set_keys (c : list (bkey * St)) k st k' : In k' (map fst (c_set c k st)) -> k' = k \/ In k' (map fst c).
  Proof.
    intros H. apply in_map_iff in H. destruct H as [[k1 st1] [E H]]. cbn in E. subst k1.
    destruct (c_set_in _ _ _ _ _ H) as [[? _]|?]; [auto|right]. apply in_map_iff. exists (k', st1). auto.
  Qed.
  Lemma c_set_nodup (c : list (bkey * St)) k st : NoDup (map fst c) -> NoDup (map fst (c_set c k st)).
  Proof.
    induction c as [|[k0 st0] c IH]; cbn [c_set map fst]; intros H.
    - constructor; [intros []|constructor].
    - inversion H as [|? ? Hn Hd]; subst. destruct (bkey_eqb k k0) eqn:E; cbn [map fst].
      + apply bkey_eqb_eq in E. subst. now constructor.
      + constructor; [|now apply IH]. intros Hi. destruct (c_set_keys _ _ _ _ Hi) as [->|?]; [|contradiction].
        apply bkey_eqb_neq in E. congruence.
  Qed.

  Lemma c_get_ok b (c : list (bkey * St)) k : base <= b -> cache_ok b c -> Inv (c_get St fresh c k) /\ dlen (c_get St fresh c k) <= b.
  Proof.
    intros Hb [_ H]. unfold c_get. destruct (c_find c k) as [st|] eqn:E.
    - apply (H k). now apply c_find_in.
    - destruct (HF k) as [? ->]. auto.
  Qed.

  Lemma cache_ok_set b (c : list (bkey * St)) k st : cache_ok b c -> Inv st -> dlen st <= b -> cache_ok b (c_set c k st).
  Proof.
    intros [Hn H] HI Hl. split; [now apply c_set_nodup|]. intros k' st' Hin.
    destruct (c_set_in _ _ _ _ _ Hin) as [[-> ->]|?]; [auto|now apply (H k')].
  Qed.
  Lemma cache_ok_mono b b' (c : list (bkey * St)) : b <= b' -> cache_ok b c -> cache_ok b' c.
  Proof. intros Hb [Hn H]. split; [exact Hn|]. intros k st Hin. destruct (H k st Hin). split; [auto|lia]. Qed.

  Lemma c_store_tiles_ok : forall tiles c b,
    base <= b -> cache_ok b c -> Forall (ctile_ok maxlen) tiles -> b + ctiles_bytes tiles < two40 ->
    exists c', c_store_tiles St store1 fresh c tiles = Some c' /\ cache_ok (b + ctiles_bytes tiles) c'.
  Proof.
    induction tiles as [|[[[x y] z] d] tiles IH]; intros c b Hb Hc Hf Hg.
    - exists c. split; [reflexivity|]. cbn [ctiles_bytes fold_right]. now rewrite Z.add_0_r.
    - inversion Hf as [|? ? [Hd Hm] Hf']; subst. cbn [snd] in Hd, Hm.
      cbn [ctiles_bytes fold_right snd] in Hg |- *. fold (ctiles_bytes tiles) in Hg |- *.
      pose proof (ctiles_bytes_nonneg tiles). pose proof (zlen_nonneg d).
      destruct (c_get_ok b c (key_of x y z) Hb Hc) as [HI Hl].
      destruct (HS _ (slot_of x y) d HI (slot_of_ok x y) Hd Hm) as [st' [E [HI' [Hl' _]]]]; [lia|].
      cbn [c_store_tiles]. rewrite E.
      destruct (IH (c_set c (key_of x y z) st') (b + 4 + zlen d)) as [c' [E' Hc']]; [lia| |exact Hf'|lia|].
      + apply cache_ok_set; [eapply cache_ok_mono; [|exact Hc]; lia|exact HI'|lia].
      + exists c'. split; [exact E'|]. eapply cache_ok_mono; [|exact Hc']. lia.
  Qed.

  (* every history of store_tiles / remove_tile calls on a cache (any coordinates, any number of bundles) runs
     without error and leaves only valid bundles *)
  Theorem c_history_ok : forall ops c b,
    base <= b -> cache_ok b c -> Forall (cop_ok maxlen) ops -> b + cops_bytes ops < two40 ->
    exists c', fold_left (c_step St store1 remove1 fresh) ops (Some c) = Some c' /\ cache_ok (b + cops_bytes ops) c'.
  Proof.
    induction ops as [|op ops IH]; intros c b Hb Hc Hf Hg.
    - exists c. split; [reflexivity|]. cbn [cops_bytes fold_right]. now rewrite Z.add_0_r.
    - inversion Hf as [|? ? Hop Hf']; subst. cbn [cops_bytes fold_right] in Hg |- *. fold (cops_bytes ops) in Hg |- *.
      pose proof (cops_bytes_nonneg ops). cbn [fold_left c_step]. destruct op as [tiles|[[x y] z]]; cbn [cop_bytes cop_ok] in *.
      + pose proof (ctiles_bytes_nonneg tiles).
        destruct (c_store_tiles_ok tiles c b Hb Hc Hop) as [c1 [E Hc1]]; [lia|]. rewrite E.
        destruct (IH c1 (b + ctiles_bytes tiles)) as [c' [E' Hc']]; [lia|exact Hc1|exact Hf'|lia|].
        exists c'. split; [exact E'|]. eapply cache_ok_mono; [|exact Hc']. lia.
      + destruct (c_get_ok b c (key_of x y z) Hb Hc) as [HI Hl].
        destruct (HR _ (slot_of x y) HI (slot_of_ok x y)) as [HI' [Hl' _]].
        destruct (IH (c_remove St remove1 fresh c (x, y, z)) b) as [c' [E' Hc']]; [lia| |exact Hf'|lia|].
        * unfold c_remove. apply cache_ok_set; [exact Hc|exact HI'|lia].
        * exists c'. split; [exact E'|]. eapply cache_ok_mono; [|exact Hc']. lia.
  Qed.

  Theorem c_run_ok ops : Forall (cop_ok maxlen) ops -> base + cops_bytes ops < two40 ->
    exists c, c_run St store1 remove1 fresh ops = Some c /\ cache_ok (base + cops_bytes ops) c.
  Proof.
    intros Hf Hg. apply c_history_ok; [lia| |exact Hf|exact Hg]. split; [constructor|intros k st []].
  Qed.

  (* defragmentation of a cache with ANY skip decision per bundle: no error, every address returns what it
     returned before, every remaining bundle is valid and not longer than before *)
  Theorem c_defrag_ok skip : forall c b, b < two40 -> cache_ok b c ->
    exists c', c_defrag St defrag1 skip c = Some c' /\
      (forall coord, c_load St load c' coord = c_load St load c coord) /\
      cache_ok b c' /\
      (forall k st', In (k, st') c' -> exists st, In (k, st) c /\ dlen st' <= dlen st).
  Proof.
    intros c b Hb.
    assert (G : cache_ok b c -> exists c', c_defrag St defrag1 skip c = Some c' /\
      (forall k s, slot_ok s -> g_load_opt St load (c_find c' k) s = g_load_opt St load (c_find c k) s) /\
      cache_ok b c' /\ (forall k, In k (map fst c') -> In k (map fst c)) /\
      (forall k st', In (k, st') c' -> exists st, In (k, st) c /\ dlen st' <= dlen st)).
    { induction c as [|[k st] c IH]; intros [Hn H].
      - exists []. cbn [c_defrag]. splits; auto; [split; [constructor|intros ? ? []]|intros ? ? []].
      - cbn [map fst] in Hn. inversion Hn as [|? ? Hnin Hnd]; subst.
        destruct IH as [r' [E [Hl [[Hn' H'] [Hk Hsz]]]]]; [split; [exact Hnd|intros; apply (H k0); now right]|].
        destruct (H k st (or_introl eq_refl)) as [HI Hlen].
        cbn [c_defrag]. rewrite E. destruct (skip k st).
        + exists ((k, st) :: r'). splits; auto.
          * intros k0 s Hs. cbn [c_find]. destruct (bkey_eqb k0 k); [reflexivity|now apply Hl].
          * split; [cbn [map fst]; constructor; [intros Hi; apply Hnin; now apply Hk|exact Hn']|].
            intros k0 st0 [Heq|Hin]; [inversion Heq; subst; auto|now apply (H' k0)].
          * cbn [map fst]. intros k0 [<-|Hi]; [now left|right; now apply Hk].
          * intros k0 st0 [Heq|Hin]; [inversion Heq; subst; exists st0; split; [now left|lia]|].
            destruct (Hsz _ _ Hin) as [st1 [? ?]]. exists st1. split; [now right|assumption].
        + destruct (HD k st HI) as [o [Ed [Hlo Ho]]]; [lia|]. rewrite Ed. destruct o as [st'|].
          * destruct (Ho st' eq_refl) as [HI' Hl'].
            exists ((k, st') :: r'). splits; auto.
            -- intros k0 s Hs. cbn [c_find]. destruct (bkey_eqb k0 k); [cbn [g_load_opt]; now apply (Hlo s)|now apply Hl].
            -- split; [cbn [map fst]; constructor; [intros Hi; apply Hnin; now apply Hk|exact Hn']|].
               intros k0 st0 [Heq|Hin]; [inversion Heq; subst; split; [auto|lia]|now apply (H' k0)].
            -- cbn [map fst]. intros k0 [<-|Hi]; [now left|right; now apply Hk].
            -- intros k0 st0 [Heq|Hin]; [inversion Heq; subst; exists st; split; [now left|lia]|].
               destruct (Hsz _ _ Hin) as [st1 [? ?]]. exists st1. split; [now right|assumption].
          * exists r'. splits; auto.
            -- intros k0 s Hs. cbn [c_find]. destruct (bkey_eqb k0 k) eqn:Ek; [|now apply Hl].
               apply bkey_eqb_eq in Ek. subst k0. rewrite c_find_none by (intros Hi; apply Hnin; now apply Hk).
               cbn [g_load_opt]. exact (Hlo s Hs).
            -- split; [exact Hn'|exact H'].
            -- intros k0 Hi. right. now apply Hk.
            -- intros k0 st0 Hin. destruct (Hsz _ _ Hin) as [st1 [? ?]]. exists st1. split; [now right|assumption]. }
    intros Hc. destruct (G Hc) as [c' [E [Hl [Hc' [_ Hsz]]]]]. exists c'. splits; auto.
    intros [[x y] z]. unfold c_load. specialize (Hl (key_of x y z) (slot_of x y) (slot_of_ok x y)).
    destruct (c_find c' (key_of x y z)), (c_find c (key_of x y z)); cbn [g_load_opt] in Hl; auto.
  Qed.
End CacheProofs.

(* --- the cache theorems for v2 and v1 *)
Lemma v2_defrag_weak (k : bkey) f : v2_Inv f -> blen f < two40 ->
  exists r, v2_defrag f = Some r /\ (forall s, slot_ok s -> g_load_opt bfile v2_load r s = v2_load f s) /\
    (forall f', r = Some f' -> v2_Inv f' /\ blen f' <= blen f).
Proof.
  intros HI Hg. destruct (v2_defrag_correct f HI Hg) as [r [E [Hl [Hs _]]]]. exists r. splits; auto.
  intros f' Hr. destruct (Hs f' Hr) as [? [_ ?]]. auto.
Qed.
Lemma v1_defrag_weak (k : bkey) st : v1_Inv st -> v1_dlen st < two40 ->
  exists o, (let '(_, c, r) := k in v1_defrag c r) st = Some o /\
    (forall s, slot_ok s -> g_load_opt v1st v1_load o s = v1_load st s) /\
    (forall st', o = Some st' -> v1_Inv st' /\ v1_dlen st' <= v1_dlen st).
Proof.
  intros HI Hg. destruct k as [[z c] r]. destruct (v1_defrag_correct c r st HI Hg) as [o [E [Hl [Hs _]]]]. exists o. splits; auto.
  intros st' Hr. destruct (Hs st' Hr) as [? [_ [? _]]]. auto.
Qed.
Lemma v1_fresh_ok k : v1_Inv (v1_fresh k) /\ v1_dlen (v1_fresh k) = B1.
Proof. destruct k as [[z c] r]. split; [apply v1_inv_init|reflexivity]. Qed.

Ltac inst_c2 lem X :=
  pose proof (lem bfile v2_load v2_store1 v2_remove1 (fun _ : bkey => v2_init) (fun _ : bkey => v2_defrag) v2_Inv blen B2 two24) as X;
  repeat first [specialize (X v2_inv_store) | specialize (X v2_inv_remove)
               | specialize (X (fun _ : bkey => conj v2_inv_init (eq_refl B2))) | specialize (X v2_defrag_weak)].
Ltac inst_c1 lem X :=
  pose proof (lem v1st v1_load v1_store1 v1_remove1 v1_fresh (fun k : bkey => let '(_, c, r) := k in v1_defrag c r)
                  v1_Inv v1_dlen B1 two32) as X;
  repeat first [specialize (X v1_inv_store) | specialize (X v1_inv_remove) | specialize (X v1_fresh_ok)
               | specialize (X v1_defrag_weak)].

Theorem v2c_history_ok ops : Forall (cop_ok two24) ops -> B2 + cops_bytes ops < two40 ->
  exists c, v2c_run ops = Some c /\ cache_ok v2_Inv blen (B2 + cops_bytes ops) c.
Proof. inst_c2 c_run_ok X. exact (X ops). Qed.

Theorem v2c_defrag_ok skip c b : b < two40 -> cache_ok v2_Inv blen b c ->
  exists c', v2c_defrag skip c = Some c' /\
    (forall coord, v2c_load c' coord = v2c_load c coord) /\
    cache_ok v2_Inv blen b c' /\
    (forall k f', In (k, f') c' -> exists f, In (k, f) c /\ blen f' <= blen f).
Proof. inst_c2 c_defrag_ok X. exact (X skip c b). Qed.

Theorem v1c_history_ok ops : Forall (cop_ok two32) ops -> B1 + cops_bytes ops < two40 ->
  exists c, v1c_run ops = Some c /\ cache_ok v1_Inv v1_dlen (B1 + cops_bytes ops) c.
Proof. inst_c1 c_run_ok X. exact (X ops). Qed.

Theorem v1c_defrag_ok skip c b : b < two40 -> cache_ok v1_Inv v1_dlen b c ->
  exists c', v1c_defrag skip c = Some c' /\
    (forall coord, v1c_load c' coord = v1c_load c coord) /\
    cache_ok v1_Inv v1_dlen b c' /\
    (forall k st', In (k, st') c' -> exists st, In (k, st) c /\ v1_dlen st' <= v1_dlen st).
Proof. inst_c1 c_defrag_ok X. exact (X skip c b). Qed.

(* non-vacuity: a history over three bundles on two levels *)
Definition ex_cops : list cop :=
  [CStore [((127, 127, 1), [1; 2; 3]); ((128, 127, 1), [4; 5])]; CStore [((127, 128, 2), [6])];
   CStore [((127, 127, 1), [9; 9])]; CRemove (128, 127, 1)].
Example ex_cops_ok : Forall (cop_ok two24) ex_cops /\ B2 + cops_bytes ex_cops < two40.
Proof.
  split; [|vm_compute; reflexivity]. unfold ex_cops, cop_ok, ctile_ok. repeat (apply Forall_cons || apply Forall_nil || exact I);
  cbn [snd]; (split; [apply Forall_forall; intros b Hb; cbn [In] in Hb; intuition lia|vm_compute; reflexivity]).
Qed.
Example v2c_ex_run :
  match v2c_run ex_cops with
  | Some c => Nat.eqb (length c) 3 && rres_eqb (v2c_load c (127, 127, 1)) (RData [9; 9])
              && rres_eqb (v2c_load c (128, 127, 1)) RMissing && rres_eqb (v2c_load c (127, 128, 2)) (RData [6])
              && match v2c_defrag (fun _ _ => false) c with
                 | Some c' => Nat.eqb (length c') 2 && rres_eqb (v2c_load c' (127, 127, 1)) (RData [9; 9])
                 | None => false
                 end
  | None => false
  end = true.
Proof. vm_compute. reflexivity. Qed.

(* ================================================================================================ *)
(* Part 6: a store that fails part-way (v2).  The store is the list of its writes in program order    *)
(* (v2_store_writes); what a write error / a kill leaves behind is a prefix of that list, the append   *)
(* possibly cut short.  Every such state satisfies the index part of the invariant (v2_WInv: v2_Inv     *)
(* without the two header fields, which a failed store leaves behind) and every address returns its     *)
(* previous tile or the complete new one.  This is what makes the ORDER record -> index entry -> header  *)
(* a theorem: with the index entry first the statement is false.                                        *)

Lemma sum_on_update' {St} (rec : St -> slot -> option (Z * list Z)) st st' ss s :
  NoDup ss -> In s ss -> (forall s', In s' ss -> s' <> s -> rec st' s' = rec st s') ->
  g_live_sum_on St rec st' ss = g_live_sum_on St rec st ss - rec_len (rec st s) + rec_len (rec st' s).
Proof.
  induction 1 as [|a ss Ha Hnd IH]; intros Hin H; [contradiction|].
  change (g_live_sum_on St rec st' (a :: ss)) with (rec_len (rec st' a) + g_live_sum_on St rec st' ss).
  change (g_live_sum_on St rec st (a :: ss)) with (rec_len (rec st a) + g_live_sum_on St rec st ss).
  destruct Hin as [->|Hin].
  - rewrite (sum_on_ext St rec st st' ss); [lia|]. intros s' Hs'. apply H; [now right|]. intros ->. contradiction.
  - rewrite IH; [|exact Hin|intros; apply H; [now right|assumption]].
    rewrite (H a); [lia|now left|]. intros ->. contradiction.
Qed.

Lemma v2_Inv_weak f : v2_Inv f -> v2_WInv f.
Proof. intros [G [Hb [_ Hr]]]. split; [exact G|]. split; [exact Hb|]. intros s a d Hs H. now destruct (Hr s a d Hs H). Qed.

Lemma v2_load_rec_w f s : v2_WInv f -> slot_ok s ->
  v2_load f s = match v2_rec f s with Some (_, d) => RData d | None => RMissing end.
Proof.
  intros [[G1 [G2 _]] [Hb _]] Hs. destruct (v2_idx_range s Hs) as [I1 [I2 _]].
  unfold v2_load, v2_tile_offset_size. rewrite v2_entry_bytes_spec. rewrite brdnum_some by (change (Z.of_nat 8) with 8; lia).
  specialize (G2 s). unfold v2_rec in *. rewrite v2_entry_size_spec, v2_entry_offset_spec.
  set (val := brd f (v2_idx s) 8) in *. destruct (val / two40 =? 0) eqn:E; [cbn; reflexivity|].
  rewrite E.
  pose proof (brd_bound f (v2_idx s) 8 Hb) as Hv. rewrite pow8 in Hv. fold val in Hv.
  assert (Hsz : 0 < val / two40) by (unfold two40 in *; lia).
  destruct (G2 _ _ Hs eq_refl) as [Ha [Hbnd _]]. rewrite zlen_bread in Hbnd.
  replace (val - val / two40 * two40) with (val mod two40) by (unfold two40; lia).
  rewrite breadz_full by lia. reflexivity.
Qed.

(* a change of the file that leaves everything between offset 32 and the old end alone (an append, a header
   write) changes no record and keeps the weak invariant *)
Lemma v2_frame_w f g : v2_WInv f -> blen f <= blen g -> bytes_ok g ->
  (forall o n, 32 <= o -> o + Z.of_nat n <= blen f -> bread g o n = bread f o n) ->
  v2_WInv g /\ forall s, slot_ok s -> v2_rec g s = v2_rec f s.
Proof.
  intros [[G1 [G2 [G3 G4]]] [Hb Hr]] Hl Hbg F. assert (HB2 : B2 = 131136) by reflexivity.
  assert (Hrec : forall s, slot_ok s -> v2_rec g s = v2_rec f s).
  { intros s Hs. destruct (v2_idx_range s Hs) as [I1 [I2 _]]. specialize (G2 s). unfold v2_rec in *.
    assert (Ev : brd g (v2_idx s) 8 = brd f (v2_idx s) 8) by (unfold brd; rewrite F by (change (Z.of_nat 8) with 8; lia); reflexivity).
    rewrite Ev. set (v := brd f (v2_idx s) 8) in *. destruct (v / two40 =? 0) eqn:E0; [reflexivity|].
    destruct (G2 _ _ Hs eq_refl) as [Ha [Hbnd _]]. rewrite zlen_bread in Hbnd.
    pose proof (brd_bound f (v2_idx s) 8 Hb) as Hv. rewrite pow8 in Hv. fold v in Hv.
    assert (0 < v / two40) by (unfold two40 in *; lia). f_equal. f_equal. apply F; lia. }
  split; [|exact Hrec]. split; [|split; [exact Hbg|]].
  - unfold GInv. split; [lia|]. split; [|split].
    + intros s a d Hs H. rewrite Hrec in H by assumption. destruct (G2 s a d Hs H) as [? [? [? ?]]]. repeat split; auto; lia.
    + intros s s' a d a' d' Hs Hs' Hne H H'. rewrite Hrec in H, H' by assumption. exact (G3 s s' a d a' d' Hs Hs' Hne H H').
    + unfold g_live_sum in *. rewrite (sum_on_ext bfile v2_rec f g all_slots); [lia|].
      intros s Hs. apply Hrec. now apply in_all_slots.
  - intros s a d Hs H. rewrite Hrec in H by assumption. rewrite <- (Hr s a d Hs H).
    destruct (G2 s a d Hs H) as [Ha [Hbnd _]]. pose proof (zlen_nonneg d). unfold brd. rewrite F; [reflexivity|lia|change (Z.of_nat 4) with 4; lia].
Qed.

Lemma v2_append_w f t : v2_WInv f -> bytes_okl t ->
  v2_WInv (bwrite f (blen f) t) /\ forall s, slot_ok s -> v2_rec (bwrite f (blen f) t) s = v2_rec f s.
Proof.
  intros HW Ht. pose proof (zlen_nonneg t). assert (G1 : B2 <= blen f) by (destruct HW as [[G1 _] _]; exact G1).
  assert (HB2 : B2 = 131136) by reflexivity.
  apply v2_frame_w; [exact HW|rewrite blen_bwrite; lia| |].
  - apply bytes_ok_bwrite; [destruct HW as [_ [Hb _]]; exact Hb|exact Ht|lia].
  - intros o n Ho Hn. apply bread_bwrite_out; lia.
Qed.

Lemma v2_header_w f o t : v2_WInv f -> bytes_okl t -> 0 <= o -> o + zlen t <= 32 ->
  v2_WInv (bwrite f o t) /\ forall s, slot_ok s -> v2_rec (bwrite f o t) s = v2_rec f s.
Proof.
  intros HW Ht Ho Hn. pose proof (zlen_nonneg t). assert (G1 : B2 <= blen f) by (destruct HW as [[G1 _] _]; exact G1).
  assert (HB2 : B2 = 131136) by reflexivity.
  apply v2_frame_w; [exact HW|rewrite blen_bwrite; lia| |].
  - apply bytes_ok_bwrite; [destruct HW as [_ [Hb _]]; exact Hb|exact Ht|lia].
  - intros o' n Ho' Hn'. apply bread_bwrite_out; lia.
Qed.

(* the index entry is written when the complete record is at the end of the file *)
Lemma v2_entry_w g s d e :
  v2_WInv g -> slot_ok s -> bytes_okl d -> zlen d < two24 -> e + 4 + zlen d < two40 ->
  blen g = e + 4 + zlen d -> brd g e 4 = zlen d -> bread g (e + 4) (length d) = d ->
  B2 <= e -> B2 + g_live_sum bfile v2_rec g <= e ->
  (forall s' a d', slot_ok s' -> v2_rec g s' = Some (a, d') -> a + 4 + zlen d' <= e) ->
  let g' := bwrite g (v2_idx s) (le 8 (v2_entry_encode (e + 4) (zlen d))) in
  v2_WInv g' /\ v2_rec g' s = (if zlen d =? 0 then None else Some (e, d)) /\
  forall s', slot_ok s' -> s' <> s -> v2_rec g' s' = v2_rec g s'.
Proof.
  intros [[G1 [G2 [G3 G4]]] [Hb Hr]] Hs Hd Hm Hg Hl Hsz Hdat He Hsum Hbelow. cbv zeta. rewrite v2_entry_encode_spec.
  pose proof (zlen_nonneg d) as Hz. destruct (v2_idx_range s Hs) as [I1 [I2 _]]. assert (HB2 : B2 = 131136) by reflexivity.
  set (size := zlen d) in *.
  destruct (v2_decode (e + 4) size) as [D1 [D2 D3]]; [unfold two40 in *; lia|lia|].
  set (val := e + 4 + size * two40) in *. set (g' := bwrite g (v2_idx s) (le 8 val)).
  assert (L : blen g' = blen g) by (unfold g'; rewrite blen_bwrite, zlen_le; lia).
  assert (F : forall o n, o + Z.of_nat n <= v2_idx s \/ v2_idx s + 8 <= o -> bread g' o n = bread g o n).
  { intros o n H. unfold g'. apply bread_bwrite_out; [lia|rewrite zlen_le; lia]. }
  assert (Hent : brd g' (v2_idx s) 8 = val) by (unfold g'; apply brd_bwrite_same; [lia|rewrite pow8; lia]).
  assert (Hself : v2_rec g' s = (if size =? 0 then None else Some (e, d))).
  { unfold v2_rec. rewrite Hent, D1, D2. destruct (size =? 0) eqn:Es; [reflexivity|].
    replace (e + 4 - 4) with e by lia. f_equal. f_equal.
    replace (Z.to_nat size) with (length d) by (unfold size, zlen; lia). rewrite F by lia. exact Hdat. }
  assert (Hother : forall s', slot_ok s' -> s' <> s -> v2_rec g' s' = v2_rec g s').
  { intros s' Hs' Hne. destruct (v2_idx_range s' Hs') as [J1 [J2 _]].
    pose proof (v2_idx_disj s s' Hs Hs' (fun H => Hne (eq_sym H))) as Hdis.
    specialize (G2 s'). unfold v2_rec in *.
    assert (Ev : brd g' (v2_idx s') 8 = brd g (v2_idx s') 8) by (unfold brd; rewrite F by (change (Z.of_nat 8) with 8; lia); reflexivity).
    rewrite Ev. set (v' := brd g (v2_idx s') 8) in *. destruct (v' / two40 =? 0) eqn:E0; [reflexivity|].
    destruct (G2 _ _ Hs' eq_refl) as [Ha [Hbnd _]]. f_equal. f_equal. apply F. lia. }
  split; [|split; [exact Hself|exact Hother]].
  split; [|split].
  - unfold GInv. rewrite L. split; [lia|]. split; [|split].
    + intros s0 a d0 Hs0 H. destruct (slot_eq_dec s0 s) as [->|Hne].
      * rewrite Hself in H. destruct (size =? 0) eqn:Es; [discriminate|]. inversion H; subst a d0. repeat split; auto; lia.
      * rewrite Hother in H by assumption. exact (G2 s0 a d0 Hs0 H).
    + intros s1 s2 a1 d1 a2 d2 Hs1 Hs2 Hne R1 R2.
      destruct (slot_eq_dec s1 s) as [->|N1]; destruct (slot_eq_dec s2 s) as [->|N2]; try congruence.
      * rewrite Hself in R1. destruct (size =? 0); [discriminate|]. inversion R1; subst.
        rewrite Hother in R2 by assumption. pose proof (Hbelow s2 a2 d2 Hs2 R2). lia.
      * rewrite Hself in R2. destruct (size =? 0); [discriminate|]. inversion R2; subst.
        rewrite Hother in R1 by assumption. pose proof (Hbelow s1 a1 d1 Hs1 R1). lia.
      * rewrite Hother in R1, R2 by assumption. exact (G3 s1 s2 a1 d1 a2 d2 Hs1 Hs2 Hne R1 R2).
    + unfold g_live_sum in *. rewrite (sum_on_update' v2_rec g g' all_slots s).
      * rewrite Hself. assert (0 <= rec_len (v2_rec g s)) by (destruct (v2_rec g s) as [[? dd]|]; cbn [rec_len]; [pose proof (zlen_nonneg dd)|]; lia).
        destruct (size =? 0); cbn [rec_len]; fold size; lia.
      * apply NoDup_all_slots.
      * now apply in_all_slots.
      * intros s' Hs' Hne. apply Hother; [now apply in_all_slots|exact Hne].
  - unfold g'. apply bytes_ok_bwrite; [assumption|apply le_bytes|lia].
  - intros s0 a d0 Hs0 H. destruct (slot_eq_dec s0 s) as [->|Hne].
    + rewrite Hself in H. destruct (size =? 0) eqn:Es; [discriminate|]. inversion H; subst a d0.
      unfold brd. rewrite F by (change (Z.of_nat 4) with 4; lia). exact Hsz.
    + rewrite Hother in H by assumption. rewrite <- (Hr s0 a d0 Hs0 H). destruct (G2 s0 a d0 Hs0 H) as [Ha _].
      unfold brd. rewrite F; [reflexivity|change (Z.of_nat 4) with 4; lia].
Qed.

Definition v2_view (r : option (Z * list Z)) : rres := match r with Some (_, d) => RData d | None => RMissing end.

Lemma v2_store_states f s d :
  v2_WInv f -> slot_ok s -> bytes_okl d -> zlen d < two24 -> blen f + 4 + zlen d < two40 ->
  let e := blen f in
  let g1 := bwrite f e (le 4 (zlen d)) in
  let g2 := bwrite g1 (e + 4) d in
  let g3 := bwrite g2 (v2_idx s) (le 8 (v2_entry_encode (e + 4) (zlen d))) in
  (v2_WInv g1 /\ forall s', slot_ok s' -> v2_rec g1 s' = v2_rec f s') /\
  (v2_WInv g2 /\ forall s', slot_ok s' -> v2_rec g2 s' = v2_rec f s') /\
  (v2_WInv g3 /\ v2_rec g3 s = (if zlen d =? 0 then None else Some (e, d)) /\
   forall s', slot_ok s' -> s' <> s -> v2_rec g3 s' = v2_rec f s') /\
  brd g3 8 4 = brd f 8 4 /\ blen g3 = e + 4 + zlen d.
Proof.
  intros HW Hs Hd Hm Hg e g1 g2 g3. pose proof (zlen_nonneg d) as Hz.
  assert (HB2 : B2 = 131136) by reflexivity. destruct (v2_idx_range s Hs) as [I1 [I2 _]].
  assert (G1 : B2 <= e) by (destruct HW as [[G1 _] _]; exact G1).
  assert (T32 : two24 = 16777216) by reflexivity.
  destruct (v2_append_w f (le 4 (zlen d)) HW (le_bytes _ _)) as [W1 R1]. fold e in W1, R1. fold g1 in W1, R1.
  assert (L1 : blen g1 = e + 4) by (unfold g1; rewrite blen_bwrite, zlen_le; fold e; lia).
  destruct (v2_append_w g1 d W1 Hd) as [W2 R2]. rewrite L1 in W2, R2. fold g2 in W2, R2.
  assert (L2 : blen g2 = e + 4 + zlen d) by (unfold g2; rewrite blen_bwrite, L1; lia).
  assert (R2' : forall s', slot_ok s' -> v2_rec g2 s' = v2_rec f s') by (intros; rewrite R2, R1; auto).
  assert (Hsz : brd g2 e 4 = zlen d).
  { unfold g2. rewrite brd_bwrite_out by (change (Z.of_nat 4) with 4; lia). unfold g1.
    apply brd_bwrite_same; [fold e; lia|rewrite pow4; unfold two32; lia]. }
  assert (Hdat : bread g2 (e + 4) (length d) = d) by (unfold g2; apply bread_bwrite_same; lia).
  assert (Hsum : B2 + g_live_sum bfile v2_rec g2 <= e).
  { unfold g_live_sum. rewrite (sum_on_ext bfile v2_rec f g2 all_slots) by (intros s' Hs'; apply R2'; now apply in_all_slots).
    destruct HW as [[_ [_ [_ G4]]] _]. exact G4. }
  assert (Hbelow : forall s' a d', slot_ok s' -> v2_rec g2 s' = Some (a, d') -> a + 4 + zlen d' <= e).
  { intros s' a d' Hs' H. rewrite R2' in H by assumption. destruct HW as [[_ [G2 _]] _]. now destruct (G2 s' a d' Hs' H) as [_ [? _]]. }
  destruct (v2_entry_w g2 s d e W2 Hs Hd Hm Hg L2 Hsz Hdat G1 Hsum Hbelow) as [W3 [R3 O3]]. fold g3 in W3, R3, O3.
  split; [split; assumption|]. split; [split; assumption|]. split; [|split].
  - split; [exact W3|]. split; [exact R3|]. intros s' Hs' Hne. rewrite O3 by assumption. now apply R2'.
  - unfold g3. rewrite brd_bwrite_out by (rewrite ?zlen_le; change (Z.of_nat 4) with 4; lia).
    unfold g2. rewrite brd_bwrite_out by (change (Z.of_nat 4) with 4; lia).
    unfold g1. rewrite brd_bwrite_out by (rewrite ?zlen_le; change (Z.of_nat 4) with 4; fold e; lia). reflexivity.
  - unfold g3. rewrite blen_bwrite, zlen_le, L2. lia.
Qed.

(* the model's store IS the list of writes *)
Theorem v2_store1_is_writes f s d :
  v2_WInv f -> slot_ok s -> bytes_okl d -> zlen d < two24 -> blen f + 4 + zlen d < two40 ->
  v2_store1 f s d = Some (apply_writes f (v2_store_writes f s d)).
Proof.
  intros HW Hs Hd Hm Hg. destruct (v2_store_states f s d HW Hs Hd Hm Hg) as [_ [_ [_ [H8 L3]]]]. cbv zeta in H8, L3.
  pose proof (zlen_nonneg d). assert (G1 : B2 <= blen f) by (destruct HW as [[G1 _] _]; exact G1). assert (HB2 : B2 = 131136) by reflexivity.
  unfold v2_store1, v2_store_writes. cbv zeta.
  destruct (two32 <=? zlen d) eqn:E32; [unfold two32, two24 in *; lia|].
  destruct (v2_decode (blen f + 4) (zlen d)) as [_ [_ D3]]; [unfold two40 in *; lia|lia|].
  rewrite v2_entry_encode_spec in *.
  destruct (two64 <=? blen f + 4 + zlen d * two40) eqn:E64; [lia|].
  rewrite brdnum_some by (rewrite L3; change (Z.of_nat 4) with 4; lia). rewrite H8.
  destruct (brd f 8 4 <? zlen d); reflexivity.
Qed.

(* every prefix of the writes of a store leaves a bundle whose index is valid, and every address returns its
   previous tile or (the stored address, once the index entry is written) the complete new one *)
Theorem v2_store_prefix_ok f s d k :
  v2_WInv f -> slot_ok s -> bytes_okl d -> zlen d < two24 -> blen f + 4 + zlen d < two40 ->
  let g := apply_writes f (firstn k (v2_store_writes f s d)) in
  v2_WInv g /\
  forall s', slot_ok s' ->
    v2_load g s' = v2_load f s' \/ (s' = s /\ v2_load g s' = (if zlen d =? 0 then RMissing else RData d)).
Proof.
  intros HW Hs Hd Hm Hg. destruct (v2_store_states f s d HW Hs Hd Hm Hg) as [[W1 R1] [[W2 R2] [[W3 [R3 O3]] [H8 L3]]]].
  cbv zeta in *. pose proof (zlen_nonneg d).
  assert (same : forall g, v2_WInv g -> (forall s', slot_ok s' -> v2_rec g s' = v2_rec f s') ->
            v2_WInv g /\ forall s', slot_ok s' -> v2_load g s' = v2_load f s' \/
               (s' = s /\ v2_load g s' = (if zlen d =? 0 then RMissing else RData d))).
  { intros g Wg Rg. split; [exact Wg|]. intros s' Hs'. left. rewrite !v2_load_rec_w by assumption. now rewrite Rg. }
  assert (newst : forall g, v2_WInv g -> (forall s', slot_ok s' -> v2_rec g s' = v2_rec
     (bwrite (bwrite (bwrite f (blen f) (le 4 (zlen d))) (blen f + 4) d) (v2_idx s) (le 8 (v2_entry_encode (blen f + 4) (zlen d)))) s') ->
            v2_WInv g /\ forall s', slot_ok s' -> v2_load g s' = v2_load f s' \/
               (s' = s /\ v2_load g s' = (if zlen d =? 0 then RMissing else RData d))).
  { intros g Wg Rg. split; [exact Wg|]. intros s' Hs'. rewrite !v2_load_rec_w by assumption. rewrite Rg by assumption.
    destruct (slot_eq_dec s' s) as [->|Hne].
    - right. split; [reflexivity|]. rewrite R3. destruct (zlen d =? 0); reflexivity.
    - left. now rewrite O3. }
  unfold v2_store_writes. cbv zeta.
  set (g3 := bwrite (bwrite (bwrite f (blen f) (le 4 (zlen d))) (blen f + 4) d) (v2_idx s) (le 8 (v2_entry_encode (blen f + 4) (zlen d)))) in *.
  assert (T24 : two24 = 16777216) by reflexivity. assert (T40 : two40 = 1099511627776) by reflexivity.
  assert (H4 : forall g, v2_WInv g -> (forall s', slot_ok s' -> v2_rec g s' = v2_rec g3 s') ->
     v2_WInv (bwrite g 8 (le 4 (zlen d))) /\ forall s', slot_ok s' -> v2_rec (bwrite g 8 (le 4 (zlen d))) s' = v2_rec g3 s').
  { intros g Wg Rg. destruct (v2_header_w g 8 (le 4 (zlen d)) Wg (le_bytes _ _)) as [W R]; [lia|rewrite zlen_le; lia|].
    split; [exact W|]. intros. rewrite R by assumption. now apply Rg. }
  assert (H5 : forall g, v2_WInv g -> (forall s', slot_ok s' -> v2_rec g s' = v2_rec g3 s') ->
     v2_WInv (bwrite g 24 (le 8 (blen f + 4 + zlen d))) /\ forall s', slot_ok s' -> v2_rec (bwrite g 24 (le 8 (blen f + 4 + zlen d))) s' = v2_rec g3 s').
  { intros g Wg Rg. destruct (v2_header_w g 24 (le 8 (blen f + 4 + zlen d)) Wg (le_bytes _ _)) as [W R]; [lia|rewrite zlen_le; lia|].
    split; [exact W|]. intros. rewrite R by assumption. now apply Rg. }
  destruct (brd f 8 4 <? zlen d); cbn [app];
  destruct k as [|[|[|[|[|k]]]]]; cbn [firstn apply_writes fold_left fst snd]; try solve [apply same; [assumption|assumption]]; try solve [apply same; [exact HW|reflexivity]]; try solve [apply newst; [assumption|intros; reflexivity]].
  - destruct (H4 g3 W3 (fun _ _ => eq_refl)) as [W4 R4]. apply newst; assumption.
  - rewrite ?firstn_nil. cbn [fold_left fst snd].
    destruct (H4 g3 W3 (fun _ _ => eq_refl)) as [W4 R4]. destruct (H5 _ W4 R4) as [W5 R5]. apply newst; assumption.
  - rewrite ?firstn_nil. cbn [fold_left fst snd]. destruct (H5 g3 W3 (fun _ _ => eq_refl)) as [W5 R5]. apply newst; assumption.
  - rewrite ?firstn_nil. cbn [fold_left fst snd]. destruct (H5 g3 W3 (fun _ _ => eq_refl)) as [W5 R5]. apply newst; assumption.
Qed.

(* the appended bytes cut short at any point (a full disk, a kill in the middle of write(2)): nothing changes for
   any address *)
Theorem v2_torn_append_ok f t :
  v2_WInv f -> bytes_okl t ->
  v2_WInv (bwrite f (blen f) t) /\ forall s, slot_ok s -> v2_load (bwrite f (blen f) t) s = v2_load f s.
Proof.
  intros HW Ht. destruct (v2_append_w f t HW Ht) as [W R]. split; [exact W|].
  intros s Hs. rewrite !v2_load_rec_w by assumption. now rewrite R.
Qed.

(* the order matters: with the index entry written before the record (what seeded mutant C19-n1 does) the state
   after that first write is NOT valid - the entry of slot (0,0) points behind the end of the file *)
Theorem v2_entry_first_refuted :
  exists f s d, v2_Inv f /\ slot_ok s /\ bytes_okl d /\ zlen d < two24 /\ blen f + 4 + zlen d < two40 /\
    ~ v2_WInv (bwrite f (v2_idx s) (le 8 (v2_entry_encode (blen f + 4) (zlen d)))).
Proof.
  exists v2_init, (0, 0), [7]. splits.
  - exact v2_inv_init.
  - unfold slot_ok; cbn; lia.
  - repeat constructor; lia.
  - vm_compute; reflexivity.
  - vm_compute; reflexivity.
  - intros [[_ [G2 _]] _].
    assert (Hs : slot_ok (0, 0)) by (unfold slot_ok; cbn; lia).
    assert (E : v2_rec (bwrite v2_init (v2_idx (0, 0)) (le 8 (v2_entry_encode (blen v2_init + 4) (zlen [7])))) (0, 0) = Some (131136, [0]))
      by (vm_compute; reflexivity).
    destruct (G2 (0, 0) 131136 [0] Hs E) as [_ [Hb _]]. vm_compute in Hb. apply Hb. reflexivity.
Qed.

(* the full store keeps the weak invariant too, so histories with failed stores in between stay valid *)
Theorem v2_store_w f s d :
  v2_WInv f -> slot_ok s -> bytes_okl d -> zlen d < two24 -> blen f + 4 + zlen d < two40 ->
  exists f', v2_store1 f s d = Some f' /\ v2_WInv f' /\
    forall s', slot_ok s' -> v2_load f' s' = v2_load f s' \/ (s' = s /\ v2_load f' s' = (if zlen d =? 0 then RMissing else RData d)).
Proof.
  intros HW Hs Hd Hm Hg. rewrite (v2_store1_is_writes f s d HW Hs Hd Hm Hg). eexists. split; [reflexivity|].
  pose proof (v2_store_prefix_ok f s d (length (v2_store_writes f s d)) HW Hs Hd Hm Hg) as H. cbv zeta in H.
  now rewrite firstn_all in H.
Qed.

(* ================================================================================================ *)
(* Part 7: a v1 store that fails part-way.  Program order of BundleV1.store_tiles for one tile: the record    *)
(* (size, data) is appended to the .bundle and reaches the file at the seek(0) of append_tile; the header is     *)
(* rewritten; the index entry is written to the .bundlx.  The index file is closed before the data file, so the  *)
(* raw order is record, index entry, header: the theorem covers every combination in which the index entry is     *)
(* written only after the complete record (header written or not), and the appended bytes cut short anywhere.     *)

Lemma v1_Inv_weak st : v1_Inv st -> v1_WInv st.
Proof.
  intros [G [Hbi [Hbd [Hli [Hent [H5 [H4 _]]]]]]]. unfold v1_WInv. splits; auto. lia.
Qed.

Lemma v1_load_rec_w st s : v1_WInv st -> slot_ok s ->
  v1_load st s = match v1_rec st s with Some (_, d) => RData d | None => RMissing end.
Proof.
  intros [_ [Hbi [Hbd [Hli [Hent _]]]]] Hs. destruct st as [idx dat]. cbn [fst snd] in *.
  destruct (v1_ioff_range s Hs) as [I1 I2].
  unfold v1_load, v1_tile_offset, v1_entry_bytes. rewrite brdnum_some by (rewrite Hli; unfold X1; change (Z.of_nat 5) with 5; lia).
  unfold v1_rec. cbn [fst snd]. specialize (Hent s Hs). cbv zeta in Hent.
  set (off := brd idx (v1_ioff s) 5) in *.
  destruct (off =? 0) eqn:E0; [reflexivity|]. destruct Hent as [?|[H60 Hin]]; [lia|].
  pose proof (brd_bound dat off 4 Hbd) as Hn. rewrite pow4 in Hn.
  rewrite brdnum_some by (change (Z.of_nat 4) with 4; lia).
  set (n := brd dat off 4) in *.
  destruct (n =? 0) eqn:En.
  - destruct (n <=? 0) eqn:E1; [reflexivity|lia].
  - destruct (n <=? 0) eqn:E1; [lia|]. rewrite breadz_full by lia.
    destruct (bread dat (off + 4) (Z.to_nat n)) eqn:Eb; [apply bread_nil_iff in Eb; lia|reflexivity].
Qed.

(* a change of the data file that leaves everything between the header and the old end alone *)
Lemma v1_dat_frame_w idx dat dat' : v1_WInv (idx, dat) -> blen dat <= blen dat' -> bytes_ok dat' ->
  (forall o n, 60 <= o -> o + Z.of_nat n <= blen dat -> bread dat' o n = bread dat o n) ->
  brd dat' 24 8 <= blen dat' -> brd dat' 16 8 <= blen dat' ->
  v1_WInv (idx, dat') /\ forall s, slot_ok s -> v1_rec (idx, dat') s = v1_rec (idx, dat) s.
Proof.
  intros [[G1 [G2 [G3 G4]]] [Hbi [Hbd [Hli [Hent [H5 H4]]]]]] Hl Hbd' F H5' H4'. unfold v1_dlen in *. cbn [fst snd] in *.
  assert (Hsz : forall s, slot_ok s -> brd idx (v1_ioff s) 5 <> 0 ->
            brd dat' (brd idx (v1_ioff s) 5) 4 = brd dat (brd idx (v1_ioff s) 5) 4).
  { intros s Hs Hne. destruct (Hent s Hs) as [?|[H60 Hin]]; [contradiction|].
    pose proof (brd_bound dat (brd idx (v1_ioff s) 5) 4 Hbd) as Hn. rewrite pow4 in Hn.
    set (off := brd idx (v1_ioff s) 5) in *. unfold brd. rewrite F; [reflexivity|lia|change (Z.of_nat 4) with 4; lia]. }
  assert (Hrec : forall s, slot_ok s -> v1_rec (idx, dat') s = v1_rec (idx, dat) s).
  { intros s Hs. unfold v1_rec. cbn [fst snd]. destruct (brd idx (v1_ioff s) 5 =? 0) eqn:E0; [reflexivity|].
    rewrite Hsz by (assumption || lia). destruct (Hent s Hs) as [?|[H60 Hin]]; [lia|].
    pose proof (brd_bound dat (brd idx (v1_ioff s) 5) 4 Hbd) as Hn. rewrite pow4 in Hn.
    set (off := brd idx (v1_ioff s) 5) in *. destruct (brd dat off 4 =? 0) eqn:E1; [reflexivity|].
    f_equal. f_equal. apply F; lia. }
  split; [|exact Hrec]. unfold v1_WInv, v1_dlen. cbn [fst snd]. splits; auto.
  - unfold GInv, v1_dlen. cbn [snd]. split; [lia|]. split; [|split].
    + intros s a d Hs H. rewrite Hrec in H by assumption. destruct (G2 s a d Hs H) as [? [? [? ?]]]. repeat split; auto; lia.
    + intros s s' a d a' d' Hs Hs' Hne H H'. rewrite Hrec in H, H' by assumption. exact (G3 s s' a d a' d' Hs Hs' Hne H H').
    + unfold g_live_sum in *. rewrite (sum_on_ext v1st v1_rec (idx, dat) (idx, dat') all_slots); [lia|].
      intros s Hs. apply Hrec. now apply in_all_slots.
  - intros s Hs. cbv zeta. destruct (Hent s Hs) as [H0|[H60 Hin]]; [left; exact H0|right].
    split; [exact H60|]. rewrite Hsz by (assumption || lia). lia.
Qed.

(* the index entry is written when the complete record is in the data file *)
Lemma v1_entry_w idx dat s d e :
  v1_WInv (idx, dat) -> slot_ok s -> bytes_okl d -> zlen d < two32 -> e + 4 + zlen d < two40 ->
  blen dat = e + 4 + zlen d -> brd dat e 4 = zlen d -> bread dat (e + 4) (length d) = d ->
  B1 <= e -> B1 + g_live_sum v1st v1_rec (idx, dat) <= e ->
  (forall s' a d', slot_ok s' -> v1_rec (idx, dat) s' = Some (a, d') -> a + 4 + zlen d' <= e) ->
  let idx' := bwrite idx (v1_ioff s) (le 5 e) in
  v1_WInv (idx', dat) /\ v1_rec (idx', dat) s = (if zlen d =? 0 then None else Some (e, d)) /\
  forall s', slot_ok s' -> s' <> s -> v1_rec (idx', dat) s' = v1_rec (idx, dat) s'.
Proof.
  intros [[G1 [G2 [G3 G4]]] [Hbi [Hbd [Hli [Hent [H5 H4]]]]]] Hs Hd Hm Hg Hl Hsz Hdat He Hsum Hbelow. cbv zeta. set (idx' := bwrite idx (v1_ioff s) (le 5 e)).
  unfold v1_dlen in *. cbn [fst snd] in *. pose proof (zlen_nonneg d) as Hz. destruct (v1_ioff_range s Hs) as [I1 I2].
  assert (HB1 : B1 = 65596) by reflexivity. assert (HX1 : X1 = 81952) by reflexivity. assert (T40 : two40 = 1099511627776) by reflexivity.
  set (size := zlen d) in *.
  assert (Li : blen idx' = X1) by (unfold idx'; rewrite blen_bwrite, zlen_le, Hli; change (Z.of_nat 5) with 5; lia).
  assert (Fi : forall o n, o + Z.of_nat n <= v1_ioff s \/ v1_ioff s + 5 <= o -> bread idx' o n = bread idx o n).
  { intros o n H. unfold idx'. apply bread_bwrite_out; [lia|rewrite zlen_le; change (Z.of_nat 5) with 5; lia]. }
  assert (Hent' : brd idx' (v1_ioff s) 5 = e) by (unfold idx'; apply brd_bwrite_same; [lia|rewrite pow5; lia]).
  assert (Hev : forall s', slot_ok s' -> s' <> s -> brd idx' (v1_ioff s') 5 = brd idx (v1_ioff s') 5).
  { intros s' Hs' Hne. destruct (v1_ioff_range s' Hs') as [J1 J2].
    pose proof (v1_ioff_disj s s' Hs Hs' (fun H => Hne (eq_sym H))) as Hdis.
    unfold brd. rewrite Fi by (change (Z.of_nat 5) with 5; lia). reflexivity. }
  assert (Hself : v1_rec (idx', dat) s = (if size =? 0 then None else Some (e, d))).
  { unfold v1_rec. cbn [fst snd]. rewrite Hent', Hsz. destruct (e =? 0) eqn:Ee; [lia|].
    destruct (size =? 0) eqn:Es; [reflexivity|]. f_equal. f_equal.
    replace (Z.to_nat size) with (length d) by (unfold size, zlen; lia). exact Hdat. }
  assert (Hother : forall s', slot_ok s' -> s' <> s -> v1_rec (idx', dat) s' = v1_rec (idx, dat) s').
  { intros s' Hs' Hne. unfold v1_rec. cbn [fst snd]. now rewrite Hev. }
  split; [|split; [exact Hself|exact Hother]].
  unfold v1_WInv, v1_dlen. cbn [fst snd]. splits; auto.
  - unfold GInv, v1_dlen. cbn [snd]. split; [lia|]. split; [|split].
    + intros s0 a d0 Hs0 H. destruct (slot_eq_dec s0 s) as [->|Hne].
      * rewrite Hself in H. destruct (size =? 0) eqn:Es; [discriminate|]. inversion H; subst a d0. repeat split; auto; lia.
      * rewrite Hother in H by assumption. exact (G2 s0 a d0 Hs0 H).
    + intros s1 s2 a1 d1 a2 d2 Hs1 Hs2 Hne R1 R2.
      destruct (slot_eq_dec s1 s) as [->|N1]; destruct (slot_eq_dec s2 s) as [->|N2]; try congruence.
      * rewrite Hself in R1. destruct (size =? 0); [discriminate|]. inversion R1; subst a1 d1.
        rewrite Hother in R2 by assumption. pose proof (Hbelow s2 a2 d2 Hs2 R2). lia.
      * rewrite Hself in R2. destruct (size =? 0); [discriminate|]. inversion R2; subst a2 d2.
        rewrite Hother in R1 by assumption. pose proof (Hbelow s1 a1 d1 Hs1 R1). lia.
      * rewrite Hother in R1, R2 by assumption. exact (G3 s1 s2 a1 d1 a2 d2 Hs1 Hs2 Hne R1 R2).
    + unfold g_live_sum in *. rewrite (sum_on_update' v1_rec (idx, dat) (idx', dat) all_slots s).
      * rewrite Hself. assert (0 <= rec_len (v1_rec (idx, dat) s)) by (destruct (v1_rec (idx, dat) s) as [[? dd]|]; cbn [rec_len]; [pose proof (zlen_nonneg dd)|]; lia).
        destruct (size =? 0); cbn [rec_len]; fold size; lia.
      * apply NoDup_all_slots.
      * now apply in_all_slots.
      * intros s' Hs' Hne. apply Hother; [now apply in_all_slots|exact Hne].
  - unfold idx'. apply bytes_ok_bwrite; [assumption|apply le_bytes|lia].
  - intros s' Hs'. cbv zeta. destruct (slot_eq_dec s' s) as [->|Hne].
    + right. rewrite Hent', Hsz. lia.
    + rewrite Hev by assumption. apply (Hent s' Hs').
Qed.

(* the model's store from a weakly valid state: what it writes *)
Lemma v1_store_shape idx dat s d :
  v1_WInv (idx, dat) -> slot_ok s -> bytes_okl d -> zlen d < two32 -> blen dat + 4 + zlen d < two40 ->
  let e := blen dat in
  let dat2 := bwrite (bwrite dat e (le 4 (zlen d))) (e + 4) d in
  exists hb, zlen hb = 60 /\ bytes_okl hb /\
    v1_store1 (idx, dat) s d = Some (bwrite idx (v1_ioff s) (le 5 e), bwrite dat2 0 hb) /\
    brd (bwrite dat2 0 hb) 24 8 = brd dat 24 8 + zlen d + 4 /\
    brd (bwrite dat2 0 hb) 16 8 <= brd dat 16 8 + 4.
Proof.
  intros [[G1 _] [Hbi [Hbd [Hli [Hent [H5 H4]]]]]] Hs Hd Hm Hg. unfold v1_dlen in *. cbn [fst snd] in *. cbv zeta.
  pose proof (zlen_nonneg d) as Hz. destruct (v1_ioff_range s Hs) as [I1 I2].
  set (e := blen dat) in *. set (size := zlen d) in *.
  assert (HB1 : B1 = 65596) by reflexivity. assert (HX1 : X1 = 81952) by reflexivity.
  assert (T40 : two40 = 1099511627776) by reflexivity. assert (T32 : two32 = 4294967296) by reflexivity.
  assert (T64 : two64 = 18446744073709551616) by reflexivity.
  unfold v1_store1, v1_tile_offset, v1_entry_bytes, v1_entry_write_bytes.
  rewrite brdnum_some by (rewrite Hli; change (Z.of_nat 5) with 5; lia).
  set (prev := brd idx (v1_ioff s) 5).
  assert (Hnew : exists b, (if prev =? 0 then Some true
                            else match brdnum dat prev 4 with None => None | Some n => Some (negb (0 <? n)) end) = Some b).
  { destruct (prev =? 0) eqn:E0; [eexists; reflexivity|].
    unfold prev in *. destruct (Hent s Hs) as [H|[H60 Hin]]; [lia|].
    pose proof (brd_bound dat (brd idx (v1_ioff s) 5) 4 Hbd). rewrite brdnum_some by (change (Z.of_nat 4) with 4; fold e; lia).
    eexists; reflexivity. }
  destruct Hnew as [is_new Hnew]. rewrite Hnew. fold size. fold e.
  destruct (e =? 0) eqn:Ee; [lia|]. destruct (two32 <=? size) eqn:E32; [lia|]. clear Ee E32.
  set (dat1 := bwrite dat e (le 4 size)). set (dat2 := bwrite dat1 (e + 4) d).
  assert (L1 : blen dat1 = e + 4) by (unfold dat1; rewrite blen_bwrite, zlen_le; fold e; lia).
  assert (L2 : blen dat2 = e + 4 + size) by (unfold dat2; rewrite blen_bwrite, L1; fold size; lia).
  assert (F2 : forall o n, o + Z.of_nat n <= e -> bread dat2 o n = bread dat o n).
  { intros o n Hn. unfold dat2, dat1. rewrite bread_bwrite_out by (fold dat1; fold size; lia).
    rewrite bread_bwrite_out by (rewrite ?zlen_le; fold e; lia). reflexivity. }
  unfold v1_hdr_unpack. destruct (60 <=? blen dat2) eqn:E60; [|lia]. clear E60.
  assert (R : forall o n, o + Z.of_nat n <= e -> brd dat2 o n = brd dat o n) by (intros; unfold brd; now rewrite F2).
  rewrite !R by (cbn; lia).
  pose proof (brd_bound dat 0 4 Hbd) as B0. pose proof (brd_bound dat 4 4 Hbd) as B1'. pose proof (brd_bound dat 8 4 Hbd) as B2'.
  pose proof (brd_bound dat 12 4 Hbd) as B3. pose proof (brd_bound dat 16 8 Hbd) as B4. pose proof (brd_bound dat 32 8 Hbd) as B6.
  pose proof (brd_bound dat 40 4 Hbd) as B7. pose proof (brd_bound dat 44 4 Hbd) as B8. pose proof (brd_bound dat 48 4 Hbd) as B9.
  pose proof (brd_bound dat 52 4 Hbd) as B10. pose proof (brd_bound dat 56 4 Hbd) as B11. pose proof (brd_bound dat 24 8 Hbd) as B5.
  rewrite pow4 in *. rewrite pow8 in *.
  set (h4' := if is_new then brd dat 16 8 + 4 else brd dat 16 8).
  assert (Hh4 : 0 <= h4' <= brd dat 16 8 + 4) by (unfold h4'; destruct is_new; lia).
  rewrite v1_hdr_pack_some by lia.
  set (hb := le 4 (brd dat 0 4) ++ le 4 (brd dat 4 4) ++ le 4 (Z.max (brd dat 8 4) size) ++ le 4 (brd dat 12 4) ++
             le 8 h4' ++ le 8 (brd dat 24 8 + size + 4) ++ le 8 (brd dat 32 8) ++ le 4 (brd dat 40 4) ++
             le 4 (brd dat 44 4) ++ le 4 (brd dat 48 4) ++ le 4 (brd dat 52 4) ++ le 4 (brd dat 56 4)).
  exists hb. splits.
  - unfold hb; rewrite !zlen_app, !zlen_le; reflexivity.
  - unfold hb; repeat apply bytes_okl_app; apply le_bytes.
  - reflexivity.
  - unfold hb. rewrite app5. apply brd_bwrite_mid'; [lia|rewrite pow8; lia|rewrite !zlen_app, !zlen_le; reflexivity].
  - replace (brd (bwrite dat2 0 hb) 16 8) with h4'; [lia|]. symmetry.
    unfold hb. rewrite app4. apply brd_bwrite_mid'; [lia|rewrite pow8; lia|rewrite !zlen_app, !zlen_le; reflexivity].
Qed.

(* every state a failed store can leave: the record appended completely or cut short (no index entry yet), the
   header rewritten or not, the index entry written only on top of the complete record *)
Theorem v1_store_prefix_ok idx dat s d :
  v1_WInv (idx, dat) -> slot_ok s -> bytes_okl d -> zlen d < two32 -> blen dat + 4 + zlen d < two40 ->
  let e := blen dat in
  let dat2 := bwrite (bwrite dat e (le 4 (zlen d))) (e + 4) d in
  let idx' := bwrite idx (v1_ioff s) (le 5 e) in
  exists hb, v1_store1 (idx, dat) s d = Some (idx', bwrite dat2 0 hb) /\
    forall st, In st [(idx, dat2); (idx, bwrite dat2 0 hb); (idx', dat2); (idx', bwrite dat2 0 hb)] ->
      v1_WInv st /\
      forall s', slot_ok s' ->
        v1_load st s' = v1_load (idx, dat) s' \/
        (s' = s /\ v1_load st s' = (if zlen d =? 0 then RMissing else RData d)).
Proof.
  intros HW Hs Hd Hm Hg. pose proof (v1_store_shape idx dat s d HW Hs Hd Hm Hg) as Hshape. cbv zeta in *.
  destruct Hshape as [hb [Lhb [Hhb [E [Hh5 Hh4]]]]]. exists hb. split; [exact E|].
  pose proof (zlen_nonneg d) as Hz. assert (HB1 : B1 = 65596) by reflexivity.
  assert (HW' := HW). destruct HW' as [[G1 [G2 [_ G4]]] [Hbi [Hbd [Hli [Hent [H5 H4]]]]]]. unfold v1_dlen in *. cbn [fst snd] in *.
  set (e := blen dat) in *. set (dat1 := bwrite dat e (le 4 (zlen d))) in *. set (dat2 := bwrite dat1 (e + 4) d) in *.
  set (dat3 := bwrite dat2 0 hb) in *. set (idx' := bwrite idx (v1_ioff s) (le 5 e)) in *.
  assert (T32 : two32 = 4294967296) by reflexivity.
  assert (L1 : blen dat1 = e + 4) by (unfold dat1; rewrite blen_bwrite, zlen_le; fold e; lia).
  assert (L2 : blen dat2 = e + 4 + zlen d) by (unfold dat2; rewrite blen_bwrite, L1; lia).
  assert (L3 : blen dat3 = e + 4 + zlen d) by (unfold dat3; rewrite blen_bwrite, L2, Lhb; lia).
  assert (Hb2 : bytes_ok dat2).
  { unfold dat2. apply bytes_ok_bwrite; [unfold dat1; apply bytes_ok_bwrite; [assumption|apply le_bytes|fold e; lia]|assumption|lia]. }
  assert (Hb3 : bytes_ok dat3) by (unfold dat3; apply bytes_ok_bwrite; [assumption|assumption|lia]).
  assert (F2 : forall o n, o + Z.of_nat n <= e -> bread dat2 o n = bread dat o n).
  { intros o n Hn. unfold dat2, dat1. rewrite bread_bwrite_out by (fold dat1; lia).
    rewrite bread_bwrite_out by (rewrite ?zlen_le; fold e; lia). reflexivity. }
  assert (F3 : forall o n, 60 <= o -> bread dat3 o n = bread dat2 o n).
  { intros o n Ho. unfold dat3. apply bread_bwrite_out; [lia|rewrite Lhb; lia]. }
  assert (Hsz2 : brd dat2 e 4 = zlen d).
  { unfold dat2. rewrite brd_bwrite_out by (change (Z.of_nat 4) with 4; lia). unfold dat1.
    apply brd_bwrite_same; [fold e; lia|rewrite pow4; lia]. }
  assert (Hdat2 : bread dat2 (e + 4) (length d) = d) by (unfold dat2; apply bread_bwrite_same; lia).
  (* (idx, dat2) and (idx, dat3): nothing changed for any address *)
  destruct (v1_dat_frame_w idx dat dat2 HW) as [W2 R2]; [lia|exact Hb2|intros; apply F2; lia| | |].
  { unfold brd. rewrite F2 by (change (Z.of_nat 8) with 8; lia). fold (brd dat 24 8). lia. }
  { unfold brd. rewrite F2 by (change (Z.of_nat 8) with 8; lia). fold (brd dat 16 8). lia. }
  destruct (v1_dat_frame_w idx dat dat3 HW) as [W3 R3]; [lia|exact Hb3|intros; rewrite F3 by lia; apply F2; lia| | |].
  { fold dat3 in Hh5. rewrite Hh5, L3. lia. }
  { fold dat3 in Hh4. rewrite L3. lia. }
  assert (Hsum : forall dd, (forall s', slot_ok s' -> v1_rec (idx, dd) s' = v1_rec (idx, dat) s') ->
            B1 + g_live_sum v1st v1_rec (idx, dd) <= e /\
            forall s' a d', slot_ok s' -> v1_rec (idx, dd) s' = Some (a, d') -> a + 4 + zlen d' <= e).
  { intros dd Rd. split.
    - unfold g_live_sum in *. rewrite (sum_on_ext v1st v1_rec (idx, dat) (idx, dd) all_slots); [exact G4|].
      intros s' Hs'. apply Rd. now apply in_all_slots.
    - intros s' a d' Hs' H. rewrite Rd in H by assumption. now destruct (G2 s' a d' Hs' H) as [_ [? _]]. }
  destruct (Hsum dat2 R2) as [S2 B2']. destruct (Hsum dat3 R3) as [S3 B3'].
  destruct (v1_entry_w idx dat2 s d e W2 Hs Hd Hm Hg L2 Hsz2 Hdat2 G1 S2 B2') as [W4 [R4 O4]].
  assert (Hsz3 : brd dat3 e 4 = zlen d) by (unfold brd; rewrite F3 by lia; exact Hsz2).
  assert (Hdat3 : bread dat3 (e + 4) (length d) = d) by (rewrite F3 by lia; exact Hdat2).
  destruct (v1_entry_w idx dat3 s d e W3 Hs Hd Hm Hg L3 Hsz3 Hdat3 G1 S3 B3') as [W5 [R5 O5]].
  fold idx' in W4, R4, O4, W5, R5, O5.
  assert (same : forall st, v1_WInv st -> (forall s', slot_ok s' -> v1_rec st s' = v1_rec (idx, dat) s') ->
     v1_WInv st /\ forall s', slot_ok s' -> v1_load st s' = v1_load (idx, dat) s' \/
        (s' = s /\ v1_load st s' = (if zlen d =? 0 then RMissing else RData d))).
  { intros st Wst Rst. split; [exact Wst|]. intros s' Hs'. left. rewrite !v1_load_rec_w by assumption. now rewrite Rst. }
  assert (newst : forall st, v1_WInv st -> v1_rec st s = (if zlen d =? 0 then None else Some (e, d)) ->
     (forall s', slot_ok s' -> s' <> s -> v1_rec st s' = v1_rec (idx, dat) s') ->
     v1_WInv st /\ forall s', slot_ok s' -> v1_load st s' = v1_load (idx, dat) s' \/
        (s' = s /\ v1_load st s' = (if zlen d =? 0 then RMissing else RData d))).
  { intros st Wst Rs Ro. split; [exact Wst|]. intros s' Hs'. rewrite !v1_load_rec_w by assumption.
    destruct (slot_eq_dec s' s) as [->|Hne].
    - right. split; [reflexivity|]. rewrite Rs. destruct (zlen d =? 0); reflexivity.
    - left. now rewrite Ro. }
  intros st [<-|[<-|[<-|[<-|[]]]]].
  - apply same; assumption.
  - apply same; assumption.
  - apply newst; [exact W4|exact R4|]. intros s' Hs' Hne. rewrite O4 by assumption. now apply R2.
  - apply newst; [exact W5|exact R5|]. intros s' Hs' Hne. rewrite O5 by assumption. now apply R3.
Qed.

(* the appended bytes cut short anywhere: no address changes *)
Theorem v1_torn_append_ok idx dat t :
  v1_WInv (idx, dat) -> bytes_okl t ->
  v1_WInv (idx, bwrite dat (blen dat) t) /\
  forall s, slot_ok s -> v1_load (idx, bwrite dat (blen dat) t) s = v1_load (idx, dat) s.
Proof.
  intros HW Ht. pose proof (zlen_nonneg t). assert (HB1 : B1 = 65596) by reflexivity.
  assert (HW' := HW). destruct HW' as [[G1 _] [Hbi [Hbd [Hli [Hent [H5 H4]]]]]]. unfold v1_dlen in *. cbn [fst snd] in *.
  assert (F : forall o n, o + Z.of_nat n <= blen dat -> bread (bwrite dat (blen dat) t) o n = bread dat o n).
  { intros o n Hn. apply bread_bwrite_out; lia. }
  destruct (v1_dat_frame_w idx dat (bwrite dat (blen dat) t) HW) as [W R].
  - rewrite blen_bwrite. lia.
  - apply bytes_ok_bwrite; [assumption|assumption|lia].
  - intros. apply F. lia.
  - unfold brd. rewrite F by (change (Z.of_nat 8) with 8; lia). fold (brd dat 24 8). rewrite blen_bwrite. lia.
  - unfold brd. rewrite F by (change (Z.of_nat 8) with 8; lia). fold (brd dat 16 8). rewrite blen_bwrite. lia.
  - split; [exact W|]. intros s Hs. rewrite !v1_load_rec_w by assumption. now rewrite R.
Qed.

(* ================================================================================================ *)
(* Part 8: the readers on ARBITRARY file contents (no invariant assumed).  An index entry is interpreted by     *)
(* size and offset only: whatever bytes the files hold, a reader answers `missing` or a slice that lies inside    *)
(* the file; the only exception is the documented struct.error of v1 when the 4-byte size field is cut off by     *)
(* the end of the data file.                                                                                     *)

Theorem v2_reader_total f s :
  B2 <= blen f -> slot_ok s ->
  v2_load f s = RMissing \/
  exists off n, v2_load f s = RData (bread f off n) /\ 0 <= off /\ (n = O \/ off + Z.of_nat n <= blen f).
Proof.
  intros Hl Hs. destruct (v2_idx_range s Hs) as [I1 [I2 _]].
  unfold v2_load, v2_tile_offset_size. rewrite v2_entry_bytes_spec. rewrite brdnum_some by (change (Z.of_nat 8) with 8; lia).
  rewrite v2_entry_size_spec, v2_entry_offset_spec. set (val := brd f (v2_idx s) 8).
  destruct (val / two40 =? 0) eqn:E; [left; reflexivity|]. rewrite E. right.
  exists (val - val / two40 * two40), (Z.to_nat (Z.min (val / two40) (blen f - (val - val / two40 * two40)))).
  split; [reflexivity|]. unfold two40. split; [lia|].
  destruct (Z_le_gt_dec (Z.min (val / 1099511627776) (blen f - (val - val / 1099511627776 * 1099511627776))) 0); [left|right]; lia.
Qed.

Theorem v1_reader_total idx dat s :
  X1 <= blen idx -> slot_ok s ->
  let off := brd idx (v1_ioff s) 5 in
  v1_load (idx, dat) s = RMissing \/
  (v1_load (idx, dat) s = RError /\ off <> 0 /\ blen dat < off + 4) \/
  exists n, v1_load (idx, dat) s = RData (bread dat (off + 4) n) /\ n <> O /\ off + 4 + Z.of_nat n <= blen dat.
Proof.
  intros Hl Hs. destruct (v1_ioff_range s Hs) as [I1 I2]. assert (HX1 : X1 = 81952) by reflexivity. cbv zeta.
  unfold v1_load, v1_tile_offset, v1_entry_bytes. rewrite brdnum_some by (change (Z.of_nat 5) with 5; lia).
  set (off := brd idx (v1_ioff s) 5). destruct (off =? 0) eqn:E0; [left; reflexivity|].
  unfold brdnum. destruct (off + Z.of_nat 4 <=? blen dat) eqn:E4.
  - set (size := unle (bread dat off 4)). destruct (size <=? 0) eqn:Es; [left; reflexivity|].
    unfold breadz. set (n := Z.to_nat (Z.min size (blen dat - (off + 4)))).
    destruct (bread dat (off + 4) n) eqn:Eb; [left; reflexivity|]. right. right. exists n. rewrite Eb.
    split; [reflexivity|]. assert (n <> O) by (intros ->; discriminate). split; [assumption|]. unfold n in *. lia.
  - right. left. split; [reflexivity|]. change (Z.of_nat 4) with 4 in E4. lia.
Qed.

(* ================================================================================================ *)
(* Part 9: v2 life goes on after a failed store.  Everything proved for v2_Inv also holds from the weakly valid   *)
(* states (v2_WInv) that failed stores leave behind: further histories, defragmentation, whole caches.            *)

Definition v2_wextra (f : bfile) : Prop :=
  bytes_ok f /\ (forall s a d, slot_ok s -> v2_rec f s = Some (a, d) -> brd f a 4 = zlen d).

Lemma v2_WInv_is_g f : v2_WInv f <-> Inv_g bfile v2_rec blen B2 two24 v2_wextra f.
Proof. reflexivity. Qed.

Lemma v2_store_facts_w f s d :
  Inv_g bfile v2_rec blen B2 two24 v2_wextra f -> slot_ok s -> bytes_okl d -> zlen d < two24 -> blen f + 4 + zlen d < two40 ->
  exists f', v2_store1 f s d = Some f' /\ v2_wextra f' /\ blen f' = blen f + 4 + zlen d /\
    v2_rec f' s = (if zlen d =? 0 then None else Some (blen f, d)) /\
    forall s', slot_ok s' -> s' <> s -> v2_rec f' s' = v2_rec f s'.
Proof.
  intros HW Hs Hd Hm Hg. change (v2_WInv f) in HW.
  rewrite (v2_store1_is_writes f s d HW Hs Hd Hm Hg). eexists. split; [reflexivity|].
  destruct (v2_store_states f s d HW Hs Hd Hm Hg) as [_ [_ [[W3 [R3 O3]] [H8 L3]]]]. cbv zeta in *.
  pose proof (zlen_nonneg d). assert (T24 : two24 = 16777216) by reflexivity. assert (T40 : two40 = 1099511627776) by reflexivity.
  set (g3 := bwrite (bwrite (bwrite f (blen f) (le 4 (zlen d))) (blen f + 4) d) (v2_idx s) (le 8 (v2_entry_encode (blen f + 4) (zlen d)))) in *.
  assert (HB2 : B2 = 131136) by reflexivity. assert (G1 : B2 <= blen f) by (destruct HW as [[G1 _] _]; exact G1).
  assert (Hfin : forall g, v2_WInv g -> blen g = blen f + 4 + zlen d -> (forall s', slot_ok s' -> v2_rec g s' = v2_rec g3 s') ->
     v2_wextra g /\ blen g = blen f + 4 + zlen d /\
     v2_rec g s = (if zlen d =? 0 then None else Some (blen f, d)) /\
     forall s', slot_ok s' -> s' <> s -> v2_rec g s' = v2_rec f s').
  { intros g [_ Wg] Lg Rg. splits; [exact Wg|exact Lg|rewrite Rg by assumption; exact R3|].
    intros s' Hs' Hne. rewrite Rg by assumption. now apply O3. }
  assert (Hh : forall g o t, v2_WInv g -> blen g = blen f + 4 + zlen d -> (forall s', slot_ok s' -> v2_rec g s' = v2_rec g3 s') ->
     bytes_okl t -> 0 <= o -> o + zlen t <= 32 ->
     v2_WInv (bwrite g o t) /\ blen (bwrite g o t) = blen f + 4 + zlen d /\
     forall s', slot_ok s' -> v2_rec (bwrite g o t) s' = v2_rec g3 s').
  { intros g o t Wg Lg Rg Ht Ho Hn. destruct (v2_header_w g o t Wg Ht Ho Hn) as [W R]. pose proof (zlen_nonneg t).
    splits; [exact W|rewrite blen_bwrite; lia|]. intros s' Hs'. rewrite R by assumption. now apply Rg. }
  unfold v2_store_writes. cbv zeta. fold g3.
  destruct (brd f 8 4 <? zlen d); cbn [app apply_writes fold_left fst snd]; fold g3.
  - destruct (Hh g3 8 (le 4 (zlen d)) W3 L3 (fun _ _ => eq_refl) (le_bytes _ _)) as [W4 [L4 R4]]; [lia|rewrite zlen_le; lia|].
    destruct (Hh _ 24 (le 8 (blen f + 4 + zlen d)) W4 L4 R4 (le_bytes _ _)) as [W5 [L5 R5]]; [lia|rewrite zlen_le; lia|].
    apply Hfin; assumption.
  - destruct (Hh g3 24 (le 8 (blen f + 4 + zlen d)) W3 L3 (fun _ _ => eq_refl) (le_bytes _ _)) as [W5 [L5 R5]]; [lia|rewrite zlen_le; lia|].
    apply Hfin; assumption.
Qed.

Lemma v2_remove_facts_w f s : Inv_g bfile v2_rec blen B2 two24 v2_wextra f -> slot_ok s ->
  v2_wextra (v2_remove1 f s) /\ blen (v2_remove1 f s) = blen f /\ v2_rec (v2_remove1 f s) s = None /\
  forall s', slot_ok s' -> s' <> s -> v2_rec (v2_remove1 f s) s' = v2_rec f s'.
Proof.
  intros [[G1 [G2 _]] [Hb Hrec]] Hs. destruct (v2_idx_range s Hs) as [I1 [I2 _]].
  assert (HB2 : B2 = 131136) by reflexivity.
  unfold v2_remove1. rewrite v2_entry_encode_spec. change (0 + 0 * two40) with 0. set (f' := bwrite f (v2_idx s) (le 8 0)).
  assert (L : blen f' = blen f) by (unfold f'; rewrite blen_bwrite, zlen_le; lia).
  assert (F : forall o n, o + Z.of_nat n <= v2_idx s \/ v2_idx s + 8 <= o -> bread f' o n = bread f o n).
  { intros o n H. unfold f'. apply bread_bwrite_out; [lia|rewrite zlen_le; lia]. }
  assert (Hself : v2_rec f' s = None).
  { unfold v2_rec. unfold f'. rewrite brd_bwrite_same by (rewrite ?pow8; unfold two64; lia). reflexivity. }
  assert (Hother : forall s', slot_ok s' -> s' <> s -> v2_rec f' s' = v2_rec f s').
  { intros s' Hs' Hne. destruct (v2_idx_range s' Hs') as [J1 [J2 _]].
    pose proof (v2_idx_disj s s' Hs Hs' (fun H => Hne (eq_sym H))) as Hdis.
    specialize (G2 s'). unfold v2_rec in *.
    assert (Ev : brd f' (v2_idx s') 8 = brd f (v2_idx s') 8) by (unfold brd; rewrite F by (change (Z.of_nat 8) with 8; lia); reflexivity).
    rewrite Ev. set (v' := brd f (v2_idx s') 8) in *. destruct (v' / two40 =? 0) eqn:E0; [reflexivity|].
    destruct (G2 _ _ Hs' eq_refl) as [Ha [Hbnd _]]. f_equal. f_equal. apply F. lia. }
  splits; [|exact L|exact Hself|exact Hother].
  split.
  - unfold f'. apply bytes_ok_bwrite; [assumption|apply le_bytes|lia].
  - intros s' a d' Hs' Hr. destruct (slot_eq_dec s' s) as [->|Hne]; [congruence|].
    rewrite Hother in Hr by assumption. rewrite <- (Hrec s' a d' Hs' Hr).
    destruct (G2 s' a d' Hs' Hr) as [Ha _]. unfold brd. rewrite F; [reflexivity|change (Z.of_nat 4) with 4; lia].
Qed.

Lemma v2_fresh_facts_w : v2_wextra v2_init /\ blen v2_init = B2 /\ forall s, slot_ok s -> v2_rec v2_init s = None.
Proof.
  destruct v2_fresh_facts as [[Hb [_ Hr]] [Hl Hn]]. splits; auto. split; [exact Hb|].
  intros s a d Hs H. now destruct (Hr s a d Hs H).
Qed.

Lemma v2_load_rec_g f s : Inv_g bfile v2_rec blen B2 two24 v2_wextra f -> slot_ok s ->
  v2_load f s = match v2_rec f s with Some (_, d) => RData d | None => RMissing end.
Proof. exact (v2_load_rec_w f s). Qed.

Ltac inst_w2 lem X :=
  pose proof (lem bfile v2_load v2_store1 v2_remove1 v2_init v2_rec blen B2 two24 v2_wextra) as X;
  repeat first [specialize (X v2_load_rec_g) | specialize (X v2_store_facts_w) | specialize (X v2_remove_facts_w)
               | specialize (X v2_fresh_facts_w)].

Theorem v2_w_store f s d :
  v2_WInv f -> slot_ok s -> bytes_okl d -> zlen d < two24 -> blen f + 4 + zlen d < two40 ->
  exists f', v2_store1 f s d = Some f' /\ v2_WInv f' /\ blen f' = blen f + 4 + zlen d /\
    v2_load f' s = (if zlen d =? 0 then RMissing else RData d) /\
    forall s', slot_ok s' -> s' <> s -> v2_load f' s' = v2_load f s'.
Proof.
  intros HI Hs Hd Hm Hg. inst_w2 g_inv_store X.
  destruct (X f s d HI Hs Hd Hm Hg) as [f' [E [HI' [Hl [Hr Ho]]]]].
  exists f'. change (v2_WInv f') in HI'. splits; auto.
  - rewrite v2_load_rec_w by assumption. rewrite Hr. destruct (zlen d =? 0); reflexivity.
  - intros s' Hs' Hne. rewrite !v2_load_rec_w by assumption. now rewrite Ho.
Qed.

Theorem v2_w_remove f s : v2_WInv f -> slot_ok s ->
  v2_WInv (v2_remove1 f s) /\ blen (v2_remove1 f s) = blen f /\ v2_load (v2_remove1 f s) s = RMissing /\
  forall s', slot_ok s' -> s' <> s -> v2_load (v2_remove1 f s) s' = v2_load f s'.
Proof.
  intros HI Hs. inst_w2 g_inv_remove X. destruct (X f s HI Hs) as [HI' [Hl [Hr Ho]]].
  change (v2_WInv (v2_remove1 f s)) in HI'. splits; auto.
  - rewrite v2_load_rec_w by assumption. now rewrite Hr.
  - intros s' Hs' Hne. rewrite !v2_load_rec_w by assumption. now rewrite Ho.
Qed.

(* a history that continues from a weakly valid bundle (e.g. after a failed store) *)
Theorem v2_w_history ops f :
  v2_WInv f -> Forall (op_ok two24) ops -> blen f + ops_bytes ops < two40 ->
  exists f', fold_left v2_step ops (Some f) = Some f' /\ v2_WInv f' /\ blen f' = blen f + ops_bytes ops.
Proof. intros HI Hf Hg. inst_w2 g_history_inv X. exact (X ops f HI Hf Hg). Qed.

Theorem v2_w_defrag f : v2_WInv f -> blen f < two40 ->
  exists r, v2_defrag f = Some r /\
    (forall s, slot_ok s -> g_load_opt bfile v2_load r s = v2_load f s) /\
    (forall f', r = Some f' -> v2_WInv f' /\ blen f' <= blen f).
Proof.
  intros HI Hg. inst_w2 g_defrag_spec X. destruct (X f HI Hg) as [r [E [Hl [Hs _]]]].
  exists r. splits; auto. intros f' Hr. destruct (Hs f' Hr) as [HI' [_ ?]]. split; [exact HI'|assumption].
Qed.

Lemma v2_w_defrag_k (k : bkey) f : v2_WInv f -> blen f < two40 ->
  exists r, v2_defrag f = Some r /\ (forall s, slot_ok s -> g_load_opt bfile v2_load r s = v2_load f s) /\
    (forall f', r = Some f' -> v2_WInv f' /\ blen f' <= blen f).
Proof. exact (v2_w_defrag f). Qed.

Lemma v2_init_w : v2_WInv v2_init.
Proof. apply v2_Inv_weak, v2_inv_init. Qed.

Ltac inst_cw2 lem X :=
  pose proof (lem bfile v2_load v2_store1 v2_remove1 (fun _ : bkey => v2_init) (fun _ : bkey => v2_defrag) v2_WInv blen B2 two24) as X;
  repeat first [specialize (X v2_w_store) | specialize (X v2_w_remove)
               | specialize (X (fun _ : bkey => conj v2_init_w (eq_refl B2))) | specialize (X v2_w_defrag_k)].

(* caches whose bundles are only weakly valid (some stores failed): histories go on, defragmentation changes no tile *)
Theorem v2c_w_history ops c b :
  B2 <= b -> cache_ok v2_WInv blen b c -> Forall (cop_ok two24) ops -> b + cops_bytes ops < two40 ->
  exists c', fold_left (c_step bfile v2_store1 v2_remove1 (fun _ => v2_init)) ops (Some c) = Some c' /\
             cache_ok v2_WInv blen (b + cops_bytes ops) c'.
Proof. inst_cw2 c_history_ok X. exact (X ops c b). Qed.

Theorem v2c_w_defrag skip c b : b < two40 -> cache_ok v2_WInv blen b c ->
  exists c', v2c_defrag skip c = Some c' /\
    (forall coord, v2c_load c' coord = v2c_load c coord) /\
    cache_ok v2_WInv blen b c' /\
    (forall k f', In (k, f') c' -> exists f, In (k, f) c /\ blen f' <= blen f).
Proof. inst_cw2 c_defrag_ok X. exact (X skip c b). Qed.

(* ================================================================================================ *)
(* Part 10: the same for v1                                                                          *)

Definition v1_wextra (st : v1st) : Prop :=
  bytes_ok (fst st) /\ bytes_ok (snd st) /\ blen (fst st) = X1 /\
  (forall s, slot_ok s ->
     let off := brd (fst st) (v1_ioff s) 5 in
     off = 0 \/ (60 <= off /\ off + 4 + brd (snd st) off 4 <= blen (snd st))) /\
  brd (snd st) 24 8 <= blen (snd st) /\ brd (snd st) 16 8 <= blen (snd st).

Lemma v1_store_facts_w st s d :
  Inv_g v1st v1_rec v1_dlen B1 two32 v1_wextra st -> slot_ok s -> bytes_okl d -> zlen d < two32 ->
  v1_dlen st + 4 + zlen d < two40 ->
  exists st', v1_store1 st s d = Some st' /\ v1_wextra st' /\ v1_dlen st' = v1_dlen st + 4 + zlen d /\
    v1_rec st' s = (if zlen d =? 0 then None else Some (v1_dlen st, d)) /\
    forall s', slot_ok s' -> s' <> s -> v1_rec st' s' = v1_rec st s'.
Proof.
  destruct st as [idx dat]. unfold v1_dlen at 1 2 3. cbn [snd]. intros HW0. change (v1_WInv (idx, dat)) in HW0. revert HW0.

  intros HW Hs Hd Hm Hg. pose proof (v1_store_shape idx dat s d HW Hs Hd Hm Hg) as Hshape. cbv zeta in *.
  destruct Hshape as [hb [Lhb [Hhb [E [Hh5 Hh4]]]]].
  pose proof (zlen_nonneg d) as Hz. assert (HB1 : B1 = 65596) by reflexivity.
  assert (HW' := HW). destruct HW' as [[G1 [G2 [_ G4]]] [Hbi [Hbd [Hli [Hent [H5 H4]]]]]]. unfold v1_dlen in *. cbn [fst snd] in *.
  set (e := blen dat) in *. set (dat1 := bwrite dat e (le 4 (zlen d))) in *. set (dat2 := bwrite dat1 (e + 4) d) in *.
  set (dat3 := bwrite dat2 0 hb) in *. set (idx' := bwrite idx (v1_ioff s) (le 5 e)) in *.
  assert (T32 : two32 = 4294967296) by reflexivity.
  assert (L1 : blen dat1 = e + 4) by (unfold dat1; rewrite blen_bwrite, zlen_le; fold e; lia).
  assert (L2 : blen dat2 = e + 4 + zlen d) by (unfold dat2; rewrite blen_bwrite, L1; lia).
  assert (L3 : blen dat3 = e + 4 + zlen d) by (unfold dat3; rewrite blen_bwrite, L2, Lhb; lia).
  assert (Hb2 : bytes_ok dat2).
  { unfold dat2. apply bytes_ok_bwrite; [unfold dat1; apply bytes_ok_bwrite; [assumption|apply le_bytes|fold e; lia]|assumption|lia]. }
  assert (Hb3 : bytes_ok dat3) by (unfold dat3; apply bytes_ok_bwrite; [assumption|assumption|lia]).
  assert (F2 : forall o n, o + Z.of_nat n <= e -> bread dat2 o n = bread dat o n).
  { intros o n Hn. unfold dat2, dat1. rewrite bread_bwrite_out by (fold dat1; lia).
    rewrite bread_bwrite_out by (rewrite ?zlen_le; fold e; lia). reflexivity. }
  assert (F3 : forall o n, 60 <= o -> bread dat3 o n = bread dat2 o n).
  { intros o n Ho. unfold dat3. apply bread_bwrite_out; [lia|rewrite Lhb; lia]. }
  assert (Hsz2 : brd dat2 e 4 = zlen d).
  { unfold dat2. rewrite brd_bwrite_out by (change (Z.of_nat 4) with 4; lia). unfold dat1.
    apply brd_bwrite_same; [fold e; lia|rewrite pow4; lia]. }
  assert (Hdat2 : bread dat2 (e + 4) (length d) = d) by (unfold dat2; apply bread_bwrite_same; lia).
  (* (idx, dat2) and (idx, dat3): nothing changed for any address *)
  destruct (v1_dat_frame_w idx dat dat2 HW) as [W2 R2]; [lia|exact Hb2|intros; apply F2; lia| | |].
  { unfold brd. rewrite F2 by (change (Z.of_nat 8) with 8; lia). fold (brd dat 24 8). lia. }
  { unfold brd. rewrite F2 by (change (Z.of_nat 8) with 8; lia). fold (brd dat 16 8). lia. }
  destruct (v1_dat_frame_w idx dat dat3 HW) as [W3 R3]; [lia|exact Hb3|intros; rewrite F3 by lia; apply F2; lia| | |].
  { fold dat3 in Hh5. rewrite Hh5, L3. lia. }
  { fold dat3 in Hh4. rewrite L3. lia. }
  assert (Hsum : forall dd, (forall s', slot_ok s' -> v1_rec (idx, dd) s' = v1_rec (idx, dat) s') ->
            B1 + g_live_sum v1st v1_rec (idx, dd) <= e /\
            forall s' a d', slot_ok s' -> v1_rec (idx, dd) s' = Some (a, d') -> a + 4 + zlen d' <= e).
  { intros dd Rd. split.
    - unfold g_live_sum in *. rewrite (sum_on_ext v1st v1_rec (idx, dat) (idx, dd) all_slots); [exact G4|].
      intros s' Hs'. apply Rd. now apply in_all_slots.
    - intros s' a d' Hs' H. rewrite Rd in H by assumption. now destruct (G2 s' a d' Hs' H) as [_ [? _]]. }
  destruct (Hsum dat2 R2) as [S2 B2']. destruct (Hsum dat3 R3) as [S3 B3'].
  destruct (v1_entry_w idx dat2 s d e W2 Hs Hd Hm Hg L2 Hsz2 Hdat2 G1 S2 B2') as [W4 [R4 O4]].
  assert (Hsz3 : brd dat3 e 4 = zlen d) by (unfold brd; rewrite F3 by lia; exact Hsz2).
  assert (Hdat3 : bread dat3 (e + 4) (length d) = d) by (rewrite F3 by lia; exact Hdat2).
  destruct (v1_entry_w idx dat3 s d e W3 Hs Hd Hm Hg L3 Hsz3 Hdat3 G1 S3 B3') as [W5 [R5 O5]].
  fold idx' in W4, R4, O4, W5, R5, O5.
  exists (idx', dat3). split; [exact E|]. split; [|split; [|split]].
  - destruct W5 as [_ W5]. exact W5.
  - unfold v1_dlen. cbn [snd]. exact L3.
  - exact R5.
  - intros s' Hs' Hne. rewrite O5 by assumption. now apply R3.
Qed.

Lemma v1_remove_facts_w st s : Inv_g v1st v1_rec v1_dlen B1 two32 v1_wextra st -> slot_ok s ->
  v1_wextra (v1_remove1 st s) /\ v1_dlen (v1_remove1 st s) = v1_dlen st /\ v1_rec (v1_remove1 st s) s = None /\
  forall s', slot_ok s' -> s' <> s -> v1_rec (v1_remove1 st s) s' = v1_rec st s'.
Proof.
  intros [_ [Hbi [Hbd [Hli [Hent [H5 H4]]]]]] Hs. destruct st as [idx dat]. unfold v1_dlen, v1_remove1. cbn [fst snd] in *.
  destruct (v1_ioff_range s Hs) as [I1 I2]. assert (HX1 : X1 = 81952) by reflexivity.
  change (repeat 0 v1_entry_remove_bytes) with (le 5 0). set (idx' := bwrite idx (v1_ioff s) (le 5 0)).
  assert (Li : blen idx' = X1) by (unfold idx'; rewrite blen_bwrite, zlen_le, Hli; change (Z.of_nat 5) with 5; lia).
  assert (Fi : forall o n, o + Z.of_nat n <= v1_ioff s \/ v1_ioff s + 5 <= o -> bread idx' o n = bread idx o n).
  { intros o n H. unfold idx'. apply bread_bwrite_out; [lia|rewrite zlen_le; change (Z.of_nat 5) with 5; lia]. }
  assert (Hz : brd idx' (v1_ioff s) 5 = 0) by (unfold idx'; apply brd_bwrite_same; [lia|rewrite pow5; unfold two40; lia]).
  assert (Hev : forall s', slot_ok s' -> s' <> s -> brd idx' (v1_ioff s') 5 = brd idx (v1_ioff s') 5).
  { intros s' Hs' Hne. destruct (v1_ioff_range s' Hs') as [J1 J2].
    pose proof (v1_ioff_disj s s' Hs Hs' (fun H => Hne (eq_sym H))) as Hdis.
    unfold brd. rewrite Fi by (change (Z.of_nat 5) with 5; lia). reflexivity. }
  assert (Hother : forall s', slot_ok s' -> s' <> s -> v1_rec (idx', dat) s' = v1_rec (idx, dat) s').
  { intros s' Hs' Hne. unfold v1_rec. cbn [fst snd]. now rewrite Hev. }
  assert (Hself : v1_rec (idx', dat) s = None) by (unfold v1_rec; cbn [fst snd]; rewrite Hz; reflexivity).
  splits; [|reflexivity|exact Hself|exact Hother].
  unfold v1_wextra. cbn [fst snd]. splits; auto.
  - unfold idx'. apply bytes_ok_bwrite; [assumption|apply le_bytes|lia].
  - intros s' Hs'. cbv zeta. destruct (slot_eq_dec s' s) as [->|Hne]; [left; exact Hz|].
    rewrite Hev by assumption. apply (Hent s' Hs').
Qed.

Lemma v1_fresh_facts_w c r :
  v1_wextra (v1_init c r) /\ v1_dlen (v1_init c r) = B1 /\ forall s, slot_ok s -> v1_rec (v1_init c r) s = None.
Proof.
  destruct (v1_fresh_facts c r) as [[Hbi [Hbd [Hli [Hent [H5 [H4 _]]]]]] [Hl Hn]]. splits; auto.
  unfold v1_wextra. splits; auto. lia.
Qed.

Lemma v1_load_rec_g st s : Inv_g v1st v1_rec v1_dlen B1 two32 v1_wextra st -> slot_ok s ->
  v1_load st s = match v1_rec st s with Some (_, d) => RData d | None => RMissing end.
Proof. exact (v1_load_rec_w st s). Qed.

Ltac inst_w1 c r lem X :=
  pose proof (lem v1st v1_load v1_store1 v1_remove1 (v1_init c r) v1_rec v1_dlen B1 two32 v1_wextra) as X;
  repeat first [specialize (X v1_load_rec_g) | specialize (X v1_store_facts_w) | specialize (X v1_remove_facts_w)
               | specialize (X (v1_fresh_facts_w c r))].

Theorem v1_w_store st s d :
  v1_WInv st -> slot_ok s -> bytes_okl d -> zlen d < two32 -> v1_dlen st + 4 + zlen d < two40 ->
  exists st', v1_store1 st s d = Some st' /\ v1_WInv st' /\ v1_dlen st' = v1_dlen st + 4 + zlen d /\
    v1_load st' s = (if zlen d =? 0 then RMissing else RData d) /\
    forall s', slot_ok s' -> s' <> s -> v1_load st' s' = v1_load st s'.
Proof.
  intros HI Hs Hd Hm Hg. inst_w1 0 0 g_inv_store X.
  destruct (X st s d HI Hs Hd Hm Hg) as [st' [E [HI' [Hl [Hr Ho]]]]].
  exists st'. change (v1_WInv st') in HI'. splits; auto.
  - rewrite v1_load_rec_w by assumption. rewrite Hr. destruct (zlen d =? 0); reflexivity.
  - intros s' Hs' Hne. rewrite !v1_load_rec_w by assumption. now rewrite Ho.
Qed.

Theorem v1_w_remove st s : v1_WInv st -> slot_ok s ->
  v1_WInv (v1_remove1 st s) /\ v1_dlen (v1_remove1 st s) = v1_dlen st /\ v1_load (v1_remove1 st s) s = RMissing /\
  forall s', slot_ok s' -> s' <> s -> v1_load (v1_remove1 st s) s' = v1_load st s'.
Proof.
  intros HI Hs. inst_w1 0 0 g_inv_remove X. destruct (X st s HI Hs) as [HI' [Hl [Hr Ho]]].
  change (v1_WInv (v1_remove1 st s)) in HI'. splits; auto.
  - rewrite v1_load_rec_w by assumption. now rewrite Hr.
  - intros s' Hs' Hne. rewrite !v1_load_rec_w by assumption. now rewrite Ho.
Qed.

Theorem v1_w_history ops st :
  v1_WInv st -> Forall (op_ok two32) ops -> v1_dlen st + ops_bytes ops < two40 ->
  exists st', fold_left v1_step ops (Some st) = Some st' /\ v1_WInv st' /\ v1_dlen st' = v1_dlen st + ops_bytes ops.
Proof. intros HI Hf Hg. inst_w1 0 0 g_history_inv X. exact (X ops st HI Hf Hg). Qed.

Theorem v1_w_defrag c r st : v1_WInv st -> v1_dlen st < two40 ->
  exists o, v1_defrag c r st = Some o /\
    (forall s, slot_ok s -> g_load_opt v1st v1_load o s = v1_load st s) /\
    (forall st', o = Some st' -> v1_WInv st' /\ v1_dlen st' <= v1_dlen st).
Proof.
  intros HI Hg. inst_w1 c r g_defrag_spec X. destruct (X st HI Hg) as [o [E [Hl [Hs _]]]].
  exists o. splits; auto. intros st' Hr. destruct (Hs st' Hr) as [HI' [_ ?]]. split; [exact HI'|assumption].
Qed.

Lemma v1_w_defrag_k (k : bkey) st : v1_WInv st -> v1_dlen st < two40 ->
  exists o, (let '(_, c, r) := k in v1_defrag c r) st = Some o /\
    (forall s, slot_ok s -> g_load_opt v1st v1_load o s = v1_load st s) /\
    (forall st', o = Some st' -> v1_WInv st' /\ v1_dlen st' <= v1_dlen st).
Proof. destruct k as [[z c] r]. exact (v1_w_defrag c r st). Qed.

Lemma v1_fresh_w k : v1_WInv (v1_fresh k) /\ v1_dlen (v1_fresh k) = B1.
Proof. destruct (v1_fresh_ok k) as [H ?]. split; [now apply v1_Inv_weak|assumption]. Qed.

Ltac inst_cw1 lem X :=
  pose proof (lem v1st v1_load v1_store1 v1_remove1 v1_fresh (fun k : bkey => let '(_, c, r) := k in v1_defrag c r)
                  v1_WInv v1_dlen B1 two32) as X;
  repeat first [specialize (X v1_w_store) | specialize (X v1_w_remove) | specialize (X v1_fresh_w)
               | specialize (X v1_w_defrag_k)].

Theorem v1c_w_history ops c b :
  B1 <= b -> cache_ok v1_WInv v1_dlen b c -> Forall (cop_ok two32) ops -> b + cops_bytes ops < two40 ->
  exists c', fold_left (c_step v1st v1_store1 v1_remove1 v1_fresh) ops (Some c) = Some c' /\
             cache_ok v1_WInv v1_dlen (b + cops_bytes ops) c'.
Proof. inst_cw1 c_history_ok X. exact (X ops c b). Qed.

Theorem v1c_w_defrag skip c b : b < two40 -> cache_ok v1_WInv v1_dlen b c ->
  exists c', v1c_defrag skip c = Some c' /\
    (forall coord, v1c_load c' coord = v1c_load c coord) /\
    cache_ok v1_WInv v1_dlen b c' /\
    (forall k st', In (k, st') c' -> exists st, In (k, st) c /\ v1_dlen st' <= v1_dlen st).
Proof. inst_cw1 c_defrag_ok X. exact (X skip c b). Qed.
