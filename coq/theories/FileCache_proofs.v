(* C05  The file cache with symlinked / hardlinked single-colour tiles refines the abstract map. *)
From Coq Require Import ZArith NArith List Bool String Ascii Arith Lia.
Import ListNotations.
From MP Require Import Base Gen_path CacheMap CacheMap_proofs CachePath_proofs FileCache.
Local Open Scope Z_scope.

(* ------------------------------------------------------------------ the file system map *)
Lemma path_eqb_refl : forall p, path_eqb p p = true.
Proof. intros. apply path_eqb_eq. reflexivity. Qed.

Lemma path_eqb_neq : forall p q, p <> q -> path_eqb p q = false.
Proof. intros p q H. destruct (path_eqb p q) eqn:E; [apply path_eqb_eq in E; contradiction | reflexivity]. Qed.

Lemma fs_get_del : forall s p q, fs_get (fs_del s p) q = if path_eqb p q then None else fs_get s q.
Proof.
  induction s as [|[r n] s IH]; intros p q; cbn [fs_del fs_get].
  - destruct (path_eqb p q); reflexivity.
  - destruct (path_eqb r p) eqn:E1.
    + apply path_eqb_eq in E1. subst r. rewrite IH. destruct (path_eqb p q); reflexivity.
    + cbn [fs_get]. rewrite IH. destruct (path_eqb r q) eqn:E2; [|reflexivity].
      apply path_eqb_eq in E2. subst r.
      destruct (path_eqb p q) eqn:E3; [|reflexivity].
      apply path_eqb_eq in E3. subst p. rewrite path_eqb_refl in E1. discriminate.
Qed.

Lemma fs_get_put : forall s p n q, fs_get (fs_put s p n) q = if path_eqb p q then Some n else fs_get s q.
Proof.
  intros. unfold fs_put. cbn [fs_get]. destruct (path_eqb p q) eqn:E; [reflexivity|].
  rewrite fs_get_del, E. reflexivity.
Qed.

(* ------------------------------------------------------------------ payloads and colours *)
Lemma forallb_eqb_repeat : forall c l, forallb (Z.eqb c) l = true -> l = repeat c (List.length l).
Proof.
  induction l as [|x l IH]; intros H; [reflexivity|]. cbn [forallb] in H. apply andb_true_iff in H.
  destruct H as [H1 H2]. apply Z.eqb_eq in H1. subst x. cbn [List.length repeat]. f_equal. apply IH. exact H2.
Qed.

(* two hex digits per colour component *)
Lemma hex2_length : forall n, 0 <= n < 256 -> List.length (h2 n) = 2%nat.
Proof.
  intros n H. unfold h2.
  assert (F : forallb (fun k => Nat.eqb (List.length (render_int pad_hex 2 (Z.of_nat k))) 2) (seq 0 256) = true) by (vm_compute; reflexivity).
  rewrite forallb_forall in F. specialize (F (Z.to_nat n)). rewrite Z2Nat.id in F by lia.
  apply Nat.eqb_eq. apply F. apply in_seq. lia.
Qed.

Lemma h2_inj : forall a b, 0 <= a -> 0 <= b -> h2 a = h2 b -> a = b.
Proof. intros a b Ha Hb E. unfold h2 in E. apply render_hex_inj in E; assumption. Qed.

(* a colour: an RGB value, or 2^32 + an RGBA value *)
Definition colour (k : Z) : Prop := 0 <= k < 16777216 \/ RGBA_TAG <= k < 2 * RGBA_TAG.

Lemma name3_inj : forall c1 c2, 0 <= c1 < 16777216 -> 0 <= c2 < 16777216 ->
  h2 (c1 / 65536) ++ h2 ((c1 / 256) mod 256) ++ h2 (c1 mod 256) =
  h2 (c2 / 65536) ++ h2 ((c2 / 256) mod 256) ++ h2 (c2 mod 256) -> c1 = c2.
Proof.
  intros c1 c2 H1 H2 E.
  assert (A1 : 0 <= c1 / 65536 < 256) by (split; [apply Z.div_pos; lia | apply Z.div_lt_upper_bound; lia]).
  assert (A2 : 0 <= c2 / 65536 < 256) by (split; [apply Z.div_pos; lia | apply Z.div_lt_upper_bound; lia]).
  assert (B1 : 0 <= (c1 / 256) mod 256 < 256) by (apply Z.mod_pos_bound; lia).
  assert (B2 : 0 <= (c2 / 256) mod 256 < 256) by (apply Z.mod_pos_bound; lia).
  assert (C1 : 0 <= c1 mod 256 < 256) by (apply Z.mod_pos_bound; lia).
  assert (C2 : 0 <= c2 mod 256 < 256) by (apply Z.mod_pos_bound; lia).
  apply app_len_inj in E; [|rewrite !hex2_length by assumption; reflexivity]. destruct E as [E1 E].
  apply app_len_inj in E; [|rewrite !hex2_length by assumption; reflexivity]. destruct E as [E2 E3].
  apply h2_inj in E1; try lia. apply h2_inj in E2; try lia. apply h2_inj in E3; try lia.
  assert (Q : forall a, a / 65536 = a / 256 / 256) by (intros; rewrite Z.div_div by lia; reflexivity).
  rewrite !Q in E1.
  rewrite (Z.div_mod c1 256), (Z.div_mod c2 256) by lia.
  rewrite (Z.div_mod (c1 / 256) 256), (Z.div_mod (c2 / 256) 256) by lia.
  rewrite E1, E2, E3. reflexivity.
Qed.

Lemma name4_inj : forall c1 c2, 0 <= c1 < RGBA_TAG -> 0 <= c2 < RGBA_TAG ->
  h2 (c1 / 16777216) ++ h2 ((c1 / 65536) mod 256) ++ h2 ((c1 / 256) mod 256) ++ h2 (c1 mod 256) =
  h2 (c2 / 16777216) ++ h2 ((c2 / 65536) mod 256) ++ h2 ((c2 / 256) mod 256) ++ h2 (c2 mod 256) -> c1 = c2.
Proof.
  unfold RGBA_TAG. intros c1 c2 H1 H2 E.
  assert (A1 : 0 <= c1 / 16777216 < 256) by (split; [apply Z.div_pos; lia | apply Z.div_lt_upper_bound; lia]).
  assert (A2 : 0 <= c2 / 16777216 < 256) by (split; [apply Z.div_pos; lia | apply Z.div_lt_upper_bound; lia]).
  assert (B1 : 0 <= (c1 / 65536) mod 256 < 256) by (apply Z.mod_pos_bound; lia).
  assert (B2 : 0 <= (c2 / 65536) mod 256 < 256) by (apply Z.mod_pos_bound; lia).
  assert (C1 : 0 <= (c1 / 256) mod 256 < 256) by (apply Z.mod_pos_bound; lia).
  assert (C2 : 0 <= (c2 / 256) mod 256 < 256) by (apply Z.mod_pos_bound; lia).
  assert (D1 : 0 <= c1 mod 256 < 256) by (apply Z.mod_pos_bound; lia).
  assert (D2 : 0 <= c2 mod 256 < 256) by (apply Z.mod_pos_bound; lia).
  apply app_len_inj in E; [|rewrite !hex2_length by assumption; reflexivity]. destruct E as [E1 E].
  apply app_len_inj in E; [|rewrite !hex2_length by assumption; reflexivity]. destruct E as [E2 E].
  apply app_len_inj in E; [|rewrite !hex2_length by assumption; reflexivity]. destruct E as [E3 E4].
  apply h2_inj in E1; try lia. apply h2_inj in E2; try lia. apply h2_inj in E3; try lia. apply h2_inj in E4; try lia.
  assert (Q1 : forall a, a / 65536 = a / 256 / 256) by (intros; rewrite Z.div_div by lia; reflexivity).
  assert (Q2 : forall a, a / 16777216 = a / 256 / 256 / 256) by (intros; rewrite !Z.div_div by lia; reflexivity).
  rewrite !Q2 in E1. rewrite !Q1 in E2.
  rewrite (Z.div_mod c1 256), (Z.div_mod c2 256) by lia.
  rewrite (Z.div_mod (c1 / 256) 256), (Z.div_mod (c2 / 256) 256) by lia.
  rewrite (Z.div_mod (c1 / 256 / 256) 256), (Z.div_mod (c2 / 256 / 256) 256) by lia.
  rewrite E1, E2, E3, E4. reflexivity.
Qed.

Lemma name3_length : forall c, 0 <= c < 16777216 ->
  List.length (h2 (c / 65536) ++ h2 ((c / 256) mod 256) ++ h2 (c mod 256)) = 6%nat.
Proof.
  intros c H. rewrite !app_length, !hex2_length; [reflexivity | | |].
  - apply Z.mod_pos_bound; lia.
  - apply Z.mod_pos_bound; lia.
  - split; [apply Z.div_pos; lia | apply Z.div_lt_upper_bound; lia].
Qed.

Lemma name4_length : forall c, 0 <= c < RGBA_TAG ->
  List.length (h2 (c / 16777216) ++ h2 ((c / 65536) mod 256) ++ h2 ((c / 256) mod 256) ++ h2 (c mod 256)) = 8%nat.
Proof.
  unfold RGBA_TAG. intros c H. rewrite !app_length, !hex2_length; [reflexivity | | | |].
  - apply Z.mod_pos_bound; lia.
  - apply Z.mod_pos_bound; lia.
  - apply Z.mod_pos_bound; lia.
  - split; [apply Z.div_pos; lia | apply Z.div_lt_upper_bound; lia].
Qed.

(* different colours (also an RGB and an RGBA colour, also two fully transparent colours) have different names *)
Lemma color_name_inj : forall k1 k2, colour k1 -> colour k2 -> color_name k1 = color_name k2 -> k1 = k2.
Proof.
  unfold colour, color_name. intros k1 k2 H1 H2 E. unfold RGBA_TAG in *.
  destruct (Z.ltb_spec k1 4294967296); destruct (Z.ltb_spec k2 4294967296).
  - apply name3_inj; [lia | lia | exact E].
  - exfalso. apply (f_equal (@List.length _)) in E.
    rewrite name3_length in E by lia. rewrite name4_length in E by (unfold RGBA_TAG; lia). discriminate.
  - exfalso. apply (f_equal (@List.length _)) in E.
    rewrite name3_length in E by lia. rewrite name4_length in E by (unfold RGBA_TAG; lia). discriminate.
  - assert (k1 - 4294967296 = k2 - 4294967296); [|lia].
    apply name4_inj; [unfold RGBA_TAG; lia | unfold RGBA_TAG; lia | exact E].
Qed.

Lemma sc_path_inj : forall ext c1 c2, colour c1 -> colour c2 -> sc_path ext c1 = sc_path ext c2 -> c1 = c2.
Proof.
  unfold sc_path. intros ext c1 c2 H1 H2 E. injection E as E.
  apply app_inv_tail in E. apply color_name_inj; assumption.
Qed.

(* ------------------------------------------------------------------ single_color_dir_disjoint *)
(* the directory of the single-colour tiles is not the first component of any tile path of the six layouts:
   a dimension component contains '-', a level directory / quadkey file starts with a digit or 'L' ... *)
Definition first_comp_not_sc (p : path) : Prop := forall r, p <> sc_dir :: r.

Lemma sc_path_first : forall ext c, exists r, sc_path ext c = sc_dir :: r.
Proof. intros. eexists. reflexivity. Qed.

(* ------------------------------------------------------------------ inode numbers *)
Lemma max_ino_ge : forall s p i b, fs_get s p = Some (NFile i b) -> (i <= fs_max_ino s)%nat.
Proof.
  induction s as [|[q n] s IH]; intros p i b E; cbn [fs_get fs_max_ino] in *; [discriminate|].
  destruct (path_eqb q p).
  - injection E as ->. lia.
  - specialize (IH p i b E). destruct n; lia.
Qed.

Lemma fresh_not_used : forall s p b, fs_get s p <> Some (NFile (fs_fresh s) b).
Proof. intros s p b E. apply max_ino_ge in E. unfold fs_fresh in E. lia. Qed.

(* ------------------------------------------------------------------ refinement *)
Section FileRefine.
  Variable layout : layout_fun.
  Variable ext : string.
  Variable link : link_mode.
  Variable V : addr -> Prop.
  Variable npix : nat.

  Notation loc := (floc layout ext).
  Notation scp := (sc_path ext).

  Hypothesis Hinj : forall a b, V a -> V b -> loc a = loc b -> a = b.
  Hypothesis Hdisj : forall a c, V a -> loc a <> scp c.

  (* payloads: channel count (3 = RGB, 4 = RGBA) and the npix pixel values of a tile, in the range of the mode *)
  Definition in_range (hi c : Z) : bool := (0 <=? c) && (c <? hi).
  Definition payload_okb (b : bytes) : bool :=
    match b with
    | ch :: px => Nat.eqb (List.length px) npix &&
                  (((ch =? 3) && forallb (in_range 16777216) px) || ((ch =? 4) && forallb (in_range RGBA_TAG) px))
    | [] => false
    end.
  Definition payload_ok (b : bytes) : Prop := payload_okb b = true.

  Definition fop_ok (o : op) : Prop :=
    op_ok V o /\
    match o with
    | Store _ b => payload_ok b
    | StoreMany l => Forall payload_ok (map snd l)
    | _ => True
    end.

  (* the single-colour tile of a colour *)
  Definition canon (k : Z) : bytes :=
    if k <? RGBA_TAG then 3 :: repeat k npix else 4 :: repeat (k - RGBA_TAG) npix.

  Lemma mono_payload : forall b k, payload_ok b -> mono b = Some k -> colour k /\ b = canon k.
  Proof.
    unfold payload_ok, payload_okb, mono, canon, colour, in_range. intros [|ch [|c r]] k H M; try discriminate.
    destruct (forallb (Z.eqb c) r) eqn:F; [|discriminate]. apply forallb_eqb_repeat in F.
    apply andb_true_iff in H. destruct H as [L H]. apply Nat.eqb_eq in L. cbn [List.length] in L.
    assert (R : c :: r = repeat c npix) by (rewrite <- L; cbn [repeat]; f_equal; exact F).
    assert (Hd : forall hi, forallb (fun c0 => (0 <=? c0) && (c0 <? hi)) (c :: r) = true -> 0 <= c < hi).
    { intros hi Q. cbn [forallb] in Q. apply andb_true_iff in Q. destruct Q as [Q _].
      apply andb_true_iff in Q. destruct Q as [Q1 Q2]. apply Z.leb_le in Q1. apply Z.ltb_lt in Q2. split; assumption. }
    apply orb_true_iff in H. destruct H as [H|H]; apply andb_true_iff in H; destruct H as [C H];
      apply Z.eqb_eq in C; subst ch; apply Hd in H.
    - change (3 =? 4) with false in M. cbv iota in M.
      apply (f_equal (fun o : option Z => match o with Some v => v | None => 0 end)) in M. cbv beta iota in M. subst k. split; [left; exact H|].
      destruct (Z.ltb_spec c RGBA_TAG) as [_|B]; [f_equal; exact R|]. exfalso. unfold RGBA_TAG in B. lia.
    - change (4 =? 4) with true in M. cbv iota in M.
      apply (f_equal (fun o : option Z => match o with Some v => v | None => 0 end)) in M. cbv beta iota in M. subst k. split; [right; unfold RGBA_TAG in *; lia|].
      destruct (Z.ltb_spec (RGBA_TAG + c) RGBA_TAG) as [B|_]; [exfalso; lia|].
      replace (RGBA_TAG + c - RGBA_TAG) with c by lia. f_equal. exact R.
  Qed.

  Record Inv (s : fs) : Prop := {
    inv_sc : forall c n, colour c -> fs_get s (scp c) = Some n -> exists i, n = NFile i (canon c);
    inv_sym : forall a t, V a -> fs_get s (loc a) = Some (NSym t) ->
                          exists c i, colour c /\ t = scp c /\ fs_get s t = Some (NFile i (canon c));
    (* directory entries with the same inode number have the same content *)
    inv_ino : forall p q i b1 b2, fs_get s p = Some (NFile i b1) -> fs_get s q = Some (NFile i b2) -> b1 = b2
  }.

  Definition frel (s : fs) (m : smap) : Prop := forall a, V a -> fs_read s (loc a) = m a.

  (* inode and content of a tile path: at most one link *)
  Lemma stat_loc : forall s a, Inv s -> V a ->
    fs_stat s (loc a) =
    match fs_get s (loc a) with
    | Some (NFile i b) => Some (i, b)
    | Some (NSym t) => match fs_get s t with Some (NFile i b) => Some (i, b) | _ => None end
    | None => None
    end.
  Proof.
    intros s a Hi Va. unfold fs_stat. cbn [fs_resolve].
    destruct (fs_get s (loc a)) as [[i b|t]|] eqn:E; try reflexivity.
    destruct (inv_sym s Hi a t Va E) as [c [i [Hc [-> E2]]]]. rewrite E2. reflexivity.
  Qed.

  Lemma stat_file : forall s p i b, fs_get s p = Some (NFile i b) -> fs_stat s p = Some (i, b).
  Proof. intros s p i b E. unfold fs_stat. cbn [fs_resolve]. rewrite E. reflexivity. Qed.

  Lemma read_file : forall s p i b, fs_get s p = Some (NFile i b) -> fs_read s p = Some b.
  Proof. intros s p i b E. unfold fs_read. rewrite (stat_file _ _ _ _ E). reflexivity. Qed.

  Lemma stat_none : forall s p, fs_get s p = None -> fs_stat s p = None.
  Proof. intros s p E. unfold fs_stat. cbn [fs_resolve]. rewrite E. reflexivity. Qed.

  Lemma read_none : forall s p, fs_get s p = None -> fs_read s p = None.
  Proof. intros s p E. unfold fs_read. rewrite (stat_none _ _ E). reflexivity. Qed.

  (* a state change that leaves alone: the entry of b's path and every single-colour file that exists *)
  Lemma read_preserved : forall s s' b, Inv s -> V b ->
    fs_get s' (loc b) = fs_get s (loc b) ->
    (forall c n, colour c -> fs_get s (scp c) = Some n -> fs_get s' (scp c) = Some n) ->
    Inv s' -> fs_read s' (loc b) = fs_read s (loc b).
  Proof.
    intros s s' b Hi Vb E Hsc Hi'. unfold fs_read. rewrite (stat_loc s' b Hi' Vb), (stat_loc s b Hi Vb). rewrite E.
    destruct (fs_get s (loc b)) as [[i x|t]|] eqn:G; try reflexivity.
    destruct (inv_sym s Hi b t Vb G) as [c [i [Hc [-> E2]]]]. rewrite E2. rewrite (Hsc c _ Hc E2). reflexivity.
  Qed.

  Definition plain_base (s : fs) (p : path) : fs := if fs_islink s p then fs_del s p else s.

  Lemma base_get : forall s p q, fs_get (plain_base s p) q = fs_get s q \/ fs_get (plain_base s p) q = None.
  Proof.
    intros. unfold plain_base. destruct (fs_islink s p); [|left; reflexivity].
    rewrite fs_get_del. destruct (path_eqb p q); [right | left]; reflexivity.
  Qed.

  Lemma get_plain : forall s p b q,
    fs_get (fstore_plain s p b) q = if path_eqb p q then Some (NFile (fs_fresh (plain_base s p)) b) else fs_get s q.
  Proof.
    intros. unfold fstore_plain. fold (plain_base s p). rewrite fs_get_put.
    destruct (path_eqb p q) eqn:E; [reflexivity|].
    unfold plain_base. destruct (fs_islink s p); [|reflexivity]. rewrite fs_get_del, E. reflexivity.
  Qed.

  (* the inode of a freshly written file is not the inode of any other entry *)
  Lemma plain_fresh : forall s p q i b, fs_get s q = Some (NFile i b) -> p <> q -> i <> fs_fresh (plain_base s p).
  Proof.
    intros s p q i b E N ->.
    assert (G : fs_get (plain_base s p) q = Some (NFile (fs_fresh (plain_base s p)) b)).
    { unfold plain_base in *. destruct (fs_islink s p); [|exact E].
      rewrite fs_get_del. rewrite path_eqb_neq by exact N. exact E. }
    exact (fresh_not_used _ _ _ G).
  Qed.

  Lemma loc_neq : forall a b, V a -> V b -> a <> b -> loc a <> loc b.
  Proof. intros a b Va Vb N E. apply N. apply Hinj; assumption. Qed.

  (* writing a new file at p (p a tile path or a missing single-colour path) keeps the inode invariant *)
  Lemma plain_ino : forall s p b, Inv s ->
    forall q1 q2 i b1 b2, fs_get (fstore_plain s p b) q1 = Some (NFile i b1) ->
                          fs_get (fstore_plain s p b) q2 = Some (NFile i b2) -> b1 = b2.
  Proof.
    intros s p b Hi q1 q2 i b1 b2 E1 E2. rewrite get_plain in E1, E2.
    destruct (path_eqb p q1) eqn:P1; destruct (path_eqb p q2) eqn:P2.
    - injection E1 as <- <-. injection E2 as <-. reflexivity.
    - injection E1 as <- <-. exfalso.
      assert (N : p <> q2) by (intros ->; rewrite path_eqb_refl in P2; discriminate).
      exact (plain_fresh s p q2 _ b2 E2 N eq_refl).
    - injection E2 as <- <-. exfalso.
      assert (N : p <> q1) by (intros ->; rewrite path_eqb_refl in P1; discriminate).
      exact (plain_fresh s p q1 _ b1 E1 N eq_refl).
    - exact (inv_ino s Hi q1 q2 i b1 b2 E1 E2).
  Qed.

  (* ---- plain store *)
  Lemma plain_inv : forall s a b, Inv s -> V a -> Inv (fstore_plain s (loc a) b).
  Proof.
    intros s a b Hi Va. constructor.
    - intros c n Hc E. rewrite get_plain in E. rewrite path_eqb_neq in E by (apply Hdisj; assumption).
      eapply inv_sc; eassumption.
    - intros a' t Va' E. rewrite get_plain in E.
      destruct (path_eqb (loc a) (loc a')) eqn:P; [discriminate|].
      destruct (inv_sym s Hi a' t Va' E) as [c [i [Hc [-> E2]]]]. exists c, i. split; [assumption | split; [reflexivity|]].
      rewrite get_plain. rewrite path_eqb_neq by (apply Hdisj; assumption). exact E2.
    - apply plain_ino. exact Hi.
  Qed.

  Lemma plain_rel : forall s m a b, Inv s -> V a -> frel s m -> frel (fstore_plain s (loc a) b) (supd m a (Some b)).
  Proof.
    intros s m a b Hi Va Hr a' Va'. unfold supd. destruct (addr_eqb a' a) eqn:E.
    - apply addr_eqb_eq in E. subst a'. eapply read_file. rewrite get_plain, path_eqb_refl. reflexivity.
    - assert (N : a <> a') by (intros ->; rewrite addr_eqb_refl in E; discriminate).
      rewrite <- (Hr a' Va'). apply read_preserved; try assumption.
      + rewrite get_plain. rewrite path_eqb_neq by (apply loc_neq; assumption). reflexivity.
      + intros c n Hc G. rewrite get_plain. rewrite path_eqb_neq by (apply Hdisj; assumption). exact G.
      + apply plain_inv; assumption.
  Qed.

  (* ---- single-colour store *)
  Lemma exists_iff_get : forall s c, Inv s -> colour c ->
    fs_exists s (scp c) = is_some (fs_get s (scp c)).
  Proof.
    intros s c Hi Hc. unfold fs_exists. destruct (fs_get s (scp c)) as [n|] eqn:E.
    - destruct (inv_sc s Hi c n Hc E) as [i ->]. rewrite (stat_file _ _ _ _ E). reflexivity.
    - rewrite (stat_none _ _ E). reflexivity.
  Qed.

  (* first step: the single-colour file of c exists afterwards with the canonical content, nothing else changed *)
  Definition ensure_sc (s : fs) (b : bytes) (c : Z) : fs :=
    if fs_exists s (scp c) then s else fstore_plain s (scp c) b.

  Lemma ensure_get : forall s b c, Inv s -> colour c -> b = canon c ->
    exists i0, forall q,
      fs_get (ensure_sc s b c) q = if path_eqb (scp c) q then Some (NFile i0 (canon c)) else fs_get s q.
  Proof.
    intros s b c Hi Hc ->. unfold ensure_sc. rewrite exists_iff_get by assumption.
    destruct (fs_get s (scp c)) as [n|] eqn:E; cbn [is_some].
    - destruct (inv_sc s Hi c n Hc E) as [i ->]. exists i. intros q.
      destruct (path_eqb (scp c) q) eqn:P; [|reflexivity]. apply path_eqb_eq in P. subst q. exact E.
    - eexists. intros q. apply get_plain.
  Qed.

  Lemma ensure_inv : forall s b c, Inv s -> colour c -> b = canon c -> Inv (ensure_sc s b c).
  Proof.
    intros s b c Hi Hc Hb. destruct (ensure_get s b c Hi Hc Hb) as [i0 G]. constructor.
    - intros c' n Hc' E. rewrite G in E. destruct (path_eqb (scp c) (scp c')) eqn:P.
      + apply path_eqb_eq in P. apply sc_path_inj in P; try assumption. subst c'. injection E as <-. eexists. reflexivity.
      + eapply inv_sc; eassumption.
    - intros a t Va E. rewrite G in E. rewrite path_eqb_neq in E by (intros Q; symmetry in Q; revert Q; apply Hdisj; assumption).
      destruct (inv_sym s Hi a t Va E) as [c' [i [Hc' [-> E2]]]].
      rewrite G. destruct (path_eqb (scp c) (scp c')) eqn:P.
      + apply path_eqb_eq in P. apply sc_path_inj in P; try assumption. subst c'. exists c, i0. split; [assumption | split; reflexivity].
      + exists c', i. split; [assumption | split; [reflexivity | exact E2]].
    - unfold ensure_sc. destruct (fs_exists s (scp c)); [apply (inv_ino s Hi) | apply plain_ino; exact Hi].
  Qed.

  Lemma ensure_keeps : forall s b c q n, Inv s -> colour c -> b = canon c ->
    fs_get s q = Some n -> fs_get (ensure_sc s b c) q = Some n.
  Proof.
    intros s b c q n Hi Hc Hb E. unfold ensure_sc. rewrite exists_iff_get by assumption.
    destruct (fs_get s (scp c)) as [n'|] eqn:E'; cbn [is_some]; [exact E|].
    rewrite get_plain. destruct (path_eqb (scp c) q) eqn:P; [|exact E].
    apply path_eqb_eq in P. subst q. rewrite E in E'. discriminate.
  Qed.

  Lemma ensure_loc : forall s b c a, Inv s -> colour c -> b = canon c -> V a ->
    fs_get (ensure_sc s b c) (loc a) = fs_get s (loc a).
  Proof.
    intros s b c a Hi Hc Hb Va. destruct (ensure_get s b c Hi Hc Hb) as [i0 G]. rewrite G.
    rewrite path_eqb_neq by (intros Q; symmetry in Q; revert Q; apply Hdisj; assumption). reflexivity.
  Qed.

  Lemma ensure_rel : forall s m b c, Inv s -> colour c -> b = canon c -> frel s m -> frel (ensure_sc s b c) m.
  Proof.
    intros s m b c Hi Hc Hb Hr a Va. rewrite <- (Hr a Va). apply read_preserved; try assumption.
    - apply ensure_loc; assumption.
    - intros c' n Hc' G. apply ensure_keeps; assumption.
    - apply ensure_inv; assumption.
  Qed.

  Definition mono_node (i0 : nat) (c : Z) : node := match link with LHard => NFile i0 (canon c) | _ => NSym (scp c) end.

  Lemma mono_node_cases : forall i0 c, link <> LNone ->
    mono_node i0 c = NFile i0 (canon c) \/ mono_node i0 c = NSym (scp c).
  Proof. intros i0 c H. unfold mono_node. destruct link; [contradiction | right | left]; reflexivity. Qed.

  Lemma link_cases : link = LNone \/ link <> LNone.
  Proof. destruct link; [left; reflexivity | right; discriminate | right; discriminate]. Qed.

  Lemma fstore_linked : forall s a b, link <> LNone ->
    fstore layout ext link s a b =
    match mono b with Some c => fstore_mono ext link s (loc a) b c | None => fstore_plain s (loc a) b end.
  Proof. intros s a b H. unfold fstore, fstore_at. destruct link; [contradiction | reflexivity | reflexivity]. Qed.

  Lemma fstore_unlinked : forall s a b, link = LNone -> fstore layout ext link s a b = fstore_plain s (loc a) b.
  Proof. intros s a b H. unfold fstore, fstore_at. rewrite H. reflexivity. Qed.

  (* second step on a state s1 in which the single-colour file exists *)
  Definition link_step (s1 : fs) (p : path) (c : Z) : fs :=
    match link with
    | LHard => if fs_exists s1 p && fs_samefile s1 (scp c) p then s1
               else match fs_get s1 (scp c) with Some n => fs_put s1 p n | None => s1 end
    | _ => fs_put s1 p (NSym (scp c))
    end.

  Lemma fstore_mono_steps : forall s p b c, fstore_mono ext link s p b c = link_step (ensure_sc s b c) p c.
  Proof. intros. unfold fstore_mono, link_step, ensure_sc. destruct link; reflexivity. Qed.

  Lemma link_step_cases : forall s1 a c i0, Inv s1 -> V a -> colour c -> link <> LNone ->
    fs_get s1 (scp c) = Some (NFile i0 (canon c)) ->
    (link_step s1 (loc a) c = s1 /\ fs_read s1 (loc a) = Some (canon c)) \/
    (forall q, fs_get (link_step s1 (loc a) c) q = if path_eqb (loc a) q then Some (mono_node i0 c) else fs_get s1 q).
  Proof.
    intros s1 a c i0 Hi Va Hc Hl Gr. unfold link_step, mono_node.
    destruct link; [contradiction | right; intros q; apply fs_get_put |].
    destruct (fs_exists s1 (loc a) && fs_samefile s1 (scp c) (loc a)) eqn:S.
    - left. split; [reflexivity|]. apply andb_true_iff in S. destruct S as [_ S].
      unfold fs_samefile in S. rewrite (stat_file _ _ _ _ Gr) in S. unfold fs_read.
      rewrite (stat_loc s1 a Hi Va) in *.
      destruct (fs_get s1 (loc a)) as [[j x|t]|] eqn:G; try discriminate.
      + apply Nat.eqb_eq in S. subst j. f_equal. symmetry. exact (inv_ino s1 Hi _ _ _ _ _ Gr G).
      + destruct (inv_sym s1 Hi a t Va G) as [c' [j [Hc' [-> E2]]]]. rewrite E2 in *.
        apply Nat.eqb_eq in S. subst j. f_equal. symmetry. exact (inv_ino s1 Hi _ _ _ _ _ Gr E2).
    - right. intros q. rewrite Gr. apply fs_get_put.
  Qed.

  Lemma link_step_ok : forall s1 m a c i0, Inv s1 -> V a -> colour c -> link <> LNone ->
    fs_get s1 (scp c) = Some (NFile i0 (canon c)) -> frel s1 m ->
    Inv (link_step s1 (loc a) c) /\ frel (link_step s1 (loc a) c) (supd m a (Some (canon c))).
  Proof.
    intros s1 m a c i0 Hi Va Hc Hl Gr Hr.
    destruct (link_step_cases s1 a c i0 Hi Va Hc Hl Gr) as [[E R]|G].
    - rewrite E. split; [exact Hi|]. intros a' Va'. unfold supd. destruct (addr_eqb a' a) eqn:Q.
      + apply addr_eqb_eq in Q. subst a'. exact R.
      + apply Hr. exact Va'.
    - set (s' := link_step s1 (loc a) c) in *.
      assert (Gr' : fs_get s' (scp c) = Some (NFile i0 (canon c))).
      { rewrite G. rewrite path_eqb_neq by (apply Hdisj; assumption). exact Gr. }
      assert (Hi' : Inv s').
      { constructor.
        - intros c' n Hc' E. rewrite G in E. rewrite path_eqb_neq in E by (apply Hdisj; assumption).
          eapply inv_sc; eassumption.
        - intros a' t Va' E. rewrite G in E. destruct (path_eqb (loc a) (loc a')) eqn:P.
          + injection E as E. destruct (mono_node_cases i0 c Hl) as [Q|Q]; rewrite Q in E; [discriminate|].
            injection E as <-. exists c, i0. split; [assumption | split; [reflexivity | exact Gr']].
          + destruct (inv_sym s1 Hi a' t Va' E) as [c' [i [Hc' [-> E2]]]]. exists c', i.
            split; [assumption | split; [reflexivity|]].
            rewrite G. rewrite path_eqb_neq by (apply Hdisj; assumption). exact E2.
        - intros q1 q2 i b1 b2 E1 E2. rewrite G in E1, E2.
          destruct (mono_node_cases i0 c Hl) as [Q|Q]; rewrite Q in *;
            destruct (path_eqb (loc a) q1) eqn:P1; destruct (path_eqb (loc a) q2) eqn:P2;
            try discriminate; try (exact (inv_ino s1 Hi _ _ _ _ _ E1 E2)).
          + injection E1 as <- <-. injection E2 as <-. reflexivity.
          + injection E1 as <- <-. exact (inv_ino s1 Hi _ _ _ _ _ Gr E2).
          + injection E2 as <- <-. symmetry. exact (inv_ino s1 Hi _ _ _ _ _ Gr E1). }
      split; [exact Hi'|]. intros a' Va'. unfold supd. destruct (addr_eqb a' a) eqn:Q.
      + apply addr_eqb_eq in Q. subst a'. unfold fs_read. rewrite (stat_loc s' a Hi' Va).
        rewrite G, path_eqb_refl. destruct (mono_node_cases i0 c Hl) as [Q|Q]; rewrite Q; [reflexivity|].
        rewrite Gr'. reflexivity.
      + assert (N : a <> a') by (intros ->; rewrite addr_eqb_refl in Q; discriminate).
        rewrite <- (Hr a' Va'). apply read_preserved; try assumption.
        * rewrite G. rewrite path_eqb_neq by (apply loc_neq; assumption). reflexivity.
        * intros c' n Hc' E. rewrite G. rewrite path_eqb_neq by (apply Hdisj; assumption). exact E.
  Qed.

  Lemma mono_ok : forall s m a b c, Inv s -> V a -> colour c -> b = canon c -> link <> LNone -> frel s m ->
    Inv (fstore_mono ext link s (loc a) b c) /\ frel (fstore_mono ext link s (loc a) b c) (supd m a (Some b)).
  Proof.
    intros s m a b c Hi Va Hc Hb Hl Hr. rewrite fstore_mono_steps.
    destruct (ensure_get s b c Hi Hc Hb) as [i0 G].
    assert (Gr : fs_get (ensure_sc s b c) (scp c) = Some (NFile i0 (canon c))) by (rewrite G, path_eqb_refl; reflexivity).
    rewrite Hb at 3. apply (link_step_ok _ m a c i0); try assumption.
    - apply ensure_inv; assumption.
    - apply ensure_rel; assumption.
  Qed.

  (* ---- store_tile *)
  Lemma fstore_ok : forall s m a b, Inv s -> V a -> payload_ok b -> frel s m ->
    Inv (fstore layout ext link s a b) /\ frel (fstore layout ext link s a b) (supd m a (Some b)).
  Proof.
    intros s m a b Hi Va Hp Hr.
    destruct link_cases as [L|L].
    - rewrite fstore_unlinked by exact L. split; [apply plain_inv | apply plain_rel]; assumption.
    - rewrite fstore_linked by exact L. destruct (mono b) as [c|] eqn:M.
      + destruct (mono_payload b c Hp M) as [Hc Hb]. apply mono_ok; assumption.
      + split; [apply plain_inv | apply plain_rel]; assumption.
  Qed.

  Lemma fstore_fold_ok : forall (l : list (addr * bytes)) s m,
    Forall V (map fst l) -> Forall payload_ok (map snd l) -> Inv s -> frel s m ->
    Inv (fold_left (fun s ab => fstore layout ext link s (fst ab) (snd ab)) l s) /\
    frel (fold_left (fun s ab => fstore layout ext link s (fst ab) (snd ab)) l s)
         (fold_left (fun m ab => supd m (fst ab) (Some (snd ab))) l m).
  Proof.
    induction l as [|[a b] l IH]; intros s m Hv Hp Hi Hr; cbn [fold_left]; [split; assumption|].
    cbn [map fst snd] in *. inversion Hv; inversion Hp; subst.
    destruct (fstore_ok s m a b) as [Hi' Hr']; try assumption.
    apply IH; assumption.
  Qed.

  (* ---- remove_tile *)
  Lemma remove_ok : forall s m a, Inv s -> V a -> frel s m ->
    Inv (fs_del s (loc a)) /\ frel (fs_del s (loc a)) (supd m a None).
  Proof.
    intros s m a Hi Va Hr.
    assert (Hi' : Inv (fs_del s (loc a))).
    { constructor.
      - intros c n Hc E. rewrite fs_get_del in E. rewrite path_eqb_neq in E by (apply Hdisj; assumption).
        eapply inv_sc; eassumption.
      - intros a' t Va' E. rewrite fs_get_del in E. destruct (path_eqb (loc a) (loc a')); [discriminate|].
        destruct (inv_sym s Hi a' t Va' E) as [c [i [Hc [-> E2]]]]. exists c, i. split; [assumption | split; [reflexivity|]].
        rewrite fs_get_del. rewrite path_eqb_neq by (apply Hdisj; assumption). exact E2.
      - intros q1 q2 i b1 b2 E1 E2. rewrite fs_get_del in E1, E2.
        destruct (path_eqb (loc a) q1); [discriminate|]. destruct (path_eqb (loc a) q2); [discriminate|].
        exact (inv_ino s Hi _ _ _ _ _ E1 E2). }
    split; [exact Hi'|]. intros a' Va'. unfold supd. destruct (addr_eqb a' a) eqn:E.
    - apply addr_eqb_eq in E. subst a'. apply read_none. rewrite fs_get_del, path_eqb_refl. reflexivity.
    - assert (N : a <> a') by (intros ->; rewrite addr_eqb_refl in E; discriminate).
      rewrite <- (Hr a' Va'). apply read_preserved; try assumption.
      + rewrite fs_get_del. rewrite path_eqb_neq by (apply loc_neq; assumption). reflexivity.
      + intros c n Hc G. rewrite fs_get_del. rewrite path_eqb_neq by (apply Hdisj; assumption). exact G.
  Qed.

  Lemma file_step_refines : forall s m o, fop_ok o -> Inv s -> frel s m ->
    snd (file_step layout ext link s o) = snd (spec_step m o) /\
    Inv (fst (file_step layout ext link s o)) /\ frel (fst (file_step layout ext link s o)) (fst (spec_step m o)).
  Proof.
    intros s m o [Hok Hp] Hi Hr. unfold op_ok in Hok.
    destruct o as [a b|l|a|l|a|a]; cbn [file_step spec_step fst snd op_addrs] in *.
    - inversion Hok; subst. split; [reflexivity|]. apply fstore_ok; assumption.
    - split; [reflexivity|]. apply fstore_fold_ok; assumption.
    - inversion Hok; subst. unfold fload. rewrite (Hr a) by assumption. split; [reflexivity|]. split; assumption.
    - split; [|split; assumption]. f_equal. apply map_ext_in. intros a Ha. unfold fload.
      apply Hr. rewrite Forall_forall in Hok. apply Hok. exact Ha.
    - inversion Hok; subst.
      assert (X : fs_exists s (loc a) = is_some (fs_read s (loc a)))
        by (unfold fs_exists, fs_read; destruct (fs_stat s (loc a)) as [[i b]|]; reflexivity).
      rewrite X, (Hr a) by assumption. split; [reflexivity|]. split; assumption.
    - inversion Hok; subst. split; [reflexivity|]. apply remove_ok; assumption.
  Qed.

  Lemma file_run_refines : forall ops s m, Forall fop_ok ops -> Inv s -> frel s m ->
    snd (file_run layout ext link s ops) = snd (spec_run m ops) /\
    frel (fst (file_run layout ext link s ops)) (fst (spec_run m ops)).
  Proof.
    induction ops as [|o r IH]; intros s m Hok Hi Hr; cbn [file_run spec_run].
    - cbn [fst snd]. split; [reflexivity | assumption].
    - inversion Hok as [|? ? Ho Hrest]; subst.
      destruct (file_step_refines s m o Ho Hi Hr) as [E1 [Hi' Hr']].
      destruct (file_step layout ext link s o) as [s' x]. destruct (spec_step m o) as [m' x'].
      cbn [fst snd] in *. subst x'.
      destruct (IH s' m' Hrest Hi' Hr') as [E2 Hr''].
      destruct (file_run layout ext link s' r) as [s'' xs]. destruct (spec_run m' r) as [m'' xs'].
      cbn [fst snd] in *. subst xs'. split; [reflexivity | assumption].
  Qed.

  Theorem file_refines_spec : forall ops, Forall fop_ok ops ->
    snd (file_run layout ext link [] ops) = snd (spec_run sempty ops) /\
    (forall a, V a -> fs_read (fst (file_run layout ext link [] ops)) (loc a) = fst (spec_run sempty ops) a).
  Proof.
    intros ops Hok. apply file_run_refines; try assumption.
    - constructor; intros; cbn [fs_get] in *; discriminate.
    - intros a _. reflexivity.
  Qed.
End FileRefine.

(* ------------------------------------------------------------------ calls through a re-used Tile object *)
Section TileObject.
  Variable layout : layout_fun.
  Variable ext : string.
  Variable link : link_mode.

  Notation loc := (floc layout ext).
  Notation step := (tcall_step layout ext link).

  Definition tile_at (t : tile) (a : addr) : Prop :=
    t_coord t = (ax a, ay a, az a) /\ t_loc t = Some (loc a).

  (* the first call that needs the location fixes it from the dimensions of that call *)
  Lemma first_call_fixes_location : forall x y z d,
    t_location layout ext (new_tile x y z) d =
    (mkTile (x, y, z) (Some (loc (mkAddr x y z d))) None false, loc (mkAddr x y z d)).
  Proof. reflexivity. Qed.

  (* afterwards the dimensions of a call are ignored: the object stays at its address *)
  Lemma location_kept : forall t a d, tile_at t a -> t_location layout ext t d = (t, loc a).
  Proof. intros t a d [_ H]. unfold t_location. rewrite H. reflexivity. Qed.

  Lemma step_keeps_address : forall s t a c, tile_at t a -> tile_at (snd (fst (step s t c))) a.
  Proof.
    intros s t a c H. pose proof H as [Hc Hl]. destruct c as [d|d|d b|d|d b]; cbn [tcall_step].
    - destruct (t_src t); [exact H|]. rewrite (location_kept t a d H).
      destruct (fs_read s (loc a)); cbn [fst snd]; [split; assumption | exact H].
    - destruct (t_src t); [exact H|]. rewrite (location_kept t a d H). exact H.
    - cbn [t_stored]. destruct (t_stored t); cbn [fst snd]; [split; assumption|].
      rewrite (location_kept _ a d); [cbn [fst snd]; split; assumption | split; assumption].
    - rewrite (location_kept t a d H). exact H.
    - cbn [t_stored]. destruct (t_stored t); cbn [fst snd]; [split; assumption|].
      rewrite (location_kept _ a d) by (split; assumption).
      destruct link; [|destruct (mono b); [destruct (fs_exists s _)|] | destruct (mono b); [destruct (fs_exists s _)|]];
        cbn [fst snd]; split; assumption.
  Qed.

  (* a store / remove / load through the object acts on the address of the object, whatever dimensions are passed *)
  Theorem object_store_address : forall s t a d b, tile_at t a -> t_stored t = false ->
    fst (fst (step s t (TStore d b))) = fstore layout ext link s a b.
  Proof.
    intros s t a d b H Hs. cbn [tcall_step t_stored]. rewrite Hs.
    rewrite (location_kept _ a d); [reflexivity|]. destruct H. split; assumption.
  Qed.

  Theorem object_remove_address : forall s t a d, tile_at t a ->
    fst (fst (step s t (TRemove d))) = fs_del s (loc a).
  Proof. intros s t a d H. cbn [tcall_step]. rewrite (location_kept t a d H). reflexivity. Qed.

  Theorem object_load_address : forall s t a d, tile_at t a -> t_src t = None ->
    snd (step s t (TLoad d)) = Some (is_some (fload layout ext s a)) /\
    t_src (snd (fst (step s t (TLoad d)))) = fload layout ext s a.
  Proof.
    intros s t a d H Hs. cbn [tcall_step]. rewrite Hs, (location_kept t a d H). unfold fload.
    destruct (fs_read s (loc a)); cbn [fst snd t_src is_some]; split; try reflexivity. exact Hs.
  Qed.

  (* a store that failed leaves the object unstored: the retry through the same object writes *)
  Lemma failed_store_step : forall s t a d b, tile_at t a -> t_stored t = false -> link = LNone ->
    step s t (TStoreFail d b) =
    ((if fs_islink s (loc a) then fs_del s (loc a) else s), mkTile (t_coord t) (t_loc t) (Some b) false, Some false).
  Proof.
    intros s t a d b H Hs Hl. cbn [tcall_step t_stored]. rewrite Hs.
    rewrite (location_kept _ a d) by (destruct H; split; assumption). rewrite Hl, <- Hs. reflexivity.
  Qed.

  Theorem failed_store_then_retry_writes : forall s t a d b d' b', tile_at t a -> t_stored t = false ->
    link = LNone ->
    let '(s1, t1, r1) := step s t (TStoreFail d b) in
    r1 = Some false /\ t_stored t1 = false /\
    fst (fst (step s1 t1 (TStore d' b'))) = fstore layout ext link s1 a b'.
  Proof.
    intros s t a d b d' b' H Hs Hl. rewrite (failed_store_step s t a d b H Hs Hl).
    split; [reflexivity|]. split; [reflexivity|].
    apply object_store_address; [destruct H; split; assumption | reflexivity].
  Qed.

  (* the flow of the tile manager for a single tile: the tile object was looked up with the dimensions of the
     request (miss), then it is stored WITHOUT dimensions (TileCreator._create_single_tile): the store lands at the
     address with the dimensions of the request. *)
  Theorem lookup_then_store_without_dimensions : forall s x y z d b,
    fs_read s (loc (mkAddr x y z d)) = None ->
    let '(s1, t1, r1) := step s (new_tile x y z) (TLoad d) in
    r1 = Some false /\
    fst (fst (step s1 t1 (TStore [] b))) = fstore layout ext link s (mkAddr x y z d) b.
  Proof.
    intros s x y z d b Hm. cbn [tcall_step new_tile t_src]. rewrite first_call_fixes_location. rewrite Hm.
    split; [reflexivity|]. apply object_store_address; [split; reflexivity | reflexivity].
  Qed.
End TileObject.

Example tile_object_example :
  tcall_run tile_location_tc "png" LNone [] (new_tile 3 4 2)
            [TLoad (mk_dims [("time", "a")%string]); TStore [] [1; 2]; TCached (mk_dims [("time", "b")%string]); TRemove []] =
  let p := file_key tile_location_tc "png" (A 3 4 2 [("time", "a")%string]) in
  [(Some false, Some p, None, false); (None, Some p, Some [1; 2], true);
   (Some true, Some p, Some [1; 2], true); (None, Some p, Some [1; 2], true)].
Proof. vm_compute. reflexivity. Qed.

(* ------------------------------------------------------------------ the address is the dict of dimension values *)
(* Every single-address call of the file cache acts on tile_location(coord, dimensions) only; two dimension dicts with
   the same (distinct) keys and values in another insertion order give the same location (file_key_perm), hence the
   same effect and the same answer in every state. *)
Lemma file_step_dims_order : forall layout ext link s x y z d1 d2 b,
  Permutation.Permutation d1 d2 -> NoDup (map fst d1) ->
  let a1 := mkAddr x y z d1 in let a2 := mkAddr x y z d2 in
  file_step layout ext link s (Store a1 b) = file_step layout ext link s (Store a2 b) /\
  file_step layout ext link s (Load a1) = file_step layout ext link s (Load a2) /\
  file_step layout ext link s (IsCached a1) = file_step layout ext link s (IsCached a2) /\
  file_step layout ext link s (Remove a1) = file_step layout ext link s (Remove a2).
Proof.
  intros layout ext link s x y z d1 d2 b P Hn a1 a2.
  assert (E : floc layout ext a1 = floc layout ext a2) by (apply file_key_perm; assumption).
  cbn [file_step]. unfold fstore, fload. rewrite E. repeat split; reflexivity.
Qed.

(* store under one key order, load under another: the bytes just stored (whatever was there, any link mode), as far
   as a load of the first order returns them *)
Lemma store_then_load_other_dims_order : forall layout ext link s x y z d1 d2 b,
  Permutation.Permutation d1 d2 -> NoDup (map fst d1) ->
  fload layout ext (fstore layout ext link s (mkAddr x y z d1) b) (mkAddr x y z d2) =
  fload layout ext (fstore layout ext link s (mkAddr x y z d1) b) (mkAddr x y z d1).
Proof.
  intros. unfold fload. f_equal. symmetry. apply file_key_perm; assumption.
Qed.
