(* Lemmas about the model Cond.v (C20).  Property theorems are restated in props/P_C20.v. *)
From Coq Require Import ZArith List Bool Lia.
Import ListNotations.
From MP Require Import Base Cond.
Local Open Scope Z_scope.

(* ---- text equality ------------------------------------------------------------------------------------ *)
Lemma str_eqb_eq : forall a b : str, str_eqb a b = true <-> a = b.
Proof.
  unfold str_eqb. induction a as [|x a IH]; destruct b as [|y b]; cbn [list_eqb]; split; intro H;
    try reflexivity; try discriminate.
  - apply andb_true_iff in H. destruct H as [H1 H2]. apply Z.eqb_eq in H1. apply IH in H2. subst. reflexivity.
  - inversion H; subst. rewrite Z.eqb_refl. cbn. apply IH. reflexivity.
Qed.

Lemma str_eqb_refl : forall a, str_eqb a a = true.
Proof. intro a. apply str_eqb_eq. reflexivity. Qed.

Lemma etag_matches_iff : forall e inm, etag_matches e inm = true <-> exists a, e = Some a /\ inm = Some a.
Proof.
  intros [a|] [b|]; cbn [etag_matches]; split; intro H; try discriminate;
    try (destruct H as [x [H1 H2]]; discriminate).
  - apply str_eqb_eq in H. subst. exists b. split; reflexivity.
  - destruct H as [x [H1 H2]]. inversion H1; inversion H2; subst. apply str_eqb_refl.
Qed.

(* ---- what a cacheable tile is answered with ---------------------------------------------------------- *)
(* the ETag of tile metadata: md5 of str(timestamp) ++ str(size) *)
Definition etag_of (h : str -> str) (ti : tinfo) : str :=
  h (concat [str_ts (ti_ts ti); str_size (ti_size ti)]).

Definition lastmod_of (tps : Z) (t : option stamp) : option Z :=
  match t with Some s => if st_ticks s =? 0 then None else Some (st_ticks s / tps) | None => None end.
Definition rts_of (t : option stamp) : option Z :=
  match t with Some s => if st_ticks s =? 0 then None else Some (st_ticks s) | None => None end.

(* the full (200) answer for a cacheable tile *)
Definition full_resp (h : str -> str) (tps : Z) (max_age : option Z) (ti : tinfo) (body : Z) : resp :=
  {| r_status := 200; r_body := Some body; r_ctype := true; r_etag := Some (etag_of h ti);
     r_lastmod := lastmod_of tps (ti_ts ti); r_public := max_age; r_nostore := false; r_ts := rts_of (ti_ts ti) |}.

(* the answer for a tile that must not be cached *)
Definition nostore_resp (body : Z) : resp :=
  {| r_status := 200; r_body := Some body; r_ctype := true; r_etag := None; r_lastmod := None;
     r_public := None; r_nostore := true; r_ts := None |}.

Lemma tile_headers_cacheable : forall h tps max_age ti body,
  ti_cacheable ti = true ->
  tile_headers h tps max_age ti (new_resp body) = Some (full_resp h tps max_age ti body).
Proof.
  intros h tps max_age ti body Hc. unfold tile_headers. rewrite Hc.
  unfold cache_headers, full_resp, etag_of, lastmod_of, rts_of, set_last_modified, set_etag, set_public, new_resp.
  cbn [andb etag_data_truthy orb r_status r_body r_ctype r_etag r_lastmod r_public r_nostore r_ts].
  destruct (ti_ts ti) as [s|]; cbn [ts_truthy].
  - destruct (st_ticks s =? 0); destruct max_age; cbn; reflexivity.
  - destruct max_age; cbn; reflexivity.
Qed.

Lemma tile_headers_uncacheable : forall h tps max_age ti body,
  ti_cacheable ti = false ->
  tile_headers h tps max_age ti (new_resp body) = Some (nostore_resp body).
Proof. intros. unfold tile_headers. rewrite H. reflexivity. Qed.

Lemma serve_cacheable : forall svc h tps max_age ti body inm ims,
  ti_cacheable ti = true ->
  serve svc h tps max_age ti body inm ims = make_conditional tps (full_resp h tps max_age ti body) inm ims.
Proof.
  intros svc h tps max_age ti body inm ims Hc.
  pose proof (tile_headers_cacheable h tps max_age ti body Hc) as HT.
  destruct svc; cbn [serve]; unfold serve_tms, serve_wmts, serve_kml, serve_wms; try (rewrite HT; reflexivity).
  cbn [wc_truthy]. rewrite Hc. cbn [negb].
  unfold tile_headers in HT. rewrite Hc in HT. rewrite HT. reflexivity.
Qed.

(* uncacheable_no_store: all four services *)
Lemma serve_uncacheable : forall svc h tps max_age ti body inm ims,
  ti_cacheable ti = false ->
  serve svc h tps max_age ti body inm ims = Resp (nostore_resp body).
Proof.
  intros svc h tps max_age ti body inm ims Hc.
  pose proof (tile_headers_uncacheable h tps max_age ti body Hc) as HT.
  destruct svc; cbn [serve]; unfold serve_tms, serve_wmts, serve_kml, serve_wms; try (rewrite HT; reflexivity).
  cbn [wc_truthy]. rewrite Hc. reflexivity.
Qed.

(* plain (untiled) WMS and merged results: an uncacheable result is sent no-store as well *)
Lemma serve_wms_uncacheable : forall h tps max_age tiled w body inm ims,
  wc_truthy w = false ->
  serve_wms h tps max_age tiled w body inm ims = Resp (nostore_resp body).
Proof. intros. unfold serve_wms. rewrite H. reflexivity. Qed.

(* ---- make_conditional ---------------------------------------------------------------------------------- *)
Lemma make_conditional_cases : forall tps r inm ims,
  make_conditional tps r inm ims = Resp r \/
  make_conditional tps r inm ims = Resp (not_modified r).
Proof.
  intros. unfold make_conditional.
  destruct (etag_matches (r_etag r) inm); [right; reflexivity|].
  destruct (r_ts r); [|left; reflexivity].
  destruct (parse_httpdate ims); [left; reflexivity|].
  destruct (z <=? t * tps); [right|left]; reflexivity.
Qed.

Lemma make_conditional_304 : forall tps r inm ims r',
  r_status r = 200 ->
  make_conditional tps r inm ims = Resp r' -> r_status r' = 304 ->
  r' = not_modified r /\
  ((exists a, r_etag r = Some a /\ inm = Some a) \/
   (exists ts t, r_ts r = Some ts /\ parse_httpdate ims = PSome t /\ ts <= t * tps)).
Proof.
  intros tps r inm ims r' H200 H H304. unfold make_conditional in H.
  destruct (etag_matches (r_etag r) inm) eqn:E.
  - inversion H; subst. split; [reflexivity|]. left. apply etag_matches_iff. exact E.
  - destruct (r_ts r) as [ts|] eqn:Ets.
    + destruct (parse_httpdate ims) as [|t] eqn:Ep.
      * inversion H; subst. rewrite H200 in H304. discriminate.
      * destruct (ts <=? t * tps) eqn:El.
        -- inversion H; subst. split; [reflexivity|]. right. exists ts, t. repeat split; try reflexivity.
           apply Z.leb_le. exact El.
        -- inversion H; subst. rewrite H200 in H304. discriminate.
    + inversion H; subst. rewrite H200 in H304. discriminate.
Qed.

Lemma make_conditional_etag_match : forall tps r a ims,
  r_etag r = Some a -> make_conditional tps r (Some a) ims = Resp (not_modified r).
Proof.
  intros. unfold make_conditional. rewrite H. cbn [etag_matches]. rewrite str_eqb_refl. reflexivity.
Qed.

Lemma make_conditional_pnone : forall tps r inm ims,
  parse_httpdate ims = PNone -> make_conditional tps r inm ims = make_conditional tps r inm ImsAbsent.
Proof.
  intros. unfold make_conditional. rewrite H. cbn [parse_httpdate]. reflexivity.
Qed.

Lemma make_conditional_no_raise : forall tps r inm ims, make_conditional tps r inm ims <> Err500.
Proof.
  intros. destruct (make_conditional_cases tps r inm ims) as [E|E]; rewrite E; discriminate.
Qed.

(* ---- single request: the property clauses ---------------------------------------------------------------- *)
Lemma serve_etag_match : forall svc h tps max_age ti body ims,
  ti_cacheable ti = true ->
  serve svc h tps max_age ti body (Some (etag_of h ti)) ims
  = Resp (not_modified (full_resp h tps max_age ti body)).
Proof.
  intros. rewrite serve_cacheable by assumption. apply make_conditional_etag_match. reflexivity.
Qed.

Lemma rts_of_some : forall t ts, rts_of t = Some ts -> exists s, t = Some s /\ st_ticks s = ts /\ ts <> 0.
Proof.
  intros [s|] ts H; cbn [rts_of] in H; [|discriminate].
  destruct (st_ticks s =? 0) eqn:E; [discriminate|]. inversion H; subst.
  exists s. repeat split. apply Z.eqb_neq. exact E.
Qed.

Lemma serve_sound_304 : forall svc h tps max_age ti body inm ims r,
  serve svc h tps max_age ti body inm ims = Resp r -> r_status r = 304 ->
  ti_cacheable ti = true /\
  r = not_modified (full_resp h tps max_age ti body) /\
  (inm = Some (etag_of h ti) \/
   exists s t, ti_ts ti = Some s /\ st_ticks s <> 0 /\ parse_httpdate ims = PSome t /\ st_ticks s <= t * tps).
Proof.
  intros svc h tps max_age ti body inm ims r H H304.
  destruct (ti_cacheable ti) eqn:Hc.
  - split; [reflexivity|]. rewrite serve_cacheable in H by assumption.
    apply make_conditional_304 in H; [|reflexivity|assumption].
    destruct H as [Hr [[a [Ha Hi]]|[ts [t [Hts [Hp Hle]]]]]].
    + split; [exact Hr|]. left. cbn [full_resp r_etag] in Ha. inversion Ha; subst. reflexivity.
    + split; [exact Hr|]. right. cbn [full_resp r_ts] in Hts. apply rts_of_some in Hts.
      destruct Hts as [s [Hs [Hk Hnz]]]. exists s, t. subst ts. repeat split; assumption.
  - rewrite serve_uncacheable in H by assumption. inversion H; subst. cbn in H304. discriminate.
Qed.

Lemma serve_malformed_date : forall svc h tps max_age ti body inm ims,
  parse_httpdate ims = PNone ->
  serve svc h tps max_age ti body inm ims = serve svc h tps max_age ti body inm ImsAbsent.
Proof.
  intros. destruct (ti_cacheable ti) eqn:Hc.
  - rewrite !serve_cacheable by assumption. apply make_conditional_pnone. assumption.
  - rewrite !serve_uncacheable by assumption. reflexivity.
Qed.

(* no conditional header can make a tile request fail *)
Lemma serve_no_500 : forall svc h tps max_age ti body inm ims,
  serve svc h tps max_age ti body inm ims <> Err500.
Proof.
  intros. destruct (ti_cacheable ti) eqn:Hc.
  - rewrite serve_cacheable by assumption. apply make_conditional_no_raise.
  - rewrite serve_uncacheable by assumption. discriminate.
Qed.

(* a date that email.utils.parsedate accepts but datetime.date rejects (year > 9999, after the repair of F18):
   parse_httpdate returns None *)
Lemma parse_out_of_range : forall y mo d hh mi ss,
  9999 < y -> parse_httpdate (ImsDate y mo d hh mi ss) = PNone.
Proof.
  intros y mo d hh mi ss Hy. unfold parse_httpdate.
  replace (9999 <? y) with true by (symmetry; apply Z.ltb_lt; lia).
  rewrite orb_true_r. reflexivity.
Qed.

Lemma serve_out_of_range_date : forall svc h tps max_age ti body inm y mo d hh mi ss,
  9999 < y ->
  serve svc h tps max_age ti body inm (ImsDate y mo d hh mi ss) = serve svc h tps max_age ti body inm ImsAbsent.
Proof. intros. apply serve_malformed_date. apply parse_out_of_range. assumption. Qed.

Example ex_out_of_range :
  serve TMS (fun s => s) 1 (Some 60)
        {| ti_cacheable := true; ti_ts := Some {| st_ticks := 1700000000; st_repr := [49] |}; ti_size := Some 100 |}
        7 None (ImsDate 10000 10 1 0 0 0)
  = Resp (full_resp (fun s => s) 1 (Some 60)
        {| ti_cacheable := true; ti_ts := Some {| st_ticks := 1700000000; st_repr := [49] |}; ti_size := Some 100 |} 7).
Proof. reflexivity. Qed.

(* ---- stores ------------------------------------------------------------------------------------------------ *)
Lemma lookup_remove_same : forall st k, lookup (remove st k) k = None.
Proof.
  induction st as [|[k' e] st IH]; intro k; cbn [remove lookup]; [reflexivity|].
  destruct (k' =? k) eqn:E; [apply IH|]. cbn [lookup]. rewrite E. apply IH.
Qed.

Lemma lookup_remove_other : forall st k k', k' <> k -> lookup (remove st k') k = lookup st k.
Proof.
  induction st as [|[k0 e] st IH]; intros k k' Hne; cbn [remove lookup]; [reflexivity|].
  destruct (k0 =? k') eqn:E.
  - apply Z.eqb_eq in E. subst k0. destruct (k' =? k) eqn:E2; [apply Z.eqb_eq in E2; contradiction|].
    apply IH. assumption.
  - cbn [lookup]. destruct (k0 =? k); [reflexivity|]. apply IH. assumption.
Qed.

Lemma lookup_update_same : forall st k e, lookup (update st k e) k = Some e.
Proof. intros. unfold update. cbn [lookup]. rewrite Z.eqb_refl. reflexivity. Qed.

Lemma lookup_update_other : forall st k k' e, k' <> k -> lookup (update st k' e) k = lookup st k.
Proof.
  intros. unfold update. cbn [lookup]. destruct (k' =? k) eqn:E; [apply Z.eqb_eq in E; contradiction|].
  apply lookup_remove_other. assumption.
Qed.

Definition etag_of_entry (h : str -> str) (e : entry) : str := etag_of h (info_of_entry e).
Definition lastmod_of_entry (tps : Z) (e : entry) : option Z := lastmod_of tps (Some (e_ts e)).

(* does the event write or delete tile k? *)
Definition touches (k : Z) (ev : event) : bool :=
  match ev with
  | Req _ _ _ _ _ => false
  | Refresh _ k' _ _ _ => k' =? k
  | Rewrite k' _ => k' =? k
  | Remove k' => k' =? k
  end.

Lemma load_cached : forall st k up e,
  lookup st k = Some e -> load st k up = (st, Some (info_of_entry e, e_body e)).
Proof. intros. unfold load. rewrite H. reflexivity. Qed.

Lemma load_preserves : forall st k k' up e,
  lookup st k = Some e -> lookup (fst (load st k' up)) k = Some e.
Proof.
  intros st k k' up e H. unfold load.
  destruct (lookup st k') eqn:E; [exact H|].
  destruct up; cbn [fst]; try exact H.
  destruct (Z.eq_dec k' k) as [->|Hne]; [congruence|].
  rewrite lookup_update_other by assumption. exact H.
Qed.

Lemma load_stale_preserves : forall st k k' up e,
  k' <> k -> lookup st k = Some e -> lookup (fst (load_stale st k' up)) k = Some e.
Proof.
  intros st k k' up e Hne H. unfold load_stale.
  destruct (lookup st k') eqn:E; [|apply load_preserves; exact H].
  destruct up; cbn [fst]; try exact H.
  rewrite lookup_update_other by assumption. exact H.
Qed.

Lemma step_preserves : forall h tps ma st ev k e,
  lookup st k = Some e -> touches k ev = false ->
  lookup (fst (step h tps ma st ev)) k = Some e.
Proof.
  intros h tps ma st ev k e H Ht. destruct ev as [svc k' inm ims up|svc k' inm ims up|k' e'|k']; cbn [step touches] in *.
  - pose proof (load_preserves st k k' up e H) as HL.
    destruct (load st k' up) as [st' [[ti body]|]]; cbn [fst] in *; exact HL.
  - apply Z.eqb_neq in Ht. pose proof (load_stale_preserves st k k' up e Ht H) as HL.
    destruct (load_stale st k' up) as [st' [[ti body]|]]; cbn [fst] in *; exact HL.
  - cbn [fst]. apply Z.eqb_neq in Ht. rewrite lookup_update_other by assumption. exact H.
  - cbn [fst]. apply Z.eqb_neq in Ht. rewrite lookup_remove_other by assumption. exact H.
Qed.

(* a request for a stored tile: the store is unchanged and the answer is make_conditional of the full answer *)
Lemma step_req_cached : forall h tps ma st svc k inm ims up e,
  lookup st k = Some e ->
  step h tps ma st (Req svc k inm ims up)
  = (st, Some (make_conditional tps (full_resp h tps ma (info_of_entry e) (e_body e)) inm ims)).
Proof.
  intros. cbn [step]. rewrite (load_cached st k up e H).
  rewrite serve_cacheable by reflexivity. reflexivity.
Qed.

(* the answer to a request for a stored tile is the full answer (200 + body) or the same validators with 304 and
   no body *)
Definition answer_for (h : str -> str) (tps : Z) (e : entry) (r : resp) : Prop :=
  r_etag r = Some (etag_of_entry h e) /\ r_lastmod r = lastmod_of_entry tps e /\ r_nostore r = false /\
  ((r_status r = 200 /\ r_body r = Some (e_body e)) \/ (r_status r = 304 /\ r_body r = None /\ r_ctype r = false)).

Lemma answer_full : forall h tps ma e, answer_for h tps e (full_resp h tps ma (info_of_entry e) (e_body e)).
Proof. intros. unfold answer_for. cbn. repeat split. left. split; reflexivity. Qed.

Lemma answer_304 : forall h tps ma e,
  answer_for h tps e (not_modified (full_resp h tps ma (info_of_entry e) (e_body e))).
Proof. intros. unfold answer_for. cbn. repeat split. right. repeat split. Qed.

Lemma step_req_cached_answer : forall h tps ma st svc k inm ims up e st' r,
  lookup st k = Some e ->
  step h tps ma st (Req svc k inm ims up) = (st', Some (Resp r)) ->
  st' = st /\ answer_for h tps e r.
Proof.
  intros h tps ma st svc k inm ims up e st' r H Hs.
  rewrite (step_req_cached h tps ma st svc k inm ims up e H) in Hs. inversion Hs; subst. split; [reflexivity|].
  destruct (make_conditional_cases tps (full_resp h tps ma (info_of_entry e) (e_body e)) inm ims) as [E|E];
    rewrite E in H2; inversion H2; subst.
  - apply answer_full.
  - apply answer_304.
Qed.


Lemma step_etag_match : forall h tps max_age st svc k ims up e,
  lookup st k = Some e ->
  exists r, step h tps max_age st (Req svc k (Some (etag_of_entry h e)) ims up) = (st, Some (Resp r)) /\
            r_status r = 304 /\ r_body r = None /\ r_ctype r = false /\
            r_etag r = Some (etag_of_entry h e).
Proof.
  intros h tps max_age st svc k ims up e H.
  exists (not_modified (full_resp h tps max_age (info_of_entry e) (e_body e))).
  split; [|repeat split].
  rewrite (step_req_cached h tps max_age st svc k (Some (etag_of_entry h e)) ims up e H).
  rewrite (make_conditional_etag_match tps (full_resp h tps max_age (info_of_entry e) (e_body e))
             (etag_of_entry h e) ims eq_refl). reflexivity.
Qed.

(* validators_stable over histories *)
Lemma run_stable : forall h tps ma evs st k e,
  lookup st k = Some e ->
  (forall ev, In ev evs -> touches k ev = false) ->
  lookup (fst (run h tps ma st evs)) k = Some e /\
  forall i svc inm ims up r,
    nth_error evs i = Some (Req svc k inm ims up) ->
    nth_error (snd (run h tps ma st evs)) i = Some (Some (Resp r)) ->
    answer_for h tps e r.
Proof.
  intros h tps ma evs. induction evs as [|ev evs IH]; intros st k e H Hall.
  - cbn [run fst snd]. split; [exact H|]. intros i; destruct i; discriminate.
  - cbn [run].
    assert (Ht : touches k ev = false) by (apply Hall; left; reflexivity).
    pose proof (step_preserves h tps ma st ev k e H Ht) as Hp.
    destruct (step h tps ma st ev) as [st1 o] eqn:Es. cbn [fst] in Hp.
    assert (Hall' : forall ev', In ev' evs -> touches k ev' = false) by (intros; apply Hall; right; assumption).
    destruct (IH st1 k e Hp Hall') as [IH1 IH2].
    destruct (run h tps ma st1 evs) as [st2 os] eqn:Er. cbn [fst snd] in *.
    split; [exact IH1|].
    intros i svc inm ims up r Hn Ho. destruct i as [|i]; cbn [nth_error] in *.
    + inversion Hn; subst. inversion Ho; subst.
      apply (step_req_cached_answer h tps ma st svc k inm ims up e st1 r H Es).
    + apply (IH2 i svc inm ims up r Hn Ho).
Qed.

(* after a rewrite, the validators a client got from the previous content never produce 304 *)
Lemma stale_validators_200 : forall h tps ma st svc k inm ims up e',
  lookup st k = Some e' ->
  inm <> Some (etag_of_entry h e') ->
  (forall t, parse_httpdate ims = PSome t -> t * tps < st_ticks (e_ts e')) ->
  step h tps ma st (Req svc k inm ims up)
  = (st, Some (Resp (full_resp h tps ma (info_of_entry e') (e_body e')))).
Proof.
  intros h tps ma st svc k inm ims up e' H Hinm Hims.
  rewrite (step_req_cached h tps ma st svc k inm ims up e' H). f_equal. f_equal.
  unfold make_conditional.
  destruct (etag_matches _ inm) eqn:E.
  - apply etag_matches_iff in E. destruct E as [a [Ha Hi]]. cbn in Ha. inversion Ha; subst.
    exfalso. apply Hinm. reflexivity.
  - destruct (r_ts _) as [ts|] eqn:Ets; [|reflexivity].
    destruct (parse_httpdate ims) as [|t] eqn:Ep; [reflexivity|].
    cbn [full_resp r_ts info_of_entry ti_ts] in Ets. apply rts_of_some in Ets.
    destruct Ets as [s [Hs [Hk _]]]. inversion Hs; subst.
    specialize (Hims t eq_refl). destruct (st_ticks (e_ts e') <=? t * tps) eqn:El; [|reflexivity].
    apply Z.leb_le in El. lia.
Qed.


(* every date email.utils.parsedate can deliver for years 1..9999 is read as written (repair of C20-L4) *)
Lemma parse_as_written : forall y mo d hh mi ss,
  1 <= y <= 9999 -> 1 <= mo <= 12 ->
  parse_httpdate (ImsDate y mo d hh mi ss) = PSome (timegm y mo d hh mi ss).
Proof.
  intros y mo d hh mi ss Hy Hm. unfold parse_httpdate.
  replace ((y <? 1) || (9999 <? y) || (mo <? 1) || (12 <? mo)) with false; [reflexivity|].
  symmetry. repeat (apply orb_false_iff; split); apply Z.ltb_ge; lia.
Qed.

Example ex_before_1970 :
  parse_httpdate (ImsDate 1969 12 31 23 59 59) = PSome (-1) /\ parse_httpdate (ImsDate 1960 1 1 0 0 0) = PSome (-315619200)
  /\ parse_httpdate (ImsDate 100 10 1 0 0 0) = PSome (-58987872000).
Proof. vm_compute. repeat split. Qed.

(* If-Modified-Since at or after the stored timestamp: 304 (whatever If-None-Match says) *)
Lemma step_ims_304 : forall h tps max_age st svc k inm ims up e t,
  lookup st k = Some e ->
  st_ticks (e_ts e) <> 0 ->
  parse_httpdate ims = PSome t -> st_ticks (e_ts e) <= t * tps ->
  step h tps max_age st (Req svc k inm ims up)
  = (st, Some (Resp (not_modified (full_resp h tps max_age (info_of_entry e) (e_body e))))).
Proof.
  intros h tps max_age st svc k inm ims up e t H Hnz Hp Hle.
  rewrite (step_req_cached h tps max_age st svc k inm ims up e H). f_equal. f_equal.
  unfold make_conditional. destruct (etag_matches _ inm); [reflexivity|].
  cbn [full_resp r_ts info_of_entry ti_ts rts_of].
  destruct (st_ticks (e_ts e) =? 0) eqn:E; [apply Z.eqb_eq in E; contradiction|].
  rewrite Hp. destruct (st_ticks (e_ts e) <=? t * tps) eqn:El; [reflexivity|].
  apply Z.leb_gt in El. lia.
Qed.

(* a client that sends back the Last-Modified it was given gets 304 exactly when the stored timestamp is a whole
   second (sqlite); with a fractional mtime (file cache) the answer is the full 200 - sound, not economical *)
Lemma step_ims_echo_fractional : forall h tps max_age st svc k ims up e,
  lookup st k = Some e -> 0 < tps ->
  st_ticks (e_ts e) mod tps <> 0 ->
  parse_httpdate ims = PSome (st_ticks (e_ts e) / tps) ->
  step h tps max_age st (Req svc k None ims up)
  = (st, Some (Resp (full_resp h tps max_age (info_of_entry e) (e_body e)))).
Proof.
  intros h tps max_age st svc k ims up e H Htps Hfr Hp.
  apply stale_validators_200; try assumption.
  - discriminate.
  - intros t Ht. rewrite Hp in Ht. inversion Ht; subst.
    pose proof (Z.div_mod (st_ticks (e_ts e)) tps ltac:(lia)) as Hdm.
    pose proof (Z.mod_pos_bound (st_ticks (e_ts e)) tps Htps) as Hb. lia.
Qed.

(* uncached tile, upstream error mapped to an uncached fill image: nothing is stored, no-store answer *)
Lemma step_fill : forall h tps ma st svc k inm ims body,
  lookup st k = None ->
  step h tps ma st (Req svc k inm ims (UFill body)) = (st, Some (Resp (nostore_resp body))).
Proof.
  intros. cbn [step]. unfold load. rewrite H. rewrite serve_uncacheable by reflexivity. reflexivity.
Qed.

(* uncached tile, upstream answers: the tile is stored; the creating answer carries the validators of
   (now, size), which differ from those of later answers when the backend reports another time *)
Lemma step_create : forall h tps ma st svc k inm ims body now size stored,
  lookup st k = None ->
  step h tps ma st (Req svc k inm ims (UOk body now size stored))
  = (update st k stored,
     Some (make_conditional tps
             (full_resp h tps ma {| ti_cacheable := true; ti_ts := Some now; ti_size := Some size |} body) inm ims)).
Proof.
  intros. cbn [step]. unfold load. rewrite H. rewrite serve_cacheable by reflexivity. reflexivity.
Qed.

(* stale tile (refresh rule), source answers: the tile is stored again ... *)
Lemma step_refresh_stores : forall h tps ma st svc k inm ims body now size stored e,
  lookup st k = Some e ->
  lookup (fst (step h tps ma st (Refresh svc k inm ims (UOk body now size stored)))) k = Some stored.
Proof.
  intros. cbn [step]. unfold load_stale. rewrite H. cbn [fst]. apply lookup_update_same.
Qed.

(* ... stale tile, source fails with an uncached fill image: no-store answer, the old entry stays *)
Lemma step_refresh_fill : forall h tps ma st svc k inm ims body e,
  lookup st k = Some e ->
  step h tps ma st (Refresh svc k inm ims (UFill body)) = (st, Some (Resp (nostore_resp body))).
Proof.
  intros. cbn [step]. unfold load_stale. rewrite H. rewrite serve_uncacheable by reflexivity. reflexivity.
Qed.

(* ... stale tile, source fails with a fill image that authorises stale tiles: the stored tile is served with its own
   validators (200 + stored bytes or 304), exactly like a request that finds it fresh; nothing is written *)
Lemma step_refresh_authorize_stale : forall h tps ma st svc k inm ims body e,
  lookup st k = Some e ->
  step h tps ma st (Refresh svc k inm ims (UFillStale body)) = step h tps ma st (Req svc k inm ims UErr).
Proof.
  intros. cbn [step]. unfold load_stale, load. rewrite H. reflexivity.
Qed.

Lemma step_refresh_authorize_stale_answer : forall h tps ma st svc k inm ims body e st' r,
  lookup st k = Some e ->
  step h tps ma st (Refresh svc k inm ims (UFillStale body)) = (st', Some (Resp r)) ->
  st' = st /\ answer_for h tps e r.
Proof.
  intros h tps ma st svc k inm ims body e st' r H Hs.
  rewrite (step_refresh_authorize_stale h tps ma st svc k inm ims body e H) in Hs.
  exact (step_req_cached_answer h tps ma st svc k inm ims UErr e st' r H Hs).
Qed.

Lemma step_fill_stale_uncached : forall h tps ma st svc k inm ims body,
  lookup st k = None ->
  step h tps ma st (Req svc k inm ims (UFillStale body)) = (st, Some (Resp (nostore_resp body))).
Proof.
  intros. cbn [step]. unfold load. rewrite H. rewrite serve_uncacheable by reflexivity. reflexivity.
Qed.

(* ... and (repair of C20-L3) the answer of the refreshing request is the answer for the NEW content: the same as
   the answer that creates a tile, with the validators of (now, size) *)
Lemma step_refresh_answer : forall h tps ma st svc k inm ims body now size stored e,
  lookup st k = Some e ->
  step h tps ma st (Refresh svc k inm ims (UOk body now size stored))
  = (update st k stored,
     Some (make_conditional tps
             (full_resp h tps ma {| ti_cacheable := true; ti_ts := Some now; ti_size := Some size |} body) inm ims)).
Proof.
  intros. cbn [step]. unfold load_stale. rewrite H. rewrite serve_cacheable by reflexivity. reflexivity.
Qed.

(* so a 304 of the refreshing request is justified by the validators of what it has just stamped *)
Lemma refresh_answer_sound_304 : forall h tps ma st svc k inm ims body now size stored e st' r,
  lookup st k = Some e ->
  step h tps ma st (Refresh svc k inm ims (UOk body now size stored)) = (st', Some (Resp r)) ->
  r_status r = 304 ->
  inm = Some (etag_of h {| ti_cacheable := true; ti_ts := Some now; ti_size := Some size |}) \/
  exists t, st_ticks now <> 0 /\ parse_httpdate ims = PSome t /\ st_ticks now <= t * tps.
Proof.
  intros h tps ma st svc k inm ims body now size stored e st' r H Hs H304.
  cbn [step] in Hs. unfold load_stale in Hs. rewrite H in Hs. inversion Hs; subst.
  destruct (serve_sound_304 _ _ _ _ _ _ _ _ _ H2 H304) as [_ [_ [Hi|[s [t [Hts [Hnz [Hp Hle]]]]]]]].
  - left. exact Hi.
  - right. cbn in Hts. inversion Hts; subst. exists t. repeat split; assumption.
Qed.

Example ex_refresh_old_date_200 :
  snd (step (fun s => s) 1 (Some 60)
        [(5, {| e_ts := {| st_ticks := 1700000000; st_repr := [49] |}; e_size := 100; e_body := 1 |})]
        (Refresh TMS 5 None (ImsDate 2023 11 14 22 13 20)
           (UOk 2 {| st_ticks := 1700000500; st_repr := [50] |} 120
                {| e_ts := {| st_ticks := 1700000500; st_repr := [50] |}; e_size := 120; e_body := 2 |})))
  = Some (Resp (full_resp (fun s => s) 1 (Some 60)
                 {| ti_cacheable := true; ti_ts := Some {| st_ticks := 1700000500; st_repr := [50] |}; ti_size := Some 120 |} 2)).
Proof. reflexivity. Qed.

(* a request that waited for the tile lock answers with the validators and bytes of what is stored when it gets
   the lock, whatever it had loaded before *)
Lemma waiter_current : forall h tps ma st_loaded mid svc k inm ims up e_now st' r,
  lookup (fst (run h tps ma st_loaded mid)) k = Some e_now ->
  waiter h tps ma st_loaded mid (Req svc k inm ims up) = (st', Some (Resp r)) ->
  st' = fst (run h tps ma st_loaded mid) /\ answer_for h tps e_now r.
Proof.
  intros h tps ma st_loaded mid svc k inm ims up e_now st' r H Hw. unfold waiter in Hw.
  exact (step_req_cached_answer h tps ma _ svc k inm ims up e_now st' r H Hw).
Qed.

(* backends without timestamps (mbtiles / geopackage: timestamp -1 for every tile): the validators see a rewrite
   only through the size - two stored versions of equal size and different bytes have the same ETag, and the old
   ETag is answered 304 (reason why the property quantifies over backends WITH timestamps) *)
Lemma timestampless_rewrite_unseen :
  exists h tps ma k e e' r,
    e_ts e = e_ts e' /\ e_size e = e_size e' /\ e_body e <> e_body e' /\
    step h tps ma [(k, e')] (Req TMS k (Some (etag_of_entry h e)) ImsAbsent UErr) = ([(k, e')], Some (Resp r)) /\
    r_status r = 304.
Proof.
  exists (fun s => s), 1, (Some 60), 3,
    {| e_ts := {| st_ticks := -1; st_repr := [45; 49] |}; e_size := 700; e_body := 1 |},
    {| e_ts := {| st_ticks := -1; st_repr := [45; 49] |}; e_size := 700; e_body := 2 |}.
  eexists. repeat split; try discriminate.
Qed.

(* ---- cache without storage on a storing cache: the validators are those of the lower tile ------------------ *)
Lemma attach_source_info : forall t ci, attach_source t (WInfo ci) = ci.
Proof. intros t [c ts sz]. reflexivity. Qed.

(* a bool from an ordinary source leaves the tile without timestamp and size (tile_buffer fills them on store) *)
Lemma attach_source_bool : forall t b,
  attach_source t (WBool b) = {| ti_cacheable := b; ti_ts := None; ti_size := None |}.
Proof. reflexivity. Qed.

Lemma passthrough_is_lower_step : forall h tps ma t0 st ev,
  step_passthrough h tps ma t0 st ev = step h tps ma st ev.
Proof.
  intros h tps ma t0 st ev. destruct ev as [svc k inm ims up|svc k inm ims up|k e|k]; cbn [step_passthrough step].
  - destruct (load st k up) as [st' [[ci body]|]]; [rewrite attach_source_info|]; reflexivity.
  - destruct (load_stale st k up) as [st' [[ci body]|]]; [rewrite attach_source_info|]; reflexivity.
  - reflexivity.
  - reflexivity.
Qed.

Lemma passthrough_answer : forall h tps ma t0 st svc k inm ims up e st' r,
  lookup st k = Some e ->
  step_passthrough h tps ma t0 st (Req svc k inm ims up) = (st', Some (Resp r)) ->
  st' = st /\ answer_for h tps e r.
Proof.
  intros h tps ma t0 st svc k inm ims up e st' r H Hs. rewrite passthrough_is_lower_step in Hs.
  exact (step_req_cached_answer h tps ma st svc k inm ims up e st' r H Hs).
Qed.

(* the order of the two assignments matters: resetting AFTER the CacheInfo was copied loses the validators *)
Example ex_reset_after_attach_loses_validators :
  let ci := {| ti_cacheable := true; ti_ts := Some {| st_ticks := 8; st_repr := [56] |}; ti_size := Some 700 |} in
  attach_source {| ti_cacheable := true; ti_ts := None; ti_size := None |} (WInfo ci) = ci /\
  (let t := set_cacheable {| ti_cacheable := true; ti_ts := None; ti_size := None |} (WInfo ci) in
   {| ti_cacheable := ti_cacheable t; ti_ts := None; ti_size := None |}) <> ci.
Proof. split; [reflexivity|discriminate]. Qed.

Example ex_passthrough_304_then_200 :
  let e1 := {| e_ts := {| st_ticks := 8; st_repr := [56] |}; e_size := 700; e_body := 1 |} in
  let e2 := {| e_ts := {| st_ticks := 9; st_repr := [57] |}; e_size := 705; e_body := 2 |} in
  let t0 := {| ti_cacheable := true; ti_ts := None; ti_size := None |} in
  let inm := Some (etag_of_entry (fun s => s) e1) in
  (exists r, step_passthrough (fun s => s) 1 (Some 60) t0 [(3, e1)] (Req TMS 3 inm ImsAbsent UErr) = ([(3, e1)], Some (Resp r))
             /\ r_status r = 304) /\
  (exists r, step_passthrough (fun s => s) 1 (Some 60) t0 [(3, e2)] (Req TMS 3 inm ImsAbsent UErr) = ([(3, e2)], Some (Resp r))
             /\ r_status r = 200 /\ r_body r = Some 2).
Proof. split; eexists; repeat split. Qed.

(* a GetMap whose result is merged from several images (the merger's cacheable is a bool): no validators are sent
   and the answer is never conditional - tiled or not *)
Lemma serve_wms_merged : forall h tps max_age tiled body inm ims,
  serve_wms h tps max_age tiled (WBool true) body inm ims = Resp (new_resp body).
Proof. intros. reflexivity. Qed.

(* ---- ETag source ambiguity (str(timestamp) ++ str(size) is not injective) ------------------------------- *)
Lemma etag_source_ambiguous :
  exists e1 e2, (st_ticks (e_ts e1) <> st_ticks (e_ts e2)) /\ e_size e1 <> e_size e2 /\ e_body e1 <> e_body e2 /\
                forall h, etag_of_entry h e1 = etag_of_entry h e2.
Proof.
  (* 1.5 s / 12 bytes and 1.51 s / 2 bytes, in ticks of 1/100 s *)
  exists {| e_ts := {| st_ticks := 150; st_repr := [49; 46; 53] |}; e_size := 12; e_body := 1 |},
         {| e_ts := {| st_ticks := 151; st_repr := [49; 46; 53; 49] |}; e_size := 2; e_body := 2 |}.
  repeat split; try (cbn; lia).
Qed.

(* ---- non-vacuity ------------------------------------------------------------------------------------------ *)
Definition ex_stamp : stamp := {| st_ticks := 1700000000 * 4 + 2; st_repr := [49; 55; 46; 53] |}.
Definition ex_entry : entry := {| e_ts := ex_stamp; e_size := 758; e_body := 3 |}.
Definition ex_store : store := [(5, ex_entry)].
Definition ex_h (s : str) : str := 104 :: s.

(* a history with requests for the tile and for another one, a rewrite of another tile, conditional headers *)
Definition ex_history : list event :=
  [Req TMS 5 None ImsAbsent UErr;
   Req WMTS 6 None ImsAbsent (UOk 9 ex_stamp 100 ex_entry);
   Rewrite 6 ex_entry;
   Req KML 5 (Some (etag_of_entry ex_h ex_entry)) ImsAbsent UErr;
   Req WMSC 5 None (ImsDate 2023 11 14 22 13 20) UErr;
   Remove 6;
   Req WMSC 5 None (ImsDate 2023 11 14 22 13 21) UErr].

Example ex_history_untouched : forall ev, In ev ex_history -> touches 5 ev = false.
Proof. intros ev H. cbn in H. repeat (destruct H as [<-|H]; [reflexivity|]). contradiction. Qed.

Example ex_history_statuses :
  map (fun o => match o with Some (Resp r) => r_status r | Some Err500 => 500 | None => 0 end)
      (snd (run ex_h 4 (Some 60) ex_store ex_history)) = [200; 200; 0; 304; 200; 0; 304].
Proof. vm_compute. reflexivity. Qed.

Example ex_timegm : timegm 2023 11 14 22 13 20 = 1700000000 /\ timegm 1970 1 1 0 0 0 = 0
                    /\ parse_httpdate (ImsDate 1969 12 31 23 59 59) = PSome (-1).
Proof. vm_compute. repeat split. Qed.

Example ex_str_Z : str_Z 758 = [55; 53; 56] /\ str_Z 0 = [48] /\ str_Z (-1) = [45; 49] /\ str_Z 1000 = [49; 48; 48; 48].
Proof. vm_compute. repeat split. Qed.

Example ex_uncacheable :
  step ex_h 4 (Some 60) ex_store (Req WMSC 6 (Some [1]) (ImsDate 2030 1 1 0 0 0) (UFill 8))
  = (ex_store, Some (Resp (nostore_resp 8))).
Proof. reflexivity. Qed.
