(* C18  Model of the escaping functions, of the tempita exception templates and of a minimal markup
   tokenizer.  Strings are lists of code points (Z); nothing here depends on the code points being valid
   unicode, so every theorem holds for arbitrary Python strings (surrogates included).

   Modelled code (read line by line):
     html.escape (CPython Lib/html/__init__.py, quote=True)   five consecutive str.replace calls
     mapproxy/util/escape.py  escape_html                      five consecutive str.replace calls
     mapproxy/exception.py    XMLExceptionHandler.render, OWSExceptionHandler.render
                              msg = escape(_xml_illegal.sub(U+FFFD, request_error.msg)); template.substitute(exception=msg, code=.., locator=..)
     mapproxy/util/ext/tempita  Template.substitute restricted to the constructs used by the exception
                              templates: literal text, {{var}}, {{if var is not None}}..{{endif}},
                              {{if var is None}}..{{else}}..{{endif}}; _repr(None) = `` .
   No proofs in this file. *)
From Coq Require Import ZArith List Bool.
Import ListNotations.
Local Open Scope Z_scope.

Definition str := list Z.

(* ---------------------------------------------------------------- code points *)
Definition c_amp  : Z := 38.   (* & *)
Definition c_lt   : Z := 60.   (* < *)
Definition c_gt   : Z := 62.   (* > *)
Definition c_quot : Z := 34.   (* double quote *)
Definition c_apos : Z := 39.   (* apostrophe *)

Definition s_amp  : str := [38; 97; 109; 112; 59].          (* &amp;  *)
Definition s_lt   : str := [38; 108; 116; 59].              (* &lt;   *)
Definition s_gt   : str := [38; 103; 116; 59].              (* &gt;   *)
Definition s_quot : str := [38; 113; 117; 111; 116; 59].    (* &quot; *)
Definition s_apos : str := [38; 35; 120; 50; 55; 59].       (* &#x27; *)

(* ---------------------------------------------------------------- str.replace for a one-character pattern *)
(* s.replace(c, r) with len(c) = 1: every occurrence of c is replaced, left to right, no rescanning. *)
Definition replace1 (c : Z) (r : str) (s : str) : str :=
  flat_map (fun x => if x =? c then r else [x]) s.

(* html.escape(s, quote=True) *)
Definition html_escape (s : str) : str :=
  let s := replace1 c_amp s_amp s in      (* s = s.replace(`&`, `&amp;`)  -- must be done first *)
  let s := replace1 c_lt s_lt s in        (* s = s.replace(`<`, `&lt;`) *)
  let s := replace1 c_gt s_gt s in        (* s = s.replace(`>`, `&gt;`) *)
  let s := replace1 c_quot s_quot s in    (* s = s.replace(dquote, `&quot;`) *)
  let s := replace1 c_apos s_apos s in    (* s = s.replace(apostrophe, `&#x27;`) *)
  s.

(* mapproxy.util.escape.escape_html *)
Definition escape_html (s : str) : str :=
  let s := replace1 c_amp s_amp s in      (* data.replace(`&`, `&amp;`) *)
  let s := replace1 c_gt s_gt s in        (* data.replace(`>`, `&gt;`) *)
  let s := replace1 c_lt s_lt s in        (* data.replace(`<`, `&lt;`) *)
  let s := replace1 c_apos [] s in        (* data.replace(apostrophe, ``) *)
  let s := replace1 c_quot [] s in        (* data.replace(dquote, ``) *)
  s.

(* One-pass characterisations (proved equal to the above in Escape_proofs.v). *)
Definition esc1 (x : Z) : str :=
  if x =? c_amp then s_amp else if x =? c_lt then s_lt else if x =? c_gt then s_gt
  else if x =? c_quot then s_quot else if x =? c_apos then s_apos else [x].
Definition esch1 (x : Z) : str :=
  if x =? c_amp then s_amp else if x =? c_lt then s_lt else if x =? c_gt then s_gt
  else if x =? c_quot then [] else if x =? c_apos then [] else [x].

(* ---------------------------------------------------------------- entity decoding *)
(* What an XML parser does with the character data produced above: the predefined entities and the
   character reference &#x27; are replaced; any other text is kept (an `&` that does not start one of
   the five is kept literally - the theorem escape_amp_entities shows that escape never produces one). *)
Fixpoint is_prefix (p s : str) : bool :=
  match p, s with
  | [], _ => true
  | a :: p', b :: s' => (a =? b) && is_prefix p' s'
  | _ :: _, [] => false
  end.

(* entity bodies (the text after `&`) and the character they stand for *)
Definition entities : list (str * Z) :=
  [ ([97; 109; 112; 59], c_amp); ([108; 116; 59], c_lt); ([103; 116; 59], c_gt);
    ([113; 117; 111; 116; 59], c_quot); ([35; 120; 50; 55; 59], c_apos) ].
Definition entity_bodies : list str := map fst entities.

(* the first entity whose body is a prefix of s: (character, length of the body) *)
Fixpoint match_entity (es : list (str * Z)) (s : str) : option (Z * nat) :=
  match es with
  | [] => None
  | (body, c) :: es' => if is_prefix body s then Some (c, length body) else match_entity es' s
  end.

(* skip = number of characters of an entity body that are still to be dropped *)
Fixpoint unesc (skip : nat) (s : str) : str :=
  match s with
  | [] => []
  | x :: r =>
      match skip with
      | S k => unesc k r
      | O =>
          if x =? c_amp then
            match match_entity entities r with
            | Some (c, n) => c :: unesc n r
            | None => x :: unesc O r
            end
          else x :: unesc O r
      end
  end.
Definition unescape (s : str) : str := unesc O s.

(* ---------------------------------------------------------------- minimal markup tokenizer *)
(* Tags are `<` ... `>` where `>` inside a quoted attribute value (apostrophe or double quote) does not end the tag; everything
   else is character data.  Comments / CDATA / DOCTYPE internal subsets are not modelled: the template
   translator refuses template literals containing `<!-` , `<![` or `[` so that the minimal tokenizer is
   adequate for the documents this model is applied to. *)
Inductive mode := MText | MTag | MQuote (q : Z).
Inductive tok :=
| Text (s : str)      (* character data between two tags (possibly empty) *)
| Tag (s : str)       (* the characters between `<` and the closing `>` *)
| Open (s : str).     (* input ended inside a tag *)

Definition tok_str (t : tok) : str := match t with Text s | Tag s | Open s => s end.
Definition tok_add (p : str) (t : tok) : tok :=
  match t with Text s => Text (p ++ s) | Tag s => Tag (p ++ s) | Open s => Open (p ++ s) end.
(* prepend characters to the token in progress (the head of the list) *)
Definition pushes (p : str) (l : list tok) : list tok :=
  match l with [] => [] | t :: ts => tok_add p t :: ts end.
Definition push (c : Z) (l : list tok) : list tok := pushes [c] l.

Definition is_quote (c : Z) : bool := (c =? c_quot) || (c =? c_apos).

(* tk m l = tokens of l when scanning starts in mode m; the head of the result is the token that is in
   progress at the start of l (Text for MText, Tag/Open otherwise). *)
Fixpoint tk (m : mode) (l : str) : list tok :=
  match l with
  | [] => [match m with MText => Text [] | _ => Open [] end]
  | c :: r =>
      match m with
      | MText => if c =? c_lt then Text [] :: tk MTag r else push c (tk MText r)
      | MTag => if c =? c_gt then Tag [] :: tk MText r
                else if is_quote c then push c (tk (MQuote c) r) else push c (tk MTag r)
      | MQuote q => if c =? q then push c (tk MTag r) else push c (tk (MQuote q) r)
      end
  end.
Definition tokenize (l : str) : list tok := tk MText l.

Definition mode_step (m : mode) (c : Z) : mode :=
  match m with
  | MText => if c =? c_lt then MTag else MText
  | MTag => if c =? c_gt then MText else if is_quote c then MQuote c else MTag
  | MQuote q => if c =? q then MTag else MQuote q
  end.
Definition mode_after (m : mode) (l : str) : mode := fold_left mode_step l m.

(* P ends where character data is expected / inside a double-quoted attribute value *)
Definition mode_eqb (a b : mode) : bool :=
  match a, b with
  | MText, MText | MTag, MTag => true
  | MQuote x, MQuote y => x =? y
  | _, _ => false
  end.
Definition text_position (P : str) : Prop := mode_after MText P = MText.
Definition attr_position (q : Z) (P : str) : Prop := mode_after MText P = MQuote q.

(* the element skeleton: tags with their attributes, text nodes reduced to a marker *)
Definition skel1 (t : tok) : option (bool * str) :=
  match t with Text _ => None | Tag s => Some (true, s) | Open s => Some (false, s) end.
Definition skeleton (l : list tok) : list (option (bool * str)) := map skel1 l.

Definition is_ws (c : Z) : bool := (c =? 32) || (c =? 10) || (c =? 13) || (c =? 9).
Definition blank (s : str) : bool := forallb is_ws s.
Definition tok_blank (t : tok) : bool := match t with Text s => blank s | Tag _ => true | Open _ => false end.
Definition toks_blank (l : list tok) : bool := forallb tok_blank l.

(* ---------------------------------------------------------------- tempita templates (restricted) *)
Inductive var := VExc | VCode | VLoc.
Inductive atom :=
| Lit (s : str)
| Sub (v : var).                              (* {{v}} *)
Inductive piece :=
| A (a : atom)
| IfSome (v : var) (body : list atom)         (* {{if v is not None}} body {{endif}} *)
| IfNone (v : var) (a b : list atom).         (* {{if v is None}} a {{else}} b {{endif}} *)

Record env := { e_exc : str; e_code : option str; e_loc : option str }.

Definition lookup (e : env) (v : var) : option str :=
  match v with VExc => Some (e_exc e) | VCode => e_code e | VLoc => e_loc e end.
(* Template._repr: None -> `` *)
Definition repr (o : option str) : str := match o with Some s => s | None => [] end.

Definition r_atom (e : env) (a : atom) : str :=
  match a with Lit s => s | Sub v => repr (lookup e v) end.
Definition r_atoms (e : env) (l : list atom) : str := flat_map (r_atom e) l.
Definition is_some {T} (o : option T) : bool := match o with Some _ => true | None => false end.
Definition r_piece (e : env) (p : piece) : str :=
  match p with
  | A a => r_atom e a
  | IfSome v body => if is_some (lookup e v) then r_atoms e body else []
  | IfNone v a b => if is_some (lookup e v) then r_atoms e b else r_atoms e a
  end.
Definition render (e : env) (t : list piece) : str := flat_map (r_piece e) t.

(* characters that an XML 1.0 document may contain (production Char) *)
Definition xml_char (c : Z) : bool :=
  (c =? 9) || (c =? 10) || (c =? 13) || ((32 <=? c) && (c <=? 55295)) || ((57344 <=? c) && (c <=? 65533))
  || ((65536 <=? c) && (c <=? 1114111)).
(* _xml_illegal.sub(U+FFFD, msg) with _xml_illegal = the complement of the Char production:
   every character that XML 1.0 cannot represent is replaced by U+FFFD *)
Definition xml_sanitize (s : str) : str := map (fun c => if xml_char c then c else 65533) s.

(* the template rendered with an already sanitised message *)
Definition exception_doc_raw (t : list piece) (msg : str) (code loc : option str) : str :=
  render {| e_exc := html_escape msg; e_code := code; e_loc := loc |} t.

(* XMLExceptionHandler.render / OWSExceptionHandler.render: the document for (msg, code, locator)
     msg = escape(_xml_illegal.sub(U+FFFD, request_error.msg)); template.substitute(exception=msg, code=.., locator=..) *)
Definition exception_doc (t : list piece) (msg : str) (code loc : option str) : str :=
  exception_doc_raw t (xml_sanitize msg) code loc.

(* Split a template at its (first top-level) {{exception}} placeholder. *)
Definition is_exc_piece (p : piece) : bool := match p with A (Sub VExc) => true | _ => false end.
Fixpoint tpl_before (t : list piece) : list piece :=
  match t with [] => [] | p :: r => if is_exc_piece p then [] else p :: tpl_before r end.
Fixpoint tpl_after (t : list piece) : list piece :=
  match t with [] => [] | p :: r => if is_exc_piece p then r else tpl_after r end.
Fixpoint has_exc (t : list piece) : bool :=
  match t with [] => false | p :: r => is_exc_piece p || has_exc r end.

Definition atom_uses_exc (a : atom) : bool := match a with Sub VExc => true | _ => false end.
Definition piece_uses_exc (p : piece) : bool :=
  match p with
  | A a => atom_uses_exc a
  | IfSome v body => (match v with VExc => true | _ => false end) || existsb atom_uses_exc body
  | IfNone v a b => (match v with VExc => true | _ => false end) || existsb atom_uses_exc a || existsb atom_uses_exc b
  end.
(* the template mentions the message exactly once, as a top-level {{exception}} *)
Definition single_exc (t : list piece) : bool :=
  has_exc t && negb (existsb piece_uses_exc (tpl_before t)) && negb (existsb piece_uses_exc (tpl_after t)).

(* The decidable check that makes a template (with one code / locator value) safe:
   - the message is substituted exactly once,
   - the text before the placeholder ends in character-data position,
   - around the placeholder there is only white space up to the neighbouring tags,
   - all other text nodes of the document are blank and no tag is left open.            *)
Definition env0 (code loc : option str) : env := {| e_exc := []; e_code := code; e_loc := loc |}.
Definition last_tok (l : list tok) : tok := last l (Text []).
Definition hd_tok (l : list tok) : tok := hd (Text []) l.

Definition template_ok (t : list piece) (code loc : option str) : bool :=
  let P := render (env0 code loc) (tpl_before t) in
  let S := render (env0 code loc) (tpl_after t) in
  single_exc t
  && mode_eqb (mode_after MText P) MText
  && toks_blank (tk MText P)
  && toks_blank (tk MText S).

Definition opt_strs (l : list str) : list (option str) := None :: map Some l.
Definition templates_ok (ts : list (list piece)) (codes locs : list str) : bool :=
  forallb (fun t => forallb (fun c => forallb (fun l => template_ok t c l) (opt_strs locs)) (opt_strs codes)) ts.

Definition template_chars_ok (t : list piece) (code loc : option str) : bool :=
  forallb xml_char (render (env0 code loc) (tpl_before t)) && forallb xml_char (render (env0 code loc) (tpl_after t)).
Definition templates_chars_ok (ts : list (list piece)) (codes locs : list str) : bool :=
  forallb (fun t => forallb (fun c => forallb (fun l => template_chars_ok t c l) (opt_strs locs)) (opt_strs codes)) ts.

(* ---------------------------------------------------------------- helpers for the correspondence *)
Definition str_eqb (a b : str) : bool :=
  (fix go (a b : str) : bool :=
     match a, b with
     | [], [] => true
     | x :: a', y :: b' => (x =? y) && go a' b'
     | _, _ => false
     end) a b.

(* canonical dump of a token list for comparison with the Python re-implementation used by the oracle *)
Definition tok_code (t : tok) : Z * str :=
  match t with Text s => (0, s) | Tag s => (1, s) | Open s => (2, s) end.

(* ---------------------------------------------------------------- nesting of the tags *)
(* Start and end tags must match like brackets; <?...?> and <!...> declarations and <x/> are skipped.
   Defined on the skeleton, so it cannot depend on character data. *)
Fixpoint tag_name (s : str) : str :=
  match s with
  | [] => []
  | c :: r => if is_ws c || (c =? 47) then [] else c :: tag_name r
  end.
Definition is_decl (s : str) : bool := match s with c :: _ => (c =? 63) || (c =? 33) | [] => false end.
Definition is_close (s : str) : bool := match s with c :: _ => c =? 47 | [] => false end.
Definition is_selfclose (s : str) : bool := match rev s with c :: _ => c =? 47 | [] => false end.

Fixpoint balanced_sk (stack : list str) (l : list (option (bool * str))) : bool :=
  match l with
  | [] => match stack with [] => true | _ => false end
  | None :: r => balanced_sk stack r
  | Some (false, _) :: _ => false
  | Some (true, s) :: r =>
      if is_decl s then balanced_sk stack r
      else if is_close s then
        match stack with
        | top :: st => str_eqb top (tag_name (tl s)) && balanced_sk st r
        | [] => false
        end
      else if is_selfclose s then balanced_sk stack r
      else balanced_sk (tag_name s :: stack) r
  end.
Definition well_nested (toks : list tok) : bool := balanced_sk [] (skeleton toks).
Definition templates_nested (ts : list (list piece)) (codes locs : list str) : bool :=
  forallb (fun t => forallb (fun c => forallb (fun l => well_nested (tokenize (exception_doc_raw t [] c l)))
                                              (opt_strs locs)) (opt_strs codes)) ts.

(* ---------------------------------------------------------------- documents with several insertion points *)
(* A document whose text is fixed except that one request-derived value is inserted at several places
   (capabilities documents: the escaped host URL of the request).  Ins marks an insertion point. *)
Inductive seg := Fix (s : str) | Ins.
Definition fill (segs : list seg) (u : str) : str :=
  flat_map (fun g => match g with Fix s => s | Ins => u end) segs.

(* kind of a token, without its text *)
Inductive kind := KText | KTag | KOpen.
Definition tok_kind (t : tok) : kind := match t with Text _ => KText | Tag _ => KTag | Open _ => KOpen end.
Definition shape (l : list tok) : list kind := map tok_kind l.
Definition kind_code (k : kind) : Z := match k with KText => 0 | KTag => 1 | KOpen => 2 end.
Definition markup_freeb (s : str) : bool :=
  forallb (fun c => negb ((c =? c_lt) || (c =? c_gt) || (c =? c_quot) || (c =? c_apos))) s.
Definition valid_mode (m : mode) : Prop := match m with MQuote q => is_quote q = true | _ => True end.

(* ---------------------------------------------------------------- Request.host / url_scheme / host_url *)
(* mapproxy/request/base.py, read line by line.  A result None stands for `the Python code raises` (IndexError
   of split(..)[1]); the theorem host_never_raises shows that it cannot happen. *)
Record henv := {
  x_fwd_host : option str;     (* environ['HTTP_X_FORWARDED_HOST'] if present *)
  http_host : option str;      (* environ['HTTP_HOST'] if present *)
  x_fwd_proto : option str;    (* environ.get('HTTP_X_FORWARDED_PROTO') *)
  wsgi_scheme : str;           (* environ['wsgi.url_scheme'] *)
  server_name : str;           (* environ['SERVER_NAME'] *)
  server_port : str            (* environ['SERVER_PORT'] *)
}.

(* s.split(c) for a one-character separator: all pieces, never the empty list *)
Fixpoint split_on (c : Z) (s : str) : list str :=
  match s with
  | [] => [[]]
  | x :: r =>
      if x =? c then [] :: split_on c r
      else match split_on c r with
           | p :: ps => (x :: p) :: ps
           | [] => [[x]]
           end
  end.

(* str.isspace() *)
Definition py_space (c : Z) : bool :=
  ((9 <=? c) && (c <=? 13)) || ((28 <=? c) && (c <=? 32)) || (c =? 133) || (c =? 160) || (c =? 5760)
  || ((8192 <=? c) && (c <=? 8202)) || (c =? 8232) || (c =? 8233) || (c =? 8239) || (c =? 8287) || (c =? 12288).
Fixpoint lstrip (s : str) : str :=
  match s with [] => [] | c :: r => if py_space c then lstrip r else s end.
Definition strip (s : str) : str := rev (lstrip (rev (lstrip s))).

(* scheme = environ.get('HTTP_X_FORWARDED_PROTO'); if not scheme: scheme = environ['wsgi.url_scheme'] *)
Definition url_scheme (e : henv) : str :=
  match x_fwd_proto e with
  | Some (c :: r) => c :: r
  | _ => wsgi_scheme e
  end.

Definition s_https : str := [104; 116; 116; 112; 115].
Definition s_http : str := [104; 116; 116; 112].
(* (scheme, port) in (('https', '443'), ('http', '80')) *)
Definition default_port (scheme port : str) : bool :=
  (str_eqb scheme s_https && str_eqb port [52; 52; 51]) || (str_eqb scheme s_http && str_eqb port [56; 48]).

Definition host (e : henv) : option str :=
  match x_fwd_host e with
  | Some h =>
      (* host.split(',', 1)[0].strip() *)
      match nth_error (split_on 44 h) 0 with
      | Some first => Some (strip first)
      | None => None
      end
  | None =>
      match http_host e with
      | Some h =>
          if existsb (Z.eqb 58) h then                       (* if ':' in host *)
            match nth_error (split_on 58 h) 1 with           (* port = host.split(':')[1] *)
            | None => None
            | Some port =>
                if default_port (url_scheme e) port
                then nth_error (split_on 58 h) 0             (* host = host.split(':')[0] *)
                else Some h
            end
          else Some h
      | None =>
          Some (if default_port (url_scheme e) (server_port e) then server_name e
                else server_name e ++ [58] ++ server_port e)
      end
  end.

(* '%s://%s/' % (self.url_scheme, self.host) *)
Definition host_url (e : henv) : option str :=
  match host e with
  | Some h => Some (url_scheme e ++ [58; 47; 47] ++ h ++ [47])
  | None => None
  end.

(* ---------------------------------------------------------------- urllib.parse.quote, Request.script_url / base_url *)
(* str.encode('utf-8', 'strict') of one code point (quote(str) encodes first).  None stands for UnicodeEncodeError
   (a lone surrogate) or a number that is no code point. *)
Definition utf8 (c : Z) : option (list Z) :=
  if c <? 0 then None
  else if c <? 128 then Some [c]
  else if c <? 2048 then Some [192 + c / 64; 128 + c mod 64]
  else if (55296 <=? c) && (c <=? 57343) then None
  else if c <? 65536 then Some [224 + c / 4096; 128 + (c / 64) mod 64; 128 + c mod 64]
  else if c <? 1114112 then Some [240 + c / 262144; 128 + (c / 4096) mod 64; 128 + (c / 64) mod 64; 128 + c mod 64]
  else None.

(* _ALWAYS_SAFE (ASCII letters, digits, `_.-~`) plus the default safe='/' *)
Definition quote_safe (b : Z) : bool :=
  ((65 <=? b) && (b <=? 90)) || ((97 <=? b) && (b <=? 122)) || ((48 <=? b) && (b <=? 57))
  || (b =? 95) || (b =? 46) || (b =? 45) || (b =? 126) || (b =? 47).

(* '%{:02X}'.format(b) *)
Definition hexdigit (d : Z) : Z := if d <? 10 then 48 + d else 55 + d.
Definition quote_byte (b : Z) : str :=
  if quote_safe b then [b] else [37; hexdigit ((b / 16) mod 16); hexdigit (b mod 16)].

(* urllib.parse.quote(s) for a str s, default arguments *)
Fixpoint quote (s : str) : option str :=
  match s with
  | [] => Some []
  | c :: r =>
      match utf8 c, quote r with
      | Some bs, Some q => Some (flat_map quote_byte bs ++ q)
      | _, _ => None
      end
  end.

(* s.rstrip('/') *)
Fixpoint lstrip_c (ch : Z) (s : str) : str :=
  match s with [] => [] | c :: r => if c =? ch then lstrip_c ch r else s end.
Definition rstrip_c (ch : Z) (s : str) : str := rev (lstrip_c ch (rev s)).

Definition opt_default (d : str) (o : option str) : str := match o with Some s => s | None => d end.

(* Request.script_url:  self.host_url.rstrip('/') + quote(self.environ.get('SCRIPT_NAME', '/').rstrip('/')) *)
Definition script_url (e : henv) (script_name : option str) : option str :=
  match host_url e, quote (rstrip_c 47 (opt_default [47] script_name)) with
  | Some hu, Some q => Some (rstrip_c 47 hu ++ q)
  | _, _ => None
  end.

(* Request.base_url:  escape_html(self.host_url.rstrip('/')) + quote(environ.get('SCRIPT_NAME', '').rstrip('/'))
                      + quote(environ.get('PATH_INFO', '')) *)
Definition base_url (e : henv) (script_name path_info : option str) : option str :=
  match host_url e, quote (rstrip_c 47 (opt_default [] script_name)), quote (opt_default [] path_info) with
  | Some hu, Some q1, Some q2 => Some (escape_html (rstrip_c 47 hu) ++ q1 ++ q2)
  | _, _, _ => None
  end.
