(* Model of the tile services' addressing (C02): mapproxy/service/tile.py (TileServiceGrid, TileLayer.
   _internal_tile_coord, TileServer.map), service/wmts.py (_matrix_sets, TileMatrixSet), service/kml.py
   (forced 'sw', sub-tile links), the TMS TileMap / WMS-C TileSet templates, layer.py CacheMapLayer
   (tiled_only GetMap) and the client-side standard formulas for the rectangle of an address.
   Exact arithmetic over the integer lattice of Grid.v.  No proofs here. *)
From Coq Require Import ZArith List Bool.
Import ListNotations.
From MP Require Import Grid.
Local Open Scope Z_scope.

Definition coord := (Z * Z * Z)%type.

Inductive srs_kind := SrsMerc | SrsGeod | SrsOther.   (* == SRS(900913) / == SRS(4326) / anything else *)
Inductive profile := GlobalMercator | GlobalGeodetic | LocalProfile.

(* A TileLayer: the wrapped grid plus the facts about it that are not arithmetic on the lattice. *)
Record tlayer := mkLayer {
  sg : grid;
  s_srs : srs_kind;
  s_default_bbox : bool;   (* grid.bbox == default_bboxs[srs] *)
  s_sqrt2 : bool;          (* resolutions[0] / resolutions[1] == math.sqrt(2)  (a float test: input of the model) *)
  s_ne : bool;             (* srs.is_axis_order_ne *)
  s_mpu_n : Z; s_mpu_d : Z;  (* meter_per_unit(srs) as a rational *)
  s_extent : bbox;         (* layer.extent.bbox = md['extent'] transformed to the grid SRS *)
  s_scale : Z              (* lattice quanta per SRS unit (only the KML DELTA = -1e-7 needs it) *)
}.

(* ---- config/loader.py CacheConfiguration.caches(): one (grid, extent, tile manager) per grid of the cache; the extent is
   computed INSIDE the per-grid loop: the cache coverage if there is one, else the merged extent of the sources unless that
   is the default (world) extent, else the bbox of THIS grid (map_extent_from_grid).  (Extents in the SRS of the grid:
   TileLayer transforms md['extent'] to the grid SRS.) *)
Definition cache_extent (coverage src_extent : option bbox) (g : grid) : bbox :=
  match coverage with
  | Some c => c
  | None => match src_extent with
            | Some e => e
            | None => (gx0 g, gy0 g, gx1 g, gy1 g)
            end
  end.
Definition cache_tile_layers (coverage src_extent : option bbox) (grids : list grid) : list (grid * bbox) :=
  map (fun g => (g, cache_extent coverage src_extent g)) grids.

(* ---- service/wmts.py meter_per_unit: METERS_PER_DEEGREE = 111319.4907932736 (the double, as an exact rational) for every
   geographic SRS - whatever its ellipsoid -, 1 otherwise.  It is also the constant a WMTS client uses (OGC 07-057r7, 6.1). *)
Definition meters_per_degree : Z * Z := (7649817157831731, 68719476736).
Definition meter_per_unit (latlong : bool) : Z * Z := if latlong then meters_per_degree else (1, 1).

(* ---- TileServiceGrid.__init__ *)
Definition profile_of (s : tlayer) : profile :=
  match s_srs s, s_default_bbox s with
  | SrsMerc, true => GlobalMercator
  | SrsGeod, true => GlobalGeodetic
  | _, _ => LocalProfile
  end.
Definition skip_first (s : tlayer) : bool :=
  match profile_of s with LocalProfile => false | _ => true end.
Definition skip_odd (s : tlayer) : bool := s_sqrt2 s.

(* ---- TileServiceGrid.tile_sets: enumerate(range(start, num_levels, step)) with the level resolutions *)
Definition ts_start (s : tlayer) : Z := if skip_first s then (if skip_odd s then 2 else 1) else 0.
Definition ts_step (s : tlayer) : Z := if skip_odd s then 2 else 1.
Definition ts_count (s : tlayer) : Z := Z.max 0 (cdiv (levels (sg s) - ts_start s) (ts_step s)).
Definition tile_sets (s : tlayer) : list (Z * Z) :=
  map (fun k => (k, res_at (sg s) (ts_start s + k * ts_step s))) (zrange 0 (ts_count s - 1)).

(* ---- TileServiceGrid.internal_tile_coord / external_tile_coord *)
Definition public_level (s : tlayer) (use_profiles : bool) (z : Z) : Z :=
  let z1 := if use_profiles && skip_first s then z + 1 else z in
  if skip_odd s then z1 * 2 else z1.
(* all_levels (WMTS requests): the public level addresses every level of the grid, no sqrt2 doubling *)
Definition req_level (s : tlayer) (use_profiles all_levels : bool) (z : Z) : Z :=
  if all_levels then (if use_profiles && skip_first s then z + 1 else z) else public_level s use_profiles z.
Definition internal_tile_coord (s : tlayer) (x y z : Z) (use_profiles all_levels : bool) : option coord :=
  if z <? 0 then None else limit_tile (sg s) x y (req_level s use_profiles all_levels z).
Definition external_tile_coord (s : tlayer) (c : coord) (use_profiles : bool) : option coord :=
  let '(x, y, z) := c in
  if z <? 0 then None
  else
    let z1 := if use_profiles && skip_first s then z - 1 else z in
    Some (x, y, if skip_odd s then z1 / 2 else z1).

(* ---- TileServiceGrid.internal_level / .bbox (used by the demo pages only) *)
Definition internal_level (s : tlayer) (level : Z) : Z :=
  let l1 := if skip_first s then (if skip_odd s then level + 1 + 1 else level + 1) else level in
  if skip_odd s then l1 * 2 else l1.
(* the property looks up grid_sizes[internal_level(0)] (IndexError when that level does not exist: None) and then calls
   self.grid._get_bbox, which does not exist: the AttributeError raised inside the property makes Python fall back to
   __getattr__('bbox'), i.e. the bbox of the wrapped grid *)
Definition svc_bbox (s : tlayer) : option bbox :=
  if internal_level s 0 <? levels (sg s) then Some (gx0 (sg s), gy0 (sg s), gx1 (sg s), gy1 (sg s)) else None.

(* ---- TileLayer._internal_tile_coord: per-request origin *)
Inductive origin_req := ONone | OSW | ONW.
Definition flip_for (g : grid) (o : origin_req) (c : coord) : coord :=
  let '(x, y, z) := c in
  match o with
  | ONW => if ul g then c else flip_tile_coord g x y z
  | OSW => if ul g then flip_tile_coord g x y z else c
  | ONone => c
  end.
Definition layer_internal (s : tlayer) (o : origin_req) (use_profiles all_levels : bool) (x y z : Z) : option coord :=
  match internal_tile_coord s x y z use_profiles all_levels with
  | None => None                                   (* RequestError TileOutOfRange *)
  | Some c => Some (flip_for (sg s) o c)
  end.

(* ---- the services: which internal coordinate is handed to TileManager.load_tile_coord *)
Inductive address :=
| ATms (z x y : Z)                        (* /tms/1.0.0/layer/z/x/y.png *)
| ATiles (q : origin_req) (z x y : Z)     (* /tiles/layer/z/x/y.png?origin=q *)
| AKml (z x y : Z)                        (* /kml/layer/z/x/y.png *)
| AWmts (m col row : Z).                  (* KVP and RESTful GetTile *)

Definition wmts_offered (s : tlayer) : bool := supports_access_with_origin (sg s) true.

(* srv = the `origin` option of the tms service (TileServer.origin) *)
Definition served (s : tlayer) (srv : origin_req) (a : address) : option coord :=
  match a with
  | ATms z x y => layer_internal s OSW true false x y z   (* TMSRequest.origin = 'sw' (class attribute) is never overridden *)
  | ATiles q z x y =>
    let o := match q with ONone => srv | _ => q end in
    layer_internal s o false false x y z
  | AKml z x y => layer_internal s OSW false false x y z
  | AWmts m col row => if wmts_offered s then layer_internal s ONW false true col row m else None   (* request.all_levels *)
  end.

(* ---- TMS TileMap document (tms_tilemap_capabilities.xml) *)
Record tms_doc := mkTmsDoc {
  td_bbox : bbox; td_origin : Z * Z; td_tw : Z; td_th : Z; td_profile : profile; td_sets : list (Z * Z)
}.
Definition tms_tilemap (s : tlayer) : tms_doc :=
  let '(ex0, ey0, ex1, ey1) := s_extent s in
  mkTmsDoc (s_extent s) (ex0, ey0) (tw (sg s)) (th (sg s)) (profile_of s) (tile_sets s).

Fixpoint lookup_order (z : Z) (sets : list (Z * Z)) : option Z :=
  match sets with
  | [] => None
  | (o, r) :: rest => if o =? z then Some r else lookup_order z rest
  end.

(* TMS 1.0.0 client: tile (x, y) of the TileSet with units-per-pixel u covers
   [Ox + x*u*w, Ox + (x+1)*u*w] x [Oy + y*u*h, Oy + (y+1)*u*h] *)
Definition tms_client_rect (d : tms_doc) (z x y : Z) : option bbox :=
  match lookup_order z (td_sets d) with
  | None => None
  | Some u =>
    let '(ox, oy) := td_origin d in
    Some (ox + x * u * td_tw d, oy + y * u * td_th d, ox + (x + 1) * u * td_tw d, oy + (y + 1) * u * td_th d)
  end.

(* ---- WMTS TileMatrixSet (service/wmts.py TileMatrixSet._tile_matrices + wmts100capabilities.xml) *)
Record tile_matrix := mkTM {
  tm_id : Z; tm_scale_n : Z; tm_scale_d : Z;    (* ScaleDenominator = res / (0.28/1000) * meter_per_unit, as a rational *)
  tm_top : Z * Z;                               (* TopLeftCorner as printed (swapped for north/east axis order) *)
  tm_tw : Z; tm_th : Z; tm_w : Z; tm_h : Z
}.
Definition wmts_matrix (s : tlayer) (l : Z) : tile_matrix :=
  let g := sg s in
  let '(ox, oy, ol) := origin_tile g l true in
  let '(bx0, by0, bx1, by1) := tile_bbox g ox oy ol in
  let top := if s_ne s then (by1, bx0) else (bx0, by1) in
  let '(nx, ny) := grid_size g l in
  mkTM l (res_at g l * 100000 * s_mpu_n s) (28 * s_mpu_d s) top (tw g) (th g) nx ny.
(* None: _matrix_sets skips the layer (grid cannot be addressed from the north-west) *)
Definition wmts_matrix_set (s : tlayer) : option (list tile_matrix) :=
  if wmts_offered s then Some (map (wmts_matrix s) (zrange 0 (levels (sg s) - 1))) else None.

(* WMTS 1.0.0 client (OGC 07-057r7, 6.1): pixelSpan = ScaleDenominator * 0.28e-3 / metersPerUnit,
   tileSpan = tileSize * pixelSpan, left = col * spanX + tlx, upper = tly - row * spanY *)
Definition wmts_client_res (mpu_n mpu_d : Z) (m : tile_matrix) : Z :=
  (tm_scale_n m * 28 * mpu_d) / (tm_scale_d m * 100000 * mpu_n).
Definition wmts_client_rect (ne : bool) (mpu_n mpu_d : Z) (m : tile_matrix) (col row : Z) : bbox :=
  let r := wmts_client_res mpu_n mpu_d m in
  let '(tlx, tly) := if ne then (snd (tm_top m), fst (tm_top m)) else tm_top m in
  let sx := tm_tw m * r in
  let sy := tm_th m * r in
  (tlx + col * sx, tly - (row + 1) * sy, tlx + (col + 1) * sx, tly - row * sy).

(* ---- /tiles and /kml have no capabilities document: the documented convention is "TMS-like addresses
   counted from the corner of the grid bbox named by the origin" *)
Definition conv_rect (g : grid) (o_ul : bool) (x y l : Z) : bbox :=
  let r := res_at g l in
  if o_ul then (gx0 g + x * r * tw g, gy1 g - (y + 1) * r * th g, gx0 g + (x + 1) * r * tw g, gy1 g - y * r * th g)
  else (gx0 g + x * r * tw g, gy0 g + y * r * th g, gx0 g + (x + 1) * r * tw g, gy0 g + (y + 1) * r * th g).

Definition effective_origin (g : grid) (o : origin_req) : bool :=
  match o with ONone => ul g | OSW => false | ONW => true end.

(* rectangle a standards-following client computes for an address *)
Definition client_rect (s : tlayer) (srv : origin_req) (a : address) : option bbox :=
  match a with
  | ATms z x y => tms_client_rect (tms_tilemap s) z x y
  | ATiles q z x y =>
    let o := match q with ONone => srv | _ => q end in
    if z <? 0 then None else Some (conv_rect (sg s) (effective_origin (sg s) o) x y (public_level s false z))
  | AKml z x y => if z <? 0 then None else Some (conv_rect (sg s) false x y (public_level s false z))
  | AWmts m col row =>
    match wmts_matrix_set s with
    | None => None
    | Some ms =>
      match find (fun tm => tm_id tm =? m) ms with
      | None => None
      | Some tm =>
        if (0 <=? col) && (col <? tm_w tm) && (0 <=? row) && (row <? tm_h tm)
        then Some (wmts_client_rect (s_ne s) (s_mpu_n s) (s_mpu_d s) tm col row) else None
      end
    end
  end.

(* ---- KML super-overlay: address written into the href of a sub-tile (kml.py _get_subtiles) *)
(* the row is flipped with the grid size of the internal level, then the level is made public *)
Definition kml_href_coord (s : tlayer) (c : coord) : option coord :=
  let '(x, y, z) := c in
  external_tile_coord s (if ul (sg s) then flip_tile_coord (sg s) x y z else (x, y, z)) false.

Inductive kml_doc :=
| KmlOutOfRange                 (* RequestError: outside the bounding box *)
| KmlCrash                      (* GridError from get_affected_level_tiles: answered 500 *)
| KmlDoc (b : bbox) (subs : list (option coord * bbox)).   (* region, [(href coord, LatLonBox in grid SRS)] *)

Definition kml_document (s : tlayer) (x y z : Z) : kml_doc :=
  let g := sg s in
  match layer_internal s OSW false false x y z with
  | None => KmlOutOfRange
  | Some (ix, iy, iz) =>
    let bb := limit_bbox g (tile_bbox g ix iy iz) in
    match internal_tile_coord s x y (z + 1) false false with
    | None => KmlDoc bb []                         (* last level: no sub tiles *)
    | Some (_, _, lvl) =>
      match affected_level_tiles g bb lvl with
      | InvalidBBOX => KmlCrash
      | Affected _ _ _ tiles =>
        let '(b0, b1, _, _) := bb in
        KmlDoc bb
          (flat_map (fun oc =>
             match oc with
             | None => []
             | Some (cx, cy, cz) =>
               let sb := tile_bbox g cx cy cz in
               let '(s0, s1, _, _) := sb in
               (* (sub_bbox[0] - bbox[0]) > DELTA and (sub_bbox[1] - bbox[1]) > DELTA, DELTA = -1e-7 *)
               if (0 <? (s0 - b0) * 10000000 + s_scale s) && (0 <? (s1 - b1) * 10000000 + s_scale s)
               then [(kml_href_coord s (cx, cy, cz), sb)] else []
             end) tiles)
      end
    end
  end.

(* ---- kml.py _tile_bbox_to_wgs: the LatLonBox written into the document.  T = grid.srs.transform_bbox_to(SRS(4326), ..) is
   PROJ (external).  For grids in SRS(900913) a rectangle whose lower / upper edge lies within 1/10 unit of the border of the
   mercator WORLD (+-20037508.342789244, a constant - not the border of the grid) is extended to the pole. *)
Definition kml_bbox_to_wgs (T : bbox -> bbox) (merc : bool) (world tenth pole : Z) (src : bbox) : bbox :=
  let '(b0, b1, b2, b3) := T src in
  if merc then
    let '(_, s1, _, s3) := src in
    (b0, (if Z.abs (s1 - (- world)) <? tenth then - pole else b1), b2, (if Z.abs (s3 - world) <? tenth then pole else b3))
  else (b0, b1, b2, b3).

(* ---- WMS-C: GetMap with tiled=true (layer.py CacheMapLayer.get_map/_check_tiled/_image) *)
Inductive wmsc_result := WLoaded (c : coord) | WBlank | WRefused.

(* bbox_equals(bbox, src_bbox, |w|/sx/10, |h|/sy/10): min corner against the x tolerance, max corner against y *)
Definition bbox_equals_tenth (a b : bbox) (sx sy : Z) : bool :=
  let '(a0, a1, a2, a3) := a in
  let '(b0, b1, b2, b3) := b in
  let w := Z.abs (a2 - a0) in
  let h := Z.abs (a3 - a1) in
  (Z.abs (a0 - b0) * (10 * sx) <? w) && (Z.abs (a1 - b1) * (10 * sx) <? w) &&
  (Z.abs (a2 - b2) * (10 * sy) <? h) && (Z.abs (a3 - b3) * (10 * sy) <? h).

Definition wmsc_get_map (g : grid) (b : bbox) (sx sy : Z) : wmsc_result :=
  if negb ((sx =? tw g) && (sy =? th g)) then WRefused          (* invalid tile size *)
  else
    match affected_level g b sx sy with
    | None => WBlank                                            (* NoTiles *)
    | Some l =>
      match affected_level_tiles g b l with
      | InvalidBBOX => WRefused
      | Affected ab nx ny tiles =>
        if 1 <? nx * ny then WRefused                           (* not a single tile *)
        else if negb (bbox_equals_tenth b ab sx sy) then WRefused   (* does not align to tile boundaries *)
        else match tiles with
             | [Some c] => WLoaded c
             | _ => WBlank                                      (* tile outside the grid: empty collection *)
             end
      end
    end.

(* WMS-C TileSet of the WMS 1.1.1 capabilities: BoundingBox = layer extent, Resolutions = tile_sets, tile size.
   Client (WMS-C recommendation): tile (i, j) at resolution r covers
   [minx + i*r*w, ...] x [miny + j*r*h, ...] counted from the lower-left corner of the BoundingBox *)
Definition wmsc_client_rect (s : tlayer) (r i j : Z) : bbox :=
  let '(ex0, ey0, _, _) := s_extent s in
  let g := sg s in
  (ex0 + i * r * tw g, ey0 + j * r * th g, ex0 + (i + 1) * r * tw g, ey0 + (j + 1) * r * th g).

(* ---- comparison helpers for the correspondence *)
Definition ocoord_eq (a b : option coord) : bool := ocoord_eqb a b.

Definition profile_eqb (a b : profile) : bool :=
  match a, b with
  | GlobalMercator, GlobalMercator | GlobalGeodetic, GlobalGeodetic | LocalProfile, LocalProfile => true
  | _, _ => false
  end.

Definition obbox_close (tol : Z) (a b : option bbox) : bool :=
  match a, b with
  | Some x, Some y => bbox_close tol x y
  | None, None => true
  | _, _ => false
  end.

Definition tm_close (tol : Z) (a b : tile_matrix) : bool :=
  (tm_id a =? tm_id b) && (tm_scale_n a * tm_scale_d b =? tm_scale_n b * tm_scale_d a) &&
  (Z.abs (fst (tm_top a) - fst (tm_top b)) <=? tol) && (Z.abs (snd (tm_top a) - snd (tm_top b)) <=? tol) &&
  (tm_tw a =? tm_tw b) && (tm_th a =? tm_th b) && (tm_w a =? tm_w b) && (tm_h a =? tm_h b).

Fixpoint tms_close (tol : Z) (a b : list tile_matrix) : bool :=
  match a, b with
  | [], [] => true
  | x :: a', y :: b' => tm_close tol x y && tms_close tol a' b'
  | _, _ => false
  end.

Definition omatrices_close (tol : Z) (a b : option (list tile_matrix)) : bool :=
  match a, b with
  | Some x, Some y => tms_close tol x y
  | None, None => true
  | _, _ => false
  end.

Definition tms_doc_eqb (a b : tms_doc) : bool :=
  bbox_eqb (td_bbox a) (td_bbox b) && (fst (td_origin a) =? fst (td_origin b)) && (snd (td_origin a) =? snd (td_origin b)) &&
  (td_tw a =? td_tw b) && (td_th a =? td_th b) && profile_eqb (td_profile a) (td_profile b) &&
  pairs_eqb (td_sets a) (td_sets b).

Definition wmsc_eqb (a b : wmsc_result) : bool :=
  match a, b with
  | WLoaded x, WLoaded y => coord_eqb x y
  | WBlank, WBlank | WRefused, WRefused => true
  | _, _ => false
  end.

Fixpoint subs_close (tol : Z) (a b : list (option coord * bbox)) : bool :=
  match a, b with
  | [], [] => true
  | (c, r) :: a', (c', r') :: b' => ocoord_eqb c c' && bbox_close tol r r' && subs_close tol a' b'
  | _, _ => false
  end.

Definition kml_doc_close (tol : Z) (a b : kml_doc) : bool :=
  match a, b with
  | KmlOutOfRange, KmlOutOfRange | KmlCrash, KmlCrash => true
  | KmlDoc r s, KmlDoc r' s' => bbox_close tol r r' && subs_close tol s s'
  | _, _ => false
  end.

(* ---- request objects and schedules.  request/tile.py: TileRequest has the CLASS attribute `dimensions = {}`;
   _init_request assigns a fresh dict to the INSTANCE (`self.dimensions = {}`) and stores the grid path element of the URL
   in it (`_layer_spec`); TileServer.layer / KMLServer.layer read it later, when the request is handled.  A WSGI server runs
   requests of several threads interleaved: parsing and handling of different requests alternate arbitrarily. *)
Record treq := mkReq {
  rq_kml : bool;              (* KMLServer (True) or TileServer *)
  rq_layer : Z;               (* layer name (an identifier) *)
  rq_spec : option Z;         (* grid path element, e.g. EPSG3857 -> 3857; None: not given *)
  rq_addr : address
}.
Inductive rev := RParse (i : nat) | RHandle (i : nat).

Record rstate := mkRS {
  cls_dims : option Z;                      (* _layer_spec entry of the class-level dict *)
  inst_dims : list (nat * option Z);        (* requests whose instance owns a dict, latest first *)
  answers : list (nat * option coord)       (* coordinate handed to the tile manager (None: refused), latest first *)
}.
Definition rs_init : rstate := mkRS None [] [].

Fixpoint assoc_nat {A} (i : nat) (l : list (nat * A)) : option A :=
  match l with
  | [] => None
  | (k, v) :: r => if Nat.eqb k i then Some v else assoc_nat i r
  end.

(* attribute lookup: the instance attribute if there is one, else the class attribute *)
Definition dims_of (st : rstate) (i : nat) : option Z :=
  match assoc_nat i (inst_dims st) with Some d => d | None => cls_dims st end.

(* the layers of a tile service: name_internal = <layer>_<SRS code> -> TileLayer *)
Definition layer_table := list (Z * Z * tlayer).
Fixpoint find_layer (t : layer_table) (name spec : Z) : option tlayer :=
  match t with
  | [] => None
  | (n, sp, l) :: r => if (n =? name) && (sp =? spec) then Some l else find_layer r name spec
  end.
(* TileServer._internal_layer / KMLServer._internal_layer: without path element the 900913 and 4326 grids are tried
   (TileServer: 900913 first, KMLServer: 4326 first) *)
Definition internal_layer (t : layer_table) (kml : bool) (name : Z) (spec : option Z) : option tlayer :=
  match spec with
  | Some sp => find_layer t name sp
  | None =>
    let first := if kml then 4326 else 900913 in
    let second := if kml then 900913 else 4326 in
    match find_layer t name first with
    | Some l => Some l
    | None => find_layer t name second
    end
  end.

Definition handle_with (t : layer_table) (srv : origin_req) (r : treq) (spec : option Z) : option coord :=
  match internal_layer t (rq_kml r) (rq_layer r) spec with
  | None => None                                   (* unknown layer *)
  | Some l => served l srv (rq_addr r)
  end.

Definition rstep (t : layer_table) (srv : origin_req) (reqs : nat -> treq) (st : rstate) (e : rev) : rstate :=
  match e with
  | RParse i => mkRS (cls_dims st) ((i, rq_spec (reqs i)) :: inst_dims st) (answers st)
  | RHandle i => mkRS (cls_dims st) (inst_dims st) ((i, handle_with t srv (reqs i) (dims_of st i)) :: answers st)
  end.
Definition run_schedule (t : layer_table) (srv : origin_req) (reqs : nat -> treq) (sched : list rev) : rstate :=
  fold_left (rstep t srv reqs) sched rs_init.

Definition answer_of (st : rstate) (i : nat) : option (option coord) := assoc_nat i (answers st).
