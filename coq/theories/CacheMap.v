(* C05  Every cache backend behaves like a map from tile address to bytes.

   This file: the specification (a map address -> option bytes with store / store_many / load / load_many /
   is_cached / remove), the text rendering of the path tokens generated from mapproxy/cache/path.py
   (gen/Gen_path.v) and compact.py (gen/Gen_compact.v), the storage key of every backend, and the generic
   "store keyed through a key function".  The detailed operational models of the backends are in FileCache.v
   (file system with symlinked / hardlinked single-colour tiles) and SqlCache.v (sqlite bulk load with its
   argument batching, per-level dispatch); the compact caches are the keyed store over `compact_key` (their
   byte-level model belongs to C19).
   No proofs here: the model must keep evaluating when a proof breaks. *)
From Coq Require Import ZArith NArith List Bool String Ascii Arith.
From Coq Require Decimal Hexadecimal DecimalString HexadecimalString.
Import ListNotations.
From MP Require Import Base Gen_path Gen_compact.

(* ------------------------------------------------------------------ text *)
Definition text := list ascii.
Definition s2t (s : string) : text := list_ascii_of_string s.
Definition t2s (t : text) : string := string_of_list_ascii t.

Definition text_eqb (a b : text) : bool := list_eqb Ascii.eqb a b.

Fixpoint text_leb (a b : text) : bool :=
  match a, b with
  | [], _ => true
  | _ :: _, [] => false
  | x :: a', y :: b' =>
    let nx := N_of_ascii x in let ny := N_of_ascii y in
    if N.ltb nx ny then true else if N.ltb ny nx then false else text_leb a' b'
  end.

Fixpoint starts_with (p s : text) : bool :=
  match p, s with
  | [], _ => true
  | _ :: _, [] => false
  | x :: p', y :: s' => Ascii.eqb x y && starts_with p' s'
  end.

(* ------------------------------------------------------------------ addresses, payloads, operations *)
(* dimension values as (key, value) pairs in the order of the python dict; keys lower-case and distinct
   (NoCaseMultiDict lower-cases the keys and merges keys that differ in case only; not modelled) *)
Definition dims := list (text * text).
Record addr := mkAddr { ax : Z; ay : Z; az : Z; adims : dims }.

Definition dims_eqb (a b : dims) : bool := list_eqb (pair_eqb text_eqb text_eqb) a b.
Definition addr_eqb (a b : addr) : bool :=
  Z.eqb (ax a) (ax b) && Z.eqb (ay a) (ay b) && Z.eqb (az a) (az b) && dims_eqb (adims a) (adims b).

(* a payload: opaque content of a tile (in the correspondence: the decoded pixel values) *)
Definition bytes := list Z.
Definition bytes_eqb (a b : bytes) : bool := list_eqb Z.eqb a b.

Inductive op :=
| Store (a : addr) (b : bytes)
| StoreMany (l : list (addr * bytes))
| Load (a : addr)
| LoadMany (l : list addr)
| IsCached (a : addr)
| Remove (a : addr).

Inductive out :=
| ODone
| OLoad (r : option bytes)
| OLoadMany (ok : bool) (r : list (option bytes))   (* return value of load_tiles, content of every tile *)
| OCached (b : bool)
| OErr.                                              (* the call raised *)

Definition out_eqb (a b : out) : bool :=
  match a, b with
  | ODone, ODone => true
  | OLoad x, OLoad y => opt_eqb bytes_eqb x y
  | OLoadMany f x, OLoadMany g y => Bool.eqb f g && list_eqb (opt_eqb bytes_eqb) x y
  | OCached x, OCached y => Bool.eqb x y
  | OErr, OErr => true
  | _, _ => false
  end.

Definition is_some {A} (o : option A) : bool := match o with Some _ => true | None => false end.
Definition load_many_out (r : list (option bytes)) : out := OLoadMany (forallb is_some r) r.

(* ------------------------------------------------------------------ the specification *)
Definition smap := addr -> option bytes.
Definition sempty : smap := fun _ => None.
Definition supd (m : smap) (a : addr) (v : option bytes) : smap :=
  fun a' => if addr_eqb a' a then v else m a'.

Definition spec_step (m : smap) (o : op) : smap * out :=
  match o with
  | Store a b => (supd m a (Some b), ODone)
  | StoreMany l => (fold_left (fun m ab => supd m (fst ab) (Some (snd ab))) l m, ODone)
  | Load a => (m, OLoad (m a))
  | LoadMany l => (m, load_many_out (map m l))
  | IsCached a => (m, OCached (is_some (m a)))
  | Remove a => (supd m a None, ODone)
  end.

Fixpoint spec_run (m : smap) (ops : list op) : smap * list out :=
  match ops with
  | [] => (m, [])
  | o :: r => let (m', x) := spec_step m o in let (m'', xs) := spec_run m' r in (m'', x :: xs)
  end.

(* ------------------------------------------------------------------ a store keyed through a key function *)
Section Keyed.
  Context {K : Type}.
  Variable keqb : K -> K -> bool.
  Variable key : addr -> K.

  Definition kv := list (K * bytes).

  Fixpoint kv_get (s : kv) (k : K) : option bytes :=
    match s with
    | [] => None
    | (k', v) :: r => if keqb k' k then Some v else kv_get r k
    end.

  Fixpoint kv_del (s : kv) (k : K) : kv :=
    match s with
    | [] => []
    | (k', v) :: r => if keqb k' k then kv_del r k else (k', v) :: kv_del r k
    end.

  Definition kv_put (s : kv) (k : K) (v : bytes) : kv := (k, v) :: kv_del s k.

  Definition kv_step (s : kv) (o : op) : kv * out :=
    match o with
    | Store a b => (kv_put s (key a) b, ODone)
    | StoreMany l => (fold_left (fun s ab => kv_put s (key (fst ab)) (snd ab)) l s, ODone)
    | Load a => (s, OLoad (kv_get s (key a)))
    | LoadMany l => (s, load_many_out (map (fun a => kv_get s (key a)) l))
    | IsCached a => (s, OCached (is_some (kv_get s (key a))))
    | Remove a => (kv_del s (key a), ODone)
    end.

  Fixpoint kv_run (s : kv) (ops : list op) : kv * list out :=
    match ops with
    | [] => (s, [])
    | o :: r => let (s', x) := kv_step s o in let (s'', xs) := kv_run s' r in (s'', x :: xs)
    end.
End Keyed.

(* ------------------------------------------------------------------ rendering of format tokens *)
Definition pad_dec (w : nat) (n : N) : text :=
  let d := N.to_uint n in
  s2t (DecimalString.NilEmpty.string_of_uint (Nat.iter (w - Decimal.nb_digits d) Decimal.D0 d)).

Definition pad_hex (w : nat) (n : N) : text :=
  let d := N.to_hex_uint n in
  s2t (HexadecimalString.NilEmpty.string_of_uint (Nat.iter (w - Hexadecimal.nb_digits d) Hexadecimal.D0 d)).

(* python: '%0<w>d' % n; the sign counts for the width *)
Definition render_int (padf : nat -> N -> text) (w : nat) (n : Z) : text :=
  if Z.ltb n 0 then "-"%char :: padf (w - 1)%nat (Z.to_N (- n)) else padf w (Z.to_N n).

Definition render_tok (t : tok) : text :=
  match t with
  | TLit s => s2t s
  | TStr s => s2t s
  | TDec n => render_int pad_dec 0 n
  | TPadDec w n => render_int pad_dec w n
  | TPadHex w n => render_int pad_hex w n
  | TCatDec l => List.concat (map (render_int pad_dec 0) l)
  end.

Definition render_toks (l : list tok) : text := List.concat (map render_tok l).

(* ------------------------------------------------------------------ dimensions_part / _path_component *)
(* python: for char, escaped in (('%','%25'), ('/','%2F'), ('\\','%5C'), ('\0','%00')): name = name.replace(...)
   '%' is replaced first and no later replacement re-reads inserted text: a per-character substitution *)
Definition esc_char (c : ascii) : text :=
  if Ascii.eqb c "%"%char then s2t "%25"
  else if Ascii.eqb c "/"%char then s2t "%2F"
  else if Ascii.eqb c "\"%char then s2t "%5C"
  else if Ascii.eqb c zero then s2t "%00"
  else [c].
Definition esc (s : text) : text := List.concat (map esc_char s).

Fixpoint insert_sorted (k : text) (l : list text) : list text :=
  match l with
  | [] => [k]
  | h :: r => if text_leb k h then k :: l else h :: insert_sorted k r
  end.
Definition sort_texts (l : list text) : list text := fold_right insert_sorted [] l.

Definition is_custom_dim (k : text) : bool := starts_with (s2t "dim_") k.

(* dim_keys = sorted(predefined_dims) + sorted(custom_dims) *)
Definition dim_keys (ks : list text) : list text :=
  sort_texts (filter (fun k => negb (is_custom_dim k)) ks) ++ sort_texts (filter is_custom_dim ks).

Fixpoint dim_get (d : dims) (k : text) : text :=
  match d with
  | [] => s2t "default"
  | (k', v) :: r => if text_eqb k' k then v else dim_get r k
  end.

Definition dim_component (d : dims) (k : text) : text := esc (k ++ "-"%char :: dim_get d k).

(* the components dimensions_part contributes to the path ("" -> none) *)
Definition dims_part (d : dims) : list text := map (dim_component d) (dim_keys (map fst d)).

(* ------------------------------------------------------------------ file cache keys *)
Definition render_comp (d : dims) (c : comp) : list text :=
  match c with
  | CRoot => []
  | CDims => dims_part d
  | CTok l => [render_toks l]
  end.

(* path below cache_dir as a list of components *)
Definition render_path (d : dims) (cs : list comp) : list text := flat_map (render_comp d) cs.

Definition path := list text.
Definition path_eqb (a b : path) : bool := list_eqb text_eqb a b.

Definition layout_fun := Z -> Z -> Z -> string -> list comp.

Definition file_key (f : layout_fun) (ext : string) (a : addr) : path :=
  render_path (adims a) (f (ax a) (ay a) (az a) ext).

Fixpoint join_path (p : path) : text :=
  match p with
  | [] => []
  | [c] => c
  | c :: r => c ++ "/"%char :: join_path r
  end.

(* ------------------------------------------------------------------ sqlite keys *)
(* MBTilesCache / GeopackageCache: row (tile_column, tile_row, zoom_level) = tile.coord; dimensions are not part
   of the key (the configuration loader refuses dimension layers on these back-ends).  The per-level variants
   choose the file '<level>.mbtile' / '<level>.gpkg' first: the same triple decides. *)
Definition sql_key (a : addr) : Z * Z * Z := (ax a, ay a, az a).

(* ------------------------------------------------------------------ compact cache keys *)
(* bundle file (below cache_dir, without extension) and byte offset of the index entry *)
Definition compact_key (v2 : bool) (a : addr) : path * Z :=
  (render_path [] (bundle_fname (ax a) (ay a) (az a)),
   if v2 then let (rx, ry) := v2_rel_tile_coord (ax a) (ay a) in v2_tile_idx_offset rx ry
   else let (rx, ry) := v1_rel_tile_coord (ax a) (ay a) in v1_tile_index_offset rx ry).
Definition compact_key_eqb (a b : path * Z) : bool := path_eqb (fst a) (fst b) && Z.eqb (snd a) (snd b).

(* ------------------------------------------------------------------ helpers for the correspondence cases *)
Definition mk_dims (l : list (string * string)) : dims := map (fun kv => (s2t (fst kv), s2t (snd kv))) l.
Definition A (x y z : Z) (d : list (string * string)) : addr := mkAddr x y z (mk_dims d).

Definition outs_eqb (a b : list out) : bool := list_eqb out_eqb a b.
