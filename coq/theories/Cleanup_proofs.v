(* C12  Lemmas about the cleanup model (Cleanup.v). *)
From Coq Require Import ZArith List Bool Lia.
Import ListNotations.
From MP Require Import Base Cleanup.
Open Scope Z_scope.

(* ------------------------------------------------------------------ lists *)

Lemma filter_filter_and {A} (f g : A -> bool) (c : list A) :
  filter g (filter f c) = filter (fun e => f e && g e) c.
Proof.
  induction c as [|a c IH]; cbn [filter]; [reflexivity|].
  destruct (f a); cbn [filter andb]; [destruct (g a); rewrite IH; reflexivity | exact IH].
Qed.

Lemma filter_true {A} (c : list A) : filter (fun _ => true) c = c.
Proof. induction c as [|a c IH]; cbn [filter]; [reflexivity | rewrite IH; reflexivity]. Qed.

Lemma filter_ext_in' {A} (f g : A -> bool) (c : list A) :
  (forall e, In e c -> f e = g e) -> filter f c = filter g c.
Proof.
  induction c as [|a c IH]; intros H; cbn [filter]; [reflexivity|].
  rewrite (H a (or_introl eq_refl)), IH; [reflexivity|].
  intros e He; apply H; right; exact He.
Qed.

(* a loop of removals is one filter *)
Lemma fold_filter {A B} (r : B -> A -> bool) (ls : list B) (c : list A) :
  fold_left (fun c l => filter (fun e => negb (r l e)) c) ls c
  = filter (fun e => negb (existsb (fun l => r l e) ls)) c.
Proof.
  revert c; induction ls as [|l ls IH]; intros c; cbn [fold_left existsb].
  - cbn [negb]. symmetry; apply filter_true.
  - rewrite IH, filter_filter_and. apply filter_ext_in'; intros e _.
    rewrite negb_orb. reflexivity.
Qed.

Lemma filter_agree_on {A} (p f g : A -> bool) (c : list A) :
  (forall e, In e c -> p e = true -> f e = g e) ->
  filter p (filter f c) = filter p (filter g c).
Proof.
  intros H. rewrite !filter_filter_and. apply filter_ext_in'; intros e He.
  destruct (p e) eqn:P; [rewrite (H e He P); reflexivity | rewrite !andb_false_r; reflexivity].
Qed.

Lemma memZ_In l ls : memZ l ls = true <-> In l ls.
Proof.
  unfold memZ. rewrite existsb_exists. split.
  - intros [x [Hx E]]. apply Z.eqb_eq in E. subst; exact Hx.
  - intros H; exists l; split; [exact H | apply Z.eqb_refl].
Qed.

Lemma Z3_eqb_eq a b : Z3_eqb a b = true <-> a = b.
Proof.
  destruct a as [[a1 a2] a3], b as [[b1 b2] b3]. unfold Z3_eqb.
  rewrite !andb_true_iff, !Z.eqb_eq. split; [intros [[-> ->] ->]; reflexivity | intros H; inversion H; auto].
Qed.

Lemma mem_coord_In m ws : mem_coord m ws = true <-> In m ws.
Proof.
  unfold mem_coord. rewrite existsb_exists. split.
  - intros [x [Hx E]]. apply Z3_eqb_eq in E. subst; exact Hx.
  - intros H; exists m; split; [exact H | apply Z3_eqb_eq; reflexivity].
Qed.

(* ------------------------------------------------------------------ each strategy is one filter *)

(* what simple_cleanup removes while it handles level l *)
Definition simple_removes (b : backend) (t : task) (l : Z) (e : entry) : bool :=
  match b with
  | BFile lay => match level_dir lay l with
                 | Some d => dir_removes b d (t_T t) (t_all t) e
                 | None => false
                 end
  | _ => false
  end.

(* closed form: is entry e removed by cleanup of task t (walk = the processed meta tiles) *)
Definition removed_by (b : backend) (q : Z) (msize : Z -> Z * Z) (t : task) (walked : list coord) (e : entry) : bool :=
  match strategy b t with
  | SSkip => false
  | SDir => existsb (fun l => simple_removes b t l e) (t_levels t)
  | SCache => existsb (fun l => level_removes b q l (t_T t) (t_all t) e) (t_levels t)
  | SWalk => existsb (fun mt => handled b q msize (t_T t) (t_all t) mt e) walked
  end.

Lemma simple_cleanup_filter b t c :
  simple_cleanup b t c = filter (fun e => negb (existsb (fun l => simple_removes b t l e) (t_levels t))) c.
Proof.
  rewrite <- fold_filter. unfold simple_cleanup.
  generalize (t_levels t) as ls. intros ls; revert c.
  induction ls as [|l ls IH]; intros c; cbn [fold_left]; [reflexivity|].
  rewrite <- IH. f_equal.
  unfold simple_removes, cleanup_directory. destruct b; try (symmetry; apply filter_true).
  destruct (level_dir lay l); [reflexivity | symmetry; apply filter_true].
Qed.

Theorem cleanup_task_filter b q msize t walked c :
  cleanup_task b q msize t walked c = filter (fun e => negb (removed_by b q msize t walked e)) c.
Proof.
  unfold cleanup_task, removed_by. destruct (strategy b t).
  - symmetry; apply filter_true.
  - apply simple_cleanup_filter.
  - unfold cache_cleanup. apply fold_filter.
  - unfold tilewalker_cleanup.
    change (handle_meta b q msize (t_T t) (t_all t))
      with (fun c mt => filter (fun e => negb (handled b q msize (t_T t) (t_all t) mt e)) c).
    apply (fold_filter (fun mt e => handled b q msize (t_T t) (t_all t) mt e)).
Qed.

Lemma cleanup_task_In b q msize t walked c e :
  In e (cleanup_task b q msize t walked c) <-> In e c /\ removed_by b q msize t walked e = false.
Proof. rewrite cleanup_task_filter, filter_In, negb_true_iff. tauto. Qed.

(* nothing is created *)
Lemma cleanup_task_sub b q msize t walked c e :
  In e (cleanup_task b q msize t walked c) -> In e c.
Proof. rewrite cleanup_task_In. tauto. Qed.

(* ------------------------------------------------------------------ pointwise: removed_by = spec_removed *)

Lemma existsb_eqb_and (l : Z) (X : bool) (ls : list Z) :
  existsb (fun l' => (l' =? l) && X) ls = memZ l ls && X.
Proof.
  unfold memZ. induction ls as [|a ls IH]; cbn [existsb]; [reflexivity|].
  rewrite IH, (Z.eqb_sym l a). destruct (a =? l), X, (existsb (Z.eqb l) ls); reflexivity.
Qed.

Lemma existsb_ext' {A} (f g : A -> bool) (ls : list A) :
  (forall x, In x ls -> f x = g x) -> existsb f ls = existsb g ls.
Proof.
  induction ls as [|a ls IH]; intros H; cbn [existsb]; [reflexivity|].
  rewrite (H a (or_introl eq_refl)), IH; [reflexivity | intros x Hx; apply H; right; exact Hx].
Qed.

Lemma strategy_dir_layout b t :
  strategy b t = SDir -> exists lay, b = BFile lay /\ forall l, exists d, level_dir lay l = Some d.
Proof.
  unfold strategy. destruct (t_skip t); [discriminate|]. destruct (t_complete t); [|discriminate].
  destruct (has_level_location b) eqn:H; [| destruct (has_remove_level b); discriminate].
  intros _. destruct b; try discriminate. exists lay; split; [reflexivity|].
  intros l. destruct lay; cbn in H |- *; try discriminate; eexists; reflexivity.
Qed.

(* the directory cleaned for level l' is the directory of the tiles of level l exactly when l' = l *)
Lemma level_dir_hits lay l' l d d' :
  level_dir lay l' = Some d -> tile_dir lay l = Some d' ->
  dname_eqb d d' = (l' =? l).
Proof.
  intros H1 H2. destruct lay; cbn in H1, H2; inversion H1; inversion H2; subst; reflexivity.
Qed.

Lemma dir_layout_tile_dir lay l d : level_dir lay l = Some d -> exists d', tile_dir lay l = Some d'.
Proof. destruct lay; cbn; intros H; try discriminate; eexists; reflexivity. Qed.

Lemma removed_dir_spec b q msize t walked e :
  strategy b t = SDir -> is_tile e = true -> dim_visible b e = true ->
  removed_by b q msize t walked e
  = spec_removed (older_dir (t_T t)) (t_levels t) (t_all t) everywhere msize e.
Proof.
  intros S Ht Hd. unfold removed_by; rewrite S.
  destruct (strategy_dir_layout b t S) as [lay [-> Hlay]].
  unfold spec_removed, is_tile in *. destruct (e_place e) as [dim l x y| | |] eqn:P; try discriminate.
  unfold dim_visible in Hd; rewrite P in Hd.
  unfold everywhere. rewrite andb_true_r.
  rewrite <- (existsb_eqb_and l (t_all t || older_dir (t_T t) (e_mtime e)) (t_levels t)).
  apply existsb_ext'; intros l' _.
  unfold simple_removes. destruct (Hlay l') as [d Hd']. rewrite Hd'.
  destruct (dir_layout_tile_dir lay l' d Hd') as [dt0 _].
  assert (exists d', tile_dir lay l = Some d') as [d' Hd''] by (destruct lay; cbn in Hd' |- *; try discriminate; eexists; reflexivity).
  unfold dir_removes, in_top, top_dir, is_tile. rewrite P. cbn [tile_top]. rewrite Hd'', Hd. cbn [andb negb orb].
  rewrite (level_dir_hits lay l' l d d' Hd' Hd''). reflexivity.
Qed.

Lemma strategy_cache_backend b t : strategy b t = SCache -> has_remove_level b = true.
Proof.
  unfold strategy. destruct (t_skip t); [discriminate|]. destruct (t_complete t); [|discriminate].
  destruct (has_level_location b); [discriminate|]. destruct (has_remove_level b); [reflexivity | discriminate].
Qed.

Lemma removed_cache_spec b q msize t walked e :
  strategy b t = SCache -> is_tile e = true -> dim_visible b e = true ->
  (stores_timestamp b = true \/ t_all t = true) ->
  removed_by b q msize t walked e
  = spec_removed (older_sql q (t_T t)) (t_levels t) (t_all t) everywhere msize e.
Proof.
  intros S Ht Hd Hts. unfold removed_by; rewrite S. pose proof (strategy_cache_backend b t S) as Hb.
  unfold spec_removed, is_tile in *. destruct (e_place e) as [dim l x y| | |] eqn:P; try discriminate.
  unfold dim_visible in Hd; rewrite P in Hd.
  unfold everywhere. rewrite andb_true_r.
  rewrite <- (existsb_eqb_and l (t_all t || older_sql q (t_T t) (e_mtime e)) (t_levels t)).
  apply existsb_ext'; intros l' _.
  unfold level_removes, is_level_tile, tile_level, in_top, top_dir. rewrite P.
  rewrite (Z.eqb_sym l l').
  destruct b as [lay|ts| | | |]; cbn in Hb, Hts |- *; try discriminate.
  - destruct (t_all t); cbn [orb]; [rewrite andb_true_r; reflexivity|].
    destruct ts; [reflexivity|]. destruct Hts; discriminate.
  - destruct (t_all t); cbn [orb]; [rewrite andb_true_r, orb_false_r; reflexivity | reflexivity].
  - destruct (t_all t); cbn [orb]; [rewrite andb_true_r; reflexivity | destruct Hts; discriminate].
  - destruct (t_all t); cbn [orb]; [rewrite andb_true_r; reflexivity | destruct Hts; discriminate].
  - destruct (t_all t); cbn [orb]; [| destruct Hts; discriminate].
    rewrite Hd. cbn [andb]. rewrite andb_true_r. reflexivity.
Qed.

Lemma existsb_coord_and (m : coord) (A : bool) (ws : list coord) :
  existsb (fun mt => Z3_eqb m mt && A) ws = mem_coord m ws && A.
Proof.
  unfold mem_coord. induction ws as [|w ws IH]; cbn [existsb]; [reflexivity|].
  rewrite IH. destruct (Z3_eqb m w), A, (existsb (Z3_eqb m) ws); reflexivity.
Qed.

Lemma dim_visible_addressed b e dim l x y :
  e_place e = PTile dim l x y -> dim_visible b e = true -> dim_addressed b dim = true.
Proof. unfold dim_visible, dim_addressed. intros ->. destruct b; auto. Qed.

Lemma removed_walk_closed b q msize t walked e dim l x y :
  strategy b t = SWalk -> e_place e = PTile dim l x y ->
  removed_by b q msize t walked e
  = dim_addressed b dim && mem_coord (main_tile msize (x, y, l)) walked && (t_all t || is_stale b q (t_T t) e).
Proof.
  intros S P. unfold removed_by; rewrite S. unfold handled. rewrite P.
  rewrite (existsb_ext' _ (fun mt => Z3_eqb (main_tile msize (x, y, l)) mt
             && (dim_addressed b dim && (t_all t || is_stale b q (t_T t) e)))).
  - rewrite existsb_coord_and.
    destruct (dim_addressed b dim), (mem_coord _ walked), (t_all t || is_stale b q (t_T t) e); reflexivity.
  - intros mt _. destruct (dim_addressed b dim), (Z3_eqb _ mt), (t_all t || is_stale b q (t_T t) e); reflexivity.
Qed.

Lemma removed_walk_spec b q msize t walked cov e :
  strategy b t = SWalk -> is_tile e = true -> dim_visible b e = true ->
  (forall dim l x y, e_place e = PTile dim l x y ->
     mem_coord (main_tile msize (x, y, l)) walked = memZ l (t_levels t) && cov (main_tile msize (x, y, l))) ->
  removed_by b q msize t walked e
  = spec_removed (fun m => stale_walk q (t_T t) (seen_ts b q m)) (t_levels t) (t_all t) cov msize e.
Proof.
  intros S Ht Hd Hw. unfold is_tile in Ht. destruct (e_place e) as [dim l x y| | |] eqn:P; try discriminate.
  rewrite (removed_walk_closed b q msize t walked e dim l x y S P).
  rewrite (dim_visible_addressed b e dim l x y P Hd), (Hw dim l x y eq_refl).
  unfold spec_removed, is_stale. rewrite P. cbn [andb].
  destruct (memZ l (t_levels t)), (cov _), (t_all t || stale_walk q (t_T t) (seen_ts b q (e_mtime e))); reflexivity.
Qed.

(* ------------------------------------------------------------------ remaining = spec_remaining, per strategy *)

Lemma remaining_eq b q msize t walked c older cov :
  (forall e, In e c -> is_tile e = true ->
     removed_by b q msize t walked e = spec_removed older (t_levels t) (t_all t) cov msize e) ->
  filter is_tile (cleanup_task b q msize t walked c)
  = filter is_tile (spec_remaining older (t_levels t) (t_all t) cov msize c).
Proof.
  intros H. rewrite cleanup_task_filter. unfold spec_remaining.
  apply filter_agree_on. intros e He Ht. rewrite (H e He Ht). reflexivity.
Qed.

Lemma dir_remaining b q msize t walked c :
  strategy b t = SDir ->
  (forall e, In e c -> is_tile e = true -> dim_visible b e = true) ->
  filter is_tile (cleanup_task b q msize t walked c)
  = filter is_tile (spec_remaining (older_dir (t_T t)) (t_levels t) (t_all t) everywhere msize c).
Proof.
  intros S H. apply remaining_eq. intros e He Ht. apply removed_dir_spec; auto.
Qed.

Lemma cache_remaining b q msize t walked c :
  strategy b t = SCache ->
  (stores_timestamp b = true \/ t_all t = true) ->
  (forall e, In e c -> is_tile e = true -> dim_visible b e = true) ->
  filter is_tile (cleanup_task b q msize t walked c)
  = filter is_tile (spec_remaining (older_sql q (t_T t)) (t_levels t) (t_all t) everywhere msize c).
Proof.
  intros S Hts H. apply remaining_eq. intros e He Ht. apply removed_cache_spec; auto.
Qed.

Lemma walk_remaining b q msize t walked cov c :
  strategy b t = SWalk ->
  (forall e dim l x y, In e c -> e_place e = PTile dim l x y ->
     mem_coord (main_tile msize (x, y, l)) walked = memZ l (t_levels t) && cov (main_tile msize (x, y, l))) ->
  (forall e, In e c -> is_tile e = true -> dim_visible b e = true) ->
  filter is_tile (cleanup_task b q msize t walked c)
  = filter is_tile (spec_remaining (fun m => stale_walk q (t_T t) (seen_ts b q m)) (t_levels t) (t_all t) cov msize c).
Proof.
  intros S Hw H. apply remaining_eq. intros e He Ht. apply removed_walk_spec; auto.
  intros dim l x y P. apply (Hw e dim l x y He P).
Qed.

(* non-tiles never enter the specification *)
Lemma spec_removed_nontile older levels all cov msize e :
  is_tile e = false -> spec_removed older levels all cov msize e = false.
Proof. unfold is_tile, spec_removed. destruct (e_place e); [discriminate | reflexivity..]. Qed.

(* ------------------------------------------------------------------ safety: what is never removed *)

Lemma main_tile_level msize x y l : coord_level (main_tile msize (x, y, l)) = l.
Proof. unfold main_tile. destruct (msize l). reflexivity. Qed.

Lemma dname_eqb_level_tile lay l' l d d' :
  level_dir lay l' = Some d -> tile_dir lay l = Some d' -> dname_eqb d d' = true -> l' = l.
Proof.
  intros H1 H2 E. destruct lay; cbn in H1, H2; inversion H1; inversion H2; subst; cbn [dname_eqb] in E.
  - apply Z.eqb_eq; exact E.
  - apply Z.eqb_eq; exact E.
  - apply Z.eqb_eq; exact E.
  - apply Z.eqb_eq; exact E.
Qed.

Lemma existsb_false {A} (f : A -> bool) ls : (forall x, In x ls -> f x = false) -> existsb f ls = false.
Proof.
  induction ls as [|a ls IH]; intros H; cbn [existsb]; [reflexivity|].
  rewrite (H a (or_introl eq_refl)), IH; [reflexivity | intros x Hx; apply H; right; exact Hx].
Qed.

(* a tile of a level that is not selected is removed by no strategy, provided the walk only processes
   selected levels *)
Lemma other_level_not_removed b q msize t walked e dim l x y :
  e_place e = PTile dim l x y -> ~ In l (t_levels t) ->
  (forall mt, In mt walked -> In (coord_level mt) (t_levels t)) ->
  removed_by b q msize t walked e = false.
Proof.
  intros P Hl Hw. unfold removed_by. destruct (strategy b t) eqn:S; [reflexivity| | |].
  - apply existsb_false; intros l' Hl'. unfold simple_removes.
    destruct b; try reflexivity. destruct (level_dir lay l') as [d|] eqn:D; [|reflexivity].
    unfold dir_removes, in_top, top_dir. rewrite P. cbn [tile_top].
    destruct (tile_dir lay l) as [d'|] eqn:D'; [|reflexivity].
    destruct (dname_eqb d d') eqn:E; [| rewrite andb_false_r; reflexivity].
    exfalso. apply Hl. rewrite <- (dname_eqb_level_tile lay l' l d d' D D' E). exact Hl'.
  - apply existsb_false; intros l' Hl'.
    assert (l =? l' = false) as N by (apply Z.eqb_neq; intros ->; apply Hl; exact Hl').
    unfold level_removes, is_level_tile, tile_level, in_top, top_dir. rewrite P.
    destruct b; cbn [tile_top]; try reflexivity.
    + destruct (t_all t); [exact N|]. destruct with_ts; [rewrite N; reflexivity | reflexivity].
    + destruct (t_all t); rewrite N; reflexivity.
    + destruct (t_all t); [exact N | reflexivity].
    + destruct (t_all t); [exact N | reflexivity].
    + destruct (t_all t); [|reflexivity]. cbn [dname_eqb]. rewrite (Z.eqb_sym l' l), N, andb_false_r. reflexivity.
  - apply existsb_false; intros mt Hmt. unfold handled. rewrite P.
    destruct (Z3_eqb (main_tile msize (x, y, l)) mt) eqn:E; [| rewrite andb_false_r; reflexivity].
    exfalso. apply Hl. apply Z3_eqb_eq in E. rewrite <- (main_tile_level msize x y l), E. apply Hw; exact Hmt.
Qed.

Lemma other_levels_untouched_l b q msize t walked c e dim l x y :
  In e c -> e_place e = PTile dim l x y -> ~ In l (t_levels t) ->
  (forall mt, In mt walked -> In (coord_level mt) (t_levels t)) ->
  In e (cleanup_task b q msize t walked c).
Proof.
  intros He P Hl Hw. apply cleanup_task_In. split; [exact He|].
  apply (other_level_not_removed b q msize t walked e dim l x y P Hl Hw).
Qed.

(* the three "older" tests keep a tile whose whole second lies after the remove time *)
Lemma newer_second_not_older q T m :
  0 < q -> 0 <= m -> T < (m / q) * q ->
  older_dir T m = false /\ older_sql q T m = false /\ stale_walk q T m = false /\ stale_walk q T ((m / q) * q) = false.
Proof.
  intros Hq Hm H. unfold older_dir, older_sql, stale_walk.
  assert (m / q * q <= m) by (rewrite Z.mul_comm; apply Z.mul_div_le; lia).
  assert (Z.quot m q = m / q) as Eq by (apply Z.quot_div_nonneg; lia).
  assert (0 <= m / q) by (apply Z.div_pos; lia).
  assert (Z.quot (m / q * q) q = m / q) as Eq2.
  { rewrite Z.quot_div_nonneg; [apply Z.div_mul; lia | nia | lia]. }
  repeat split.
  - apply Z.ltb_ge. lia.
  - apply Z.ltb_ge. pose proof (Z.mul_div_le T q Hq). apply Z.div_le_lower_bound; lia.
  - rewrite Eq. apply Z.leb_gt. lia.
  - rewrite Eq2. apply Z.leb_gt. lia.
Qed.

Lemma newer_not_removed b q msize t walked e :
  is_tile e = true -> t_all t = false -> stores_timestamp b = true ->
  0 < q -> 0 <= e_mtime e -> t_T t < (e_mtime e / q) * q ->
  removed_by b q msize t walked e = false.
Proof.
  intros Ht Ha Hs Hq Hm Hn.
  destruct (newer_second_not_older q (t_T t) (e_mtime e) Hq Hm Hn) as [O1 [O2 [O3 O4]]].
  unfold is_tile in Ht. destruct (e_place e) as [dim l x y| | |] eqn:P; try discriminate.
  unfold removed_by. destruct (strategy b t) eqn:S; [reflexivity| | |].
  - apply existsb_false; intros l' _. unfold simple_removes. destruct b; try reflexivity.
    destruct (level_dir lay l'); [|reflexivity].
    unfold dir_removes, is_tile. rewrite P, Ha, O1. cbn [negb andb orb]. apply andb_false_r.
  - apply existsb_false; intros l' _. unfold level_removes. rewrite Ha, O2.
    destruct b; try reflexivity; try discriminate.
    + destruct with_ts; [apply andb_false_r | reflexivity].
    + apply andb_false_r.
  - apply existsb_false; intros mt _. unfold handled, is_stale. rewrite P, Ha. cbn [orb].
    assert (stale_walk q (t_T t) (seen_ts b q (e_mtime e)) = false) as ->; [| apply andb_false_r].
    unfold seen_ts. destruct b; try exact O3; try discriminate; cbn in Hs |- *; try rewrite Hs; try exact O4.
Qed.

(* a tile whose meta tile is outside the coverage: the walk only processes meta tiles that intersect it *)
Lemma outside_not_removed b q msize t walked cov e dim l x y :
  strategy b t = SWalk -> e_place e = PTile dim l x y ->
  (forall mt, In mt walked -> cov mt = true) ->
  cov (main_tile msize (x, y, l)) = false ->
  removed_by b q msize t walked e = false.
Proof.
  intros S P Hw Hc. rewrite (removed_walk_closed b q msize t walked e dim l x y S P).
  destruct (mem_coord (main_tile msize (x, y, l)) walked) eqn:M.
  - apply mem_coord_In in M. rewrite (Hw _ M) in Hc. discriminate.
  - rewrite andb_false_r. reflexivity.
Qed.

(* things that are not tiles: untouched unless they lie in a container of a selected level *)
Lemma nontile_not_removed b q msize t walked e :
  is_tile e = false -> inside_selected b (t_levels t) e = false ->
  removed_by b q msize t walked e = false.
Proof.
  intros Ht Hi. unfold is_tile in Ht. unfold inside_selected in Hi. unfold removed_by.
  destruct (strategy b t) eqn:S; [reflexivity| | |].
  - apply existsb_false; intros l' Hl'. unfold simple_removes. destruct b; try reflexivity.
    destruct (level_dir lay l') as [d|] eqn:D; [|reflexivity].
    unfold dir_removes, in_top, top_dir.
    destruct (e_place e) as [? ? ? ?|dim d0| |]; try discriminate; try reflexivity.
    destruct (dim =? 0) eqn:Z0; [|reflexivity]. cbn [andb] in Hi |- *.
    assert (dname_eqb d d0 = false) as ->; [|reflexivity].
    destruct (dname_eqb d d0) eqn:E; [|reflexivity].
    exfalso. assert (existsb (fun l => match level_container (BFile lay) l with Some d' => dname_eqb d' d0 | None => false end) (t_levels t) = true) as X.
    { apply existsb_exists. exists l'. split; [exact Hl'|]. cbn [level_container]. rewrite D. exact E. }
    rewrite X in Hi. discriminate.
  - apply existsb_false; intros l' Hl'. unfold level_removes, is_level_tile, tile_level, in_top, top_dir.
    destruct (e_place e) as [? ? ? ?|dim d0|l0|] eqn:P; try discriminate;
      destruct b as [lay|ts| | | |]; destruct (t_all t); try destruct ts; try reflexivity.
    + destruct (dim =? 0) eqn:Z0; [|reflexivity]. cbn [andb] in Hi |- *.
      destruct (dname_eqb (DArc l') d0) eqn:E; [|reflexivity].
      exfalso. assert (existsb (fun l => match level_container BCompact l with Some d' => dname_eqb d' d0 | None => false end) (t_levels t) = true) as X.
      { apply existsb_exists. exists l'. split; [exact Hl'|]. exact E. }
      rewrite X in Hi. discriminate.
    + cbn [orb]. apply Z.eqb_neq. intros ->. apply memZ_In in Hl'. rewrite Hl' in Hi. discriminate.
  - apply existsb_false; intros mt _. unfold handled. destruct (e_place e); [discriminate | reflexivity..].
Qed.

(* the tile walk removes tiles only *)
Lemma walk_nontile_not_removed b q msize t walked e :
  strategy b t = SWalk -> is_tile e = false -> removed_by b q msize t walked e = false.
Proof.
  intros S Ht. unfold removed_by. rewrite S. apply existsb_false; intros mt _.
  unfold handled. unfold is_tile in Ht. destruct (e_place e); [discriminate | reflexivity..].
Qed.

(* ------------------------------------------------------------------ the strategies agree off the boundary second *)

Lemma older_agree q T m :
  0 < q -> 0 <= m -> m / q <> T / q ->
  older_dir T m = older_sql q T m /\ stale_walk q T m = older_sql q T m
  /\ stale_walk q T (m / q * q) = older_sql q T m.
Proof.
  intros Hq Hm Hne. unfold older_dir, older_sql, stale_walk.
  pose proof (Z.mul_div_le m q Hq). pose proof (Z.mul_succ_div_gt m q Hq).
  pose proof (Z.mul_div_le T q Hq). pose proof (Z.mul_succ_div_gt T q Hq).
  assert (Z.quot m q = m / q) as Eq by (apply Z.quot_div_nonneg; lia).
  assert (0 <= m / q) by (apply Z.div_pos; lia).
  assert (Z.quot (m / q * q) q = m / q) as Eq2.
  { rewrite Z.quot_div_nonneg; [apply Z.div_mul; lia | nia | lia]. }
  rewrite Eq, Eq2.
  destruct (m / q <? T / q) eqn:C.
  - apply Z.ltb_lt in C. repeat split; [apply Z.ltb_lt | apply Z.leb_le | apply Z.leb_le]; nia.
  - apply Z.ltb_ge in C. repeat split; [apply Z.ltb_ge | apply Z.leb_gt | apply Z.leb_gt]; nia.
Qed.

Lemma spec_remaining_agree (o1 o2 : Z -> bool) levels all cov msize c :
  (forall e, In e c -> is_tile e = true -> o1 (e_mtime e) = o2 (e_mtime e)) ->
  filter is_tile (spec_remaining o1 levels all cov msize c)
  = filter is_tile (spec_remaining o2 levels all cov msize c).
Proof.
  intros H. unfold spec_remaining. apply filter_agree_on. intros e He Ht.
  unfold spec_removed. destruct (e_place e); try reflexivity. rewrite (H e He Ht). reflexivity.
Qed.

(* directory strategy (complete extent) and tile walk over the whole extent leave the same tiles *)
Lemma dir_walk_agree lay q msize levels T all walked c :
  strategy (BFile lay) (mkTask levels T all true false) = SDir ->
  0 < q ->
  (forall e, In e c -> is_tile e = true ->
     dim_visible (BFile lay) e = true /\ 0 <= e_mtime e /\ e_mtime e / q <> T / q) ->
  (forall e dim l x y, In e c -> e_place e = PTile dim l x y ->
     mem_coord (main_tile msize (x, y, l)) walked = memZ l levels && everywhere (main_tile msize (x, y, l))) ->
  filter is_tile (cleanup_task (BFile lay) q msize (mkTask levels T all true false) [] c)
  = filter is_tile (cleanup_task (BFile lay) q msize (mkTask levels T all false false) walked c).
Proof.
  intros S Hq H Hw.
  rewrite (dir_remaining _ q msize _ [] c S); [| intros e He Ht; destruct (H e He Ht) as [A _]; exact A].
  rewrite (walk_remaining (BFile lay) q msize (mkTask levels T all false false) walked everywhere c);
    [| reflexivity | exact Hw | intros e He Ht; destruct (H e He Ht) as [A _]; exact A].
  cbn [t_T t_levels t_all]. apply spec_remaining_agree. intros e He Ht.
  destruct (H e He Ht) as [_ [Hm Hne]]. cbn [seen_ts].
  destruct (older_agree q T (e_mtime e) Hq Hm Hne) as [A [B _]]. rewrite A, B. reflexivity.
Qed.

(* timestamped sqlite backends: bulk delete (complete extent) and tile walk over the whole extent *)
Lemma cache_walk_agree b q msize levels T all walked c :
  strategy b (mkTask levels T all true false) = SCache ->
  stores_timestamp b = true ->
  0 < q ->
  (forall e, In e c -> is_tile e = true -> 0 <= e_mtime e /\ e_mtime e / q <> T / q) ->
  (forall e dim l x y, In e c -> e_place e = PTile dim l x y ->
     mem_coord (main_tile msize (x, y, l)) walked = memZ l levels && everywhere (main_tile msize (x, y, l))) ->
  filter is_tile (cleanup_task b q msize (mkTask levels T all true false) [] c)
  = filter is_tile (cleanup_task b q msize (mkTask levels T all false false) walked c).
Proof.
  intros S Hs Hq H Hw. pose proof (strategy_cache_backend _ _ S) as Hb.
  assert (forall e, In e c -> is_tile e = true -> dim_visible b e = true) as Hd.
  { intros e _ _. unfold dim_visible. destruct (e_place e); try reflexivity.
    destruct b; try reflexivity; discriminate. }
  rewrite (cache_remaining b q msize _ [] c S (or_introl Hs) Hd).
  rewrite (walk_remaining b q msize (mkTask levels T all false false) walked everywhere c);
    [| reflexivity | exact Hw | exact Hd].
  cbn [t_T t_levels t_all]. apply spec_remaining_agree. intros e He Ht.
  destruct (H e He Ht) as [Hm Hne].
  destruct (older_agree q T (e_mtime e) Hq Hm Hne) as [_ [_ C]].
  unfold seen_ts. destruct b; try discriminate; cbn in Hs |- *; try rewrite Hs; rewrite C; reflexivity.
Qed.

(* ------------------------------------------------------------------ several tasks *)

Lemma cleanup_tasks_keep b q msize ts c e :
  In e c ->
  (forall t w, In (t, w) ts -> removed_by b q msize t w e = false) ->
  In e (cleanup_tasks b q msize ts c).
Proof.
  revert c; induction ts as [|[t w] ts IH]; intros c He H; cbn [cleanup_tasks]; [exact He|].
  apply IH.
  - apply cleanup_task_In. split; [exact He | apply H; left; reflexivity].
  - intros t' w' Hin. apply H. right; exact Hin.
Qed.

Lemma cleanup_tasks_other_levels b q msize ts c e dim l x y :
  In e c -> e_place e = PTile dim l x y ->
  (forall t w, In (t, w) ts ->
     ~ In l (t_levels t) /\ forall mt, In mt w -> In (coord_level mt) (t_levels t)) ->
  In e (cleanup_tasks b q msize ts c).
Proof.
  intros He P H. apply cleanup_tasks_keep; [exact He|]. intros t w Hin.
  destruct (H t w Hin) as [Hl Hw]. apply (other_level_not_removed b q msize t w e dim l x y P Hl Hw).
Qed.

Lemma cleanup_tasks_sub b q msize ts c e : In e (cleanup_tasks b q msize ts c) -> In e c.
Proof.
  revert c; induction ts as [|[t w] ts IH]; intros c H; cbn [cleanup_tasks] in H; [exact H|].
  apply IH in H. apply cleanup_task_sub in H. exact H.
Qed.

(* ------------------------------------------------------------------ configuration guard *)

Lemma supports_is_stores b : supports_timestamp b = stores_timestamp b.
Proof. destruct b; reflexivity. Qed.

(* what the loader decides for the cache at position i: remove_all iff configured or the cache keeps no timestamps *)
Lemma conf_tasks_nth init w all0 bs i T all b :
  nth_error (conf_tasks init w all0 bs) i = Some (Some (T, all)) -> nth_error bs i = Some b ->
  all = all0 || negb (supports_timestamp b).
Proof.
  revert i; induction bs as [|b0 bs IH]; intros i H Hb; [destruct i; discriminate|].
  cbn [conf_tasks] in H. unfold conf_step in H.
  destruct (supports_timestamp b0) eqn:Sb.
  - destruct i as [|i]; cbn in H, Hb.
    + inversion Hb; inversion H; subst. rewrite Sb. cbn. rewrite orb_false_r. reflexivity.
    + apply (IH i H Hb).
  - destruct w as [|T0|].
    + destruct i as [|i]; cbn in H, Hb; [inversion H; inversion Hb; subst; rewrite Sb; apply eq_sym, orb_true_r | apply (IH i H Hb)].
    + destruct i as [|i]; cbn in H; [discriminate | destruct i; discriminate].
    + destruct i as [|i]; cbn in H, Hb; [inversion H; inversion Hb; subst; rewrite Sb; apply eq_sym, orb_true_r | apply (IH i H Hb)].
Qed.

(* premise of cache_remaining: a task the loader yields has remove_all unless the backend stores timestamps *)
Lemma conf_tasks_guard init w all0 bs i T all b :
  nth_error (conf_tasks init w all0 bs) i = Some (Some (T, all)) -> nth_error bs i = Some b ->
  stores_timestamp b = true \/ all = true.
Proof.
  intros H Hb. rewrite (conf_tasks_nth init w all0 bs i T all b H Hb), <- supports_is_stores.
  destruct (supports_timestamp b); [left; reflexivity | right; apply orb_true_r].
Qed.

(* remove_before is refused exactly for the caches that keep no timestamps *)
Lemma conf_step_refused init w all b :
  conf_step init w all b = None <-> (supports_timestamp b = false /\ exists T, w = WBefore T).
Proof.
  unfold conf_step. destruct (supports_timestamp b); [split; [discriminate | intros [? _]; discriminate]|].
  destruct w; split; try discriminate; try (intros [_ [T0 E]]; discriminate); intros _.
  - split; [reflexivity | eexists; reflexivity].
  - reflexivity.
Qed.

(* ------------------------------------------------------------------ refuted: what the unrestricted statements would say *)

Definition m22 (l : Z) : Z * Z := (2, 2).

(* F15, directory strategy: a tile below a dimension directory, selected level, older than T, survives *)
Lemma dimension_tiles_survive_dir_refuted :
  exists lay q msize t walked c e,
    strategy (BFile lay) t = SDir /\ In e c /\
    spec_removed (older_dir (t_T t)) (t_levels t) (t_all t) everywhere msize e = true /\
    In e (cleanup_task (BFile lay) q msize t walked c).
Proof.
  exists LTc, 4, m22, (mkTask [1] 560 false true false), [], [mkEntry (PTile 1 1 0 1) 120 false None],
         (mkEntry (PTile 1 1 0 1) 120 false None).
  repeat split; try reflexivity; left; reflexivity.
Qed.

(* F15, tile walk: the walk processes the meta tile, the tile below the dimension directory survives *)
Lemma dimension_tiles_survive_walk_refuted :
  exists lay q msize t walked cov c e,
    strategy (BFile lay) t = SWalk /\ In e c /\
    (forall e dim l x y, In e c -> e_place e = PTile dim l x y ->
       mem_coord (main_tile msize (x, y, l)) walked = memZ l (t_levels t) && cov (main_tile msize (x, y, l))) /\
    spec_removed (fun m => stale_walk q (t_T t) (seen_ts (BFile lay) q m)) (t_levels t) (t_all t) cov msize e = true /\
    In e (cleanup_task (BFile lay) q msize t walked c).
Proof.
  exists LMp, 4, m22, (mkTask [1] 560 false false false), [(0, 0, 1)], everywhere,
         [mkEntry (PTile 1 1 0 1) 120 false None], (mkEntry (PTile 1 1 0 1) 120 false None).
  repeat split; try reflexivity; try (left; reflexivity).
  intros e dim l x y [<-|[]] P. inversion P; subst. reflexivity.
Qed.

(* ------------------------------------------------------------------ non-vacuity *)

Definition ex_c : list entry :=
  [ mkEntry (PTile 0 1 0 1) 150 false None;    (* level 1, older *)
    mkEntry (PTile 0 1 1 1) 170 false None;    (* level 1, newer *)
    mkEntry (PTile 0 2 3 0) 100 false None;    (* level 2 *)
    mkEntry (PInDir 0 (DPad 1)) 100 true None; (* empty directory inside 01 *)
    mkEntry POutside 100 false None ].

Example ex_dir_remaining :
  strategy (BFile LTc) (mkTask [1] 160 false true false) = SDir /\
  (forall e, In e ex_c -> is_tile e = true -> dim_visible (BFile LTc) e = true) /\
  cleanup_task (BFile LTc) 4 m22 (mkTask [1] 160 false true false) [] ex_c
  = [mkEntry (PTile 0 1 1 1) 170 false None; mkEntry (PTile 0 2 3 0) 100 false None; mkEntry POutside 100 false None].
Proof.
  split; [reflexivity|]. split; [|reflexivity].
  intros e [<-|[<-|[<-|[<-|[<-|[]]]]]] Ht; try discriminate; reflexivity.
Qed.

Example ex_cache_remaining :
  strategy BSqlite (mkTask [1] 160 false true false) = SCache /\ stores_timestamp BSqlite = true /\
  cleanup_task BSqlite 4 m22 (mkTask [1] 163 false true false) []
    [mkEntry (PTile 0 1 0 1) 156 false None; mkEntry (PTile 0 1 1 1) 160 false None; mkEntry (PTile 0 2 0 0) 100 false None; mkEntry (PBeside 1) 100 false None]
  = [mkEntry (PTile 0 1 1 1) 160 false None; mkEntry (PTile 0 2 0 0) 100 false None; mkEntry (PBeside 1) 100 false None].
Proof. repeat split; reflexivity. Qed.

Example ex_walk_remaining :
  let t := mkTask [1] 160 false false false in
  let cov := cov_of (mkPyr 0 0 [1024; 512; 256] [(1, 1); (2, 2); (4, 4)] (1, 1)) [(0, 0, 512, 1024)] in
  let c := [mkEntry (PTile 0 1 0 1) 150 false None; mkEntry (PTile 0 1 1 1) 150 false None; mkEntry (PTile 0 1 0 0) 170 false None] in
  let walked := [(0, 1, 1); (0, 0, 1)] in
  strategy (BFile LQuadkey) t = SWalk /\
  (forall e dim l x y, In e c -> e_place e = PTile dim l x y ->
     mem_coord (main_tile (fun _ => (1, 1)) (x, y, l)) walked = memZ l (t_levels t) && cov (main_tile (fun _ => (1, 1)) (x, y, l))) /\
  (forall mt, In mt walked -> cov mt = true /\ In (coord_level mt) (t_levels t)) /\
  cleanup_task (BFile LQuadkey) 4 (fun _ => (1, 1)) t walked c
  = [mkEntry (PTile 0 1 1 1) 150 false None; mkEntry (PTile 0 1 0 0) 170 false None].
Proof.
  cbv zeta. split; [reflexivity|]. split; [|split; [|reflexivity]].
  - intros e dim l x y [<-|[<-|[<-|[]]]] P; inversion P; subst; reflexivity.
  - intros mt [<-|[<-|[]]]; split; try reflexivity; cbn; auto.
Qed.

Example ex_older_agree : (0 < 4) /\ (0 <= 150) /\ 150 / 4 <> 163 / 4 /\ older_dir 163 150 = true.
Proof. repeat split; try lia; try reflexivity. vm_compute. discriminate. Qed.

(* on the boundary second the strategies do differ: mtime 160.25 s, T = 160.0 s and T = 160.5 s *)
Example ex_boundary_differs :
  older_dir 640 641 = false /\ older_sql 4 640 641 = false /\ stale_walk 4 640 641 = true /\
  older_dir 642 641 = true /\ older_sql 4 642 641 = false /\ stale_walk 4 642 641 = true.
Proof. repeat split; reflexivity. Qed.

(* tms layout: level 1 lives in "1", which is the directory that is cleaned; a foreign directory "01" is not *)
Example ex_tms_low_level :
  cleanup_task (BFile LTms) 4 m22 (mkTask [1; 10] 160 false true false) []
    [mkEntry (PTile 0 1 1 0) 120 false None; mkEntry (PTile 0 10 5 7) 120 false None; mkEntry (PTile 0 10 5 8) 164 false None;
     mkEntry (PInDir 0 (DPad 1)) 120 false None]
  = [mkEntry (PTile 0 10 5 8) 164 false None; mkEntry (PInDir 0 (DPad 1)) 120 false None].
Proof. reflexivity. Qed.

(* per-level geopackage: remove_before is refused; without it everything of the selected levels goes *)
Example ex_gpkglevel :
  conf_tasks 1000 (WBefore 77) (conf_all (WBefore 77)) [BGpkgLevel] = [None] /\
  conf_tasks 1000 WDefault (conf_all WDefault) [BGpkgLevel] = [Some (1000, true)] /\
  cleanup_task BGpkgLevel 4 m22 (mkTask [2] 1000 true true false) []
    [mkEntry (PTile 0 2 1 1) 120 false None; mkEntry (PTile 0 1 1 1) 120 false None] = [mkEntry (PTile 0 1 1 1) 120 false None].
Proof. repeat split; reflexivity. Qed.

(* remove_all of a cache without timestamps does not reach the cache after it *)
Example ex_conf_no_leak :
  conf_tasks 1000 WDefault (conf_all WDefault) [BMbtiles false; BSqlite] = [Some (1000, true); Some (1000, false)].
Proof. reflexivity. Qed.

Example ex_conf_single :
  conf_tasks 1000 (WBefore 77) (conf_all (WBefore 77)) [BSqlite] = [Some (77, false)] /\
  conf_tasks 1000 (WBefore 77) (conf_all (WBefore 77)) [BMbtiles false] = [None] /\
  conf_tasks 1000 WDefault (conf_all WDefault) [BCompact] = [Some (1000, true)].
Proof. repeat split; reflexivity. Qed.

(* ------------------------------------------------------------------ membership forms used by P_C12 *)

Lemma newer_whole_second_kept_l b q msize t walked c e :
  In e c -> is_tile e = true -> t_all t = false -> stores_timestamp b = true ->
  0 < q -> 0 <= e_mtime e -> t_T t < (e_mtime e / q) * q ->
  In e (cleanup_task b q msize t walked c).
Proof.
  intros He Ht Ha Hs Hq Hm Hn. apply cleanup_task_In. split; [exact He|].
  exact (newer_not_removed b q msize t walked e Ht Ha Hs Hq Hm Hn).
Qed.

Lemma outside_coverage_kept_l b q msize t walked cov c e dim l x y :
  strategy b t = SWalk -> In e c -> e_place e = PTile dim l x y ->
  (forall mt, In mt walked -> cov mt = true) ->
  cov (main_tile msize (x, y, l)) = false ->
  In e (cleanup_task b q msize t walked c).
Proof.
  intros S He P Hw Hc. apply cleanup_task_In. split; [exact He|].
  exact (outside_not_removed b q msize t walked cov e dim l x y S P Hw Hc).
Qed.

Lemma non_tiles_untouched_l b q msize t walked c e :
  In e c -> is_tile e = false -> inside_selected b (t_levels t) e = false ->
  In e (cleanup_task b q msize t walked c).
Proof.
  intros He Ht Hi. apply cleanup_task_In. split; [exact He|].
  exact (nontile_not_removed b q msize t walked e Ht Hi).
Qed.

Lemma tilewalk_touches_only_tiles_l b q msize t walked c e :
  strategy b t = SWalk -> In e c -> is_tile e = false ->
  In e (cleanup_task b q msize t walked c).
Proof.
  intros S He Ht. apply cleanup_task_In. split; [exact He|].
  exact (walk_nontile_not_removed b q msize t walked e S Ht).
Qed.

Example ex_safety :
  let t := mkTask [1] 160 false true false in
  In (mkEntry (PTile 0 1 1 1) 170 false None) ex_c /\ t_T t < (170 / 4) * 4 /\
  In (mkEntry POutside 100 false None) ex_c /\ inside_selected (BFile LTc) (t_levels t) (mkEntry POutside 100 false None) = false /\
  inside_selected (BFile LTc) (t_levels t) (mkEntry (PInDir 0 (DPad 1)) 100 true None) = true.
Proof. cbv zeta. repeat split; try reflexivity; cbn; auto 10. Qed.

(* ------------------------------------------------------------------ interrupted and continued directory cleanup *)

Definition simple_removes_from (b : backend) (t : task) (old : option dname) (l : Z) (e : entry) : bool :=
  match b with
  | BFile lay => match level_dir lay l with
                 | Some d => negb (can_skip old d) && dir_removes b d (t_T t) (t_all t) e
                 | None => false
                 end
  | _ => false
  end.

Lemma simple_cleanup_from_filter b t old c :
  simple_cleanup_from b t old c
  = filter (fun e => negb (existsb (fun l => simple_removes_from b t old l e) (t_levels t))) c.
Proof.
  rewrite <- fold_filter. unfold simple_cleanup_from.
  generalize (t_levels t) as ls. intros ls; revert c.
  induction ls as [|l ls IH]; intros c; cbn [fold_left]; [reflexivity|].
  rewrite <- IH. f_equal.
  unfold simple_removes_from, cleanup_directory. destruct b; try (symmetry; apply filter_true).
  destruct (level_dir lay l); [| symmetry; apply filter_true].
  destruct (can_skip old d); cbn [negb andb]; [symmetry; apply filter_true | reflexivity].
Qed.

Lemma In_firstn_nth {A} (l : list A) (k j : nat) (x : A) :
  (j < k)%nat -> nth_error l j = Some x -> In x (firstn k l).
Proof.
  revert k j; induction l as [|a l IH]; intros k j Hj H; [destruct j; discriminate|].
  destruct k as [|k]; [lia|]. cbn [firstn]. destruct j as [|j]; cbn in H.
  - inversion H; left; reflexivity.
  - right. apply (IH k j); [lia | exact H].
Qed.

Lemma In_firstn_In {A} (l : list A) (k : nat) (x : A) : In x (firstn k l) -> In x l.
Proof.
  revert k; induction l as [|a l IH]; intros k H; [destruct k; exact H|].
  destruct k as [|k]; [destruct H|]. cbn [firstn] in H. destruct H as [H|H]; [left; exact H | right; apply (IH k H)].
Qed.

Lemma key_ltb_irrefl a : key_ltb a a = false.
Proof. unfold key_ltb. rewrite !Z.ltb_irrefl, andb_false_r. reflexivity. Qed.

(* A cleanup of a file cache that dies while it handles the k-th level directory (an arbitrary part of that
   directory already removed) and is continued from the progress store leaves exactly what an uninterrupted
   cleanup leaves - provided the names of the level directories at and after position k do not sort before the
   name of the k-th (the order DirectoryCleanupProgress.can_skip relies on). *)
Lemma resume_covers_l lay t k keep c lk dk :
  nth_error (t_levels t) k = Some lk -> level_dir lay lk = Some dk ->
  (forall j lj dj, (k <= j)%nat -> nth_error (t_levels t) j = Some lj -> level_dir lay lj = Some dj ->
     key_ltb (dname_key dj) (dname_key dk) = false) ->
  resumed (BFile lay) t k keep c = simple_cleanup (BFile lay) t c.
Proof.
  intros Hk Hd Hord. unfold resumed, interrupted. rewrite Hk, Hd.
  rewrite simple_cleanup_from_filter, !simple_cleanup_filter. cbn [t_levels t_T t_all].
  rewrite !filter_filter_and. apply filter_ext_in'. intros e _.
  set (F := existsb (fun l => simple_removes (BFile lay) t l e) (t_levels t)).
  destruct F eqn:EF; unfold F in EF.
  - (* some level removes e *)
    apply existsb_exists in EF. destruct EF as [l [Hl Hr]].
    destruct (In_nth_error _ _ Hl) as [j Hj].
    unfold simple_removes in Hr. destruct (level_dir lay l) as [d|] eqn:D; [|discriminate].
    destruct (Nat.lt_ge_cases j k) as [Hlt|Hge].
    + (* done before the interruption *)
      assert (existsb (fun l0 => simple_removes (BFile lay)
                (mkTask (firstn k (t_levels t)) (t_T t) (t_all t) (t_complete t) (t_skip t)) l0 e)
                (firstn k (t_levels t)) = true) as ->; [| cbn [negb andb]; rewrite ?andb_false_r; reflexivity].
      apply existsb_exists. exists l. split; [apply (In_firstn_nth _ k j); assumption|].
      unfold simple_removes. rewrite D. exact Hr.
    + (* not skipped by the continued run *)
      assert (existsb (fun l0 => simple_removes_from (BFile lay) t (Some dk) l0 e) (t_levels t) = true) as ->;
        [| cbn [negb andb]; rewrite ?andb_false_r; reflexivity].
      apply existsb_exists. exists l. split; [exact Hl|].
      unfold simple_removes_from. rewrite D. cbn [can_skip]. rewrite (Hord j l d Hge Hj D). exact Hr.
  - (* no level removes e *)
    cbn [negb].
    assert (forall l, In l (t_levels t) -> simple_removes (BFile lay) t l e = false) as Hno.
    { intros l Hl. destruct (simple_removes (BFile lay) t l e) eqn:R; [|reflexivity].
      rewrite <- EF. symmetry. apply existsb_exists. exists l; split; assumption. }
    rewrite (existsb_false _ (firstn k (t_levels t))).
    2:{ intros l Hl. apply In_firstn_In in Hl. specialize (Hno l Hl). unfold simple_removes in *. exact Hno. }
    rewrite (existsb_false _ (t_levels t)).
    2:{ intros l Hl. specialize (Hno l Hl). unfold simple_removes_from, simple_removes in *.
        destruct (level_dir lay l); [|reflexivity]. rewrite Hno. apply andb_false_r. }
    cbn [negb andb]. rewrite andb_true_r.
    assert (dir_removes (BFile lay) dk (t_T t) (t_all t) e = false) as ->; [|apply orb_true_r].
    specialize (Hno lk (nth_error_In _ _ Hk)). unfold simple_removes in Hno. rewrite Hd in Hno. exact Hno.
Qed.

(* the order holds when the levels ascend (as the configuration yields them): names that are numbers (tc, mp,
   tms) are compared as numbers; the names L%02d of arcgis sort like the numbers below 100 *)
Lemma ascending_order lay (levels : list Z) k lk dk :
  nth_error levels k = Some lk -> level_dir lay lk = Some dk ->
  (forall i j li lj, (i <= j)%nat -> nth_error levels i = Some li -> nth_error levels j = Some lj -> li <= lj) ->
  (lay = LArcgis -> forall l, In l levels -> 0 <= l < 100) ->
  forall j lj dj, (k <= j)%nat -> nth_error levels j = Some lj -> level_dir lay lj = Some dj ->
    key_ltb (dname_key dj) (dname_key dk) = false.
Proof.
  intros Hk Hd Hasc Hb j lj dj Hj Hnj Hdj.
  pose proof (Hasc k j lk lj Hj Hk Hnj) as Hle.
  assert (lay = LArcgis \/ (dname_key dj = (lj, 0) /\ dname_key dk = (lk, 0))) as [Harc|[-> ->]].
  { destruct lay; cbn in Hd, Hdj; inversion Hd; inversion Hdj; subst; try (right; split; reflexivity); try discriminate.
    left; reflexivity. }
  2:{ unfold key_ltb. cbn [fst snd]. rewrite Z.ltb_irrefl, andb_false_r, orb_false_r. apply Z.ltb_ge. exact Hle. }
  pose proof (Hb Harc lk (nth_error_In _ _ Hk)) as B1. pose proof (Hb Harc lj (nth_error_In _ _ Hnj)) as B2.
  subst lay. cbn in Hd, Hdj. inversion Hd; inversion Hdj; subst. cbn [dname_key].
  unfold key_ltb. cbn [fst snd].
  pose proof (Z.div_mod lj 10 ltac:(lia)). pose proof (Z.div_mod lk 10 ltac:(lia)).
  pose proof (Z.mod_pos_bound lj 10 ltac:(lia)). pose proof (Z.mod_pos_bound lk 10 ltac:(lia)).
  destruct (lj / 10 <? lk / 10) eqn:A; [apply Z.ltb_lt in A; lia|].
  destruct (lj / 10 =? lk / 10) eqn:B; [|reflexivity].
  apply Z.eqb_eq in B. cbn [orb andb]. apply Z.ltb_ge. lia.
Qed.

(* resume_covers for ascending levels, every layout with level directories *)
Lemma resume_covers_ascending_l lay t k keep c lk dk :
  nth_error (t_levels t) k = Some lk -> level_dir lay lk = Some dk ->
  (forall i j li lj, (i <= j)%nat -> nth_error (t_levels t) i = Some li -> nth_error (t_levels t) j = Some lj -> li <= lj) ->
  (lay = LArcgis -> forall l, In l (t_levels t) -> 0 <= l < 100) ->
  resumed (BFile lay) t k keep c = simple_cleanup (BFile lay) t c.
Proof.
  intros Hk Hd Hasc Hb. apply (resume_covers_l lay t k keep c lk dk Hk Hd).
  apply (ascending_order lay (t_levels t) k lk dk Hk Hd Hasc Hb).
Qed.

(* tms layout, levels 2 and 10 ("10" would sort before "2" as a string): interrupted in level 2, continued *)
Example ex_resume_tms :
  resumed (BFile LTms) (mkTask [2; 10] 160 false true false) 0 (fun _ => true)
    [mkEntry (PTile 0 2 1 1) 120 false None; mkEntry (PTile 0 10 5 7) 120 false None; mkEntry (PTile 0 10 5 8) 200 false None]
  = [mkEntry (PTile 0 10 5 8) 200 false None].
Proof. reflexivity. Qed.

Example ex_resume :
  resumed (BFile LTc) (mkTask [1; 2] 160 false true false) 1 (fun e => e_mtime e <? 110)
    [mkEntry (PTile 0 1 0 0) 120 false None; mkEntry (PTile 0 2 1 1) 100 false None; mkEntry (PTile 0 2 1 2) 120 false None;
     mkEntry (PTile 0 2 1 3) 170 false None]
  = [mkEntry (PTile 0 2 1 3) 170 false None].
Proof. reflexivity. Qed.

(* the model never looks at the time of a link target *)
Lemma link_target_irrelevant_l b q msize t walked e x :
  removed_by b q msize t walked (mkEntry (e_place e) (e_mtime e) (e_isdir e) x) = removed_by b q msize t walked e.
Proof. destruct e as [p m d tg]. reflexivity. Qed.

Lemma levels_range_to_zero nlevels : 0 < nlevels -> levels_range None (Some 0) nlevels = [0].
Proof. intros H. unfold levels_range. replace (Z.min 0 (nlevels - 1)) with 0 by lia. reflexivity. Qed.

(* a task with a configured coverage (complete_extent False) is always cleaned by the tile walk: the per-level
   shortcuts do not look at coverages *)
Lemma coverage_task_walks_l b t : t_skip t = false -> t_complete t = false -> strategy b t = SWalk.
Proof. intros H1 H2. unfold strategy. rewrite H1, H2. reflexivity. Qed.

(* ------------------------------------------------------------------ names of the per-level database files *)
From Coq Require String Ascii Decimal DecimalString DecimalZ.
Section LevelFileNames.
Import String Ascii Decimal DecimalString DecimalZ.
Local Open Scope string_scope.

Definition is_digit (c : ascii) : bool :=
  match c with
  | "0" | "1" | "2" | "3" | "4" | "5" | "6" | "7" | "8" | "9" => true
  | _ => false
  end%char.

Fixpoint all_digits (s : string) : bool :=
  match s with EmptyString => true | String c r => is_digit c && all_digits r end.

Lemma uint_digits d : all_digits (NilEmpty.string_of_uint d) = true.
Proof. induction d; cbn; auto. Qed.

Lemma level_name_digits l : 0 <= l -> all_digits (level_name l) = true.
Proof.
  intros H. unfold level_name. destruct l as [|p|p]; [reflexivity | | lia].
  cbn. apply uint_digits.
Qed.

Lemma level_name_inj l l' : level_name l = level_name l' -> l = l'.
Proof.
  unfold level_name. intros H.
  assert (Some (Z.to_int l) = Some (Z.to_int l')) as E.
  { rewrite <- !NilEmpty.isi. rewrite H. reflexivity. }
  inversion E as [E']. rewrite <- (DecimalZ.of_to l), <- (DecimalZ.of_to l'), E'. reflexivity.
Qed.

(* two digit strings each followed by a dot: if one text is a prefix of the other the digit strings are equal *)
Lemma digits_dot_prefix a b u v :
  all_digits a = true -> all_digits b = true ->
  prefixb (a ++ String "." u) (b ++ String "." v) = true -> a = b.
Proof.
  revert b; induction a as [|c a IH]; intros b Ha Hb H.
  - destruct b as [|c' b]; [reflexivity|]. cbn [append prefixb all_digits] in H, Hb.
    apply andb_prop in Hb. destruct Hb as [Hc _]. apply andb_prop in H. destruct H as [E _].
    apply Ascii.eqb_eq in E. subst c'. discriminate Hc.
  - cbn [all_digits] in Ha. apply andb_prop in Ha. destruct Ha as [Hc Ha].
    destruct b as [|c' b]; cbn [append prefixb] in H; apply andb_prop in H; destruct H as [E H];
      apply Ascii.eqb_eq in E; subst.
    + discriminate Hc.
    + cbn [all_digits] in Hb. apply andb_prop in Hb. destruct Hb as [_ Hb].
      f_equal. apply (IH b Ha Hb H).
Qed.

Lemma prefix_refl_app s t : prefixb s (s ++ t) = true.
Proof. induction s as [|c s IH]; cbn [append prefixb]; [reflexivity|]. rewrite Ascii.eqb_refl. exact IH. Qed.

Lemma prefix_self s : prefixb s s = true.
Proof. induction s as [|c s IH]; cbn [prefixb]; [reflexivity|]. rewrite Ascii.eqb_refl. exact IH. Qed.

Lemma append_assoc' (a b c : string) : (a ++ b) ++ c = a ++ (b ++ c).
Proof. induction a as [|x a IH]; cbn; [reflexivity | rewrite IH; reflexivity]. Qed.

(* Removing level l entirely never unlinks the database file of another level l' nor anything named
   "<database file of l'><suffix>" (its -wal / -shm / -journal companions): 1.mbtile vs 10.mbtile, 10.mbtile-wal *)
Lemma level_files_apart l l' suffix :
  0 <= l -> 0 <= l' -> l <> l' ->
  unlinked_with_level l (level_file l' ++ suffix) = false.
Proof.
  intros Hl Hl' Hne. unfold unlinked_with_level.
  pose proof (level_name_digits l Hl) as Dl. pose proof (level_name_digits l' Hl') as Dl'.
  apply orb_false_iff. split.
  - apply String.eqb_neq. intros E. apply Hne. apply level_name_inj.
    unfold level_file in E. rewrite append_assoc' in E.
    apply (digits_dot_prefix (level_name l) (level_name l') "mbtile" ("mbtile" ++ suffix) Dl Dl').
    change (String "." ("mbtile" ++ suffix)) with (".mbtile" ++ suffix). rewrite E.
    change (String "." "mbtile") with ".mbtile". apply prefix_self.
  - destruct (prefixb (level_file l ++ "-") (level_file l' ++ suffix)) eqn:P; [|reflexivity].
    exfalso. apply Hne. apply level_name_inj.
    unfold level_file in P. rewrite !append_assoc' in P.
    apply (digits_dot_prefix (level_name l) (level_name l') ("mbtile" ++ "-") ("mbtile" ++ suffix) Dl Dl'). exact P.
Qed.

Example ex_level_files :
  unlinked_with_level 1 "1.mbtile" = true /\ unlinked_with_level 1 "1.mbtile-wal" = true /\
  unlinked_with_level 1 "10.mbtile" = false /\ unlinked_with_level 1 "10.mbtile-wal" = false /\
  level_file 10 = "10.mbtile".
Proof. repeat split; reflexivity. Qed.
End LevelFileNames.

(* a skipped task (coverage False) leaves everything *)
Lemma skipped_task_l b q msize t walked c : t_skip t = true -> cleanup_task b q msize t walked c = c.
Proof. intros H. unfold cleanup_task, strategy. rewrite H. reflexivity. Qed.

Lemma empty_coverage_l b q msize levels T all complete empties walked c :
  In true empties ->
  cleanup_task b q msize (mkTask levels T all complete (conf_skip empties)) walked c = c.
Proof.
  intros H. apply skipped_task_l. cbn [t_skip]. unfold conf_skip. apply existsb_exists. exists true. split; [exact H | reflexivity].
Qed.

(* ------------------------------------------------------------------ the walk of a cleanup task = the TileWalker of C11
   tilewalker_cleanup hands the task to the same TileWalker as seeding (seed/seeder.py); its descent is modelled in
   Seed.v (geo_walk: get_affected_level_tiles per level, coverage test per meta tile, progress).  Required without
   Import: Seed.v has its own coord / meta_bbox / can_skip. *)
From MP Require Seed Seed_proofs.

(* A tile whose meta tile the coverage does not intersect is kept when the meta tiles processed are those the modelled
   descent hands over (no premise about the recorded walk left; the premises are C11's: well-formed grid, resolutions
   of at least 10 quanta, valid ascending levels, a start rectangle of positive area, a set-like coverage). *)
Lemma seed_walk_outside_coverage_kept_l b q msize t g msx msy cov levels root old c e dim l x y :
  strategy b t = SWalk -> In e c -> e_place e = PTile dim l x y ->
  Seed_proofs.geo_wf g msx msy -> Seed_proofs.fine_res g -> Seed_proofs.levels_wf g levels -> levels <> [] ->
  Seed_proofs.proper root -> Seed_proofs.cov_overlap_monotone cov ->
  cov (Seed.meta_bbox g msx msy (main_tile msize (x, y, l))) = 0 ->
  In e (cleanup_task b q msize t (Seed.procs (Seed.geo_walk g msx msy cov 0 levels root old)) c).
Proof.
  intros S He P Hwf Hf Hl Hne Hp Hm Hc.
  apply (outside_coverage_kept_l b q msize t _ (fun mt => negb (cov (Seed.meta_bbox g msx msy mt) =? 0)) c e dim l x y S He P).
  - intros mt Hin.
    pose proof (Seed_proofs.walk_sound_overlap_lemma g msx msy cov levels root old mt Hwf Hf Hl Hne Hp Hm Hin) as H.
    apply negb_true_iff. apply Z.eqb_neq. exact H.
  - rewrite Hc. reflexivity.
Qed.

(* non-vacuity: C11's example grid (3 levels, 1/2/4 tiles per axis), a bbox coverage over the lower left part, meta
   size 1: the premises hold, the walk hands tiles over, and the meta tile of tile (3, 3) of level 2 is outside *)
Example ex_seed_walk_premises :
  Seed_proofs.geo_wf Seed_proofs.ex_grid 1 1 /\ Seed_proofs.fine_res Seed_proofs.ex_grid /\
  Seed_proofs.levels_wf Seed_proofs.ex_grid [0; 1; 2] /\ Seed_proofs.proper Seed_proofs.ex_cov /\
  Seed_proofs.cov_overlap_monotone (Seed.cov_bboxes [Seed_proofs.ex_cov]) /\
  Seed.cov_bboxes [Seed_proofs.ex_cov] (Seed.meta_bbox Seed_proofs.ex_grid 1 1 (main_tile (fun _ => (1, 1)) (3, 3, 2))) = 0 /\
  Seed.procs (Seed.geo_walk Seed_proofs.ex_grid 1 1 (Seed.cov_bboxes [Seed_proofs.ex_cov]) 0 [0; 1; 2] Seed_proofs.ex_cov None) <> [] /\
  strategy (BFile LQuadkey) (mkTask [0; 1; 2] 100 false false false) = SWalk.
Proof.
  split; [exact (proj1 Seed_proofs.ex_geo_wf)|]. split; [exact Seed_proofs.ex_fine|].
  split; [exact (proj2 Seed_proofs.ex_geo_wf)|]. split; [exact Seed_proofs.ex_proper|].
  split; [exact (Seed_proofs.cov_bboxes_overlap_monotone _ Seed_proofs.ex_exact_tol)|].
  split; [vm_compute; reflexivity|]. split; [exact Seed_proofs.ex_bboxes_processed | reflexivity].
Qed.

(* ------------------------------------------------------------------ remove_before given as a time delta *)
Lemma delta_seconds_sum w d h m s :
  delta_seconds w d h m s = 604800 * w + 86400 * d + 3600 * h + 60 * m + s.
Proof. unfold delta_seconds. ring. Qed.

Lemma remove_time_of_delta_sum now w d h m s :
  remove_time_of_delta now w d h m s = now - 604800 * w - 86400 * d - 3600 * h - 60 * m - s.
Proof. unfold remove_time_of_delta. rewrite delta_seconds_sum. ring. Qed.

(* a tile whose whole second lies after now minus the SUM of the configured units is kept by every strategy *)
Lemma delta_newer_tile_kept_l b q msize t walked c e now w d h m s :
  In e c -> is_tile e = true -> t_all t = false -> stores_timestamp b = true -> 0 < q -> 0 <= e_mtime e ->
  t_T t = q * remove_time_of_delta now w d h m s ->
  q * (now - (604800 * w + 86400 * d + 3600 * h + 60 * m + s)) < (e_mtime e / q) * q ->
  In e (cleanup_task b q msize t walked c).
Proof.
  intros He Ht Ha Hs Hq Hm HT Hn. apply newer_whole_second_kept_l; try assumption.
  rewrite HT. unfold remove_time_of_delta. rewrite delta_seconds_sum. exact Hn.
Qed.

(* non-vacuity: remove_before {days: 1, hours: 12} is 36 hours, not 24; a 30 hours old tile is newer *)
Example ex_delta :
  delta_seconds 0 1 12 0 0 = 129600 /\ remove_time_of_delta 1000000 0 1 12 0 0 = 870400 /\
  4 * (1000000 - (604800 * 0 + 86400 * 1 + 3600 * 12 + 60 * 0 + 0)) < ((4 * (1000000 - 108000)) / 4) * 4.
Proof. repeat split; vm_compute; reflexivity. Qed.

(* ------------------------------------------------------------------ the converse through C11's descent
   A stored tile of a seeded level that is expired (or remove_all), addressed without dimensions, whose grid tile
   contains a point (px, py) that at every level k <= l lies in a tile of the grid whose meta tile the coverage does
   not classify as NONE, and lies 1/10 pixel (level 0) inside the start rectangle, is removed when the processed
   meta tiles are those the modelled TileWalker descent (run from the start, no saved progress) hands over.  Premises
   are C11's walk_complete_nested (pyramid whose resolutions are integer multiples of the next level's); the tile
   manager's meta size function is the one of the modelled meta grid. *)
Local Open Scope Z_scope.
Lemma main_tile_point_meta g msx msy msize px py x y l :
  Grid.tile g px py l = (x, y) -> msize l = Seed.meta_size g msx msy l ->
  Seed_proofs.point_meta g msx msy px py l = main_tile msize (x, y, l).
Proof.
  intros Ht Hm. unfold Seed_proofs.point_meta, main_tile. rewrite Ht, Hm.
  destruct (Seed.meta_size g msx msy l); reflexivity.
Qed.

Lemma seed_walk_inside_coverage_removed_l b q msize t g msx msy cov skipk levels root c e dim l x y px py :
  strategy b t = SWalk -> e_place e = PTile dim l x y -> dim_addressed b dim = true ->
  t_all t || is_stale b q (t_T t) e = true ->
  Seed_proofs.geo_wf g msx msy -> Seed_proofs.levels_wf g levels -> In l levels ->
  msize l = Seed.meta_size g msx msy l -> Grid.tile g px py l = (x, y) ->
  (forall k, 0 <= k <= l ->
     Grid.valid_level g k = true /\ Seed_proofs.point_in_grid g px py k /\
     cov (Seed.meta_bbox g msx msy (Seed_proofs.point_meta g msx msy px py k)) <> 0) ->
  Seed_proofs.inset root (Grid.res_at g 0 / 10) px py ->
  (forall k, 0 <= k < l -> exists f, 0 < f /\ Grid.res_at g k = f * Grid.res_at g (k + 1)) ->
  ~ In e (cleanup_task b q msize t (Seed.procs (Seed.geo_walk g msx msy cov skipk levels root None)) c).
Proof.
  intros S P Hd Hst Hwf Hl HL Hms Htile Hk Hroot Hnest Hin.
  apply cleanup_task_In in Hin. destruct Hin as [_ R].
  rewrite (removed_walk_closed b q msize t _ e dim l x y S P) in R.
  rewrite Hd, Hst in R.
  assert (M : mem_coord (main_tile msize (x, y, l))
                (Seed.procs (Seed.geo_walk g msx msy cov skipk levels root None)) = true).
  { apply mem_coord_In. rewrite <- (main_tile_point_meta g msx msy msize px py x y l Htile Hms).
    apply Seed_proofs.walk_complete_nested_lemma; assumption. }
  rewrite M in R. discriminate R.
Qed.

(* non-vacuity: C11's example grid and coverage, meta size 1, the point (5120, 3000) on a tile edge of levels 1, 2;
   it lies in tile (2, 1) of level 2; an entry stored there 100 ticks before the remove time is stale *)
Example ex_seed_walk_inside :
  Grid.tile Seed_proofs.ex_grid 5120 3000 2 = (2, 1) /\
  (fun _ : Z => (1, 1)) 2 = Seed.meta_size Seed_proofs.ex_grid 1 1 2 /\
  strategy (BFile LQuadkey) (mkTask [0; 1; 2] 400 false false false) = SWalk /\
  is_stale (BFile LQuadkey) 4 400 (mkEntry (PTile 0 2 2 1) 300 false None) = true /\
  ~ In (mkEntry (PTile 0 2 2 1) 300 false None)
       (cleanup_task (BFile LQuadkey) 4 (fun _ => (1, 1)) (mkTask [0; 1; 2] 400 false false false)
          (Seed.procs (Seed.geo_walk Seed_proofs.ex_grid 1 1 (Seed.cov_bboxes [Seed_proofs.ex_cov]) 0 [0; 1; 2]
                         Seed_proofs.ex_cov None))
          [mkEntry (PTile 0 2 2 1) 300 false None]).
Proof.
  split; [vm_compute; reflexivity|]. split; [vm_compute; reflexivity|]. split; [reflexivity|].
  split; [vm_compute; reflexivity|].
  destruct Seed_proofs.ex_nested_premises as [Hk [Hroot [Hnest _]]].
  apply (seed_walk_inside_coverage_removed_l (BFile LQuadkey) 4 (fun _ => (1, 1)) _ Seed_proofs.ex_grid 1 1
           (Seed.cov_bboxes [Seed_proofs.ex_cov]) 0 [0; 1; 2] Seed_proofs.ex_cov _ _ 0 2 2 1 5120 3000);
    try reflexivity; try assumption.
  - exact (proj1 Seed_proofs.ex_geo_wf).
  - exact (proj2 Seed_proofs.ex_geo_wf).
  - right; right; left; reflexivity.
Qed.
