(* Proofs about the lock protocol model Lock.v (C07). *)
From Coq Require Import ZArith List Bool Arith Lia.
Import ListNotations.
From MP Require Import Lock.

(* Without the identity check the F5 schedule puts processes 1 and 2 inside together. *)
Lemma f5_two_inside_without_check :
  exists s, run false f5_cfg init f5_schedule_nocheck = Some s /\ inside_at s 1 0 /\ inside_at s 2 0.
Proof.
  destruct (run false f5_cfg init f5_schedule_nocheck) as [s|] eqn:E; [|vm_compute in E; discriminate].
  exists s. split; [reflexivity|].
  vm_compute in E. injection E as E. subst s. split; eexists; reflexivity.
Qed.
