(* Proofs about the lock protocol model Lock.v (C07). *)
From Coq Require Import ZArith List Bool Arith Lia.
Import ListNotations.
From MP Require Import Lock.

(* ------------------------------------------------------------------ runs *)

Lemma run_app chk cfg : forall l1 l2 s,
  run chk cfg s (l1 ++ l2) =
  match run chk cfg s l1 with Some s' => run chk cfg s' l2 | None => None end.
Proof.
  induction l1 as [|[p o] r IH]; intros l2 s; cbn [run app]; [reflexivity|].
  destruct (step chk cfg s p o) as [[[s' ?] ?]|]; [apply IH | reflexivity].
Qed.

(* induction over reachable states *)
Lemma run_ind chk cfg (P : state -> Prop) :
  (forall s p o s' r e, P s -> step chk cfg s p o = Some (s', r, e) -> P s') ->
  forall l s0 s, P s0 -> run chk cfg s0 l = Some s -> P s.
Proof.
  intros Hstep. induction l as [|[p o] r IH]; intros s0 s H0 Hr; cbn [run] in Hr.
  - injection Hr as <-. exact H0.
  - destruct (step chk cfg s0 p o) as [[[s' r'] e']|] eqn:E; [|discriminate].
    eapply IH; [|exact Hr]. eapply Hstep; eassumption.
Qed.

Lemma reachable_ind chk cfg (P : state -> Prop) :
  P init ->
  (forall s p o s' r e, P s -> step chk cfg s p o = Some (s', r, e) -> P s') ->
  forall s, reachable chk cfg s -> P s.
Proof.
  intros H0 Hs s [l Hl]. eapply run_ind; eassumption.
Qed.

(* ------------------------------------------------------------------ the invariant *)

(* control states in which unlock() is the next thing to happen: no left-over file can exist *)
Definition fresh_pc (c : pc) : bool :=
  match c with Inside _ _ => true | RmFailed _ _ => true | _ => false end.

(* the protocol is safe when the identity check is made or when nobody removes the lock file *)
Definition safe (chk : bool) (cfg : pid -> pconf) : Prop := chk = true \/ keepfile cfg.

Record Inv (chk : bool) (cfg : pid -> pconf) (s : state) : Prop := mk_Inv {
  (* a process that has the flock of an inode is its owner, and conversely *)
  iA : forall p i, holds s p i -> owner s i = Some p;
  iA' : forall p i, owner s i = Some p -> holds s p i;
  (* a process that has constructed its LockFile owns the inode the path names *)
  iB : forall p k i, inside_pc (st_pc (ps s p)) = Some (k, i) -> path s k = Some i;
  (* the left-over file and the current file of a process are different inodes *)
  iC : forall p i, holds_pc (st_pc (ps s p)) = Some i -> st_zomb (ps s p) <> Some i;
  iD : forall p, fresh_pc (st_pc (ps s p)) = true -> st_zomb (ps s p) = None;
  (* inode numbers in use are below the allocation counter *)
  iE : forall k i, path s k = Some i -> i < next s;
  iE' : forall p i, holds s p i -> i < next s;
  iE'' : forall p a i, st_pc (ps s p) = Opened a i -> i < next s;
  (* a file just opened through the path is not the process's own left-over file *)
  iO : forall p a i, st_pc (ps s p) = Opened a i -> st_zomb (ps s p) <> Some i;
  (* a left-over file has no name *)
  iZ : forall p z k, st_zomb (ps s p) = Some z -> path s k <> Some z;
  iInj : forall k k' i, path s k = Some i -> path s k' = Some i -> k = k';
  (* without the check: an opened file is still the file at its path (nobody removes) *)
  iF : chk = false -> forall p a i, st_pc (ps s p) = Opened a i -> path s (a_k a) = Some i;
  (* slot numbers stay inside the range of the process's lock *)
  iG : forall p a, att_of (st_pc (ps s p)) = Some a -> a_k a < nslots (cfg p);
  iG' : forall p k, slot_of (st_pc (ps s p)) = Some k -> k < nslots (cfg p)
}.

Lemma inv_init chk cfg : Inv chk cfg init.
Proof.
  constructor; unfold holds; cbn; intros; try discriminate; try (destruct H; discriminate); auto.
Qed.

Ltac brk :=
  repeat match goal with
  | H : context[Nat.eqb ?a ?b] |- _ => destruct (Nat.eqb_spec a b); subst
  | |- context[Nat.eqb ?a ?b] => destruct (Nat.eqb_spec a b); subst
  end.

Ltac red_state :=
  unfold succeed, first_try in *;
  cbn [ps owner path next set_pc set_p set_owner set_path bump st_pc st_zomb fst snd
       holds_pc inside_pc att_of slot_of fresh_pc a_k a_tries a_stop] in *;
  unfold upd in *.

Ltac step_inv H :=
  unfold step in H;
  match type of H with context[st_pc (ps ?s ?p)] => destruct (st_pc (ps s p)) eqn:Hpc end;
  try match type of H with context[match ?o with OTime _ => _ | _ => _ end] => destruct o end;
  cbv iota in H;
  try discriminate H;
  unfold succeed in H;
  try match type of H with context[st_zomb (ps ?s ?p)] => destruct (st_zomb (ps s p)) eqn:Hz end;
  repeat match type of H with
  | context[match ?x with _ => _ end] => destruct x eqn:?
  end; try discriminate H; inversion H; subst; clear H.

Section Facts.
  Context {chk : bool} {cfg : pid -> pconf} {s : state} (HI : Inv chk cfg s).
  Lemma fA_pc p i : holds_pc (st_pc (ps s p)) = Some i -> owner s i = Some p.
  Proof. intros H. apply (iA _ _ _ HI). left. exact H. Qed.
  Lemma fA_z p i : st_zomb (ps s p) = Some i -> owner s i = Some p.
  Proof. intros H. apply (iA _ _ _ HI). right. exact H. Qed.
  Lemma fE_pc p i : holds_pc (st_pc (ps s p)) = Some i -> i < next s.
  Proof. intros H. apply (iE' _ _ _ HI p). left. exact H. Qed.
  Lemma fE_z p i : st_zomb (ps s p) = Some i -> i < next s.
  Proof. intros H. apply (iE' _ _ _ HI p). right. exact H. Qed.
  Lemma fA' p i : owner s i = Some p -> holds_pc (st_pc (ps s p)) = Some i \/ st_zomb (ps s p) = Some i.
  Proof. apply (iA' _ _ _ HI). Qed.
  Lemma fB_holds p k i : inside_pc (st_pc (ps s p)) = Some (k, i) -> holds_pc (st_pc (ps s p)) = Some i.
  Proof. destruct (st_pc (ps s p)); cbn; intros H; try discriminate; injection H as <- <-; reflexivity. Qed.
  Lemma f_owner_fresh : owner s (next s) = None.
  Proof.
    destruct (owner s (next s)) as [q|] eqn:E; [|reflexivity].
    apply (iA' _ _ _ HI) in E. apply (iE' _ _ _ HI) in E. lia.
  Qed.
End Facts.

Ltac inst HI p :=
  pose proof (iA' _ _ _ HI p) as HA'p; pose proof (iC _ _ _ HI p) as HCp;
  pose proof (iD _ _ _ HI p) as HDp; pose proof (iB _ _ _ HI p) as HBp;
  pose proof (iG _ _ _ HI p) as HGp; pose proof (iG' _ _ _ HI p) as HG'p;
  pose proof (iA _ _ _ HI p) as HAp; pose proof (iE' _ _ _ HI p) as HE'p;
  pose proof (iZ _ _ _ HI p) as HZp;
  unfold holds in *.

Ltac rw :=
  repeat match goal with
  | H : st_pc (ps ?s ?p) = _ |- _ => rewrite H in *
  | H : st_zomb (ps ?s ?p) = _ |- _ => rewrite H in *
  end.

Ltac dis :=
  repeat match goal with
  | H : _ \/ _ |- _ => destruct H
  | H : Some _ = Some _ |- _ => injection H as H; try subst
  | H : (_, _) = (_, _) |- _ => injection H as ? ?; try subst
  | H : Opened _ _ = Opened _ _ |- _ => injection H as ? ?; try subst
  | H : None = Some _ |- _ => discriminate H
  | H : Some _ = None |- _ => discriminate H
  end.

Ltac sem :=
  try match goal with
  | |- context[is_sem ?c] => destruct (is_sem c) eqn:Hsem
  | H : context[is_sem ?c] |- _ => destruct (is_sem c) eqn:Hsem
  end.

Ltac slots :=
  cbn [a_k a_tries a_stop] in *; unfold nslots, is_sem in *;
  match goal with |- context[p_kind ?c] => destruct (p_kind c) end; try discriminate; try lia;
  try (apply Nat.ltb_lt; assumption); try (apply Nat.mod_upper_bound; lia).

Ltac easy_fin HI :=
  try solve [ eauto using (iA _ _ _ HI), (iA' _ _ _ HI), (iB _ _ _ HI), (iC _ _ _ HI), (iD _ _ _ HI), (iE _ _ _ HI),
                (iE' _ _ _ HI), (iE'' _ _ _ HI), (iO _ _ _ HI), (iZ _ _ _ HI), (iInj _ _ _ HI), (iF _ _ _ HI), (iG _ _ _ HI), (iG' _ _ _ HI),
                (fA_pc HI), (fA_z HI), (fE_pc HI), (fE_z HI), (fA' HI)
            | discriminate | congruence | lia | slots ].

Ltac note H := let T := type of H in lazymatch goal with | _ : T |- _ => fail | _ => pose proof H end.

Ltac selfinst :=
  try (match goal with HAp : forall i, _ \/ _ -> owner _ i = Some _ |- _ => note (HAp _ (or_introl eq_refl)) end);
  try (match goal with HAp : forall i, _ \/ _ -> owner _ i = Some _ |- _ => note (HAp _ (or_intror eq_refl)) end);
  try (match goal with HE'p : forall i, _ \/ _ -> i < next _ |- _ => note (HE'p _ (or_introl eq_refl)) end);
  try (match goal with HE'p : forall i, _ \/ _ -> i < next _ |- _ => note (HE'p _ (or_intror eq_refl)) end);
  try (match goal with HZp : forall z k, Some _ = Some z -> path _ k <> Some z |- _ => note (fun k => HZp _ k eq_refl) end);
  try (match goal with HBp : forall k i, Some _ = Some (k, i) -> path _ k = Some i |- _ => note (HBp _ _ eq_refl) end);
  try (match goal with HGp : forall a, Some _ = Some a -> a_k a < _ |- _ => note (HGp _ eq_refl) end);
  try (match goal with HG'p : forall k, Some _ = Some k -> k < _ |- _ => note (HG'p _ eq_refl) end);
  try (match goal with HCp : forall i, Some _ = Some i -> _ <> Some i |- _ => note (HCp _ eq_refl) end);
  try (match goal with HDp : true = true -> _ |- _ => note (HDp eq_refl) end).

Ltac sat HI :=
  repeat match goal with
  | H : inside_pc (st_pc (ps ?s ?q)) = Some (?k, ?i) |- _ =>
      progress (try note (iB _ _ _ HI _ _ _ H); try note (fB_holds _ _ _ H))
  | H : holds_pc (st_pc (ps ?s ?q)) = Some ?i |- _ =>
      progress (try note (fA_pc HI _ _ H); try note (fE_pc HI _ _ H); try note (iC _ _ _ HI _ _ H))
  | H : st_zomb (ps ?s ?q) = Some ?i |- _ =>
      progress (try note (fA_z HI _ _ H); try note (fE_z HI _ _ H); try note (fun k => iZ _ _ _ HI _ _ k H))
  | H : path ?s ?k = Some ?i |- _ => progress (try note (iE _ _ _ HI _ _ H))
  | H : st_pc (ps ?s ?q) = Opened ?a ?i |- _ =>
      progress (try note (iF _ _ _ HI eq_refl _ _ _ H); try note (iE'' _ _ _ HI _ _ _ H); try note (iO _ _ _ HI _ _ _ H))
  | H : owner ?s ?j = Some ?p, HA'p : forall i, owner ?s i = Some ?p -> _ |- _ => progress (try note (HA'p _ H))
  end.

Ltac neq_fin := solve [let X := fresh in intro X; injection X as X; subst; lia].

Ltac safe_fin :=
  solve [ match goal with HS : safe _ ?cfg, Hr : removes (?cfg ?p) = true |- _ =>
            destruct HS as [HS|HS]; [discriminate HS | rewrite (HS p) in Hr; discriminate Hr] end ].

Lemma inv_step chk cfg s p o s' r e :
  safe chk cfg -> Inv chk cfg s -> step chk cfg s p o = Some (s', r, e) -> Inv chk cfg s'.
Proof.
  intros HS HI H. step_inv H.
  all: inst HI p; rw; red_state; selfinst.
  all: constructor; unfold holds; intros; red_state; brk; red_state; rw; red_state.
  all: easy_fin HI.
  all: sem; red_state; dis.
  all: easy_fin HI.
  all: sat HI; dis; easy_fin HI; try neq_fin; try safe_fin.
  all: intro; sat HI; try lia.
  all: match goal with Hn : forall k, path ?s k <> Some ?z, He : path ?s ?k0 = Some ?z |- _ => exact (False_ind _ (Hn k0 He)) end.
Qed.

Lemma inv_run chk cfg : safe chk cfg -> forall l s0 s, Inv chk cfg s0 -> run chk cfg s0 l = Some s -> Inv chk cfg s.
Proof.
  intros HS l s0 s. apply run_ind. intros. eapply inv_step; eassumption.
Qed.

Lemma inv_reachable chk cfg s : safe chk cfg -> reachable chk cfg s -> Inv chk cfg s.
Proof.
  intros HS [l Hl]. eapply inv_run; [exact HS | apply inv_init | exact Hl].
Qed.

(* ------------------------------------------------------------------ mutual exclusion *)

Lemma inside_at_pc s p k i : st_pc (ps s p) = Inside k i -> inside_pc (st_pc (ps s p)) = Some (k, i).
Proof. intros ->. reflexivity. Qed.

Lemma mutex_inv chk cfg s : Inv chk cfg s ->
  forall p q k, inside_at s p k -> inside_at s q k -> p = q.
Proof.
  intros HI p q k [i Hp] [j Hq].
  pose proof (iB _ _ _ HI _ _ _ (inside_at_pc _ _ _ _ Hp)) as Pi.
  pose proof (iB _ _ _ HI _ _ _ (inside_at_pc _ _ _ _ Hq)) as Pj.
  assert (i = j) by congruence. subst j.
  assert (Op : owner s i = Some p) by (apply (fA_pc HI); rewrite Hp; reflexivity).
  assert (Oq : owner s i = Some q) by (apply (fA_pc HI); rewrite Hq; reflexivity).
  congruence.
Qed.

(* one lock file: whatever the release styles, with the identity check or without anybody removing *)
Lemma mutex_general chk cfg : safe chk cfg -> forall l s, run chk cfg init l = Some s ->
  forall p q k, inside_at s p k -> inside_at s q k -> p = q.
Proof.
  intros HS l s Hr. apply (mutex_inv chk cfg). apply inv_reachable; [exact HS | exists l; exact Hr].
Qed.

Lemma inside_slot_range chk cfg s : Inv chk cfg s -> forall p k, inside_at s p k -> k < nslots (cfg p).
Proof.
  intros HI p k [i Hp]. apply (iG' _ _ _ HI). rewrite Hp. reflexivity.
Qed.

Definition all_filelocks (cfg : pid -> pconf) : Prop := forall p, is_sem (cfg p) = false.

Lemma filelock_one_slot (cfg : pid -> pconf) p : is_sem (cfg p) = false -> nslots (cfg p) = 1.
Proof. unfold is_sem, nslots. destruct (p_kind (cfg p)); try reflexivity; discriminate. Qed.

Lemma mutex_filelock chk cfg : safe chk cfg -> all_filelocks cfg -> forall l s, run chk cfg init l = Some s ->
  forall p q, inside s p -> inside s q -> p = q.
Proof.
  intros HS HF l s Hr p q [k Hp] [k' Hq].
  assert (HI : Inv chk cfg s) by (apply inv_reachable; [exact HS | exists l; exact Hr]).
  pose proof (inside_slot_range _ _ _ HI _ _ Hp) as Rp. pose proof (inside_slot_range _ _ _ HI _ _ Hq) as Rq.
  rewrite (filelock_one_slot _ _ (HF p)) in Rp. rewrite (filelock_one_slot _ _ (HF q)) in Rq.
  assert (k = 0) by lia. assert (k' = 0) by lia. subst. eapply mutex_inv; eassumption.
Qed.

Lemma mutex_keepfile_lemma : forall chk cfg l s p q,
  keepfile cfg -> all_filelocks cfg -> run chk cfg init l = Some s -> inside s p -> inside s q -> p = q.
Proof.
  intros chk cfg l s p q HK HF Hr. eapply mutex_filelock; [right; exact HK | exact HF | exact Hr].
Qed.

Lemma mutex_remove_lemma : forall cfg l s p q,
  all_filelocks cfg -> run true cfg init l = Some s -> inside s p -> inside s q -> p = q.
Proof.
  intros cfg l s p q HF Hr. eapply mutex_filelock; [left; reflexivity | exact HF | exact Hr].
Qed.

(* ------------------------------------------------------------------ the semaphore bound *)

Definition slot_in (s : state) (p : pid) : slot :=
  match st_pc (ps s p) with Inside k _ => k | _ => 0 end.

Lemma inside_slot_in s p : inside s p -> inside_at s p (slot_in s p).
Proof. intros [k [i H]]. exists i. unfold slot_in. rewrite H. reflexivity. Qed.

Lemma NoDup_map_inj {A B} (f : A -> B) (l : list A) :
  NoDup l -> (forall x y, In x l -> In y l -> f x = f y -> x = y) -> NoDup (map f l).
Proof.
  induction 1 as [|a l Hn Hnd IH]; intros Hinj; cbn [map]; constructor.
  - intros Hin. apply in_map_iff in Hin. destruct Hin as [y [Hy Hyl]].
    assert (y = a) by (apply Hinj; [right; exact Hyl | left; reflexivity | exact Hy]). subst. contradiction.
  - apply IH. intros x y Hx Hy. apply Hinj; right; assumption.
Qed.

Lemma bounded_inv chk cfg s n : Inv chk cfg s -> (forall p, nslots (cfg p) <= n) ->
  forall pids, NoDup pids -> (forall p, In p pids -> inside s p) -> length pids <= n.
Proof.
  intros HI Hn pids Hnd Hin.
  assert (ND : NoDup (map (slot_in s) pids)).
  { apply NoDup_map_inj; [exact Hnd|]. intros x y Hx Hy E.
    pose proof (inside_slot_in _ _ (Hin _ Hx)) as Ix. pose proof (inside_slot_in _ _ (Hin _ Hy)) as Iy.
    rewrite E in Ix. eapply mutex_inv; eassumption. }
  assert (INC : incl (map (slot_in s) pids) (seq 0 n)).
  { intros k Hk. apply in_map_iff in Hk. destruct Hk as [x [<- Hx]]. apply in_seq.
    pose proof (inside_slot_range _ _ _ HI _ _ (inside_slot_in _ _ (Hin _ Hx))). specialize (Hn x). lia. }
  pose proof (NoDup_incl_length ND INC) as L. rewrite map_length, seq_length in L. exact L.
Qed.

Lemma semaphore_bounded_lemma : forall cfg n l s pids,
  (forall p, nslots (cfg p) <= n) -> run true cfg init l = Some s ->
  NoDup pids -> (forall p, In p pids -> inside s p) -> length pids <= n.
Proof.
  intros cfg n l s pids Hn Hr. eapply bounded_inv; [|exact Hn].
  apply inv_reachable; [left; reflexivity | exists l; exact Hr].
Qed.

Lemma mutex_per_lock_file_lemma : forall chk cfg l s p q k,
  safe chk cfg -> run chk cfg init l = Some s -> inside_at s p k -> inside_at s q k -> p = q.
Proof. intros chk cfg l s p q k HS Hr. exact (mutex_general chk cfg HS l s Hr p q k). Qed.

(* ------------------------------------------------------------------ refutation without the check (F5) *)

(* Without the identity check the F5 schedule puts processes 1 and 2 inside together. *)
Lemma f5_two_inside_without_check :
  exists s, run false f5_cfg init f5_schedule_nocheck = Some s /\ inside_at s 1 0 /\ inside_at s 2 0.
Proof.
  destruct (run false f5_cfg init f5_schedule_nocheck) as [s|] eqn:E; [|vm_compute in E; discriminate].
  exists s. split; [reflexivity|].
  vm_compute in E. injection E as E. subst s. split; eexists; reflexivity.
Qed.

(* hence "safe" cannot be dropped from mutex_general *)
Lemma mutex_needs_check :
  ~ (forall chk cfg l s p q k, run chk cfg init l = Some s -> inside_at s p k -> inside_at s q k -> p = q).
Proof.
  intros H. destruct f5_two_inside_without_check as [s [Hr [H1 H2]]].
  specialize (H _ _ _ _ _ _ _ Hr H1 H2). discriminate.
Qed.

(* non-vacuity: the same interleaving on the code as it is: process 2 gets in, process 1's attempt fails at the
   identity check and it is about to close its file *)
Example f5_schedule_with_check :
  exists s, run true f5_cfg init f5_schedule_check = Some s /\ inside s 2 /\ ~ inside s 1 /\
            st_pc (ps s 1) = Closing (mk_att 5 1 0) 0 true.
Proof.
  destruct (run true f5_cfg init f5_schedule_check) as [s|] eqn:E; [|vm_compute in E; discriminate].
  exists s. split; [reflexivity|]. vm_compute in E. injection E as E. subst s.
  split; [exists 0, 1; reflexivity|]. split; [|reflexivity].
  intros [k [i H]]. discriminate H.
Qed.

(* non-vacuity for the semaphore: three users of SemLock(2); two are inside, the third has tried both files *)
Definition sem_cfg : pid -> pconf := fun _ => mk_pconf (KSem 2) 5.
Definition sem_schedule : list label :=
  [ (0, OTime 0); (0, ORand 1); (0, OOpen); (0, OFlock); (0, OStat);
    (1, OTime 0); (1, ORand 1); (1, OOpen); (1, OFlock); (1, OClose); (1, OOpen); (1, OFlock); (1, OStat);
    (2, OTime 0); (2, ORand 0); (2, OOpen); (2, OFlock); (2, OClose); (2, OOpen); (2, OFlock); (2, OClose) ].

Example sem_two_inside :
  exists s, run true sem_cfg init sem_schedule = Some s /\ inside_at s 0 1 /\ inside_at s 1 0 /\
            st_pc (ps s 2) = Failed 5.
Proof.
  destruct (run true sem_cfg init sem_schedule) as [s|] eqn:E; [|vm_compute in E; discriminate].
  exists s. split; [reflexivity|]. vm_compute in E. injection E as E. subst s.
  split; [exists 0; reflexivity|]. split; [exists 1; reflexivity | reflexivity].
Qed.

(* ------------------------------------------------------------------ failed attempts *)

(* a refused flock: another process has an open, locked descriptor on the very inode that was opened *)
Lemma failed_flock_inv chk cfg s p s' e : Inv chk cfg s ->
  step chk cfg s p OFlock = Some (s', RFlock false, e) ->
  exists a i q, st_pc (ps s p) = Opened a i /\ q <> p /\ owner s i = Some q /\ holds s q i /\
                st_pc (ps s' p) = Closing a i false.
Proof.
  intros HI H. step_inv H.
  all: exists a, i, p0.
  all: split; [reflexivity|]; split; [|split; [exact Heqo|]; split; [apply (iA' _ _ _ HI); exact Heqo|];
         red_state; rewrite Nat.eqb_refl; reflexivity].
  all: intros ->; pose proof (fA' HI _ _ Heqo) as X; rewrite Hpc in X; cbn in X;
       destruct X as [X|X]; [discriminate|]; exact (iO _ _ _ HI _ _ _ Hpc X).
Qed.
Lemma failed_flock_lemma : forall chk cfg l s p s' e,
  safe chk cfg -> run chk cfg init l = Some s ->
  step chk cfg s p OFlock = Some (s', RFlock false, e) ->
  exists a i q, st_pc (ps s p) = Opened a i /\ q <> p /\ owner s i = Some q /\ holds s q i /\
                st_pc (ps s' p) = Closing a i false.
Proof.
  intros chk cfg l s p s' e HS Hr. apply failed_flock_inv. apply inv_reachable; [exact HS | exists l; exact Hr].
Qed.

(* LockTimeout is raised only by the clock reading that follows a failed attempt, and only when that reading
   has reached the stop time *)
Lemma timeout_step_lemma : forall chk cfg s p o s' r,
  step chk cfg s p o = Some (s', r, ETimeout) ->
  exists stop t, st_pc (ps s p) = Failed stop /\ o = OTime t /\ (stop <= t)%Z /\ st_pc (ps s' p) = Idle.
Proof.
  intros chk cfg s p o s' r H. step_inv H. exists stop, t. 
  split; [reflexivity|]. split; [reflexivity|]. split; [apply Z.ltb_ge; assumption|].
  red_state. rewrite Nat.eqb_refl. reflexivity.
Qed.

(* ------------------------------------------------------------------ a released lock can be taken again *)

Lemma named_file_free chk cfg s p k i : Inv chk cfg s ->
  st_pc (ps s p) = Idle -> quiet_others s p -> path s k = Some i -> owner s i = None.
Proof.
  intros HI Hpc HQ Hk. destruct (owner s i) as [q|] eqn:E; [|reflexivity]. exfalso.
  destruct (fA' HI _ _ E) as [X|X].
  - destruct (Nat.eq_dec q p) as [->|Hn]; [rewrite Hpc in X; discriminate | rewrite (HQ _ Hn) in X; discriminate].
  - exact (iZ _ _ _ HI _ _ k X Hk).
Qed.

Ltac stp := cbn [run_ev]; unfold step at 1; red_state; cbv [a_k a_tries a_stop]; rewrite ?Nat.eqb_refl; cbn [st_pc st_zomb].

Lemma acquirable_inv cfg s p t r : Inv true cfg s ->
  st_pc (ps s p) = Idle -> quiet_others s p -> r < nslots (cfg p) ->
  exists s' k i,
    run_ev true cfg s (solo p (solo_ops (cfg p) (has_zomb s p) t r)) ENone = Some (s', EAcquired k i) /\
    st_pc (ps s' p) = Inside k i.
Proof.
  intros HI Hpc HQ Hr.
  pose proof (fun i => named_file_free _ _ _ _ (if is_sem (cfg p) then r else 0) i HI Hpc HQ) as Hfree.
  pose proof (f_owner_fresh HI) as Hfresh.
  unfold solo_ops, solo, has_zomb.
  destruct (is_sem (cfg p)) eqn:Hsem; destruct (st_zomb (ps s p)) as [z|] eqn:Hz; cbn [map app].
  all: stp; rewrite Hpc, ?Hz, ?Hsem; cbn [p_timeout].
  all: try (stp; apply Nat.ltb_lt in Hr; rewrite Hr).
  all: stp.
  all: match goal with |- context[match path ?s0 ?k with _ => _ end] => destruct (path s0 k) as [i|] eqn:Hk end.
  all: stp.
  all: try rewrite (Hfree _ eq_refl); try rewrite (Hfree _ Hk); try rewrite Hfresh.
  all: stp.
  all: try rewrite Hk; rewrite ?Nat.eqb_refl; rewrite ?Hz.
  all: try stp.
  all: do 3 eexists; (split; [reflexivity|]); red_state; rewrite ?Nat.eqb_refl; reflexivity.
Qed.

Lemma released_lock_acquirable_lemma : forall cfg l s p t r,
  run true cfg init l = Some s ->
  st_pc (ps s p) = Idle -> quiet_others s p -> r < nslots (cfg p) ->
  exists s' k i,
    run_ev true cfg s (solo p (solo_ops (cfg p) (has_zomb s p) t r)) ENone = Some (s', EAcquired k i) /\
    st_pc (ps s' p) = Inside k i.
Proof.
  intros cfg l s p t r Hr. apply acquirable_inv. apply inv_reachable; [left; reflexivity | exists l; exact Hr].
Qed.

(* non-vacuity: after the F5 interleaving, once process 2 has unlocked and process 1 has given up its failed
   attempt and sleeps, process 0 (which still has the file of its earlier unlock open) takes the lock again *)
Example acquirable_after_f5 :
  exists s, run true f5_cfg init (f5_schedule_check ++ [(2, ORemove); (1, OClose); (1, OTime 1)]) = Some s /\
            st_pc (ps s 0) = Idle /\ quiet_others s 0 /\ has_zomb s 0 = false /\ has_zomb s 2 = true.
Proof.
  destruct (run true f5_cfg init (f5_schedule_check ++ [(2, ORemove); (1, OClose); (1, OTime 1)])) as [s|] eqn:E;
    [|vm_compute in E; discriminate].
  exists s. split; [reflexivity|]. vm_compute in E. injection E as E. subst s.
  split; [reflexivity|]. split; [|split; reflexivity].
  intros q Hq. destruct q as [|[|[|q]]]; try reflexivity.
Qed.

(* ------------------------------------------------------------------ histories *)

Lemma run_snoc chk cfg l p o s s' r e :
  run chk cfg init l = Some s -> step chk cfg s p o = Some (s', r, e) ->
  run chk cfg init (l ++ [(p, o)]) = Some s'.
Proof. intros Hr Hs. rewrite run_app, Hr. cbn [run]. rewrite Hs. reflexivity. Qed.

Lemma run_hist_ind chk cfg (P : list label -> state -> Prop) :
  P [] init ->
  (forall l s p o s' r e, run chk cfg init l = Some s -> P l s ->
     step chk cfg s p o = Some (s', r, e) -> P (l ++ [(p, o)]) s') ->
  forall l s, run chk cfg init l = Some s -> P l s.
Proof.
  intros H0 HS l. induction l as [|[p o] l IH] using rev_ind; intros s Hr.
  - injection Hr as <-. exact H0.
  - rewrite run_app in Hr. destruct (run chk cfg init l) as [s1|] eqn:E; [|discriminate].
    cbn [run] in Hr. destruct (step chk cfg s1 p o) as [[[s2 r] e]|] eqn:Es; [|discriminate].
    injection Hr as <-. eapply HS; [exact E | apply IH; reflexivity | exact Es].
Qed.

(* a step of one process leaves the control state of the others alone *)
Lemma step_other chk cfg s p o s' r e q :
  step chk cfg s p o = Some (s', r, e) -> q <> p -> ps s' q = ps s q.
Proof.
  intros H Hn. step_inv H; red_state; brk; try reflexivity; contradiction.
Qed.

Lemma failed_hist chk cfg : forall l s, run chk cfg init l = Some s ->
  forall p stop, st_pc (ps s p) = Failed stop -> after_failed_attempt chk cfg l p stop.
Proof.
  apply (run_hist_ind chk cfg (fun l s => forall p stop, st_pc (ps s p) = Failed stop -> after_failed_attempt chk cfg l p stop)).
  - intros p stop H. discriminate H.
  - intros l s p' o s' r e Hr IH Hs p stop Hf.
    destruct (Nat.eq_dec p p') as [->|Hn].
    + clear IH. step_inv Hs; red_state; rewrite Nat.eqb_refl in Hf; cbn [st_pc] in Hf; try discriminate Hf.
      all: try (destruct (is_sem (cfg p')); discriminate Hf).
      all: injection Hf as <-; exists l, [], s; do 3 eexists.
      all: split; [reflexivity|]; split; [exact Hr|]; split; [exact Hpc|]; split; [reflexivity|].
      all: split; [apply Nat.leb_le; assumption | intros o' []].
    + rewrite (step_other _ _ _ _ _ _ _ _ _ Hs Hn) in Hf.
      destruct (IH _ _ Hf) as (l1 & l2 & s1 & a & i & held & El & Hr1 & Hc & Hst & Hle & Hno).
      exists l1, (l2 ++ [(p', o)]), s1, a, i, held.
      split; [rewrite El, <- app_assoc; reflexivity|]. split; [exact Hr1|]. split; [exact Hc|].
      split; [exact Hst|]. split; [exact Hle|].
      intros o' Hin. apply in_app_or in Hin. destruct Hin as [Hin|[Hin|[]]]; [exact (Hno _ Hin)|].
      injection Hin as E1 E2. congruence.
Qed.

(* LockTimeout: raised by a clock reading t >= stop directly after a failed attempt *)
Lemma timeout_partial_lemma : forall chk cfg l s p o s' r,
  run chk cfg init l = Some s -> step chk cfg s p o = Some (s', r, ETimeout) ->
  exists stop t, o = OTime t /\ (stop <= t)%Z /\ after_failed_attempt chk cfg l p stop.
Proof.
  intros chk cfg l s p o s' r Hr Hs.
  destruct (timeout_step_lemma _ _ _ _ _ _ _ Hs) as (stop & t & Hpc & -> & Hle & _).
  exists stop, t. split; [reflexivity|]. split; [exact Hle|]. eapply failed_hist; eassumption.
Qed.

(* ------------------------------------------------------------------ failed identity check *)

(* a name keeps its file unless a process that is inside through it removes it *)
Lemma step_path_keep chk cfg s p o s' r e k i : Inv chk cfg s ->
  step chk cfg s p o = Some (s', r, e) -> path s k = Some i ->
  path s' k = Some i \/ (o = ORemove /\ st_pc (ps s p) = Inside k i).
Proof.
  intros HI H Hk. step_inv H; red_state; brk; auto; try congruence.
  right. split; [reflexivity|].
  assert (X : path s k0 = Some i0) by (apply (iB _ _ _ HI p); rewrite Hpc; reflexivity).
  congruence.
Qed.

Lemma removed_under_snoc chk cfg l p a i q o :
  removed_under chk cfg l p a i -> (q <> p \/ o <> OOpen) -> removed_under chk cfg (l ++ [(q, o)]) p a i.
Proof.
  intros (l1 & l2 & s1 & q0 & El & Hr & Hn & Hq & Hp & Hno) Hor.
  exists l1, (l2 ++ [(q, o)]), s1, q0. split; [rewrite El, <- app_assoc; reflexivity|].
  split; [exact Hr|]. split; [exact Hn|]. split; [exact Hq|]. split; [exact Hp|].
  intros o' Hin. apply in_app_or in Hin. destruct Hin as [Hin|[Hin|[]]]; [exact (Hno _ Hin)|].
  injection Hin as E1 E2. subst. destruct Hor as [X|X]; [contradiction | exact X].
Qed.

Lemma replaced_hist chk cfg : safe chk cfg -> forall l s, run chk cfg init l = Some s ->
  forall p a i,
    (in_attempt (st_pc (ps s p)) a i -> path s (a_k a) = Some i \/ removed_under chk cfg l p a i) /\
    (st_pc (ps s p) = Closing a i true -> removed_under chk cfg l p a i).
Proof.
  intros HS.
  apply (run_hist_ind chk cfg (fun l s => forall p a i,
    (in_attempt (st_pc (ps s p)) a i -> path s (a_k a) = Some i \/ removed_under chk cfg l p a i) /\
    (st_pc (ps s p) = Closing a i true -> removed_under chk cfg l p a i))).
  - intros p a i. split; [intros [H|H]; discriminate H | intros H; discriminate H].
  - intros l s p' o s' r e Hr IH Hs p a i.
    assert (HI : Inv chk cfg s) by (apply inv_reachable; [exact HS | exists l; exact Hr]).
    destruct (Nat.eq_dec p p') as [->|Hn].
    + pose proof (IH p') as IHp. clear IH.
      step_inv Hs; red_state; rewrite Nat.eqb_refl; cbn [st_pc]; unfold in_attempt in *; (split; [intros [Hc|Hc] | intros Hc]);
        try discriminate Hc; try (destruct (is_sem (cfg p')); discriminate Hc);
        try (destruct (nslots (cfg p') <=? a_tries a0); discriminate Hc).
      all: injection Hc as <- <-.
      all: try (left; first [exact Heqo | rewrite Nat.eqb_refl; reflexivity]).
      all: destruct (proj1 (IHp a0 i0)) as [X|X]; try solve [auto].
      all: try (left; exact X).
      all: try (right; apply removed_under_snoc; [exact X | right; discriminate]).
      all: try (apply removed_under_snoc; [exact X | right; discriminate]).
      all: exfalso; rewrite X in Heqo; try discriminate Heqo; injection Heqo as <-; rewrite Nat.eqb_refl in *; discriminate.
    + rewrite (step_other _ _ _ _ _ _ _ _ _ Hs Hn). destruct (IH p a i) as [IH1 IH2]. split.
      * intros Hc. destruct (IH1 Hc) as [X|X].
        -- destruct (step_path_keep _ _ _ _ _ _ _ _ _ _ HI Hs X) as [Y|[-> Y]]; [left; exact Y|].
           right. exists l, [], s, p'. split; [reflexivity|]. split; [exact Hr|].
           split; [intros E; apply Hn; symmetry; exact E|]. split; [exact Y|]. split; [exact Hc|].
           intros o' [].
        -- right. apply removed_under_snoc; [exact X | left; intros E; apply Hn; symmetry; exact E].
      * intros Hc. apply removed_under_snoc; [exact (IH2 Hc) | left; intros E; apply Hn; symmetry; exact E].
Qed.

Lemma failed_check_lemma : forall cfg l s p a i,
  run true cfg init l = Some s -> st_pc (ps s p) = Closing a i true ->
  removed_under true cfg l p a i.
Proof.
  intros cfg l s p a i Hr Hc. exact (proj2 (replaced_hist true cfg (or_introl eq_refl) l s Hr p a i) Hc).
Qed.

(* non-vacuity: in the F5 interleaving on the code as it is, process 1 fails the identity check *)
Example failed_check_nonvacuous :
  exists s, run true f5_cfg init f5_schedule_check = Some s /\ st_pc (ps s 1) = Closing (mk_att 5 1 0) 0 true.
Proof. destruct f5_schedule_with_check as [s [H1 [_ [_ H2]]]]. exists s. split; assumption. Qed.

(* non-vacuity of timeout_partial: a second user of a kept lock file times out at clock 7 >= 0 + 5 *)
Definition keep_cfg : pid -> pconf := fun _ => mk_pconf (KFile false) 5.
Definition timeout_schedule : list label :=
  [ (0, OTime 0); (0, OOpen); (0, OFlock); (0, OStat);
    (1, OTime 0); (1, OOpen); (1, OFlock); (1, OClose); (1, OTime 3); (1, OSleep);
    (1, OOpen); (1, OFlock); (1, OClose) ].
Example timeout_nonvacuous :
  exists s s' r, run true keep_cfg init timeout_schedule = Some s /\
                 step true keep_cfg s 1 (OTime 7) = Some (s', r, ETimeout).
Proof.
  destruct (run true keep_cfg init timeout_schedule) as [s|] eqn:E; [|vm_compute in E; discriminate].
  exists s. vm_compute in E. injection E as E. subst s. do 2 eexists. split; reflexivity.
Qed.

(* ------------------------------------------------------------------ unlock *)

(* unlock() of a remove_on_unlock lock: os.remove finds the file (the OSError branch is dead as long as every
   user of the path goes through FileLock), and the file it removes is the one the process has locked *)
Lemma unlock_remove_lemma : forall cfg l s p s' r e,
  run true cfg init l = Some s -> step true cfg s p ORemove = Some (s', r, e) ->
  exists k i, st_pc (ps s p) = Inside k i /\ path s k = Some i /\ owner s i = Some p /\
              r = RRemove true /\ path s' k = None /\ st_pc (ps s' p) = Idle.
Proof.
  intros cfg l s p s' r e Hr H.
  assert (HI : Inv true cfg s) by (apply inv_reachable; [left; reflexivity | exists l; exact Hr]).
  step_inv H.
  - exists k, i. assert (X : path s k = Some i) by (apply (iB _ _ _ HI p); rewrite Hpc; reflexivity).
    split; [reflexivity|]. split; [exact X|]. split; [apply (fA_pc HI); rewrite Hpc; reflexivity|].
    split; [reflexivity|]. red_state. rewrite !Nat.eqb_refl. split; reflexivity.
  - exfalso. assert (X : path s k = Some i) by (apply (iB _ _ _ HI p); rewrite Hpc; reflexivity). congruence.
Qed.

(* after unlock() (either style) followed, for remove_on_unlock, by the drop of the LockFile, the process holds
   nothing: stated as the state-level fact that an idle process without left-over file owns no inode *)
Lemma idle_owns_nothing_lemma : forall chk cfg l s p i,
  safe chk cfg -> run chk cfg init l = Some s ->
  st_pc (ps s p) = Idle -> st_zomb (ps s p) = None -> owner s i <> Some p.
Proof.
  intros chk cfg l s p i HS Hr Hpc Hz E.
  assert (HI : Inv chk cfg s) by (apply inv_reachable; [exact HS | exists l; exact Hr]).
  destruct (fA' HI _ _ E) as [X|X]; [rewrite Hpc in X; discriminate | rewrite Hz in X; discriminate].
Qed.

(* ------------------------------------------------------------------ SemLock rotation *)

(* the slot rotation of SemLock._try_lock, i = (i+1) % n: j rotations from the random start r *)
Lemma rotation_iter n r j : r < n -> Nat.iter j (fun x => S x mod n) r = (r + j) mod n.
Proof.
  intros Hr. induction j as [|j IH].
  - cbn [Nat.iter nat_rect]. rewrite Nat.add_0_r. symmetry. apply Nat.mod_small. exact Hr.
  - change (S (Nat.iter j (fun x => S x mod n) r) mod n = (r + S j) mod n).
    rewrite IH. replace (S ((r + j) mod n)) with (1 + (r + j) mod n) by reflexivity.
    rewrite Nat.add_mod_idemp_r by lia. f_equal. lia.
Qed.

(* whatever the random start, the n attempts of one _try_lock call visit every one of the n lock files *)
Lemma sem_rotation_lemma : forall n r k, r < n -> k < n ->
  exists j, j < n /\ Nat.iter j (fun x => S x mod n) r = k.
Proof.
  intros n r k Hr Hk. exists ((k + n - r) mod n). split; [apply Nat.mod_upper_bound; lia|].
  rewrite rotation_iter by exact Hr. rewrite Nat.add_mod_idemp_r by lia.
  replace (r + (k + n - r)) with (k + 1 * n) by lia. rewrite Nat.mod_add by lia. apply Nat.mod_small. exact Hk.
Qed.

(* non-vacuity of unlock_remove_lemma: the owner of a fresh remove_on_unlock lock unlocks *)
Example unlock_remove_nonvacuous :
  exists s s' r e, run true f5_cfg init [(0, OTime 0); (0, OOpen); (0, OFlock); (0, OStat)] = Some s /\
                   step true f5_cfg s 0 ORemove = Some (s', r, e).
Proof.
  destruct (run true f5_cfg init [(0, OTime 0); (0, OOpen); (0, OFlock); (0, OStat)]) as [s|] eqn:E;
    [|vm_compute in E; discriminate].
  exists s. vm_compute in E. injection E as E. subst s. do 3 eexists. split; reflexivity.
Qed.

(* ------------------------------------------------------------------ lock directory clean-up *)

Ltac clean_inv H :=
  unfold step_clean in H;
  match type of H with context[st_pc (ps ?s ?p)] => destruct (st_pc (ps s p)) eqn:Hpc end;
  try match type of H with context[match ?o with OTime _ => _ | _ => _ end] => destruct o end;
  cbv iota in H;
  try discriminate H;
  repeat match type of H with
  | context[match ?x with _ => _ end] => destruct x eqn:?
  end; try discriminate H; inversion H; subst; clear H.

(* every step of a clean-up process except an effective unlink leaves the invariant of the lock users alone *)
Lemma inv_step_clean chk cfg s p o s' r e :
  Inv chk cfg s -> step_clean cfg s p o = Some (s', r, e) -> o <> OUnlink -> Inv chk cfg s'.
Proof.
  intros HI H Hno. clean_inv H; try (exfalso; apply Hno; reflexivity).
  all: inst HI p; rw; red_state; selfinst.
  all: constructor; unfold holds; intros; red_state; brk; red_state; rw; red_state.
  all: easy_fin HI.
  all: sat HI; dis; easy_fin HI.
Qed.

Lemma inv_stepc chk cfg s p o s' r e :
  safe chk cfg -> Inv chk cfg s -> stepc chk cfg s p o = Some (s', r, e) -> o <> OUnlink -> Inv chk cfg s'.
Proof.
  intros HS HI H Hno. unfold stepc in H. destruct (is_clean (cfg p)).
  - eapply inv_step_clean; eassumption.
  - eapply inv_step; eassumption.
Qed.

Lemma inv_runc chk cfg : safe chk cfg -> forall l s0 s,
  Inv chk cfg s0 -> no_unlink l -> runc chk cfg s0 l = Some s -> Inv chk cfg s.
Proof.
  intros HS. induction l as [|[p o] l IH]; intros s0 s H0 Hno Hr; cbn [runc] in Hr.
  - injection Hr as <-. exact H0.
  - destruct (stepc chk cfg s0 p o) as [[[s1 r1] e1]|] eqn:E; [|discriminate].
    eapply IH; [| |exact Hr].
    + eapply inv_stepc; [exact HS | exact H0 | exact E |]. intros ->. apply (Hno p). left. reflexivity.
    + intros q Hin. apply (Hno q). right. exact Hin.
Qed.

(* lock users and clean-up processes together: as long as no clean-up gets as far as unlinking, at most one
   process is inside per lock file ... *)
Lemma mutex_with_cleanup_lemma : forall chk cfg l s p q k,
  safe chk cfg -> runc chk cfg init l = Some s -> no_unlink l ->
  inside_at s p k -> inside_at s q k -> p = q.
Proof.
  intros chk cfg l s p q k HS Hr Hno. apply (mutex_inv chk cfg).
  eapply inv_runc; [exact HS | apply inv_init | exact Hno | exact Hr].
Qed.

(* ... and at most n in a semaphore *)
Lemma bounded_with_cleanup_lemma : forall cfg n l s pids,
  (forall p, nslots (cfg p) <= n) -> runc true cfg init l = Some s -> no_unlink l ->
  NoDup pids -> (forall p, In p pids -> inside s p) -> length pids <= n.
Proof.
  intros cfg n l s pids Hn Hr Hno. eapply bounded_inv; [|exact Hn].
  eapply inv_runc; [left; reflexivity | apply inv_init | exact Hno | exact Hr].
Qed.

(* the age guard, one call at a time: the unlink is only reached from a modification time reading below
   expire_time, and expire_time is the clock reading of this cleanup_lockdir call minus max_lock_time *)
Lemma cleanup_guard_step_lemma : forall chk cfg s p o s' r e,
  is_clean (cfg p) = true -> stepc chk cfg s p o = Some (s', r, e) ->
  match st_pc (ps s' p) with
  | CScan ex => exists t, o = OTime t /\ ex = (t - p_timeout (cfg p))%Z
  | CStat ex => st_pc (ps s p) = CScan ex /\ o = OList
  | CUnlink => exists ex m, st_pc (ps s p) = CStat ex /\ o = OMtime (Some m) /\ (m < ex)%Z /\ path s' = path s
  | Idle => True
  | _ => False
  end.
Proof.
  intros chk cfg s p o s' r e Hc H. unfold stepc in H. rewrite Hc in H.
  clean_inv H; red_state; rewrite ?Nat.eqb_refl; cbn [st_pc]; auto.
  - eexists. split; reflexivity.
  - do 2 eexists. split; [reflexivity|]. split; [reflexivity|]. split; [apply Z.ltb_lt; eassumption | reflexivity].
Qed.

(* a clean-up process only ever removes the name of the lock file (no flock changes hands, nobody's control state
   changes) *)
Lemma cleanup_unlink_effect_lemma : forall chk cfg s p s' r e,
  is_clean (cfg p) = true -> stepc chk cfg s p OUnlink = Some (s', r, e) ->
  st_pc (ps s p) = CUnlink /\ owner s' = owner s /\ next s' = next s /\ (forall q, q <> p -> ps s' q = ps s q) /\
  (forall k, k <> 0 -> path s' k = path s k).
Proof.
  intros chk cfg s p s' r e Hc H. unfold stepc in H. rewrite Hc in H.
  clean_inv H; red_state; (split; [reflexivity|]); (split; [reflexivity|]); (split; [reflexivity|]); split; intros; brk; try reflexivity; contradiction.
Qed.

(* non-vacuity: a holder, a waiter whose attempt fails, a clean-up pass with max_lock_time 10 at clock 5 that sees
   the lock file modified at 1 and leaves it alone *)
Definition clean_cfg : pid -> pconf :=
  fun p => match p with 2 => mk_pconf KClean 10 | _ => mk_pconf (KFile true) 30 end.
Definition clean_schedule : list label :=
  [ (0, OTime 0); (0, OOpen); (0, OFlock); (0, OStat);
    (1, OTime 1); (1, OOpen); (1, OFlock); (1, OClose);
    (2, OTime 5); (2, OList); (2, OMtime (Some 1%Z)) ].
Example cleanup_young_file_kept :
  exists s, runc true clean_cfg init clean_schedule = Some s /\ no_unlink clean_schedule /\
            inside s 0 /\ st_pc (ps s 2) = Idle /\ path s 0 = Some 0.
Proof.
  destruct (runc true clean_cfg init clean_schedule) as [s|] eqn:E; [|vm_compute in E; discriminate].
  exists s. split; [reflexivity|]. vm_compute in E. injection E as E. subst s.
  split; [|split; [exists 0, 0; reflexivity | split; reflexivity]].
  intros p Hin. cbn in Hin. repeat (destruct Hin as [Hin|Hin]; [discriminate Hin|]). exact Hin.
Qed.

(* ------------------------------------------------------------------ unlock is idempotent *)

(* FileLock.unlock() on a lock that is not held (second unlock, __del__ after unlock): `if self._locked` is false, no
   call is made.  In the model: outside the locked section no release call is enabled - os.remove never, close
   only for the file an unlock-by-remove left open (its drop) - so a process that is outside cannot touch the
   lock file of the next holder. *)
Lemma unlock_idempotent_lemma : forall chk cfg s p,
  st_pc (ps s p) = Idle ->
  step chk cfg s p ORemove = None /\
  (st_zomb (ps s p) = None -> step chk cfg s p OClose = None) /\
  (forall s' r e, step chk cfg s p OClose = Some (s', r, e) -> path s' = path s /\ st_pc (ps s' p) = Idle).
Proof.
  intros chk cfg s p Hpc. unfold step. rewrite Hpc. split; [reflexivity|]. split.
  - intros ->. reflexivity.
  - intros s' r e H. destruct (st_zomb (ps s p)); [|discriminate]. injection H as <- _ _.
    red_state. rewrite Nat.eqb_refl. split; reflexivity.
Qed.

(* the hypothesis no_unlink cannot be dropped: the documented override.  A holder whose lock file looks older than
   max_lock_time (it holds the lock for 100 s, max_lock_time is 10 s) loses the name of its file to the clean-up and
   a second process gets in. *)
Definition override_schedule : list label :=
  [ (0, OTime 0); (0, OOpen); (0, OFlock); (0, OStat);
    (2, OTime 100); (2, OList); (2, OMtime (Some 0%Z)); (2, OUnlink);
    (1, OTime 100); (1, OOpen); (1, OFlock); (1, OStat) ].
Lemma cleanup_override_two_inside :
  exists s, runc true clean_cfg init override_schedule = Some s /\ inside_at s 0 0 /\ inside_at s 1 0.
Proof.
  destruct (runc true clean_cfg init override_schedule) as [s|] eqn:E; [|vm_compute in E; discriminate].
  exists s. split; [reflexivity|]. vm_compute in E. injection E as E. subst s.
  split; eexists; reflexivity.
Qed.

(* ------------------------------------------------------------------ time: the clean-up never removes a held file *)

Record TInv (B : Z) (cfg : pid -> pconf) (ts : tstate) : Prop := mk_TInv {
  tI : Inv true cfg (base ts);
  tM : forall i, (mtime ts i <= now ts)%Z;
  (* whoever has the lock file open opened it no later than its modification time *)
  tK : forall q i, witness_pc (st_pc (ps (base ts) q)) = Some i -> (opened ts q <= mtime ts i)%Z;
  (* the file at the path is open in a process that has not given up on it *)
  tJ : forall i, path (base ts) 0 = Some i -> exists q, witness_pc (st_pc (ps (base ts) q)) = Some i;
  tD : forall q a i, st_pc (ps (base ts) q) = Closing a i true -> path (base ts) 0 <> Some i;
  tN : forall q k i, st_pc (ps (base ts) q) <> RmFailed k i;
  (* expire_time of a running clean-up lies at least B before now *)
  tT : forall p e, st_pc (ps (base ts) p) = CScan e \/ st_pc (ps (base ts) p) = CStat e -> (e <= now ts - B)%Z;
  tU : forall p, st_pc (ps (base ts) p) <> CUnlink
}.

Lemma tinv_init B cfg : (0 <= B)%Z -> TInv B cfg tinit.
Proof.
  intros HB. constructor; cbn; intros; try discriminate; try lia.
  - apply inv_init.
  - destruct H; discriminate.
Qed.

Lemma tinv_tick B cfg ts d : (0 <= d)%Z -> TInv B cfg ts -> TInv B cfg (tick ts d).
Proof.
  intros Hd [I M K J D N T U]. constructor; cbn [tick base now mtime opened]; auto.
  - intros i. specialize (M i). lia.
  - intros p e H. specialize (T p e H). lia.
Qed.

Lemma tile_lock_user B cfg p : tile_locks B cfg -> is_clean (cfg p) = false ->
  is_sem (cfg p) = false /\ removes (cfg p) = true /\ nslots (cfg p) = 1.
Proof.
  intros HT Hc. unfold is_clean, is_sem, removes, nslots in *. destruct (HT p) as [E|[E _]]; rewrite E in *;
    [repeat split | discriminate].
Qed.

Lemma tile_cleaner B cfg p : tile_locks B cfg -> is_clean (cfg p) = true -> (B <= p_timeout (cfg p))%Z.
Proof.
  intros HT Hc. unfold is_clean in Hc. destruct (HT p) as [E|[E Hb]]; [rewrite E in Hc; discriminate | exact Hb].
Qed.

(* decompose a timed step into the cases of the underlying step *)
Ltac tstep_inv HT H Hstep Hclean :=
  unfold tstep in H;
  destruct (reading_ok _ _) eqn:Hread; [|discriminate H];
  match type of H with context[stepc ?chk ?cfg ?s ?p ?o] =>
    destruct (stepc chk cfg s p o) as [[[s1 r1] e1]|] eqn:Hstep; [|discriminate H] end;
  injection H as <-;
  unfold stepc in Hstep;
  match type of Hstep with context[is_clean (?cfg ?p)] => destruct (is_clean (cfg p)) eqn:Hclean end;
  [ pose proof (tile_cleaner _ _ _ HT Hclean) as Hbound; clean_inv Hstep
  | destruct (tile_lock_user _ _ _ HT Hclean) as (Hsem & Hrm & Hns); step_inv Hstep; try congruence ];
  cbn [base now mtime opened touch_of] in *.

Lemma tstep_not_unlink B cfg ts p o ts' : TInv B cfg ts -> tstep true cfg ts p o = Some ts' -> o <> OUnlink.
Proof.
  intros HI H ->. unfold tstep in H. cbn [reading_ok] in H.
  destruct (stepc true cfg (base ts) p OUnlink) as [[[s1 r1] e1]|] eqn:Hstep; [|discriminate H].
  unfold stepc in Hstep. destruct (is_clean (cfg p)).
  - unfold step_clean in Hstep. destruct (st_pc (ps (base ts) p)) eqn:Hpc; try discriminate Hstep.
    exact (tU _ _ _ HI p Hpc).
  - unfold step in Hstep. destruct (st_pc (ps (base ts) p)); discriminate Hstep.
Qed.

Lemma tstep_base B cfg ts p o ts' : tile_locks B cfg -> TInv B cfg ts ->
  tstep true cfg ts p o = Some ts' -> Inv true cfg (base ts').
Proof.
  intros HT HI H. pose proof (tstep_not_unlink _ _ _ _ _ _ HI H) as Hno.
  unfold tstep in H. destruct (reading_ok ts o); [|discriminate H].
  destruct (stepc true cfg (base ts) p o) as [[[s1 r1] e1]|] eqn:Hstep; [|discriminate H].
  injection H as <-. cbn [base]. eapply inv_stepc; [left; reflexivity | exact (tI _ _ _ HI) | exact Hstep | exact Hno].
Qed.

Ltac zbrk :=
  repeat match goal with
  | H : context[Z.eqb ?a ?b] |- _ => destruct (Z.eqb_spec a b); subst
  | H : context[Z.ltb ?a ?b] |- _ => destruct (Z.ltb_spec a b)
  | |- context[Z.ltb ?a ?b] => destruct (Z.ltb_spec a b)
  end.

Ltac tdis :=
  repeat match goal with
  | H : _ \/ _ |- _ => destruct H
  | H : CScan _ = CScan _ |- _ => injection H as H; try subst
  | H : CStat _ = CStat _ |- _ => injection H as H; try subst
  | H : Closing _ _ _ = Closing _ _ _ |- _ => injection H; clear H; intros; try subst
  | H : RmFailed _ _ = RmFailed _ _ |- _ => injection H; clear H; intros; try subst
  | H : reading_ok _ (OTime _) = true |- _ => cbn [reading_ok] in H; apply Z.eqb_eq in H; try subst
  | Hx : path ?s 0 = _ |- context[path ?s 0] => rewrite Hx
  end.

(* a FileLock has one lock file: slot 0 *)
Ltac slot0 :=
  try match goal with
  | G : forall a0, Some ?a = Some a0 -> a_k a0 < nslots _, Hn : nslots _ = 1 |- _ =>
    let X := fresh in let E := fresh "Eslot" in
    pose proof (G _ eq_refl) as X; rewrite Hn in X; assert (E : a_k a = 0) by lia; rewrite E in *
  end.

Ltac selfB := try match goal with Bp : forall k i, Some _ = Some (k, i) -> path _ k = Some i |- _ => note (Bp _ _ eq_refl) end.

(* the age guard cannot fire: the file at the path is open in a process that opened it at most B ago *)
Ltac guard_case J K T Hty :=
  match goal with
  | Hp : st_pc (ps (base ?ts) ?p) = CStat ?ex, Hpath : path (base ?ts) 0 = Some ?i,
    Hr : reading_ok ?ts (OMtime (Some ?z)) = true, Hlt : (?z <? ?ex)%Z = true |- _ =>
    exfalso; cbn [reading_ok] in Hr; rewrite Hpath in Hr; apply Z.eqb_eq in Hr; apply Z.ltb_lt in Hlt;
    let w := fresh "w" in let Hw := fresh "Hw" in
    first [destruct (J i Hpath) as [w Hw] | destruct (J _ eq_refl) as [w Hw]];
    pose proof (K w _ Hw); pose proof (Hty w _ Hw); pose proof (T p ex (or_intror Hp)); lia
  end.

Lemma tstep_univ B cfg ts p o ts' : tile_locks B cfg -> TInv B cfg ts -> timely B ts ->
  tstep true cfg ts p o = Some ts' -> 
  (forall i, (mtime ts' i <= now ts')%Z) /\
  (forall q a i, st_pc (ps (base ts') q) = Closing a i true -> path (base ts') 0 <> Some i) /\
  (forall q k i, st_pc (ps (base ts') q) <> RmFailed k i) /\
  (forall p e, st_pc (ps (base ts') p) = CScan e \/ st_pc (ps (base ts') p) = CStat e -> (e <= now ts' - B)%Z) /\
  (forall p, st_pc (ps (base ts') p) <> CUnlink).
Proof.
  intros HT HI Hty H. destruct HI as [I M K J D N T U].
  pose proof (N p) as Np. pose proof (T p) as Tp. pose proof (U p) as Up. pose proof (D p) as Dp.
  pose proof (iB _ _ _ I p) as Bp. pose proof (iG _ _ _ I p) as Gp.
  tstep_inv HT H Hstep Hclean.
  all: try guard_case J K T Hty.
  all: rw; red_state; selfB; slot0.
  all: (split; [|split; [|split; [|split]]]); intros; red_state; brk; red_state; rw; red_state.
  all: try solve [eauto | discriminate | congruence | lia].
  all: tdis; try rewrite Hsem in *; red_state; brk.
  all: try solve [eauto | discriminate | congruence | lia | apply Z.le_refl].
  match goal with Hc : st_pc (ps (base ts) ?q) = Closing _ ?i true |- _ =>
    let X := fresh in intro X; injection X as X; subst i;
    assert (Hh : holds_pc (st_pc (ps (base ts) q)) = Some (next (base ts))) by (rewrite Hc; reflexivity);
    pose proof (fE_pc I _ _ Hh); lia end.
Qed.

(* whoever has the file open opened it no later than its modification time *)
Lemma tstep_K B cfg ts p o ts' : tile_locks B cfg -> TInv B cfg ts ->
  tstep true cfg ts p o = Some ts' ->
  forall q i, witness_pc (st_pc (ps (base ts') q)) = Some i -> (opened ts' q <= mtime ts' i)%Z.
Proof.
  intros HT HI H. destruct HI as [I M K J D N T U].
  pose proof (K p) as Kp.
  tstep_inv HT H Hstep Hclean.
  all: rw; red_state.
  all: intros q j Hw; red_state; brk; red_state; rw; red_state.
  all: try rewrite Hsem in *; red_state; cbn [witness_pc inside_pc] in *.
  all: try discriminate Hw.
  all: try (injection Hw as Hw; try subst).
  all: unfold upd; brk.
  all: try solve [eauto | lia | apply Z.le_refl].
  all: try (match goal with |- (_ <= now _)%Z => eapply Z.le_trans; [|apply M]; eauto end).
Qed.

Lemma holder_witness c i : holds_pc c = Some i ->
  witness_pc c = Some i \/ (exists a, c = Closing a i true) \/ (exists k, c = RmFailed k i).
Proof.
  destruct c; cbn; intros H; try discriminate H; try (injection H as <-); auto.
  - destruct held; [injection H as <-|discriminate H]. right. left. eexists. reflexivity.
  - right. right. eexists. reflexivity.
Qed.

(* the file at the path is open in a process that has not given up on it *)
Lemma tstep_J B cfg ts p o ts' : tile_locks B cfg -> TInv B cfg ts ->
  tstep true cfg ts p o = Some ts' ->
  forall i, path (base ts') 0 = Some i -> exists q, witness_pc (st_pc (ps (base ts') q)) = Some i.
Proof.
  intros HT HI H. destruct HI as [I M K J D N T U].
  pose proof (iB _ _ _ I p) as Bp. pose proof (iG _ _ _ I p) as Gp. pose proof (D p) as Dp. pose proof (N p) as Np.
  pose proof (fA' I) as HA'. pose proof (iZ _ _ _ I) as HZ. pose proof (iG' _ _ _ I p) as G'p.
  tstep_inv HT H Hstep Hclean.
  all: rw; red_state; selfB; slot0.
  all: intros j Hj; red_state; brk.
  all: try match goal with Hx : path ?s 0 = _, Hj : path ?s 0 = Some _ |- _ => rewrite Hx in Hj end.
  all: try discriminate Hj.
  (* the process that moved is (still, or now) a witness of the file at the path *)
  all: try (exists p; red_state; rewrite Nat.eqb_refl; cbn [st_pc witness_pc]; congruence).
  (* otherwise an old witness other than p stays one *)
  all: try (first [destruct (J _ Hj) as [w Hw] | destruct (J j ltac:(congruence)) as [w Hw]]; destruct (Nat.eq_dec w p) as [->|Hn];
            [ rewrite Hpc in Hw; cbn [witness_pc] in Hw; try discriminate Hw
            | exists w; red_state; destruct (Nat.eqb_spec w p); [contradiction | exact Hw] ]).
  all: try (exfalso; congruence).
  all: try (exists p; red_state; rewrite Nat.eqb_refl; cbn [st_pc witness_pc]; congruence).
  all: try (exfalso; match goal with G : forall k0, Some ?k = Some k0 -> k0 < nslots _ |- _ =>
                      pose proof (G _ eq_refl); rewrite Hns in *; lia end).
  (* flock refused: the process that holds the flock is a witness *)
  all: assert (Eij : i = j) by congruence; subst j.
  all: destruct (HA' _ _ Heqo) as [X|X]; [|exfalso; exact (HZ _ _ 0 X Hj)].
  all: destruct (Nat.eqb_spec p0 p) as [->|Hn]; [rewrite Hpc in X; discriminate X|].
  all: destruct (holder_witness _ _ X) as [Y|[[a' Y]|[k' Y]]];
       [ exists p0; red_state; destruct (Nat.eqb_spec p0 p); [contradiction | exact Y]
       | exfalso; exact (D _ _ _ Y Hj) | exfalso; exact (N _ _ _ Y) ].
Qed.

Lemma tinv_step B cfg ts p o ts' : tile_locks B cfg -> TInv B cfg ts -> timely B ts ->
  tstep true cfg ts p o = Some ts' -> TInv B cfg ts'.
Proof.
  intros HT HI Hty H.
  destruct (tstep_univ _ _ _ _ _ _ HT HI Hty H) as (M & D & N & T & U).
  constructor; auto.
  - eapply tstep_base; eassumption.
  - eapply tstep_K; eassumption.
  - eapply tstep_J; eassumption.
Qed.

Lemma treach_timely B chk cfg ts : treach B chk cfg ts -> timely B ts.
Proof.
  intros H. destruct H; auto. intros q i Hw. discriminate Hw.
Qed.

Lemma tinv_reach B cfg ts : (0 <= B)%Z -> tile_locks B cfg -> treach B true cfg ts -> TInv B cfg ts.
Proof.
  intros HB HT H. induction H.
  - apply tinv_init. exact HB.
  - apply tinv_tick; assumption.
  - eapply tinv_step; [exact HT | exact IHtreach | eapply treach_timely; eassumption | eassumption].
Qed.

(* the clean-up never gets to its unlink *)
Lemma cleanup_never_unlinks_lemma : forall B cfg ts,
  (0 <= B)%Z -> tile_locks B cfg -> treach B true cfg ts ->
  (forall p, st_pc (ps (base ts) p) <> CUnlink) /\ (forall p, tstep true cfg ts p OUnlink = None).
Proof.
  intros B cfg ts HB HT H. pose proof (tinv_reach _ _ _ HB HT H) as HI. split; [exact (tU _ _ _ HI)|].
  intros p. destruct (tstep true cfg ts p OUnlink) as [ts'|] eqn:E; [|reflexivity].
  exfalso. exact (tstep_not_unlink _ _ _ _ _ _ HI E eq_refl).
Qed.

Lemma clean_step_path cfg s p o s' r e :
  step_clean cfg s p o = Some (s', r, e) -> o <> OUnlink -> path s' = path s.
Proof.
  intros H Hno. clean_inv H; try reflexivity. exfalso. apply Hno. reflexivity.
Qed.

(* the name of a lock file disappears only through the unlock of the process that is inside through it *)
Lemma held_file_keeps_name_lemma : forall B cfg ts p o ts' i,
  (0 <= B)%Z -> tile_locks B cfg -> treach B true cfg ts ->
  tstep true cfg ts p o = Some ts' -> path (base ts) 0 = Some i ->
  path (base ts') 0 = Some i \/ (o = ORemove /\ st_pc (ps (base ts) p) = Inside 0 i).
Proof.
  intros B cfg ts p o ts' i HB HT Hr H Hi.
  pose proof (tinv_reach _ _ _ HB HT Hr) as HI. pose proof (tstep_not_unlink _ _ _ _ _ _ HI H) as Hno.
  unfold tstep in H. destruct (reading_ok ts o); [|discriminate H].
  destruct (stepc true cfg (base ts) p o) as [[[s1 r1] e1]|] eqn:Hs; [|discriminate H].
  injection H as <-. cbn [base]. unfold stepc in Hs. destruct (is_clean (cfg p)).
  - left. rewrite (clean_step_path _ _ _ _ _ _ _ Hs Hno). exact Hi.
  - exact (step_path_keep _ _ _ _ _ _ _ _ _ _ (tI _ _ _ HI) Hs Hi).
Qed.

(* and the lock theorems hold along timely runs with clean-up processes *)
Lemma mutex_timed_lemma : forall B cfg ts p q k,
  (0 <= B)%Z -> tile_locks B cfg -> treach B true cfg ts ->
  inside_at (base ts) p k -> inside_at (base ts) q k -> p = q.
Proof.
  intros B cfg ts p q k HB HT Hr. apply (mutex_inv true cfg). exact (tI _ _ _ (tinv_reach _ _ _ HB HT Hr)).
Qed.

Lemma treach_trun B chk cfg : forall l ts ts',
  treach B chk cfg ts -> all_timely B chk cfg ts l -> trun chk cfg ts l = Some ts' -> treach B chk cfg ts'.
Proof.
  induction l as [|x l IH]; intros ts ts' Hr Ht Hrun; cbn [trun all_timely] in *.
  - injection Hrun as <-. exact Hr.
  - destruct (tnext chk cfg ts x) as [ts1|] eqn:E; [|contradiction]. destruct Ht as [Ht1 Ht].
    eapply IH; [|exact Ht|exact Hrun].
    destruct x as [d|p o]; cbn [tnext] in E.
    + destruct (Z.leb_spec 0 d); [|discriminate E]. injection E as <-. apply tr_tick; assumption.
    + eapply tr_act; eassumption.
Qed.

(* non-vacuity: a holder, a waiter whose attempt fails (truncating the file at clock 1), 4 s later a clean-up pass
   with max_lock_time 10 that reads modification time 1, keeps the file; every state is timely for B = 10 *)
Definition timed_schedule : list tlabel :=
  [ LAct 0 (OTime 0); LAct 0 OOpen; LAct 0 OFlock; LAct 0 OStat; LTick 1;
    LAct 1 (OTime 1); LAct 1 OOpen; LAct 1 OFlock; LAct 1 OClose; LTick 4;
    LAct 2 (OTime 5); LAct 2 OList; LAct 2 (OMtime (Some 1%Z)) ].

Ltac timely_tac :=
  let q := fresh "q" in let i := fresh "i" in let H := fresh "H" in
  intros q i H; destruct q as [|[|[|q]]]; vm_compute in H; try discriminate H; vm_compute; discriminate.

Example timed_run_nonvacuous :
  tile_locks 10 clean_cfg /\
  exists ts, trun true clean_cfg tinit timed_schedule = Some ts /\ treach 10 true clean_cfg ts /\
             inside (base ts) 0 /\ st_pc (ps (base ts) 2) = Idle /\ path (base ts) 0 = Some 0 /\ now ts = 5%Z.
Proof.
  split.
  - intros p. destruct p as [|[|[|p]]]; cbn; auto. right. split; [reflexivity | lia].
  - destruct (trun true clean_cfg tinit timed_schedule) as [ts|] eqn:E; [|vm_compute in E; discriminate].
    exists ts. split; [reflexivity|]. split.
    + eapply treach_trun; [apply tr_init | | exact E].
      vm_compute.
      repeat (split; [timely_tac|]). exact I.
    + vm_compute in E. injection E as E. subst ts. split; [exists 0, 0; reflexivity|]. repeat split.
Qed.

(* the timing assumption cannot be dropped: the documented override, with the clock and the modification time
   supplied by the timed layer *)
Definition timed_override_schedule : list tlabel :=
  [ LAct 0 (OTime 0); LAct 0 OOpen; LAct 0 OFlock; LAct 0 OStat; LTick 100;
    LAct 2 (OTime 100); LAct 2 OList; LAct 2 (OMtime (Some 0%Z)); LAct 2 OUnlink;
    LAct 1 (OTime 100); LAct 1 OOpen; LAct 1 OFlock; LAct 1 OStat ].
Lemma timed_override_two_inside :
  exists ts, trun true clean_cfg tinit timed_override_schedule = Some ts /\
             inside_at (base ts) 0 0 /\ inside_at (base ts) 1 0.
Proof.
  destruct (trun true clean_cfg tinit timed_override_schedule) as [ts|] eqn:E; [|vm_compute in E; discriminate].
  exists ts. split; [reflexivity|]. vm_compute in E. injection E as E. subst ts. split; eexists; reflexivity.
Qed.

(* ------------------------------------------------------------------ environment faults *)

Ltac fault_inv H :=
  unfold step_fault in H;
  match type of H with context[st_pc (ps ?s ?p)] => destruct (st_pc (ps s p)) eqn:Hpc end;
  try match type of H with context[match ?o with OTime _ => _ | _ => _ end] => destruct o end;
  cbv iota in H;
  try discriminate H;
  repeat match type of H with
  | context[match ?x with _ => _ end] => destruct x eqn:?
  end; try discriminate H; inversion H; subst; clear H.

(* a failing flock and a failing os.remove leave the invariant of the lock users intact *)
Lemma inv_step_fault chk cfg s p o s' r e :
  Inv chk cfg s -> step_fault cfg s p o = Some (s', r, e) -> Inv chk cfg s'.
Proof.
  intros HI H. fault_inv H.
  all: inst HI p; rw; red_state; selfinst.
  all: constructor; unfold holds; intros; red_state; brk; red_state; rw; red_state.
  all: easy_fin HI.
  all: sat HI; dis; easy_fin HI.
Qed.

Lemma inv_stepf chk cfg s p o s' r e :
  safe chk cfg -> Inv chk cfg s -> stepf chk cfg s p o = Some (s', r, e) -> o <> OUnlink -> Inv chk cfg s'.
Proof.
  intros HS HI H Hno. unfold stepf in H.
  destruct o; try (eapply inv_stepc; eassumption);
    (destruct (is_clean (cfg p)); [discriminate H | eapply inv_step_fault; eassumption]).
Qed.

Lemma inv_runf chk cfg : safe chk cfg -> forall l s0 s,
  Inv chk cfg s0 -> no_unlink l -> runf chk cfg s0 l = Some s -> Inv chk cfg s.
Proof.
  intros HS. induction l as [|[p o] l IH]; intros s0 s H0 Hno Hr; cbn [runf] in Hr.
  - injection Hr as <-. exact H0.
  - destruct (stepf chk cfg s0 p o) as [[[s1 r1] e1]|] eqn:E; [|discriminate].
    eapply IH; [| |exact Hr].
    + eapply inv_stepf; [exact HS | exact H0 | exact E |]. intros ->. apply (Hno p). left. reflexivity.
    + intros q Hin. apply (Hno q). right. exact Hin.
Qed.

(* lock users, clean-up passes that do not reach their unlink, and any number of faults: one process per lock file *)
Lemma mutex_with_faults_lemma : forall chk cfg l s p q k,
  safe chk cfg -> runf chk cfg init l = Some s -> no_unlink l ->
  inside_at s p k -> inside_at s q k -> p = q.
Proof.
  intros chk cfg l s p q k HS Hr Hno. apply (mutex_inv chk cfg).
  eapply inv_runf; [exact HS | apply inv_init | exact Hno | exact Hr].
Qed.

Lemma bounded_with_faults_lemma : forall cfg n l s pids,
  (forall p, nslots (cfg p) <= n) -> runf true cfg init l = Some s -> no_unlink l ->
  NoDup pids -> (forall p, In p pids -> inside s p) -> length pids <= n.
Proof.
  intros cfg n l s pids Hn Hr Hno. eapply bounded_inv; [|exact Hn].
  eapply inv_runf; [left; reflexivity | apply inv_init | exact Hno | exact Hr].
Qed.

(* a failing flock never lets the process in: the attempt ends like a refused one and no flock changes hands *)
Lemma flock_fault_fails_attempt_lemma : forall chk cfg s p s' r e,
  stepf chk cfg s p OFlockErr = Some (s', r, e) ->
  exists a i, st_pc (ps s p) = Opened a i /\ st_pc (ps s' p) = Closing a i false /\ owner s' = owner s /\
              r = RFlock false /\ e = ENone.
Proof.
  intros chk cfg s p s' r e H. unfold stepf in H. destruct (is_clean (cfg p)); [discriminate H|].
  fault_inv H. do 2 eexists. split; [reflexivity|]. red_state. rewrite Nat.eqb_refl. repeat split; reflexivity.
Qed.

(* unlock() whose os.remove fails releases by closing: after the two calls the process is outside and owns no flock,
   and the lock file (still at its path) can be locked by the next contender *)
Lemma remove_fault_releases_lemma : forall cfg l s p s1 r1 e1 s2 r2 e2 i,
  runf true cfg init l = Some s -> no_unlink l ->
  stepf true cfg s p ORemoveErr = Some (s1, r1, e1) -> stepf true cfg s1 p OClose = Some (s2, r2, e2) ->
  st_pc (ps s2 p) = Idle /\ owner s2 i <> Some p /\ path s2 = path s.
Proof.
  intros cfg l s p s1 r1 e1 s2 r2 e2 i Hr Hno H1 H2.
  assert (HI : Inv true cfg s) by (eapply inv_runf; [left; reflexivity | apply inv_init | exact Hno | exact Hr]).
  assert (HI1 : Inv true cfg s1) by (eapply inv_stepf; [left; reflexivity | exact HI | exact H1 | discriminate]).
  assert (HI2 : Inv true cfg s2) by (eapply inv_stepf; [left; reflexivity | exact HI1 | exact H2 | discriminate]).
  unfold stepf in H1. destruct (is_clean (cfg p)) eqn:Hc; [discriminate H1|].
  fault_inv H1.
  assert (Hz : st_zomb (ps s p) = None) by (apply (iD _ _ _ HI); rewrite Hpc; reflexivity).
  unfold stepf, stepc in H2. rewrite Hc in H2. unfold step in H2. red_state. rewrite Nat.eqb_refl in H2.
  cbn [st_pc] in H2. injection H2 as <- _ _. red_state. rewrite Nat.eqb_refl. cbn [st_pc st_zomb].
  split; [reflexivity|]. split; [|reflexivity].
  intros E. destruct (fA' HI2 _ _ E) as [X|X]; red_state; rewrite Nat.eqb_refl in X; cbn in X; [discriminate X|].
  rewrite Hz in X. discriminate X.
Qed.

(* non-vacuity: the holder's remove fails, it releases by closing, the next contender locks the file that stayed *)
Definition fault_schedule : list label :=
  [ (0, OTime 0); (0, OOpen); (0, OFlock); (0, OStat);
    (1, OTime 0); (1, OOpen); (1, OFlockErr); (1, OClose);
    (0, ORemoveErr); (0, OClose);
    (1, OTime 1); (1, OSleep); (1, OOpen); (1, OFlock); (1, OStat) ].
Example faults_nonvacuous :
  exists s, runf true f5_cfg init fault_schedule = Some s /\ no_unlink fault_schedule /\
            inside_at s 1 0 /\ st_pc (ps s 0) = Idle /\ path s 0 = Some 0.
Proof.
  destruct (runf true f5_cfg init fault_schedule) as [s|] eqn:E; [|vm_compute in E; discriminate].
  exists s. split; [reflexivity|]. vm_compute in E. injection E as E. subst s.
  split; [|split; [exists 0; reflexivity | split; reflexivity]].
  intros p Hin. cbn in Hin. repeat (destruct Hin as [Hin|Hin]; [discriminate Hin|]). exact Hin.
Qed.

(* ------------------------------------------------------------------ the clean-up in a semaphore's lock directory *)

(* a clean-up pass over a directory of semaphore slot files changes nothing but the control state of the clean-up process *)
Lemma inv_step_clean_sem chk cfg s p o s' r e :
  Inv chk cfg s -> step_clean_sem cfg s p o = Some (s', r, e) -> Inv chk cfg s'.
Proof.
  intros HI H. unfold step_clean_sem in H.
  destruct (st_pc (ps s p)) eqn:Hpc; destruct o; try discriminate H; inversion H; subst; clear H.
  all: inst HI p; rw; red_state; selfinst.
  all: constructor; unfold holds; intros; red_state; brk; red_state; rw; red_state.
  all: easy_fin HI.
  all: sat HI; dis; easy_fin HI.
Qed.

Lemma inv_steps chk cfg s p o s' r e :
  safe chk cfg -> Inv chk cfg s -> steps chk cfg s p o = Some (s', r, e) -> Inv chk cfg s'.
Proof.
  intros HS HI H. unfold steps in H. destruct (is_clean (cfg p)).
  - eapply inv_step_clean_sem; eassumption.
  - destruct o; first [eapply inv_step_fault; eassumption | eapply inv_step; eassumption].
Qed.

Lemma inv_runs chk cfg : safe chk cfg -> forall l s0 s,
  Inv chk cfg s0 -> runs chk cfg s0 l = Some s -> Inv chk cfg s.
Proof.
  intros HS. induction l as [|[p o] l IH]; intros s0 s H0 Hr; cbn [runs] in Hr.
  - injection Hr as <-. exact H0.
  - destruct (steps chk cfg s0 p o) as [[[s1 r1] e1]|] eqn:E; [|discriminate].
    eapply IH; [|exact Hr]. eapply inv_steps; eassumption.
Qed.

(* semaphore users, the clean-up of the shared lock directory and any number of faults, every schedule (no side
   condition: the clean-up never reaches an unlink there): at most n inside *)
Lemma bounded_sem_dir_lemma : forall cfg n l s pids,
  (forall p, nslots (cfg p) <= n) -> runs true cfg init l = Some s ->
  NoDup pids -> (forall p, In p pids -> inside s p) -> length pids <= n.
Proof.
  intros cfg n l s pids Hn Hr. eapply bounded_inv; [|exact Hn].
  eapply inv_runs; [left; reflexivity | apply inv_init | exact Hr].
Qed.

(* ... and no step of such a system ever removes the name of a slot file *)
Lemma sem_dir_paths_stay_lemma : forall cfg s p o s' r e k i,
  (forall q, removes (cfg q) = false) ->
  steps true cfg s p o = Some (s', r, e) -> path s k = Some i -> path s' k = Some i.
Proof.
  intros cfg s p o s' r e k i Hk H Hp. unfold steps in H. destruct (is_clean (cfg p)) eqn:Hc.
  - unfold step_clean_sem in H.
    destruct (st_pc (ps s p)); destruct o; try discriminate H; inversion H; subst; exact Hp.
  - pose proof (Hk p) as Hrm.
    assert (HF : forall o', step_fault cfg s p o' = Some (s', r, e) -> path s' k = Some i).
    { intros o' HFa. unfold step_fault in HFa.
      destruct (st_pc (ps s p)); destruct o'; try discriminate HFa.
      - inversion HFa; subst; exact Hp.
      - rewrite Hrm in HFa. discriminate HFa. }
    destruct o; try (apply (HF _ H)).
    all: unfold step in H; rewrite ?Hrm in H.
    all: destruct (st_pc (ps s p)) eqn:Hpc; try discriminate H.
    all: repeat match type of H with
         | context[match ?x with _ => _ end] => destruct x eqn:?
         end; try discriminate H; inversion H; subst; clear H; cbn [path set_pc set_p set_owner set_path bump succeed] in *.
    all: try match goal with Hs : succeed _ _ _ _ = (_, _) |- _ =>
           unfold succeed in Hs; destruct (st_zomb _) in Hs; inversion Hs; subst; clear Hs;
           cbn [path set_pc set_p set_owner set_path bump] end.
    all: try exact Hp.
    all: try (unfold upd; destruct (Nat.eqb k (a_k a)) eqn:Ek; [apply Nat.eqb_eq in Ek; subst; congruence | exact Hp]).
Qed.

(* non-vacuity: two holders of a 2-slot semaphore, an old clean-up pass, a third contender is refused on both files *)
Definition sem_dir_cfg : pid -> pconf :=
  fun p => match p with 2 => mk_pconf KClean 10 | _ => mk_pconf (KSem 2) 0 end.
Definition sem_dir_schedule : list label :=
  [ (0, OTime 0); (0, ORand 0); (0, OOpen); (0, OFlock); (0, OStat);
    (1, OTime 0); (1, ORand 1); (1, OOpen); (1, OFlock); (1, OStat);
    (2, OTime 100); (2, OList);
    (3, OTime 100); (3, ORand 0); (3, OOpen); (3, OFlock); (3, OClose); (3, OOpen); (3, OFlock); (3, OClose); (3, OTime 100) ].
Example sem_dir_nonvacuous :
  exists s, runs true sem_dir_cfg init sem_dir_schedule = Some s /\ inside s 0 /\ inside s 1 /\ st_pc (ps s 2) = Idle /\ st_pc (ps s 3) = Idle /\ path s 0 = Some 0 /\ path s 1 = Some 1.
Proof.
  destruct (runs true sem_dir_cfg init sem_dir_schedule) as [s|] eqn:E; [|vm_compute in E; discriminate].
  exists s. vm_compute in E. injection E as E. subst s.
  split; [reflexivity|]. split; [exists 0, 0; reflexivity|]. split; [exists 1, 1; reflexivity|]. repeat split.
Qed.

