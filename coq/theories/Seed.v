(* Model of the seeding traversal (C11): mapproxy/seed/seeder.py TileWalker.walk/_walk/_filter_subtiles,
   SeedProgress (step_down, can_skip, already_processed, current_progress_identifier), the 64-entry
   duplicate-suppression deques, mapproxy/seed/util.py limit_sub_bbox, and the part of
   mapproxy/grid.py MetaGrid the walker uses (get_affected_level_tiles, _tile_iter, _meta_size,
   main_tile, meta_tile(..).bbox with meta_buffer = 0).  Exact integer arithmetic as in Grid.v.

   Two layers:
   (b) run_walk : the walker over an explicit walk tree (one node per _walk call), with the progress
       state, the deques and the event trace (tiles handed to the worker pool, progress identifiers
       handed to the progress logger);
   (a) geo_tree : the walk tree induced by a grid, a meta size, a level list and a coverage predicate
       cov : bbox -> Z  (0 = NONE, 1 = INTERSECTS, -1 = CONTAINS, as in seeder.py).
   A place where the Python raises (GridError 'Invalid BBOX' out of _tile_iter, level out of range) is the
   node WErr; the trace of the implementation is the model trace cut after the first EErr.  For well-formed grids
   and valid sorted level lists geo_tree contains no WErr (Seed_proofs.geo_tree_err_free).
   No proofs here. *)
From Coq Require Import ZArith List Bool.
Import ListNotations.
From MP Require Import Base Grid.
Local Open Scope Z_scope.

Definition coord := (Z * Z * Z)%type.
Definition path := list (Z * Z).          (* level_progresses: [(i, subtiles); ...] *)

(* ------------------------------------------------------------------ SeedProgress *)

(* Python tuple comparison (i, n) < (i', n') *)
Definition pair_ltb (a b : Z * Z) : bool :=
  (fst a <? fst b) || ((fst a =? fst b) && (snd a <? snd b)).

(* the zip_longest loop of SeedProgress.can_skip *)
Fixpoint can_skip_loop (old cur : path) : bool :=
  match old, cur with
  | [], [] => false                 (* loop exhausted: return False *)
  | [], _ :: _ => false             (* old is None *)
  | _ :: _, [] => false             (* current is None *)
  | o :: old', c :: cur' =>
    if pair_ltb o c then false
    else if pair_ltb c o then true
    else can_skip_loop old' cur'
  end.

(* SeedProgress.can_skip(old_progress, current_progress); None = Python None *)
Definition can_skip (old cur : option path) : bool :=
  match cur with
  | None => false
  | Some c =>
    match old with
    | None => false
    | Some [] => true
    | Some o => can_skip_loop o c
    end
  end.

(* level_progresses, level_progresses_level *)
Record pstate := mkP { lp : option path; lpl : nat }.

Definition lp_list (s : pstate) : path := match lp s with None => [] | Some l => l end.

(* step_down: the part before the yield *)
Definition step_down_enter (s : pstate) (i total : Z) : pstate :=
  mkP (Some (firstn (lpl s) (lp_list s) ++ [(i, total)])) (S (lpl s)).

(* step_down: the part after the yield *)
Definition step_down_exit (s : pstate) : pstate :=
  let n := pred (lpl s) in
  mkP (if Nat.eqb n 0 then Some [] else lp s) n.

Definition already_processed (old : option path) (s : pstate) : bool := can_skip old (lp s).

Definition is_none {A} (o : option A) : bool := match o with None => true | Some _ => false end.

(* current_progress_identifier *)
Definition progress_ident (old : option path) (s : pstate) : option path :=
  if already_processed old s || is_none (lp s) then old else lp s.

(* ------------------------------------------------------------------ duplicate suppression *)

Definition dqs := list (Z * list coord).   (* seeded_tiles: level -> deque(maxlen=64), newest first *)

Definition coord_eq (a b : coord) : bool := coord_eqb a b.

Definition dq_get (d : dqs) (l : Z) : list coord :=
  match find (fun p => fst p =? l) d with Some p => snd p | None => [] end.

(* appendleft on a deque with maxlen 64 *)
Definition dq_push (d : dqs) (l : Z) (t : coord) : dqs :=
  (l, firstn 64 (t :: dq_get d l)) :: filter (fun p => negb (fst p =? l)) d.

Definition dq_mem (d : dqs) (l : Z) (t : coord) : bool := existsb (coord_eq t) (dq_get d l).

(* ------------------------------------------------------------------ walk tree and events *)

Inductive sub (A : Type) : Type :=
| SNone : sub A                              (* (None, None, None): no intersection / outside the grid *)
| SLeaf (t : coord) : sub A                  (* subtile, no deeper level to seed *)
| SRec (t : coord) (c : A) : sub A.          (* subtile and the _walk call for its sub-bbox *)
Arguments SNone {A}.
Arguments SLeaf {A} t.
Arguments SRec {A} t c.

Inductive wnode : Type :=
| WErr : wnode                                (* the call raises *)
| WNode (lv : Z) (proc rep : bool) (total : Z) (subs : list (sub wnode)) : wnode.

Inductive event : Type :=
| EProc (t : coord)                           (* worker_pool.process([t], ...) *)
| ERep (lv : Z) (id : option path)            (* progress_logger.log_progress: level, current_progress_identifier() *)
| EErr.                                       (* exception leaves walk() *)

Record wstate := mkW { ps : pstate; dq : dqs }.

(* lines 385-414 of seeder.py for one subtile (work_on_metatiles, handle_all / nothing cached) *)
Definition do_process (proc : bool) (lv : Z) (t : coord) (st : wstate) : list event * wstate :=
  if proc then
    if dq_mem (dq st) lv t then ([], st)
    else ([EProc t], mkW (ps st) (dq_push (dq st) lv t))
  else ([], st).

(* the body of the for loop of _walk for one filtered subtile; rn = the recursive call *)
Definition run_sub (rn : wnode -> wstate -> list event * wstate) (old : option path)
           (lv : Z) (proc : bool) (total : Z) (i : Z) (s : sub wnode) (st : wstate) : list event * wstate :=
  match s with
  | SNone => ([], st)
  | SLeaf t => do_process proc lv t st
  | SRec t c =>
    let st_in := mkW (step_down_enter (ps st) i total) (dq st) in
    let '(evc, stc) :=
      if already_processed old (ps st_in) then ([], st_in) else rn c st_in in
    let st_out := mkW (step_down_exit (ps stc)) (dq stc) in
    let '(evp, stp) := do_process proc lv t st_out in
    (evc ++ evp, stp)
  end.

(* the for loop of _walk over the filtered subtiles *)
Definition run_subs (rn : wnode -> wstate -> list event * wstate) (old : option path)
           (lv : Z) (proc : bool) (total : Z) :=
  fix loop (ss : list (sub wnode)) (i : Z) (st : wstate) {struct ss} : list event * wstate :=
    match ss with
    | [] => ([], st)
    | s :: rest =>
      let '(ev1, st1) := run_sub rn old lv proc total i s st in
      let '(ev2, st2) := loop rest (i + 1) st1 in
      (ev1 ++ ev2, st2)
    end.

(* TileWalker._walk *)
Fixpoint run_node (old : option path) (n : wnode) (st : wstate) {struct n} : list event * wstate :=
  match n with
  | WErr => ([EErr], st)
  | WNode lv proc rep total subs =>
    let ev0 := if rep then [ERep lv (progress_ident old (ps st))] else [] in
    let '(evs, st') := run_subs (run_node old) old lv proc total subs 0 st in
    (ev0 ++ evs, st')
  end.

Definition st0 : wstate := mkW (mkP None 0) [].

(* TileWalker.walk: final_lv = task.levels[0] *)
Definition run_walk_raw (old : option path) (tree : wnode) (final_lv : Z) : list event :=
  if already_processed old (ps st0) then [ERep final_lv (progress_ident old (ps st0))]
  else
    let '(ev, st) := run_node old tree st0 in
    ev ++ [ERep final_lv (progress_ident old (ps st))].

Fixpoint until_err (evs : list event) : list event :=
  match evs with
  | [] => []
  | EErr :: _ => [EErr]
  | e :: r => e :: until_err r
  end.

(* what the implementation does: everything up to the first exception *)
Definition run_walk (old : option path) (tree : wnode) (final_lv : Z) : list event :=
  until_err (run_walk_raw old tree final_lv).

(* the tiles handed to the worker pool *)
Fixpoint procs (evs : list event) : list coord :=
  match evs with
  | [] => []
  | EProc t :: r => t :: procs r
  | _ :: r => procs r
  end.

(* ------------------------------------------------------------------ geometry: MetaGrid with buffer 0 *)

(* MetaGrid._meta_size *)
Definition meta_size (g : grid) (msx msy l : Z) : Z * Z :=
  let '(nx, ny) := grid_size g l in (Z.min msx nx, Z.min msy ny).

(* range(a, b + 1, s) and range(a, b - 1, -s) for s >= 1 *)
Definition up_range (a b s : Z) : list Z :=
  map (fun k => a + s * Z.of_nat k) (seq 0 (Z.to_nat ((b - a) / s + 1))).
Definition down_range (a b s : Z) : list Z :=
  map (fun k => a - s * Z.of_nat k) (seq 0 (Z.to_nat ((a - b) / s + 1))).

Inductive maff :=
| MAff (nx ny : Z) (tiles : list (option coord))
| MInvalid.

(* TileGrid.tile for the point (px2 / 2, py2 / 2), exact for every integer px2, py2 (the midpoint of a thin rectangle
   has half-integer coordinates); tile2 g (2 * px) (2 * py) l = tile g px py l *)
Definition tile2 (g : grid) (px2 py2 l : Z) : Z * Z :=
  let r := res_at g l in
  let x := px2 - 2 * gx0 g in
  let y := if ul g then 2 * gy1 g - py2 else py2 - 2 * gy0 g in
  (x / (2 * (r * tw g)), y / (2 * (r * th g))).

(* MetaGrid.get_affected_level_tiles + MetaGrid._tile_iter (the affected bbox is not used by the walker).
   Both corners are moved inwards by 1/10 pixel; when that inverts an axis (rectangle thinner than 2/10 pixel) the
   centre line of the rectangle is used for both corners of that axis (repair of finding C11-sliver).
   MInvalid = _tile_iter raises IndexError -> GridError('Invalid BBOX'); unreachable for well-formed grids
   (Seed_proofs.meta_affected_valid). *)
Definition meta_affected (g : grid) (msx msy : Z) (b : bbox) (l : Z) : maff :=
  let '(bx0, by0, bx1, by1) := b in
  let delta := res_at g l / 10 in
  let inv_x := bx1 - delta <? bx0 + delta in
  let inv_y := by1 - delta <? by0 + delta in
  let minx2 := if inv_x then bx0 + bx1 else 2 * (bx0 + delta) in
  let maxx2 := if inv_x then bx0 + bx1 else 2 * (bx1 - delta) in
  let miny2 := if inv_y then by0 + by1 else 2 * (by0 + delta) in
  let maxy2 := if inv_y then by0 + by1 else 2 * (by1 - delta) in
  let '(tx0, ty0) := tile2 g minx2 miny2 l in
  let '(tx1, ty1) := tile2 g maxx2 maxy2 l in
  let '(sx, sy) := meta_size g msx msy l in
  let x0 := tx0 / sx * sx in
  let x1 := tx1 / sx * sx in
  let y0 := ty0 / sy * sy in
  let y1 := ty1 / sy * sy in
  let xs := up_range x0 x1 sx in
  let ys := if ul g then up_range y1 y0 sy else down_range y1 y0 sy in
  match xs, ys with
  | [], _ | _, [] => MInvalid
  | _ :: _, _ :: _ =>
    MAff (Z.of_nat (length xs)) (Z.of_nat (length ys)) (create_tile_list xs ys l (grid_size g l))
  end.

(* MetaGrid.meta_tile(t).bbox for meta_buffer = 0: main_tile, unbuffered_meta_bbox *)
Definition meta_bbox (g : grid) (msx msy : Z) (t : coord) : bbox :=
  let '(x, y, l) := t in
  let '(sx, sy) := meta_size g msx msy l in
  let mx := x / sx * sx in
  let my := y / sy * sy in
  merge_bbox (tile_bbox g mx my l) (tile_bbox g (mx + sx - 1) (my + sy - 1) l).

(* seed/util.py limit_sub_bbox *)
Definition limit_sub_bbox (b s : bbox) : bbox :=
  let '(b0, b1, b2, b3) := b in
  let '(s0, s1, s2, s3) := s in
  (Z.max b0 s0, Z.max b1 s1, Z.min b2 s2, Z.min b3 s3).

(* TileWalker.__init__: report_till_level *)
Definition report_till (levels : list Z) : Z :=
  let n := length levels in
  if (4 <=? n)%nat then nth (n - 2) levels 0 else nth (n - 1) levels 0.

Definition mem_z (x : Z) (l : list Z) : bool := existsb (Z.eqb x) l.

Section Geo.
  Variable g : grid.
  Variables msx msy : Z.
  Variable cov : bbox -> Z.              (* task.intersects: 0 NONE, 1 INTERSECTS, -1 CONTAINS *)
  Variable skipk : Z.                    (* skip_geoms_for_last_levels *)
  Variable rtl : Z.                      (* report_till_level *)

  (* _filter_subtiles + the decision of _walk what to do with one subtile *)
  Definition geo_sub (rec : bbox -> bool -> wnode) (cur : bbox) (levels' : list Z) (all1 : bool)
             (ot : option coord) : sub wnode :=
    match ot with
    | None => SNone
    | Some t =>
      let sb := meta_bbox g msx msy t in
      let i := if all1 then (-1) else cov sb in
      if i =? 0 then SNone
      else
        match levels' with
        | [] => SLeaf t
        | _ :: _ => SRec t (rec (limit_sub_bbox cur sb) (i =? (-1)))
        end
    end.

  (* the tree of _walk calls; fuel = number of grid levels left *)
  Fixpoint geo_tree (fuel : nat) (cur : bbox) (levels : list Z) (l : Z) (all : bool) {struct fuel} : wnode :=
    match fuel with
    | O => WErr
    | S f =>
      if negb (valid_level g l) then WErr
      else
        match meta_affected g msx msy cur l with
        | MInvalid => WErr
        | MAff nx ny tiles =>
          let all1 := if Z.of_nat (length levels) <? skipk then true else all in
          let inl := mem_z l levels in
          let levels' := if inl then tl levels else levels in
          WNode l inl (inl && (l <=? rtl)) (nx * ny)
                (map (geo_sub (fun b a => geo_tree f b levels' (l + 1) a) cur levels' all1) tiles)
        end
    end.
End Geo.

(* the whole walker on a grid *)
Definition geo_walk (g : grid) (msx msy : Z) (cov : bbox -> Z) (skipk : Z) (levels : list Z)
           (root : bbox) (old : option path) : list event :=
  run_walk old
           (geo_tree g msx msy cov skipk (report_till levels) (S (length (ress g))) root levels 0 false)
           (hd 0 levels).

(* ------------------------------------------------------------------ concrete coverages *)

Definition ten13 : Z := 10000000000000.

(* mapproxy.grid.bbox_contains(one, two) with its 1/10e12 tolerance, exact *)
Definition bbox_contains_tol (a b : bbox) : bool :=
  let '(a0, a1, a2, a3) := a in
  let '(b0, b1, b2, b3) := b in
  let xd := Z.abs (a2 - a0) in
  let yd := Z.abs (a3 - a1) in
  (a0 * ten13 <=? b0 * ten13 + xd) && (b2 * ten13 - xd <=? a2 * ten13) &&
  (a1 * ten13 <=? b1 * ten13 + yd) && (b3 * ten13 - yd <=? a3 * ten13).

(* SeedTask.intersects for a MultiCoverage of BBOXCoverages in the grid SRS (one element: BBOXCoverage) *)
Definition cov_bboxes (cs : list bbox) (b : bbox) : Z :=
  if existsb (fun c => bbox_contains_tol c b) cs then (-1)
  else if existsb (fun c => bbox_intersects c b) cs then 1 else 0.

(* a coverage given by the answers the real SeedTask.intersects gave (shapely / PROJ are external) *)
(* a rectangle the real walker never asked about answers NONE: if the model asks where the implementation did not
   (because it took the tile without a test) the traces differ *)
Definition cov_table (tab : list (bbox * Z)) (b : bbox) : Z :=
  match find (fun p => bbox_eqb (fst p) b) tab with Some p => snd p | None => 0 end.

(* ------------------------------------------------------------------ comparison helpers *)

Definition path_eqb (a b : path) : bool := pairs_eqb a b.

Definition opath_eqb (a b : option path) : bool :=
  match a, b with
  | None, None => true
  | Some x, Some y => path_eqb x y
  | _, _ => false
  end.

Definition event_eqb (a b : event) : bool :=
  match a, b with
  | EProc s, EProc t => coord_eqb s t
  | ERep l i, ERep m j => (l =? m) && opath_eqb i j
  | EErr, EErr => true
  | _, _ => false
  end.

Fixpoint events_eqb (a b : list event) : bool :=
  match a, b with
  | [], [] => true
  | x :: a', y :: b' => event_eqb x y && events_eqb a' b'
  | _, _ => false
  end.

(* ------------------------------------------------------------------ interrupted seeding sessions *)

(* history tree flv old acc: after some sequence of interrupted runs of the task, the progress file holds `old`
   and `acc` are the tiles handed to the workers so far.  A run that continues from `old` is interrupted before
   its k-th event; the file then holds the identifier of some report that happened before (any one: which
   reports are written depends on wall-clock gating), or still `old` when none was written. *)
Inductive history (tree : wnode) (flv : Z) : option path -> list coord -> Prop :=
| hist_start : history tree flv None []
| hist_crash_resume old acc k j lv id :
    history tree flv old acc ->
    nth_error (run_walk old tree flv) j = Some (ERep lv id) -> (j < k)%nat ->
    history tree flv id (acc ++ procs (firstn k (run_walk old tree flv)))
| hist_crash_nothing_written old acc k :
    history tree flv old acc ->
    history tree flv old (acc ++ procs (firstn k (run_walk old tree flv))).

(* ------------------------------------------------------------------ what a process call hands over *)

(* MetaGrid.tile_list(main_tile) = _meta_tile_list: the tiles of the meta tile, rows from the top, None outside the grid *)
Definition meta_tile_list (g : grid) (msx msy : Z) (t : coord) : list (option coord) :=
  let '(x, y, l) := t in
  let '(sx, sy) := meta_size g msx msy l in
  let mx := x / sx * sx in
  let my := y / sy * sy in
  let xs := zrange mx (mx + sx - 1) in
  let ys := if ul g then zrange my (my + sy - 1) else rev (zrange my (my + sy - 1)) in
  create_tile_list xs ys l (grid_size g l).

Fixpoint somes {A} (l : list (option A)) : list A :=
  match l with
  | [] => []
  | Some a :: r => a :: somes r
  | None :: r => somes r
  end.

(* the list given to worker_pool.process for the subtile t.
   womt = work_on_metatiles (false for caches with upscale_tiles / downscale_tiles: handle_tiles = grid.tile_list(subtile)).
   handle_all: [t] when working on meta tiles, every member of the meta tile otherwise;
   not handle_all (TileWalker._tiles_of): the members of the meta tile of t that pass the filter
   keep = "not is_cached" (uncached mode) / "is_stale" (--skip-uncached mode) - in both cases in tile_list order *)
Definition handed_tiles (g : grid) (msx msy : Z) (womt handle_all : bool) (keep : coord -> bool) (t : coord) : list coord :=
  if handle_all then (if womt then [t] else somes (meta_tile_list g msx msy t))
  else filter keep (somes (meta_tile_list g msx msy t)).

Inductive oevent : Type :=
| OProc (ts : list coord)                     (* worker_pool.process(ts, ...) *)
| ORep (lv : Z) (id : option path)
| OErr.

(* the observable trace: process is only called with a non-empty list (the duplicate deque is updated before that
   test, so dropping the call does not influence the rest of the walk) *)
Fixpoint observe (g : grid) (msx msy : Z) (womt handle_all : bool) (keep : coord -> bool) (evs : list event) : list oevent :=
  match evs with
  | [] => []
  | EProc t :: r =>
    match handed_tiles g msx msy womt handle_all keep t with
    | [] => observe g msx msy womt handle_all keep r
    | ts => OProc ts :: observe g msx msy womt handle_all keep r
    end
  | ERep lv id :: r => ORep lv id :: observe g msx msy womt handle_all keep r
  | EErr :: r => OErr :: observe g msx msy womt handle_all keep r
  end.

(* every single tile handed over in a trace *)
Definition handed_all (g : grid) (msx msy : Z) (womt handle_all : bool) (keep : coord -> bool) (evs : list event) : list coord :=
  flat_map (handed_tiles g msx msy womt handle_all keep) (procs evs).

Fixpoint coords_eqb (a b : list coord) : bool :=
  match a, b with
  | [], [] => true
  | x :: a', y :: b' => coord_eqb x y && coords_eqb a' b'
  | _, _ => false
  end.

Definition oevent_eqb (a b : oevent) : bool :=
  match a, b with
  | OProc s, OProc t => coords_eqb s t
  | ORep l i, ORep m j => (l =? m) && opath_eqb i j
  | OErr, OErr => true
  | _, _ => false
  end.

Fixpoint oevents_eqb (a b : list oevent) : bool :=
  match a, b with
  | [], [] => true
  | x :: a', y :: b' => oevent_eqb x y && oevents_eqb a' b'
  | _, _ => false
  end.

(* filter used for the tree-level tie: process calls of the listed subtiles are dropped (all members cached) *)
Definition drop_procs (drop : list coord) (evs : list event) : list event :=
  filter (fun e => match e with EProc t => negb (existsb (coord_eqb t) drop) | _ => true end) evs.

(* ------------------------------------------------------------------ the progress store: one entry per task id *)

(* ProgressStore.status: a dict task id -> progress identifier; add = dict assignment (newest binding first),
   get = status.get(id, None).  K = type of task ids with its equality test. *)
Section Store.
  Variable K : Type.
  Variable keqb : K -> K -> bool.
  Definition pstore := list (K * option path).
  Definition store_get (s : pstore) (k : K) : option path :=
    match find (fun e => keqb k (fst e)) s with Some e => snd e | None => None end.
  Definition store_add (s : pstore) (k : K) (v : option path) : pstore := (k, v) :: s.
  Definition store_adds (s : pstore) (ws : list (K * option path)) : pstore :=
    fold_left (fun s w => store_add s (fst w) (snd w)) ws s.
End Store.
Arguments store_get {K}.
Arguments store_add {K}.
Arguments store_adds {K}.

(* ------------------------------------------------------------------ the hand-over to the worker processes *)
(* mapproxy/seed/seeder.py TileWorkerPool.process / stop and TileWorker.work_loop over the bounded tiles_queue.
   T = type of a tile list.  The queue is FIFO; an item is Some tiles or None (the shutdown sentinel). *)
Section PoolModel.
  Variable T : Type.

  (* what one queue.put(tiles, timeout=5) attempt does: accepted, or Queue.Full with "some worker is alive" *)
  Inductive put_outcome := PutOk | PutFull (alive : bool).
  Inductive proc_result := Handed | Interrupted | Retrying.

  (* TileWorkerPool.process (not dry_run): retry until the queue takes the list; give up only when no worker is alive *)
  Fixpoint pool_process (env : list put_outcome) (q : list (option T)) (tiles : T) : proc_result * list (option T) :=
    match env with
    | [] => (Retrying, q)
    | PutOk :: _ => (Handed, q ++ [Some tiles])
    | PutFull true :: env' => pool_process env' q tiles
    | PutFull false :: _ => (Interrupted, q)
    end.

  (* a worker: waiting for the next item, working on a list, or gone (it took a sentinel) *)
  Inductive wstat := WIdle | WBusy (t : T) | WExited.
  Record pool := mkPool { pq : list (option T); pw : list wstat; pdone : list T }.

  Definition set_nth {A} (l : list A) (i : nat) (a : A) : list A := firstn i l ++ a :: skipn (S i) l.

  (* one step of worker i: take the head of the queue when idle, finish the list it works on when busy *)
  Definition worker_step (p : pool) (i : nat) : pool :=
    match nth_error (pw p) i with
    | Some WIdle =>
      match pq p with
      | [] => p                                              (* blocks in queue.get() *)
      | Some t :: q' => mkPool q' (set_nth (pw p) i (WBusy t)) (pdone p)
      | None :: q' => mkPool q' (set_nth (pw p) i WExited) (pdone p)
      end
    | Some (WBusy t) => mkPool (pq p) (set_nth (pw p) i WIdle) (pdone p ++ [t])
    | _ => p
    end.

  Definition run_workers (p : pool) (sched : list nat) : pool := fold_left worker_step sched p.

  (* stop(force=False): one sentinel per worker that is alive (then join) *)
  Definition alive (w : wstat) : bool := match w with WExited => false | _ => true end.
  Definition pool_stop (p : pool) : pool :=
    mkPool (pq p ++ repeat None (length (filter alive (pw p)))) (pw p) (pdone p).
End PoolModel.
Arguments WIdle {T}.
Arguments WBusy {T}.
Arguments WExited {T}.
Arguments mkPool {T}.
Arguments pq {T}.
Arguments pw {T}.
Arguments pdone {T}.
Arguments pool_process {T}.
Arguments worker_step {T}.
Arguments run_workers {T}.
Arguments alive {T}.
Arguments pool_stop {T}.

(* ------------------------------------------------------------------ stopping through SeedProgress.running() *)

(* _walk asks seed_progress.running() once per call, after the entry report; when it answers False the call reports its
   position once more (if its level is seeded) and raises StopProcess.  The exception passes through every enclosing
   `with step_down(...)` WITHOUT running the part after the yield (level_progresses keeps the position), skips the rest
   of every enclosing loop, is caught in walk(), and walk() ends with its usual final report.
   scnt = number of running() calls that still answer True (None: always True). *)
Record sstate := mkS { sw : wstate; scnt : option nat; shalt : bool }.

Definition run_sub_s (rn : wnode -> sstate -> list event * sstate) (old : option path)
           (lv : Z) (proc : bool) (total : Z) (i : Z) (s : sub wnode) (st : sstate) : list event * sstate :=
  match s with
  | SNone => ([], st)
  | SLeaf t => let '(ev, w) := do_process proc lv t (sw st) in (ev, mkS w (scnt st) (shalt st))
  | SRec t c =>
    let w_in := mkW (step_down_enter (ps (sw st)) i total) (dq (sw st)) in
    let st_in := mkS w_in (scnt st) (shalt st) in
    let '(evc, stc) :=
      if already_processed old (ps w_in) then ([], st_in) else rn c st_in in
    if shalt stc then (evc, stc)              (* StopProcess on its way up: nothing after the yield, no own tile *)
    else
      let w_out := mkW (step_down_exit (ps (sw stc))) (dq (sw stc)) in
      let '(evp, wp) := do_process proc lv t w_out in
      (evc ++ evp, mkS wp (scnt stc) false)
  end.

Definition run_subs_s (rn : wnode -> sstate -> list event * sstate) (old : option path)
           (lv : Z) (proc : bool) (total : Z) :=
  fix loop (ss : list (sub wnode)) (i : Z) (st : sstate) {struct ss} : list event * sstate :=
    match ss with
    | [] => ([], st)
    | s :: rest =>
      let '(ev1, st1) := run_sub_s rn old lv proc total i s st in
      if shalt st1 then (ev1, st1)
      else let '(ev2, st2) := loop rest (i + 1) st1 in (ev1 ++ ev2, st2)
    end.

Fixpoint run_node_s (old : option path) (n : wnode) (st : sstate) {struct n} : list event * sstate :=
  match n with
  | WErr => ([EErr], st)
  | WNode lv proc rep total subs =>
    let here := ERep lv (progress_ident old (ps (sw st))) in
    let ev0 := if rep then [here] else [] in
    match scnt st with
    | Some O => (ev0 ++ (if proc then [here] else []), mkS (sw st) (scnt st) true)
    | c =>
      let st1 := mkS (sw st) (match c with Some (S k) => Some k | _ => None end) false in
      let '(evs, st') := run_subs_s (run_node_s old) old lv proc total subs 0 st1 in
      (ev0 ++ evs, st')
    end
  end.

(* TileWalker.walk with a SeedProgress whose running() answers True `stop` times and then False *)
Definition run_walk_s (old : option path) (tree : wnode) (final_lv : Z) (stop : option nat) : list event :=
  until_err
    (if already_processed old (ps st0) then [ERep final_lv (progress_ident old (ps st0))]
     else
       let '(ev, st) := run_node_s old tree (mkS st0 stop false) in
       ev ++ [ERep final_lv (progress_ident old (ps (sw st)))]).

Definition geo_walk_s (g : grid) (msx msy : Z) (cov : bbox -> Z) (skipk : Z) (levels : list Z)
           (root : bbox) (old : option path) (stop : option nat) : list event :=
  run_walk_s old
             (geo_tree g msx msy cov skipk (report_till levels) (S (length (ress g))) root levels 0 false)
             (hd 0 levels) stop.

(* ------------------------------------------------------------------ the work of a seed worker on one handed list *)
(* TileSeedWorker.work_loop -> TileManager.load_tile_coords -> TileCreator.create_tiles -> _create_meta_tile with a cache
   that stores the tiles of a meta tile one by one (TileCacheBase.store_tiles: file cache ...).  A cache content is the
   list of stored tile coordinates.  `members` = meta_tile.tiles (without None) of the meta tile the handed tiles belong to. *)
Definition cache_has (c : list coord) (t : coord) : bool := existsb (coord_eqb t) c.

(* the walker in uncached mode hands over the members that are not cached (handed_tiles with keep = not cached) *)
Definition uncached_members (c members : list coord) : list coord :=
  filter (fun t => negb (cache_has c t)) members.

(* _create_meta_tile, under the lock of the main tile: unless every tile of the meta tile is cached the meta tile is
   requested and store_tiles stores all members in order; result = the store_tile calls *)
Definition create_meta_stores (c members : list coord) : list coord :=
  if forallb (cache_has c) members then [] else members.

(* load_tile_coords(handed): only when some handed tile is missing the creator is called *)
Definition worker_stores (c members handed : list coord) : list coord :=
  if existsb (fun t => negb (cache_has c t)) handed then create_meta_stores c members else [].

(* the cache when the worker process dies right behind its j-th store_tile (j >= number of stores: it does not die) *)
Definition cache_after (c stored : list coord) (j : nat) : list coord := c ++ firstn j stored.
