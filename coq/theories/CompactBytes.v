(* C05  The compact caches at byte level, over the address / operation / output types of CacheMap.v.

   The byte-level model of a bundle (files as byte sequences, index entries, records, header updates) and of a
   cache of several bundles is C19's: Bundle.v (v2_load / v2_store1 / v2_remove1 / v2_is_cached, the v1 twins,
   c_find / c_get / c_set / c_store_tiles / c_remove / c_load, bundle key `key_of`, slot `slot_of`).  This file only
   runs a C05 history on it: CompactCacheBase.store_tile(s) / load_tile(s) / is_cached / remove_tile.
   A payload is here the byte string of the tile.  No proofs here. *)
From Coq Require Import ZArith List Bool.
Import ListNotations.
From MP Require Import Base Bytes Gen_compact CacheMap Bundle.
Local Open Scope Z_scope.

Definition xyz (a : addr) : Z * Z * Z := (ax a, ay a, az a).

Definition rres_out (r : rres) : out :=
  match r with RData d => OLoad (Some d) | RMissing => OLoad None | RError => OErr end.
Definition rres_opt (r : rres) : option bytes := match r with RData d => Some d | _ => None end.
Definition rres_err (r : rres) : bool := match r with RError => true | _ => false end.

Section CompactBytes.
  Variable St : Type.
  Variable load : St -> slot -> rres.
  Variable store1 : St -> slot -> list Z -> option St.
  Variable remove1 : St -> slot -> St.
  Variable fresh : bkey -> St.
  Variable cached : St -> slot -> option bool.

  Notation cache := (list (bkey * St)).

  (* CompactCacheBase.is_cached: a missing bundle file means "not cached" *)
  Definition cb_cached (c : cache) (a : addr) : out :=
    match c_find c (key_of (ax a) (ay a) (az a)) with
    | None => OCached false
    | Some st => match cached st (slot_of (ax a) (ay a)) with Some b => OCached b | None => OErr end
    end.

  Definition cb_load_many (c : cache) (l : list addr) : out :=
    let rs := map (fun a => c_load St load c (xyz a)) l in
    if existsb rres_err rs then OErr else load_many_out (map rres_opt rs).

  (* outputs of a history; a call that raises ends it *)
  Fixpoint cb_run (c : cache) (ops : list op) : list out :=
    match ops with
    | [] => []
    | o :: r =>
      match o with
      | Store a b =>
        match c_store_tiles St store1 fresh c [(xyz a, b)] with
        | Some c' => ODone :: cb_run c' r
        | None => [OErr]
        end
      | StoreMany l =>
        match c_store_tiles St store1 fresh c (map (fun ab => (xyz (fst ab), snd ab)) l) with
        | Some c' => ODone :: cb_run c' r
        | None => [OErr]
        end
      | Load a => rres_out (c_load St load c (xyz a)) :: cb_run c r
      | LoadMany l => cb_load_many c l :: cb_run c r
      | IsCached a => cb_cached c a :: cb_run c r
      | Remove a => ODone :: cb_run (c_remove St remove1 fresh c (xyz a)) r
      end
    end.
End CompactBytes.

Definition v2_bytes_outs (ops : list op) : list out :=
  cb_run bfile v2_load v2_store1 v2_remove1 (fun _ => v2_init) v2_is_cached [] ops.

Definition v1_bytes_outs (ops : list op) : list out :=
  cb_run v1st v1_load v1_store1 v1_remove1 v1_fresh v1_is_cached [] ops.
