(* C13  Expiry rules decide which tiles are refreshed.

   Executable model of
     mapproxy/cache/tile.py   TileManager.is_cached / is_stale / expire_timestamp,
                              _load_tile_coords, TileCreator.create_tiles,
                              _create_single_tile, _create_meta_tile
     mapproxy/seed/config.py  before_timestamp_from_options
     mapproxy/util/times.py   timestamp_before, timestamp_from_isodate (result only)
     mapproxy/seed/seeder.py  the `handle_uncached` / `handle_stale` selection of TileWalker._walk (_tiles_of)
   over a cache that maps a tile address to (content, timestamp).

   Time.  All instants are integers in *ticks*; `Q` ticks make one second (Q is a parameter of every
   definition; the correspondence check runs with Q = 4, i.e. quarter seconds, which are exact as IEEE doubles,
   as nanosecond mtimes and as datetime microseconds).  A file mtime may be any tick; a sqlite `last_modified`
   value, a `mktime` result and an ISO `time:` threshold are whole seconds (multiples of Q).

   Content.  The content of a tile is an integer (its colour: all tiles are single colour images); an upstream
   answer `UOk _ _ v` is an image whose every tile has content v.

   No proofs in this file. *)
From Coq Require Import ZArith List Bool.
Import ListNotations.
From MP Require Import Base.
Local Open Scope Z_scope.

Definition addr := (Z * Z * Z)%type.
Definition addr_eqb (a b : addr) : bool := Z3_eqb a b.

Record entry := mkEntry { e_content : Z; e_ts : Z }.
Definition cache := list (addr * entry).

Fixpoint get (c : cache) (a : addr) : option entry :=
  match c with
  | [] => None
  | (b, e) :: r => if addr_eqb a b then Some e else get r a
  end.
Definition put (c : cache) (a : addr) (e : entry) : cache := (a, e) :: c.
Definition content_of (c : cache) (a : addr) : option Z :=
  match get c a with Some e => Some (e_content e) | None => None end.

(* the `refresh_before` dictionary of a cache / seed task (config/spec.py time_spec) *)
Record rconf := mkRconf {
  rc_time : option Z;      (* 'time': ISO date, already converted to whole seconds since the epoch *)
  rc_mtime : bool;         (* 'mtime' key present (the file is part of the environment) *)
  rc_weeks : Z; rc_days : Z; rc_hours : Z; rc_minutes : Z;
  rc_seconds : Z           (* 'seconds', in ticks (may be fractional seconds) *)
}.

(* what the TileManager carries *)
Record mgr := mkMgr {
  m_refresh_before : option rconf;   (* _refresh_before; None = {} (falsy) *)
  m_expire : option Z;               (* _expire_timestamp in ticks (seed / cleanup task), None = no rule *)
  m_meta : bool;                     (* meta_grid is set *)
  m_floor_store : bool;              (* back-end stores whole seconds (sqlite datetime) / exact instant (file mtime) *)
  m_filter : Z;                      (* pre_store_filter: a created tile with content v is replaced by a new image with
                                        content v + m_filter (0 = no filter) *)
  m_link : bool                      (* FileCache(link_single_color_images=symlink); recorded only: stores behave alike *)
}.

(* what a request reads from outside: the clock and the mtime of the reference file *)
Record env := mkEnv { now : Z; ref_mtime : option Z }.

Inductive thr := ThrNone | ThrAt (t : Z) | ThrErr.

Inductive outcome :=
  | UOk (cacheable authorize_stale : bool) (content : Z)  (* an image (possibly produced by an on_error handler) *)
  | UErr                                     (* SourceError *)
  | UBlank                                   (* BlankImage *)
  | UBroken.                                 (* 200 OK and image headers, but the body breaks when it is read (the
                                                response is wrapped unread in an ImageSource; it is read by the
                                                pre-store filter, the meta tile splitter or tile_buffer in the store) *)

Inductive err := ECfg | ESource | EBody.
Inductive result := Served (l : list (option Z)) | Raised (e : err).

(* state that survives a request: the cache and the upstream log (newest first); an entry of the log is the
   list of tiles the upstream request covered *)
Record st := mkSt { s_cache : cache; s_log : list (list addr) }.

Section WithQ.
Variable Q : Z.

(* mktime(d.timetuple()): the microseconds are dropped *)
Definition floor_sec (t : Z) : Z := t / Q * Q.

(* util/times.py timestamp_before: mktime((datetime.now() - timedelta(...)).timetuple()) *)
Definition delta_of (rc : rconf) : Z :=
  Q * (604800 * rc_weeks rc + 86400 * rc_days rc + 3600 * rc_hours rc + 60 * rc_minutes rc) + rc_seconds rc.
Definition timestamp_before (rc : rconf) (t_now : Z) : Z := floor_sec (t_now - delta_of rc).

(* seed/config.py before_timestamp_from_options: 'time' wins over 'mtime' wins over the deltas *)
Definition before_timestamp_from_options (rc : rconf) (ev : env) : thr :=
  match rc_time rc with
  | Some s => ThrAt (s * Q)
  | None =>
      if rc_mtime rc then
        match ref_mtime ev with Some t => ThrAt t | None => ThrErr end
      else ThrAt (timestamp_before rc (now ev))
  end.

(* TileManager.expire_timestamp *)
Definition expire_timestamp (m : mgr) (ev : env) : thr :=
  match m_refresh_before m with
  | Some rc => before_timestamp_from_options rc ev
  | None => match m_expire m with Some t => ThrAt t | None => ThrNone end
  end.

(* stale = int(tile.timestamp) <= max_mtime *)
Definition int_ts (ts : Z) : Z := Z.quot ts Q.
Definition stale_at (ts t : Z) : bool := int_ts ts * Q <=? t.

(* TileManager.is_cached; None = SeedConfigurationError out of expire_timestamp *)
Definition tm_is_cached (m : mgr) (ev : env) (c : cache) (a : addr) : option bool :=
  match expire_timestamp m ev with
  | ThrErr => None
  | ThrNone => Some (match get c a with Some _ => true | None => false end)
  | ThrAt t => Some (match get c a with Some e => negb (stale_at (e_ts e) t) | None => false end)
  end.

(* TileManager.is_stale: exists and expired (the threshold is not evaluated for a missing tile) *)
Definition tm_is_stale (m : mgr) (ev : env) (c : cache) (a : addr) : option bool :=
  match get c a with
  | Some _ => match tm_is_cached m ev c a with Some b => Some (negb b) | None => None end
  | None => Some false
  end.

(* instant written by a store at `t_now` *)
Definition store_ts (m : mgr) (ev : env) : Z := if m_floor_store m then floor_sec (now ev) else now ev.

(* the upstream script: answer of the k-th upstream request of the run *)
Definition next_outcome (sc : nat -> outcome) (s : st) : outcome := sc (length (s_log s)).

(* TileManager.apply_tile_filter on a freshly created tile (tile.stored is False) *)
Definition apply_tile_filter (m : mgr) (v : Z) : Z := v + m_filter m.

(* cache.store_tile at the instant of the request.  File cache (_store): tile_buffer reads the image, then
   write_atomic (temporary file + rename) replaces the tile: all or nothing.  mbtiles: INSERT OR REPLACE.  Linked
   single colour tiles in symlink mode (_store_single_color_tile): a new symlink is created under a temporary name
   and renamed over the tile location - the tile's own (lstat) time stamp is the instant of the store, whatever the
   age of the shared colour file.  So for all modelled back-ends a store is a replacement of the entry.  (Hard link
   mode is outside the model: hard links share the inode and its mtime.) *)
Definition store_tile (m : mgr) (ev : env) (c : cache) (a : addr) (v : Z) : cache :=
  put c a (mkEntry v (store_ts m ev)).

Fixpoint store_tiles (m : mgr) (ev : env) (c : cache) (l : list addr) (v : Z) : cache :=
  match l with
  | [] => c
  | a :: r => store_tiles m ev (store_tile m ev c a v) r v
  end.

Inductive step := Cont (s : st) (created : list (addr * option Z)) | Stop (s : st) (e : err).

(* TileCreator._create_single_tile *)
Definition create_single (m : mgr) (ev : env) (sc : nat -> outcome) (s : st) (a : addr) : step :=
  match tm_is_cached m ev (s_cache s) a with
  | None => Stop s ECfg
  | Some true => Cont s [(a, content_of (s_cache s) a)]           (* else: self.cache.load_tile(tile) *)
  | Some false =>
      let s1 := mkSt (s_cache s) ([a] :: s_log s) in              (* _query_sources *)
      match next_outcome sc s with
      | UErr =>
          match tm_is_stale m ev (s_cache s) a with
          | None => Stop s1 ECfg
          | Some true => Cont s1 []                               (* load_tile; source is None: return [] *)
          | Some false => Stop s1 ESource                         (* reraise *)
          end
      | UBlank => Cont s1 []
      | UBroken => Stop s1 EBody                                  (* raised by the filter or inside store_tile *)
      | UOk cacheable auth v0 =>
          let v := apply_tile_filter m v0 in
          (* the store decision is source.cacheable of the upstream answer, not of the filtered tile *)
          let fresh := Cont (mkSt (if cacheable then store_tile m ev (s_cache s) a v else s_cache s) (s_log s1))
                            [(a, Some v)] in
          if auth then
            match tm_is_stale m ev (s_cache s) a with
            | None => Stop s1 ECfg
            | Some true => Cont s1 [(a, content_of (s_cache s) a)]   (* stale tile instead of the error image *)
            | Some false => fresh
            end
          else fresh
      end
  end.

Fixpoint all_cached (m : mgr) (ev : env) (c : cache) (l : list addr) : option bool :=
  match l with
  | [] => Some true
  | a :: r =>
      match tm_is_cached m ev c a with
      | None => None
      | Some false => Some false
      | Some true => all_cached m ev c r
      end
  end.

Fixpoint put_all (c : cache) (l : list addr) (e : entry) : cache :=
  match l with
  | [] => c
  | a :: r => put_all (put c a e) r e
  end.

(* TileCreator._create_meta_tile; `mt` = the tiles of the meta tile (None entries removed) *)
Definition create_meta (m : mgr) (ev : env) (sc : nat -> outcome) (s : st) (mt : list addr) : step :=
  match all_cached m ev (s_cache s) mt with
  | None => Stop s ECfg
  | Some true => Cont s (map (fun a => (a, content_of (s_cache s) a)) mt)
  | Some false =>
      let s1 := mkSt (s_cache s) (mt :: s_log s) in
      match next_outcome sc s with
      | UErr => Stop s1 ESource                                   (* no stale fallback on this path *)
      | UBlank => Cont s1 []
      | UBroken => Stop s1 EBody                                  (* split_meta_tiles reads the image *)
      | UOk cacheable _ v0 =>
          let v := apply_tile_filter m v0 in
          Cont (mkSt (if cacheable then store_tiles m ev (s_cache s) mt v else s_cache s) (s_log s1))
               (map (fun a => (a, Some v)) mt)
      end
  end.

(* loop over the work items; `created` is kept newest first *)
Fixpoint create_loop {W} (f : st -> W -> step) (s : st) (acc : list (addr * option Z)) (ws : list W) : step :=
  match ws with
  | [] => Cont s acc
  | w :: r =>
      match f s w with
      | Stop s' e => Stop s' e
      | Cont s' cr => create_loop f s' (rev cr ++ acc) r
      end
  end.

(* _load_tile_coords: the tiles for which _is_tile_missing holds *)
Fixpoint uncached (m : mgr) (ev : env) (c : cache) (l : list addr) : option (list addr) :=
  match l with
  | [] => Some []
  | a :: r =>
      match tm_is_cached m ev c a with
      | None => None
      | Some b =>
          match uncached m ev c r with
          | None => None
          | Some u => Some (if b then u else a :: u)
          end
      end
  end.

Definition mt_eqb (x y : list addr) : bool := list_eqb addr_eqb x y.
Fixpoint mem_mt (x : list addr) (l : list (list addr)) : bool :=
  match l with [] => false | y :: r => mt_eqb x y || mem_mt x r end.
(* create_tiles: the distinct meta tiles of the uncached tiles, in order of first occurrence.  The code tells
   meta tiles apart by their main tile; two tiles have the same main tile iff they have the same list of meta
   tile members, which is what is compared here. *)
Fixpoint dedupe (seen : list (list addr)) (l : list (list addr)) : list (list addr) :=
  match l with
  | [] => []
  | x :: r => if mem_mt x seen then dedupe seen r else x :: dedupe (x :: seen) r
  end.

Fixpoint assoc (cr : list (addr * option Z)) (a : addr) : option (option Z) :=
  match cr with
  | [] => None
  | (b, v) :: r => if addr_eqb a b then Some v else assoc r a
  end.

(* the source of a requested tile after the merge of the created tiles: the last created tile with that
   coordinate wins, otherwise what cache.load_tiles put there at the start of the request *)
Definition serve (c0 : cache) (created : list (addr * option Z)) (a : addr) : option Z :=
  match assoc created a with Some v => v | None => content_of c0 a end.

(* TileManager.load_tile_coords (no rescaling, no coverage, one real source, coords without None and
   without duplicates); `members a` = tiles of the meta tile that contains a *)
Definition load_tile_coords (m : mgr) (ev : env) (sc : nat -> outcome) (members : addr -> list addr)
           (s : st) (coords : list addr) : st * result :=
  match uncached m ev (s_cache s) coords with
  | None => (s, Raised ECfg)
  | Some [] => (s, Served (map (content_of (s_cache s)) coords))
  | Some unc =>
      let r := if m_meta m
               then create_loop (create_meta m ev sc) s [] (dedupe [] (map members unc))
               else create_loop (create_single m ev sc) s [] unc in
      match r with
      | Stop s' e => (s', Raised e)
      | Cont s' created => (s', Served (map (serve (s_cache s) created) coords))
      end
  end.

(* ---- bulk_meta_tiles ------------------------------------------------------------------------------------
   TileCreator._create_bulk_meta_tile (tiled sources, meta_size configured, bulk_meta_tiles: true): the same
   re-check as _create_meta_tile, then one upstream request per tile of the meta tile (query_tile), in the order of
   meta_tile.tiles, through a pool of concurrent_tile_creators = 1 threads: sequential, and the first exception ends
   it (async_pool.shutdown; reraise) before anything is stored.  BlankImage: the tile is left out.  Afterwards
   cache.store_tiles of the tiles whose upstream answer is cacheable; all downloaded tiles are returned.
   (A body that breaks is modelled as raised by the pre_store_filter inside query_tile; without a filter it would
   break inside store_tiles after part of the tiles were written: not modelled, not generated.) *)
Fixpoint bulk_query (m : mgr) (sc : nat -> outcome) (log : list (list addr)) (acc : list (addr * Z * bool))
         (mt : list addr) : list (list addr) * option err * list (addr * Z * bool) :=
  match mt with
  | [] => (log, None, acc)
  | t :: r =>
      match sc (length log) with
      | UOk cacheable _ v0 => bulk_query m sc ([t] :: log) (acc ++ [(t, apply_tile_filter m v0, cacheable)]) r
      | UBlank => bulk_query m sc ([t] :: log) acc r
      | UErr => ([t] :: log, Some ESource, acc)
      | UBroken => ([t] :: log, Some EBody, acc)
      end
  end.

Fixpoint store_bulk (m : mgr) (ev : env) (c : cache) (acc : list (addr * Z * bool)) : cache :=
  match acc with
  | [] => c
  | (t, v, cacheable) :: r => store_bulk m ev (if cacheable then store_tile m ev c t v else c) r
  end.

Definition create_bulk_meta (m : mgr) (ev : env) (sc : nat -> outcome) (s : st) (mt : list addr) : step :=
  match all_cached m ev (s_cache s) mt with
  | None => Stop s ECfg
  | Some true => Cont s (map (fun a => (a, content_of (s_cache s) a)) mt)
  | Some false =>
      match bulk_query m sc (s_log s) [] mt with
      | (log', Some e, _) => Stop (mkSt (s_cache s) log') e
      | (log', None, acc) =>
          Cont (mkSt (store_bulk m ev (s_cache s) acc) log') (map (fun x => (fst (fst x), Some (snd (fst x)))) acc)
      end
  end.

(* load_tile_coords of a TileManager in bulk_meta_tiles mode *)
Definition load_tile_coords_bulk (m : mgr) (ev : env) (sc : nat -> outcome) (members : addr -> list addr)
           (s : st) (coords : list addr) : st * result :=
  match uncached m ev (s_cache s) coords with
  | None => (s, Raised ECfg)
  | Some [] => (s, Served (map (content_of (s_cache s)) coords))
  | Some unc =>
      match create_loop (create_bulk_meta m ev sc) s [] (dedupe [] (map members unc)) with
      | Stop s' e => (s', Raised e)
      | Cont s' created => (s', Served (map (serve (s_cache s) created) coords))
      end
  end.

Fixpoint run_bulk (m : mgr) (ev : env) (sc : nat -> outcome) (members : addr -> list addr) (s : st)
         (reqs : list (list addr)) : st * list result :=
  match reqs with
  | [] => (s, [])
  | coords :: r =>
      let '(s1, res) := load_tile_coords_bulk m ev sc members s coords in
      let '(s2, rs) := run_bulk m ev sc members s1 r in
      (s2, res :: rs)
  end.

(* ---- a request that has to wait for the tile lock --------------------------------------------------------
   Double-checked locking: _load_tile_coords decides on the state c0 it sees first; before the request gets its
   first tile lock other requests complete (state s1); under the lock _create_single_tile / _create_meta_tile check
   again.  The re-check reads the time stamp that is stored *now* for every back-end (file: lstat; mbtiles/sqlite:
   SELECT last_modified, since fix F60).  What differs is the image the Tile object of the waiting request carries:
     file caches    the loaded source is the file *name* (read lazily): the content of the current cache;
     mbtiles/sqlite the loaded source is a BytesIO of what was loaded before the wait (or, for a tile that did not
                    exist then, what cache.is_cached(tile) of the re-check loads).
   The meta tile path re-checks fresh Tile objects. *)
Definition keeps_loaded_image (m : mgr) : bool := m_floor_store m.

Definition view (m : mgr) (c0 c : cache) (a : addr) : cache :=
  if keeps_loaded_image m then match get c0 a with Some e => put c a e | None => c end else c.

(* _create_single_tile on a Tile object that was loaded from c0: decisions on the current cache, image from the
   Tile object *)
Definition create_single_v (m : mgr) (ev : env) (sc : nat -> outcome) (c0 : cache) (s : st) (a : addr) : step :=
  let cv := view m c0 (s_cache s) a in
  match tm_is_cached m ev (s_cache s) a with
  | None => Stop s ECfg
  | Some true => Cont s [(a, content_of cv a)]
  | Some false =>
      let s1 := mkSt (s_cache s) ([a] :: s_log s) in
      match next_outcome sc s with
      | UErr =>
          match tm_is_stale m ev (s_cache s) a with
          | None => Stop s1 ECfg
          | Some true => Cont s1 [(a, content_of cv a)]             (* load_tile fills the tile object *)
          | Some false => Stop s1 ESource
          end
      | UBlank => Cont s1 (if keeps_loaded_image m then [(a, content_of cv a)] else [])
                  (* mbtiles: cache.is_cached(tile) of the re-check has loaded the image if there is one *)
      | UBroken => Stop s1 EBody
      | UOk cacheable auth v0 =>
          let v := apply_tile_filter m v0 in
          let fresh := Cont (mkSt (if cacheable then store_tile m ev (s_cache s) a v else s_cache s) (s_log s1))
                            [(a, Some v)] in
          if auth then
            match tm_is_stale m ev (s_cache s) a with
            | None => Stop s1 ECfg
            | Some true => Cont s1 [(a, content_of cv a)]
            | Some false => fresh
            end
          else fresh
      end
  end.

(* source of a requested tile that no created tile replaces: what load_tiles put there at the start - for file
   caches the file name, i.e. the content at the time the answer is read *)
Definition serve_after (m : mgr) (c0 c_end : cache) (created : list (addr * option Z)) (a : addr) : option Z :=
  match assoc created a with
  | Some v => v
  | None => if keeps_loaded_image m then content_of c0 a
            else match get c0 a with Some _ => content_of c_end a | None => None end
  end.

(* the request `coords` sees s0 first; if it has to create tiles, the request `other` completes before it gets its
   first lock *)
Definition load_after (m : mgr) (ev : env) (sc : nat -> outcome) (members : addr -> list addr)
           (s0 : st) (coords other : list addr) : st * result :=
  match uncached m ev (s_cache s0) coords with
  | None => (s0, Raised ECfg)
  | Some [] => (s0, Served (map (content_of (s_cache s0)) coords))
  | Some unc =>
      let s1 := fst (load_tile_coords m ev sc members s0 other) in
      let r := if m_meta m
               then create_loop (create_meta m ev sc) s1 [] (dedupe [] (map members unc))
               else create_loop (create_single_v m ev sc (s_cache s0)) s1 [] unc in
      match r with
      | Stop s' e => (s', Raised e)
      | Cont s' created => (s', Served (map (serve_after m (s_cache s0) (s_cache s') created) coords))
      end
  end.

(* seed/seeder.py TileWalker._walk with refresh_before given (handle_all = False): which of the tiles `l` that are
   created together with the examined (meta) tile are handed to the workers.
     handle_uncached:           [st for st in _tiles_of(t) if not tile_mgr.is_cached(st)]   (= uncached)
     handle_stale (--skip-uncached): [st for st in _tiles_of(t) if tile_mgr.is_stale(st)]
   None = SeedConfigurationError out of the walker. *)
Fixpoint stale_members (m : mgr) (ev : env) (c : cache) (l : list addr) : option (list addr) :=
  match l with
  | [] => Some []
  | a :: r =>
      match tm_is_stale m ev c a with
      | None => None
      | Some b =>
          match stale_members m ev c r with
          | None => None
          | Some u => Some (if b then a :: u else u)
          end
      end
  end.

Definition seed_select (m : mgr) (ev : env) (c : cache) (skip_uncached : bool) (l : list addr) : option (list addr) :=
  if skip_uncached then stale_members m ev c l else uncached m ev c l.

(* seed/seeder.py seed_task + TileWalker over one level, refresh_before given: the (meta) tiles `mains` are
   examined in walk order, `members t` = _tiles_of(t) = the tiles of the meta tile of t; a non-empty selection is
   handed over and loaded by a worker (TileSeedWorker: tile_mgr.load_tile_coords(tiles), the result is dropped; an
   upstream error is retried later and does not stop the walk).  Returns the state, the lists handed over and
   whether the walk completed (False: SeedConfigurationError out of the walker). *)
Fixpoint seed_walk (m : mgr) (ev : env) (sc : nat -> outcome) (members : addr -> list addr)
         (s : st) (skip_uncached : bool) (mains : list addr) : st * list (list addr) * bool :=
  match mains with
  | [] => (s, [], true)
  | t :: r =>
      match seed_select m ev (s_cache s) skip_uncached (members t) with
      | None => (s, [], false)
      | Some [] => seed_walk m ev sc members s skip_uncached r
      | Some h =>
          let '(s2, hs, ok) := seed_walk m ev sc members (fst (load_tile_coords m ev sc members s h)) skip_uncached r in
          (s2, h :: hs, ok)
      end
  end.

(* ---- histories -------------------------------------------------------------------------------------- *)

Inductive event :=
  | EReq (coords : list addr)
  | ERace (coords other : list addr)         (* `other` completes while `coords` waits for its first lock *)
  | EProbe (a : addr)                        (* TileManager.is_cached / is_stale called directly *)
  | EClock (t : Z)
  | ERefMtime (t : option Z)                 (* os.utime / unlink of the reference file *)
  | ERule (rb : option rconf) (ex : option Z)  (* change of _refresh_before / _expire_timestamp *)
  | ESeed (refresh : option Z) (skip_uncached : bool) (mains : list addr).  (* seed_task on one level *)

Inductive obs :=
  | OReq (r : result)
  | OProbe (cached stale : option bool)
  | OSeed (handed : list (list addr)) (completed : bool)
  | OSilent.

Record world := mkWorld { w_mgr : mgr; w_env : env; w_st : st }.

Definition step_event (sc : nat -> outcome) (members : addr -> list addr) (w : world) (e : event) : world * obs :=
  match e with
  | EReq coords =>
      let '(s', r) := load_tile_coords (w_mgr w) (w_env w) sc members (w_st w) coords in
      (mkWorld (w_mgr w) (w_env w) s', OReq r)
  | ERace coords other =>
      let '(s', r) := load_after (w_mgr w) (w_env w) sc members (w_st w) coords other in
      (mkWorld (w_mgr w) (w_env w) s', OReq r)
  | EProbe a =>
      (w, OProbe (tm_is_cached (w_mgr w) (w_env w) (s_cache (w_st w)) a)
                 (tm_is_stale (w_mgr w) (w_env w) (s_cache (w_st w)) a))
  | EClock t => (mkWorld (w_mgr w) (mkEnv t (ref_mtime (w_env w))) (w_st w), OSilent)
  | ERefMtime t => (mkWorld (w_mgr w) (mkEnv (now (w_env w)) t) (w_st w), OSilent)
  | ERule rb ex =>
      (mkWorld (mkMgr rb ex (m_meta (w_mgr w)) (m_floor_store (w_mgr w)) (m_filter (w_mgr w)) (m_link (w_mgr w)))
               (w_env w) (w_st w), OSilent)
  | ESeed refresh skip mains =>
      (* seed_task: if task.refresh_timestamp is not None: tile_manager._expire_timestamp = refresh_timestamp *)
      let m' := match refresh with
                | Some t => mkMgr (m_refresh_before (w_mgr w)) (Some t) (m_meta (w_mgr w)) (m_floor_store (w_mgr w))
                                  (m_filter (w_mgr w)) (m_link (w_mgr w))
                | None => w_mgr w
                end in
      let '(s', handed, ok) := seed_walk m' (w_env w) sc members (w_st w) skip mains in
      (mkWorld m' (w_env w) s', OSeed handed ok)
  end.

Fixpoint run (sc : nat -> outcome) (members : addr -> list addr) (w : world) (es : list event) : world * list obs :=
  match es with
  | [] => (w, [])
  | e :: r =>
      let '(w1, o) := step_event sc members w e in
      let '(w2, os) := run sc members w1 r in
      (w2, o :: os)
  end.

End WithQ.

(* config/loader.py CacheConfiguration.caches: a cache gets one TileManager per grid; inside the loop over the grids
   every manager gets the cache's refresh_before (mgr._refresh_before = conf.get('refresh_before', {})), so the rule
   is in force for every grid of the cache.  `grids` lists, per grid, whether the manager has a meta grid. *)
Definition cache_managers (rb : option rconf) (floor_store : bool) (grids : list bool) : list mgr :=
  map (fun meta => mkMgr rb None meta floor_store 0 false) grids.

(* ---- helpers for the correspondence check ------------------------------------------------------------- *)

Definition thr_eqb (a b : thr) : bool :=
  match a, b with ThrNone, ThrNone => true | ThrErr, ThrErr => true | ThrAt x, ThrAt y => Z.eqb x y | _, _ => false end.
Definition optZ_eqb := opt_eqb Z.eqb.
Definition optb_eqb := opt_eqb Bool.eqb.
Definition err_eqb (a b : err) : bool :=
  match a, b with ECfg, ECfg => true | ESource, ESource => true | EBody, EBody => true | _, _ => false end.
Definition result_eqb (a b : result) : bool :=
  match a, b with
  | Served x, Served y => list_eqb optZ_eqb x y
  | Raised x, Raised y => err_eqb x y
  | _, _ => false
  end.
Definition obs_eqb (a b : obs) : bool :=
  match a, b with
  | OReq x, OReq y => result_eqb x y
  | OProbe c1 s1, OProbe c2 s2 => optb_eqb c1 c2 && optb_eqb s1 s2
  | OSeed h1 c1, OSeed h2 c2 => list_eqb (list_eqb addr_eqb) h1 h2 && Bool.eqb c1 c2
  | OSilent, OSilent => true
  | _, _ => false
  end.

(* script from a list: requests beyond the list are answered with a cacheable image *)
Definition script_of (l : list outcome) (k : nat) : outcome := nth k l (UOk true false (Z.of_nat k)).

(* members function from an association list (tile -> tiles of its meta tile); a tile that is not listed is
   its own meta tile *)
Fixpoint members_of (tbl : list (addr * list addr)) (a : addr) : list addr :=
  match tbl with
  | [] => [a]
  | (b, l) :: r => if addr_eqb a b then l else members_of r a
  end.

Definition entry_eqb (a b : entry) : bool := Z.eqb (e_content a) (e_content b) && Z.eqb (e_ts a) (e_ts b).

(* dump of the cache over a list of addresses: (content, ts) per address *)
Definition dump (c : cache) (univ : list addr) : list (option (Z * Z)) :=
  map (fun a => match get c a with Some e => Some (e_content e, e_ts e) | None => None end) univ.
